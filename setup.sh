#!/bin/bash
# Builds the framework from files on disk only (offline): Lean project (theorems + driver) and the Go harness.
set -e
cd "$(dirname "$0")"
export GOFLAGS=-mod=mod GOPROXY=off GOTOOLCHAIN=auto
unset GOSUMDB
mkdir -p build evidence
(cd lean && lake build Sth driver Sth.Obligations.C16 Sth.Obligations.FactsC03 Sth.Obligations.FactsC05 Sth.Obligations.FactsC12 Sth.Obligations.FactsC14 Sth.Obligations.FactsC17)
cp /repo/go.sum go/go.sum
(cd go && go build -tags verif -o ../build/harness .)
(cd go/cmd/extract && go build -o ../../../build/extract .)
echo "setup ok"
