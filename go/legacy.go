package main

import (
	"encoding/binary"
	"encoding/hex"
	"os"
	"sort"
	"strconv"
	"strings"
)

// writeLegacyStore writes a store in the legacy formats: version-2 single-file index
// ([u32 hdrlen][version=2, bits] then [u32 size][u32 bucket][record list] records), unversioned single-file
// primary ([u32 size][multihash][value] records) and an optional freelist with linear offsets.
//
//	recs:  key/value pairs in primary order
//	freed: indexes of records that are not in the index and are named by a pending freelist entry
//	bad:   indexes of records whose index entry carries an offset beyond the end of the primary
//	gone:  indexes of records that are in the primary and nowhere else (superseded long ago)
func writeLegacyStore(indexPath, dataPath string, bits int, recs [][2][]byte, freed, bad, gone map[int]bool, stale bool) (offsets []int64, err error) {
	var primary []byte
	offsets = make([]int64, len(recs))
	for i, kv := range recs {
		offsets[i] = int64(len(primary))
		var sz [4]byte
		binary.LittleEndian.PutUint32(sz[:], uint32(len(kv[0])+len(kv[1])))
		primary = append(primary, sz[:]...)
		primary = append(primary, kv[0]...)
		primary = append(primary, kv[1]...)
	}
	if err = os.WriteFile(dataPath, primary, 0o644); err != nil {
		return
	}
	// buckets
	type ent struct {
		key  []byte // stripped digest, stored in full as the prefix
		off  uint64
		size uint32
	}
	buckets := map[uint32][]ent{}
	mask := uint32(1)<<uint(bits) - 1
	for i, kv := range recs {
		if freed[i] || gone[i] {
			continue
		}
		dig := kv[0][2:] // multihash with one-byte code and one-byte length
		b := binary.LittleEndian.Uint32(dig) & mask
		off := uint64(offsets[i])
		if bad[i] {
			off = uint64(len(primary)) + 17 + uint64(i)
		}
		buckets[b] = append(buckets[b], ent{key: dig[bits/8:], off: off, size: uint32(len(kv[0]) + len(kv[1]))})
	}
	encode := func(es []ent) []byte {
		sort.Slice(es, func(i, j int) bool { return string(es[i].key) < string(es[j].key) })
		var out []byte
		for _, e := range es {
			var o [8]byte
			var s [4]byte
			binary.LittleEndian.PutUint64(o[:], e.off)
			binary.LittleEndian.PutUint32(s[:], e.size)
			out = append(out, o[:]...)
			out = append(out, s[:]...)
			out = append(out, byte(len(e.key)))
			out = append(out, e.key...)
		}
		return out
	}
	var idx []byte
	idx = append(idx, 2, 0, 0, 0, 2, byte(bits))
	record := func(b uint32, rl []byte) {
		var sz, bb [4]byte
		binary.LittleEndian.PutUint32(sz[:], uint32(len(rl)+4))
		binary.LittleEndian.PutUint32(bb[:], b)
		idx = append(idx, sz[:]...)
		idx = append(idx, bb[:]...)
		idx = append(idx, rl...)
	}
	var bs []int
	for b := range buckets {
		bs = append(bs, int(b))
	}
	sort.Ints(bs)
	if stale {
		// an earlier generation of every bucket with more than one entry: without its last entry
		for _, b := range bs {
			es := buckets[uint32(b)]
			if len(es) > 1 {
				record(uint32(b), encode(append([]ent{}, es[:len(es)-1]...)))
			}
		}
	}
	for _, b := range bs {
		record(uint32(b), encode(buckets[uint32(b)]))
	}
	if err = os.WriteFile(indexPath, idx, 0o644); err != nil {
		return
	}
	if len(freed) > 0 {
		var fl []byte
		var fi []int
		for i := range freed {
			fi = append(fi, i)
		}
		sort.Ints(fi)
		for _, i := range fi {
			var o [8]byte
			var s [4]byte
			binary.LittleEndian.PutUint64(o[:], uint64(offsets[i]))
			binary.LittleEndian.PutUint32(s[:], uint32(len(recs[i][0])+len(recs[i][1])))
			fl = append(fl, o[:]...)
			fl = append(fl, s[:]...)
		}
		err = os.WriteFile(indexPath+".free", fl, 0o644)
	}
	return
}

func parseIdxSet(s string) map[int]bool {
	out := map[int]bool{}
	for _, f := range strings.Split(s, ",") {
		if f == "" {
			continue
		}
		n, err := strconv.Atoi(f)
		if err == nil {
			out[n] = true
		}
	}
	return out
}

func parseRecs(s string) [][2][]byte {
	var out [][2][]byte
	for _, kv := range strings.Split(s, ",") {
		p := strings.Split(kv, ":")
		if len(p) != 2 {
			continue
		}
		k, _ := hex.DecodeString(p[0])
		v, _ := hex.DecodeString(p[1])
		if v == nil {
			v = []byte{}
		}
		out = append(out, [2][]byte{k, v})
	}
	return out
}
