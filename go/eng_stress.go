package main

import (
	"context"
	"fmt"
	"os"
	"path/filepath"
	"strconv"
	"sync"
	"time"

	"github.com/ipld/go-storethehash/store"
)

// stress: free-running concurrent composition of the public API with the real background goroutines, meant to be
// built with -race: writers, readers, removers, explicit Flush callers, storage-size queries, file-cache resizing,
// the flusher (Start) and both collectors with short intervals over tiny files. Used as the SEARCH for a concrete
// race report when a C16 obligation breaks, and as a cross-check of the extractor in thorough tier.

func init() {
	engines["stress"] = engineDef{
		newEngine: func() Engine { return &stressEngine{} },
		newGen:    func(r *RNG, tier string, profile string) Generator { return &stressGen{tier: tier, seed: r.Intn(1 << 20)} },
	}
}

type stressEngine struct{ dir string }

func (e *stressEngine) Close() {
	if e.dir != "" {
		os.RemoveAll(e.dir)
	}
}

func (e *stressEngine) Exec(op *Op) string {
	if op.Name != "stress" {
		return "bad-op"
	}
	ms, _ := strconv.Atoi(op.Arg("ms"))
	seed, _ := strconv.Atoi(op.Arg("seed"))
	dir, err := os.MkdirTemp("", "sthv-stress-")
	if err != nil {
		return "err"
	}
	e.dir = dir
	st, err := store.OpenStore(context.Background(), store.MultihashPrimary, filepath.Join(dir, "storethehash.data"), filepath.Join(dir, "storethehash.index"), false,
		store.IndexBitSize(8), store.IndexFileSize(256), store.PrimaryFileSize(256), store.FileCacheSize(3),
		store.GCInterval(25*time.Millisecond), store.GCTimeLimit(10*time.Millisecond), store.SyncInterval(3*time.Millisecond), store.BurstRate(1))
	if err != nil {
		return "open-err"
	}
	st.Start()
	stop := make(chan struct{})
	var wg sync.WaitGroup
	errs := make(chan string, 64)
	keyOf := func(i int) []byte { return mkMultihash(0x12, []byte{0x31, byte(i % 2), byte(i), 0, 7, byte(i >> 3)}) }
	run := func(id int, f func(r *RNG, i int)) {
		wg.Add(1)
		go func() {
			defer wg.Done()
			r := NewRNG(uint64(seed*31 + id))
			for i := 0; ; i++ {
				select {
				case <-stop:
					return
				default:
				}
				f(r, i)
			}
		}()
	}
	for w := 0; w < 3; w++ {
		w := w
		run(w, func(r *RNG, i int) {
			// each writer owns its keys: overlapping mutators of ONE key are known finding D17, not a data race
			k := keyOf(w*16 + r.Intn(12))
			v := make([]byte, 1+r.Intn(60))
			if r.Bool(75) {
				if err := st.Put(k, v); err != nil {
					select {
					case errs <- "put:" + err.Error():
					default:
					}
				}
			} else {
				st.Remove(k)
			}
		})
	}
	for rd := 0; rd < 2; rd++ {
		run(10+rd, func(r *RNG, i int) {
			k := keyOf(r.Intn(48))
			switch r.Intn(3) {
			case 0:
				st.Get(k)
			case 1:
				st.Has(k)
			default:
				st.GetSize(k)
			}
		})
	}
	run(20, func(r *RNG, i int) {
		st.Flush()
		time.Sleep(time.Duration(r.Intn(3)) * time.Millisecond)
	})
	run(21, func(r *RNG, i int) {
		switch r.Intn(4) {
		case 0:
			st.StorageSize()
		case 1:
			st.IndexStorageSize()
		case 2:
			st.PrimaryStorageSize()
		default:
			st.FreelistStorageSize()
		}
		time.Sleep(time.Millisecond)
	})
	run(22, func(r *RNG, i int) {
		st.SetFileCacheSize(r.Intn(5))
		time.Sleep(2 * time.Millisecond)
	})
	time.Sleep(time.Duration(ms) * time.Millisecond)
	close(stop)
	wg.Wait()
	cerr := st.Close()
	res := "ok"
	if cerr != nil {
		res = "close-err"
	}
	select {
	case e := <-errs:
		res += " firsterr=" + fmt.Sprintf("%q", e)
	default:
	}
	return res
}

type stressGen struct {
	tier string
	seed int
	done bool
}

func (g *stressGen) Next(r *RNG, hist []Op) (Op, bool) {
	if g.done {
		return Op{}, false
	}
	g.done = true
	ms := 1500
	if g.tier == "thorough" {
		ms = 20000
	}
	return mkOp("stress", "ms", strconv.Itoa(ms), "seed", strconv.Itoa(g.seed)), true
}
