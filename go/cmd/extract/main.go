// extract: a small go/ast fact extractor for /repo (stdlib only, no type checker).
//
// It re-reads the source on every run and writes Lean data:
//   - for every function reachable from the C16 entry points: the shared struct fields it reads or writes and the
//     locks held at that point (straight-line tracking of Lock/RLock/Unlock/RUnlock and `defer Unlock`), closed over
//     the call graph (calls with locks held propagate the caller's lockset);
//   - call-order facts and return-path facts used by other properties (Store.commit order, Store.Close order,
//     every return path of Store.Flush passes the notice-closing section, FileCache methods hold c.lock throughout).
//
// Precision limits (trusted, listed in DESIGN.md): no alias analysis; receivers and a fixed table of field types
// resolve selector chains; interface calls on PrimaryStorage resolve by method name to the primaries; bufio.Writer /
// os.File internals are attributed to the owning field (a method call on a field value counts as a write of the field).
package main

import (
	"fmt"
	"go/ast"
	"go/parser"
	"go/token"
	"os"
	"path/filepath"
	"sort"
	"strings"
)

type lockHeld struct {
	lock string // "Index.bucketLk"
	mode string // "r" or "w"
}

type access struct {
	field string // "Index.curPool"
	write bool
	locks []lockHeld
	fn    string
	line  int
}

type call struct {
	callee string // "Index.Flush"
	locks  []lockHeld
	line   int
	spawn  bool // `go` statement: the callee runs in a new goroutine (locks are not inherited)
}

type funcInfo struct {
	name         string
	accesses     []access
	calls        []call
	returns      int
	closes       []string          // channel-typed fields closed with close(...)
	acquires     map[string][2]int // lock -> number of Lock() / RLock() call sites in the function body
	chanAccesses []access          // accesses to channel-typed fields (not part of the race table)
	shadows      []string          // locals declared at the top of the body that a nested `:=` declares again
	returnLocks  [][]lockHeld      // per return statement: the locks held there
}

// struct type of well-known receiver / variable names per package directory
var structsOf = map[string]map[string]string{}

// field types that lead to other analysed structs
var fieldType = map[string]string{
	"Store.index":                "Index",
	"Store.freelist":             "FreeList",
	"Store.fileCache":            "FileCache",
	"primaryGC.primary":          "MultihashPrimary",
	"primaryGC.freeList":         "FreeList",
	"MultihashPrimary.gc":        "primaryGC",
	"Index.fileCache":            "FileCache",
	"MultihashPrimary.fileCache": "FileCache",
	"Iterator.index":             "Index",
	"Index.Primary":              "PrimaryStorage",
}

// lock fields and whether they are RW mutexes
var lockFields = map[string]bool{}

// struct fields (from the AST) with a coarse kind: "lock", "chan", "data"
var fieldKind = map[string]string{}

var funcs = map[string]*funcInfo{}

var fset = token.NewFileSet()

func main() {
	repo := "/repo"
	out := ""
	if len(os.Args) > 1 {
		repo = os.Args[1]
	}
	if len(os.Args) > 2 {
		out = os.Args[2]
	}
	dirs := []string{"store", "store/index", "store/primary/multihash", "store/primary/cid", "store/freelist", "store/filecache"}
	var files []*ast.File
	var fileDirs []string
	for _, d := range dirs {
		matches, _ := filepath.Glob(filepath.Join(repo, d, "*.go"))
		sort.Strings(matches)
		for _, m := range matches {
			if strings.HasSuffix(m, "_test.go") || strings.HasPrefix(filepath.Base(m), "verif_") {
				continue
			}
			f, err := parser.ParseFile(fset, m, nil, parser.ParseComments)
			if err != nil {
				fmt.Fprintln(os.Stderr, "parse error:", err)
				os.Exit(1)
			}
			files = append(files, f)
			fileDirs = append(fileDirs, d)
		}
	}
	// pass 1: struct fields
	for _, f := range files {
		for _, decl := range f.Decls {
			gd, ok := decl.(*ast.GenDecl)
			if !ok {
				continue
			}
			for _, spec := range gd.Specs {
				ts, ok := spec.(*ast.TypeSpec)
				if !ok {
					continue
				}
				st, ok := ts.Type.(*ast.StructType)
				if !ok {
					continue
				}
				tname := ts.Name.Name
				if f.Name.Name == "cidprimary" && tname != "CIDPrimary" {
					tname = "cid." + tname
				}
				for _, fld := range st.Fields.List {
					kind := "data"
					ts := typeString(fld.Type)
					switch {
					case strings.Contains(ts, "sync.RWMutex"), strings.Contains(ts, "verifhook.RWMutex"):
						// verifhook.Mutex / RWMutex are the sync types (aliases) unless the verif tag is set
						kind = "lock"
					case strings.Contains(ts, "sync.Mutex"), strings.Contains(ts, "verifhook.Mutex"):
						kind = "lock"
					case strings.HasPrefix(ts, "chan"):
						kind = "chan"
					case strings.Contains(ts, "sync.Once"):
						kind = "chan"
					}
					for _, n := range fld.Names {
						fieldKind[tname+"."+n.Name] = kind
						if kind == "lock" {
							lockFields[tname+"."+n.Name] = strings.Contains(ts, "RWMutex")
						}
					}
				}
			}
		}
	}
	// pass 2: functions
	for i, f := range files {
		for _, decl := range f.Decls {
			fd, ok := decl.(*ast.FuncDecl)
			if !ok || fd.Body == nil {
				continue
			}
			recvName, recvType := "", ""
			if fd.Recv != nil && len(fd.Recv.List) == 1 {
				recvType = strings.TrimPrefix(typeString(fd.Recv.List[0].Type), "*")
				if len(fd.Recv.List[0].Names) == 1 {
					recvName = fd.Recv.List[0].Names[0].Name
				}
			}
			name := fd.Name.Name
			if recvType != "" {
				name = recvType + "." + name
			} else {
				name = filepath.Base(fileDirs[i]) + "." + name
			}
			if f.Name.Name == "cidprimary" && recvType == "CIDPrimary" {
				name = "CIDPrimary." + fd.Name.Name
			}
			fi := &funcInfo{name: name}
			funcs[name] = fi
			env := map[string]string{}
			if recvName != "" {
				env[recvName] = recvType
			}
			// parameters of known struct types
			for _, p := range fd.Type.Params.List {
				t := strings.TrimPrefix(typeString(p.Type), "*")
				t = strings.TrimPrefix(t, "freelist.")
				t = strings.TrimPrefix(t, "mhprimary.")
				t = strings.TrimPrefix(t, "filecache.")
				if _, ok := fieldKind[t+"."+firstField(t)]; ok || isKnownStruct(t) {
					for _, n := range p.Names {
						env[n.Name] = t
					}
				}
			}
			w := &walker{fi: fi, env: env}
			w.block(fd.Body.List, nil)
			fi.shadows = shadowedLocals(fd)
		}
	}
	emit(out)
}

func (fi *funcInfo) acquire(lock string, mode int) {
	if fi.acquires == nil {
		fi.acquires = map[string][2]int{}
	}
	a := fi.acquires[lock]
	a[mode]++
	fi.acquires[lock] = a
}

// shadowedLocals lists the variables declared by the top-level statements of a function body that a nested short variable
// declaration declares again (`x := …` inside a branch, loop or closure where `x = …` updates the outer one). `err`, `ok`
// and `_` are idiomatic and not counted.
func shadowedLocals(fd *ast.FuncDecl) []string {
	top := map[string]bool{}
	topStmts := map[ast.Stmt]bool{}
	for _, st := range fd.Body.List {
		topStmts[st] = true
		switch x := st.(type) {
		case *ast.AssignStmt:
			if x.Tok == token.DEFINE {
				for _, l := range x.Lhs {
					if id, ok := l.(*ast.Ident); ok {
						top[id.Name] = true
					}
				}
			}
		case *ast.DeclStmt:
			if gd, ok := x.Decl.(*ast.GenDecl); ok {
				for _, sp := range gd.Specs {
					if vs, ok := sp.(*ast.ValueSpec); ok {
						for _, n := range vs.Names {
							top[n.Name] = true
						}
					}
				}
			}
		}
	}
	var out []string
	ast.Inspect(fd.Body, func(n ast.Node) bool {
		as, ok := n.(*ast.AssignStmt)
		if !ok || as.Tok != token.DEFINE || topStmts[as] {
			return true
		}
		for _, l := range as.Lhs {
			if id, ok := l.(*ast.Ident); ok && top[id.Name] && id.Name != "err" && id.Name != "ok" && id.Name != "_" {
				out = append(out, id.Name)
			}
		}
		return true
	})
	return out
}

func isKnownStruct(t string) bool {
	for k := range fieldKind {
		if strings.HasPrefix(k, t+".") {
			return true
		}
	}
	return false
}

func firstField(t string) string { return "" }

func typeString(e ast.Expr) string {
	switch x := e.(type) {
	case *ast.Ident:
		return x.Name
	case *ast.StarExpr:
		return "*" + typeString(x.X)
	case *ast.SelectorExpr:
		return typeString(x.X) + "." + x.Sel.Name
	case *ast.ArrayType:
		return "[]" + typeString(x.Elt)
	case *ast.MapType:
		return "map[" + typeString(x.Key) + "]" + typeString(x.Value)
	case *ast.ChanType:
		return "chan " + typeString(x.Value)
	case *ast.FuncType:
		return "func"
	case *ast.InterfaceType:
		return "interface"
	}
	return "?"
}

type walker struct {
	fi  *funcInfo
	env map[string]string
}

func copyLocks(l []lockHeld) []lockHeld { return append([]lockHeld(nil), l...) }

// resolve returns (structType, fieldName) if e is a selector X.f whose X resolves to a known struct, plus the
// struct type of the whole expression when it is itself a struct-typed field.
func (w *walker) typeOf(e ast.Expr) string {
	switch x := e.(type) {
	case *ast.Ident:
		return w.env[x.Name]
	case *ast.SelectorExpr:
		bt := w.typeOf(x.X)
		if bt == "" {
			return ""
		}
		return fieldType[bt+"."+x.Sel.Name]
	case *ast.ParenExpr:
		return w.typeOf(x.X)
	case *ast.StarExpr:
		return w.typeOf(x.X)
	}
	return ""
}

func (w *walker) fieldOf(e ast.Expr) string {
	sel, ok := e.(*ast.SelectorExpr)
	if !ok {
		return ""
	}
	bt := w.typeOf(sel.X)
	if bt == "" {
		return ""
	}
	f := bt + "." + sel.Sel.Name
	if _, ok := fieldKind[f]; ok {
		return f
	}
	return ""
}

func (w *walker) record(field string, write bool, locks []lockHeld, pos token.Pos) {
	if fieldKind[field] == "chan" {
		w.fi.chanAccesses = append(w.fi.chanAccesses, access{field: field, write: write, locks: copyLocks(locks), fn: w.fi.name, line: fset.Position(pos).Line})
	}
	if fieldKind[field] != "data" {
		return
	}
	w.fi.accesses = append(w.fi.accesses, access{field: field, write: write, locks: copyLocks(locks), fn: w.fi.name, line: fset.Position(pos).Line})
}

// expr scans an expression for reads, lock operations and calls; returns the updated lockset.
func (w *walker) expr(e ast.Expr, locks []lockHeld) []lockHeld {
	if e == nil {
		return locks
	}
	switch x := e.(type) {
	case *ast.CallExpr:
		// lock operations and method calls
		if sel, ok := x.Fun.(*ast.SelectorExpr); ok {
			if lf := w.fieldOf(sel.X); lf != "" && fieldKind[lf] == "lock" {
				switch sel.Sel.Name {
				case "Lock":
					w.fi.acquire(lf, 0)
					return append(locks, lockHeld{lf, "w"})
				case "RLock":
					w.fi.acquire(lf, 1)
					return append(locks, lockHeld{lf, "r"})
				case "Unlock", "RUnlock":
					for i := len(locks) - 1; i >= 0; i-- {
						if locks[i].lock == lf {
							return append(copyLocks(locks[:i]), locks[i+1:]...)
						}
					}
					return locks
				}
			}
			// arguments first
			for _, a := range x.Args {
				locks = w.expr(a, locks)
			}
			bt := w.typeOf(sel.X)
			if bt != "" {
				// method call on an analysed struct (or the PrimaryStorage interface)
				if bt == "PrimaryStorage" {
					w.fi.calls = append(w.fi.calls, call{callee: "MultihashPrimary." + sel.Sel.Name, locks: copyLocks(locks), line: fset.Position(x.Pos()).Line})
					w.fi.calls = append(w.fi.calls, call{callee: "CIDPrimary." + sel.Sel.Name, locks: copyLocks(locks), line: fset.Position(x.Pos()).Line})
				} else {
					w.fi.calls = append(w.fi.calls, call{callee: bt + "." + sel.Sel.Name, locks: copyLocks(locks), line: fset.Position(x.Pos()).Line})
				}
				// reading the pointer that leads there
				locks = w.expr(sel.X, locks)
				return locks
			}
			if f := w.fieldOf(sel.X); f != "" {
				// method call on a field value of foreign type (bufio.Writer, os.File, maps…): its internals are
				// attributed to the owning field; calls that only observe count as reads
				write := true
				switch sel.Sel.Name {
				case "Name", "Stat", "ReadAt", "Len", "Fd", "Get", "Sync", "Back", "Front":
					// observers (os.File.Sync writes nothing the program reads; Buckets.Get and list.Back only read)
					write = false
				}
				if ft := fieldType[f]; ft == "FileCache" {
					write = false
				}
				w.record(f, write, locks, x.Pos())
				// function-valued field: gc.updateIndex(...) is Index.Relocate
				return locks
			}
			locks = w.expr(sel.X, locks)
			return locks
		}
		// plain function call or function-valued field call
		if sel, ok := x.Fun.(*ast.SelectorExpr); ok {
			_ = sel
		}
		if id, ok := x.Fun.(*ast.Ident); ok {
			switch id.Name {
			case "delete":
				if len(x.Args) > 0 {
					if f := w.fieldOf(x.Args[0]); f != "" {
						w.record(f, true, locks, x.Pos())
					}
				}
			case "close":
				if len(x.Args) == 1 {
					if f := w.fieldOf(x.Args[0]); f != "" {
						w.fi.closes = append(w.fi.closes, f)
					}
				}
			case "append", "len", "cap", "make", "copy", "panic", "new":
			default:
				w.fi.calls = append(w.fi.calls, call{callee: "pkg." + id.Name, locks: copyLocks(locks), line: fset.Position(x.Pos()).Line})
			}
		}
		for _, a := range x.Args {
			locks = w.expr(a, locks)
		}
		if fl, ok := x.Fun.(*ast.FuncLit); ok {
			locks = w.block(fl.Body.List, locks)
		}
		return locks
	case *ast.SelectorExpr:
		if f := w.fieldOf(x); f != "" {
			w.record(f, false, locks, x.Pos())
		}
		return w.expr(x.X, locks)
	case *ast.IndexExpr:
		locks = w.expr(x.X, locks)
		return w.expr(x.Index, locks)
	case *ast.SliceExpr:
		locks = w.expr(x.X, locks)
		locks = w.expr(x.Low, locks)
		return w.expr(x.High, locks)
	case *ast.BinaryExpr:
		locks = w.expr(x.X, locks)
		return w.expr(x.Y, locks)
	case *ast.UnaryExpr:
		return w.expr(x.X, locks)
	case *ast.StarExpr:
		return w.expr(x.X, locks)
	case *ast.ParenExpr:
		return w.expr(x.X, locks)
	case *ast.TypeAssertExpr:
		return w.expr(x.X, locks)
	case *ast.CompositeLit:
		for _, el := range x.Elts {
			locks = w.expr(el, locks)
		}
		return locks
	case *ast.KeyValueExpr:
		return w.expr(x.Value, locks)
	case *ast.FuncLit:
		// a closure that is not called here: its body is analysed where it is spawned / deferred
		return locks
	}
	return locks
}

func (w *walker) lhs(e ast.Expr, locks []lockHeld) []lockHeld {
	switch x := e.(type) {
	case *ast.SelectorExpr:
		if f := w.fieldOf(x); f != "" {
			w.record(f, true, locks, x.Pos())
			return w.expr(x.X, locks)
		}
		return w.expr(x, locks)
	case *ast.IndexExpr:
		// element write: a write of the container the field holds
		if f := w.fieldOf(x.X); f != "" {
			w.record(f, true, locks, x.Pos())
			return w.expr(x.Index, locks)
		}
		locks = w.lhs(x.X, locks)
		return w.expr(x.Index, locks)
	case *ast.StarExpr:
		return w.lhs(x.X, locks)
	}
	return w.expr(e, locks)
}

func terminates(list []ast.Stmt) bool {
	if len(list) == 0 {
		return false
	}
	switch s := list[len(list)-1].(type) {
	case *ast.ReturnStmt:
		return true
	case *ast.BranchStmt:
		return s.Tok == token.BREAK || s.Tok == token.CONTINUE || s.Tok == token.GOTO
	case *ast.ExprStmt:
		if c, ok := s.X.(*ast.CallExpr); ok {
			if id, ok := c.Fun.(*ast.Ident); ok && id.Name == "panic" {
				return true
			}
		}
	}
	return false
}

func intersect(a, b []lockHeld) []lockHeld {
	var out []lockHeld
	for _, x := range a {
		for _, y := range b {
			if x == y {
				out = append(out, x)
				break
			}
		}
	}
	return out
}

func (w *walker) block(list []ast.Stmt, locks []lockHeld) []lockHeld {
	for _, s := range list {
		locks = w.stmt(s, locks)
	}
	return locks
}

func (w *walker) stmt(s ast.Stmt, locks []lockHeld) []lockHeld {
	switch x := s.(type) {
	case *ast.ExprStmt:
		return w.expr(x.X, locks)
	case *ast.AssignStmt:
		for _, r := range x.Rhs {
			locks = w.expr(r, locks)
		}
		for i, l := range x.Lhs {
			// track local aliases of analysed structs: `gc := mp.gc`, `idx := s.index`
			if id, ok := l.(*ast.Ident); ok && i < len(x.Rhs) {
				if t := w.typeOf(x.Rhs[i]); t != "" && t != "PrimaryStorage" {
					w.env[id.Name] = t
				}
				if ta, ok := x.Rhs[i].(*ast.TypeAssertExpr); ok {
					t := strings.TrimPrefix(typeString(ta.Type), "*")
					t = strings.TrimPrefix(t, "mhprimary.")
					if isKnownStruct(t) {
						w.env[id.Name] = t
					}
				}
				continue
			}
			locks = w.lhs(l, locks)
		}
		return locks
	case *ast.IncDecStmt:
		return w.lhs(x.X, locks)
	case *ast.DeclStmt:
		if gd, ok := x.Decl.(*ast.GenDecl); ok {
			for _, sp := range gd.Specs {
				if vs, ok := sp.(*ast.ValueSpec); ok {
					for _, v := range vs.Values {
						locks = w.expr(v, locks)
					}
				}
			}
		}
		return locks
	case *ast.ReturnStmt:
		w.fi.returns++
		w.fi.returnLocks = append(w.fi.returnLocks, append([]lockHeld(nil), locks...))
		for _, r := range x.Results {
			locks = w.expr(r, locks)
		}
		return locks
	case *ast.DeferStmt:
		// `defer X.Unlock()` keeps the lock to the end of the function: nothing to do. Other deferred calls are
		// analysed with the current lockset (an over-approximation of what is held when they run).
		if sel, ok := x.Call.Fun.(*ast.SelectorExpr); ok {
			if lf := w.fieldOf(sel.X); lf != "" && fieldKind[lf] == "lock" {
				return locks
			}
		}
		if fl, ok := x.Call.Fun.(*ast.FuncLit); ok {
			w.block(fl.Body.List, copyLocks(locks))
			return locks
		}
		w.expr(x.Call, copyLocks(locks))
		return locks
	case *ast.GoStmt:
		if fl, ok := x.Call.Fun.(*ast.FuncLit); ok {
			// a new goroutine: analysed as its own function with an empty lockset
			name := fmt.Sprintf("%s$go%d", w.fi.name, fset.Position(x.Pos()).Line)
			fi := &funcInfo{name: name}
			funcs[name] = fi
			env := map[string]string{}
			for k, v := range w.env {
				env[k] = v
			}
			(&walker{fi: fi, env: env}).block(fl.Body.List, nil)
			w.fi.calls = append(w.fi.calls, call{callee: name, line: fset.Position(x.Pos()).Line, spawn: true})
			return locks
		}
		if sel, ok := x.Call.Fun.(*ast.SelectorExpr); ok {
			if bt := w.typeOf(sel.X); bt != "" {
				w.fi.calls = append(w.fi.calls, call{callee: bt + "." + sel.Sel.Name, line: fset.Position(x.Pos()).Line, spawn: true})
			}
		}
		return locks
	case *ast.IfStmt:
		if x.Init != nil {
			locks = w.stmt(x.Init, locks)
		}
		locks = w.expr(x.Cond, locks)
		thenL := w.block(x.Body.List, copyLocks(locks))
		thenTerm := terminates(x.Body.List)
		elseL := copyLocks(locks)
		elseTerm := false
		if x.Else != nil {
			switch e := x.Else.(type) {
			case *ast.BlockStmt:
				elseL = w.block(e.List, copyLocks(locks))
				elseTerm = terminates(e.List)
			default:
				elseL = w.stmt(e, copyLocks(locks))
			}
		}
		switch {
		case thenTerm && elseTerm:
			return locks
		case thenTerm:
			return elseL
		case elseTerm:
			return thenL
		}
		return intersect(thenL, elseL)
	case *ast.ForStmt:
		if x.Init != nil {
			locks = w.stmt(x.Init, locks)
		}
		locks = w.expr(x.Cond, locks)
		inner := w.block(x.Body.List, copyLocks(locks))
		if x.Post != nil {
			w.stmt(x.Post, inner)
		}
		// the condition is evaluated again after each iteration with whatever the body left held
		w.expr(x.Cond, inner)
		return locks
	case *ast.RangeStmt:
		locks = w.expr(x.X, locks)
		w.block(x.Body.List, copyLocks(locks))
		return locks
	case *ast.BlockStmt:
		return w.block(x.List, locks)
	case *ast.SwitchStmt:
		if x.Init != nil {
			locks = w.stmt(x.Init, locks)
		}
		locks = w.expr(x.Tag, locks)
		for _, c := range x.Body.List {
			cc := c.(*ast.CaseClause)
			l2 := copyLocks(locks)
			for _, e := range cc.List {
				l2 = w.expr(e, l2)
			}
			w.block(cc.Body, l2)
		}
		return locks
	case *ast.TypeSwitchStmt:
		for _, c := range x.Body.List {
			cc := c.(*ast.CaseClause)
			w.block(cc.Body, copyLocks(locks))
		}
		return locks
	case *ast.SelectStmt:
		for _, c := range x.Body.List {
			cc := c.(*ast.CommClause)
			l2 := copyLocks(locks)
			if cc.Comm != nil {
				l2 = w.stmt(cc.Comm, l2)
			}
			w.block(cc.Body, l2)
		}
		return locks
	case *ast.SendStmt:
		locks = w.expr(x.Chan, locks)
		return w.expr(x.Value, locks)
	case *ast.LabeledStmt:
		return w.stmt(x.Stmt, locks)
	}
	return locks
}
