package main

import (
	"fmt"
	"sort"
	"strings"
)

// writeOrderFacts emits call-order and shape facts used by other properties.
func writeOrderFacts(sb *strings.Builder) {
	order := func(fn string, interesting []string) []string {
		fi := funcs[fn]
		if fi == nil {
			return nil
		}
		cs := append([]call(nil), fi.calls...)
		sort.SliceStable(cs, func(i, j int) bool { return cs[i].line < cs[j].line })
		var out []string
		for _, c := range cs {
			for _, want := range interesting {
				if c.callee == want && (len(out) == 0 || out[len(out)-1] != want) {
					out = append(out, want)
				}
			}
		}
		return out
	}
	q := func(l []string) string {
		s := make([]string, len(l))
		for i, x := range l {
			s[i] = fmt.Sprintf("%q", x)
		}
		return "[" + strings.Join(s, ", ") + "]"
	}
	// Store.commit: primary, index, freelist
	fmt.Fprintf(sb, "def commitOrder : List String := %s\n", q(order("Store.commit", []string{"MultihashPrimary.Flush", "Index.Flush", "FreeList.Flush"})))
	// Store.Close: primary before index before freelist
	fmt.Fprintf(sb, "def closeOrder : List String := %s\n", q(order("Store.Close", []string{"MultihashPrimary.Close", "Index.Close", "FreeList.Close"})))
	// FileCache: every exported method's accesses hold FileCache.lock exclusively
	fcOK := true
	n := 0
	for _, r := range rows {
		if strings.HasPrefix(r.field, "FileCache.") {
			n++
			if holds(r.locks, "FileCache.lock") != "w" {
				fcOK = false
			}
		}
	}
	fmt.Fprintf(sb, "def fileCacheRows : Nat := %d\ndef fileCacheAllLocked : Bool := %v\n", n, fcOK && n > 0)
	// ... and is ONE critical section: c.lock.Lock() has exactly one call site per exported method (an Unlock/Lock pair inside
	// a method would split it into two sections, with the cache state free to change in between)
	var fcs []string
	var fcNames []string
	for name := range funcs {
		if strings.HasPrefix(name, "FileCache.") && len(name) > 10 && name[10] >= 'A' && name[10] <= 'Z' {
			fcNames = append(fcNames, name)
		}
	}
	sort.Strings(fcNames)
	for _, name := range fcNames {
		a := funcs[name].acquires["FileCache.lock"]
		fcs = append(fcs, fmt.Sprintf("(%q, %d)", name, a[0]+a[1]))
	}
	fmt.Fprintf(sb, "/-- (exported FileCache method, call sites of c.lock.Lock()) -/\ndef fileCacheSections : List (String × Nat) := [%s]\n", strings.Join(fcs, ", "))
	// Flush as a barrier (C13, C11): every return statement of the three Flush functions is reached with flushLock held - a caller
	// never returns without having queued behind a flush that is already running - and the collector hands the freelist over, THEN
	// flushes the primary, THEN applies the freelist
	var fb []string
	for _, fl := range [][2]string{{"MultihashPrimary.Flush", "MultihashPrimary.flushLock"}, {"Index.Flush", "Index.flushLock"}, {"FreeList.Flush", "FreeList.flushLock"}} {
		fi := funcs[fl[0]]
		n, held := 0, 0
		if fi != nil {
			n = len(fi.returnLocks)
			for _, ls := range fi.returnLocks {
				if holds(ls, fl[1]) == "w" {
					held++
				}
			}
		}
		fb = append(fb, fmt.Sprintf("(%q, %d, %d)", fl[0], n, held))
	}
	fmt.Fprintf(sb, "/-- (Flush function, return statements, return statements reached with its flushLock held) -/\ndef flushBarrier : List (String × Nat × Nat) := [%s]\n", strings.Join(fb, ", "))
	fmt.Fprintf(sb, "def gcHandoverOrder : List String := %s\n", q(order("primaryGC.gc", []string{"FreeList.ToGC", "MultihashPrimary.Flush", "pkg.processFreeList"})))
	// Store.Flush: number of return statements and number of notice-closing sections (close(s.flushNotice))
	fmt.Fprintf(sb, "def flushReturns : Nat := %d\n", funcs["Store.Flush"].returns)
	writes := 0
	for _, c := range funcs["Store.Flush"].closes {
		if c == "Store.flushNotice" {
			writes++
		}
	}
	fmt.Fprintf(sb, "def flushNoticeClears : Nat := %d\n", writes)
	// read-modify-write sections (C05, C13): a mutator of the index / freelist / primary pool acquires its lock exactly once,
	// exclusively, and every access to the struct's data and every call to its methods inside the function holds it
	immutableField := map[string]bool{}
	for f := range fieldKind {
		immutableField[f] = true
	}
	for _, r := range rows {
		if r.write {
			immutableField[r.field] = false // written after construction by some entry point
		}
	}
	// does a function (or anything it calls) touch data of the struct that is written after construction?
	touchMemo := map[string]bool{}
	var touches func(fn, strct string, depth int) bool
	touches = func(fn, strct string, depth int) bool {
		key := fn + "|" + strct
		if v, ok := touchMemo[key]; ok {
			return v
		}
		touchMemo[key] = false
		fi := funcs[fn]
		if fi == nil || depth > 8 {
			return false
		}
		res := false
		for _, ac := range fi.accesses {
			if strings.HasPrefix(ac.field, strct+".") && !immutableField[ac.field] {
				res = true
			}
		}
		for _, c := range fi.calls {
			for _, t := range resolve(c.callee) {
				if touches(t, strct, depth+1) {
					res = true
				}
			}
		}
		touchMemo[key] = res
		return res
	}
	rmw := func(fn, lock, strct string) string {
		fi := funcs[fn]
		if fi == nil {
			return fmt.Sprintf("(%q, 0, 0, false, 0)", fn)
		}
		a := fi.acquires[lock]
		ok := true
		n := 0
		for _, ac := range fi.accesses {
			if strings.HasPrefix(ac.field, strct+".") && fieldKind[ac.field] == "data" && !immutableField[ac.field] {
				n++
				if holds(ac.locks, lock) != "w" {
					ok = false
				}
			}
		}
		for _, c := range fi.calls {
			if strings.HasPrefix(c.callee, strct+".") && touches(c.callee, strct, 0) {
				n++
				if holds(c.locks, lock) != "w" {
					ok = false
				}
			}
		}
		return fmt.Sprintf("(%q, %d, %d, %v, %d)", fn, a[0], a[1], ok, n)
	}
	fmt.Fprintf(sb, "/-- (function, Lock() call sites, RLock() call sites, every access and method call of the struct holds the lock exclusively, their number) -/\n")
	fmt.Fprintf(sb, "def rmwSections : List (String × Nat × Nat × Bool × Nat) := [%s]\n", strings.Join([]string{
		rmw("Index.Put", "Index.bucketLk", "Index"), rmw("Index.Update", "Index.bucketLk", "Index"), rmw("Index.Remove", "Index.bucketLk", "Index"),
		rmw("Index.Relocate", "Index.bucketLk", "Index"),
		rmw("FreeList.Put", "FreeList.poolLk", "FreeList"), rmw("MultihashPrimary.Put", "MultihashPrimary.poolLk", "MultihashPrimary"),
	}, ", "))
	// Store.flushTick: every access to the flush notice holds rateLk exclusively (register = test and create in one section)
	ftOK, ftN := true, 0
	if fi := funcs["Store.flushTick"]; fi != nil {
		for _, ac := range fi.chanAccesses {
			if ac.field == "Store.flushNotice" {
				ftN++
				if holds(ac.locks, "Store.rateLk") != "w" {
					ftOK = false
				}
			}
		}
	}
	fmt.Fprintf(sb, "def flushTickNoticeExclusive : Bool := %v\ndef flushTickNoticeAccesses : Nat := %d\n", ftOK, ftN)
	// goroutine shapes (C17): the loops close their done channel, Close waits for it
	has := func(fn, ch string) bool {
		fi := funcs[fn]
		if fi == nil {
			return false
		}
		for _, c := range fi.closes {
			if c == ch {
				return true
			}
		}
		return false
	}
	// the background loops keep their handshake state in locals (`gcDone`, timers): none of them is declared again in a branch
	var sh []string
	for _, fn := range []string{"Store.run", "Index.garbageCollector", "primaryGC.run", "Store.Close", "Index.Close", "MultihashPrimary.Close", "primaryGC.close"} {
		if fi := funcs[fn]; fi != nil {
			for _, v := range fi.shadows {
				sh = append(sh, fn+":"+v)
			}
		} else {
			sh = append(sh, fn+":<missing>")
		}
	}
	fmt.Fprintf(sb, "def lifecycleShadowedLocals : List String := %s\n", q(sh))
	fmt.Fprintf(sb, "def runClosesClosed : Bool := %v\n", has("Store.run", "Store.closed"))
	fmt.Fprintf(sb, "def igcClosesDone : Bool := %v\n", has("Index.garbageCollector", "Index.gcDone"))
	fmt.Fprintf(sb, "def pgcClosesDone : Bool := %v\n\n", has("primaryGC.run", "primaryGC.done"))
}
