package main

import (
	"fmt"
	"sort"
	"strings"
)

// writeOrderFacts emits call-order and shape facts used by other properties.
func writeOrderFacts(sb *strings.Builder) {
	order := func(fn string, interesting []string) []string {
		fi := funcs[fn]
		if fi == nil {
			return nil
		}
		cs := append([]call(nil), fi.calls...)
		sort.SliceStable(cs, func(i, j int) bool { return cs[i].line < cs[j].line })
		var out []string
		for _, c := range cs {
			for _, want := range interesting {
				if c.callee == want && (len(out) == 0 || out[len(out)-1] != want) {
					out = append(out, want)
				}
			}
		}
		return out
	}
	q := func(l []string) string {
		s := make([]string, len(l))
		for i, x := range l {
			s[i] = fmt.Sprintf("%q", x)
		}
		return "[" + strings.Join(s, ", ") + "]"
	}
	// Store.commit: primary, index, freelist
	fmt.Fprintf(sb, "def commitOrder : List String := %s\n", q(order("Store.commit", []string{"MultihashPrimary.Flush", "Index.Flush", "FreeList.Flush"})))
	// Store.Close: primary before index before freelist
	fmt.Fprintf(sb, "def closeOrder : List String := %s\n", q(order("Store.Close", []string{"MultihashPrimary.Close", "Index.Close", "FreeList.Close"})))
	// FileCache: every exported method's accesses hold FileCache.lock exclusively
	fcOK := true
	n := 0
	for _, r := range rows {
		if strings.HasPrefix(r.field, "FileCache.") {
			n++
			if holds(r.locks, "FileCache.lock") != "w" {
				fcOK = false
			}
		}
	}
	fmt.Fprintf(sb, "def fileCacheRows : Nat := %d\ndef fileCacheAllLocked : Bool := %v\n", n, fcOK && n > 0)
	// Store.Flush: number of return statements and number of notice-closing sections (close(s.flushNotice))
	fmt.Fprintf(sb, "def flushReturns : Nat := %d\n", funcs["Store.Flush"].returns)
	writes := 0
	for _, c := range funcs["Store.Flush"].closes {
		if c == "Store.flushNotice" {
			writes++
		}
	}
	fmt.Fprintf(sb, "def flushNoticeClears : Nat := %d\n", writes)
	// goroutine shapes (C17): the loops close their done channel, Close waits for it
	has := func(fn, ch string) bool {
		fi := funcs[fn]
		if fi == nil {
			return false
		}
		for _, c := range fi.closes {
			if c == ch {
				return true
			}
		}
		return false
	}
	fmt.Fprintf(sb, "def runClosesClosed : Bool := %v\n", has("Store.run", "Store.closed"))
	fmt.Fprintf(sb, "def igcClosesDone : Bool := %v\n", has("Index.garbageCollector", "Index.gcDone"))
	fmt.Fprintf(sb, "def pgcClosesDone : Bool := %v\n\n", has("primaryGC.run", "primaryGC.done"))
}
