package main

import (
	"context"
	"encoding/binary"
	"encoding/hex"
	"encoding/json"
	"errors"
	"fmt"
	"hash/fnv"
	"io"
	"os"
	"path/filepath"
	"sort"
	"strconv"
	"strings"
	"time"

	"github.com/ipld/go-storethehash/store"
	"github.com/ipld/go-storethehash/store/index"
	mhprimary "github.com/ipld/go-storethehash/store/primary/multihash"
	"github.com/ipld/go-storethehash/store/types"
)

// seq: the real store.Store driven sequentially; no background goroutine runs (sync and GC intervals
// are disabled, the store is never Started), so the only nondeterminism is the flush order, which is
// read back from the appended index log bytes.

func init() {
	engines["seq"] = engineDef{
		newEngine: func() Engine { return &seqEngine{} },
		newGen:    func(r *RNG, tier string, profile string) Generator { return newSeqGen(r, tier, profile) },
	}
}

type seqEngine struct {
	dir       string
	indexPath string
	dataPath  string
	st        *store.Store
	mp        *mhprimary.MultihashPrimary
	kind      string
	ifs       uint32
	lastOpts  []store.Option
	lastKind  string
	lastImm   bool
	lastBits  int
}

func copyDir(src, dst string) {
	ents, _ := os.ReadDir(src)
	for _, ent := range ents {
		if ent.IsDir() {
			continue
		}
		data, err := os.ReadFile(filepath.Join(src, ent.Name()))
		if err == nil {
			os.WriteFile(filepath.Join(dst, ent.Name()), data, 0o644)
		}
	}
}

func (e *seqEngine) Close() {
	if e.st != nil {
		e.st.Close()
	}
	if e.dir != "" {
		os.RemoveAll(e.dir)
	}
}

// countCtx is a context whose Err() reports DeadlineExceeded after `left` polls.
type countCtx struct {
	context.Context
	left int // <0: unlimited
}

func (c *countCtx) Err() error {
	if c.left < 0 {
		return nil
	}
	if c.left == 0 {
		return context.DeadlineExceeded
	}
	c.left--
	return nil
}

func hexOrEmpty(b []byte) string { return hex.EncodeToString(b) }

func fnvHex(b []byte) string {
	h := fnv.New64a()
	h.Write(b)
	return strconv.FormatUint(h.Sum64(), 10)
}

func (e *seqEngine) errEnum(err error, key []byte) string {
	if err == nil {
		return "ok"
	}
	if errors.Is(err, types.ErrKeyExists) {
		return "err:key-exists"
	}
	if errors.Is(err, types.ErrKeyTooShort) {
		return "err:key-too-short"
	}
	if key != nil && e.st != nil {
		if _, perr := e.st.Primary().IndexKey(key); perr != nil {
			return "err:bad-key"
		}
	}
	return "err:other"
}

// indexRecordsSince parses the index log records appended after (fileNum, length) and returns their buckets.
func (e *seqEngine) indexRecordsSince(fileNum uint32, length int64) []string {
	var order []string
	for fn := fileNum; ; fn++ {
		data, err := os.ReadFile(fmt.Sprintf("%s.%d", e.indexPath, fn))
		if err != nil {
			break
		}
		pos := int64(0)
		if fn == fileNum {
			pos = length
		}
		for pos+8 <= int64(len(data)) {
			size := binary.LittleEndian.Uint32(data[pos:])
			if size&(1<<31) != 0 {
				pos += 4 + int64(size^(1<<31))
				continue
			}
			order = append(order, strconv.FormatUint(uint64(binary.LittleEndian.Uint32(data[pos+4:])), 10))
			pos += 4 + int64(size)
		}
	}
	return order
}

func (e *seqEngine) Exec(op *Op) string {
	if e.st == nil && op.Name != "open" && op.Name != "disk" && op.Name != "rmsnap" && op.Name != "badsnap" && op.Name != "legacy" {
		return "bad-op"
	}
	switch op.Name {
	case "open":
		if e.st != nil {
			return "bad-op"
		}
		if e.dir == "" {
			dir, err := os.MkdirTemp("", "sthv-seq-")
			if err != nil {
				return "err:other"
			}
			e.dir = dir
			e.indexPath = filepath.Join(dir, "storethehash.index")
			e.dataPath = filepath.Join(dir, "storethehash.data")
		}
		bits, _ := strconv.Atoi(op.Arg("bits"))
		ifs, _ := strconv.Atoi(op.Arg("ifs"))
		pfs, _ := strconv.Atoi(op.Arg("pfs"))
		imm := op.Arg("imm") == "1"
		kind := store.MultihashPrimary
		if op.Arg("kind") == "cid" {
			kind = store.CIDPrimary
		}
		e.kind = op.Arg("kind")
		e.lastOpts = []store.Option{store.IndexBitSize(uint8(bits)), store.IndexFileSize(uint32(ifs)), store.PrimaryFileSize(uint32(pfs)),
			store.GCInterval(0), store.SyncInterval(time.Hour), store.FileCacheSize(3)}
		e.lastKind = kind
		e.lastImm = imm
		st, err := store.OpenStore(context.Background(), kind, e.dataPath, e.indexPath, imm, e.lastOpts...)
		if err != nil {
			var e1 types.ErrIndexWrongBitSize
			var e2 types.ErrIndexWrongFileSize
			var e3 types.ErrPrimaryWrongFileSize
			switch {
			case errors.As(err, &e2):
				return "err:wrong-index-file-size"
			case errors.As(err, &e3):
				return "err:wrong-primary-file-size"
			case errors.As(err, &e1):
				return "err:wrong-bit-size"
			}
			return "err:other"
		}
		e.st = st
		e.mp, _ = st.Primary().(*mhprimary.MultihashPrimary)
		if e.mp != nil {
			st.VerifAttachGC()
		}
		res := "ok"
		if e.lastBits != 0 && bits != e.lastBits {
			// the index was re-bucketed: the order in which the new index's pool was flushed is read back from its files
			res = "ok torder=" + strings.Join(e.indexRecordsSince(0, 0), ",")
		}
		e.lastBits = bits
		return res
	case "put":
		k, _ := hex.DecodeString(op.Arg("k"))
		var v []byte
		if op.Arg("v") != "nil" {
			v, _ = hex.DecodeString(op.Arg("v"))
			if v == nil {
				v = []byte{}
			}
		}
		return e.errEnum(e.st.Put(k, v), k)
	case "get":
		k, _ := hex.DecodeString(op.Arg("k"))
		v, found, err := e.st.Get(k)
		if err != nil {
			return e.errEnum(err, k)
		}
		if !found {
			return "absent"
		}
		return "found v=" + hexOrEmpty(v)
	case "has":
		k, _ := hex.DecodeString(op.Arg("k"))
		has, err := e.st.Has(k)
		if err != nil {
			return e.errEnum(err, k)
		}
		return strconv.FormatBool(has)
	case "size":
		k, _ := hex.DecodeString(op.Arg("k"))
		sz, found, err := e.st.GetSize(k)
		if err != nil {
			return e.errEnum(err, k)
		}
		if !found {
			return "absent"
		}
		return "found n=" + strconv.Itoa(int(sz))
	case "rm":
		k, _ := hex.DecodeString(op.Arg("k"))
		removed, err := e.st.Remove(k)
		if err != nil {
			return e.errEnum(err, k)
		}
		return strconv.FormatBool(removed)
	case "flush":
		fn, ln := e.st.Index().VerifFileState()
		err := e.st.Flush()
		order := e.indexRecordsSince(fn, int64(ln))
		if err != nil {
			return "err:other order=" + strings.Join(order, ",")
		}
		return "ok order=" + strings.Join(order, ",")
	case "iter":
		fn, ln := e.st.Index().VerifFileState()
		it := e.st.NewIterator()
		order := e.indexRecordsSince(fn, int64(ln))
		var items []string
		for {
			k, v, err := it.Next()
			if err == io.EOF {
				break
			}
			if err != nil {
				return "err:other order=" + strings.Join(order, ",")
			}
			items = append(items, hex.EncodeToString(k)+":"+hex.EncodeToString(v))
		}
		sort.Strings(items)
		return "ok order=" + strings.Join(order, ",") + " items=" + strings.Join(items, ",")
	case "close":
		fn, ln := e.st.Index().VerifFileState()
		err := e.st.Close()
		order := e.indexRecordsSince(fn, int64(ln))
		e.st = nil
		e.mp = nil
		if err != nil {
			return "err:other order=" + strings.Join(order, ",")
		}
		return "ok order=" + strings.Join(order, ",")
	case "paths":
		// C02 oracle on the implementation alone: the live bucket table at Close, the table rebuilt from the
		// snapshot and the table rebuilt by rescanning the log must be equal.
		idx0 := e.st.Index()
		fn, ln := idx0.VerifFileState()
		err := e.st.Close()
		order := e.indexRecordsSince(fn, int64(ln))
		e.st = nil
		e.mp = nil
		if err != nil {
			return "err:close order=" + strings.Join(order, ",")
		}
		t0 := idx0.VerifBuckets() // the table as Close left it (after its final flush)
		verdict := "same"
		for i, drop := range []bool{false, true} {
			cp, err := os.MkdirTemp("", "sthv-seq-cp-")
			if err != nil {
				return "err:other order=" + strings.Join(order, ",")
			}
			copyDir(e.dir, cp)
			if drop {
				os.Remove(filepath.Join(cp, "storethehash.index.buckets"))
			}
			opts := e.lastOpts
			st2, err := store.OpenStore(context.Background(), e.lastKind, filepath.Join(cp, "storethehash.data"), filepath.Join(cp, "storethehash.index"), e.lastImm, opts...)
			if err != nil {
				verdict = fmt.Sprintf("open-failed-path%d", i)
				os.RemoveAll(cp)
				break
			}
			t := st2.Index().VerifBuckets()
			st2.Close()
			os.RemoveAll(cp)
			if len(t) != len(t0) {
				verdict = fmt.Sprintf("differ-path%d-len", i)
				break
			}
			for b := range t {
				if t[b] != t0[b] {
					verdict = fmt.Sprintf("differ-path%d-bucket%d:%d!=%d", i, b, t[b], t0[b])
					break
				}
			}
			if verdict != "same" {
				break
			}
		}
		// reopen the original with its snapshot
		st, err := store.OpenStore(context.Background(), e.lastKind, e.dataPath, e.indexPath, e.lastImm, e.lastOpts...)
		if err != nil {
			return "err:reopen order=" + strings.Join(order, ",") + " tables=" + verdict
		}
		e.st = st
		e.mp, _ = st.Primary().(*mhprimary.MultihashPrimary)
		if e.mp != nil {
			st.VerifAttachGC()
		}
		return "ok order=" + strings.Join(order, ",") + " tables=" + verdict
	case "igc":
		budget, _ := strconv.Atoi(op.Arg("budget"))
		ctx := &countCtx{Context: context.Background(), left: budget}
		_, _, err := e.st.Index().VerifGC(ctx, op.Arg("scanfree") == "1")
		if err == context.DeadlineExceeded {
			return "deadline"
		}
		if err != nil {
			return "err"
		}
		return "ok"
	case "pgc":
		if e.mp == nil {
			return "bad-op"
		}
		budget, _ := strconv.Atoi(op.Arg("budget"))
		lowuse, _ := strconv.Atoi(op.Arg("lowuse"))
		var reclaimed int64
		var err error
		if op.Arg("tl") == "1" {
			// the collector's own time limit, set so low that it has expired by the time the first file is done: the freelist
			// phase is not subject to it, so a cycle hands over, applies and visits exactly one file
			reclaimed, err = e.mp.VerifGC(context.Background(), int64(lowuse), time.Nanosecond)
		} else {
			ctx := &countCtx{Context: context.Background(), left: budget}
			reclaimed, err = e.mp.VerifGC(ctx, int64(lowuse), 0)
		}
		if err == context.DeadlineExceeded {
			return "deadline"
		}
		if err != nil {
			return "err"
		}
		return "ok reclaimed=" + strconv.FormatInt(reclaimed, 10)
	case "acct":
		// C13: current locations (named by live index entries), recorded locations (freelist pool + file + .gc)
		var cur []string
		idx := e.st.Index()
		for _, b := range idx.VerifNonEmptyBuckets() {
			data, ok, err := idx.VerifBucketRecords(b)
			if err != nil {
				return "err"
			}
			if !ok {
				continue
			}
			rl := index.NewRecordListRaw(data)
			it := rl.Iter()
			for !it.Done() {
				r := it.Next()
				cur = append(cur, fmt.Sprintf("%d:%d", r.Block.Offset, r.Block.Size))
			}
		}
		sort.Strings(cur)
		var fl []string
		for _, b := range e.st.VerifFreeList().VerifPool() {
			fl = append(fl, fmt.Sprintf("%d:%d", b.Offset, b.Size))
		}
		for _, name := range []string{e.indexPath + ".free", e.indexPath + ".free.gc"} {
			data, err := os.ReadFile(name)
			if err != nil {
				continue
			}
			for i := 0; i+12 <= len(data); i += 12 {
				fl = append(fl, fmt.Sprintf("%d:%d", binary.LittleEndian.Uint64(data[i:]), binary.LittleEndian.Uint32(data[i+8:])))
			}
		}
		sort.Strings(fl)
		return "cur=" + strings.Join(cur, ",") + " fl=" + strings.Join(fl, ",")
	case "legacy":
		// write a store in the legacy single-file formats into a fresh directory (C10); the next open upgrades it
		if e.st != nil {
			return "bad-op"
		}
		if e.dir == "" {
			dir, err := os.MkdirTemp("", "sthv-seq-")
			if err != nil {
				return "err"
			}
			e.dir = dir
			e.indexPath = filepath.Join(dir, "storethehash.index")
			e.dataPath = filepath.Join(dir, "storethehash.data")
		}
		bits, _ := strconv.Atoi(op.Arg("bits"))
		recs := parseRecs(op.Arg("recs"))
		offs, err := writeLegacyStore(e.indexPath, e.dataPath, bits, recs, parseIdxSet(op.Arg("freed")), parseIdxSet(op.Arg("bad")), parseIdxSet(op.Arg("gone")), op.Arg("stale") == "1")
		if err != nil {
			return "err"
		}
		if t, _ := strconv.Atoi(op.Arg("tear")); t > 0 {
			// cut the legacy primary inside its last record
			if fi, err := os.Stat(e.dataPath); err == nil && fi.Size() > int64(t) {
				os.Truncate(e.dataPath, fi.Size()-int64(t))
			}
		}
		e.lastBits = bits
		strs := make([]string, len(offs))
		for i, o := range offs {
			strs[i] = strconv.FormatInt(o, 10)
		}
		// the legacy directory as written, byte for byte (input of the Lean model of the upgrade)
		return "ok offsets=" + strings.Join(strs, ",") + " img=" + dumpFiles(readDirFiles(e.dir))
	case "chunks":
		// sizes of the numbered index and primary files, and where the index points for each given key
		var sb strings.Builder
		sizesOf := func(base string) string {
			var out []string
			for n := 0; ; n++ {
				fi, err := os.Stat(fmt.Sprintf("%s.%d", base, n))
				if err != nil {
					break
				}
				out = append(out, strconv.FormatInt(fi.Size(), 10))
			}
			return strings.Join(out, ",")
		}
		sb.WriteString("psizes=" + sizesOf(e.dataPath) + " isizes=" + sizesOf(e.indexPath) + " locs=")
		for i, kh := range strings.Split(op.Arg("k"), ",") {
			if i > 0 {
				sb.WriteByte(',')
			}
			k, _ := hex.DecodeString(kh)
			ik, err := e.st.Primary().IndexKey(k)
			if err != nil {
				sb.WriteString("bad")
				continue
			}
			blk, found, err := e.st.Index().Get(ik)
			if err != nil {
				sb.WriteString("err")
			} else if !found {
				sb.WriteString("none")
			} else {
				fmt.Fprintf(&sb, "%d:%d", blk.Offset, blk.Size)
			}
		}
		return sb.String()
	case "fsck":
		// C07: full directory bytes plus the live bucket table, for the Lean fsck
		files := readDirFiles(e.dir)
		var sb strings.Builder
		first := true
		for i, p := range e.st.Index().VerifBuckets() {
			if p != 0 {
				if !first {
					sb.WriteByte(',')
				}
				first = false
				fmt.Fprintf(&sb, "%d:%d", i, p)
			}
		}
		return "img=" + dumpFiles(files) + " buckets=" + sb.String()
	case "c11mark", "c11end", "c11round":
		return "ok"
	case "sizes":
		i, err1 := e.st.IndexStorageSize()
		p, err2 := e.st.PrimaryStorageSize()
		f, err3 := e.st.FreelistStorageSize()
		if err1 != nil || err2 != nil || err3 != nil {
			return "err"
		}
		return fmt.Sprintf("index=%d primary=%d freelist=%d", i, p, f)
	case "view":
		return e.viewState()
	case "disk":
		return e.viewDisk()
	case "rmsnap":
		if e.st != nil {
			return "bad-op"
		}
		os.Remove(e.indexPath + ".buckets")
		return "ok"
	case "badsnap":
		if e.st != nil {
			return "bad-op"
		}
		if _, err := os.Stat(e.indexPath + ".buckets"); err != nil {
			return "bad-op"
		}
		os.Truncate(e.indexPath+".buckets", 16)
		return "ok"
	}
	return "bad-op"
}

func (e *seqEngine) viewState() string {
	var sb strings.Builder
	idx := e.st.Index()
	fn, ln := idx.VerifFileState()
	fmt.Fprintf(&sb, "ifile=%d:%d", fn, ln)
	bk := idx.VerifBuckets()
	sb.WriteString(" buckets=")
	first := true
	for i, p := range bk {
		if p != 0 {
			if !first {
				sb.WriteByte(',')
			}
			first = false
			fmt.Fprintf(&sb, "%d:%d", i, p)
		}
	}
	next, cur := idx.VerifPools()
	pool := func(name string, m map[index.BucketIndex][]byte) {
		keys := make([]int, 0, len(m))
		for k := range m {
			keys = append(keys, int(k))
		}
		sort.Ints(keys)
		sb.WriteString(" " + name + "=")
		for i, k := range keys {
			if i > 0 {
				sb.WriteByte(';')
			}
			fmt.Fprintf(&sb, "%d:%s", k, hex.EncodeToString(m[index.BucketIndex(k)]))
		}
	}
	pool("inext", next)
	pool("icur", cur)
	resume, at := idx.VerifGCResume()
	if resume {
		fmt.Fprintf(&sb, " gcresume=%d", at)
	} else {
		sb.WriteString(" gcresume=none")
	}
	if e.mp != nil {
		pfn, pln, rfn, rp := e.mp.VerifState()
		fmt.Fprintf(&sb, " pfile=%d:%d prec=%d:%d", pfn, pln, rfn, rp)
		pn, pc := e.mp.VerifPools()
		ppool := func(name string, recs []mhprimary.VerifPoolRecord) {
			sb.WriteString(" " + name + "=")
			for i, r := range recs {
				if i > 0 {
					sb.WriteByte(';')
				}
				fmt.Fprintf(&sb, "%d:%d:%s:%s", r.Block.Offset, r.Block.Size, hex.EncodeToString(r.Key), hex.EncodeToString(r.Value))
			}
		}
		ppool("pnext", pn)
		ppool("pcur", pc)
		vis := e.mp.VerifVisited()
		sort.Slice(vis, func(i, j int) bool { return vis[i] < vis[j] })
		sb.WriteString(" visited=")
		for i, v := range vis {
			if i > 0 {
				sb.WriteByte(',')
			}
			fmt.Fprintf(&sb, "%d", v)
		}
	}
	sb.WriteString(" fl=")
	for i, b := range e.st.VerifFreeList().VerifPool() {
		if i > 0 {
			sb.WriteByte(',')
		}
		fmt.Fprintf(&sb, "%d:%d", b.Offset, b.Size)
	}
	return sb.String()
}

func (e *seqEngine) viewDisk() string {
	if e.dir == "" {
		return "bad-op"
	}
	ents, err := os.ReadDir(e.dir)
	if err != nil {
		return "err"
	}
	var ihdr, phdr, snap, free, gc string = "none", "none", "none", "none", "none"
	type nf struct {
		n int
		s string
	}
	var ifiles, pfiles []nf
	var extra []string
	cidfile := "none"
	for _, ent := range ents {
		name := ent.Name()
		full := filepath.Join(e.dir, name)
		data, err := os.ReadFile(full)
		if err != nil {
			extra = append(extra, name+"!")
			continue
		}
		desc := fmt.Sprintf("%d:%s", len(data), fnvHex(data))
		switch {
		case name == "storethehash.index.info":
			var h struct {
				Version         int
				BucketsBits     int
				MaxFileSize     uint32
				FirstFile       uint32
				PrimaryFileSize uint32
			}
			if json.Unmarshal(data, &h) != nil {
				ihdr = "bad"
			} else {
				ihdr = fmt.Sprintf("%d:%d:%d:%d:%d", h.BucketsBits, h.MaxFileSize, h.FirstFile, h.PrimaryFileSize, len(data))
			}
		case name == "storethehash.data.info":
			var h struct {
				Version     int
				MaxFileSize uint32
				FirstFile   uint32
			}
			if json.Unmarshal(data, &h) != nil {
				phdr = "bad"
			} else {
				phdr = fmt.Sprintf("%d:%d:%d", h.MaxFileSize, h.FirstFile, len(data))
			}
		case name == "storethehash.index.buckets":
			var sb strings.Builder
			fmt.Fprintf(&sb, "%d", len(data))
			for i := 0; i+8 <= len(data); i += 8 {
				p := binary.LittleEndian.Uint64(data[i:])
				if p != 0 {
					fmt.Fprintf(&sb, ",%d:%d", i/8, p)
				}
			}
			snap = sb.String()
		case name == "storethehash.index.free":
			free = desc
		case name == "storethehash.index.free.gc":
			gc = desc
		case name == "storethehash.data":
			cidfile = desc
		case strings.HasPrefix(name, "storethehash.index."):
			if n, err := strconv.Atoi(name[len("storethehash.index."):]); err == nil {
				ifiles = append(ifiles, nf{n, desc})
			} else {
				extra = append(extra, name)
			}
		case strings.HasPrefix(name, "storethehash.data."):
			if n, err := strconv.Atoi(name[len("storethehash.data."):]); err == nil {
				pfiles = append(pfiles, nf{n, desc})
			} else {
				extra = append(extra, name)
			}
		default:
			extra = append(extra, name)
		}
	}
	join := func(l []nf) string {
		sort.Slice(l, func(i, j int) bool { return l[i].n < l[j].n })
		s := make([]string, len(l))
		for i, x := range l {
			s[i] = fmt.Sprintf("%d:%s", x.n, x.s)
		}
		return strings.Join(s, ",")
	}
	sort.Strings(extra)
	return fmt.Sprintf("ihdr=%s ifiles=%s snap=%s phdr=%s pfiles=%s cid=%s free=%s gc=%s extra=%s",
		ihdr, join(ifiles), snap, phdr, join(pfiles), cidfile, free, gc, strings.Join(extra, ","))
}
