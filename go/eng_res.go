package main

import (
	"context"
	"encoding/hex"
	"errors"
	"fmt"
	"os"
	"path/filepath"
	"runtime"
	"sort"
	"strconv"
	"strings"
	"sync"
	"time"

	"github.com/ipld/go-storethehash/store"
	"github.com/ipld/go-storethehash/store/types"
	"github.com/ipld/go-storethehash/store/verifhook"
)

// res: resources around Close and failed opens (C17): store goroutines (from the goroutine dump),
// descriptors into the store directory (/proc/self/fd), and writes to the directory after Close returned.

func init() {
	engines["res"] = engineDef{
		newEngine: func() Engine { return &resEngine{} },
		newGen:    func(r *RNG, tier string, profile string) Generator { return newResGen(r, tier, profile) },
	}
}

type resEngine struct {
	dir string
}

func (e *resEngine) Close() {
	verifhook.Set(nil)
	if e.dir != "" {
		os.RemoveAll(e.dir)
	}
}

func storeGoroutines() int {
	buf := make([]byte, 1<<20)
	n := runtime.Stack(buf, true)
	cnt := 0
	for _, g := range strings.Split(string(buf[:n]), "\n\n") {
		if strings.Contains(g, "github.com/ipld/go-storethehash/store") && !strings.Contains(g, "main.") {
			cnt++
		}
	}
	return cnt
}

func settleGoroutines() int {
	var n int
	for i := 0; i < 40; i++ {
		n = storeGoroutines()
		if n == 0 {
			return 0
		}
		time.Sleep(5 * time.Millisecond)
	}
	return n
}

func fdsInto(dir string) int {
	ents, err := os.ReadDir("/proc/self/fd")
	if err != nil {
		return -1
	}
	n := 0
	for _, ent := range ents {
		t, err := os.Readlink(filepath.Join("/proc/self/fd", ent.Name()))
		if err == nil && strings.HasPrefix(t, dir) {
			n++
		}
	}
	return n
}

func dirStamp(dir string) string {
	var out []string
	filepath.Walk(dir, func(p string, info os.FileInfo, err error) error {
		if err == nil && !info.IsDir() {
			out = append(out, fmt.Sprintf("%s:%d:%d", strings.TrimPrefix(p, dir), info.Size(), info.ModTime().UnixNano()))
		}
		return nil
	})
	sort.Strings(out)
	return strings.Join(out, "|")
}

func (e *resEngine) paths() (string, string) {
	return filepath.Join(e.dir, "storethehash.data"), filepath.Join(e.dir, "storethehash.index")
}

func (e *resEngine) fresh() {
	if e.dir != "" {
		os.RemoveAll(e.dir)
	}
	e.dir, _ = os.MkdirTemp("", "sthv-res-")
}

func (e *resEngine) Exec(op *Op) string {
	switch op.Name {
	case "rcycle":
		// open (optionally with the real background flusher and collectors), work, optionally park a collector
		// cycle at a named point, Close, observe
		e.fresh()
		bg := op.Arg("mode") == "bg"
		nwork, _ := strconv.Atoi(op.Arg("work"))
		seed, _ := strconv.Atoi(op.Arg("seed"))
		park := op.Arg("park")
		opts := []store.Option{store.IndexBitSize(8), store.IndexFileSize(64), store.PrimaryFileSize(128), store.FileCacheSize(4)}
		if bg {
			opts = append(opts, store.GCInterval(15*time.Millisecond), store.SyncInterval(4*time.Millisecond))
		} else {
			opts = append(opts, store.GCInterval(0), store.SyncInterval(time.Hour))
		}
		var parked, release chan struct{}
		var once sync.Once
		if park != "" && park != "none" {
			parked = make(chan struct{})
			release = make(chan struct{})
			verifhook.Set(func(name string) {
				if name == park {
					hit := false
					once.Do(func() { hit = true })
					if hit {
						close(parked)
						<-release
					}
				}
			})
		}
		dp, ip := e.paths()
		st, err := store.OpenStore(context.Background(), store.MultihashPrimary, dp, ip, false, opts...)
		if err != nil {
			verifhook.Set(nil)
			return "open=err"
		}
		if bg {
			st.Start()
		}
		r := NewRNG(uint64(seed))
		keys := make([][]byte, 12)
		for i := range keys {
			d := []byte{0x77, byte(i % 3), byte(i), 0, 1, byte(r.Intn(4))}
			keys[i] = mkMultihash(0x12, d)
		}
		expect := map[string][]byte{}
		workErr := ""
		for i := 0; i < nwork; i++ {
			k := keys[r.Intn(len(keys))]
			if r.Bool(70) {
				v := make([]byte, 1+r.Intn(40))
				for j := range v {
					v[j] = byte(r.Intn(256))
				}
				if err := st.Put(k, v); err != nil {
					workErr = "put"
				} else {
					expect[string(k)] = v
				}
			} else {
				if _, err := st.Remove(k); err != nil {
					workErr = "rm"
				} else {
					delete(expect, string(k))
				}
			}
			if bg && i%7 == 0 {
				time.Sleep(time.Millisecond)
			}
		}
		closedEarly := 0
		parkedHit := 0
		if parked != nil {
			select {
			case <-parked:
				parkedHit = 1
			case <-time.After(400 * time.Millisecond):
			}
		}
		done := make(chan error, 1)
		go func() { done <- st.Close() }()
		var cerr error
		if parkedHit == 1 {
			// Close must not return while the cycle is parked mid-way
			select {
			case cerr = <-done:
				closedEarly = 1
			case <-time.After(60 * time.Millisecond):
			}
			close(release)
			if closedEarly == 0 {
				cerr = <-done
			}
		} else {
			if release != nil {
				close(release)
			}
			cerr = <-done
		}
		verifhook.Set(nil)
		gor := settleGoroutines()
		fds := fdsInto(e.dir)
		s1 := dirStamp(e.dir)
		time.Sleep(70 * time.Millisecond)
		s2 := dirStamp(e.dir)
		changed := 0
		if s1 != s2 {
			changed = 1
		}
		// second Close is a no-op
		c2 := "ok"
		if err := st.Close(); err != nil {
			c2 = "err"
		}
		// contents survive the reopen
		lost := 0
		// the reopen may ask for another bucket bit size: the index is then translated inside OpenStore (private file caches,
		// old files moved aside and unlinked)
		bits2 := 8
		if b, err := strconv.Atoi(op.Arg("bits2")); err == nil && b > 0 {
			bits2 = b
		}
		st2, err := store.OpenStore(context.Background(), store.MultihashPrimary, dp, ip, false, store.IndexBitSize(uint8(bits2)), store.IndexFileSize(64), store.PrimaryFileSize(128), store.GCInterval(0), store.SyncInterval(time.Hour))
		reopen := "ok"
		if err != nil {
			reopen = "err"
		} else {
			for _, k := range keys {
				v, found, err := st2.Get(k)
				want, ok := expect[string(k)]
				if err != nil || found != ok || (ok && hex.EncodeToString(v) != hex.EncodeToString(want)) {
					lost++
				}
			}
			st2.Close()
		}
		ce := "ok"
		if cerr != nil {
			ce = "err"
		}
		return fmt.Sprintf("open=ok work=%s parked=%d close=%s closedEarly=%d goroutines=%d fds=%d dirchanged=%d close2=%s reopen=%s lost=%d fds2=%d",
			orOK(workErr), parkedHit, ce, closedEarly, gor, fds, changed, c2, reopen, lost, fdsInto(e.dir))
	case "rfailopen":
		e.fresh()
		dp, ip := e.paths()
		base := []store.Option{store.IndexBitSize(8), store.IndexFileSize(64), store.PrimaryFileSize(128), store.GCInterval(0), store.SyncInterval(time.Hour)}
		st, err := store.OpenStore(context.Background(), store.MultihashPrimary, dp, ip, false, base...)
		if err != nil {
			return "prep=err"
		}
		k := mkMultihash(0x12, []byte{1, 2, 3, 4, 5, 6})
		st.Put(k, []byte("value"))
		st.Close()
		opts := base
		bgopts := []store.Option{store.GCInterval(20 * time.Millisecond), store.SyncInterval(time.Hour)}
		switch op.Arg("kind") {
		case "idxsize":
			opts = []store.Option{store.IndexBitSize(8), store.IndexFileSize(65), store.PrimaryFileSize(128)}
		case "prisize":
			opts = []store.Option{store.IndexBitSize(8), store.IndexFileSize(64), store.PrimaryFileSize(129)}
		case "bits+size":
			opts = []store.Option{store.IndexBitSize(9), store.IndexFileSize(65), store.PrimaryFileSize(128)}
		case "badjson":
			os.WriteFile(ip+".info", []byte("{not json"), 0o644)
			opts = []store.Option{store.IndexBitSize(8), store.IndexFileSize(64), store.PrimaryFileSize(128)}
		case "badprijson":
			os.WriteFile(dp+".info", []byte("{not json"), 0o644)
			opts = []store.Option{store.IndexBitSize(8), store.IndexFileSize(64), store.PrimaryFileSize(128)}
		case "badbits":
			opts = []store.Option{store.IndexBitSize(5), store.IndexFileSize(64), store.PrimaryFileSize(128)}
		}
		opts = append(opts, bgopts...)
		_, err = store.OpenStore(context.Background(), store.MultihashPrimary, dp, ip, false, opts...)
		res := "ok"
		if err != nil {
			var e2 types.ErrIndexWrongFileSize
			var e3 types.ErrPrimaryWrongFileSize
			switch {
			case errors.As(err, &e2):
				res = "err:wrong-index-file-size"
			case errors.As(err, &e3):
				res = "err:wrong-primary-file-size"
			default:
				res = "err:other"
			}
		}
		gor := settleGoroutines()
		fds := fdsInto(e.dir)
		// a later open with the original settings finds the contents intact (unless the header was destroyed)
		intact := "na"
		if op.Arg("kind") == "idxsize" || op.Arg("kind") == "prisize" || op.Arg("kind") == "bits+size" || op.Arg("kind") == "badbits" {
			st3, err := store.OpenStore(context.Background(), store.MultihashPrimary, dp, ip, false, base...)
			if err != nil {
				intact = "open-err"
			} else {
				v, found, err := st3.Get(k)
				if err == nil && found && string(v) == "value" {
					intact = "yes"
				} else {
					intact = "no"
				}
				st3.Close()
			}
		}
		return fmt.Sprintf("open=%s goroutines=%d fds=%d intact=%s", res, gor, fds, intact)
	case "rpar":
		// free-running (truly parallel) lookups of keys that nothing mutates, next to mutators of OTHER keys and an explicit
		// flusher: every lookup must find its key with its value.  A search for a concrete failing execution inside windows that
		// contain no hook point (used next to the lockset obligation over the data path); not a proof of anything.
		e.fresh()
		nkeys, _ := strconv.Atoi(op.Arg("keys"))
		readers, _ := strconv.Atoi(op.Arg("readers"))
		ms, _ := strconv.Atoi(op.Arg("ms"))
		seed, _ := strconv.Atoi(op.Arg("seed"))
		writers, _ := strconv.Atoi(op.Arg("writers"))
		dp, ip := e.paths()
		st, err := store.OpenStore(context.Background(), store.MultihashPrimary, dp, ip, false, store.IndexBitSize(8), store.IndexFileSize(4096), store.PrimaryFileSize(8192),
			store.FileCacheSize(8), store.GCInterval(0), store.SyncInterval(time.Hour))
		if err != nil {
			return "open=err"
		}
		r := NewRNG(uint64(seed))
		keyOf := func(i int) []byte {
			return mkMultihash(0x12, []byte{byte(i), byte(i >> 8), byte(r.Intn(256)), byte(r.Intn(256)), 3, 1, byte(i * 7), byte(i * 13)})
		}
		keys := make([][]byte, nkeys)
		vals := make([][]byte, nkeys)
		for i := range keys {
			keys[i] = keyOf(i)
			vals[i] = make([]byte, 4+r.Intn(24))
			for j := range vals[i] {
				vals[i][j] = byte(r.Intn(256))
			}
			if err := st.Put(keys[i], vals[i]); err != nil {
				st.Close()
				return "prep=put-err"
			}
		}
		st.Flush()
		// one more flush of another bucket so that the lists above exist only in the files
		other := mkMultihash(0x12, []byte{0xfe, 0xff, 9, 9, 9, 9, 9, 9})
		st.Put(other, []byte("other"))
		st.Flush()
		var wg sync.WaitGroup
		var mu sync.Mutex
		wrong, lookups := 0, 0
		first := ""
		stop := make(chan struct{})
		for g := 0; g < readers; g++ {
			g := g
			wg.Add(1)
			go func() {
				defer wg.Done()
				rr := NewRNG(uint64(seed*131 + g))
				n, bad := 0, 0
				fw := ""
				for {
					select {
					case <-stop:
						mu.Lock()
						lookups += n
						wrong += bad
						if first == "" {
							first = fw
						}
						mu.Unlock()
						return
					default:
					}
					i := g + readers*rr.Intn((nkeys+readers-1)/readers)
					if i >= nkeys {
						continue
					}
					n++
					switch rr.Intn(3) {
					case 0:
						v, found, err := st.Get(keys[i])
						if err != nil || !found || hex.EncodeToString(v) != hex.EncodeToString(vals[i]) {
							bad++
							if fw == "" {
								fw = fmt.Sprintf("get:%s:found=%v:err=%v", hex.EncodeToString(keys[i]), found, err != nil)
							}
						}
					case 1:
						found, err := st.Has(keys[i])
						if err != nil || !found {
							bad++
							if fw == "" {
								fw = fmt.Sprintf("has:%s:found=%v:err=%v", hex.EncodeToString(keys[i]), found, err != nil)
							}
						}
					default:
						sz, found, err := st.GetSize(keys[i])
						if err != nil || !found || int(sz) != len(vals[i]) {
							bad++
							if fw == "" {
								fw = fmt.Sprintf("size:%s:found=%v:err=%v", hex.EncodeToString(keys[i]), found, err != nil)
							}
						}
					}
				}
			}()
		}
		werr := 0
		for w := 0; w < writers; w++ {
			w := w
			wg.Add(1)
			go func() {
				defer wg.Done()
				rr := NewRNG(uint64(seed*977 + w))
				// keys of this writer only: digests that start with 0xfd, w
				for j := 0; ; j++ {
					select {
					case <-stop:
						return
					default:
					}
					k := mkMultihash(0x12, []byte{0xfd, byte(w), byte(rr.Intn(6)), 1, 2, 3, 4, 5})
					if rr.Bool(70) {
						v := make([]byte, 1+rr.Intn(30))
						if err := st.Put(k, v); err != nil {
							mu.Lock()
							werr++
							mu.Unlock()
						}
					} else if _, err := st.Remove(k); err != nil {
						mu.Lock()
						werr++
						mu.Unlock()
					}
					if j%16 == 0 {
						st.Flush()
					}
				}
			}()
		}
		time.Sleep(time.Duration(ms) * time.Millisecond)
		close(stop)
		wg.Wait()
		// the writers' keys never hid a reader's key for good either
		after := 0
		for i := range keys {
			v, found, err := st.Get(keys[i])
			if err != nil || !found || hex.EncodeToString(v) != hex.EncodeToString(vals[i]) {
				after++
			}
		}
		st.Close()
		if first == "" {
			first = "none"
		}
		some := 0
		if lookups > 0 {
			some = 1
		}
		return fmt.Sprintf("open=ok ran=%d wrong=%d after=%d writererrs=%d first=%s", some, wrong, after, werr, first)
	case "rcycles":
		e.fresh()
		n, _ := strconv.Atoi(op.Arg("n"))
		dp, ip := e.paths()
		maxG, maxF := 0, 0
		alt := op.Arg("alt") == "1"
		for i := 0; i < n; i++ {
			bits := uint8(8)
			if alt && i%2 == 1 {
				bits = 11 // every other cycle translates the index to another bucket bit size, and the next one back
			}
			st, err := store.OpenStore(context.Background(), store.MultihashPrimary, dp, ip, false, store.IndexBitSize(bits), store.IndexFileSize(64), store.PrimaryFileSize(128),
				store.GCInterval(10*time.Millisecond), store.SyncInterval(3*time.Millisecond))
			if err != nil {
				return "open=err at " + strconv.Itoa(i)
			}
			st.Start()
			for j := 0; j < 6; j++ {
				st.Put(mkMultihash(0x12, []byte{9, 9, byte(i), byte(j), 1, 2}), []byte{byte(i), byte(j)})
			}
			if i%3 == 0 {
				time.Sleep(12 * time.Millisecond)
			}
			if err := st.Close(); err != nil {
				return "close=err at " + strconv.Itoa(i)
			}
			g := settleGoroutines()
			f := fdsInto(e.dir)
			if g > maxG {
				maxG = g
			}
			if f > maxF {
				maxF = f
			}
		}
		return fmt.Sprintf("cycles=%d maxgoroutines=%d maxfds=%d", n, maxG, maxF)
	}
	return "bad-op"
}

func orOK(s string) string {
	if s == "" {
		return "ok"
	}
	return s
}

type resGen struct {
	ops []Op
	i   int
}

var gcParkPoints = []string{"none", "primary.gc.start", "primary.gc.tgc_done", "primary.gc.flushed", "primary.gc.fl.marked", "primary.gc.fl.applied",
	"primary.gc.fl.removed", "primary.gc.file_done", "primary.gc.truncated", "primary.gc.header_written", "primary.gc.unlinked",
	"primary.gc.reloc.read", "primary.gc.reloc.put", "primary.gc.reloc.index_updated", "primary.gc.reloc.freed",
	"index.gc.start", "index.gc.busy_checked", "index.gc.marked", "index.gc.merged", "index.gc.truncated", "index.gc.header_written",
	"index.gc.unlinked", "freelist.togc.flushed", "freelist.togc.closed", "freelist.togc.renamed", "freelist.togc.reopened",
	"store.flush.stamped", "store.flush.checked", "store.commit.primary_done", "store.commit.index_done", "index.flush.swapped", "primary.flush.swapped"}

func newResGen(r *RNG, tier string, profile string) *resGen {
	g := &resGen{}
	if profile == "par" {
		ms := 250
		if tier == "thorough" {
			ms = 2500
		}
		g.ops = append(g.ops, mkOp("rpar", "keys", strconv.Itoa(64+r.Intn(200)), "readers", strconv.Itoa(4+r.Intn(8)), "writers", strconv.Itoa(r.Intn(3)),
			"ms", strconv.Itoa(ms), "seed", strconv.Itoa(r.Intn(1<<20))))
		return g
	}
	bits2 := func() string { return []string{"8", "8", "8", "9", "12", "16"}[r.Intn(6)] }
	switch r.Pick(50, 15, 30, 5) {
	case 0:
		g.ops = append(g.ops, mkOp("rcycle", "mode", "bg", "work", strconv.Itoa(20+r.Intn(80)), "seed", strconv.Itoa(r.Intn(1<<20)),
			"park", gcParkPoints[r.Intn(len(gcParkPoints))], "bits2", bits2()))
	case 1:
		g.ops = append(g.ops, mkOp("rcycle", "mode", "plain", "work", strconv.Itoa(5+r.Intn(40)), "seed", strconv.Itoa(r.Intn(1<<20)), "park", "none", "bits2", bits2()))
	case 2:
		g.ops = append(g.ops, mkOp("rfailopen", "kind", []string{"idxsize", "prisize", "bits+size", "badjson", "badprijson", "badbits"}[r.Intn(6)]))
	default:
		g.ops = append(g.ops, mkOp("rcycles", "n", strconv.Itoa(8+r.Intn(10)), "alt", strconv.Itoa(r.Intn(2))))
	}
	return g
}

func (g *resGen) Next(r *RNG, hist []Op) (Op, bool) {
	if g.i >= len(g.ops) {
		return Op{}, false
	}
	op := g.ops[g.i]
	g.i++
	return op, true
}
