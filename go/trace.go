package main

import (
	"bufio"
	"fmt"
	"os"
	"sort"
	"strings"
)

// Op is one line of a trace: name, ordered args, and (after execution) the result.
type Op struct {
	Name string
	Args [][2]string
	Res  string
}

func mkOp(name string, kv ...string) Op {
	op := Op{Name: name}
	for i := 0; i+1 < len(kv); i += 2 {
		op.Args = append(op.Args, [2]string{kv[i], kv[i+1]})
	}
	return op
}

func (o Op) Arg(k string) string {
	for _, a := range o.Args {
		if a[0] == k {
			return a[1]
		}
	}
	return ""
}

func (o Op) Has(k string) bool {
	for _, a := range o.Args {
		if a[0] == k {
			return true
		}
	}
	return false
}

func (o Op) String() string {
	var sb strings.Builder
	sb.WriteString(o.Name)
	for _, a := range o.Args {
		sb.WriteByte(' ')
		sb.WriteString(a[0])
		sb.WriteByte('=')
		sb.WriteString(a[1])
	}
	sb.WriteString(" -> ")
	sb.WriteString(o.Res)
	return sb.String()
}

func parseOp(line string) (Op, bool) {
	line = strings.TrimSpace(line)
	if line == "" || strings.HasPrefix(line, "#") {
		return Op{}, false
	}
	res := ""
	if i := strings.Index(line, " -> "); i >= 0 {
		res = line[i+4:]
		line = line[:i]
	} else if strings.HasSuffix(line, " ->") {
		line = line[:len(line)-3]
	}
	f := strings.Fields(line)
	if len(f) == 0 {
		return Op{}, false
	}
	op := Op{Name: f[0], Res: res}
	for _, a := range f[1:] {
		if j := strings.IndexByte(a, '='); j >= 0 {
			op.Args = append(op.Args, [2]string{a[:j], a[j+1:]})
		}
	}
	return op, true
}

// Out is the trace sink.
type Out struct {
	w *bufio.Writer
	f *os.File
}

func newOut(path string) (*Out, error) {
	if path == "" || path == "-" {
		return &Out{w: bufio.NewWriterSize(os.Stdout, 1<<20)}, nil
	}
	f, err := os.Create(path)
	if err != nil {
		return nil, err
	}
	return &Out{w: bufio.NewWriterSize(f, 1<<20), f: f}, nil
}

func (o *Out) Line(s string) { o.w.WriteString(s); o.w.WriteByte('\n') }
func (o *Out) Op(op Op)      { o.Line(op.String()) }
func (o *Out) Close() {
	o.w.Flush()
	if o.f != nil {
		o.f.Close()
	}
}

// Stats is a histogram written as a "#stat" line per trace batch.
type Stats map[string]int

func (s Stats) Inc(k string) { s[k]++ }
func (s Stats) String() string {
	keys := make([]string, 0, len(s))
	for k := range s {
		keys = append(keys, k)
	}
	sort.Strings(keys)
	var sb strings.Builder
	for i, k := range keys {
		if i > 0 {
			sb.WriteByte(' ')
		}
		fmt.Fprintf(&sb, "%s=%d", k, s[k])
	}
	return sb.String()
}
