package main

import (
	"context"
	"encoding/binary"
	"encoding/hex"
	"fmt"
	"os"
	"path/filepath"
	"strconv"

	"github.com/ipld/go-storethehash/store/filecache"
	"github.com/ipld/go-storethehash/store/index"
	"github.com/ipld/go-storethehash/store/primary/inmemory"
)

// c08: the real index.Index over the in-memory primary, one bucket.

func init() {
	engines["c08"] = engineDef{
		newEngine: func() Engine { return &c08Engine{} },
		newGen:    func(r *RNG, tier string, profile string) Generator { return newC08Gen(r, tier) },
	}
}

type c08Engine struct {
	dir  string
	idx  *index.Index
	prim *inmemory.InMemory
	bits uint8
}

func (e *c08Engine) Close() {
	if e.idx != nil {
		e.idx.Close()
	}
	if e.dir != "" {
		os.RemoveAll(e.dir)
	}
}

func bucketOf(key []byte, bits uint8) uint32 {
	return binary.LittleEndian.Uint32(key) & ((1 << bits) - 1)
}

func (e *c08Engine) Exec(op *Op) string {
	if e.idx == nil && op.Name != "ixopen" {
		return "bad-op"
	}
	switch op.Name {
	case "ixopen":
		bits, _ := strconv.Atoi(op.Arg("bits"))
		ifs, _ := strconv.Atoi(op.Arg("ifs"))
		dir, err := os.MkdirTemp("", "sthv-c08-")
		if err != nil {
			return "err:" + err.Error()
		}
		e.dir = dir
		e.prim = inmemory.New([][2][]byte{})
		e.bits = uint8(bits)
		idx, err := index.Open(context.Background(), filepath.Join(dir, "storethehash.index"), e.prim, uint8(bits), uint32(ifs), 0, 0, filecache.New(4))
		if err != nil {
			return "err"
		}
		e.idx = idx
		return "ok"
	case "ixput", "ixupd":
		k, _ := hex.DecodeString(op.Arg("k"))
		blk, err := e.prim.Put(k, []byte{0x76})
		if err != nil {
			return "err"
		}
		if op.Name == "ixput" {
			err = e.idx.Put(k, blk)
		} else {
			err = e.idx.Update(k, blk)
		}
		if err != nil {
			return fmt.Sprintf("err off=%d", blk.Offset)
		}
		return fmt.Sprintf("ok off=%d", blk.Offset)
	case "ixrm":
		k, _ := hex.DecodeString(op.Arg("k"))
		removed, err := e.idx.Remove(k)
		if err != nil {
			return "err"
		}
		return strconv.FormatBool(removed)
	case "ixget":
		k, _ := hex.DecodeString(op.Arg("k"))
		blk, found, err := e.idx.Get(k)
		if err != nil {
			return "err"
		}
		if !found {
			return "absent"
		}
		return fmt.Sprintf("found off=%d size=%d", blk.Offset, blk.Size)
	case "ixflush":
		if _, err := e.idx.Flush(); err != nil {
			return "err"
		}
		return "ok"
	case "ixview":
		k, _ := hex.DecodeString(op.Arg("k"))
		data, ok, err := e.idx.VerifBucketRecords(index.BucketIndex(bucketOf(k, e.bits)))
		if err != nil {
			return "err"
		}
		if !ok {
			return "nil"
		}
		return "rl=" + hex.EncodeToString(data)
	}
	return "bad-op"
}

// generator

type c08Gen struct {
	universe [][]byte
	present  map[string]bool
	step     int
	maxOps   int
	pending  []Op
	bits     int
	ifs      int
}

func newC08Gen(r *RNG, tier string) *c08Gen {
	g := &c08Gen{present: map[string]bool{}}
	bitsChoices := []int{16, 8, 8, 9, 12, 12, 16, 17, 20, 10, 11, 13, 14, 15, 18, 19}
	if r.Bool(4) {
		bitsChoices = []int{21, 22, 23, 24}
	}
	g.bits = bitsChoices[r.Intn(len(bitsChoices))]
	g.ifs = []int{1, 64, 200, 1 << 20}[r.Intn(4)]
	g.maxOps = 12 + r.Intn(30)
	if tier == "thorough" {
		g.maxOps = 20 + r.Intn(80)
	}
	// All keys fall into one bucket: the first 4 bytes agree on the low `bits` bits.
	var base [4]byte
	for i := range base {
		base[i] = byte(r.Intn(256))
	}
	mask := uint32(1<<uint(g.bits)) - 1
	baseBits := binary.LittleEndian.Uint32(base[:]) & mask
	alpha := 2 + r.Intn(2) // alphabet size 2..3
	if r.Bool(15) {
		alpha = 4 + r.Intn(200)
	}
	tail := 1 + r.Intn(6) // free bytes after the first four
	nkeys := 3 + r.Intn(10)
	equalLen := r.Bool(75)
	seen := map[string]bool{}
	for tries := 0; len(g.universe) < nkeys && tries < 200; tries++ {
		l := tail
		if !equalLen {
			l = 1 + r.Intn(tail+2)
		}
		k := make([]byte, 4+l)
		// free high bits of the first 4 bytes vary over a small alphabet too
		v := baseBits | (uint32(r.Intn(alpha)) << uint(g.bits) & ^mask)
		if g.bits < 31 && r.Bool(50) {
			v = baseBits | ((uint32(r.Intn(alpha)) << uint(g.bits)) &^ mask)
		}
		binary.LittleEndian.PutUint32(k, v)
		for i := 4; i < len(k); i++ {
			k[i] = byte(r.Intn(alpha))
		}
		// keep the universe prefix-free on the stripped keys
		s := k[g.bits/8:]
		ok := true
		for _, u := range g.universe {
			us := u[g.bits/8:]
			n := len(us)
			if len(s) < n {
				n = len(s)
			}
			if string(us[:n]) == string(s[:n]) {
				ok = false
				break
			}
		}
		if ok && !seen[string(k)] {
			seen[string(k)] = true
			g.universe = append(g.universe, k)
		}
	}
	return g
}

func (g *c08Gen) Next(r *RNG, hist []Op) (Op, bool) {
	if len(hist) == 0 {
		return mkOp("ixopen", "bits", strconv.Itoa(g.bits), "ifs", strconv.Itoa(g.ifs)), true
	}
	if len(g.pending) > 0 {
		op := g.pending[0]
		g.pending = g.pending[1:]
		return op, true
	}
	if g.step >= g.maxOps || len(g.universe) == 0 {
		return Op{}, false
	}
	g.step++
	var presentKeys, absentKeys [][]byte
	for _, k := range g.universe {
		if g.present[string(k)] {
			presentKeys = append(presentKeys, k)
		} else {
			absentKeys = append(absentKeys, k)
		}
	}
	hx := hex.EncodeToString
	observe := func(k []byte) {
		g.pending = append(g.pending, mkOp("ixview", "k", hx(k)))
		for _, u := range g.universe {
			g.pending = append(g.pending, mkOp("ixget", "k", hx(u)))
		}
	}
	for {
		switch r.Pick(40, 8, 20, 18, 14) {
		case 0: // put absent
			if len(absentKeys) == 0 {
				continue
			}
			k := absentKeys[r.Intn(len(absentKeys))]
			g.present[string(k)] = true
			observe(k)
			return mkOp("ixput", "k", hx(k)), true
		case 1: // put present (no-op path)
			if len(presentKeys) == 0 {
				continue
			}
			k := presentKeys[r.Intn(len(presentKeys))]
			observe(k)
			return mkOp("ixput", "k", hx(k)), true
		case 2: // update present
			if len(presentKeys) == 0 {
				continue
			}
			k := presentKeys[r.Intn(len(presentKeys))]
			observe(k)
			return mkOp("ixupd", "k", hx(k)), true
		case 3: // remove present
			if len(presentKeys) == 0 {
				continue
			}
			k := presentKeys[r.Intn(len(presentKeys))]
			delete(g.present, string(k))
			observe(k)
			return mkOp("ixrm", "k", hx(k)), true
		case 4:
			observe(g.universe[0])
			return mkOp("ixflush"), true
		}
	}
}
