package main

// splitmix64: every random choice of the harness derives from one state seeded by VERIF_SEED.
type RNG struct{ s uint64 }

// NewRNG scrambles the seed before it becomes the state: the state advances by a constant, so states that are linear in
// the seed would make the streams of neighbouring seeds shifted copies of each other (seed 2 = seed 1 without its first value).
func NewRNG(seed uint64) *RNG {
	z := seed + 0x1234567
	z = (z ^ (z >> 30)) * 0xBF58476D1CE4E5B9
	z = (z ^ (z >> 27)) * 0x94D049BB133111EB
	z = z ^ (z >> 31)
	return &RNG{s: z*0x9E3779B97F4A7C15 + 0x632BE59BD9B4E019}
}

func (r *RNG) U64() uint64 {
	r.s += 0x9E3779B97F4A7C15
	z := r.s
	z = (z ^ (z >> 30)) * 0xBF58476D1CE4E5B9
	z = (z ^ (z >> 27)) * 0x94D049BB133111EB
	return z ^ (z >> 31)
}

// Intn returns a value in [0,n).
func (r *RNG) Intn(n int) int {
	if n <= 0 {
		return 0
	}
	return int(r.U64() % uint64(n))
}

func (r *RNG) Bool(pct int) bool { return r.Intn(100) < pct }

// Pick returns an index according to integer weights.
func (r *RNG) Pick(weights ...int) int {
	total := 0
	for _, w := range weights {
		total += w
	}
	x := r.Intn(total)
	for i, w := range weights {
		if x < w {
			return i
		}
		x -= w
	}
	return len(weights) - 1
}

func (r *RNG) Fork() *RNG { return NewRNG(r.U64()) }
