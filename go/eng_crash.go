package main

import (
	"context"
	"encoding/binary"
	"encoding/hex"
	"fmt"
	"os"
	"path/filepath"
	"sort"
	"strconv"
	"strings"
	"time"

	"github.com/ipld/go-storethehash/store"
	"github.com/ipld/go-storethehash/store/index"
	mhprimary "github.com/ipld/go-storethehash/store/primary/multihash"
	"github.com/ipld/go-storethehash/store/verifhook"
)

// crash: the seq engine plus crash images. A hook handler copies the (small) store directory at every
// named point while an operation with file-system steps runs; torn variants are synthesised between
// consecutive images. Each image is recovered by the real code in a fresh directory: OpenStore, read every
// key, a short follow-up workload with both GCs, close, reopen without the snapshot, read again.

func init() {
	engines["crash"] = engineDef{
		newEngine: func() Engine { return newCrashEngine() },
		newGen:    func(r *RNG, tier string, profile string) Generator { return newCrashGen(r, tier, profile) },
	}
}

type image struct {
	point string
	tear  string
	files map[string][]byte
}

type crashEngine struct {
	seqEngine
	capturing       bool
	raw             []image // images captured during the current op (untorn)
	queue           []image // images (with torn variants) waiting to be recovered
	keys            []string
	openArgs        [][2]string
	pendingOpenArgs [][2]string
	tier            string
	drain           bool // C11: after recovery remove everything and run the collectors (keys drain=1)
	// flushput: a Put performed at a named point INSIDE a Flush (in the flushing goroutine: no lock is held at a hook point)
	injectAt  string
	injectK   []byte
	injectV   []byte
	injected  bool
	injectRes string
}

func newCrashEngine() *crashEngine {
	e := &crashEngine{}
	verifhook.Set(func(name string) {
		if e.capturing {
			e.raw = append(e.raw, image{point: name, files: readDirFiles(e.dir)})
		}
		if e.injectAt != "" && name == e.injectAt && !e.injected && e.st != nil {
			e.injected = true
			if err := e.st.Put(e.injectK, e.injectV); err != nil {
				e.injectRes = "err"
			} else {
				e.injectRes = "ok"
			}
		}
	})
	return e
}

func (e *crashEngine) Close() {
	verifhook.Set(nil)
	e.seqEngine.Close()
}

func readDirFiles(dir string) map[string][]byte {
	out := map[string][]byte{}
	ents, _ := os.ReadDir(dir)
	for _, ent := range ents {
		if ent.IsDir() {
			// translation temp dirs: flatten one level
			sub, _ := os.ReadDir(filepath.Join(dir, ent.Name()))
			for _, s := range sub {
				data, err := os.ReadFile(filepath.Join(dir, ent.Name(), s.Name()))
				if err == nil {
					out[ent.Name()+"/"+s.Name()] = data
				}
			}
			continue
		}
		data, err := os.ReadFile(filepath.Join(dir, ent.Name()))
		if err == nil {
			out[ent.Name()] = data
		}
	}
	return out
}

func writeDirFiles(dir string, files map[string][]byte) {
	for name, data := range files {
		p := filepath.Join(dir, name)
		if strings.Contains(name, "/") {
			os.MkdirAll(filepath.Dir(p), 0o755)
		}
		os.WriteFile(p, data, 0o644)
	}
}

func cloneFiles(f map[string][]byte) map[string][]byte {
	out := make(map[string][]byte, len(f))
	for k, v := range f {
		out[k] = v
	}
	return out
}

func isPrefixBytes(a, b []byte) bool { return len(a) <= len(b) && string(b[:len(a)]) == string(a) }

// tornVariants returns the crash images strictly between two consecutive captured images.
func (e *crashEngine) tornVariants(prev, next image) []image {
	var out []image
	maxAll := 96
	if e.tier == "thorough" {
		maxAll = 4096
	}
	for name, nd := range next.files {
		od, existed := prev.files[name]
		if !existed {
			// a file that appears non-empty between two points arrived by rename (atomic); files created by
			// the store start empty at a point of their own - except the chunk files of the legacy upgrade, which are
			// created and filled between two points
			if len(nd) > 0 && !strings.HasPrefix(next.point, "upgrade.") {
				continue
			}
			od = nil
		}
		if string(od) == string(nd) {
			continue
		}
		if strings.HasSuffix(name, ".info.tmp") {
			continue
		}
		if strings.HasSuffix(name, ".info") {
			// A header staged in its .tmp file in the previous image arrives by rename (atomic). Otherwise it
			// was rewritten in place (os.WriteFile truncates, then writes): empty and half-written headers.
			if staged, ok := prev.files[name+".tmp"]; ok && string(staged) == string(nd) {
				continue
			}
			for _, cut := range []int{0, len(nd) / 2} {
				v := image{point: next.point, tear: fmt.Sprintf("%s@%d", name, cut), files: cloneFiles(prev.files)}
				v.files[name] = nd[:cut]
				out = append(out, v)
			}
			continue
		}
		if strings.HasSuffix(name, ".buckets") || strings.HasSuffix(name, ".buckets.tmp") {
			continue // 8*2^bits bytes; its tearing only matters through the rename, which is atomic
		}
		if isPrefixBytes(od, nd) && len(nd) > len(od) {
			grown := len(nd) - len(od)
			cuts := map[int]bool{}
			if grown <= maxAll {
				for c := len(od) + 1; c < len(nd); c++ {
					cuts[c] = true
				}
			} else {
				for c := len(od) + 1; c < len(od)+16 && c < len(nd); c++ {
					cuts[c] = true
				}
				for i := 0; i < 24; i++ {
					cuts[len(od)+1+(i*grown)/24] = true
				}
				for c := len(nd) - 16; c < len(nd); c++ {
					if c > len(od) {
						cuts[c] = true
					}
				}
			}
			var cl []int
			for c := range cuts {
				if c > len(od) && c < len(nd) {
					cl = append(cl, c)
				}
			}
			sort.Ints(cl)
			for _, c := range cl {
				v := image{point: next.point, tear: fmt.Sprintf("%s@%d", name, c), files: cloneFiles(prev.files)}
				v.files[name] = nd[:c]
				out = append(out, v)
			}
		}
	}
	return out
}

func dumpFiles(files map[string][]byte) string {
	names := make([]string, 0, len(files))
	for n := range files {
		names = append(names, n)
	}
	sort.Strings(names)
	var sb strings.Builder
	for i, n := range names {
		if i > 0 {
			sb.WriteByte(';')
		}
		short := strings.TrimPrefix(n, "storethehash.")
		if strings.HasSuffix(n, ".buckets") {
			// sparse form: size then non-zero entries
			d := files[n]
			fmt.Fprintf(&sb, "%s=S%d", short, len(d))
			for j := 0; j+8 <= len(d); j += 8 {
				var p uint64
				for k := 7; k >= 0; k-- {
					p = p<<8 | uint64(d[j+k])
				}
				if p != 0 {
					fmt.Fprintf(&sb, ",%d:%d", j/8, p)
				}
			}
			continue
		}
		sb.WriteString(short)
		sb.WriteByte('=')
		sb.WriteString(hex.EncodeToString(files[n]))
	}
	return sb.String()
}

func (e *crashEngine) Exec(op *Op) string {
	switch op.Name {
	case "keys":
		e.keys = strings.Split(op.Arg("k"), ",")
		e.tier = op.Arg("tier")
		e.drain = op.Arg("drain") == "1"
		return "ok"
	case "crashnext":
		if len(e.queue) == 0 {
			return "none"
		}
		img := e.queue[0]
		e.queue = e.queue[1:]
		return e.recover(img)
	case "crashimg":
		// recover a given image directly (used by replays: the failing image without the images before it)
		img := image{point: op.Arg("point"), tear: op.Arg("tear"), files: parseDump(op.Arg("img"))}
		if img.tear == "none" {
			img.tear = ""
		}
		e.queue = nil
		return e.recover(img)
	case "open":
		e.pendingOpenArgs = op.Args
	}
	if op.Name == "flushput" {
		// Store.Flush with a Put of k acknowledged at the named point inside it (e.g. after the primary has been flushed and
		// before the index pool is swapped): what a writer running next to the flusher does. Every later point of the flush
		// and of the Put is a crash image.
		if e.st == nil {
			return "bad-op"
		}
		e.injectK, _ = hex.DecodeString(op.Arg("k"))
		e.injectV, _ = hex.DecodeString(op.Arg("v"))
		e.injectAt, e.injected, e.injectRes = op.Arg("at"), false, "not-reached"
		e.queue = nil // images of an earlier operation that a directed trace did not drain belong to another context
		pre := image{point: "flushput.begin", files: readDirFiles(e.dir)}
		e.raw = nil
		e.capturing = true
		err := e.st.Flush()
		e.capturing = false
		e.injectAt = ""
		post := image{point: "flushput.end", files: readDirFiles(e.dir)}
		seq := append([]image{pre}, e.raw...)
		seq = append(seq, post)
		e.raw = nil
		var last string
		for _, im := range seq {
			d := dumpFiles(im.files)
			if d != last {
				e.queue = append(e.queue, im)
				last = d
			}
		}
		res := "ok"
		if err != nil {
			res = "err:other"
		}
		return res + " put=" + e.injectRes + " images=" + strconv.Itoa(len(e.queue))
	}
	withFS := op.Name == "flush" || op.Name == "close" || op.Name == "igc" || op.Name == "pgc" || op.Name == "iter" || (op.Name == "open" && e.dir != "")
	if !withFS {
		res := e.seqEngine.Exec(op)
		if op.Name == "open" && strings.HasPrefix(res, "ok") {
			e.openArgs = e.pendingOpenArgs
		}
		return res
	}
	pre := image{point: op.Name + ".begin", files: readDirFiles(e.dir)}
	e.raw = nil
	e.queue = nil // (see flushput)
	e.capturing = true
	res := e.seqEngine.Exec(op)
	e.capturing = false
	if op.Name == "open" && strings.HasPrefix(res, "ok") {
		// images are recovered with the configuration of the last SUCCESSFUL open (an interrupted re-bucketing
		// is recovered with the new bit size, which is what the interrupted open asked for)
		e.openArgs = e.pendingOpenArgs
	}
	post := image{point: op.Name + ".end", files: readDirFiles(e.dir)}
	seq := append([]image{pre}, e.raw...)
	seq = append(seq, post)
	e.raw = nil
	// distinct consecutive images only
	var last string
	for i, im := range seq {
		if i > 0 {
			e.queue = append(e.queue, e.tornVariants(seq[i-1], im)...)
		}
		d := dumpFiles(im.files)
		if d != last {
			e.queue = append(e.queue, im)
			last = d
		}
	}
	return res + " images=" + strconv.Itoa(len(e.queue))
}

func (e *crashEngine) openOpts() (string, bool, []store.Option) {
	get := func(k string) int {
		for _, a := range e.openArgs {
			if a[0] == k {
				n, _ := strconv.Atoi(a[1])
				return n
			}
		}
		return 0
	}
	kind := store.MultihashPrimary
	for _, a := range e.openArgs {
		if a[0] == "kind" && a[1] == "cid" {
			kind = store.CIDPrimary
		}
	}
	return kind, get("imm") == 1, []store.Option{store.IndexBitSize(uint8(get("bits"))), store.IndexFileSize(uint32(get("ifs"))),
		store.PrimaryFileSize(uint32(get("pfs"))), store.GCInterval(0), store.SyncInterval(time.Hour), store.FileCacheSize(3)}
}

func readAll(st *store.Store, keys []string) string {
	var sb strings.Builder
	for i, kh := range keys {
		if i > 0 {
			sb.WriteByte(',')
		}
		k, _ := hex.DecodeString(kh)
		v, found, err := st.Get(k)
		switch {
		case err != nil:
			sb.WriteString("err")
		case !found:
			sb.WriteString("absent")
		default:
			sb.WriteString("v" + hex.EncodeToString(v))
		}
	}
	return sb.String()
}

// recover restores the image into a fresh directory and lets the real code recover it.
func (e *crashEngine) recover(img image) (res string) {
	dir, err := os.MkdirTemp("", "sthv-crash-")
	if err != nil {
		return "err:harness"
	}
	defer os.RemoveAll(dir)
	writeDirFiles(dir, img.files)
	head := fmt.Sprintf("point=%s tear=%s img=%s", img.point, orNone(img.tear), dumpFiles(img.files))
	defer func() {
		if r := recover(); r != nil {
			res = head + " open=panic"
		}
	}()
	kind, imm, opts := e.openOpts()
	ip, dp := filepath.Join(dir, "storethehash.index"), filepath.Join(dir, "storethehash.data")
	st, err := store.OpenStore(context.Background(), kind, dp, ip, imm, opts...)
	if err != nil {
		return head + " open=err"
	}
	attach := func(st *store.Store) {
		st.VerifAttachGC()
	}
	attach(st)
	r0 := readAll(st, e.keys)
	// follow-up: the recovered store must keep behaving like a map, through GC cycles and a rescan
	post := "ok"
	pk, _ := hex.DecodeString("1208fefefefe01020304")
	if err := st.Put(pk, []byte{0xc4, 0xa5}); err != nil {
		post = "put-err"
	}
	if err := st.Flush(); err != nil {
		post = "flush-err"
	}
	if mp, ok := st.Primary().(*mhprimary.MultihashPrimary); ok {
		if _, err := mp.VerifGC(context.Background(), 50, 0); err != nil {
			post = "pgc-err"
		}
		st.Flush()
		if _, err := mp.VerifGC(context.Background(), 50, 0); err != nil {
			post = "pgc-err"
		}
	}
	if _, _, err := st.Index().VerifGC(context.Background(), true); err != nil {
		post = "igc-err"
	}
	r1 := readAll(st, append(append([]string{}, e.keys...), "1208fefefefe01020304"))
	if err := st.Close(); err != nil {
		post = "close-err"
	}
	index.RemoveSavedBuckets(ip)
	r2 := "open-err"
	st2, err := store.OpenStore(context.Background(), kind, dp, ip, imm, opts...)
	drain := "na"
	if err == nil {
		r2 = readAll(st2, append(append([]string{}, e.keys...), "1208fefefefe01020304"))
		// C11 on a recovered store: remove everything, leave the files behind, collect; every non-current primary file must be
		// released although the crash may have left records no index entry ever named
		if mp, ok := st2.Primary().(*mhprimary.MultihashPrimary); ok && !imm && img.tear == "" && e.drain {
			st2.VerifAttachGC()
			derr := ""
			for _, k := range append(append([]string{}, e.keys...), "1208fefefefe01020304") {
				kb, _ := hex.DecodeString(k)
				if _, err := st2.Remove(kb); err != nil {
					derr = "rm-err"
				}
			}
			st2.Flush()
			pk2, _ := hex.DecodeString("1208fdfdfdfd01020304")
			for i := 0; i < 2; i++ {
				st2.Put(pk2, []byte{0xd0, byte(i)})
				st2.Flush()
			}
			rounds := func(st *store.Store, mp *mhprimary.MultihashPrimary, n int) {
				for round := 0; round < n; round++ {
					if _, err := mp.VerifGC(context.Background(), 50, 0); err != nil {
						derr = "pgc-err"
					}
					st.Flush()
					if _, _, err := st.Index().VerifGC(context.Background(), true); err != nil && derr == "" {
						derr = "igc-err"
					}
				}
				st.Flush()
			}
			rounds(st2, mp, 4)
			// The collector measures a file's free share when it visits it, BEFORE it merges the spans it has just freed (the
			// merged span is larger by the 4-byte prefixes it swallows), and a visited file is revisited only when the freelist
			// names it again: a file can therefore come to rest just above the threshold by the file's own bytes although it was
			// just below it when visited. A restart clears the visited set; the verdict is taken after the restarted collector has
			// seen the merged files.
			// A recovered store can go on freeing after that restart (copies of records whose index update the crash lost are
			// freed only when a later cycle tries to move them), which recreates the situation; the verdict is taken after
			// three restarts.
			for pass := 0; pass < 3; pass++ {
				st2.Close()
				st3, err3 := store.OpenStore(context.Background(), kind, dp, ip, imm, opts...)
				if err3 != nil {
					return fmt.Sprintf("%s open=ok r0=%s post=%s r1=%s r2=%s drain=na!reopen-err", head, r0, post, r1, r2)
				}
				st2 = st3
				st2.VerifAttachGC()
				mp, _ = st2.Primary().(*mhprimary.MultihashPrimary)
				rounds(st2, mp, 5-pass)
			}
			var parts []string
			ents, _ := os.ReadDir(dir)
			for _, en := range ents {
				n := en.Name()
				if strings.HasPrefix(n, "storethehash.data.") && !strings.HasSuffix(n, ".info") && !strings.HasSuffix(n, ".tmp") {
					if data, err := os.ReadFile(filepath.Join(dir, n)); err == nil {
						// free and in-use bytes as the collector counts them (record sizes without the 4-byte prefix)
						var free, busy int64
						for pos := 0; pos+4 <= len(data); {
							sz := binary.LittleEndian.Uint32(data[pos:])
							if sz&0x80000000 != 0 {
								sz ^= 0x80000000
								free += int64(sz)
							} else {
								busy += int64(sz)
							}
							pos += 4 + int(sz)
						}
						parts = append(parts, fmt.Sprintf("%s:%d:%d:%d", strings.TrimPrefix(n, "storethehash.data."), len(data), free, busy))
					}
				}
			}
			drain = strings.Join(parts, ",")
			if drain == "" {
				drain = "none"
			}
			if derr != "" {
				drain += "!" + derr
			}
		}
		st2.Close()
	}
	return fmt.Sprintf("%s open=ok r0=%s post=%s r1=%s r2=%s drain=%s", head, r0, post, r1, r2, drain)
}

func orNone(s string) string {
	if s == "" {
		return "none"
	}
	return s
}

// generator: a seq workload; after every op with file-system steps, drain the crash images

type crashGen struct {
	c09     bool
	inner   *seqGen
	drain   bool
	sentKey bool
	tier    string
	fsOps   int
	maxFS   int
	drain11 bool
	plain   bool // default profile: the workload may end with a Flush that a Put runs into
	fpDone  bool
}

func newCrashGen(r *RNG, tier string, profile string) *crashGen {
	if profile == "" {
		profile = "c04"
	}
	drain11 := profile == "c11d"
	if drain11 {
		profile = "c04"
	}
	g := &crashGen{inner: newSeqGen(r, tier, profile), tier: tier, drain11: drain11, plain: profile == "c04" && !drain11}
	g.inner.kind = "mh"
	g.inner.maxOps = 10 + r.Intn(25)
	g.maxFS = 3 + r.Intn(3)
	if tier == "thorough" {
		g.inner.maxOps = 20 + r.Intn(60)
		g.maxFS = 1000
	}
	if g.inner.bits > 12 {
		g.inner.bits = 8 + r.Intn(5) // keep the snapshot small: it is part of every image
	}
	g.c09 = profile == "c09"
	return g
}

func (g *crashGen) Next(r *RNG, hist []Op) (Op, bool) {
	if !g.sentKey {
		g.sentKey = true
		ks := make([]string, len(g.inner.keys))
		for i, k := range g.inner.keys {
			ks[i] = hex.EncodeToString(k)
		}
		if g.drain11 {
			return mkOp("keys", "k", strings.Join(ks, ","), "tier", g.tier, "drain", "1"), true
		}
		return mkOp("keys", "k", strings.Join(ks, ","), "tier", g.tier), true
	}
	if len(hist) > 0 {
		last := hist[len(hist)-1]
		if last.Name == "crashnext" && last.Res != "none" {
			return mkOp("crashnext"), true
		}
		if last.Name != "crashnext" && strings.Contains(last.Res, " images=") {
			g.fsOps++
			return mkOp("crashnext"), true
		}
	}
	// the last operation of some workloads: a Flush with a Put of a key acknowledged at a point inside it
	flushPut := func() (Op, bool) {
		if !g.plain || g.fpDone || !g.inner.isOpen || g.inner.kind != "mh" || g.inner.imm != 0 || len(g.inner.keys) == 0 || !r.Bool(50) {
			g.fpDone = true
			return Op{}, false
		}
		g.fpDone = true
		k := g.inner.keys[r.Intn(len(g.inner.keys))]
		v := make([]byte, 1+r.Intn(12))
		for i := range v {
			v[i] = byte(r.Intn(256))
		}
		at := []string{"store.commit.primary_done", "primary.flush.swapped", "primary.flush.written", "index.flush.swapped", "store.commit.index_done", "store.flush.stamped"}[r.Intn(6)]
		return mkOp("flushput", "k", hex.EncodeToString(k), "v", hex.EncodeToString(v), "at", at), true
	}
	if g.fpDone {
		return Op{}, false
	}
	for {
		op, ok := g.inner.Next(r, hist)
		if !ok {
			return flushPut()
		}
		// views are not needed here; crash images are the observable
		if op.Name == "view" || op.Name == "disk" || op.Name == "sizes" || op.Name == "paths" || op.Name == "badsnap" || op.Name == "chunks" || op.Name == "acct" {
			continue
		}
		if g.c09 && op.Name == "open" {
			for i := range op.Args {
				if op.Args[i][0] == "bits" {
					if b, _ := strconv.Atoi(op.Args[i][1]); b > 12 {
						op.Args[i][1] = strconv.Itoa(8 + b%5)
						g.inner.bits = 8 + b%5
					}
				}
			}
		}
		if g.fsOps >= g.maxFS && (op.Name == "flush" || op.Name == "igc" || op.Name == "pgc" || op.Name == "iter") {
			// budget of crash-explored ops used up: end the workload
			return flushPut()
		}
		return op, true
	}
}

func parseDump(d string) map[string][]byte {
	out := map[string][]byte{}
	for _, part := range strings.Split(d, ";") {
		i := strings.IndexByte(part, '=')
		if i < 0 {
			continue
		}
		name, v := "storethehash."+part[:i], part[i+1:]
		if strings.HasSuffix(name, ".buckets") && strings.HasPrefix(v, "S") {
			f := strings.Split(v[1:], ",")
			size, _ := strconv.Atoi(f[0])
			data := make([]byte, size)
			for _, kv := range f[1:] {
				bp := strings.Split(kv, ":")
				if len(bp) != 2 {
					continue
				}
				b, _ := strconv.Atoi(bp[0])
				p, _ := strconv.ParseUint(bp[1], 10, 64)
				if 8*b+8 <= len(data) {
					for k := 0; k < 8; k++ {
						data[8*b+k] = byte(p >> (8 * uint(k)))
					}
				}
			}
			out[name] = data
			continue
		}
		data, _ := hex.DecodeString(v)
		if data == nil {
			data = []byte{}
		}
		out[name] = data
	}
	return out
}
