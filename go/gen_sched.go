package main

import (
	"encoding/hex"
	"fmt"
	"strconv"
	"strings"
)

type schedGen struct {
	profile string
	window  string
	solo    bool
	ops     []Op
	i       int
}

func newSchedGen(r *RNG, tier string, profile string) *schedGen {
	if profile == "" {
		profile = "c05"
	}
	g := &schedGen{profile: profile}
	bits := []int{8, 9, 12, 16}[r.Intn(4)]
	imm := 0
	if r.Bool(25) {
		imm = 1
	}
	ifs := []int{1, 33, 64, 200, 4096}[r.Intn(5)]
	pfs := []int{1, 33, 64, 200, 4096}[r.Intn(5)]
	hx := hex.EncodeToString
	// keys: one or two buckets, shared prefixes
	digests := genDigests(r, bits, 2+r.Intn(3))
	var keys []string
	for _, d := range digests {
		keys = append(keys, hx(mkMultihash(0x12, d)))
	}
	// window variant (c06): the collector runs alone except for ONE window at a chosen point (between the copy of a relocated
	// record and the index update, after the freelist hand-over, between busy check and mark ...) in which the other threads run
	// whole calls; no call then overlaps a collector mutation (known finding D18 cannot mask what the window exposes). Values keep
	// one length so that a relocated record and its successor differ in offset only.
	window := profile == "c06" && r.Bool(40)
	// tail variant of the window: the window lies after the cycle's own flush and before it decides which files are closed; the
	// file being appended to ends in a superseded record, and the writers fill it and roll over inside the window
	tail := false
	fixedLen := 0
	if window {
		tail = r.Bool(35)
		fixedLen = 1 + r.Intn(4)
		pfs = []int{64, 200}[r.Intn(2)]
		imm = 0 // the preparation of the window variants supersedes records by overwriting
	}
	val := func() string {
		b := make([]byte, 1+r.Intn(6))
		if fixedLen > 0 {
			b = make([]byte, fixedLen)
		}
		for i := range b {
			b[i] = byte(r.Intn(256))
		}
		return hx(b)
	}
	switch profile {
	case "c13":
		// freelist hand-over: writers that own disjoint keys (overlapping mutators of ONE key are known finding D17) overwrite
		// and remove, a Flush thread and a primary GC thread run alongside; accounting is checked after quiescence
		// relocation-window variant: the first key of the first writer keeps its record while its neighbours are superseded (its file
		// becomes low-use), the collector is stopped between the copy of that record and the re-pointing, and the owner overwrites or
		// removes the key inside the window (the accounting of the refused path)
		relocWin := r.Bool(30)
		cpfs := []int{33, 64, 200}[r.Intn(3)]
		if relocWin {
			cpfs = []int{64, 200}[r.Intn(2)]
		}
		g.ops = append(g.ops, mkOp("sopen", "bits", strconv.Itoa(bits), "ifs", strconv.Itoa(ifs), "pfs", strconv.Itoa(cpfs), "imm", "0"))
		nt := 2 + r.Intn(2)
		all := genDigests(r, bits, 3*nt)
		var allKeys []string
		for t := 0; t < nt; t++ {
			var mine []string
			for j := 0; j < 3 && t*3+j < len(all); j++ {
				k := hx(mkMultihash(0x12, all[t*3+j]))
				mine = append(mine, k)
				allKeys = append(allKeys, k)
				g.ops = append(g.ops, mkOp("sprep", "op", "put:"+k+":"+val()))
			}
			if len(mine) == 0 {
				continue
			}
			var ops []string
			for j := 0; j < 2+r.Intn(3); j++ {
				k := mine[r.Intn(len(mine))]
				if r.Bool(75) {
					ops = append(ops, "put:"+k+":"+val())
				} else {
					ops = append(ops, "rm:"+k)
				}
			}
			if relocWin && t == 0 {
				first := "put:" + mine[0] + ":" + val()
				if r.Bool(30) {
					first = "rm:" + mine[0]
				}
				ops = append([]string{first}, ops...)
			}
			g.ops = append(g.ops, mkOp("sthread", "name", fmt.Sprintf("t%d", t), "ops", strings.Join(ops, ",")))
		}
		g.ops = append(g.ops, mkOp("sprep", "op", "flush"))
		// flush-window variant: records superseded BEFORE their first flush (their freelist entries name pooled records), a store
		// Flush stopped between swapping the primary pool and writing it (or at another point inside commit), and a collector cycle
		// inside the window: its own primary Flush is the barrier that keeps the hand-over behind the records it names
		flushWin13 := !relocWin && r.Bool(25)
		if flushWin13 {
			for i := 0; i < 2+r.Intn(4); i++ {
				k := allKeys[r.Intn(len(allKeys))]
				g.ops = append(g.ops, mkOp("sprep", "op", "put:"+k+":"+val()), mkOp("sprep", "op", "put:"+k+":"+val()))
			}
			// only the flusher and the collector run: drop the writers
			var kept []Op
			for _, o := range g.ops {
				if o.Name != "sthread" {
					kept = append(kept, o)
				}
			}
			g.ops = kept
			g.ops = append(g.ops, mkOp("sthread", "name", "f", "ops", "flush"), mkOp("sthread", "name", "g", "ops", "pgc:"+strconv.Itoa([]int{100, 101, 85}[r.Intn(3)])))
			g.window = "f:" + []string{"primary.flush.swapped", "primary.flush.swapped", "primary.flush.written", "index.flush.swapped", "freelist.flush.swapped"}[r.Intn(5)] + ":1"
		} else if relocWin && len(allKeys) > 1 {
			for i := 0; i < 3+r.Intn(4); i++ {
				g.ops = append(g.ops, mkOp("sprep", "op", "put:"+allKeys[1+r.Intn(len(allKeys)-1)]+":"+val()))
				if r.Bool(70) {
					g.ops = append(g.ops, mkOp("sprep", "op", "flush"))
				}
			}
			g.ops = append(g.ops, mkOp("sprep", "op", "flush"))
			g.ops = append(g.ops, mkOp("sthread", "name", "g", "ops", "pgc:"+strconv.Itoa([]int{50, 85}[r.Intn(2)])))
			g.window = "g:primary.gc.reloc.put:1"
		} else {
			g.ops = append(g.ops, mkOp("sthread", "name", "f", "ops", "flush,flush"))
			if r.Bool(60) {
				g.ops = append(g.ops, mkOp("sthread", "name", "g", "ops", "pgc:100"))
			}
		}
		keys = allKeys
	case "c12":
		// rate limiting: burst 0 and a tiny measured flush rate make every writer take the waiting path
		g.ops = append(g.ops, mkOp("sopen", "bits", strconv.Itoa(bits), "ifs", strconv.Itoa(ifs), "pfs", strconv.Itoa(pfs), "imm", "0",
			"burst", []string{"0", "0", "40", "80", "150"}[r.Intn(5)], "rate", "0.000001", "start", "1"))
		// (a burst rate above zero: a writer that measured more than the burst - several operations on one bucket each count a
		// whole record list - can be waiting for a flush that WRITES less than the burst and therefore measures no rate)
		nw := 1 + r.Intn(2)
		for w := 0; w < nw; w++ {
			var ops []string
			for j := 0; j < 1+r.Intn(3); j++ {
				k := keys[r.Intn(len(keys))]
				if r.Bool(80) {
					ops = append(ops, "put:"+k+":"+val())
				} else {
					ops = append(ops, "rm:"+k)
				}
			}
			g.ops = append(g.ops, mkOp("sthread", "name", fmt.Sprintf("w%d", w), "ops", strings.Join(ops, ",")))
		}
		if r.Bool(75) {
			// an explicit Flush caller plays the periodic flush
			nf := 1 + r.Intn(2)
			fl := make([]string, nf)
			for i := range fl {
				fl[i] = "flush"
			}
			g.ops = append(g.ops, mkOp("sthread", "name", "f", "ops", strings.Join(fl, ",")))
		}
	default:
		g.ops = append(g.ops, mkOp("sopen", "bits", strconv.Itoa(bits), "ifs", strconv.Itoa(ifs), "pfs", strconv.Itoa(pfs), "imm", strconv.Itoa(imm)))
		// preparation: some keys present, some flushed
		for _, k := range keys {
			if r.Bool(55) {
				g.ops = append(g.ops, mkOp("sprep", "op", "put:"+k+":"+val()))
			}
			if r.Bool(30) {
				g.ops = append(g.ops, mkOp("sprep", "op", "flush"))
			}
		}
		if profile == "c06" {
			// garbage for the collectors: overwrite / remove and flush, twice
			for round := 0; round < 2; round++ {
				for _, k := range keys {
					switch r.Intn(3) {
					case 0:
						g.ops = append(g.ops, mkOp("sprep", "op", "put:"+k+":"+val()))
					case 1:
						g.ops = append(g.ops, mkOp("sprep", "op", "rm:"+k))
					}
				}
				g.ops = append(g.ops, mkOp("sprep", "op", "flush"))
			}
		}
		if window {
			// every key present and its file left behind, so that a low-use cycle has records to move
			for _, k := range keys {
				g.ops = append(g.ops, mkOp("sprep", "op", "put:"+k+":"+val()))
			}
			g.ops = append(g.ops, mkOp("sprep", "op", "flush"))
			// the first key stays where it is while its neighbours are superseded: its file becomes low-use with one live record
			for i := 0; i < 3+r.Intn(4); i++ {
				g.ops = append(g.ops, mkOp("sprep", "op", "put:"+keys[1+r.Intn(len(keys)-1)]+":"+val()))
				if r.Bool(70) {
					g.ops = append(g.ops, mkOp("sprep", "op", "flush"))
				}
			}
			g.ops = append(g.ops, mkOp("sprep", "op", "flush"))
			if tail || r.Bool(50) {
				// the file being appended to ends in a record that is already superseded (and is not full yet)
				last := keys[len(keys)-1]
				g.ops = append(g.ops, mkOp("sprep", "op", "put:"+last+":"+val()), mkOp("sprep", "op", "flush"))
				if r.Bool(50) {
					g.ops = append(g.ops, mkOp("sprep", "op", "rm:"+last))
				} else {
					g.ops = append(g.ops, mkOp("sprep", "op", "put:"+last+":"+val()))
				}
			}
		}
		// flush-window variant (c06): a Flush is stopped between writing its records and publishing them in the bucket table (or
		// at another point inside commit), with several dirty buckets and tiny index files so that the file rolls over inside
		// the flush; a collector cycle runs in the window (on the unchanged code it blocks on flushLock until the window
		// closes). No data call runs, so nothing overlaps a collector mutation (D18 cannot mask what the window exposes).
		flushWin := profile == "c06" && !window && r.Bool(15)
		if flushWin {
			// (more buckets; the key universe stays prefix-free, the premise of C01)
			more := genDigests(r, bits, 2+r.Intn(3))
			for _, d := range more {
				clash := false
				for _, o := range digests {
					if isPrefix(o, d) || isPrefix(d, o) {
						clash = true
					}
				}
				if !clash {
					digests = append(digests, d)
					keys = append(keys, hx(mkMultihash(0x12, d)))
				}
			}
			for _, k := range keys {
				if r.Bool(85) {
					g.ops = append(g.ops, mkOp("sprep", "op", "put:"+k+":"+val()))
				}
			}
			gop := "igc:0"
			switch r.Pick(60, 20, 20) {
			case 1:
				gop = "igc:1"
			case 2:
				gop = "pgc:" + strconv.Itoa([]int{0, 50, 85}[r.Intn(3)])
			}
			g.ops = append(g.ops, mkOp("sthread", "name", "f", "ops", "flush"), mkOp("sthread", "name", "g", "ops", gop))
			g.window = "f:" + []string{"index.flush.written", "index.flush.written", "index.flush.written", "index.flush.swapped", "primary.flush.written",
				"store.commit.primary_done", "index.flush.buckets_updated", "primary.flush.swapped", "primary.flush.swapped"}[r.Intn(9)] + ":1"
		}
		// solo-contention variant (c05): one key ALONE in its bucket, present or not, and two or three threads removing, putting and
		// reading it, over named hook points only. Overlapping mutators of one key are known finding D17; with no neighbour in the
		// bucket the section model predicts exactly what the code does then, and the finding excuses nothing else.
		solo := profile == "c05" && r.Bool(12)
		g.solo = solo
		if solo {
			var d []byte
			for tries := 0; tries < 200; tries++ {
				d = make([]byte, 8)
				for i := range d {
					d[i] = byte(r.Intn(256))
				}
				clash := false
				for _, o := range digests {
					if bucketOf(o, uint8(bits)) == bucketOf(d, uint8(bits)) {
						clash = true
					}
				}
				if !clash {
					break
				}
			}
			sk := hx(mkMultihash(0x12, d))
			keys = append(keys, sk)
			if r.Bool(75) {
				g.ops = append(g.ops, mkOp("sprep", "op", "put:"+sk+":"+val()))
				if r.Bool(50) {
					g.ops = append(g.ops, mkOp("sprep", "op", "flush"))
				}
			}
			for t := 0; t < 2+r.Intn(2); t++ {
				var ops []string
				for j := 0; j < 1+r.Intn(2); j++ {
					switch r.Pick(50, 35, 15) {
					case 0:
						ops = append(ops, "rm:"+sk)
					case 1:
						ops = append(ops, "put:"+sk+":"+val())
					default:
						ops = append(ops, "get:"+sk)
					}
				}
				g.ops = append(g.ops, mkOp("sthread", "name", fmt.Sprintf("t%d", t), "ops", strings.Join(ops, ",")))
			}
		}
		nt := 2 + r.Intn(2)
		if flushWin || solo {
			nt = 0
		}
		// owned mode: every key has one writer (key i belongs to thread i mod nt), so that no two mutators of ONE key overlap
		// (known finding D17) and every lost or resurrected update is attributable to interference BETWEEN keys
		owned := r.Bool(50) || window
		for t := 0; t < nt; t++ {
			var ops []string
			nops := 1 + r.Intn(3)
			if tail {
				nops = 3
			}
			for j := 0; j < nops; j++ {
				ki := r.Intn(len(keys))
				k := keys[ki]
				c := r.Pick(35, 25, 15, 8, 8)
				if tail && r.Bool(85) {
					c = 0
				}
				if owned && (c == 0 || c == 2) {
					if t >= len(keys) {
						c = 1
					} else {
						ki = t + nt*r.Intn((len(keys)-t+nt-1)/nt)
						k = keys[ki]
						if c == 0 && r.Bool(40) {
							c = 2
						}
					}
				}
				switch c {
				case 0:
					ops = append(ops, "put:"+k+":"+val())
				case 1:
					ops = append(ops, "get:"+k)
				case 2:
					ops = append(ops, "rm:"+k)
				case 3:
					ops = append(ops, "has:"+k)
				case 4:
					ops = append(ops, "size:"+k)
				}
			}
			if window && t == 0 {
				// the owner of the record the collector will move writes it inside the window
				first := "put:" + keys[0] + ":" + val()
				if r.Bool(25) {
					first = "rm:" + keys[0]
				}
				ops = append([]string{first}, ops...)
			}
			g.ops = append(g.ops, mkOp("sthread", "name", fmt.Sprintf("t%d", t), "ops", strings.Join(ops, ",")))
		}
		if !flushWin && !solo && r.Bool(70) && !(window && r.Bool(60)) {
			g.ops = append(g.ops, mkOp("sthread", "name", "f", "ops", "flush"))
			// two Flush callers (the periodic flusher and an explicit call) overlap each other and the writers
			if r.Bool(45) {
				g.ops = append(g.ops, mkOp("sthread", "name", "f2", "ops", []string{"flush", "flush,flush"}[r.Intn(2)]))
			}
		}
		if window {
			gop := "pgc:" + strconv.Itoa([]int{85, 100, 50}[r.Intn(3)])
			points := []string{"primary.gc.reloc.read", "primary.gc.reloc.put", "primary.gc.reloc.index_updated", "primary.gc.reloc.read", "primary.gc.reloc.put",
				"primary.gc.tgc_done", "primary.gc.flushed", "primary.gc.fl.applied"}
			if r.Bool(20) {
				gop = "igc:" + strconv.Itoa(r.Intn(2))
				points = []string{"index.gc.busy_checked", "index.gc.start"}
			}
			if tail {
				gop = "pgc:" + strconv.Itoa([]int{85, 50}[r.Intn(2)])
				points = []string{"primary.gc.flushed", "primary.gc.fl.applied", "primary.gc.fl.removed", "primary.gc.tgc_done"}
				g.ops = append(g.ops, mkOp("sthread", "name", "g", "ops", gop))
				g.window = "g:" + points[r.Intn(len(points))] + ":2"
			} else {
				g.ops = append(g.ops, mkOp("sthread", "name", "g", "ops", gop))
				g.window = "g:" + points[r.Intn(len(points))] + ":" + strconv.Itoa(1+r.Intn(3))
				if strings.HasPrefix(gop, "pgc") && !strings.HasSuffix(gop, ":100") && r.Bool(40) {
					// the window opens INSIDE the index update of the relocation: at the first (second) exclusive lock acquisition
					// after the copy - lock acquisitions are scheduling points in this variant
					g.window = "g:primary.gc.reloc.put>" + []string{"lock", "lock>lock", "rlock>lock"}[r.Intn(3)] + ":" + strconv.Itoa(1+r.Intn(2))
				}
			}
		} else if profile == "c06" && !flushWin {
			var ops []string
			for j := 0; j < 1+r.Intn(2); j++ {
				if r.Bool(55) {
					ops = append(ops, "pgc:"+strconv.Itoa([]int{0, 50, 85}[r.Intn(3)]))
				} else {
					ops = append(ops, "igc:"+strconv.Itoa(r.Intn(2)))
				}
			}
			g.ops = append(g.ops, mkOp("sthread", "name", "g", "ops", strings.Join(ops, ",")))
		}
	}
	// schedule: random picks, with runs of the same thread so that windows of 1..3 context switches are common
	var sched []string
	n := 200
	for len(sched) < n {
		t := r.Intn(6)
		run := 1 + r.Intn(6)
		for i := 0; i < run; i++ {
			sched = append(sched, strconv.Itoa(t))
		}
	}
	if g.window != "" && strings.Contains(g.window, ">") {
		g.ops = append(g.ops, mkOp("srun", "sched", strings.Join(sched, ","), "max", "3000", "window", g.window, "locks", "1"))
	} else if g.window != "" {
		g.ops = append(g.ops, mkOp("srun", "sched", strings.Join(sched, ","), "max", "1500", "window", g.window))
	} else if !g.solo && r.Bool(60) {
		// every lock acquisition of the index, primary, freelist and store is a scheduling point too
		g.ops = append(g.ops, mkOp("srun", "sched", strings.Join(sched, ","), "max", "3000", "locks", "1"))
	} else {
		g.ops = append(g.ops, mkOp("srun", "sched", strings.Join(sched, ","), "max", "400"))
	}
	if profile == "c13" {
		g.ops = append(g.ops, mkOp("sfinal", "k", strings.Join(keys, ","), "acct", "1"))
	} else {
		g.ops = append(g.ops, mkOp("sfinal", "k", strings.Join(keys, ",")))
	}
	return g
}

func (g *schedGen) Next(r *RNG, hist []Op) (Op, bool) {
	if g.i >= len(g.ops) {
		return Op{}, false
	}
	op := g.ops[g.i]
	g.i++
	return op, true
}
