package main

import (
	"fmt"
	"os"
	"path/filepath"
	"sort"
	"strconv"
	"strings"

	"github.com/ipld/go-storethehash/store/filecache"
)

// fc: the real filecache.FileCache over real temp files.

func init() {
	engines["fc"] = engineDef{
		newEngine: func() Engine { return &fcEngine{} },
		newGen:    func(r *RNG, tier string, profile string) Generator { return newFcGen(r, tier) },
	}
}

type fcEngine struct {
	dir     string
	fc      *filecache.FileCache
	names   []string
	handles []*os.File // by id, in order of first appearance
	ids     map[*os.File]int
	held    map[int]int
}

func (e *fcEngine) Close() {
	for _, f := range e.handles {
		f.Close()
	}
	if e.dir != "" {
		os.RemoveAll(e.dir)
	}
}

func (e *fcEngine) fdCount() int {
	ents, err := os.ReadDir("/proc/self/fd")
	if err != nil {
		return -1
	}
	n := 0
	for _, ent := range ents {
		t, err := os.Readlink(filepath.Join("/proc/self/fd", ent.Name()))
		if err == nil && strings.HasPrefix(t, e.dir) {
			n++
		}
	}
	return n
}

func (e *fcEngine) Exec(op *Op) string {
	if e.fc == nil && op.Name != "fcnew" {
		return "bad-op"
	}
	switch op.Name {
	case "fcnew":
		capacity, _ := strconv.Atoi(op.Arg("cap"))
		nn, _ := strconv.Atoi(op.Arg("names"))
		dir, err := os.MkdirTemp("", "sthv-fc-")
		if err != nil {
			return "err"
		}
		e.dir = dir
		e.ids = map[*os.File]int{}
		e.held = map[int]int{}
		for i := 0; i < nn; i++ {
			p := filepath.Join(dir, fmt.Sprintf("f%d", i))
			if err := os.WriteFile(p, []byte{byte(i)}, 0o644); err != nil {
				return "err"
			}
			e.names = append(e.names, p)
		}
		e.fc = filecache.New(capacity)
		return "ok"
	case "fcopen":
		n, _ := strconv.Atoi(op.Arg("n"))
		f, err := e.fc.Open(e.names[n])
		if err != nil {
			return "err"
		}
		id, ok := e.ids[f]
		if !ok {
			id = len(e.handles)
			e.handles = append(e.handles, f)
			e.ids[f] = id
		}
		e.held[id]++
		return fmt.Sprintf("h=%d", id)
	case "fcclose":
		h, _ := strconv.Atoi(op.Arg("h"))
		if h >= len(e.handles) || e.held[h] == 0 {
			return "bad-op" // a client only closes handles it holds
		}
		e.held[h]--
		err := e.fc.Close(e.handles[h])
		if err != nil {
			if strings.Contains(err.Error(), "file already closed") {
				return "errclosed"
			}
			return "err"
		}
		return "ok"
	case "fcremove":
		n, _ := strconv.Atoi(op.Arg("n"))
		e.fc.Remove(e.names[n])
		return "ok"
	case "fcclear":
		e.fc.Clear()
		return "ok"
	case "fcsize":
		n, _ := strconv.Atoi(op.Arg("n"))
		e.fc.SetCacheSize(n)
		return "ok"
	case "fcview":
		var open []int
		for id, f := range e.handles {
			if _, err := f.Stat(); err == nil {
				open = append(open, id)
			}
		}
		sort.Ints(open)
		strs := make([]string, len(open))
		for i, v := range open {
			strs[i] = strconv.Itoa(v)
		}
		return fmt.Sprintf("len=%d cap=%d open=%s fds=%d", e.fc.Len(), e.fc.Cap(), strings.Join(strs, ","), e.fdCount())
	}
	return "bad-op"
}

type fcGen struct {
	names  int
	cap    int
	maxOps int
	step   int
	held   []int // handle ids currently held (with multiplicity)
	view   bool
}

func newFcGen(r *RNG, tier string) *fcGen {
	g := &fcGen{names: 2 + r.Intn(3), cap: r.Intn(4), maxOps: 10 + r.Intn(50)}
	if tier == "thorough" {
		g.maxOps = 20 + r.Intn(120)
		g.names = 2 + r.Intn(5)
		g.cap = r.Intn(6)
	}
	return g
}

func (g *fcGen) Next(r *RNG, hist []Op) (Op, bool) {
	if len(hist) == 0 {
		return mkOp("fcnew", "cap", strconv.Itoa(g.cap), "names", strconv.Itoa(g.names)), true
	}
	last := hist[len(hist)-1]
	// track held handles from results
	if last.Name == "fcopen" && strings.HasPrefix(last.Res, "h=") {
		h, _ := strconv.Atoi(last.Res[2:])
		g.held = append(g.held, h)
	}
	if g.view {
		g.view = false
		return mkOp("fcview"), true
	}
	if g.step >= g.maxOps {
		return Op{}, false
	}
	g.step++
	g.view = true
	for {
		switch r.Pick(40, 30, 8, 6, 16) {
		case 0:
			return mkOp("fcopen", "n", strconv.Itoa(r.Intn(g.names))), true
		case 1:
			if len(g.held) == 0 {
				continue
			}
			i := r.Intn(len(g.held))
			h := g.held[i]
			g.held = append(g.held[:i], g.held[i+1:]...)
			return mkOp("fcclose", "h", strconv.Itoa(h)), true
		case 2:
			return mkOp("fcremove", "n", strconv.Itoa(r.Intn(g.names))), true
		case 3:
			return mkOp("fcclear"), true
		case 4:
			return mkOp("fcsize", "n", strconv.Itoa(r.Intn(5))), true
		}
	}
}
