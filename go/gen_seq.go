package main

import (
	"encoding/binary"
	"encoding/hex"
	"strconv"
)

// generator for the seq engine

type seqGen struct {
	profile string
	kind    string
	bits    int
	ifs     int
	pfs     int
	imm     int
	keys    [][]byte          // universe
	vals    map[string][]byte // harness-side view of contents (only to choose interesting ops)
	has     map[string]bool
	isOpen  bool
	step    int
	maxOps  int
	pending []Op
	started bool
	dirty   bool
}

func uvarintBytes(x uint64) []byte {
	var buf [10]byte
	n := binary.PutUvarint(buf[:], x)
	return buf[:n]
}

func mkMultihash(code uint64, digest []byte) []byte {
	out := append([]byte{}, uvarintBytes(code)...)
	out = append(out, uvarintBytes(uint64(len(digest)))...)
	return append(out, digest...)
}

func mkCid(version int, codec uint64, mh []byte) []byte {
	if version == 0 {
		return mh
	}
	out := append([]byte{1}, uvarintBytes(codec)...)
	return append(out, mh...)
}

var mhCodes = []uint64{0x12, 0x12, 0x00, 0xb220, 0x1b, 0x11}

func isPrefix(a, b []byte) bool {
	if len(a) > len(b) {
		return false
	}
	return string(b[:len(a)]) == string(a)
}

// genDigests returns n digests (>= 4 bytes, pairwise prefix-free) concentrated in few buckets.
func genDigests(r *RNG, bits int, n int) [][]byte {
	nb := 1 + r.Intn(3)
	bases := make([]uint32, nb)
	for i := range bases {
		bases[i] = uint32(r.U64())
	}
	mask := uint32(1)<<uint(bits) - 1
	alpha := 2 + r.Intn(2)
	if r.Bool(12) {
		alpha = 4 + r.Intn(250)
	}
	tail := r.Intn(6)
	equalLen := r.Bool(70)
	var out [][]byte
	for tries := 0; len(out) < n && tries < 400; tries++ {
		l := tail
		if !equalLen {
			l = r.Intn(tail + 3)
		}
		if r.Bool(3) {
			l = 28 // sha256-sized
		}
		d := make([]byte, 4+l)
		v := bases[r.Intn(nb)]
		if bits < 32 {
			v = (v & mask) | (uint32(r.Intn(alpha)) << uint(bits))
		}
		binary.LittleEndian.PutUint32(d, v)
		for i := 4; i < len(d); i++ {
			d[i] = byte(r.Intn(alpha))
		}
		ok := true
		for _, o := range out {
			if isPrefix(o, d) || isPrefix(d, o) {
				ok = false
				break
			}
		}
		if ok {
			out = append(out, d)
		}
	}
	return out
}

func newSeqGen(r *RNG, tier string, profile string) *seqGen {
	if profile == "" {
		profile = "all"
	}
	g := &seqGen{profile: profile, vals: map[string][]byte{}, has: map[string]bool{}}
	g.kind = "mh"
	if r.Bool(20) && (profile == "c01" || profile == "c02" || profile == "all") && profile != "c10" {
		g.kind = "cid"
	}
	bitsChoices := []int{8, 8, 9, 10, 11, 12, 12, 13, 14, 15, 16, 16, 17, 18, 19, 20}
	if r.Bool(3) {
		bitsChoices = []int{21, 22, 23, 24}
	}
	g.bits = bitsChoices[r.Intn(len(bitsChoices))]
	sizes := []int{1, 7, 33, 64, 200, 4096, 0}
	g.ifs = sizes[r.Intn(len(sizes))]
	g.pfs = sizes[r.Intn(len(sizes))]
	if profile == "c04" || profile == "c11" || profile == "c13" || profile == "c07" {
		// GC needs several files; index files holding several records exercise marking, merging of free spans across
		// cycles and truncation with live records behind them
		g.ifs = []int{1, 33, 64, 64, 100, 200, 200}[r.Intn(7)]
		g.pfs = []int{1, 33, 64, 200}[r.Intn(4)]
	}
	if profile == "c02" && r.Bool(50) {
		g.ifs = []int{33, 64, 100, 200}[r.Intn(4)]
		g.pfs = []int{33, 64, 200}[r.Intn(3)]
	}
	g.imm = 0
	if r.Bool(25) {
		g.imm = 1
	}
	g.maxOps = 15 + r.Intn(45)
	if tier == "thorough" {
		g.maxOps = 30 + r.Intn(250)
	}
	nkeys := 3 + r.Intn(9)
	for _, d := range genDigests(r, g.bits, nkeys) {
		code := mhCodes[r.Intn(len(mhCodes))]
		if profile == "c10" && code > 0x7f {
			code = 0x12
		}
		mh := mkMultihash(code, d)
		if g.kind == "cid" {
			if len(d) == 32 && r.Bool(50) {
				mh = mkMultihash(0x12, d)
				g.keys = append(g.keys, mkCid(0, 0, mh))
			} else {
				g.keys = append(g.keys, mkCid(1, []uint64{0x55, 0x70, 0x71}[r.Intn(3)], mh))
			}
		} else {
			g.keys = append(g.keys, mh)
		}
	}
	return g
}

func (g *seqGen) openOp(bits, ifs, pfs int) Op {
	return mkOp("open", "kind", g.kind, "bits", strconv.Itoa(bits), "ifs", strconv.Itoa(ifs), "pfs", strconv.Itoa(pfs), "imm", strconv.Itoa(g.imm))
}

func (g *seqGen) randVal(r *RNG) string {
	switch r.Pick(10, 6, 50, 20, 14) {
	case 0:
		return "nil"
	case 1:
		return ""
	case 2:
		l := 1 + r.Intn(12)
		b := make([]byte, l)
		for i := range b {
			b[i] = byte(r.Intn(256))
		}
		return hex.EncodeToString(b)
	case 3:
		// near a file-size boundary
		base := g.pfs
		if base == 0 || base > 300 {
			base = 40
		}
		l := base - 8 + r.Intn(16)
		if l < 0 {
			l = r.Intn(5)
		}
		b := make([]byte, l)
		for i := range b {
			b[i] = byte(r.Intn(4))
		}
		return hex.EncodeToString(b)
	default:
		b := make([]byte, 1+r.Intn(3))
		for i := range b {
			b[i] = byte(0xa0 + r.Intn(3))
		}
		return hex.EncodeToString(b)
	}
}

func malformedKey(r *RNG, kind string) string {
	switch r.Intn(5) {
	case 0:
		return hex.EncodeToString(mkMultihash(0x12, []byte{1, 2})) // digest shorter than 4 bytes
	case 1:
		return "1220aabb" // inconsistent length
	case 2:
		return "80" // truncated varint
	case 3:
		return hex.EncodeToString(mkMultihash(0x00, []byte{9, 9, 9})) // 3-byte digest
	default:
		return "" // empty key
	}
}

func (g *seqGen) readBackAll() {
	for _, k := range g.keys {
		g.pending = append(g.pending, mkOp("get", "k", hex.EncodeToString(k)))
	}
}

// c11Script builds the fixed-shape C11 history: fill several files, supersede most or all of their contents,
// flush, then run GC rounds and observe the directory.
func (g *seqGen) c11Script(r *RNG) []Op {
	hx := hex.EncodeToString
	var ops []Op
	ops = append(ops, g.openOp(g.bits, g.ifs, g.pfs), mkOp("view"), mkOp("disk"))
	val := func() string {
		b := make([]byte, 6+r.Intn(30))
		for i := range b {
			b[i] = byte(r.Intn(256))
		}
		return hex.EncodeToString(b)
	}
	// phase 1: fill
	for round := 0; round < 2+r.Intn(2); round++ {
		for _, k := range g.keys {
			if r.Bool(80) {
				ops = append(ops, mkOp("put", "k", hx(k), "v", val()))
			}
		}
		ops = append(ops, mkOp("flush"))
	}
	// collectors that have already been over the files once (visited sets, resume points) must come back to them
	if r.Bool(50) {
		for i := 0; i < 1+r.Intn(2); i++ {
			ops = append(ops, mkOp("pgc", "lowuse", []string{"85", "50"}[r.Intn(2)], "budget", "-1"), mkOp("flush"), mkOp("igc", "scanfree", strconv.Itoa(r.Intn(2)), "budget", "-1"))
		}
		ops = append(ops, mkOp("view"), mkOp("disk"))
	}
	// phase 2: supersede everything (all keys removed or overwritten), or leave one or two live records behind
	keep := 0
	if r.Bool(40) {
		keep = 1 + r.Intn(2)
	}
	// interrupted variant: the supersession comes in two halves with a primary GC cycle in between whose context expires while
	// the freelist is being applied (the hand-over file stays behind): the next complete cycle has TWO non-empty freelist passes
	// (the left-over hand-over file, then the entries recorded since), and the files named by either must be revisited
	cutAt := -1
	if len(g.keys) > keep+2 && r.Bool(40) {
		cutAt = keep + 1 + r.Intn(len(g.keys)-keep-1)
	}
	for i, k := range g.keys {
		if i < keep {
			continue
		}
		if i == cutAt {
			ops = append(ops, mkOp("flush"), mkOp("pgc", "lowuse", "85", "budget", strconv.Itoa(r.Intn(4))), mkOp("view"), mkOp("disk"))
		}
		if r.Bool(50) {
			ops = append(ops, mkOp("rm", "k", hx(k)))
		} else {
			ops = append(ops, mkOp("put", "k", hx(k), "v", val()))
		}
	}
	ops = append(ops, mkOp("flush"))
	// make the files that held the superseded data non-current
	extra, _ := hex.DecodeString("1208ee01020304050607")
	ops = append(ops, mkOp("put", "k", hx(extra), "v", val()), mkOp("flush"), mkOp("put", "k", hx(extra), "v", val()), mkOp("flush"))
	// time-limited variant: the collector's own time limit expires in every cycle, so each cycle visits exactly one file after its
	// freelist phase; the files must still all be reached, one per cycle
	tl := r.Bool(35)
	lowuse := []string{"85", "85", "50", "100"}[r.Intn(4)]
	nRounds := 7
	if tl {
		ops = append(ops, mkOp("view"), mkOp("disk"), mkOp("acct"), mkOp("c11mark", "tl", "1"))
		nRounds = 16
	} else {
		ops = append(ops, mkOp("view"), mkOp("disk"), mkOp("acct"), mkOp("c11mark"))
	}
	for round := 0; round < nRounds; round++ {
		ops = append(ops, mkOp("c11round", "n", strconv.Itoa(round)))
		pg := mkOp("pgc", "lowuse", lowuse, "budget", "-1")
		if tl {
			pg = mkOp("pgc", "lowuse", lowuse, "tl", "1")
		}
		ops = append(ops, mkOp("sizes"), pg, mkOp("sizes"), mkOp("flush"), mkOp("view"), mkOp("disk"), mkOp("acct"))
		ops = append(ops, mkOp("sizes"), mkOp("igc", "scanfree", strconv.Itoa(r.Intn(2)), "budget", "-1"), mkOp("sizes"), mkOp("view"), mkOp("disk"))
	}
	ops = append(ops, mkOp("c11end"))
	for _, k := range g.keys {
		ops = append(ops, mkOp("get", "k", hx(k)))
	}
	ops = append(ops, mkOp("close"), mkOp("disk"))
	return ops
}

func (g *seqGen) Next(r *RNG, hist []Op) (Op, bool) {
	if g.profile == "c11" {
		if !g.started {
			g.started = true
			g.kind = "mh"
			g.pending = g.c11Script(r)
		}
		if len(g.pending) == 0 {
			return Op{}, false
		}
		op := g.pending[0]
		g.pending = g.pending[1:]
		return op, true
	}
	if !g.started && g.profile == "c10" {
		// a legacy store generated from an arbitrary map with arbitrary freed records, opened with chunk limits that
		// split the old files; afterwards the upgraded store goes through an ordinary history
		g.started = true
		g.isOpen = true
		g.kind = "mh"
		hx := hex.EncodeToString
		var recs, freed, bad, gone []string
		n := 0
		for round := 0; round < 1+r.Intn(2); round++ {
			for _, k := range g.keys {
				if len(k) < 2 || k[0] >= 0x80 || k[1] >= 0x80 {
					continue
				}
				if round > 0 && !r.Bool(40) {
					continue
				}
				v := g.randVal(r)
				if v == "nil" {
					v = ""
				}
				recs = append(recs, hx(k)+":"+v)
				// an earlier record of a key that appears again later is long gone from the index
				switch {
				case g.has[string(k)]:
					// the previous record of this key becomes "gone"
					for j := n - 1; j >= 0; j-- {
						if recs[j][:indexByte(recs[j], ':')] == hx(k) && !containsStr(gone, strconv.Itoa(j)) && !containsStr(freed, strconv.Itoa(j)) && !containsStr(bad, strconv.Itoa(j)) {
							gone = append(gone, strconv.Itoa(j))
							break
						}
					}
					g.has[string(k)] = true
				default:
					g.has[string(k)] = true
				}
				n++
			}
		}
		// free or corrupt some of the records that are current
		for i := 0; i < n; i++ {
			if containsStr(gone, strconv.Itoa(i)) {
				continue
			}
			kh := recs[i][:len(recs[i])-len(recs[i][indexByte(recs[i], ':'):])]
			switch r.Pick(70, 18, 12) {
			case 1:
				freed = append(freed, strconv.Itoa(i))
				kb, _ := hex.DecodeString(kh)
				delete(g.has, string(kb))
			case 2:
				bad = append(bad, strconv.Itoa(i))
				kb, _ := hex.DecodeString(kh)
				delete(g.has, string(kb))
			}
		}
		// torn tail: the legacy primary ends in a record that was being appended when the process died (it is in the primary and
		// nowhere else); the upgrade must drop it whole
		tear := 0
		if n >= 1 && r.Bool(15) {
			tk := g.keys[r.Intn(len(g.keys))]
			tv := make([]byte, 1+r.Intn(12))
			for i := range tv {
				tv[i] = byte(r.Intn(256))
			}
			recs = append(recs, hx(tk)+":"+hx(tv))
			gone = append(gone, strconv.Itoa(n))
			n++
			tear = 1 + r.Intn(4+len(tk)+len(tv)-1)
		}
		g.ifs = []int{1, 16, 100, 1024, 0}[r.Intn(5)]
		g.pfs = []int{1, 16, 100, 1024, 0}[r.Intn(5)]
		stale := strconv.Itoa(r.Intn(2))
		var ks []string
		for _, k := range g.keys {
			ks = append(ks, hx(k))
		}
		if tear > 0 {
			// (the chunk-size comparison of the `chunks` op assumes whole records)
			g.pending = append(g.pending, g.openOp(g.bits, g.ifs, g.pfs), mkOp("fsck"), mkOp("view"), mkOp("disk"))
		} else {
			g.pending = append(g.pending, g.openOp(g.bits, g.ifs, g.pfs), mkOp("fsck"), mkOp("chunks", "k", joinRecKeys(recs)), mkOp("view"), mkOp("disk"))
		}
		g.readBackAll()
		g.profile = "c10run"
		if tear > 0 {
			return mkOp("legacy", "bits", strconv.Itoa(g.bits), "recs", joinStr(recs), "freed", joinStr(freed), "bad", joinStr(bad), "gone", joinStr(gone), "stale", stale, "tear", strconv.Itoa(tear)), true
		}
		return mkOp("legacy", "bits", strconv.Itoa(g.bits), "recs", joinStr(recs), "freed", joinStr(freed), "bad", joinStr(bad), "gone", joinStr(gone), "stale", stale), true
	}
	if !g.started {
		g.started = true
		g.isOpen = true
		g.pending = append(g.pending, mkOp("view"), mkOp("disk"))
		return g.openOp(g.bits, g.ifs, g.pfs), true
	}
	if g.profile == "c07" && len(hist) > 0 && len(g.pending) == 0 {
		last := hist[len(hist)-1]
		// after the views that follow a flush / GC cycle / reopen: the quiescent states C07 is about
		if last.Name == "disk" && len(hist) >= 3 {
			for j := len(hist) - 2; j >= 0 && j >= len(hist)-4; j-- {
				n := hist[j].Name
				if n == "flush" || n == "pgc" || n == "igc" || (n == "open" && hist[j].Res == "ok") {
					return mkOp("fsck"), true
				}
				if n != "view" && n != "disk" && n != "sizes" {
					break
				}
			}
		}
	}
	if g.profile == "c13" && len(hist) > 0 {
		last := hist[len(hist)-1]
		switch last.Name {
		case "put", "rm", "flush", "pgc", "igc", "iter":
			return mkOp("acct"), true
		case "open":
			if last.Res == "ok" {
				return mkOp("acct"), true
			}
		}
	}
	if len(g.pending) > 0 {
		op := g.pending[0]
		g.pending = g.pending[1:]
		return op, true
	}

	if len(hist) > 0 {
		last := hist[len(hist)-1]
		if len(last.Res) >= 5 && last.Res[:5] == "panic" {
			return Op{}, false
		}
	}
	if g.step >= g.maxOps || len(g.keys) == 0 {
		if g.isOpen && !g.dirty {
			// final read-back and close
			g.dirty = true
			g.readBackAll()
			g.pending = append(g.pending, mkOp("iter"), mkOp("close"), mkOp("disk"))
			g.isOpen = false
			op := g.pending[0]
			g.pending = g.pending[1:]
			return op, true
		}
		return Op{}, false
	}
	g.step++
	hx := hex.EncodeToString
	gcOK := g.kind == "mh" && (g.profile == "c02" || g.profile == "c10run" || g.profile == "c04" || g.profile == "c11" || g.profile == "c13" || g.profile == "all" || g.profile == "c07")
	reopenOK := g.profile == "c10run" || g.profile == "c02" || g.profile == "all" || g.profile == "c04" || g.profile == "c13" || g.profile == "c07" || g.profile == "c09"
	wGC, wReopen := 0, 0
	if gcOK {
		wGC = 10
		if g.profile == "c04" || g.profile == "c11" {
			wGC = 18
		}
	}
	if reopenOK {
		wReopen = 5
		if g.profile == "c02" {
			wReopen = 10
		}
		if g.profile == "c09" {
			wReopen = 14
		}
	}
	var present, absent [][]byte
	for _, k := range g.keys {
		if g.has[string(k)] {
			present = append(present, k)
		} else {
			absent = append(absent, k)
		}
	}
	for {
		switch r.Pick(26, 14, 10, 4, 4, 9, 3, 10, 2, wGC, wReopen, 2) {
		case 0: // put absent key
			if len(absent) == 0 {
				continue
			}
			k := absent[r.Intn(len(absent))]
			v := g.randVal(r)
			g.has[string(k)] = true
			g.vals[string(k)] = []byte(v)
			g.pending = append(g.pending, mkOp("view"), mkOp("get", "k", hx(k)))
			return mkOp("put", "k", hx(k), "v", v), true
		case 1: // put present key (same or different value)
			if len(present) == 0 {
				continue
			}
			k := present[r.Intn(len(present))]
			v := g.randVal(r)
			if r.Bool(30) {
				v = string(g.vals[string(k)])
			}
			if g.imm == 0 {
				g.vals[string(k)] = []byte(v)
			}
			g.pending = append(g.pending, mkOp("view"), mkOp("get", "k", hx(k)))
			return mkOp("put", "k", hx(k), "v", v), true
		case 2: // get
			k := g.keys[r.Intn(len(g.keys))]
			return mkOp("get", "k", hx(k)), true
		case 3:
			k := g.keys[r.Intn(len(g.keys))]
			return mkOp("has", "k", hx(k)), true
		case 4:
			k := g.keys[r.Intn(len(g.keys))]
			return mkOp("size", "k", hx(k)), true
		case 5: // remove present
			if len(present) == 0 {
				continue
			}
			k := present[r.Intn(len(present))]
			delete(g.has, string(k))
			g.pending = append(g.pending, mkOp("view"), mkOp("get", "k", hx(k)))
			return mkOp("rm", "k", hx(k)), true
		case 6: // remove absent
			if len(absent) == 0 {
				continue
			}
			k := absent[r.Intn(len(absent))]
			g.pending = append(g.pending, mkOp("view"))
			return mkOp("rm", "k", hx(k)), true
		case 7:
			g.pending = append(g.pending, mkOp("view"), mkOp("disk"))
			return mkOp("flush"), true
		case 8:
			g.pending = append(g.pending, mkOp("view"))
			return mkOp("iter"), true
		case 9: // GC
			if wGC == 0 {
				continue
			}
			budget := "-1"
			if r.Bool(25) {
				budget = strconv.Itoa(r.Intn(12))
			}
			g.pending = append(g.pending, mkOp("view"), mkOp("disk"), mkOp("sizes"))
			g.readBackAll()
			if r.Bool(50) {
				return mkOp("igc", "scanfree", strconv.Itoa(r.Intn(2)), "budget", budget), true
			}
			lowuse := []int{0, 50, 85, 100, 85, 85}[r.Intn(6)]
			return mkOp("pgc", "lowuse", strconv.Itoa(lowuse), "budget", budget), true
		case 10: // close and reopen
			if wReopen == 0 {
				continue
			}
			if r.Bool(35) {
				g.pending = append(g.pending, mkOp("view"), mkOp("disk"))
				g.readBackAll()
				return mkOp("paths"), true
			}
			g.pending = append(g.pending, mkOp("disk"))
			switch r.Pick(50, 35, 15) {
			case 1:
				g.pending = append(g.pending, mkOp("rmsnap"))
			case 2:
				g.pending = append(g.pending, mkOp("badsnap"))
			}
			if g.profile == "c09" {
				realIfs, realPfs := g.ifs, g.pfs
				if realIfs == 0 {
					realIfs = 1 << 30
				}
				if realPfs == 0 {
					realPfs = 1 << 30
				}
				// a limit of 0 means "the default" resp. "whatever the store has": never a mismatch
				other := func(real int) int {
					v := real - 1 + 2*r.Intn(2)
					if v <= 0 {
						v = real + 1
					}
					return v
				}
				switch r.Pick(60, 15, 15, 10) {
				case 0: // another bit size
					nb := 8 + r.Intn(9)
					if r.Bool(5) {
						nb = 17 + r.Intn(8)
					}
					g.bits = nb
				case 1: // refused: index file size mismatch; then the original settings again
					g.pending = append(g.pending, g.openOp(g.bits, other(realIfs), g.pfs), mkOp("disk"))
				case 2: // refused: primary file size mismatch
					if g.kind == "mh" {
						g.pending = append(g.pending, g.openOp(g.bits, g.ifs, other(realPfs)), mkOp("disk"))
					}
				case 3: // bit size and index file size together
					g.pending = append(g.pending, g.openOp(8+r.Intn(9), other(realIfs), g.pfs), mkOp("disk"))
				}
			}
			g.pending = append(g.pending, g.openOp(g.bits, g.ifs, g.pfs), mkOp("view"), mkOp("disk"))
			g.readBackAll()
			return mkOp("close"), true
		case 11: // malformed key: must be rejected without effect
			k := malformedKey(r, g.kind)
			g.pending = append(g.pending, mkOp("view"))
			switch r.Intn(3) {
			case 0:
				return mkOp("put", "k", k, "v", "aa"), true
			case 1:
				return mkOp("get", "k", k), true
			default:
				return mkOp("rm", "k", k), true
			}
		}
	}
}

func containsStr(l []string, x string) bool {
	for _, y := range l {
		if y == x {
			return true
		}
	}
	return false
}

func indexByte(s string, c byte) int {
	for i := 0; i < len(s); i++ {
		if s[i] == c {
			return i
		}
	}
	return len(s)
}

func joinStr(l []string) string {
	out := ""
	for i, x := range l {
		if i > 0 {
			out += ","
		}
		out += x
	}
	return out
}

func joinRecKeys(recs []string) string {
	out := ""
	for i, x := range recs {
		if i > 0 {
			out += ","
		}
		out += x[:indexByte(x, ':')]
	}
	return out
}
