package main

import (
	"context"
	"encoding/hex"
	"errors"
	"fmt"
	"os"
	"path/filepath"
	"strconv"
	"strings"
	"time"

	blocks "github.com/ipfs/go-block-format"
	"github.com/ipfs/go-cid"
	ipld "github.com/ipfs/go-ipld-format"
	storethehash "github.com/ipld/go-storethehash"
	"github.com/ipld/go-storethehash/store"
	mh "github.com/multiformats/go-multihash"
)

// bs: the real HashedBlockstore adapter.

func init() {
	engines["bs"] = engineDef{
		newEngine: func() Engine { return &bsEngine{} },
		newGen:    func(r *RNG, tier string, profile string) Generator { return newBsGen(r, tier) },
	}
}

type bsEngine struct {
	dir  string
	bs   *storethehash.HashedBlockstore
	opts []store.Option
	// expected contents (multihash -> bytes, first Put wins), used only to tell the model whether the
	// stored bytes hash to the requested CID: the real Sum is the instance of the model's hash parameter.
	stored map[string][]byte
}

func (e *bsEngine) hm(c cid.Cid) string {
	d, ok := e.stored[string(c.Hash())]
	if !ok {
		return "na"
	}
	c2, err := c.Prefix().Sum(d)
	if err == nil && c2.Equals(c) {
		return "1"
	}
	return "0"
}

func (e *bsEngine) Close() {
	if e.bs != nil {
		e.bs.Close()
	}
	if e.dir != "" {
		os.RemoveAll(e.dir)
	}
}

func ctxOf(op *Op) context.Context {
	if op.Arg("ctx") == "cancelled" {
		ctx, cancel := context.WithCancel(context.Background())
		cancel()
		return ctx
	}
	return context.Background()
}

func bsErr(err error) string {
	if err == nil {
		return "ok"
	}
	if errors.Is(err, context.Canceled) {
		return "err:ctx"
	}
	if ipld.IsNotFound(err) {
		return "notfound"
	}
	if errors.Is(err, blocks.ErrWrongHash) {
		return "err:wrong-hash"
	}
	return "err:other"
}

func (e *bsEngine) Exec(op *Op) string {
	if e.bs == nil && op.Name != "bsopen" {
		return "bad-op"
	}
	switch op.Name {
	case "bsopen":
		if e.dir == "" {
			dir, err := os.MkdirTemp("", "sthv-bs-")
			if err != nil {
				return "err:other"
			}
			e.dir = dir
		}
		bits, _ := strconv.Atoi(op.Arg("bits"))
		ifs, _ := strconv.Atoi(op.Arg("ifs"))
		pfs, _ := strconv.Atoi(op.Arg("pfs"))
		e.opts = []store.Option{store.IndexBitSize(uint8(bits)), store.IndexFileSize(uint32(ifs)), store.PrimaryFileSize(uint32(pfs)),
			store.GCInterval(0), store.SyncInterval(time.Hour)}
		bs, err := storethehash.OpenHashedBlockstore(context.Background(), filepath.Join(e.dir, "storethehash.index"), filepath.Join(e.dir, "storethehash.data"), e.opts...)
		if err != nil {
			return "err:other"
		}
		e.bs = bs
		if e.stored == nil {
			e.stored = map[string][]byte{}
		}
		return "ok"
	case "bsreopen":
		// Close the blockstore (its store flushes) and open it again on the same directory, with or without the bucket snapshot:
		// the contract speaks about the blockstore, not about one process's handle on it
		e.bs.Close()
		e.bs = nil
		if op.Arg("snap") == "0" {
			os.Remove(filepath.Join(e.dir, "storethehash.index.buckets"))
		}
		bs, err := storethehash.OpenHashedBlockstore(context.Background(), filepath.Join(e.dir, "storethehash.index"), filepath.Join(e.dir, "storethehash.data"), e.opts...)
		if err != nil {
			return "err:other"
		}
		e.bs = bs
		return "ok"
	case "bsput":
		c, d, err := parseBlock(op.Arg("c"), op.Arg("d"))
		if err != nil {
			return "bad-op"
		}
		blk, _ := blocks.NewBlockWithCid(d, c)
		err = e.bs.Put(ctxOf(op), blk)
		if err == nil {
			if _, ok := e.stored[string(c.Hash())]; !ok {
				e.stored[string(c.Hash())] = d
			}
		}
		return bsErr(err)
	case "bsputmany":
		cs := strings.Split(op.Arg("c"), ",")
		ds := strings.Split(op.Arg("d"), ",")
		var blks []blocks.Block
		for i := range cs {
			c, d, err := parseBlock(cs[i], ds[i])
			if err != nil {
				return "bad-op"
			}
			blk, _ := blocks.NewBlockWithCid(d, c)
			blks = append(blks, blk)
		}
		err := e.bs.PutMany(ctxOf(op), blks)
		if err == nil {
			for _, b := range blks {
				if _, ok := e.stored[string(b.Cid().Hash())]; !ok {
					e.stored[string(b.Cid().Hash())] = b.RawData()
				}
			}
		}
		return bsErr(err)
	case "bsget":
		c, _, err := parseBlock(op.Arg("c"), "")
		if err != nil {
			return "bad-op"
		}
		hm := e.hm(c)
		blk, err := e.bs.Get(ctxOf(op), c)
		if err != nil {
			return bsErr(err) + " hm=" + hm
		}
		return fmt.Sprintf("found c=%s d=%s hm=%s", hex.EncodeToString(blk.Cid().Bytes()), hex.EncodeToString(blk.RawData()), hm)
	case "bshas":
		c, _, err := parseBlock(op.Arg("c"), "")
		if err != nil {
			return "bad-op"
		}
		has, err := e.bs.Has(ctxOf(op), c)
		if err != nil {
			return bsErr(err)
		}
		return strconv.FormatBool(has)
	case "bssize":
		c, _, err := parseBlock(op.Arg("c"), "")
		if err != nil {
			return "bad-op"
		}
		n, err := e.bs.GetSize(ctxOf(op), c)
		if err != nil {
			return bsErr(err)
		}
		return "n=" + strconv.Itoa(n)
	case "bsdel":
		c, _, err := parseBlock(op.Arg("c"), "")
		if err != nil {
			return "bad-op"
		}
		err = e.bs.DeleteBlock(ctxOf(op), c)
		if err == nil {
			delete(e.stored, string(c.Hash()))
		}
		return bsErr(err)
	case "bshashonread":
		e.bs.HashOnRead(op.Arg("v") == "1")
		return "ok"
	case "bsallkeys":
		_, err := e.bs.AllKeysChan(context.Background())
		if err != nil {
			return "err:not-supported"
		}
		return "ok"
	}
	return "bad-op"
}

func parseBlock(ch, dh string) (cid.Cid, []byte, error) {
	cb, err := hex.DecodeString(ch)
	if err != nil {
		return cid.Undef, nil, err
	}
	c, err := cid.Cast(cb)
	if err != nil {
		return cid.Undef, nil, err
	}
	d, err := hex.DecodeString(dh)
	if err != nil {
		return cid.Undef, nil, err
	}
	if d == nil {
		d = []byte{}
	}
	return c, d, nil
}

// generator

type bsBlock struct {
	c     cid.Cid
	data  []byte
	valid bool // data hashes to c
}

type bsGen struct {
	blocks  []bsBlock
	aliases []cid.Cid // CIDs sharing a multihash with some block
	step    int
	maxOps  int
	started bool
	pending []Op
	bits    int
	ifs     int
	pfs     int
	// harness-side expectation (used only to annotate hm=)
	stored map[string][]byte // multihash -> data
	ghosts []cid.Cid         // never stored, digest adjacent to a stored block's
}

func newBsGen(r *RNG, tier string) *bsGen {
	g := &bsGen{stored: map[string][]byte{}}
	g.bits = []int{8, 12, 16, 20}[r.Intn(4)]
	g.ifs = []int{33, 200, 4096, 0}[r.Intn(4)]
	g.pfs = []int{33, 200, 4096, 0}[r.Intn(4)]
	g.maxOps = 15 + r.Intn(40)
	if tier == "thorough" {
		g.maxOps = 30 + r.Intn(150)
	}
	n := 3 + r.Intn(6)
	mhTypes := []uint64{mh.SHA2_256, mh.SHA2_256, mh.BLAKE2B_MIN + 31, mh.IDENTITY, mh.SHA2_512}
	codecs := []uint64{cid.Raw, cid.DagProtobuf, cid.DagCBOR}
	for i := 0; i < n; i++ {
		var data []byte
		switch r.Pick(15, 50, 25, 10) {
		case 0:
			data = []byte{}
		case 1:
			data = make([]byte, 1+r.Intn(40))
		case 2:
			data = make([]byte, 100+r.Intn(400))
		default:
			data = make([]byte, 1000+r.Intn(3096))
		}
		for j := range data {
			data[j] = byte(r.Intn(256))
		}
		t := mhTypes[r.Intn(len(mhTypes))]
		if t == mh.IDENTITY {
			// identity digests are the data: keep them 8 bytes long so that no digest is a prefix of another
			data = make([]byte, 8)
			for j := range data {
				data[j] = byte(r.Intn(256))
			}
		}
		var c cid.Cid
		var err error
		if t == mh.SHA2_256 && r.Bool(40) {
			c, err = cid.Prefix{Version: 0, Codec: cid.DagProtobuf, MhType: mh.SHA2_256, MhLength: -1}.Sum(data)
		} else {
			c, err = cid.Prefix{Version: 1, Codec: codecs[r.Intn(len(codecs))], MhType: t, MhLength: -1}.Sum(data)
		}
		if err != nil {
			continue
		}
		b := bsBlock{c: c, data: data, valid: true}
		if r.Bool(20) {
			// a block whose bytes do not hash to its CID (for hash-on-read); for an identity multihash: bytes that differ
			// from the ones inlined in the CID
			b.data = append([]byte{0xff}, data...)
			b.valid = false
		}
		g.blocks = append(g.blocks, b)
		// alias: same multihash, other codec / version
		if r.Bool(50) {
			g.aliases = append(g.aliases, cid.NewCidV1(codecs[r.Intn(len(codecs))], c.Hash()))
		}
	}
	// near misses: identity-multihash CIDs whose digest shares the bucket and all but the last 1-3 bytes with a block's
	// digest; the ghost is never stored (an index hit on the sibling's stored prefix must not answer for it), or is stored too
	if r.Bool(55) {
		d1 := make([]byte, 8)
		for j := range d1 {
			d1[j] = byte(r.Intn(256))
		}
		d2 := append([]byte{}, d1...)
		for j := 8 - (1 + r.Intn(3)); j < 8; j++ {
			d2[j] ^= byte(1 + r.Intn(255))
		}
		c1, err1 := cid.Prefix{Version: 1, Codec: cid.Raw, MhType: mh.IDENTITY, MhLength: -1}.Sum(d1)
		c2, err2 := cid.Prefix{Version: 1, Codec: codecs[r.Intn(len(codecs))], MhType: mh.IDENTITY, MhLength: -1}.Sum(d2)
		if err1 == nil && err2 == nil {
			g.blocks = append(g.blocks, bsBlock{c: c1, data: d1, valid: true})
			if r.Bool(30) {
				g.blocks = append(g.blocks, bsBlock{c: c2, data: d2, valid: true})
			} else {
				g.ghosts = append(g.ghosts, c2)
			}
		}
	}
	return g
}

func (g *bsGen) ctxArg(r *RNG) string {
	if r.Bool(12) {
		return "cancelled"
	}
	return "live"
}

func (g *bsGen) Next(r *RNG, hist []Op) (Op, bool) {
	if !g.started {
		g.started = true
		return mkOp("bsopen", "bits", strconv.Itoa(g.bits), "ifs", strconv.Itoa(g.ifs), "pfs", strconv.Itoa(g.pfs)), true
	}
	if len(g.pending) > 0 {
		op := g.pending[0]
		g.pending = g.pending[1:]
		return op, true
	}
	if g.step >= g.maxOps || len(g.blocks) == 0 {
		return Op{}, false
	}
	g.step++
	hx := hex.EncodeToString
	pickCid := func() cid.Cid {
		if len(g.aliases) > 0 && r.Bool(25) {
			return g.aliases[r.Intn(len(g.aliases))]
		}
		if len(g.ghosts) > 0 && r.Bool(15) {
			return g.ghosts[r.Intn(len(g.ghosts))]
		}
		if r.Bool(8) {
			// unknown CID
			c, _ := cid.Prefix{Version: 1, Codec: cid.Raw, MhType: mh.SHA2_256, MhLength: -1}.Sum([]byte{byte(r.Intn(256)), 1, 2, 3, byte(g.step)})
			return c
		}
		return g.blocks[r.Intn(len(g.blocks))].c
	}
	// hm: would the stored bytes hash to the requested CID? (the model never hashes; the real Sum is the instance of H)
	hm := func(c cid.Cid) string {
		d, ok := g.stored[string(c.Hash())]
		if !ok {
			return "na"
		}
		c2, err := c.Prefix().Sum(d)
		if err == nil && c2.Equals(c) {
			return "1"
		}
		return "0"
	}
	switch r.Pick(30, 8, 25, 8, 8, 8, 5, 1, 5) {
	case 0:
		b := g.blocks[r.Intn(len(g.blocks))]
		ctx := g.ctxArg(r)
		if ctx == "live" {
			if _, ok := g.stored[string(b.c.Hash())]; !ok {
				g.stored[string(b.c.Hash())] = b.data
			}
		}
		g.pending = append(g.pending, mkOp("bsget", "c", hx(b.c.Bytes()), "ctx", "live", "hm", hm(b.c)), mkOp("bshas", "c", hx(b.c.Bytes()), "ctx", "live"), mkOp("bssize", "c", hx(b.c.Bytes()), "ctx", "live"))
		return mkOp("bsput", "c", hx(b.c.Bytes()), "d", hx(b.data), "ctx", ctx), true
	case 1:
		k := 1 + r.Intn(3)
		var cs, ds []string
		ctx := g.ctxArg(r)
		for i := 0; i < k; i++ {
			b := g.blocks[r.Intn(len(g.blocks))]
			cs = append(cs, hx(b.c.Bytes()))
			ds = append(ds, hx(b.data))
			if ctx == "live" {
				if _, ok := g.stored[string(b.c.Hash())]; !ok {
					g.stored[string(b.c.Hash())] = b.data
				}
			}
		}
		return mkOp("bsputmany", "c", strings.Join(cs, ","), "d", strings.Join(ds, ","), "ctx", ctx), true
	case 2:
		c := pickCid()
		return mkOp("bsget", "c", hx(c.Bytes()), "ctx", g.ctxArg(r), "hm", hm(c)), true
	case 3:
		return mkOp("bshas", "c", hx(pickCid().Bytes()), "ctx", g.ctxArg(r)), true
	case 4:
		return mkOp("bssize", "c", hx(pickCid().Bytes()), "ctx", g.ctxArg(r)), true
	case 5:
		c := pickCid()
		ctx := g.ctxArg(r)
		if ctx == "live" {
			delete(g.stored, string(c.Hash()))
		}
		g.pending = append(g.pending, mkOp("bsget", "c", hx(c.Bytes()), "ctx", "live", "hm", "na"), mkOp("bshas", "c", hx(c.Bytes()), "ctx", "live"))
		return mkOp("bsdel", "c", hx(c.Bytes()), "ctx", ctx), true
	case 6:
		return mkOp("bshashonread", "v", strconv.Itoa(r.Intn(2))), true
	case 8:
		// everything stored or deleted so far must read the same through a new handle
		for _, b := range g.blocks {
			if r.Bool(60) {
				g.pending = append(g.pending, mkOp("bshas", "c", hx(b.c.Bytes()), "ctx", "live"), mkOp("bsget", "c", hx(b.c.Bytes()), "ctx", "live", "hm", hm(b.c)))
			}
		}
		return mkOp("bsreopen", "snap", strconv.Itoa(r.Intn(2))), true
	default:
		return mkOp("bsallkeys"), true
	}
}
