package main

import (
	"context"
	"encoding/binary"
	"encoding/hex"
	"fmt"
	"os"
	"path/filepath"
	"runtime"
	"sort"
	"strconv"
	"strings"
	"sync"
	"time"

	"github.com/ipld/go-storethehash/store"
	"github.com/ipld/go-storethehash/store/index"
	mhprimary "github.com/ipld/go-storethehash/store/primary/multihash"
	"github.com/ipld/go-storethehash/store/verifhook"
)

// sched: a cooperative scheduler over the real code. Every scheduled thread runs in its own goroutine
// and parks inside verifhook.At at its next named point; the schedule releases one thread at a time.
// Goroutines that are not scheduled (the store's own flusher and collectors when started) pass through the
// points freely, but every point anyone passes is logged in one global event sequence.

func init() {
	engines["sched"] = engineDef{
		newEngine: func() Engine { return &schedEngine{} },
		newGen:    func(r *RNG, tier string, profile string) Generator { return newSchedGen(r, tier, profile) },
	}
}

func curGID() int64 {
	var buf [64]byte
	n := runtime.Stack(buf[:], false)
	// "goroutine 123 [running]:"
	f := strings.Fields(string(buf[:n]))
	if len(f) >= 2 {
		id, _ := strconv.ParseInt(f[1], 10, 64)
		return id
	}
	return -1
}

type sthread struct {
	name    string
	ops     []string // "put:<k>:<v>", "get:<k>", "rm:<k>", "has:<k>", "size:<k>", "flush", "pgc:<lowuse>", "igc:<scanfree>", "close", "fcsize:<n>", "sizes"
	resume  chan struct{}
	arrived chan string // point name, or "done"
	state   string      // "parked", "running", "done"
	point   string
	gid     int64
}

type schedEngine struct {
	dir     string
	st      *store.Store
	mp      *mhprimary.MultihashPrimary
	threads []*sthread
	byGID   sync.Map // gid -> *sthread
	roles   sync.Map // gid -> role string for unscheduled store goroutines
	mu      sync.Mutex
	events  []string
	active  bool
	locks   bool
	wait    time.Duration
	started bool
}

func (e *schedEngine) Close() {
	verifhook.Set(nil)
	e.active = false
	// release everything still parked so goroutines can finish
	for _, t := range e.threads {
		if t.state == "parked" {
			select {
			case t.resume <- struct{}{}:
			default:
			}
		}
	}
	if e.st != nil {
		done := make(chan struct{})
		go func() { e.st.Close(); close(done) }()
		select {
		case <-done:
		case <-time.After(2 * time.Second):
		}
	}
	if e.dir != "" {
		os.RemoveAll(e.dir)
	}
}

func (e *schedEngine) log(s string) {
	e.mu.Lock()
	e.events = append(e.events, s)
	e.mu.Unlock()
}

func roleOfStack() string {
	buf := make([]byte, 4096)
	n := runtime.Stack(buf, false)
	s := string(buf[:n])
	switch {
	case strings.Contains(s, "store.(*Store).run"):
		return "flusher"
	case strings.Contains(s, "(*primaryGC).run") || strings.Contains(s, "(*primaryGC).gc"):
		return "pgcbg"
	case strings.Contains(s, "(*Index).garbageCollector") || strings.Contains(s, "(*Index).gc"):
		return "igcbg"
	}
	return "other"
}

func (e *schedEngine) hook(name string) {
	if !e.active {
		return
	}
	gid := curGID()
	if v, ok := e.byGID.Load(gid); ok {
		t := v.(*sthread)
		t.arrived <- name
		<-t.resume
		return
	}
	role, ok := e.roles.Load(gid)
	if !ok {
		role = roleOfStack()
		e.roles.Store(gid, role)
	}
	e.log(fmt.Sprintf("%s@%s", role, name))
}

// lockHook is the scheduling point in front of every lock acquisition (verifhook.Mutex / RWMutex): a scheduled thread
// parks and reports true (it then never blocks inside the mutex: it parks again at "lock.busy" until TryLock succeeds);
// any other goroutine blocks in the mutex as usual.
func (e *schedEngine) lockHook(name string) bool {
	if !e.active || !e.locks {
		return false
	}
	if v, ok := e.byGID.Load(curGID()); ok {
		t := v.(*sthread)
		t.arrived <- name
		<-t.resume
		return e.active
	}
	return false
}

func (e *schedEngine) execOp(op string) string {
	f := strings.Split(op, ":")
	dec := func(s string) []byte { b, _ := hex.DecodeString(s); return b }
	errs := func(err error) string {
		if err == nil {
			return "ok"
		}
		if strings.Contains(err.Error(), "key exists") {
			return "err-key-exists"
		}
		return "err"
	}
	switch f[0] {
	case "put":
		v := []byte{}
		if len(f) > 2 {
			v = dec(f[2])
		}
		return errs(e.st.Put(dec(f[1]), v))
	case "get":
		v, found, err := e.st.Get(dec(f[1]))
		if err != nil {
			return "err"
		}
		if !found {
			return "absent"
		}
		return "v" + hex.EncodeToString(v)
	case "has":
		h, err := e.st.Has(dec(f[1]))
		if err != nil {
			return "err"
		}
		return strconv.FormatBool(h)
	case "size":
		n, found, err := e.st.GetSize(dec(f[1]))
		if err != nil {
			return "err"
		}
		if !found {
			return "absent"
		}
		return "n" + strconv.Itoa(int(n))
	case "rm":
		r, err := e.st.Remove(dec(f[1]))
		if err != nil {
			return "err"
		}
		return strconv.FormatBool(r)
	case "flush":
		return errs(e.st.Flush())
	case "pgc":
		if e.mp == nil {
			return "na"
		}
		lowuse, _ := strconv.Atoi(f[1])
		_, err := e.mp.VerifGC(context.Background(), int64(lowuse), 0)
		return errs(err)
	case "igc":
		_, _, err := e.st.Index().VerifGC(context.Background(), f[1] == "1")
		return errs(err)
	case "close":
		return errs(e.st.Close())
	case "sizes":
		_, err := e.st.StorageSize()
		return errs(err)
	case "fcsize":
		n, _ := strconv.Atoi(f[1])
		e.st.SetFileCacheSize(n)
		return "ok"
	}
	return "bad"
}

func (e *schedEngine) startThread(t *sthread) {
	t.resume = make(chan struct{})
	t.arrived = make(chan string, 1)
	t.state = "running"
	ready := make(chan struct{})
	go func() {
		t.gid = curGID()
		e.byGID.Store(t.gid, t)
		close(ready)
		for i, op := range t.ops {
			// park before every op
			t.arrived <- fmt.Sprintf("op%d.begin", i)
			<-t.resume
			res := func() (r string) {
				defer func() {
					if x := recover(); x != nil {
						r = "panic"
					}
				}()
				return e.execOp(op)
			}()
			e.log(fmt.Sprintf("%s:ret:%d:%s", t.name, i, res))
		}
		e.byGID.Delete(t.gid)
		t.arrived <- "done"
	}()
	<-ready
	// wait for the first park
	p := <-t.arrived
	t.point = p
	t.state = "parked"
}

// step releases a parked thread and waits for it to park again, finish, or block.
func (e *schedEngine) step(t *sthread) {
	e.log(fmt.Sprintf("%s:go:%s", t.name, t.point))
	t.state = "running"
	t.resume <- struct{}{}
	if !e.await(t, e.wait) {
		// no arrival within the grace period: the thread is blocked (or slow); from here on it may run in parallel with others
		e.log(fmt.Sprintf("%s:blocked:%s", t.name, t.point))
	}
}

func (e *schedEngine) await(t *sthread, d time.Duration) bool {
	select {
	case p := <-t.arrived:
		if p == "done" {
			t.state = "done"
			e.log(t.name + ":done")
		} else {
			t.state = "parked"
			t.point = p
			e.log(fmt.Sprintf("%s@%s", t.name, p))
		}
		return true
	case <-time.After(d):
		return false
	}
}

func (e *schedEngine) Exec(op *Op) string {
	switch op.Name {
	case "sopen":
		dir, err := os.MkdirTemp("", "sthv-sched-")
		if err != nil {
			return "err"
		}
		e.dir = dir
		bits, _ := strconv.Atoi(op.Arg("bits"))
		ifs, _ := strconv.Atoi(op.Arg("ifs"))
		pfs, _ := strconv.Atoi(op.Arg("pfs"))
		opts := []store.Option{store.IndexBitSize(uint8(bits)), store.IndexFileSize(uint32(ifs)), store.PrimaryFileSize(uint32(pfs)),
			store.SyncInterval(time.Hour), store.FileCacheSize(3)}
		if op.Arg("bggc") == "1" {
			opts = append(opts, store.GCInterval(time.Hour))
		} else {
			opts = append(opts, store.GCInterval(0))
		}
		if op.Has("burst") {
			b, _ := strconv.Atoi(op.Arg("burst"))
			opts = append(opts, store.BurstRate(uint64(b)))
		}
		st, err := store.OpenStore(context.Background(), store.MultihashPrimary, filepath.Join(dir, "storethehash.data"), filepath.Join(dir, "storethehash.index"), op.Arg("imm") == "1", opts...)
		if err != nil {
			return "err"
		}
		e.st = st
		e.mp, _ = st.Primary().(*mhprimary.MultihashPrimary)
		if op.Arg("bggc") != "1" {
			st.VerifAttachGC()
		}
		if op.Has("rate") {
			r, _ := strconv.ParseFloat(op.Arg("rate"), 64)
			st.VerifSetFlushRate(r)
		}
		if op.Arg("start") == "1" {
			st.Start()
			e.started = true
		}
		e.wait = 30 * time.Millisecond
		return "ok"
	case "sprep":
		// sequential preparation before the schedule (no hooks active)
		return e.execOp(op.Arg("op"))
	case "sthread":
		t := &sthread{name: op.Arg("name"), ops: strings.Split(op.Arg("ops"), ",")}
		e.threads = append(e.threads, t)
		return "ok"
	case "srun":
		// schedule: list of thread indexes (wrapping); ends when every thread is done or nothing can move
		var sched []int
		for _, s := range strings.Split(op.Arg("sched"), ",") {
			n, _ := strconv.Atoi(s)
			sched = append(sched, n)
		}
		fl0 := e.flParts()
		verifhook.Set(e.hook)
		e.locks = op.Arg("locks") == "1"
		verifhook.SetLock(e.lockHook)
		e.active = true
		for _, t := range e.threads {
			e.startThread(t)
		}
		steps := 0
		busyRounds := 0
		maxSteps, _ := strconv.Atoi(op.Arg("max"))
		si := 0
		// directed plan: "name:n;name:n;..." releases the named thread up to n times (until it is done or blocked)
		if plan := op.Arg("plan"); plan != "" {
			for _, seg := range strings.Split(plan, ";") {
				f := strings.Split(seg, ":")
				if len(f) != 2 {
					continue
				}
				n, _ := strconv.Atoi(f[1])
				var t *sthread
				for _, x := range e.threads {
					if x.name == f[0] {
						t = x
					}
				}
				if t == nil {
					continue
				}
				for i := 0; i < n; i++ {
					for _, x := range e.threads {
						if x.state == "running" {
							e.await(x, time.Millisecond)
						}
					}
					if t.state != "parked" {
						break
					}
					if until := op.Arg("until_" + t.name + strconv.Itoa(i)); until != "" && t.point == until {
						break
					}
					e.step(t)
					steps++
				}
			}
		}
		// window: "thread:point:k" - the thread runs alone until it parks at the point for the k-th time; then every other thread
		// runs (interleaved by the schedule) until it is done or blocked; then the thread runs on alone. Calls made inside the
		// window overlap no step of the windowed thread.
		if win := op.Arg("window"); win != "" {
			f := strings.Split(win, ":")
			if len(f) == 3 {
				k, _ := strconv.Atoi(f[2])
				var wt *sthread
				for _, x := range e.threads {
					if x.name == f[0] {
						wt = x
					}
				}
				if wt != nil {
					// "A>B": the window opens at the thread's first park at B after its k-th park at A (e.g. the first lock
					// acquisition after a hook point, in locks mode)
					stages := strings.Split(f[1], ">")
					seen := 0
					cur := 0
					for steps < maxSteps && wt.state == "parked" {
						if wt.point == stages[cur] {
							if cur == 0 {
								seen++
								if seen >= k {
									cur++
								}
							} else {
								cur++
							}
							if cur == len(stages) {
								break
							}
						}
						e.step(wt)
						steps++
					}
					if wt.state == "parked" && cur == len(stages) {
						e.log("window:open:" + wt.name + "@" + wt.point)
						for steps < maxSteps {
							var parked []*sthread
							for _, t := range e.threads {
								if t != wt && t.state == "running" {
									e.await(t, time.Millisecond)
								}
								if t != wt && t.state == "parked" {
									parked = append(parked, t)
								}
							}
							if len(parked) == 0 {
								break
							}
							pick := sched[si%len(sched)] % len(parked)
							si++
							e.step(parked[pick])
							steps++
						}
						e.log("window:close")
					}
					for steps < maxSteps && wt.state == "parked" {
						e.step(wt)
						steps++
					}
				}
			}
		}
		for steps < maxSteps {
			// collect asynchronous arrivals of threads that were blocked
			for _, t := range e.threads {
				if t.state == "running" {
					e.await(t, time.Millisecond)
				}
			}
			var parked []*sthread
			alldone := true
			for _, t := range e.threads {
				if t.state == "parked" {
					parked = append(parked, t)
				}
				if t.state != "done" {
					alldone = false
				}
			}
			if alldone {
				break
			}
			if len(parked) == 0 {
				// everything left is blocked: give it a grace period, then stop
				moved := false
				for _, t := range e.threads {
					if t.state == "running" && e.await(t, 300*time.Millisecond) {
						moved = true
					}
				}
				if !moved {
					break
				}
				continue
			}
			// threads waiting for a busy lock move only when nobody else can (the holder may be an unscheduled goroutine)
			var free []*sthread
			for _, t := range parked {
				if t.point != "lock.busy" {
					free = append(free, t)
				}
			}
			if len(free) > 0 && (len(free) == len(parked) || busyRounds%8 != 7) {
				parked = free
			}
			busyRounds++
			pick := sched[si%len(sched)] % len(parked)
			si++
			e.step(parked[pick])
			steps++
		}
		// final grace period for blocked threads, then report who is stuck where
		for _, t := range e.threads {
			if t.state == "running" {
				e.await(t, 300*time.Millisecond)
			}
		}
		if e.locks {
			// step budget exhausted with threads parked (possibly holding locks): let them run to completion unscheduled
			var rel []*sthread
			for _, t := range e.threads {
				if t.state == "parked" {
					rel = append(rel, t)
				}
			}
			if len(rel) > 0 {
				e.active = false
				for _, t := range rel {
					e.log(fmt.Sprintf("%s:free:%s", t.name, t.point))
					t.state = "running"
					t.resume <- struct{}{}
				}
				for _, t := range e.threads {
					for t.state == "running" && e.await(t, 2*time.Second) {
					}
				}
			}
		}
		var stuck []string
		for _, t := range e.threads {
			if t.state != "done" {
				stuck = append(stuck, t.name+"/"+t.state+"/"+t.point)
			}
		}
		e.active = false
		e.mu.Lock()
		ev := strings.Join(e.events, ",")
		e.events = nil
		e.mu.Unlock()
		return fmt.Sprintf("steps=%d stuck=%s fl0=%s fl1=%s events=%s", steps, strings.Join(stuck, ";"), fl0, e.flParts(), ev)
	case "sfinal":
		// quiescent read-back after the schedule (hooks off): flush, then read keys
		verifhook.Set(nil)
		e.active = false
		if e.st == nil {
			return "bad-op"
		}
		ferr := e.st.Flush()
		// let the records leave the pools: what is read back below comes from the files, not from the flushed pool that the
		// primary and the index keep serving until the next flush replaces it
		if xk, err := hex.DecodeString("1208fcfcfcfc0a0b0c0d"); err == nil {
			if err := e.st.Put(xk, []byte{0xee}); err == nil {
				if err2 := e.st.Flush(); err2 != nil && ferr == nil {
					ferr = err2
				}
			}
		}
		var out []string
		for _, k := range strings.Split(op.Arg("k"), ",") {
			out = append(out, e.execOp("get:"+k))
		}
		res := "ok"
		if ferr != nil {
			res = "flush-err"
		}
		res += " reads=" + strings.Join(out, ",")
		if op.Arg("acct") == "1" {
			res += " " + e.acct()
		}
		return res
	}
	return "bad-op"
}

// flParts: number of entries in the freelist pool, the freelist file and the hand-over file (-1: no such file), at a quiescent point
func (e *schedEngine) flParts() string {
	if e.st == nil {
		return "na"
	}
	ip := filepath.Join(e.dir, "storethehash.index")
	cnt := func(name string) int {
		fi, err := os.Stat(name)
		if err != nil {
			return -1
		}
		return int(fi.Size() / 12)
	}
	return fmt.Sprintf("%d:%d:%d", len(e.st.VerifFreeList().VerifPool()), cnt(ip+".free"), cnt(ip+".free.gc"))
}

// acct lists, after quiescence: the locations named by live index entries (cur), the recorded locations (freelist
// pool + file + .gc) and every non-deleted record found by scanning the primary files (live).
func (e *schedEngine) acct() string {
	var cur, fl, live []string
	idx := e.st.Index()
	for _, b := range idx.VerifNonEmptyBuckets() {
		data, ok, err := idx.VerifBucketRecords(b)
		if err != nil || !ok {
			continue
		}
		it := index.NewRecordListRaw(data).Iter()
		for !it.Done() {
			r := it.Next()
			cur = append(cur, fmt.Sprintf("%d:%d", r.Block.Offset, r.Block.Size))
		}
	}
	for _, b := range e.st.VerifFreeList().VerifPool() {
		fl = append(fl, fmt.Sprintf("%d:%d", b.Offset, b.Size))
	}
	ip := filepath.Join(e.dir, "storethehash.index")
	for _, name := range []string{ip + ".free", ip + ".free.gc"} {
		data, err := os.ReadFile(name)
		if err != nil {
			continue
		}
		for i := 0; i+12 <= len(data); i += 12 {
			fl = append(fl, fmt.Sprintf("%d:%d", binary.LittleEndian.Uint64(data[i:]), binary.LittleEndian.Uint32(data[i+8:])))
		}
	}
	if e.mp != nil {
		max := int64(e.mp.FileSize())
		for fn := 0; fn < 4096; fn++ {
			data, err := os.ReadFile(fmt.Sprintf("%s.%d", filepath.Join(e.dir, "storethehash.data"), fn))
			if err != nil {
				if fn > 64 {
					break
				}
				continue
			}
			for pos := int64(0); pos+4 <= int64(len(data)); {
				sz := binary.LittleEndian.Uint32(data[pos:])
				if sz&(1<<31) != 0 {
					pos += 4 + int64(sz^(1<<31))
					continue
				}
				live = append(live, fmt.Sprintf("%d:%d", int64(fn)*max+pos, sz))
				pos += 4 + int64(sz)
			}
		}
	}
	sort.Strings(cur)
	sort.Strings(fl)
	sort.Strings(live)
	return "cur=" + strings.Join(cur, ",") + " fl=" + strings.Join(fl, ",") + " live=" + strings.Join(live, ",")
}
