package main

import (
	"bufio"
	"flag"
	"fmt"
	"os"
	"strings"
)

// Engine executes operations on the real go-storethehash code.
type Engine interface {
	Exec(op *Op) string
	Close()
}

// Generator proposes the next operation given the executed history.
type Generator interface {
	Next(r *RNG, hist []Op) (Op, bool)
}

type engineDef struct {
	newEngine func() Engine
	newGen    func(r *RNG, tier string, profile string) Generator
}

var engines = map[string]engineDef{}

func safeExec(e Engine, op *Op) (res string, panicked bool) {
	defer func() {
		if r := recover(); r != nil {
			msg := fmt.Sprint(r)
			if i := strings.IndexByte(msg, '\n'); i >= 0 {
				msg = msg[:i]
			}
			res = "panic:" + strings.ReplaceAll(msg, " ", "_")
			panicked = true
		}
	}()
	return e.Exec(op), false
}

func runTrace(out *Out, id string, header string, def engineDef, gen Generator, r *RNG, fixed []Op, stats Stats) {
	out.Line("T " + id + " " + header)
	e := def.newEngine()
	defer func() {
		defer func() { recover() }()
		e.Close()
	}()
	var hist []Op
	i := 0
	for {
		var op Op
		if fixed != nil {
			if i >= len(fixed) {
				break
			}
			op = fixed[i]
			op.Res = ""
			i++
		} else {
			var ok bool
			op, ok = gen.Next(r, hist)
			if !ok {
				break
			}
		}
		res, panicked := safeExec(e, &op)
		op.Res = res
		out.Op(op)
		stats.Inc("op." + op.Name)
		hist = append(hist, op)
		if panicked {
			stats.Inc("panic")
			break
		}
	}
	out.Line("E " + id)
}

func main() {
	if len(os.Args) < 2 {
		fmt.Fprintln(os.Stderr, "usage: harness gen|replay ...")
		os.Exit(2)
	}
	switch os.Args[1] {
	case "gen":
		fs := flag.NewFlagSet("gen", flag.ExitOnError)
		engine := fs.String("engine", "", "engine name")
		seed := fs.Uint64("seed", 1, "seed")
		n := fs.Int("n", 10, "number of traces")
		tier := fs.String("tier", "quick", "tier")
		o := fs.String("o", "-", "output file")
		shard := fs.Int("shard", 0, "shard index (trace ids are shard*1000000+i)")
		profile := fs.String("profile", "", "generator profile")
		fs.Parse(os.Args[2:])
		def, ok := engines[*engine]
		if !ok {
			fmt.Fprintln(os.Stderr, "unknown engine", *engine)
			os.Exit(2)
		}
		out, err := newOut(*o)
		if err != nil {
			fmt.Fprintln(os.Stderr, err)
			os.Exit(2)
		}
		master := NewRNG(*seed ^ (uint64(*shard) << 32))
		stats := Stats{}
		for i := 0; i < *n; i++ {
			ts := master.U64()
			r := NewRNG(ts)
			gen := def.newGen(r, *tier, *profile)
			id := fmt.Sprintf("%d", *shard*1000000+i)
			runTrace(out, id, fmt.Sprintf("engine=%s tseed=%d profile=%s", *engine, ts, *profile), def, gen, r, nil, stats)
		}
		out.Line("#stat " + stats.String())
		out.Close()
	case "replay":
		fs := flag.NewFlagSet("replay", flag.ExitOnError)
		engine := fs.String("engine", "", "engine name")
		in := fs.String("i", "-", "input ops file")
		o := fs.String("o", "-", "output file")
		fs.Parse(os.Args[2:])
		def, ok := engines[*engine]
		if !ok {
			fmt.Fprintln(os.Stderr, "unknown engine", *engine)
			os.Exit(2)
		}
		var f *os.File = os.Stdin
		if *in != "-" {
			var err error
			f, err = os.Open(*in)
			if err != nil {
				fmt.Fprintln(os.Stderr, err)
				os.Exit(2)
			}
			defer f.Close()
		}
		out, err := newOut(*o)
		if err != nil {
			fmt.Fprintln(os.Stderr, err)
			os.Exit(2)
		}
		sc := bufio.NewScanner(f)
		sc.Buffer(make([]byte, 1<<20), 1<<26)
		var cur []Op
		id := "0"
		header := "engine=" + *engine + " replay=1"
		inTrace := false
		stats := Stats{}
		flush := func() {
			if inTrace || len(cur) > 0 {
				runTrace(out, id, header, def, nil, nil, cur, stats)
			}
			cur = nil
			inTrace = false
		}
		for sc.Scan() {
			line := sc.Text()
			if strings.HasPrefix(line, "T ") {
				flush()
				f := strings.Fields(line)
				if len(f) > 1 {
					id = f[1]
				}
				inTrace = true
				continue
			}
			if strings.HasPrefix(line, "E") && (line == "E" || strings.HasPrefix(line, "E ")) {
				if cur == nil {
					cur = []Op{}
				}
				flush()
				continue
			}
			if op, ok := parseOp(line); ok {
				cur = append(cur, op)
			}
		}
		if len(cur) > 0 {
			flush()
		}
		out.Line("#stat " + stats.String())
		out.Close()
	default:
		fmt.Fprintln(os.Stderr, "unknown command", os.Args[1])
		os.Exit(2)
	}
}
