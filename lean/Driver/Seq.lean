/-
Driver for the sequential store engine: replays a trace on the physical model (Sth.Store), compares
outputs and the state / disk views, and evaluates the map specification (C01/C02/C04/C15 oracle)
directly on the implementation's outputs.
-/
import Driver.Common
import Sth.Model.Store
import Sth.Model.Recover
import Sth.Model.GC

namespace Driver.Seq
open Sth Driver

/-- specification: digest ↦ (key bytes as stored, value) -/
abbrev SpecMap := List (Bytes × Bytes × Bytes)

def SpecMap.get (m : SpecMap) (dig : Bytes) : Option (Bytes × Bytes) := (m.find? (·.1 = dig)).map (·.2)
def SpecMap.set (m : SpecMap) (dig key val : Bytes) : SpecMap := (dig, key, val) :: m.filter (·.1 ≠ dig)
def SpecMap.del (m : SpecMap) (dig : Bytes) : SpecMap := m.filter (·.1 ≠ dig)

structure St where
  store : Store := {}
  cfg : Cfg := {}
  spec : SpecMap := []
  everOpened : Bool := false
deriving Repr

def errStr : Err → String
  | .keyExists => "err:key-exists"
  | .badKey => "err:bad-key"
  | .keyTooShort => "err:key-too-short"
  | .io => "err:other"
  | .other => "err:other"

def openErrStr : OpenErr → String
  | .wrongBits => "err:wrong-bit-size"
  | .wrongIndexFileSize => "err:wrong-index-file-size"
  | .wrongPrimaryFileSize => "err:wrong-primary-file-size"
  | .badConfig => "err:other"
  | .other => "err:other"

def joinWith (sep : String) (l : List String) : String := sep.intercalate l

def showRLPool (p : NMap RecordList) : String :=
  joinWith ";" (p.map fun (b, rl) => s!"{b}:{toHex (encodeRL rl)}")

def showPPool (p : List PRec) : String :=
  joinWith ";" (p.map fun r => s!"{r.blk.off}:{r.blk.size}:{toHex r.key}:{toHex r.val}")

def viewState (m : Mem) : String :=
  let bk := joinWith "," ((m.buckets.filter (·.2 ≠ 0)).map fun (b, p) => s!"{b}:{p}")
  let base := s!"ifile={m.ifileNum}:{m.ilength} buckets={bk} inext={showRLPool m.inext} icur={showRLPool m.icur} gcresume=" ++
    (match m.gcResume with | some n => toString n | none => "none")
  let pri := match m.kind with
    | .mh => s!" pfile={m.pfileNum}:{m.plength} prec={m.precFileNum}:{m.precPos} pnext={showPPool m.pnext} pcur={showPPool m.pcur} visited={natList (sortNat m.visited)}"
    | .cid => ""
  base ++ pri ++ " fl=" ++ joinWith "," (m.flpool.map fun b => s!"{b.off}:{b.size}")

def showFile (f : Bytes) : String := s!"{f.length}:{fnv64 f}"

def showFiles (fs : NMap Bytes) : String := joinWith "," (fs.map fun (n, f) => s!"{n}:{showFile f}")

def showSnapNz (nz : NMap Nat) : String :=
  String.join ((nz.filter (fun x => x.2 ≠ 0)).map (fun x => s!",{x.1}:{x.2}"))

def viewDisk (d : Disk) : String :=
  let ihdr := match d.ihdr with
    | some h => s!"{h.bits}:{h.max}:{h.first}:{h.pfs}:{(idxHeaderBytes h).length}"
    | none => "none"
  let phdr := match d.phdr with
    | some h => s!"{h.max}:{h.first}:{(priHeaderBytes h).length}"
    | none => "none"
  let snap := match d.snap with
    | some sn => toString sn.size ++ showSnapNz sn.nz
    | none => "none"
  let opt := fun (o : Option Bytes) => match o with | some f => showFile f | none => "none"
  s!"ihdr={ihdr} ifiles={showFiles d.ifiles} snap={snap} phdr={phdr} pfiles={showFiles d.pfiles} cid={opt d.cidfile} free={opt d.free} gc={opt d.freeGc} extra="

def parseOrder (s : String) : List Nat := (s.splitOn ",").filterMap (·.toNat?)

def isPerm (a b : List Nat) : Bool := sortNat a == sortNat b

def parseVal (s : String) : Bytes := if s = "nil" then [] else (fromHex s).getD []

def insertStr (x : String) : List String → List String
  | [] => [x]
  | y :: ys => if x < y then x :: y :: ys else y :: insertStr x ys

def sortStr (l : List String) : List String := l.foldl (fun acc x => insertStr x acc) []

def showItems (items : List (Bytes × Bytes)) : String :=
  joinWith "," (sortStr (items.map fun (k, v) => toHex k ++ ":" ++ toHex v))

def cmp (op model impl : String) : List Msg := if model = impl then [] else [Msg.corr s!"{op}: model=[{model}] impl=[{impl}]"]
def prop (op expected impl : String) : List Msg :=
  if expected = impl then [] else [Msg.prop s!"{op}: map specification says [{expected}] implementation returned [{impl}]"]

def step (st : St) (l : Line) : St × List Msg :=
  let ra := resArgs l.res
  let rhead := ((l.res.splitOn " ").headD "")
  match l.op with
  | "open" =>
    let c : Cfg := { kind := if l.args.get "kind" = "cid" then .cid else .mh, bits := l.args.nat "bits",
                     ifs := l.args.nat "ifs", pfs := l.args.nat "pfs", imm := l.args.get "imm" = "1" }
    let (d, r) := openStoreR c st.store.disk
    match r with
    | .ok m =>
      ({ st with store := { disk := d, mem := some m }, cfg := c, everOpened := true },
        cmp "open" "ok" l.res ++ (if st.everOpened then [Msg.flag "reopen"] else []) ++
        (if st.everOpened ∧ l.res ≠ "ok" then [Msg.prop s!"reopen with the same configuration failed: {l.res}"] else []))
    | .error e =>
      ({ st with store := { disk := d, mem := none } }, cmp "open" (openErrStr e) l.res ++ [Msg.flag "open-error"])
  | "rmsnap" => ({ st with store := { st.store with disk := { st.store.disk with snap := none } } }, [Msg.flag "reopen-rescan"])
  | "badsnap" =>
    let d := st.store.disk
    ({ st with store := { st.store with disk := { d with snap := d.snap.map fun s => { s with size := 16, nz := s.nz.filter (·.1 < 2) } } } },
      [Msg.flag "reopen-badsnap"])
  | "disk" => (st, cmp "disk" (viewDisk st.store.disk) l.res)
  | _ =>
  match st.store.mem with
  | none => (st, [Msg.corr s!"{l.op}: model store is closed"])
  | some m =>
    let d := st.store.disk
    let key := l.args.bytes "k"
    let dig := indexKeyOf m.kind key
    let keyOK := match dig with | some g => g.length ≥ 4 | none => false
    let keyErr := match dig with | some _ => "err:key-too-short" | none => "err:bad-key"
    let setMem := fun (m' : Mem) => { st with store := { st.store with mem := some m' } }
    match l.op with
    | "put" =>
      let v := parseVal (l.args.get "v")
      let (m', r) := storePut m d key v
      let ms := match r with | .ok => "ok" | .err e => errStr e
      let (spec', exp) :=
        if !keyOK then (st.spec, keyErr) else
        let g := dig.getD []
        match st.spec.get g with
        | some (_, old) =>
          if m.imm then (st.spec, "err:key-exists")
          else if old = v then (st.spec, "ok") else (st.spec.set g key v, "ok")
        | none => (st.spec.set g key v, "ok")
      let flags := (if !keyOK then [Msg.flag "malformed-key"] else
        match st.spec.get (dig.getD []) with
        | some (_, old) => if m.imm then [Msg.flag "put-exists-immutable"] else if old = v then [Msg.flag "put-same"] else [Msg.flag "put-update"]
        | none => [Msg.flag "put-new"]) ++ (if v.isEmpty then [Msg.flag "empty-value"] else []) ++
        (if m'.precFileNum > m.precFileNum then [Msg.flag "primary-rollover"] else []) ++
        (match bucketOfKey m.bits (dig.getD []) with
         | some b => match idxRecords m d b with
           | .ok (some rl) =>
             let k := (stripKey m.bits (dig.getD [])).getD []
             (match prevOf rl (findPos rl k) with
              | some p => if pfx p.pfx k ∧ (st.spec.get (dig.getD [])).isNone then [Msg.flag "prev-is-prefix"] else []
              | none => []) ++ (if rl.length ≥ 1 then [Msg.flag "shared-bucket"] else [])
           | _ => []
         | none => [])
      ({ setMem m' with spec := spec' }, cmp "put" ms l.res ++ prop "put" exp l.res ++ flags)
    | "get" =>
      let (m', r) := storeGet m d key
      let ms := match r with | .found v => "found v=" ++ toHex v | .absent => "absent" | .err e => errStr e
      let exp := if !keyOK then keyErr else
        match st.spec.get (dig.getD []) with
        | some (_, v) => "found v=" ++ toHex v
        | none => "absent"
      (setMem m', cmp "get" ms l.res ++ prop "get" exp l.res)
    | "has" =>
      let ms := match storeHas m d key with | .val b => toString b | .err e => errStr e
      let exp := if !keyOK then keyErr else toString (st.spec.get (dig.getD [])).isSome
      (st, cmp "has" ms l.res ++ prop "has" exp l.res)
    | "size" =>
      let ms := match storeGetSize m d key with | .found n => s!"found n={n}" | .absent => "absent" | .err e => errStr e
      let exp := if !keyOK then keyErr else
        match st.spec.get (dig.getD []) with
        | some (_, v) => s!"found n={v.length}"
        | none => "absent"
      (st, cmp "size" ms l.res ++ prop "size" exp l.res)
    | "rm" =>
      let (m', r) := storeRemove m d key
      let ms := match r with | .val b => toString b | .err e => errStr e
      let (spec', exp) := if !keyOK then (st.spec, keyErr) else
        match st.spec.get (dig.getD []) with
        | some _ => (st.spec.del (dig.getD []), "true")
        | none => (st.spec, "false")
      ({ setMem m' with spec := spec' }, cmp "rm" ms l.res ++ prop "rm" exp l.res ++
        [Msg.flag (if exp = "true" then "remove-present" else "remove-absent")])
    | "flush" =>
      let order := parseOrder (ra.get "order")
      let expectKeys := if outstanding m then m.inext.keys else []
      if !isPerm order expectKeys then
        (st, [Msg.corr s!"flush: implementation wrote buckets [{natList order}] but the model's pool holds [{natList expectKeys}]"])
      else
        match storeFlush m d order with
        | none => (st, cmp "flush" "err:other" rhead)
        | some (m', d') =>
          ({ st with store := { disk := d', mem := some m' } }, cmp "flush" "ok" rhead ++
            (if rhead = "ok" then [] else [Msg.prop s!"Flush failed: {l.res}"]) ++
            (if m'.ifileNum > m.ifileNum then [Msg.flag "index-rollover"] else []) ++
            (if m'.pfileNum > m.pfileNum then [Msg.flag "primary-file-rolled"] else []) ++
            (if outstanding m then [Msg.flag "flush-work"] else []))
    | "iter" =>
      let order := parseOrder (ra.get "order")
      let expectKeys := if outstanding m then m.inext.keys else []
      if !isPerm order expectKeys then
        (st, [Msg.corr s!"iter: implementation flushed buckets [{natList order}] but the model's pool holds [{natList expectKeys}]"])
      else
        match storeFlush m d order with
        | none => (st, cmp "iter" "err:other" rhead)
        | some (m', d') =>
          let st' := { st with store := { disk := d', mem := some m' } }
          match storeIter m' d' with
          | .error _ => (st', cmp "iter" "err:other" rhead)
          | .ok items =>
            let ms := showItems items
            let exp := showItems (st.spec.map fun (_, k, v) => (k, v))
            (st', cmp "iter" ("ok items=" ++ ms) (rhead ++ " items=" ++ ra.get "items") ++
                  prop "iter" ("ok items=" ++ exp) (rhead ++ " items=" ++ ra.get "items") ++ [Msg.flag "iterate"])
    | "close" =>
      let order := parseOrder (ra.get "order")
      if !isPerm order m.inext.keys then
        (st, [Msg.corr s!"close: implementation wrote buckets [{natList order}] but the model's pool holds [{natList m.inext.keys}]"])
      else
        match storeClose st.store order with
        | none => (st, cmp "close" "err:other" rhead)
        | some s' => ({ st with store := s' }, cmp "close" "ok" rhead ++
            (if rhead = "ok" then [] else [Msg.prop s!"Close failed: {l.res}"]) ++ [Msg.flag "close"])
    | "paths" =>
      let order := parseOrder (ra.get "order")
      if !isPerm order m.inext.keys then
        (st, [Msg.corr s!"paths: implementation wrote buckets [{natList order}] but the model's pool holds [{natList m.inext.keys}]"])
      else
        match storeClose st.store order with
        | none => (st, cmp "paths" "err:other" rhead)
        | some s' =>
          -- model-side: the snapshot path and the rescan path give the same table (checked here too)
          let viaSnap := openStoreR st.cfg s'.disk
          let viaScan := openStoreR st.cfg { s'.disk with snap := none }
          let nz := fun (b : NMap Nat) => b.filter (fun x => x.2 ≠ 0)
          let same : Bool := match viaSnap.2, viaScan.2 with
            | .ok a, .ok b => nz a.buckets == nz b.buckets
            | _, _ => false
          let tables := ra.get "tables"
          match viaSnap with
          | (d', .ok m') =>
            ({ st with store := { disk := d', mem := some m' } },
              cmp "paths" "ok" rhead ++ (if same then [] else [Msg.corr "paths: model's snapshot and rescan tables differ"]) ++
              (if tables = "same" then [] else [Msg.prop s!"bucket tables of the live store, the snapshot path and the rescan path differ: {tables}"]) ++
              (if rhead = "ok" then [] else [Msg.prop s!"close/reopen failed: {l.res}"]) ++ [Msg.flag "reopen", Msg.flag "paths"])
          | (d', .error e) => ({ st with store := { disk := d', mem := none } }, cmp "paths" (openErrStr e) rhead)
    | "igc" =>
      let budget : Budget := if l.args.get "budget" = "-1" then none else some (l.args.nat "budget")
      let (r, m', d', _) := indexGC m d (l.args.get "scanfree" = "1") budget
      let ms := match r with | .ok => "ok" | .deadline => "deadline" | .err => "err"
      let acted := d'.ifiles ≠ d.ifiles ∨ d'.ihdr ≠ d.ihdr
      ({ st with store := { disk := d', mem := some m' } }, cmp "igc" ms l.res ++
        (if l.res = "err" then [Msg.flag "igc-failed"] else []) ++
        [Msg.flag "igc"] ++ (if acted then [Msg.flag "igc-acted"] else []) ++
        (if r = .deadline then [Msg.flag "gc-deadline"] else []) ++
        (if d'.ihdr ≠ d.ihdr then [Msg.flag "igc-unlinked"] else []))
    | "pgc" =>
      let budget : Budget := if l.args.get "budget" = "-1" then none else some (l.args.nat "budget")
      match primaryGC m d (l.args.nat "lowuse") budget with
      | none => (st, cmp "pgc" "err" l.res)
      | some (r, m', d', _) =>
        let ms := match r.out with | .ok => s!"ok reclaimed={r.reclaimed}" | .deadline => "deadline" | .err => "err"
        let acted := d'.pfiles ≠ d.pfiles ∨ d'.phdr ≠ d.phdr
        let reloc := m'.pnext.length > m.pnext.length
        ({ st with store := { disk := d', mem := some m' } }, cmp "pgc" ms l.res ++
          (if l.res = "err" then [Msg.flag "pgc-failed"] else []) ++
          [Msg.flag "pgc"] ++ (if acted then [Msg.flag "pgc-acted"] else []) ++
          (if reloc then [Msg.flag "pgc-relocated"] else []) ++
          (if r.out = .deadline then [Msg.flag "gc-deadline"] else []) ++
          (if d'.phdr ≠ d.phdr then [Msg.flag "pgc-unlinked"] else []))
    | "sizes" =>
      let ms := s!"index={indexStorage d} primary={primaryStorage m.kind d} freelist={freelistStorage d}"
      (st, cmp "sizes" ms l.res)
    | "view" => (st, cmp "view" (viewState m) l.res)
    | _ => (st, [Msg.corr s!"unknown op {l.op}"])

end Driver.Seq
