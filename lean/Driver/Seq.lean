/-
Driver for the sequential store engine: replays a trace on the physical model (Sth.Store), compares
outputs and the state / disk views, and evaluates the map specification (C01/C02/C04/C15 oracle)
directly on the implementation's outputs.
-/
import Driver.Common
import Sth.Model.Store
import Sth.Model.Recover
import Sth.Model.GC
import Sth.Model.Fsck
import Driver.Img
import Sth.Model.Translate
import Sth.Model.Upgrade
import Sth.Model.UpgradeBytes

namespace Driver.Seq
open Sth Driver

/-- specification: digest ↦ (key bytes as stored, value) -/
abbrev SpecMap := List (Bytes × Bytes × Bytes)

def SpecMap.get (m : SpecMap) (dig : Bytes) : Option (Bytes × Bytes) := (m.find? (·.1 = dig)).map (·.2)
def SpecMap.set (m : SpecMap) (dig key val : Bytes) : SpecMap := (dig, key, val) :: m.filter (·.1 ≠ dig)
def SpecMap.del (m : SpecMap) (dig : Bytes) : SpecMap := m.filter (·.1 ≠ dig)

structure St where
  store : Store := {}
  cfg : Cfg := {}
  spec : SpecMap := []
  everOpened : Bool := false
  -- C13 accounting, from the implementation's own `acct` views
  acctCur : Option (List String) := none
  acctFl : List String := []
  acctEver : List String := []
  acctLastOp : String := ""
  acctLastRes : String := ""
  acctSince : List String := []      -- mutating ops since the last acct view
  gcDirty : Bool := false            -- a primary GC cycle started with unflushed index updates and no store flush completed since
  -- C10: a legacy store was written; the model is synchronised from the directory dump after the upgrading open
  legacyRecs : List (Bytes × Bytes) := []
  legacyOffsets : List Nat := []
  legacyDropped : List Nat := []     -- indexes of records that must not be readable afterwards (freed, bad offset, gone)
  legacyBad : List Nat := []
  legacyDir : Option LegacyDir := none     -- the legacy directory as the harness wrote it
  legacyBits : Nat := 0
  needSync : Bool := false
  -- C11 progress, from the implementation's own views
  c11Marked : Bool := false
  c11DeadP : List Nat := []          -- non-current primary files without live data at the mark
  c11FreeI : List Nat := []          -- non-current index files no bucket points into at the mark
  c11Round : Nat := 0
  c11PReleasedAt : Option Nat := none
  c11IReleasedAt : Option Nat := none
  c11LastView : String := ""
  c11LastDisk : String := ""
  c11LastAcct : String := ""
  c11Sizes : Option Nat := none
  c11RoundDisks : List String := []  -- disk view at the end of each round
  c11PBound : Nat := 1               -- a dead primary file must be released by round c11PBound (0-based): 1 for complete cycles;
                                     -- with the collector's time limit expiring in every cycle (one file per cycle): the number
                                     -- of non-current files at the mark + 1
  c11Pgc : Nat := 0                  -- complete primary GC cycles / index GC cycles / flushes since the mark
  c11Igc : Nat := 0
  c11Flush : Nat := 0
deriving Repr

def insertStr0 (x : String) : List String → List String
  | [] => [x]
  | y :: ys => if x < y then x :: y :: ys else y :: insertStr0 x ys

def sortStr0 (l : List String) : List String := l.foldl (fun acc x => insertStr0 x acc) []

/-- multiset difference on sorted-or-not string lists -/
def msub (a b : List String) : List String := b.foldl (fun acc x => acc.erase x) a

/-- all locations named by live index entries, as the model sees them -/
def modelCur (m : Mem) (d : Disk) : List String :=
  let bks := (m.buckets.keys ++ m.inext.keys ++ m.icur.keys).eraseDups
  sortStr0 (bks.flatMap fun b => match idxRecords m d b with
    | .ok (some rl) => rl.map fun e => s!"{e.blk.off}:{e.blk.size}"
    | _ => [])

def modelFl (m : Mem) (d : Disk) : List String :=
  let parse := fun (f : Option Bytes) => match f with
    | some data => (parseFreeList (data.length + 1) data []).1.map fun b => s!"{b.off}:{b.size}"
    | none => []
  sortStr0 (m.flpool.map (fun b => s!"{b.off}:{b.size}") ++ parse d.free ++ parse d.freeGc)

def errStr : Err → String
  | .keyExists => "err:key-exists"
  | .badKey => "err:bad-key"
  | .keyTooShort => "err:key-too-short"
  | .io => "err:other"
  | .other => "err:other"

def openErrStr : OpenErr → String
  | .wrongBits => "err:wrong-bit-size"
  | .wrongIndexFileSize => "err:wrong-index-file-size"
  | .wrongPrimaryFileSize => "err:wrong-primary-file-size"
  | .badConfig => "err:other"
  | .other => "err:other"

def joinWith (sep : String) (l : List String) : String := sep.intercalate l

def showRLPool (p : NMap RecordList) : String :=
  joinWith ";" (p.map fun (b, rl) => s!"{b}:{toHex (encodeRL rl)}")

def showPPool (p : List PRec) : String :=
  joinWith ";" (p.map fun r => s!"{r.blk.off}:{r.blk.size}:{toHex r.key}:{toHex r.val}")

def viewState (m : Mem) : String :=
  let bk := joinWith "," ((m.buckets.filter (·.2 ≠ 0)).map fun (b, p) => s!"{b}:{p}")
  let base := s!"ifile={m.ifileNum}:{m.ilength} buckets={bk} inext={showRLPool m.inext} icur={showRLPool m.icur} gcresume=" ++
    (match m.gcResume with | some n => toString n | none => "none")
  let pri := match m.kind with
    | .mh => s!" pfile={m.pfileNum}:{m.plength} prec={m.precFileNum}:{m.precPos} pnext={showPPool m.pnext} pcur={showPPool m.pcur} visited={natList (sortNat m.visited)}"
    | .cid => ""
  base ++ pri ++ " fl=" ++ joinWith "," (m.flpool.map fun b => s!"{b.off}:{b.size}")

def showFile (f : Bytes) : String := s!"{f.length}:{fnv64 f}"

def showFiles (fs : NMap Bytes) : String := joinWith "," (fs.map fun (n, f) => s!"{n}:{showFile f}")

def showSnapNz (nz : NMap Nat) : String :=
  String.join ((nz.filter (fun x => x.2 ≠ 0)).map (fun x => s!",{x.1}:{x.2}"))

def viewDisk (d : Disk) : String :=
  let ihdr := match d.ihdr with
    | some h => s!"{h.bits}:{h.max}:{h.first}:{h.pfs}:{(idxHeaderBytes h).length}"
    | none => "none"
  let phdr := match d.phdr with
    | some h => s!"{h.max}:{h.first}:{(priHeaderBytes h).length}"
    | none => "none"
  let snap := match d.snap with
    | some sn => toString sn.size ++ showSnapNz sn.nz
    | none => "none"
  let opt := fun (o : Option Bytes) => match o with | some f => showFile f | none => "none"
  s!"ihdr={ihdr} ifiles={showFiles d.ifiles} snap={snap} phdr={phdr} pfiles={showFiles d.pfiles} cid={opt d.cidfile} free={opt d.free} gc={opt d.freeGc} extra="

def parseOrder (s : String) : List Nat := (s.splitOn ",").filterMap (·.toNat?)

def isPerm (a b : List Nat) : Bool := sortNat a == sortNat b

def parseVal (s : String) : Bytes := if s = "nil" then [] else (fromHex s).getD []

def insertStr (x : String) : List String → List String
  | [] => [x]
  | y :: ys => if x < y then x :: y :: ys else y :: insertStr x ys

def sortStr (l : List String) : List String := l.foldl (fun acc x => insertStr x acc) []

def showItems (items : List (Bytes × Bytes)) : String :=
  joinWith "," (sortStr (items.map fun (k, v) => toHex k ++ ":" ++ toHex v))

def cmp (op model impl : String) : List Msg := if model = impl then [] else [Msg.corr s!"{op}: model=[{model}] impl=[{impl}]"]
def prop (op expected impl : String) : List Msg :=
  if expected = impl then [] else [Msg.prop s!"{op}: map specification says [{expected}] implementation returned [{impl}]"]

/-- C07: the Lean fsck evaluated on the REAL directory bytes and the real live bucket table -/
def fsckStep (st : St) (l : Line) : St × List Msg :=
  let ra := resArgs l.res
  match st.store.mem with
  | none => (st, [Msg.corr "fsck: model store is closed"])
  | some m =>
    let d := st.store.disk
    let im := Driver.Img.parseImg (ra.get "img")
    let live : NMap Nat := ((ra.get "buckets").splitOn ",").foldl (fun acc kv => match kv.splitOn ":" with
      | [b, p] => acc.set (b.toNat?.getD 0) (p.toNat?.getD 0)
      | _ => acc) []
    let hdrBad := (if im.badIdxHdr then ["index header does not parse"] else []) ++ (if im.badPriHdr then ["primary header does not parse"] else [])
    -- entries that were already corrupt in a legacy input (offset beyond the old primary) are preserved by an upgrade that
    -- needs no remapping and dropped lazily on access: they are the input's corruption, not the store's
    let total := (st.legacyRecs.map fun (k, v) => 4 + k.length + v.length).sum
    let ignore := st.legacyBad.map fun i => total + 17 + i
    let viol := hdrBad ++ fsck m.kind im.disk live ignore
    -- recogniser of known finding D11: a primary GC cycle ran since the last completed store flush while index updates were unflushed
    let known := if st.gcDirty then " [known:D11 gc-handover-with-dirty-index]" else ""
    let modelViol := fsck m.kind d (m.buckets.filter (·.2 ≠ 0)) ignore
    (st, viol.map (fun v => Msg.prop s!"fsck after {st.acctLastOp}: {v}{known}") ++
         (if modelViol.isEmpty ∨ !viol.isEmpty then [] else [Msg.corr s!"fsck: the model's own files are inconsistent: {modelViol}"]) ++
         [Msg.flag "fsck"] ++ (if live.length ≥ 2 then [Msg.flag "fsck-2-buckets"] else []))

def stepCore (st : St) (l : Line) : St × List Msg :=
  let ra := resArgs l.res
  let rhead := ((l.res.splitOn " ").headD "")
  match l.op with
  | "open" =>
    let c : Cfg := { kind := if l.args.get "kind" = "cid" then .cid else .mh, bits := l.args.nat "bits",
                     ifs := l.args.nat "ifs", pfs := l.args.nat "pfs", imm := l.args.get "imm" = "1" }
    if st.needSync then
      -- the upgrading open is not modelled at byte level: oracle only; the model is synchronised at the next `fsck`
      ({ st with cfg := c, everOpened := true },
        (if rhead = "ok" then [] else [Msg.prop s!"opening a legacy store failed: {l.res}"]) ++ [Msg.flag "upgrade"])
    else
    let torder := parseOrder (ra.get "torder")
    let (d, r, tkeys) := openStoreT c st.store.disk torder
    let translated : Bool := !tkeys.isEmpty || (match st.store.disk.ihdr with | some h => c.bits != 0 && h.bits != c.bits | none => false)
    match r with
    | .ok m =>
      let orderMsg := if translated && !isPerm torder tkeys then
          [Msg.corr s!"open: re-bucketed index was written in bucket order [{natList torder}] but the model's new index holds [{natList tkeys}]"] else []
      ({ st with store := { disk := d, mem := some m }, cfg := c, everOpened := true },
        cmp "open" "ok" rhead ++ orderMsg ++ (if st.everOpened then [Msg.flag "reopen"] else []) ++
        (if translated then [Msg.flag "rebucketed"] else []) ++
        (if st.everOpened ∧ rhead ≠ "ok" then [Msg.prop s!"reopen failed: {l.res}"] else []))
    | .error e =>
      -- a refused open must name the specific mismatch
      let exp := openErrStr e
      ({ st with store := { disk := d, mem := none } }, cmp "open" exp rhead ++
        (if (e = .wrongIndexFileSize ∨ e = .wrongPrimaryFileSize) ∧ rhead ≠ exp then
           [Msg.prop s!"open with a mismatching file-size limit must be refused with {exp}; implementation returned {l.res}"] else []) ++
        [Msg.flag "open-error", Msg.flag ("open-" ++ exp)])
  | "legacy" =>
    let recs := ((l.args.get "recs").splitOn ",").filterMap fun kv => match kv.splitOn ":" with
      | [k, v] => some ((fromHex k).getD [], (fromHex v).getD [])
      | _ => none
    let idxs := fun (k : String) => ((l.args.get k).splitOn ",").filterMap (·.toNat?)
    let dropped := idxs "freed" ++ idxs "bad" ++ idxs "gone"
    let spec' : SpecMap := ((List.range recs.length).zip recs).foldl (fun sp (i, (k, v)) =>
      if dropped.contains i then sp else sp.set ((indexKeyOf .mh k).getD []) k v) []
    ({ st with spec := spec', legacyRecs := recs, legacyOffsets := ((ra.get "offsets").splitOn ",").filterMap (·.toNat?),
               legacyDropped := dropped, legacyBad := idxs "bad", needSync := true, store := {},
               legacyBits := l.args.nat "bits",
               legacyDir := (let parts := ((ra.get "img").splitOn ";").filterMap fun p => match p.splitOn "=" with
                    | [n, v] => some (n, (fromHex v).getD [])
                    | _ => none
                  let get := fun (n : String) => (parts.find? (·.1 = n)).map (·.2)
                  match get "data", get "index" with
                  | some dt, some ix => some { data := dt, index := ix, free := get "index.free" }
                  | _, _ => none) },
      (if rhead = "ok" then [] else [Msg.corr s!"legacy: {l.res}"]) ++ [Msg.flag "legacy"] ++
      -- the Lean mirror of the legacy writer produces the same bytes (it is what the upgrade theorems quantify over)
      (let parts := ((ra.get "img").splitOn ";").filterMap fun p => match p.splitOn "=" with
          | [n, v] => some (n, (fromHex v).getD [])
          | _ => none
       let get := fun (n : String) => (parts.find? (·.1 = n)).map (·.2)
       let mine0 := legacyOf (l.args.nat "bits") recs (idxs "freed") (idxs "bad") (idxs "gone") (l.args.get "stale" = "1")
       -- tear=n: the harness cut n bytes off the legacy primary (inside its last record)
       let mine : LegacyDir := { mine0 with data := mine0.data.take (mine0.data.length - l.args.nat "tear") }
       if (ra.get "img") = "" then [] else
       if some mine.data = get "data" ∧ some mine.index = get "index" ∧ mine.free.getD [] = (get "index.free").getD [] then [Msg.flag "legacy-writer-mirrored"]
       else [Msg.corr s!"legacy: the Lean mirror of the legacy writer (legacyOf) differs from the bytes written: data {mine.data.length}/{((get "data").getD []).length} index {mine.index.length}/{((get "index").getD []).length} free {(mine.free.getD []).length}/{((get "index.free").getD []).length}"]) ++
      (if (idxs "freed").isEmpty then [] else [Msg.flag "legacy-freelist"]) ++ (if (idxs "bad").isEmpty then [] else [Msg.flag "legacy-bad-offset"]) ++
      (if l.args.nat "tear" > 0 then [Msg.flag "legacy-torn-tail"] else []))
  | "rmsnap" => ({ st with store := { st.store with disk := { st.store.disk with snap := none } } }, [Msg.flag "reopen-rescan"])
  | "badsnap" =>
    let d := st.store.disk
    ({ st with store := { st.store with disk := { d with snap := d.snap.map fun s => { s with size := 16, nz := s.nz.filter (·.1 < 2) } } } },
      [Msg.flag "reopen-badsnap"])
  | "fsck" =>
    if !st.needSync then fsckStep st l else
    -- synchronise the model from the real directory bytes (post-upgrade), then run the fsck on them
    let im := Driver.Img.parseImg (ra.get "img")
    -- C10: the byte-level model of the upgrade (Sth/Model/UpgradeBytes.lean) run on the legacy bytes gives the directory the
    -- real upgrading OpenStore left behind, file for file and byte for byte. The order in which the removal pool of unmappable
    -- entries is flushed is a Go map order: some permutation of the affected buckets must reproduce the directory.
    let upMsgs : List Msg := match st.legacyDir with
      | none => []
      | some L =>
        let badBuckets := (st.legacyBad.filterMap fun i => (st.legacyRecs[i]?).bind fun (k, _) =>
          (indexKeyOf .mh k).bind fun dg => bucketOfKey st.legacyBits dg).eraseDups
        let rec perms : Nat → List Nat → List (List Nat)
          | 0, _ => [[]]
          | _, [] => [[]]
          | fuel + 1, l => l.flatMap fun x => (perms fuel (l.erase x)).map (x :: ·)
        let cands := (perms 4 (badBuckets.take 4)).take 24
        let results := cands.map fun ord => upgradeStoreWith st.cfg L ord
        if results.any (· == some im.disk) then [Msg.flag "upgrade-bytes-agree"] ++ (if badBuckets.length ≥ 2 then [Msg.flag "upgrade-removal-order"] else [])
        else match results.head? with
          | some (some d) =>
            let diff := (if d.pfiles == im.disk.pfiles then [] else [s!"primary files model={showFiles d.pfiles} impl={showFiles im.disk.pfiles}"]) ++
              (if d.ifiles == im.disk.ifiles then [] else [s!"index files model={showFiles d.ifiles} impl={showFiles im.disk.ifiles}"]) ++
              (if d.ihdr == im.disk.ihdr then [] else ["index header"]) ++ (if d.phdr == im.disk.phdr then [] else ["primary header"]) ++
              (if d.free == im.disk.free then [] else ["freelist"]) ++ (if d.freeGc == im.disk.freeGc then [] else ["freelist .gc"]) ++
              (if d.snap == im.disk.snap then [] else ["snapshot"]) ++ (if d.cidfile == im.disk.cidfile then [] else ["cid file"])
            [Msg.corr s!"upgrade: the model's directory differs from the real one in: {"; ".intercalate diff}"]
          | _ => [Msg.corr "upgrade: the model refuses the legacy directory the real code upgraded"]
    let (stx, msgsx) : St × List Msg := ({ st with legacyDir := none }, upMsgs)
    let st := stx
    match openStoreR st.cfg im.disk with
    | (d', .ok m') =>
      let live := ((ra.get "buckets").splitOn ",").filter (· ≠ "")
      let mine := (m'.buckets.filter (·.2 ≠ 0)).map fun (b, p) => s!"{b}:{p}"
      let st' := { st with store := { disk := d', mem := some m' }, needSync := false }
      let (st'', msgs) := fsckStep st' l
      (st'', msgsx ++ (if live = mine then [] else [Msg.corr s!"after upgrade: live bucket table [{ra.get "buckets"}] differs from the table a rescan of the same files gives [{",".intercalate mine}]"]) ++ msgs)
    | (_, .error e) => (st, msgsx ++ [Msg.corr s!"model cannot open the upgraded directory: {openErrStr e}"])
  | "chunks" =>
    -- C10 pure core against the real files: chunk sizes and remapped locations
    let pfs := if st.cfg.pfs = 0 then defaultMax else st.cfg.pfs
    let recBytes := st.legacyRecs.map fun (k, v) => le32 (k.length + v.length) ++ k ++ v
    let expP := natList (chunkFileSizes pfs recBytes)
    let sizes := chunkFileSizes pfs recBytes
    let locs := (ra.get "locs").splitOn ","
    -- the index is asked per key: the location of the key's current record (the last one that is not freed/bad/gone)
    -- (a record with a corrupt offset is still an index entry; freed and gone records are not)
    let total := (recBytes.map List.length).sum
    let noRemap : Bool := match sizes with | [] => true | [one] => one < pfs | _ => false
    let curOf := fun (key : Bytes) => (((List.range st.legacyRecs.length).zip st.legacyRecs).filter fun (i, (k, _)) =>
      k = key ∧ (!st.legacyDropped.contains i ∨ st.legacyBad.contains i)).getLast?
    let expLocs := st.legacyRecs.map fun (key, _) =>
      match curOf key with
      | some (i, (k, v)) =>
        if st.legacyBad.contains i then
          -- dropped by the remapping; without remapping (one chunk below the limit) the corrupt entry is preserved as it was
          (if noRemap then s!"{total + 17 + i}:{k.length + v.length}" else "none")
        else
        (match remapOffset 0 pfs sizes (st.legacyOffsets.getD i 0) with
         | some off => s!"{off}:{k.length + v.length}"
         | none => "none")
      | none => "none"
    (st, cmp "chunks.psizes" expP (ra.get "psizes") ++ cmp "chunks.locs" (",".intercalate expLocs) (",".intercalate locs) ++
      [Msg.flag "chunks"] ++ (if sizes.length ≥ 2 then [Msg.flag "multi-chunk"] else []))
  | "disk" =>
    if st.needSync then (st, []) else
    let da := resArgs l.res
    let sized : String → List (Nat × Nat) := fun s => (s.splitOn ",").filterMap fun e => match e.splitOn ":" with
      | n :: sz :: _ => match n.toNat?, sz.toNat? with
        | some n, some sz => some (n, sz)
        | _, _ => none
      | _ => none
    let released : List (Nat × Nat) → List Nat → Bool := fun files set =>
      set.all fun n => match files.find? (fun x => x.1 = n) with | some (_, sz) => sz == 0 | none => true
    let st := { st with c11LastDisk := l.res }
    let st := if st.c11Marked && st.c11PReleasedAt.isNone && !st.c11DeadP.isEmpty && released (sized (da.get "pfiles")) st.c11DeadP
      then { st with c11PReleasedAt := some st.c11Round } else st
    let st := if st.c11Marked && st.c11IReleasedAt.isNone && !st.c11FreeI.isEmpty && released (sized (da.get "ifiles")) st.c11FreeI
      then { st with c11IReleasedAt := some st.c11Round } else st
    (st, cmp "disk" (viewDisk st.store.disk) l.res)
  | _ =>
  match st.store.mem with
  | none => (st, [Msg.corr s!"{l.op}: model store is closed"])
  | some m =>
    let d := st.store.disk
    let key := l.args.bytes "k"
    let dig := indexKeyOf m.kind key
    let keyOK := match dig with | some g => g.length ≥ 4 | none => false
    let keyErr := match dig with | some _ => "err:key-too-short" | none => "err:bad-key"
    let setMem := fun (m' : Mem) => { st with store := { st.store with mem := some m' } }
    match l.op with
    | "put" =>
      let v := parseVal (l.args.get "v")
      let (m', r) := storePut m d key v
      let ms := match r with | .ok => "ok" | .err e => errStr e
      let (spec', exp) :=
        if !keyOK then (st.spec, keyErr) else
        let g := dig.getD []
        match st.spec.get g with
        | some (_, old) =>
          if m.imm then (st.spec, "err:key-exists")
          else if old = v then (st.spec, "ok") else (st.spec.set g key v, "ok")
        | none => (st.spec.set g key v, "ok")
      let flags := (if !keyOK then [Msg.flag "malformed-key"] else
        match st.spec.get (dig.getD []) with
        | some (_, old) => if m.imm then [Msg.flag "put-exists-immutable"] else if old = v then [Msg.flag "put-same"] else [Msg.flag "put-update"]
        | none => [Msg.flag "put-new"]) ++ (if v.isEmpty then [Msg.flag "empty-value"] else []) ++
        (if m'.precFileNum > m.precFileNum then [Msg.flag "primary-rollover"] else []) ++
        (match bucketOfKey m.bits (dig.getD []) with
         | some b => match idxRecords m d b with
           | .ok (some rl) =>
             let k := (stripKey m.bits (dig.getD [])).getD []
             (match prevOf rl (findPos rl k) with
              | some p => if pfx p.pfx k ∧ (st.spec.get (dig.getD [])).isNone then [Msg.flag "prev-is-prefix"] else []
              | none => []) ++ (if rl.length ≥ 1 then [Msg.flag "shared-bucket"] else [])
           | _ => []
         | none => [])
      ({ setMem m' with spec := spec' }, cmp "put" ms l.res ++ prop "put" exp l.res ++ flags)
    | "get" =>
      let (m', r) := storeGet m d key
      let ms := match r with | .found v => "found v=" ++ toHex v | .absent => "absent" | .err e => errStr e
      let exp := if !keyOK then keyErr else
        match st.spec.get (dig.getD []) with
        | some (_, v) => "found v=" ++ toHex v
        | none => "absent"
      (setMem m', cmp "get" ms l.res ++ prop "get" exp l.res)
    | "has" =>
      let ms := match storeHas m d key with | .val b => toString b | .err e => errStr e
      let exp := if !keyOK then keyErr else toString (st.spec.get (dig.getD [])).isSome
      (st, cmp "has" ms l.res ++ prop "has" exp l.res)
    | "size" =>
      let ms := match storeGetSize m d key with | .found n => s!"found n={n}" | .absent => "absent" | .err e => errStr e
      let exp := if !keyOK then keyErr else
        match st.spec.get (dig.getD []) with
        | some (_, v) => s!"found n={v.length}"
        | none => "absent"
      (st, cmp "size" ms l.res ++ prop "size" exp l.res)
    | "rm" =>
      let (m', r) := storeRemove m d key
      let ms := match r with | .val b => toString b | .err e => errStr e
      let (spec', exp) := if !keyOK then (st.spec, keyErr) else
        match st.spec.get (dig.getD []) with
        | some _ => (st.spec.del (dig.getD []), "true")
        | none => (st.spec, "false")
      ({ setMem m' with spec := spec' }, cmp "rm" ms l.res ++ prop "rm" exp l.res ++
        [Msg.flag (if exp = "true" then "remove-present" else "remove-absent")])
    | "flush" =>
      let order := parseOrder (ra.get "order")
      let expectKeys := if outstanding m then m.inext.keys else []
      if !isPerm order expectKeys then
        (st, [Msg.corr s!"flush: implementation wrote buckets [{natList order}] but the model's pool holds [{natList expectKeys}]"])
      else
        match storeFlush m d order with
        | none => (st, cmp "flush" "err:other" rhead)
        | some (m', d') =>
          ({ st with store := { disk := d', mem := some m' } }, cmp "flush" "ok" rhead ++
            (if rhead = "ok" then [] else [Msg.prop s!"Flush failed: {l.res}"]) ++
            (if m'.ifileNum > m.ifileNum then [Msg.flag "index-rollover"] else []) ++
            (if m'.pfileNum > m.pfileNum then [Msg.flag "primary-file-rolled"] else []) ++
            (if outstanding m then [Msg.flag "flush-work"] else []))
    | "iter" =>
      let order := parseOrder (ra.get "order")
      let expectKeys := if outstanding m then m.inext.keys else []
      if !isPerm order expectKeys then
        (st, [Msg.corr s!"iter: implementation flushed buckets [{natList order}] but the model's pool holds [{natList expectKeys}]"])
      else
        match storeFlush m d order with
        | none => (st, cmp "iter" "err:other" rhead)
        | some (m', d') =>
          let st' := { st with store := { disk := d', mem := some m' } }
          match storeIter m' d' with
          | .error _ => (st', cmp "iter" "err:other" rhead)
          | .ok items =>
            let ms := showItems items
            let exp := showItems (st.spec.map fun (_, k, v) => (k, v))
            (st', cmp "iter" ("ok items=" ++ ms) (rhead ++ " items=" ++ ra.get "items") ++
                  prop "iter" ("ok items=" ++ exp) (rhead ++ " items=" ++ ra.get "items") ++ [Msg.flag "iterate"])
    | "close" =>
      let order := parseOrder (ra.get "order")
      if !isPerm order m.inext.keys then
        (st, [Msg.corr s!"close: implementation wrote buckets [{natList order}] but the model's pool holds [{natList m.inext.keys}]"])
      else
        match storeClose st.store order with
        | none => (st, cmp "close" "err:other" rhead)
        | some s' => ({ st with store := s' }, cmp "close" "ok" rhead ++
            (if rhead = "ok" then [] else [Msg.prop s!"Close failed: {l.res}"]) ++ [Msg.flag "close"])
    | "paths" =>
      let order := parseOrder (ra.get "order")
      if !isPerm order m.inext.keys then
        (st, [Msg.corr s!"paths: implementation wrote buckets [{natList order}] but the model's pool holds [{natList m.inext.keys}]"])
      else
        match storeClose st.store order with
        | none => (st, cmp "paths" "err:other" rhead)
        | some s' =>
          -- model-side: the snapshot path and the rescan path give the same table (checked here too)
          let viaSnap := openStoreR st.cfg s'.disk
          let viaScan := openStoreR st.cfg { s'.disk with snap := none }
          let nz := fun (b : NMap Nat) => b.filter (fun x => x.2 ≠ 0)
          let same : Bool := match viaSnap.2, viaScan.2 with
            | .ok a, .ok b => nz a.buckets == nz b.buckets
            | _, _ => false
          let tables := ra.get "tables"
          match viaSnap with
          | (d', .ok m') =>
            ({ st with store := { disk := d', mem := some m' } },
              cmp "paths" "ok" rhead ++ (if same then [] else [Msg.corr "paths: model's snapshot and rescan tables differ"]) ++
              (if tables = "same" then [] else [Msg.prop s!"bucket tables of the live store, the snapshot path and the rescan path differ: {tables}"]) ++
              (if rhead = "ok" then [] else [Msg.prop s!"close/reopen failed: {l.res}"]) ++ [Msg.flag "reopen", Msg.flag "paths"])
          | (d', .error e) => ({ st with store := { disk := d', mem := none } }, cmp "paths" (openErrStr e) rhead)
    | "igc" =>
      let budget : Budget := if l.args.get "budget" = "-1" then none else some (l.args.nat "budget")
      let (r, m', d', _) := indexGC m d (l.args.get "scanfree" = "1") budget
      let ms := match r with | .ok => "ok" | .deadline => "deadline" | .err => "err"
      let acted := d'.ifiles ≠ d.ifiles ∨ d'.ihdr ≠ d.ihdr
      ({ st with store := { disk := d', mem := some m' } }, cmp "igc" ms l.res ++
        (if l.res = "err" then [Msg.flag "igc-failed"] else []) ++
        [Msg.flag "igc"] ++ (if acted then [Msg.flag "igc-acted"] else []) ++
        (if r = .deadline then [Msg.flag "gc-deadline"] else []) ++
        (if d'.ihdr ≠ d.ihdr then [Msg.flag "igc-unlinked"] else []))
    | "pgc" =>
      -- tl=1: the time limit expires while the first file is being visited; the freelist phase is not subject to it. In the
      -- model's terms: the budget is exactly the number of polls the two hand-over passes take
      let tlBudget : Budget :=
        let big := 1000000000
        let (r1, m1, d1, b1, _) := freelistPass m d (some big)
        match r1 with
        | .ok => let (_, _, _, b2, _) := freelistPass m1 d1 b1; some (big - b2.getD 0)
        | _ => some (big - b1.getD 0)
      let budget : Budget := if l.args.get "tl" = "1" then tlBudget
        else if l.args.get "budget" = "-1" then none else some (l.args.nat "budget")
      match primaryGC m d (l.args.nat "lowuse") budget with
      | none => (st, cmp "pgc" "err" l.res)
      | some (r, m', d', _) =>
        let ms := match r.out with | .ok => s!"ok reclaimed={r.reclaimed}" | .deadline => "deadline" | .err => "err"
        let acted := d'.pfiles ≠ d.pfiles ∨ d'.phdr ≠ d.phdr
        let reloc := m'.pnext.length > m.pnext.length
        ({ st with store := { disk := d', mem := some m' } }, cmp "pgc" ms l.res ++
          (if l.res = "err" then [Msg.flag "pgc-failed"] else []) ++
          [Msg.flag "pgc"] ++ (if acted then [Msg.flag "pgc-acted"] else []) ++
          (if reloc then [Msg.flag "pgc-relocated"] else []) ++
          (if r.out = .deadline then [Msg.flag "gc-deadline"] else []) ++
          (if d'.phdr ≠ d.phdr then [Msg.flag "pgc-unlinked"] else []))
    | "acct" =>
      let cur := ((ra.get "cur").splitOn ",").filter (· ≠ "")
      let fl := ((ra.get "fl").splitOn ",").filter (· ≠ "")
      let corr := cmp "acct" s!"cur={",".intercalate (modelCur m d)} fl={",".intercalate (modelFl m d)}" l.res
      -- oracle on the implementation's own views
      let tag := s!"after {st.acctLastOp}: "
      let props := match st.acctCur with
        | none => []
        | some prevCur =>
          let superseded := prevCur.filter (fun x => !cur.contains x)
          let recorded := msub fl st.acctFl
          let consumed := msub st.acctFl fl
          let isGC := st.acctSince.contains "pgc"
          let onlyGC := st.acctSince = ["pgc"]
          (if fl.eraseDups.length = fl.length then [] else [Msg.prop (tag ++ "a location is on the freelist twice")]) ++
          (if recorded.all (fun x => !st.acctEver.contains x) then [] else [Msg.prop (tag ++ s!"a location is recorded on the freelist a second time: {recorded.filter (st.acctEver.contains ·)}")]) ++
          (if fl.all (fun x => !cur.contains x) then [] else [Msg.prop (tag ++ s!"a location that is still current is on the freelist: {fl.filter (cur.contains ·)}")]) ++
          (if isGC then
             -- relocation supersedes locations; a complete cycle presents everything that was recorded before it
             (if sortStr0 recorded = sortStr0 superseded then [] else [Msg.prop (tag ++ s!"relocated-from locations {superseded} but recorded {recorded}")]) ++
             (if onlyGC ∧ st.acctLastRes.startsWith "ok" ∧ !(consumed.length = st.acctFl.length) then
                [Msg.prop (tag ++ s!"a complete GC cycle did not consume recorded locations {msub st.acctFl consumed}")] else [])
           else
             (if consumed.isEmpty then [] else [Msg.prop (tag ++ s!"recorded locations vanished without a GC cycle: {consumed}")]) ++
             (if sortStr0 recorded = sortStr0 superseded then [] else
                [Msg.prop (tag ++ s!"locations {superseded} stopped being current but {recorded} were recorded on the freelist")]))
      ({ st with acctCur := some cur, acctFl := fl, acctEver := (st.acctEver ++ fl).eraseDups, acctSince := [], c11LastAcct := l.res }, corr ++ props ++ [Msg.flag "acct"] ++
        (if fl.isEmpty then [] else [Msg.flag "freelist-nonempty"]))
    | "sizes" =>
      let ms := s!"index={indexStorage d} primary={primaryStorage m.kind d} freelist={freelistStorage d}"
      let total := ra.nat "index" + ra.nat "primary" + ra.nat "freelist"
      let grow := match st.c11Sizes with
        | some before =>
          if (st.acctLastOp = "pgc" ∨ st.acctLastOp = "igc") ∧ st.acctSince.getLast? = some st.acctLastOp ∧ total > before then
            [Msg.prop s!"{st.acctLastOp} increased the reported storage from {before} to {total} bytes (nothing was pending before the cycle)"]
          else []
        | none => []
      ({ st with c11Sizes := some total }, cmp "sizes" ms l.res ++ (if st.c11Marked then grow else []))
    | "c11mark" =>
      -- from the implementation's last views: which non-current files hold no live data / are unreferenced
      let va := resArgs st.c11LastView
      let da := resArgs st.c11LastDisk
      let aa := resArgs st.c11LastAcct
      let pfs := if st.cfg.pfs = 0 then defaultMax else st.cfg.pfs
      let ifs := if st.cfg.ifs = 0 then defaultMax else st.cfg.ifs
      let fileNums := fun (s : String) => (s.splitOn ",").filterMap fun e => ((e.splitOn ":").headD "").toNat?
      let pfiles := fileNums (da.get "pfiles")
      let ifiles := fileNums (da.get "ifiles")
      let pcur := pfiles.foldl max 0
      let icur := ifiles.foldl max 0
      let liveP := ((aa.get "cur").splitOn ",").filterMap fun e => (((e.splitOn ":").headD "").toNat?).map (· / pfs)
      let refI := ((va.get "buckets").splitOn ",").filterMap fun e => match e.splitOn ":" with
        | [_, p] => (p.toNat?).map fun pos => (pos - 4) / ifs
        | _ => none
      ({ st with c11Marked := true, c11DeadP := pfiles.filter (fun n => n < pcur ∧ !liveP.contains n),
                 c11FreeI := ifiles.filter (fun n => n < icur ∧ !refI.contains n), c11Round := 0, c11Pgc := 0, c11Igc := 0, c11Flush := 0,
                 c11PBound := if l.args.get "tl" = "1" then (pfiles.filter (· < pcur)).length + 1 else 1 },
        [Msg.flag "c11"] ++ (if (pfiles.filter (fun n => n < pcur ∧ !liveP.contains n)).isEmpty then [] else [Msg.flag "c11-dead-primary-files"]) ++
        (if (ifiles.filter (fun n => n < icur ∧ !refI.contains n)).isEmpty then [] else [Msg.flag "c11-unreferenced-index-files"]))
    | "c11round" =>
      ({ st with c11Round := l.args.nat "n", c11RoundDisks := if l.args.nat "n" = 0 then [] else st.c11RoundDisks ++ [st.c11LastDisk] }, [])
    | "c11end" =>
      let disks := st.c11RoundDisks ++ [st.c11LastDisk]
      let n := disks.length
      let fixedPoint := n ≥ 2 ∧ disks.getD (n - 1) "" = disks.getD (n - 2) "x"
      -- the verdicts "never released" / "no fixed point" need the cycles to have actually run (a shortened trace proves nothing)
      let enoughP := st.c11Pgc ≥ st.c11PBound + 3 ∧ st.c11Flush ≥ 4
      let enoughI := st.c11Igc ≥ 4 ∧ st.c11Flush ≥ 4
      let pr := (match st.c11PReleasedAt with
        | some r => if r ≤ st.c11PBound then [] else [Msg.prop s!"primary files {st.c11DeadP} held no live data after the flush but were released only after {r + 1} GC cycles (bound {st.c11PBound + 1})"]
        | none => if st.c11DeadP.isEmpty ∨ !enoughP then [] else [Msg.prop s!"primary files {st.c11DeadP} held no live data after the flush and are still not released after {st.c11Pgc} GC cycles: [{(resArgs st.c11LastDisk).get "pfiles"}]"]) ++
        (match st.c11IReleasedAt with
        | some r => if r ≤ 1 then [] else [Msg.prop s!"index files {st.c11FreeI} were unreferenced but were released only after {r + 1} index GC cycles (bound 2)"]
        | none => if st.c11FreeI.isEmpty ∨ !enoughI then [] else [Msg.prop s!"index files {st.c11FreeI} are unreferenced and still not released after {st.c11Igc} index GC cycles: [{(resArgs st.c11LastDisk).get "ifiles"}]"]) ++
        (if fixedPoint ∨ !(enoughP ∧ enoughI ∧ n ≥ 4) then [] else [Msg.prop s!"repeated GC cycles on an unchanged store did not reach a fixed point within {n} rounds"])
      (st, pr ++ (match st.c11PReleasedAt with | some r => [Msg.flag s!"c11-primary-released-after-{r + 1}"] | none => []) ++
                 (match st.c11IReleasedAt with | some r => [Msg.flag s!"c11-index-released-after-{r + 1}"] | none => []))
    | "view" => ({ st with c11LastView := l.res }, cmp "view" (viewState m) l.res)
    | _ => (st, [Msg.corr s!"unknown op {l.op}"])

def step (st : St) (l : Line) : St × List Msg :=
  let dirtyBefore : Bool := match st.store.mem with | some m => !m.inext.isEmpty | none => false
  let (st', msgs) := stepCore st l
  let st' := if l.op == "pgc" && dirtyBefore then { st' with gcDirty := true }
             else if (l.op == "flush" || l.op == "iter" || l.op == "close" || l.op == "paths") && l.res.startsWith "ok" then { st' with gcDirty := false }
             else st'
  let st' := if l.op == "pgc" && ((l.res.startsWith "ok" && l.args.get "budget" == "-1") || (l.args.get "tl" == "1" && (l.res.startsWith "ok" || l.res == "deadline"))) then { st' with c11Pgc := st'.c11Pgc + 1 }
             else if l.op == "igc" && l.res == "ok" && l.args.get "budget" == "-1" then { st' with c11Igc := st'.c11Igc + 1 }
             else if l.op == "flush" && l.res.startsWith "ok" then { st' with c11Flush := st'.c11Flush + 1 }
             else st'
  if l.op = "acct" ∨ l.op = "view" ∨ l.op = "disk" ∨ l.op = "get" ∨ l.op = "has" ∨ l.op = "size" ∨ l.op = "sizes" then (st', msgs)
  else ({ st' with acctLastOp := l.op, acctLastRes := l.res, acctSince := st'.acctSince ++ [l.op],
                   acctCur := if l.op = "close" ∨ l.op = "open" ∨ l.op = "paths" then none else st'.acctCur }, msgs)

end Driver.Seq
