/-
Driver for the file-cache engine (C14).
-/
import Driver.Common
import Sth.Model.FileCache

namespace Driver.FC
open Sth Sth.FC Driver

structure St where
  s : State := {}
  lent : List (Nat × Nat) := []     -- implementation-side loans: handle ↦ count (from the trace)
deriving Repr

def lentOf (l : List (Nat × Nat)) (h : Nat) : Nat := ((l.find? (·.1 = h)).map (·.2)).getD 0
def lentSet (l : List (Nat × Nat)) (h n : Nat) : List (Nat × Nat) := (h, n) :: l.filter (·.1 ≠ h)

def parseNatList (s : String) : List Nat := (s.splitOn ",").filterMap (·.toNat?)

def showOut : Out → String
  | .handle h => s!"h={h}"
  | .ok => "ok"
  | .errClosed => "errclosed"

def step (st : St) (l : Line) : St × List Msg :=
  let isPanic := l.res.startsWith "panic"
  let panicMsg := if isPanic then [Msg.prop s!"{l.op} panicked: {l.res}"] else []
  match l.op with
  | "fcnew" => ({ s := { cap := l.args.nat "cap" } }, if l.res = "ok" then [] else [.corr s!"fcnew: impl={l.res}"])
  | "fcopen" =>
    let (s', out) := Sth.FC.step st.s (.open (l.args.nat "n"))
    let m := showOut out
    let corr := if m = l.res then [] else [Msg.corr s!"fcopen: model={m} impl={l.res}"]
    let (rh, _) := parseRes l.res
    let lent' := if rh.startsWith "h=" then
        match ((rh.drop 2).toString).toNat? with
        | some h => lentSet st.lent h (lentOf st.lent h + 1)
        | none => st.lent
      else st.lent
    let prop := if rh.startsWith "h=" || isPanic then [] else [Msg.prop s!"Open failed: {l.res}"]
    let flags := (if st.s.cap = 0 then [Msg.flag "open-uncached"] else
                  if (st.s.cache.find? (·.name = l.args.nat "n")).isSome then [Msg.flag "open-hit"]
                  else if st.s.cache.length ≥ st.s.cap then [Msg.flag "open-evict"] else [Msg.flag "open-miss"])
    ({ s := s', lent := lent' }, corr ++ prop ++ panicMsg ++ flags)
  | "fcclose" =>
    let h := l.args.nat "h"
    let (s', out) := Sth.FC.step st.s (.close h)
    let m := showOut out
    let corr := if m = l.res then [] else [Msg.corr s!"fcclose: model={m} impl={l.res}"]
    let held := lentOf st.lent h
    let prop := if held > 0 && l.res ≠ "ok" && !isPanic then
        [Msg.prop s!"Close of a handle that is lent out ({held}x) returned {l.res}"] else []
    let flags := if (st.s.removed.find? (·.1 = h)).isSome then [Msg.flag "close-removed"]
                 else if (st.s.cache.find? (·.h = h)).isSome then [Msg.flag "close-cached"] else [Msg.flag "close-uncached"]
    ({ s := s', lent := lentSet st.lent h (held - 1) }, corr ++ prop ++ panicMsg ++ flags)
  | "fcremove" =>
    let (s', _) := Sth.FC.step st.s (.remove (l.args.nat "n"))
    ({ st with s := s' }, (if l.res = "ok" then [] else [.corr s!"fcremove: impl={l.res}"]) ++ panicMsg ++ [Msg.flag "remove"])
  | "fcclear" =>
    let (s', _) := Sth.FC.step st.s .clear
    ({ st with s := s' }, (if l.res = "ok" then [] else [.corr s!"fcclear: impl={l.res}"]) ++ panicMsg ++ [Msg.flag "clear"])
  | "fcsize" =>
    let n := l.args.nat "n"
    let (s', _) := Sth.FC.step st.s (.setSize n)
    let fl := if n < st.s.cap then (if n = 0 then "shrink-to-0" else "shrink") else "grow"
    ({ st with s := s' }, (if l.res = "ok" then [] else [.corr s!"fcsize: model=ok impl={l.res}"]) ++ panicMsg ++ [Msg.flag fl])
  | "fcview" =>
    let opened := sortNat st.s.opened
    let m := s!"len={st.s.cache.length} cap={st.s.cap} open={natList opened} fds={opened.length}"
    let corr := if m = l.res then [] else [Msg.corr s!"fcview: model=[{m}] impl=[{l.res}]"]
    let ra := resArgs l.res
    let iopen := parseNatList (ra.get "open")
    let ilen := ra.nat "len"
    let icap := ra.nat "cap"
    let ifds := ra.nat "fds"
    let lentHandles := (st.lent.filter (·.2 > 0)).map (·.1)
    let p1 := (lentHandles.filter (fun h => !iopen.contains h)).map
      (fun h => Msg.prop s!"handle {h} is lent out but closed")
    let p2 := if ifds ≤ icap + lentHandles.length then [] else
      [Msg.prop s!"{ifds} open descriptors exceed capacity {icap} + {lentHandles.length} lent handles"]
    let idle := iopen.filter (fun h => lentOf st.lent h = 0)
    let p3 := if idle.length ≤ ilen then [] else
      [Msg.prop s!"released handles {natList idle} are open but only {ilen} entries are cached (handle leaked, never closed)"]
    let p4 := if ifds = iopen.length then [] else [Msg.prop s!"descriptor count {ifds} differs from {iopen.length} usable handles"]
    (st, corr ++ p1 ++ p2 ++ p3 ++ p4)
  | _ => (st, [.corr s!"unknown op {l.op}"])

end Driver.FC
