/-
Driver for the cooperative-scheduler engine (C05, C06, C12, C13 hand-over, C17): reconstructs the
concurrent history from the event log and evaluates the specifications on it: every call returns without
error, the history is linearizable with respect to the map, rate-limited writers are released.
-/
import Driver.Common
import Sth.Model.Multihash
import Sth.Model.Conc
import Sth.Model.Rate
import Sth.Model.ConcPools
import Sth.Model.Store
import Sth.Model.FreeConc

namespace Driver.Sched
open Sth Driver

structure HOp where
  thread : String
  idx : Nat
  op : String
  inv : Nat := 0          -- event index of the release into the op
  ret : Option Nat := none
  res : String := ""      -- observed result ("" = still pending)
deriving Repr, Inhabited

structure St where
  imm : Bool := false
  spec : List (Bytes × Bytes) := []          -- digest ↦ value, after the sequential preparation
  programs : List (String × List String) := []
  lastHist : List HOp := []
  finalSpecs : List (List (Bytes × Bytes)) := []   -- final states of the linearizations found
  profile : String := ""
  concFinal : Option Conc.State := none      -- final state of the section model when its replay agreed
  lastGcOverlap : Bool := false              -- D18 recogniser of the last schedule
  keyFinals : List (String × List String) := []   -- per key: the values some linearization of the calls on that key ends with
  d17Keys : List String := []                -- keys sharing a bucket with a key that has two overlapping mutators in the last schedule
  bits : Nat := 24
  relocWindowMutator : Bool := false         -- D32 recogniser of the last schedule
  d17Off : Bool := false      -- the last schedule's overlapping mutators were on keys alone in their buckets and the section model did not predict the outcome
deriving Repr

def digestOf (khex : String) : Bytes := (mhDecode ((fromHex khex).getD [])).getD []

def sget (m : List (Bytes × Bytes)) (g : Bytes) : Option Bytes := (m.find? (·.1 = g)).map (·.2)
def sset (m : List (Bytes × Bytes)) (g v : Bytes) : List (Bytes × Bytes) := (g, v) :: m.filter (·.1 ≠ g)
def sdel (m : List (Bytes × Bytes)) (g : Bytes) : List (Bytes × Bytes) := m.filter (·.1 ≠ g)

/-- map specification of one call in the sched engine's notation: (new state, expected result) -/
def specOp (imm : Bool) (m : List (Bytes × Bytes)) (op : String) : List (Bytes × Bytes) × String :=
  match op.splitOn ":" with
  | ["put", k, v] =>
    let g := digestOf k
    let val := (fromHex v).getD []
    match sget m g with
    | some old => if imm then (m, "err-key-exists") else if old = val then (m, "ok") else (sset m g val, "ok")
    | none => (sset m g val, "ok")
  | ["put", k] =>
    let g := digestOf k
    match sget m g with
    | some old => if imm then (m, "err-key-exists") else if old = [] then (m, "ok") else (sset m g [], "ok")
    | none => (sset m g [], "ok")
  | ["get", k] => (m, match sget m (digestOf k) with | some v => "v" ++ toHex v | none => "absent")
  | ["has", k] => (m, toString (sget m (digestOf k)).isSome)
  | ["size", k] => (m, match sget m (digestOf k) with | some v => s!"n{v.length}" | none => "absent")
  | ["rm", k] => (match sget m (digestOf k) with | some _ => (sdel m (digestOf k), "true") | none => (m, "false"))
  | _ => (m, "ok")      -- flush, pgc, igc, close, sizes, fcsize: no effect on the map, must return ok

/-! ### replay of the real schedule on the section-level model Sth/Model/Conc.lean -/

def concOfOp (op : String) : Option Conc.Op :=
  match op.splitOn ":" with
  | ["put", k, v] => some (.put (digestOf k) ((fromHex v).getD []))
  | ["put", k] => some (.put (digestOf k) [])
  | ["get", k] => some (.get (digestOf k))
  | ["has", k] => some (.has (digestOf k))
  | ["size", k] => some (.size (digestOf k))
  | ["rm", k] => some (.rm (digestOf k))
  | _ => none

def concResStr : Conc.Res → String
  | .ok => "ok"
  | .keyExists => "err-key-exists"
  | .err => "err"
  | .found v => "v" ++ toHex v
  | .absent => "absent"
  | .bool b => toString b
  | .sizeOf n => s!"n{n}"

/-- the hook point at which the real thread has completed the section the model thread is about to run -/
def concCompletes (pc : Conc.Pc) (point : String) : Bool :=
  match pc with
  | .idle => point == "index.get.info_read"
  | .putLooked .. => point == "store.put.primary_read_done"
  | .putRead .. => point == "store.put.primary_put_done"
  | .putStored _ _ none _ => point == "store.put.done"
  | .putStored _ _ (some _) _ => point == "store.put.index_done"
  | .putIndexed .. => point == "store.put.done"
  | .readLooked .. => false
  | .rmLooked .. => point == "store.remove.primary_read_done"
  | .rmRead .. => point == "store.remove.index_done"
  | .rmIndexed .. => false

/-- sections that end with the call's return -/
def concEndsAtReturn (pc : Conc.Pc) : Bool :=
  match pc with
  | .putLooked .. => true            -- ErrKeyExists / same value
  | .putStored _ _ (some _) _ => true -- Index.Update failed
  | .readLooked .. => true
  | .rmIndexed .. => true
  | _ => false

structure CSim where
  s : Conc.State := {}
  names : List String := []
  cur : List (String × Nat) := []     -- thread ↦ op it was last released into
  bad : List String := []
  steps : Nat := 0
  predictedErr : Bool := false
  predictedLost : Bool := false       -- Index.Put on a key that is present by now (the Put is lost)
deriving Repr

def concInit (imm : Bool) (spec : List (Bytes × Bytes)) (programs : List (String × List String)) (collectorAlone : Bool := false) : Option CSim :=
  let model := programs.filter fun (_, ops) => ops.all fun o => (concOfOp o).isSome
  let others := programs.filter fun (_, ops) => !(ops.all fun o => (concOfOp o).isSome)
  -- threads that only flush do not touch the abstract state; collectors are not modelled - except in window schedules, where no
  -- call overlaps a step of the collector: there a GC cycle, whole or stopped at the window, must leave the contents alone
  -- (C04), so the collector is replayed as a thread that does nothing
  if others.any (fun (_, ops) => ops.any fun o => !(o == "flush" || (collectorAlone && (o.startsWith "pgc:" || o.startsWith "igc:")))) then none else
  let pri := spec.map fun (g, v) => (g, v)
  let idx := (List.range spec.length).zip spec |>.map fun (i, (g, _)) => (g, i)
  some { s := { imm := imm, idx := idx, pri := pri,
                threads := model.map fun (_, ops) => { prog := ops.filterMap concOfOp } },
         names := model.map (·.1) }

def concEvent (c : CSim) (ev : String) : CSim :=
  let tidx (t : String) : Option Nat := c.names.findIdx? (· == t)
  match ev.splitOn ":" with
  | [t, "go", pt] =>
    if pt.startsWith "op" ∧ pt.endsWith ".begin" then
      let n := ((pt.drop 2).toString.splitOn ".").headD "" |>.toNat?.getD 0
      { c with cur := (t, n) :: c.cur.filter (·.1 ≠ t) }
    else c
  | [t, "ret", n, res] =>
    match tidx t with
    | none => c
    | some i =>
      let n := n.toNat?.getD 0
      let th := (c.s.threads[i]?).getD {}
      -- finish the section that ends with the return
      let (s1, bad1) :=
        if th.out.length > n then (c.s, [])
        else if concEndsAtReturn th.pc then ((Conc.step c.s i).getD c.s, [])
        else (c.s, [s!"thread {t} call {n} returned [{res}] while the model is at {repr th.pc}"])
      let th1 := (s1.threads[i]?).getD {}
      let bad2 := match th1.out[n]? with
        | some r => if concResStr r = res then [] else [s!"thread {t} call {n}: model=[{concResStr r}] impl=[{res}]"]
        | none => if bad1.isEmpty then [s!"thread {t} call {n} returned [{res}] but the model's call has not returned ({repr th1.pc})"] else []
      { c with s := s1, bad := c.bad ++ bad1 ++ bad2, steps := c.steps + 1,
               predictedErr := c.predictedErr || th1.out[n]? == some Conc.Res.err }
  | _ =>
    match ev.splitOn "@" with
    | [t, pt] =>
      match tidx t with
      | none => c
      | some i =>
        let th := (c.s.threads[i]?).getD {}
        let curOp := ((c.cur.find? (·.1 = t)).map (·.2)).getD 0
        if th.out.length = curOp ∧ concCompletes th.pc pt then
          let lost := match th.pc with
            | .putStored k _ none _ => (Conc.lookup c.s.idx k).isSome
            | _ => false
          { c with s := (Conc.step c.s i).getD c.s, steps := c.steps + 1, predictedLost := c.predictedLost || lost }
        else c
    | _ => c

/-! ### replay of the real schedule on the back-pressure model Sth/Model/Rate.lean (C12)

Every park of a writer or flusher at a hook point of flushTick / Flush is one step of the model; the two environment inputs
(`inRate > flushRate`, `OutstandingWork() > 0`) are taken from the branch the real code took. Compared: a writer is released
in the real run exactly when its `wait` step is enabled in the model, and the writers parked for good at the end are the
writers whose notice the model has not closed. -/

structure RSim where
  s : Rate.State := {}
  writers : List String := []
  flushers : List String := []      -- index 0 = the store's flusher goroutine
  bad : List String := []
  steps : Nat := 0
deriving Repr

def rateStep (c : RSim) (st : Rate.Step) (what : String) : RSim :=
  match Rate.step c.s st with
  | some s' => { c with s := s', steps := c.steps + 1 }
  | none => { c with bad := c.bad ++ [what] }

def rateEvent (c : RSim) (ev : String) : RSim :=
  let widx (t : String) : Option Nat := c.writers.findIdx? (· == t)
  let fidx (t : String) : Option Nat := c.flushers.findIdx? (· == t)
  match ev.splitOn ":" with
  | [t, "go", pt] =>
    if pt.startsWith "op" ∧ pt.endsWith ".begin" then
      match widx t with
      | some i => { c with s := Rate.setW c.s i .idle }
      | none => c
    else c
  | [t, "ret", _, _] =>
    match widx t with
    | some i =>
      (match c.s.writers[i]? with
       | some .decide => rateStep c (.w i false) s!"writer {t}: return from decide"
       | some (.wait _) => { c with bad := c.bad ++ [s!"writer {t} returned while the model has it waiting"] }
       | _ => c)
    | none => c
  | _ =>
    match ev.splitOn "@" with
    | [t, pt] =>
      match widx t with
      | some i =>
        let pc := (c.s.writers[i]?).getD .done
        if pt == "store.put.primary_put_done" || pt == "store.remove.index_done" then
          (if pc == .idle then rateStep c (.w i false) s!"writer {t}: write" else c)
        else if pt == "store.flushtick.measured" then
          let c1 := if pc == .idle then rateStep c (.w i false) s!"writer {t}: write" else c
          rateStep c1 (.w i false) s!"writer {t}: measure"
        else if pt == "store.flushtick.decided" then rateStep c (.w i true) s!"writer {t}: decide"
        else if pt == "store.flushtick.registered" then rateStep c (.w i false) s!"writer {t}: register"
        else if pt == "store.flushtick.waiting" then rateStep c (.w i false) s!"writer {t}: signal"
        else if pt == "store.flushtick.released" then
          -- the store's own flusher runs unscheduled: its close of the notice lies between its parks `committed` and `notified`
          -- (or `stamped` and `nowork`), and the released writer may be logged before the flusher's next hook point is
          let enabled := match pc with | .wait ch => c.s.closed.contains ch | _ => false
          let c1 := if enabled then c else
            match (List.range c.s.flushers.length).find? (fun j => c.s.flushers[j]? == some Rate.FPc.finish) with
            | some j => rateStep c (.f j) s!"flusher {j}: finish (reordered)"
            | none =>
              match (List.range c.s.flushers.length).find? (fun j => c.s.flushers[j]? == some Rate.FPc.stamp) with
              | some j =>
                let c2 := rateStep c (.f j) s!"flusher {j}: to check (reordered)"
                rateStep { c2 with s := { c2.s with work := false } } (.f j) s!"flusher {j}: no work (reordered)"
              | none => c
          rateStep c1 (.w i false) s!"writer {t} was released although the model's notice is still open"
        else c
      | none =>
        match fidx t with
        | some j =>
          let pc := (c.s.flushers[j]?).getD .idle
          if pt == "store.flush.stamped" then
            (if pc == .idle then rateStep { c with s := { c.s with flushNow := c.s.flushNow || j == 0 } } (.f j) s!"flusher {t}: stamp" else c)
          else if pt == "store.flush.nowork" then
            if pc == .idle then c else     -- already taken when a released writer was logged first
            let c1 := rateStep c (.f j) s!"flusher {t}: to check"
            rateStep { c1 with s := { c1.s with work := false } } (.f j) s!"flusher {t}: no work"
          else if pt == "store.flush.checked" then
            let c1 := rateStep c (.f j) s!"flusher {t}: to check"
            rateStep { c1 with s := { c1.s with work := true } } (.f j) s!"flusher {t}: work"
          else if pt == "store.flush.committed" then rateStep c (.f j) s!"flusher {t}: commit"
          else if pt == "store.flush.notified" then (if pc == .idle then c else rateStep c (.f j) s!"flusher {t}: finish")
          else c
        | none => c
    | _ => c

/-! ### replay of the real schedule on the pool-swap model Sth/Model/ConcPools.lean

Per bucket the abstract value is the association key ↦ value of the bucket. Every store call starts with Index.Get (a `read` of
the key's bucket: info section at [index.get.info_read], the file read before the thread's next event); a Put that got as far as
[store.put.primary_put_done] performs one index mutator section before its next park, a Remove after
[store.remove.primary_read_done] likewise; Index.Flush is the four sections at [index.flush.swapped], [index.flush.written],
[index.flush.buckets_updated] and the flusher's next event. Compared: what every Get/Has/GetSize returned with the bucket view the
model's read returned, and the contents read back after the schedule with the final views. -/

def opKey (op : String) : String := ((op.splitOn ":").drop 1).headD ""
/-- keys are identified by the hex of their digest -/
def pkey (khex : String) : String := toHex (digestOf khex)

abbrev PU := String × Option String
abbrev PV := List (String × String)

def poolsAp : PU → Option PV → Option PV
  | (k, some v), old => some ((k, v) :: (old.getD []).filter (·.1 ≠ k))
  | (k, none), old => match old with
    | some l => if l.any (·.1 = k) then some (l.filter (·.1 ≠ k)) else none
    | none => none

structure PSim where
  s : ConcPools.State PU PV := {}
  names : List String := []
  curOp : List (String × String) := []           -- thread ↦ the call it is in
  pendIdx : List (String × PU) := []             -- thread ↦ index mutation it is about to perform
  reading : List String := []                     -- threads between the info section and the file read
  flushing : List String := []                    -- flushers past [index.flush.buckets_updated], release pending
  lastGot : List (String × Option PV) := []
  bad : List String := []
  steps : Nat := 0
deriving Repr

def poolsStepWith (bits : Nat) (c : PSim) (t : String) (op : ConcPools.Op PU) (what : String) : PSim :=
  let _ := bits
  match c.names.findIdx? (· == t) with
  | none => c
  | some i =>
    let th := (c.s.threads[i]?).getD {}
    let s1 := ConcPools.setThread c.s i { th with prog := [op] }
    match ConcPools.step poolsAp s1 i with
    | some s' => { c with s := s', steps := c.steps + 1 }
    | none => { c with bad := c.bad ++ [what ++ ": the model's section is blocked or not enabled"] }

def poolsAdvance (c : PSim) (t : String) (what : String) : PSim :=
  match c.names.findIdx? (· == t) with
  | none => c
  | some i =>
    match ConcPools.step poolsAp c.s i with
    | some s' => { c with s := s', steps := c.steps + 1 }
    | none => { c with bad := c.bad ++ [what ++ ": the model's section is blocked or not enabled"] }

def poolsEvent (bits : Nat) (c : PSim) (ev : String) : PSim :=
  let bucketOf := fun (k : String) => (bucketOfKey bits (digestOf k)).getD 0
  -- whatever the event is: a thread that moved has finished the file read of its Index.Get, and a flusher its release
  let who : String := match ev.splitOn "@" with
    | [t, _] => t
    | _ => (ev.splitOn ":").headD ""
  let c := if c.reading.contains who then
      let c1 := poolsAdvance c who s!"{who}: file read of Index.Get"
      let got : Option PV := match c1.names.findIdx? (· == who) with
        | some i => match ((c1.s.threads[i]?).getD {}).out.getLast? with
          | some (.got v) => v
          | _ => none
        | none => none
      { c1 with reading := c1.reading.filter (· ≠ who), lastGot := (who, got) :: c1.lastGot.filter (·.1 ≠ who) }
    else c
  let c := if c.flushing.contains who then
      { poolsAdvance c who s!"{who}: release of flushLock" with flushing := c.flushing.filter (· ≠ who) }
    else c
  match ev.splitOn ":" with
  | [t, "go", pt] =>
    if pt.startsWith "op" ∧ pt.endsWith ".begin" then c else
    let _ := t
    c
  | [t, "ret", _, res] =>
    -- a lookup call returns what the bucket view held for its key
    let op := ((c.curOp.find? (·.1 = t)).map (·.2)).getD ""
    match op.splitOn ":" with
    | [kind, k] =>
      if kind = "get" ∨ kind = "has" ∨ kind = "size" then
        let v := (((c.lastGot.find? (·.1 = t)).map (·.2)).getD none).bind fun l => (l.find? (·.1 = pkey k)).map (·.2)
        let exp := match kind, v with
          | "get", some x => "v" ++ x
          | "get", none => "absent"
          | "has", some _ => "true"
          | "has", none => "false"
          | "size", some x => s!"n{x.length / 2}"
          | _, _ => "absent"
        if exp = res then c else { c with bad := c.bad ++ [s!"thread {t} {op}: model view gives [{exp}], the call returned [{res}]"] }
      else c
    | _ => c
  | _ =>
    match ev.splitOn "@" with
    | [t, pt] =>
      if pt.startsWith "op" ∧ pt.endsWith ".begin" then c else
      if pt == "index.get.info_read" then
        let op := ((c.curOp.find? (·.1 = t)).map (·.2)).getD ""
        let k := opKey op
        let c1 := poolsStepWith bits c t (.read (bucketOf k)) s!"{t}: info section of Index.Get"
        { c1 with reading := t :: c1.reading }
      else if pt == "store.put.primary_put_done" then
        let op := ((c.curOp.find? (·.1 = t)).map (·.2)).getD ""
        match op.splitOn ":" with
        | ["put", k, v] => { c with pendIdx := (t, (k, some v)) :: c.pendIdx.filter (·.1 ≠ t) }
        | ["put", k] => { c with pendIdx := (t, (k, some "")) :: c.pendIdx.filter (·.1 ≠ t) }
        | _ => c
      else if pt == "store.remove.primary_read_done" then
        let op := ((c.curOp.find? (·.1 = t)).map (·.2)).getD ""
        { c with pendIdx := (t, (opKey op, none)) :: c.pendIdx.filter (·.1 ≠ t) }
      else if pt == "store.put.index_done" ∨ pt == "store.put.done" ∨ pt == "store.remove.index_done" then
        match c.pendIdx.find? (·.1 = t) with
        | some (_, u) =>
          let c1 := poolsStepWith bits c t (.upd (bucketOf u.1) (pkey u.1, u.2)) s!"{t}: index mutator section"
          { c1 with pendIdx := c1.pendIdx.filter (·.1 ≠ t) }
        | none => c
      else if pt == "index.flush.swapped" then poolsStepWith bits c t .flush s!"{t}: swap section of Index.Flush"
      else if pt == "index.flush.written" then poolsAdvance c t s!"{t}: append section of Index.Flush"
      else if pt == "index.flush.buckets_updated" then
        { poolsAdvance c t s!"{t}: publish section of Index.Flush" with flushing := t :: c.flushing }
      else c
    | _ => c

def poolsTrack (c : PSim) (programs : List (String × List String)) (ev : String) : PSim :=
  match ev.splitOn ":" with
  | [t, "go", pt] =>
    if pt.startsWith "op" ∧ pt.endsWith ".begin" then
      let n := ((pt.drop 2).toString.splitOn ".").headD "" |>.toNat?.getD 0
      let op := (((programs.find? (·.1 = t)).map (·.2)).getD []).getD n ""
      { c with curOp := (t, op) :: c.curOp.filter (·.1 ≠ t) }
    else c
  | _ => c

/-! ### replay of the real schedule on the freelist hand-over model Sth/Model/FreeConc.lean

Events of the model are the sections the real threads completed: a freelist Put follows the release of a Put from
[store.put.index_done] (the update path) and the release of a Remove from [store.remove.index_done] when the call goes on to return
true; Flush's two sections end at [freelist.flush.swapped] / [freelist.flush.written]; ToGC's at [freelist.togc.closed] / [.renamed] /
[.reopened]; the collector's read of the hand-over file ends at [primary.gc.fl.applied], its removal at [primary.gc.fl.removed]. The
state the schedule starts from (entries in the pool, the file and the hand-over file, reported by the harness) is built by a prefix of
model events. Compared: every event is ENABLED in the model (lock free, pool empty or not, file present), and the three counts after
the schedule. `C13_handover_replay_exactly_once` then speaks about this very run. -/
def freePrefix (c prep : Nat) (p f g : Int) : List (Nat × String) :=
  let puts (n : Int) (base : Nat) : List (Nat × String) := (List.range n.toNat).map fun i => (prep, s!"put:{base + i}")
  let fl (n : Int) : List (Nat × String) := if n > 0 then [(prep, "flush.swapped"), (prep, "flush.written")] else []
  (if g ≥ 0 then puts g 1000000 ++ fl g ++ [(c, "togc.closed"), (c, "togc.renamed"), (c, "togc.reopened")] else []) ++
  puts f 2000000 ++ fl f ++ puts p 3000000

def freeEvents (names : List String) (evs : List String) : List (Nat × String) :=
  let idx (t : String) : Nat := (names.findIdx? (· == t)).getD names.length
  let n := evs.length
  let arr := evs.toArray
  (List.range n).filterMap fun j =>
    let ev := arr[j]!
    match ev.splitOn ":" with
    | [t, "go", pt] =>
      if pt == "store.put.index_done" then some (idx t, s!"put:{j}")
      else if pt == "store.remove.index_done" then
        -- the Remove records its location iff Index.Remove removed the entry, which is what the call returns
        let later := (evs.drop (j + 1)).find? fun e => match e.splitOn ":" with | [t', "ret", _, _] => t' == t | _ => false
        match later.map (·.splitOn ":") with
        | some [_, _, _, "true"] => some (idx t, s!"put:{j}")
        | _ => none
      else none
    | _ =>
      match ev.splitOn "@" with
      | [t, "freelist.flush.swapped"] => some (idx t, "flush.swapped")
      | [t, "freelist.flush.written"] => some (idx t, "flush.written")
      | [t, "freelist.togc.closed"] => some (idx t, "togc.closed")
      | [t, "freelist.togc.renamed"] => some (idx t, "togc.renamed")
      | [t, "freelist.togc.reopened"] => some (idx t, "togc.reopened")
      | [t, "primary.gc.fl.applied"] => some (idx t, "apply")
      | [t, "primary.gc.fl.removed"] => some (idx t, "remove")
      | _ => none

def parts (s : String) : Option (Int × Int × Int) :=
  match (s.splitOn ":").map String.toInt? with
  | [some p, some f, some g] => some (p, f, g)
  | _ => none

def isMutator (op : String) : Bool := op.startsWith "put:" || op.startsWith "rm:"
def keyOfOp (op : String) : String := ((op.splitOn ":").drop 1).headD ""
def isGC (op : String) : Bool := op.startsWith "pgc" || op.startsWith "igc"

/-- exhaustive search for a linearization; returns the final states of all linearizations (deduplicated, capped) -/
partial def linearize (imm : Bool) (m : List (Bytes × Bytes)) (rem : List HOp) (fuel : Nat) : List (List (Bytes × Bytes)) :=
  if fuel = 0 then [] else
  if rem.all (fun o => o.res = "") then [m]       -- only pending ops left: they need not take effect
  else
    let minimal := rem.filter fun o => rem.all fun o' =>
      match o'.ret with
      | some r => !(r < o.inv) || (o'.thread == o.thread && o'.idx == o.idx)
      | none => true
    minimal.foldl (fun acc o =>
      if acc.length ≥ 8 then acc else
      let (m', exp) := specOp imm m o.op
      let rest := rem.filter fun o' => !(o'.thread == o.thread && o'.idx == o.idx)
      let viaTake := if o.res = "" ∨ o.res = exp then linearize imm m' rest (fuel - 1) else []
      -- a pending op may also never take effect
      let viaSkip := if o.res = "" then linearize imm m rest (fuel - 1) else []
      (acc ++ viaTake ++ viaSkip).eraseDups) []

def parseEvents (programs : List (String × List String)) (evs : List String) : List HOp :=
  let base : List HOp := programs.flatMap fun (t, ops) => (List.range ops.length).map fun i =>
    { thread := t, idx := i, op := ops.getD i "", inv := 1000000 }
  (List.range evs.length).zip evs |>.foldl (fun (h : List HOp) (n, ev) =>
    match ev.splitOn ":" with
    | [t, "go", pt] =>
      if pt.startsWith "op" ∧ pt.endsWith ".begin" then
        let i := ((pt.drop 2).toString.splitOn ".").headD "" |>.toNat?.getD 0
        h.map fun o => if o.thread = t ∧ o.idx = i then { o with inv := n } else o
      else h
    | [t, "ret", i, res] =>
      let i := i.toNat?.getD 0
      h.map fun o => if o.thread = t ∧ o.idx = i then { o with ret := some n, res := res } else o
    | _ => h) base

def overlap (a b : HOp) : Bool :=
  let aEnd := a.ret.getD 1000000
  let bEnd := b.ret.getD 1000000
  a.inv ≤ bEnd && b.inv ≤ aEnd

def step (st : St) (l : Line) : St × List Msg :=
  match l.op with
  | "sopen" => ({ st with imm := l.args.get "imm" = "1", profile := if l.args.has "rate" then "c12" else "", bits := l.args.nat "bits" },
                 if l.res = "ok" then [] else [.corr s!"sopen: {l.res}"])
  | "sprep" =>
    let (m', exp) := specOp st.imm st.spec (l.args.get "op")
    ({ st with spec := m' }, if exp = l.res then [] else [Msg.prop s!"sequential preparation: {l.args.get "op"} returned [{l.res}], map says [{exp}]"])
  | "sthread" => ({ st with programs := st.programs ++ [(l.args.get "name", (l.args.get "ops").splitOn ",")] }, [])
  | "srun" =>
    let ra := resArgs l.res
    let evs := (ra.get "events").splitOn ","
    let hist := parseEvents st.programs evs
    let started := hist.filter (·.inv < 1000000)
    -- (1) every call returns without error (key-exists in immutable mode is a specified result)
    let errs := started.filter fun o => o.res = "err" ∨ o.res = "panic"
    -- recognisers of the known findings: decidable predicates on the history
    let mutOverlap := started.any fun a => started.any fun b =>
      !(a.thread == b.thread && a.idx == b.idx) && isMutator a.op && isMutator b.op && keyOfOp a.op == keyOfOp b.op && overlap a b
    let gcEvents := (List.range evs.length).zip evs |>.filter fun (_, ev) =>
      ["index.gc.marked", "index.gc.merged", "index.gc.truncated", "index.gc.unlinked", "index.gc.free.truncated", "index.gc.free.unlinked",
       "primary.gc.fl.marked", "primary.gc.merged", "primary.gc.truncated", "primary.gc.unlinked"].any fun p => ev.endsWith ("@" ++ p)
    -- (D18 is about a CALLER holding an index position or a primary location between its lookup and its read: Put, Get, Has,
    -- GetSize, Remove. A Flush holds neither; what protects the records it has written but not yet published is flushLock.)
    let gcOverlap := started.any fun o => (concOfOp o.op).isSome && gcEvents.any fun (n, _) => o.inv ≤ n && n ≤ o.ret.getD 1000000
    -- The map is a product of independent registers, one per key, and linearizability is local (Herlihy-Wing): the history is
    -- linearizable iff its restriction to every key is. Verdicts and recognisers are therefore evaluated PER KEY: overlapping
    -- mutators of key k (D17) can excuse a failure on k and on the keys that share k's BUCKET: the late Index.Update / Index.Remove
    -- of the losing mutator acts on a key that is absent by then, and at the record-list level a lookup of an absent key can hit
    -- a neighbour whose stored prefix matches (C08_absent) - the neighbour's entry is removed or re-pointed (seen on the unchanged
    -- tree in a thorough sweep: two overlapping Removes of K1 deleted the entry of K2, just inserted next to it). Keys in other
    -- buckets cannot be touched. D18 (a collector invalidates a held position) stays history-wide.
    let dataKeys := (started.filter (fun o => (concOfOp o.op).isSome)).map (fun o => keyOfOp o.op) |>.eraseDups
    let overlapKeys := dataKeys.filter fun k => started.any fun a => started.any fun b =>
      !(a.thread == b.thread && a.idx == b.idx) && isMutator a.op && isMutator b.op && keyOfOp a.op == k && keyOfOp b.op == k && overlap a b
    let bucketOf := fun (k : String) => bucketOfKey st.bits (digestOf k)
    -- the section-level model run on the same schedule (see (4) below)
    let concSim : Option CSim :=
      if l.args.get "locks" = "1" ∨ st.profile = "c12" ∨ evs.any (fun e => (e.splitOn ":blocked:").length > 1) then none else
      (concInit st.imm st.spec st.programs (evs.any (·.startsWith "window:open"))).map fun c0 => evs.foldl concEvent c0
    -- D17 is WHAT THE CODE DOES when mutators of one key overlap, and the section model reproduces it (Update error, lost Put,
    -- double free, the loser's Remove reporting false) - exactly, as long as the late Update / Remove cannot hit a neighbour,
    -- i.e. when the contended key is ALONE in its bucket. There the finding excuses only what the model predicts: if the real
    -- calls returned something else (say, two overlapping Removes both reporting true), that is a different violation.
    let alone := fun (k : String) =>
      !(dataKeys.any fun k' => k' != k && bucketOf k' == bucketOf k) &&
      !(st.spec.any fun (g, _) => g != digestOf k && bucketOfKey st.bits g == bucketOf k)
    let soloOverlap := !overlapKeys.isEmpty && overlapKeys.all alone
    let d17Unpredicted := soloOverlap && (match concSim with | some c => !c.bad.isEmpty | none => false)
    let mutOverlap := mutOverlap && !d17Unpredicted
    let d17Keys := if d17Unpredicted then [] else dataKeys.filter fun k => overlapKeys.any fun k' => bucketOf k' == bucketOf k
    let knownFor := fun (k : String) => if d17Keys.contains k then " [known:D17 overlapping-mutators-of-one-key]"
                 else if gcOverlap then " [known:D18 collector-invalidates-held-position]" else ""
    let known := if gcOverlap then " [known:D18 collector-invalidates-held-position]" else if mutOverlap then " [known:D17 overlapping-mutators-of-one-key]" else ""
    let pErr := errs.map fun o => Msg.prop s!"call {o.op} of thread {o.thread} returned {o.res}{if (concOfOp o.op).isSome then knownFor (keyOfOp o.op) else known}"
    -- (2) linearizability (ops that returned an error are treated as not having taken effect)
    let forLin := started.map fun o => if o.res = "err" ∨ o.res = "panic" then { o with res := "" } else o
    let perKey := dataKeys.map fun k =>
      let hk := forLin.filter fun o => (concOfOp o.op).isSome && keyOfOp o.op == k
      (k, hk, linearize st.imm st.spec hk 200000)
    let finals := if perKey.all (fun x => !x.2.2.isEmpty) then [st.spec] else []
    let keyFinals := perKey.map fun (k, _, fs) => (k, (fs.map fun m => match sget m (digestOf k) with | some v => "v" ++ toHex v | none => "absent").eraseDups)
    -- calls without a key (flush, collectors, sizes ...) must simply return ok
    let pOther := (forLin.filter fun o => (concOfOp o.op).isNone ∧ o.res ≠ "" ∧ o.res ≠ "ok" ∧ o.res ≠ "na").map fun o =>
      Msg.prop s!"call {o.op} of thread {o.thread} returned {o.res}{known}"
    let pLin := pOther ++ perKey.filterMap fun (k, hk, fs) => if !fs.isEmpty then none else
        some (Msg.prop (s!"history of key {k} is not linearizable with respect to the map: " ++
          "; ".intercalate (hk.map fun o => s!"{o.thread}.{o.idx} {o.op} [{o.inv},{match o.ret with | some r => toString r | none => "-"}] -> {o.res}") ++ knownFor k))
    -- (3) rate-limited writers are released by a flush that completes after their wait began
    let stuck := (ra.get "stuck").splitOn ";" |>.filter (· ≠ "")
    let waiting := stuck.filter fun s => s.endsWith "/store.flushtick.waiting"
    let pWait := waiting.filterMap fun s =>
      let t := (s.splitOn "/").headD ""
      let began := ((List.range evs.length).zip evs).find? fun (_, ev) => ev = t ++ ":go:store.flushtick.waiting"
      match began with
      | none => none
      | some (n0, _) =>
        let flushDone := ((List.range evs.length).zip evs).any fun (n, ev) =>
          n > n0 && (ev.endsWith "@store.flush.notified" || ev.endsWith "@store.flush.nowork")
        if flushDone then some (Msg.prop s!"writer {t} is still waiting for the flush notice although a flush completed after its wait began (lost wake-up)")
        else some (Msg.prop s!"writer {t} waits for a flush notice and no flush ran after its wait began (nothing will release it)")
    let otherStuck := stuck.filter fun s => !s.endsWith "/store.flushtick.waiting"
    let pStuck := otherStuck.map fun s => Msg.prop s!"thread never finished: {s}{known}"
    -- (4) the section-level model run on the same schedule returns what the real calls returned (named hook points only:
    -- with lock acquisitions as extra scheduling points the position of a section inside its stretch is not determined)
    let (concMsgs, concFinal) : List Msg × Option Conc.State :=
      -- a thread that blocked (on a lock held by a parked thread) later runs truly in parallel with the scheduled one: the log
      -- order no longer determines the order of the sections
      match concSim with
      | none => ([], none)
      | some c =>
        -- outside the model's premise (overlapping mutators of one key) its exact-key index does not show the damage a late
        -- Update / Remove can do to a neighbour with a matching stored prefix: a difference there is a flag, not a disagreement
        -- (unless the contended keys are alone in their buckets: no neighbour, the model is exact)
        ((c.bad.take 3).map (fun b => if overlapKeys.isEmpty ∨ soloOverlap then Msg.corr s!"section model: {b}" else Msg.flag "conc-model-differs-under-d17") ++
        (if soloOverlap ∧ c.bad.isEmpty ∧ c.steps > 0 then [Msg.flag "conc-model-exact-under-d17"] else []) ++
        (if c.bad.isEmpty ∧ c.steps > 0 then [Msg.flag "conc-model-agrees"] else []) ++
        (if c.bad.isEmpty ∧ c.steps > 0 ∧ evs.any (·.startsWith "window:open") then [Msg.flag "conc-model-agrees-around-collector"] else []) ++
        (if c.predictedErr then [Msg.flag "conc-model-predicts-update-error"] else []) ++
        (if c.predictedLost then [Msg.flag "conc-model-predicts-lost-put"] else []),
        if c.bad.isEmpty ∧ stuck.isEmpty ∧ c.s.threads.all (fun t => t.prog.isEmpty) then some c.s else none)
    -- (5) C12: the back-pressure model run on the same schedule blocks and releases the same writers
    -- The store's own flusher goroutine is not under the scheduler: when one of its hook points is logged while a scheduled thread
    -- is between a release and its next park, the two ran in parallel and the log does not order their sections (seen once in
    -- 20 000 schedules: a writer registered on the notice the flusher was about to close, and its park was logged after the
    -- flusher's `notified`). The tie is evaluated only on schedules where the flusher ran while every scheduled thread was parked.
    let flusherParallel : Bool := (evs.foldl (fun (acc : Option String × Bool) ev =>
        let (running, bad) := acc
        match ev.splitOn ":" with
        | [t, "go", _] => (some t, bad)
        | _ =>
          if ev.startsWith "flusher@" then (running, bad || running.isSome)
          else match ev.splitOn "@" with
            | [t, _] => (if running == some t then none else running, bad)
            | _ => match ev.splitOn ":" with
              | [t, "ret", _, _] => (if running == some t then none else running, bad)
              | [t, "done"] => (if running == some t then none else running, bad)
              | _ => (running, bad)) (none, false)).2
    let rateMsgs : List Msg :=
      if st.profile ≠ "c12" ∨ l.args.get "locks" = "1" ∨ flusherParallel ∨
         evs.any (fun e => match e.splitOn ":blocked:" with | [_, pt] => pt ≠ "store.flushtick.waiting" | _ => false) then [] else
      let ws := (st.programs.filter fun (_, ops) => ops.all fun o => (concOfOp o).isSome).map (·.1)
      let fs := "flusher" :: (st.programs.filter fun (_, ops) => ops.all (· == "flush")).map (·.1)
      let c0 : RSim := { s := Rate.init ws.length (fs.length - 1), writers := ws, flushers := fs }
      let c := evs.foldl rateEvent c0
      let realWaiting := waiting.map fun s => (s.splitOn "/").headD ""
      let modelWaiting := ((List.range ws.length).zip ws).filterMap fun (i, w) => match c.s.writers[i]? with
        | some (.wait ch) => if c.s.closed.contains ch then none else some w
        | _ => none
      let endBad := (realWaiting.filter (fun w => !modelWaiting.contains w)).map (fun w => s!"writer {w} is parked for good but the model has released it") ++
                    (modelWaiting.filter (fun w => !realWaiting.contains w)).map (fun w => s!"the model keeps writer {w} waiting but it is not parked")
      ((c.bad ++ endBad).take 3).map (fun b => Msg.corr s!"back-pressure model: {b}") ++
      (if c.bad.isEmpty ∧ endBad.isEmpty ∧ c.steps > 0 then [Msg.flag "rate-model-agrees"] else []) ++
      (if c.s.writers.any (fun pc => match pc with | .wait _ => true | _ => false) || !c.s.closed.isEmpty then [Msg.flag "rate-model-waited"] else [])
    -- (6) the pool-swap model run on the same schedule: lookups return the model's bucket views
    let poolsEligible := !(l.args.get "locks" = "1") && st.profile ≠ "c12" && overlapKeys.isEmpty &&
      !(evs.any fun e => (e.splitOn ":blocked:").length > 1) && !(st.programs.any fun (_, ops) => ops.any isGC)
    let (poolsMsgs, poolsFinal) : List Msg × Option (ConcPools.State PU PV) :=
      if !poolsEligible then ([], none) else
      let bucketOfD := fun (g : Bytes) => (bucketOfKey st.bits g).getD 0
      let buckets := (st.spec.map fun (g, _) => bucketOfD g).eraseDups
      -- the prepared contents: which of them the preparation flushed is not known and does not matter for any view; they start
      -- in nextPool, so that the first real swap (which happens iff the real nextPool is non-empty) is enabled in the model
      let initNext : List (ConcPools.Bucket × PV) := buckets.map fun b =>
        (b, (st.spec.filter fun (g, _) => bucketOfD g == b).map fun (g, v) => (toHex g, toHex v))
      let c0 : PSim := { s := { next := initNext, threads := st.programs.map fun _ => {} }, names := st.programs.map (·.1) }
      let c := evs.foldl (fun c ev => poolsEvent st.bits (poolsTrack c st.programs ev) ev) c0
      ((c.bad.take 3).map (fun b => Msg.corr s!"pool-swap model: {b}") ++
        (if c.bad.isEmpty ∧ c.steps > 0 then [Msg.flag "pools-model-agrees"] else []) ++
        (if c.s.file.length > 0 then [Msg.flag "pools-model-flushed"] else []),
       if c.bad.isEmpty then some c.s else none)
    let _ := poolsFinal
    -- (7) the freelist hand-over model run on the same schedule
    let freeMsgs : List Msg :=
      let names := st.programs.map (·.1)
      let eligible := !(l.args.get "locks" = "1") && (ra.get "stuck") == "" &&
        !(evs.any fun e => (e.splitOn ":blocked:").length > 1 || (e.splitOn ":free:").length > 1 || e.startsWith "flusher@" ||
          e.endsWith "@primary.gc.reloc.put")
      match eligible, parts (ra.get "fl0"), parts (ra.get "fl1") with
      | true, some (p0, f0, g0), some (p1, f1, g1) =>
        let coll := (names.findIdx? (· == "g")).getD (names.length + 1)
        let fes := freeEvents names evs
        if fes.isEmpty then [] else
        match FreeConc.replay (freePrefix coll (names.length + 2) p0 f0 g0 ++ fes) with
        | none =>
          -- find the first event the model refuses
          let pre := freePrefix coll (names.length + 2) p0 f0 g0
          let k := ((List.range (fes.length + 1)).find? fun k => (FreeConc.replay (pre ++ fes.take k)).isNone).getD 0
          [Msg.corr s!"freelist hand-over model: event {k} of {fes.length} ({(fes.getD (k - 1) (0, "?")).2} by thread {(fes.getD (k - 1) (0, "?")).1}) is not enabled in the model (start {ra.get "fl0"})"]
        | some s =>
          let mp : Int := s.pool.length
          let mf : Int := match s.file with | some f => (f.length : Int) | none => -1
          let mg : Int := match s.gc with | some g => (g.length : Int) | none => -1
          if (mp, mf, mg) = (p1, f1, g1) ∧ s.flushLock.isNone ∧ s.dropped.isEmpty then
            [Msg.flag "freelist-model-agrees"] ++ (if fes.any (·.2 == "togc.renamed") then [Msg.flag "freelist-model-handover"] else [])
          else [Msg.corr s!"freelist hand-over model: after the schedule the model has pool:file:gc = {mp}:{mf}:{mg}, the store {ra.get "fl1"}"]
      | _, _, _ => []
    let flags := concMsgs ++ rateMsgs ++ poolsMsgs ++ freeMsgs ++ [Msg.flag "schedule"] ++
      (if evs.any (·.startsWith "window:open") then [Msg.flag "collector-window"] else []) ++
      (if evs.any (·.startsWith "window:open:f@") then [Msg.flag "flush-window"] else []) ++
      (if evs.any (fun e => (e.splitOn ":blocked:").length > 1) then [Msg.flag "thread-blocked"] else []) ++
      (if evs.any (fun e => e.endsWith "@primary.gc.reloc.put") then [Msg.flag "relocation"] else []) ++
      (if started.any (fun a => started.any fun b => a.thread ≠ b.thread && overlap a b) then [Msg.flag "overlapping-calls"] else []) ++
      (if mutOverlap then [Msg.flag "overlapping-mutators"] else []) ++
      (if gcOverlap then [Msg.flag "gc-overlaps-call"] else []) ++
      (if evs.any (·.endsWith "@store.flushtick.waiting") then [Msg.flag "writer-waited"] else []) ++
      (if evs.any (·.endsWith "@store.flushtick.released") then [Msg.flag "writer-released"] else [])
    -- D32 recogniser: a mutator call returned between the collector's copy of a record ([primary.gc.reloc.put]) and its re-pointing
    -- ([primary.gc.reloc.index_updated])
    let relocWindowMutator : Bool := (evs.foldl (fun (acc : Bool × Bool) ev =>
        let (inReloc, hit) := acc
        if ev.endsWith "@primary.gc.reloc.put" then (true, hit)
        else if ev.endsWith "@primary.gc.reloc.index_updated" then (false, hit)
        else match ev.splitOn ":" with
          | [t, "ret", i, res] =>
            let op := (((st.programs.find? (·.1 = t)).map (·.2)).getD []).getD (i.toNat?.getD 0) ""
            (inReloc, hit || (inReloc && isMutator op && (res == "ok" || res == "true")))
          | _ => (inReloc, hit)) (false, false)).2
    ({ st with lastHist := hist, finalSpecs := finals, concFinal := concFinal, lastGcOverlap := gcOverlap, keyFinals := keyFinals, d17Keys := d17Keys,
               relocWindowMutator := relocWindowMutator, d17Off := d17Unpredicted },
      pErr ++ pLin ++ pWait ++ pStuck ++ flags)
  | "sfinal" =>
    let ra := resArgs l.res
    let keys := (l.args.get "k").splitOn ","
    let reads := (ra.get "reads").splitOn ","
    let head := (l.res.splitOn " ").headD ""
    -- per key: the value read after quiescence is the final value of some linearization of the calls on that key (a key no
    -- call touched keeps its prepared value); keys whose history was not linearizable were reported by the schedule already
    let badKeys := (keys.zip reads).filter fun (k, r) =>
      match st.keyFinals.find? (·.1 = k) with
      | some (_, fs) => !fs.isEmpty && !fs.contains r
      | none => (match sget st.spec (digestOf k) with | some v => "v" ++ toHex v | none => "absent") ≠ r
    let okFinal := badKeys.isEmpty
    let hist := st.lastHist.filter (·.inv < 1000000)
    let mutOverlap := !st.d17Off && hist.any fun a => hist.any fun b =>
      !(a.thread == b.thread && a.idx == b.idx) && isMutator a.op && isMutator b.op && keyOfOp a.op == keyOfOp b.op && overlap a b
    -- the same recognisers as for the schedule itself: a key dropped because a collector invalidated a held location (D18b)
    -- shows only in the contents read afterwards
    let known := if mutOverlap then " [known:D17 overlapping-mutators-of-one-key]"
                 else if st.lastGcOverlap then " [known:D18 collector-invalidates-held-position]" else ""
    let knownKey := fun (k : String) => if st.d17Keys.contains k then " [known:D17 overlapping-mutators-of-one-key]"
                 else if st.lastGcOverlap then " [known:D18 collector-invalidates-held-position]" else ""
    -- C13 accounting after quiescence (implementation's own views): every non-deleted primary record that no index entry names
    -- is on the freelist exactly once; nothing current is on it; nothing is on it twice
    let lst := fun (k : String) => ((ra.get k).splitOn ",").filter (· ≠ "")
    let acctMsgs := if !l.args.has "acct" then [] else
      let cur := lst "cur"
      let fl := lst "fl"
      let live := lst "live"
      let orphans := live.filter fun x => !cur.contains x
      (orphans.filter (fun x => !fl.contains x)).map (fun x => Msg.prop s!"location {x} is no longer current, still marked in use, and not on the freelist (lost freelist entry){known}") ++
      -- the same fact as C11 reads it: nothing will ever present this record to the collector, so the file that holds it is never released
      (orphans.filter (fun x => !fl.contains x)).map (fun x => Msg.prop s!"[C11] the superseded record at {x} is marked in use and on no freelist: no number of GC cycles releases its file{known}") ++
      (fl.filter (fun x => cur.contains x)).map (fun x => Msg.prop s!"location {x} is still current and on the freelist{known}") ++
      (if fl.eraseDups.length = fl.length then [] else [Msg.prop (s!"a location is on the freelist twice: {fl.filter (fun x => (fl.filter (· = x)).length > 1) |>.eraseDups}{known}" ++
          (if known = "" ∧ st.relocWindowMutator then " [known:D32 relocation-refused-frees-old-again]" else ""))]) ++
      [Msg.flag "handover-accounting"] ++ (if fl.isEmpty then [] else [Msg.flag "freelist-nonempty"])
    -- the section model's final contents are what the real store holds after quiescence
    let concCmp : List Msg := match st.concFinal with
      | none => []
      | some cs =>
        let exp := keys.map fun k => match Conc.contents cs (digestOf k) with | some v => "v" ++ toHex v | none => "absent"
        if exp = reads then [Msg.flag "conc-model-final-agrees"]
        else if !st.d17Keys.isEmpty then [Msg.flag "conc-model-differs-under-d17"]
        else [Msg.corr s!"section model: final contents model=[{",".intercalate exp}] impl=[{ra.get "reads"}]"]
    (st, concCmp ++ acctMsgs ++ (if head = "ok" then [] else [Msg.prop s!"flush after the schedule failed: {l.res}"]) ++
         (if okFinal then [] else badKeys.map fun (k, r) =>
            Msg.prop s!"key {k} reads [{r}] after all activity stopped; the linearizations of its calls end with {(st.keyFinals.find? (·.1 = k)).map (·.2)}{knownKey k}"))
  | _ => (st, [.corr s!"unknown op {l.op}"])

end Driver.Sched
