/-
Driver for the index-level engine (C08): replays the trace on Sth.IxState, compares every output
and the raw record-list bytes, and evaluates the C08 specification directly on the implementation's
bytes (property oracle).
-/
import Driver.Common
import Sth.Model.IndexLevel

namespace Driver.C08
open Sth Driver

structure St where
  bits : Nat := 24
  s : IxState := {}
  spec : List (Key × Block) := []      -- present keys and the location most recently associated
  fullKeys : List Key := []            -- unstripped key of every primary record (for bucket check)
  bucket : Option Nat := none
deriving Repr

def specGet (m : List (Key × Block)) (k : Key) : Option Block := (m.find? (·.1 = k)).map (·.2)
def specSet (m : List (Key × Block)) (k : Key) (b : Block) : List (Key × Block) :=
  (k, b) :: m.filter (·.1 ≠ k)
def specDel (m : List (Key × Block)) (k : Key) : List (Key × Block) := m.filter (·.1 ≠ k)

def strip (bits : Nat) (k : Key) : Key := k.drop (bits / 8)

def bucketOf (bits : Nat) (k : Key) : Nat := leDec (k.take 4) % (2 ^ bits)

def pairwiseB (r : Key → Key → Bool) : List Key → Bool
  | [] => true
  | x :: xs => xs.all (r x) && pairwiseB r xs

/-- RL invariant evaluated on decoded implementation bytes -/
def rlOracle (st : St) (rl : RecordList) : List String :=
  let ps := rl.map (·.pfx)
  (if pairwiseB (fun a b => decide (klt a b)) ps then [] else ["prefixes-not-sorted"]) ++
  (if pairwiseB (fun a b => decide (apart a b)) ps then [] else ["prefixes-not-prefix-free"]) ++
  (if rl.all (fun e => match st.s.prim[e.blk.off]? with
      | some k => decide (pfx e.pfx k) && !e.pfx.isEmpty
      | none => false) then [] else ["prefix-not-of-own-key"]) ++
  (if (rl.map (·.blk.off)).eraseDups.length = rl.length then [] else ["duplicate-location"]) ++
  (if rl.all (fun e => (specGet st.spec (st.s.prim[e.blk.off]?.getD [])) = some e.blk) then [] else ["entry-not-current-for-its-key"]) ++
  (if st.spec.all (fun (_, b) => rl.any (·.blk = b)) then [] else ["present-key-without-entry"])

def showGet : Option Block → String
  | none => "absent"
  | some b => s!"found off={b.off} size={b.size}"

def step (st : St) (l : Line) : St × List Msg :=
  let (rh, ra) := parseRes l.res
  match l.op with
  | "ixopen" => ({ bits := l.args.nat "bits" }, if rh = "ok" then [] else [.corr s!"open: model=ok impl={l.res}"])
  | "ixput" | "ixupd" =>
    let fk := l.args.bytes "k"
    let k := strip st.bits fk
    let b := bucketOf st.bits fk
    let bucketMsg := match st.bucket with
      | some b0 => if b0 = b then [] else [Msg.corr s!"harness: key not in the trace's bucket"]
      | none => []
    let loc := st.s.nextLoc
    let isPut := l.op = "ixput"
    -- model
    let (s', mres) :=
      if isPut then
        let s1 : IxState := { st.s with prim := st.s.prim ++ [k] }
        match indexPut s1.full st.s.rl k loc with
        | .set rl => ({ s1 with rl := some rl }, "ok")
        | .noop => (s1, "ok")
        | .err => (s1, "err")
      else
        let s1 : IxState := { st.s with prim := st.s.prim ++ [k] }
        match indexUpdate st.s.rl k loc with
        | some rl => ({ s1 with rl := some rl }, "ok")
        | none => (s1, "err")
    let mline := s!"{mres} off={loc.off}"
    let corr := if mline = l.res then [] else [Msg.corr s!"{l.op}: model={mline} impl={l.res}"]
    -- spec
    let present := (specGet st.spec k).isSome
    let spec' := if isPut then (if present then st.spec else specSet st.spec k loc)
                 else specSet st.spec k loc
    let prop := if rh = "ok" then [] else
      (if isPut || present then [Msg.prop s!"{l.op} failed on the implementation: {l.res}"] else [])
    let flags :=
      (if isPut && !present then
        match st.s.rl with
        | some rl => match prevOf rl (findPos rl k) with
          | some p => if pfx p.pfx k then [Msg.flag "prev-is-prefix"] else [Msg.flag "trim-insert"]
          | none => [Msg.flag "trim-insert"]
        | none => [Msg.flag "first-key"]
       else if isPut then [Msg.flag "put-present-noop"] else [Msg.flag "update"])
    let _ := ra
    ({ st with s := s', spec := spec', fullKeys := st.fullKeys ++ [fk], bucket := some b }, bucketMsg ++ corr ++ prop ++ flags)
  | "ixrm" =>
    let k := strip st.bits (l.args.bytes "k")
    let (s', mres) := match indexRemove st.s.rl k with
      | some rl => ({ st.s with rl := some rl }, "true")
      | none => (st.s, "false")
    let corr := if mres = l.res then [] else [Msg.corr s!"ixrm: model={mres} impl={l.res}"]
    let present := (specGet st.spec k).isSome
    let prop := if present && l.res ≠ "true" then [Msg.prop s!"remove of a present key returned {l.res}"] else []
    ({ st with s := s', spec := specDel st.spec k }, corr ++ prop ++ [Msg.flag "remove"])
  | "ixget" =>
    let k := strip st.bits (l.args.bytes "k")
    let m := showGet (st.s.get k)
    let corr := if m = l.res then [] else [Msg.corr s!"ixget: model={m} impl={l.res}"]
    let implBlk : Option Block := if rh = "found" then some ⟨ra.nat "off", ra.nat "size"⟩ else none
    let prop :=
      if rh = "err" then [Msg.prop "index Get returned an error"] else
      match specGet st.spec k with
      | some b => if implBlk = some b then [] else [Msg.prop s!"present key resolves to {l.res}, expected off={b.off}"]
      | none => match implBlk with
        | none => []
        | some b => if st.spec.any (fun (k', b') => k' ≠ k && b' = b) then []
                    else [Msg.prop s!"absent key resolves to a location of no present key: {l.res}"]
    (st, corr ++ prop)
  | "ixflush" => (st, (if l.res = "ok" then [] else [Msg.corr s!"ixflush: impl={l.res}"]) ++ [Msg.flag "flush"])
  | "ixview" =>
    let m := match st.s.rl with
      | none => "nil"
      | some rl => "rl=" ++ toHex (encodeRL rl)
    let corr := if m = l.res then [] else [Msg.corr s!"ixview: model={m} impl={l.res}"]
    let prop :=
      if l.res = "nil" then (if st.spec.isEmpty then [] else [Msg.prop "present keys but bucket has no record list"])
      else if l.res.startsWith "rl=" then
        match fromHex ((l.res.drop 3).toString) with
        | some bytes =>
          let (rl, exact) := decodeRL bytes
          (if exact then [] else [Msg.prop "record list bytes do not parse"]) ++ (rlOracle st rl).map Msg.prop
        | none => [Msg.corr "ixview: bad hex"]
      else [Msg.prop s!"ixview failed: {l.res}"]
    let flags := match st.s.rl with
      | some rl => if rl.length ≥ 2 then [Msg.flag "list>=2"] else []
      | none => []
    (st, corr ++ prop ++ flags)
  | _ => (st, [.corr s!"unknown op {l.op}"])

end Driver.C08
