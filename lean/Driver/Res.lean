/-
Driver for the resource engine (C17): evaluates the Close / failed-open clauses on what the real
process observed (goroutine dump, /proc/self/fd, directory stamps).
-/
import Driver.Common

namespace Driver.Res
open Driver

structure St where
  n : Nat := 0
deriving Repr

def need (ra : Args) (k v : String) (what : String) : List Msg :=
  if ra.get k = v then [] else [Msg.prop s!"{what} ({k}={ra.get k}, expected {v})"]

def step (st : St) (l : Line) : St × List Msg :=
  let ra := resArgs l.res
  match l.op with
  | "rcycle" =>
    let tag := s!"Close (mode={l.args.get "mode"}, cycle parked at {l.args.get "park"}): "
    let p :=
      need ra "open" "ok" (tag ++ "open failed") ++
      need ra "work" "ok" (tag ++ "a call failed during the workload") ++
      need ra "close" "ok" (tag ++ "Close returned an error") ++
      need ra "closedEarly" "0" (tag ++ "Close returned while a background cycle was still parked mid-way") ++
      need ra "goroutines" "0" (tag ++ "store goroutines are still alive after Close returned") ++
      need ra "fds" "0" (tag ++ "descriptors into the store directory are still open after Close returned") ++
      need ra "dirchanged" "0" (tag ++ "a file in the store directory was created, modified or removed after Close returned") ++
      need ra "close2" "ok" (tag ++ "a second Close failed") ++
      need ra "reopen" "ok" (tag ++ "the directory could not be reopened after Close") ++
      need ra "lost" "0" (tag ++ "contents acknowledged before Close are missing or wrong after reopen") ++
      need ra "fds2" "0" (tag ++ "descriptors left open after the reopened store was closed")
    ({ n := st.n + 1 }, p ++ [Msg.flag ("mode-" ++ l.args.get "mode")] ++
      (if l.args.get "bits2" ≠ "" ∧ l.args.get "bits2" ≠ "8" then [Msg.flag "reopen-translates"] else []) ++
      (if ra.get "parked" = "1" then [Msg.flag "closed-while-cycle-parked", Msg.flag ("parked@" ++ l.args.get "park")] else []))
  | "rfailopen" =>
    let kind := l.args.get "kind"
    let tag := s!"failed open ({kind}): "
    let expErr := match kind with
      | "idxsize" => "err:wrong-index-file-size"
      | "prisize" => "err:wrong-primary-file-size"
      | "bits+size" => "err:wrong-index-file-size"
      | _ => "err:other"
    let p := need ra "open" expErr (tag ++ "wrong outcome") ++
      need ra "goroutines" "0" (tag ++ "goroutines left behind") ++
      need ra "fds" "0" (tag ++ "descriptors left open") ++
      (if kind = "badjson" ∨ kind = "badprijson" then [] else need ra "intact" "yes" (tag ++ "a later open with the original settings does not find the contents intact"))
    ({ n := st.n + 1 }, p ++ [Msg.flag ("failopen-" ++ kind)])
  | "rpar" =>
    let tag := s!"parallel lookups ({l.args.get "readers"} readers of {l.args.get "keys"} flushed keys nothing mutates, {l.args.get "writers"} mutators of other keys): "
    ({ n := st.n + 1 },
      need ra "open" "ok" (tag ++ "open failed") ++
      need ra "wrong" "0" (tag ++ s!"a lookup did not return its key's value (first: {ra.get "first"})") ++
      need ra "after" "0" (tag ++ "keys are missing or wrong after the activity stopped") ++
      need ra "writererrs" "0" (tag ++ "a mutator of another key failed") ++
      (if ra.get "ran" = "1" then [Msg.flag "parallel-lookups"] else []))
  | "rcycles" =>
    ({ n := st.n + 1 }, need ra "maxgoroutines" "0" "goroutines accumulate over open/close cycles" ++
      need ra "maxfds" "0" "descriptors accumulate over open/close cycles" ++
      (if (l.res.splitOn " ").any (·.startsWith "cycles=") then [] else [Msg.prop s!"open/close cycles failed: {l.res}"]) ++ [Msg.flag "cycles"] ++
      (if l.args.get "alt" = "1" then [Msg.flag "cycles-translate"] else []))
  | _ => (st, [.corr s!"unknown op {l.op}"])

end Driver.Res
