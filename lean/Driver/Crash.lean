/-
Driver for the crash engine (C03): replays the workload on the physical model like Driver.Seq, and for
every crash image (a) evaluates the crash-safety specification on what the REAL recovery returned,
(b) loads the image bytes into the model and compares the model's recovery with the real one.
-/
import Driver.Seq
import Driver.Img
import Sth.Model.Translate
import Sth.Model.Recover
import Sth.Model.CrashImage
import Sth.Model.CrashImageOpen
import Sth.Model.CrashImageClose

namespace Driver.Crash
open Sth Driver Driver.Img

structure St where
  seq : Driver.Seq.St := {}
  keys : List Bytes := []
  -- contents at the last completed Flush/Close, and what was acknowledged since (per digest)
  base : Driver.Seq.SpecMap := []
  since : List (Bytes × Option Bytes) := []      -- digest ↦ some value (put) / none (removed), newest first
  -- the same two, as they were before the operation whose crash images are being drained
  imgBase : Driver.Seq.SpecMap := []
  imgSince : List (Bytes × Option Bytes) := []
  lastOp : String := ""
  -- D11 recogniser: a primary GC cycle handed the freelist over while index updates were unflushed, and no
  -- store flush has completed since
  taint11 : Bool := false
  imgTaint11 : Bool := false
  upgradingOpen : Bool := false      -- the last op was the open that upgrades a legacy store
  prevDisk : Disk := {}              -- the model's disk before the last operation
  prevMem : Option Mem := none       -- and its memory state
  lastOrder : List Nat := []         -- flush order of the last operation (read back from the index log by the engine)
  -- D34 recogniser: the last operation was a Flush during which a Put of this digest was acknowledged at the given point
  fpDig : Option Bytes := none
  fpAt : String := ""
deriving Repr

def showRead (r : Driver.Seq.St → Bytes → (Mem × GetRes)) : Unit := ()

def readAllModel (m : Mem) (d : Disk) (keys : List Bytes) : List String × Mem :=
  keys.foldl (fun (acc : List String × Mem) k =>
    let (m', r) := storeGet acc.2 d k
    (acc.1 ++ [match r with | .found v => "v" ++ toHex v | .absent => "absent" | .err _ => "err"], m')) ([], m)

def allowedFor (base : Driver.Seq.SpecMap) (since : List (Bytes × Option Bytes)) (dig : Bytes) : List String :=
  let b := match base.get dig with | some (_, v) => "v" ++ toHex v | none => "absent"
  b :: (since.filter (·.1 = dig)).map fun (_, o) => match o with | some v => "v" ++ toHex v | none => "absent"

def step (st : St) (l : Line) : St × List Msg :=
  match l.op with
  | "keys" => ({ st with keys := (l.args.get "k").splitOn "," |>.map fun h => (fromHex h).getD [] }, [])
  | "crashnext" | "crashimg" =>
    if l.res = "none" then (st, []) else
    let ra := resArgs l.res
    let point := ra.get "point"
    let im := parseImg (ra.get "img")
    let isEnd := point.endsWith ".end"
    let (base, since) := if isEnd then (st.base, st.since) else (st.imgBase, st.imgSince)
    let kind := match st.seq.store.mem with | some m => m.kind | none => st.seq.cfg.kind
    let digs := st.keys.map fun k => (indexKeyOf kind k).getD []
    let openRes := ra.get "open"
    let r0 := (ra.get "r0").splitOn ","
    let r1 := (ra.get "r1").splitOn ","
    let r2 := (ra.get "r2").splitOn ","
    let tag := s!"crash at {point} tear={ra.get "tear"}: "
    -- (a) property oracle on the real recovery
    -- inside the re-bucketing (C09) an open that fails is tolerated: the clause there is "never opens successfully with fewer keys"
    let inTranslate := point.startsWith "translate." || point.startsWith "movefiles." || (st.lastOp == "open" && (point.startsWith "index." || point.startsWith "open."))
    -- every failure carries the digests it is about (none = the whole store), so that a recogniser that concerns particular
    -- keys cannot excuse a failure of other keys
    let differing := fun (a b : List String) => ((digs.zip (a.zip b)).filter fun (_, (x, y)) => x ≠ y).map (·.1)
    let p0 : List (Option (List Bytes) × Msg) := if openRes = "ok" then [] else
      if inTranslate && openRes = "err" then [] else [(none, Msg.prop (tag ++ s!"next open does not succeed ({openRes})"))]
    let pr : List (Option (List Bytes) × Msg) := if openRes ≠ "ok" then [] else
      ((digs.zip r0).filterMap fun (dg, r) =>
        if r = "err" then some (some [dg], Msg.prop (tag ++ s!"key {toHex dg} reads as an error after recovery"))
        else if (allowedFor base since dg).contains r then none
        else some (some [dg], Msg.prop (tag ++ s!"key {toHex dg} reads [{r}] after recovery; allowed: {allowedFor base since dg}"))) ++
      (if ra.get "post" = "ok" then [] else [(none, Msg.prop (tag ++ s!"recovered store fails a follow-up call: {ra.get "post"}"))]) ++
      (if r1 = r0 ++ ["vc4a5"] then [] else [(if r1.length = r0.length + 1 then some (differing r0 r1) else none,
         Msg.prop (tag ++ s!"contents change across follow-up put/flush/GC cycles: r0=[{ra.get "r0"}] r1=[{ra.get "r1"}]"))]) ++
      (if r2 = r1 then [] else [(if r2.length = r1.length then some (differing r1 r2) else none,
         Msg.prop (tag ++ s!"contents change across close and rescan: r1=[{ra.get "r1"}] r2=[{ra.get "r2"}]"))])
    -- (a') C11 on the recovered store (images at hook points only): after everything was removed, the files were left behind and
    -- four cycles of both collectors, a restart (which clears the collector's visited set) and five more cycles ran, no non-current primary file may be left without a record in use, or with a free share
    -- at or above the low-use threshold (it must have been drained by relocation); records that no index entry ever named
    -- (a crash between the primary's and the index's flush) count as in use until relocation finds them unreferenced
    let drainFiles : List (Nat × Nat × Nat × Nat) := ((((ra.get "drain").splitOn "!").headD "").splitOn ",").filterMap fun e =>
      match e.splitOn ":" with
      | [n, sz, fr, bu] => match n.toNat?, sz.toNat?, fr.toNat?, bu.toNat? with
        | some n, some sz, some fr, some bu => some (n, sz, fr, bu)
        | _, _, _, _ => none
      | _ => none
    let curFile := drainFiles.foldl (fun a f => max a f.1) 0
    let pDrain : List (Option (List Bytes) × Msg) := if openRes ≠ "ok" then [] else
      drainFiles.filterMap fun (n, sz, fr, bu) =>
        if n ≥ curFile ∨ sz = 0 then none
        else if bu = 0 then some (none, Msg.prop (tag ++ s!"[C11] primary file {n} holds no record in use but still occupies {sz} bytes after the drain ({ra.get "drain"})"))
        else if 100 * fr ≥ 50 * (fr + bu) then some (none, Msg.prop (tag ++ s!"[C11] low-use primary file {n} (free {fr}, in use {bu}) was not drained by relocation ({ra.get "drain"})"))
        else none
    let pr := pr ++ pDrain
    -- (b) correspondence: the model's recovery of the same bytes
    let remapPending : Bool := match im.disk.ihdr with
      | some h => h.pfs == 0 && st.seq.cfg.kind == .mh
      | none => false
    let corr :=
      if !im.extra.isEmpty then []   -- translation temp directories, legacy files, remap temporaries: not modelled, oracle only
      else if remapPending then []   -- offset remapping pending: not modelled
      else if im.badIdxHdr ∨ im.badPriHdr then
        (if openRes = "err" then [] else [Msg.corr (tag ++ s!"recovery: model=[open=err (unparsable header)] impl=[open={openRes}]")])
      else
        match (let r := openStoreT st.seq.cfg im.disk []; (r.1, r.2.1)) with
        | (_, .error _) => if openRes = "err" then [] else [Msg.corr (tag ++ s!"recovery: model=[open=err] impl=[open={openRes}]")]
        | (d', .ok m') =>
          if openRes ≠ "ok" then [Msg.corr (tag ++ s!"recovery: model=[open=ok] impl=[open={openRes}]")]
          else
            let (mr, _) := readAllModel m' d' st.keys
            if mr = r0 then [] else [Msg.corr (tag ++ s!"recovery reads: model=[{",".intercalate mr}] impl=[{ra.get "r0"}]")]
    -- (c) tie of Sth/Model/CrashImage.lean to the code: an image captured while an explicit Flush ran (hook points between
    -- the file-system steps of the real commit, and every torn variant) must be one of the model's crash images of that flush
    let dAfter := st.seq.store.disk
    let inFlush := st.lastOp == "flush" && im.extra.isEmpty && !im.badIdxHdr && !im.badPriHdr
    let evCount : Nat :=
      (im.disk.pfiles.map fun (n, f) => (f.length - (fileOf st.prevDisk.pfiles n).length) + (if st.prevDisk.pfiles.has n then 0 else 1)).sum +
      (im.disk.ifiles.map fun (n, f) => (f.length - (fileOf st.prevDisk.ifiles n).length) + (if st.prevDisk.ifiles.has n then 0 else 1)).sum +
      (match im.disk.cidfile with | some f => (f.length - (st.prevDisk.cidfile.getD []).length) + (if st.prevDisk.cidfile.isSome then 0 else 1) | none => 0) +
      (match im.disk.free with | some f => (f.length - (st.prevDisk.free.getD []).length) + (if st.prevDisk.free.isSome then 0 else 1) | none => 0)
    let (corrImg, flagImg) :=
      if !inFlush then ([], []) else
      let stream := appendStream st.prevDisk dAfter
      if crashImage st.prevDisk stream evCount false == im.disk then ([], [Msg.flag "flush-image-in-model"] ++
        (if 0 < evCount && evCount < streamLength stream then [Msg.flag "flush-image-interior"] else []))
      -- the file rolled over to was created before the file being left received its tail: its creation is not among the
      -- first events, so the count is one too high
      else if crashImage st.prevDisk stream (evCount - 1) true == im.disk then ([], [Msg.flag "flush-image-in-model"] ++ [Msg.flag "flush-image-early-rollover"])
      else ([Msg.corr (tag ++ s!"image of a crash inside Flush is not the model's crash image after {evCount} of {streamLength stream} events")], [])
    -- (d) tie of Sth/Model/CrashImageOpen.lean: an image captured while a plain OpenStore ran (no re-bucketing, no upgrade) is the
    -- directory after one of the model's open steps (or the directory before the open)
    let rebucketing : Bool := match st.prevDisk.ihdr with | some h => h.bits != st.seq.cfg.bits | none => false
    let inOpen := st.lastOp == "open" && !rebucketing && !st.upgradingOpen && im.extra.isEmpty && !im.badIdxHdr && !im.badPriHdr &&
      st.seq.store.mem.isSome && (point.startsWith "open." || point.startsWith "primary.open." || point.startsWith "index.open.")
    let (corrOpen, flagOpen) : List Msg × List Msg :=
      if !inOpen then ([], []) else
      let steps := st.prevDisk :: openSteps st.seq.cfg st.prevDisk
      if steps.any (· == im.disk) then ([], [Msg.flag "open-image-in-model"] ++ (if im.disk == st.prevDisk then [] else [Msg.flag "open-image-interior"]))
      else ([Msg.corr (tag ++ s!"image of a crash inside OpenStore is not the directory after any of the model's {steps.length - 1} open steps")], [])
    -- (e) tie of Sth/Model/CrashImageClose.lean: an image captured while Store.Close ran is one of the model's Close images
    -- (a leftover snapshot temporary is not part of the image)
    let inClose := st.lastOp == "close" && im.extra.all (·.endsWith ".tmp") && !im.badIdxHdr && !im.badPriHdr && st.prevMem.isSome
    let (corrClose, flagClose) : List Msg × List Msg :=
      if !inClose then ([], []) else
      match st.prevMem with
      | none => ([], [])
      | some pm =>
        match closeParts pm st.prevDisk (fixOrder st.lastOrder pm.inext.keys) with
        | none => ([], [])
        | some (d2, sn, dC) =>
          let frGrow := match im.disk.free with
            | some f => (f.length - (st.prevDisk.free.getD []).length) + (if st.prevDisk.free.isSome then 0 else 1)
            | none => 0
          let evPI : Nat :=
            (im.disk.pfiles.map fun (n, f) => (f.length - (fileOf st.prevDisk.pfiles n).length) + (if st.prevDisk.pfiles.has n then 0 else 1)).sum +
            (im.disk.ifiles.map fun (n, f) => (f.length - (fileOf st.prevDisk.ifiles n).length) + (if st.prevDisk.ifiles.has n then 0 else 1)).sum
          let cands : List ClosePoint :=
            if im.disk.snap.isSome then [.saved frGrow] else [.flush evPI false, .flush (evPI - 1) true]
          if cands.any (fun pt => closeCrashImage st.prevDisk d2 sn dC pt == im.disk) then
            ([], [Msg.flag "close-image-in-model"] ++ (if im.disk.snap.isSome then [Msg.flag "close-image-snapshot-saved"] else []))
          else ([Msg.corr (tag ++ s!"image of a crash inside Close is not one of the model's Close images (snapshot {im.disk.snap.isSome}, {evPI} file events, {frGrow} freelist events)")], [])
    let corr := corr ++ corrImg ++ corrOpen ++ corrClose
    let flags := flagImg ++ flagOpen ++ flagClose ++ (if drainFiles.isEmpty then [] else [Msg.flag "c11-drain-after-recovery"]) ++
      (if drainFiles.any (fun f => f.1 < curFile ∧ f.2.1 > 0) then [Msg.flag "c11-drain-leftover-file"] else []) ++ [Msg.flag "crash-image"] ++ (if inTranslate then [Msg.flag "translate-crash"] else []) ++
      (if inTranslate && openRes = "err" then [Msg.flag "translate-crash-open-refused"] else []) ++ (if ra.get "tear" ≠ "none" then [Msg.flag "torn"] else []) ++
      [Msg.flag ("at:" ++ (point.splitOn ".").headD "")]
    -- recognisers of the known findings (decidable predicates on the image / history, not on the outcome)
    let tornPrimary := ((ra.get "tear").splitOn "storethehash.data.").length > 1
    -- D13: between the moment the old header left the index directory and the moment the new one arrived
    -- (or, earlier in the same window, with the header still in place but some of the OLD files already moved out: the next
    -- open then rescans a log with a hole)
    -- The window is exactly the steps between the first file move and the arrival of the NEW header (theorem C09_d13_window);
    -- `movefiles.header_moved` fires in both moves, and after the second one the store is complete (C09_d13_recogniser_extra_step
    -- showed the point-name form to be one step too wide): inside the window the directory has no header, or still the header
    -- with the OLD bit size.
    let hdrOldOrAbsent : Bool := match im.disk.ihdr with
      | some h => h.bits != st.seq.cfg.bits
      | none => !im.badIdxHdr
    let noHeader := inTranslate && ((im.disk.ihdr.isNone && !im.badIdxHdr) ||
      ((point == "movefiles.file_moved" || point == "movefiles.header_moved" || point == "translate.old_moved") && hdrOldOrAbsent))
    let tainted := if isEnd then st.taint11 else (st.imgTaint11 || st.taint11)
    -- D34: a Put acknowledged after the primary's pool swap and before the index's pool swap of a Flush in progress: that Flush
    -- writes the index entry of a record it does not write
    let d34Window := st.lastOp == "flushput" && st.fpDig.isSome &&
      (st.fpAt == "primary.flush.swapped" || st.fpAt == "primary.flush.written" || st.fpAt == "store.commit.primary_done" ||
       -- second form: after the index's pool swap and before the freelist's: the freelist entry for the key's OLD record is
       -- written by this Flush, the index entry that stops naming it is not; a later cycle frees the record the index names
       st.fpAt == "index.flush.swapped" || st.fpAt == "store.commit.index_done")
    -- D14: the resume of the offset remapping trusts `.remapped` markers, which are created before the remapped copy is renamed
    -- over the original and whose files' deletion pool is not rebuilt
    let remapMarked := im.extra.any (·.endsWith ".remapped")
    -- second form: unmappable entries are rewritten to offset 0 in the file and deleted only by an in-memory pool that is
    -- flushed after Open; a crash of the upgrading open in between leaves THOSE entries pointing at offset 0 (which can resolve
    -- to an old record of the same key): it concerns the keys of the unmappable entries only
    let badDigests := st.seq.legacyBad.filterMap fun i => (st.seq.legacyRecs[i]?).map fun (k, _) => (indexKeyOf kind k).getD []
    let badPoolLost := !st.seq.legacyBad.isEmpty && st.lastOp == "open" && st.upgradingOpen
    let knownFor := fun (about : Option (List Bytes)) =>
      if remapMarked then " [known:D14 remap-marker-before-rename]"
      else if badPoolLost && (match about with | some ds => !ds.isEmpty && ds.all (badDigests.contains ·) | none => false) then " [known:D14 remap-marker-before-rename]"
      else if noHeader then " [known:D13 translate-header-absent]" else if tornPrimary then " [known:D12 torn-primary-tail]"
      else if tainted then " [known:D11 gc-handover-with-dirty-index]"
      else if d34Window && (match about, st.fpDig with | some ds, some g => !ds.isEmpty && ds.all (· == g) | _, _ => false) then
        " [known:D34 put-between-primary-and-index-swap]" else ""
    let tagMsg := fun (am : Option (List Bytes) × Msg) => match am.2 with
      | .prop s => Msg.prop (s ++ knownFor am.1)
      | m => m
    (st, (p0 ++ pr).map tagMsg ++ corr ++ flags)
  | "flushput" =>
    -- a Flush with a Put acknowledged at a named point inside it. The physical model has no such composite step: it is left
    -- where it was (the workload ends here); the specification side is exact: everything acknowledged before is flushed by a
    -- Flush that completes, and the Put is acknowledged after the flush began.
    let ra := resArgs l.res
    let kind := match st.seq.store.mem with | some m => m.kind | none => st.seq.cfg.kind
    let dg := (indexKeyOf kind (l.args.bytes "k")).getD []
    let acked := ra.get "put" == "ok"
    let sinceP := if acked then (dg, some (l.args.bytes "v")) :: st.since else st.since
    let head := (l.res.splitOn " ").headD ""
    let spec1 := st.seq.spec
    ({ st with lastOp := "flushput", fpDig := if acked then some dg else none, fpAt := l.args.get "at",
               imgBase := st.base, imgSince := sinceP, imgTaint11 := st.taint11,
               base := if head == "ok" then spec1 else st.base,
               since := if head == "ok" then (if acked then [(dg, some (l.args.bytes "v"))] else []) else sinceP,
               taint11 := if head == "ok" then false else st.taint11 },
     (if head == "ok" then [] else [Msg.prop s!"Flush failed: {l.res}"]) ++
     [Msg.flag "flush-with-put-inside", Msg.flag ("flushput@" ++ l.args.get "at")])
  | _ =>
    -- ordinary op: strip the image counter, delegate to the seq driver, track baseline and acknowledged effects
    let res' := match l.res.splitOn " images=" with
      | r :: _ => r
      | [] => l.res
    let l' := { l with res := res' }
    let hadImages := (l.res.splitOn " images=").length > 1
    let before := st.seq.spec
    let (seq', msgs) := Driver.Seq.step st.seq l'
    let after := seq'.spec
    let kind := match seq'.store.mem with | some m => m.kind | none => seq'.cfg.kind
    let st1 := { st with seq := seq', lastOp := l.op, upgradingOpen := l.op == "open" && st.seq.needSync, prevDisk := st.seq.store.disk,
                          prevMem := st.seq.store.mem, lastOrder := Driver.Seq.parseOrder ((resArgs res').get "order") }
    -- acknowledged effects
    let st2 :=
      if (l.op = "put" ∨ l.op = "rm") ∧ (res' = "ok" ∨ res' = "true") then
        let dg := (indexKeyOf kind (l.args.bytes "k")).getD []
        { st1 with since := (dg, (after.get dg).map (·.2)) :: st1.since }
      else st1
    let _ := before
    -- image context = as it was before this op
    let dirtyAtStart : Bool := match st.seq.store.mem with | some m => !m.inext.isEmpty | none => false
    let st2 := if l.op == "pgc" && dirtyAtStart then { st2 with taint11 := true } else st2
    let st3 := if hadImages then { st2 with imgBase := st.base, imgSince := st.since, imgTaint11 := st.taint11 } else st2
    -- a completed Flush / iteration / Close / reopen establishes a new baseline
    let completes := (l.op = "flush" ∨ l.op = "iter" ∨ l.op = "close") ∧ res'.startsWith "ok"
    let st4 := if completes then { st3 with base := after, since := [], taint11 := false }
               else if l.op = "legacy" then { st3 with base := after, since := [], imgBase := after, imgSince := [] } else st3
    (st4, msgs)

end Driver.Crash
