/-
Driver for the blockstore adapter engine (C15).
-/
import Driver.Common
import Sth.Model.Adapter
import Sth.Model.Machine

namespace Driver.BS
open Sth Driver

structure St where
  s : Option BS := none
  spec : List (Bytes × Bytes) := []      -- digest ↦ block bytes (first Put wins: the store is immutable)
  hashOnRead : Bool := false
  cfg : Option Cfg := none
deriving Repr

def showOut : BsOut → String
  | .ok => "ok"
  | .errCtx => "err:ctx"
  | .errOther => "err:other"
  | .notFound => "notfound"
  | .wrongHash => "err:wrong-hash"
  | .found c d => s!"found c={toHex c} d={toHex d}"
  | .bool b => toString b
  | .size n => s!"n={n}"

def digestOfCid (c : Bytes) : Bytes := ((cidHash c).bind mhDecode).getD []

def specGet (m : List (Bytes × Bytes)) (g : Bytes) : Option Bytes := (m.find? (·.1 = g)).map (·.2)

def cmp (op model impl : String) : List Msg := if model = impl then [] else [Msg.corr s!"{op}: model=[{model}] impl=[{impl}]"]
def prop (op expected impl : String) : List Msg :=
  if expected = impl then [] else [Msg.prop s!"{op}: blockstore contract says [{expected}] implementation returned [{impl}]"]

def splitHexList (s : String) : List Bytes := (s.splitOn ",").map fun x => (fromHex x).getD []

def step (st : St) (l : Line) : St × List Msg :=
  match l.op with
  | "bsopen" =>
    let c : Cfg := { kind := .mh, bits := l.args.nat "bits", ifs := l.args.nat "ifs", pfs := l.args.nat "pfs", imm := true }
    match openStore c {} with
    | (d, .ok m) => ({ st with s := some { m := m, d := d }, cfg := some c }, cmp "bsopen" "ok" l.res)
    | (_, .error _) => (st, cmp "bsopen" "err:other" l.res)
  | "bsreopen" =>
    -- Close (the store flushes; the flush order does not show in any output of the adapter) and a new handle on the same
    -- directory, with or without the bucket snapshot; hash-on-read is a property of the handle and starts disabled again.
    -- What the contract says afterwards is what it said before: `spec` is untouched.
    match st.s, st.cfg with
    | some s, some c =>
      match Sth.stepS ⟨c, s.m, s.d⟩ (.reopen [] (l.args.get "snap" ≠ "0")) with
      | (s', .gc) => ({ st with s := some { m := s'.m, d := s'.d }, hashOnRead := false }, cmp "bsreopen" "ok" l.res ++
          [Msg.flag "reopen"] ++ (if l.res = "ok" then [] else [Msg.prop s!"the blockstore could not be reopened: {l.res}"]))
      | _ => (st, cmp "bsreopen" "err:other" l.res ++ [Msg.prop s!"the blockstore could not be reopened (model): {l.res}"])
    | _, _ => (st, [Msg.corr "blockstore not open in the model"])
  | _ =>
  match st.s with
  | none => (st, [Msg.corr "blockstore not open in the model"])
  | some s =>
    let live := l.args.get "ctx" ≠ "cancelled"
    let c := l.args.bytes "c"
    let g := digestOfCid c
    match l.op with
    | "bsput" =>
      let data := l.args.bytes "d"
      let (s', o) := bsPut s live c data
      let present := (specGet st.spec g).isSome
      let spec' := if live ∧ !present then (g, data) :: st.spec else st.spec
      ({ st with s := some s', spec := spec' }, cmp "bsput" (showOut o) l.res ++
        prop "bsput" (if live then "ok" else "err:ctx") l.res ++
        [Msg.flag (if !live then "cancelled" else if present then "duplicate-put" else "put")] ++
        (if data.isEmpty then [Msg.flag "empty-block"] else []))
    | "bsputmany" =>
      let cs := splitHexList (l.args.get "c")
      let ds := splitHexList (l.args.get "d")
      let (s', o) := bsPutMany s live (cs.zip ds)
      let spec' := if !live then st.spec else
        (cs.zip ds).foldl (fun sp (c, d) => if (specGet sp (digestOfCid c)).isSome then sp else (digestOfCid c, d) :: sp) st.spec
      ({ st with s := some s', spec := spec' }, cmp "bsputmany" (showOut o) l.res ++
        prop "bsputmany" (if live then "ok" else "err:ctx") l.res ++ [Msg.flag "putmany"])
    | "bsget" =>
      let ra := resArgs l.res
      let hm := ra.get "hm" ≠ "0"
      let hmTail := " hm=" ++ ra.get "hm"
      let (s', o) := bsGet s live c hm
      let exp := if !live then "err:ctx" else
        match specGet st.spec g with
        | none => "notfound"
        | some d => if st.hashOnRead ∧ !hm then "err:wrong-hash" else s!"found c={toHex c} d={toHex d}"
      ({ st with s := some s' }, cmp "bsget" (showOut o ++ hmTail) l.res ++ prop "bsget" (exp ++ hmTail) l.res ++
        (if live ∧ (specGet st.spec g).isSome ∧ !hm then [Msg.flag (if st.hashOnRead then "hash-mismatch-rejected" else "hash-mismatch-unchecked")] else []) ++
        (if live ∧ (specGet st.spec g).isSome then [Msg.flag "get-present"] else []))
    | "bshas" =>
      let o := bsHas s live c
      let exp := if !live then "err:ctx" else toString (specGet st.spec g).isSome
      (st, cmp "bshas" (showOut o) l.res ++ prop "bshas" exp l.res)
    | "bssize" =>
      let o := bsGetSize s live c
      let exp := if !live then "err:ctx" else
        match specGet st.spec g with
        | none => "notfound"
        | some d => s!"n={d.length}"
      (st, cmp "bssize" (showOut o) l.res ++ prop "bssize" exp l.res)
    | "bsdel" =>
      let (s', o) := bsDelete s live c
      let spec' := if live then st.spec.filter (·.1 ≠ g) else st.spec
      ({ st with s := some s', spec := spec' }, cmp "bsdel" (showOut o) l.res ++
        prop "bsdel" (if live then "ok" else "err:ctx") l.res ++ [Msg.flag (if live then "delete" else "cancelled")])
    | "bshashonread" =>
      let v := l.args.get "v" = "1"
      ({ st with s := some (bsHashOnRead s v), hashOnRead := v }, cmp "bshashonread" "ok" l.res ++
        [Msg.flag (if v then "hash-on-read-on" else "hash-on-read-off")])
    | "bsallkeys" => (st, cmp "bsallkeys" "err:not-supported" l.res)
    | _ => (st, [Msg.corr s!"unknown op {l.op}"])

end Driver.BS
