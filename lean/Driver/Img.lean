/-
Parsing a directory dump (as written by the harness: `name=hex;...`, headers as JSON bytes, the bucket
snapshot in sparse form) into the model's `Disk`.
-/
import Driver.Common
import Sth.Model.Store

namespace Driver.Img
open Sth Driver

/-- extract an unsigned number following `"Field":` in JSON bytes -/
def jsonNum (data : Bytes) (field : String) : Option Nat :=
  let pat := strBytes ("\"" ++ field ++ "\":")
  let rec find (fuel : Nat) (d : Bytes) : Option Bytes :=
    match fuel with
    | 0 => none
    | fuel + 1 =>
      if d.take pat.length = pat then some (d.drop pat.length)
      else match d with
        | [] => none
        | _ :: t => find fuel t
  match find (data.length + 1) data with
  | none => none
  | some rest =>
    let digits := rest.takeWhile (fun c => 48 ≤ c ∧ c ≤ 57)
    if digits.isEmpty then none else some (digits.foldl (fun acc c => acc * 10 + (c - 48)) 0)

def jsonClosed (data : Bytes) : Bool := data.getLast? = some 125 && data.head? = some 123

inductive Hdr (α : Type) where
  | none | bad | ok (h : α)

def parseIdxHdr (data : Bytes) : Hdr IdxHeader :=
  if !jsonClosed data then .bad else
  match jsonNum data "BucketsBits", jsonNum data "MaxFileSize", jsonNum data "FirstFile", jsonNum data "PrimaryFileSize" with
  | some b, some m, some f, some p => .ok ⟨b, m, f, p⟩
  | _, _, _, _ => .bad

def parsePriHdr (data : Bytes) : Hdr PriHeader :=
  if !jsonClosed data then .bad else
  match jsonNum data "MaxFileSize", jsonNum data "FirstFile" with
  | some m, some f => .ok ⟨m, f⟩
  | _, _ => .bad

structure Img where
  disk : Disk := {}
  badIdxHdr : Bool := false
  badPriHdr : Bool := false
  extra : List String := []

def parseSnap (v : String) : Snap :=
  match (v.drop 1).toString.splitOn "," with
  | [] => ⟨0, []⟩
  | sz :: rest =>
    ⟨sz.toNat?.getD 0, rest.foldl (fun acc kv => match kv.splitOn ":" with
      | [b, p] => acc.set (b.toNat?.getD 0) (p.toNat?.getD 0)
      | _ => acc) []⟩

def parseImg (s : String) : Img :=
  (s.splitOn ";").foldl (fun (im : Img) part =>
    match part.splitOn "=" with
    | [name, v] =>
      let data := (fromHex v).getD []
      if name = "index.info" then
        match parseIdxHdr data with
        | .ok h => { im with disk := { im.disk with ihdr := some h } }
        | _ => { im with badIdxHdr := true }
      else if name = "data.info" then
        match parsePriHdr data with
        | .ok h => { im with disk := { im.disk with phdr := some h } }
        | _ => { im with badPriHdr := true }
      else if name = "index.buckets" then { im with disk := { im.disk with snap := some (parseSnap v) } }
      else if name = "index.free" then { im with disk := { im.disk with free := some data } }
      else if name = "index.free.gc" then { im with disk := { im.disk with freeGc := some data } }
      else if name.startsWith "index." then
        match (name.drop 6).toString.toNat? with
        | some n => { im with disk := { im.disk with ifiles := im.disk.ifiles.set n data } }
        | none => { im with extra := name :: im.extra }
      else if name.startsWith "data." then
        match (name.drop 5).toString.toNat? with
        | some n => { im with disk := { im.disk with pfiles := im.disk.pfiles.set n data } }
        | none => { im with extra := name :: im.extra }
      else { im with extra := name :: im.extra }
    | _ => im) {}


end Driver.Img
