/-
Driver plumbing: line protocol parsing, message kinds.  Core Lean only.
-/
import Sth.Model.Bytes

namespace Driver
open Sth

abbrev Args := List (String × String)

def Args.get (a : Args) (k : String) : String :=
  match a.find? (·.1 = k) with
  | some (_, v) => v
  | none => ""

def Args.has (a : Args) (k : String) : Bool := (a.find? (·.1 = k)).isSome

def Args.nat (a : Args) (k : String) : Nat := (a.get k).toNat?.getD 0

def Args.bytes (a : Args) (k : String) : Bytes := (fromHex (a.get k)).getD []

structure Line where
  op : String
  args : Args
  res : String
deriving Repr

def parseKV (s : String) : Option (String × String) :=
  match s.splitOn "=" with
  | [k] => some (k, "")
  | k :: rest => some (k, "=".intercalate rest)
  | [] => none

def parseLine (line : String) : Option Line :=
  let line := line.trimAscii.toString
  if line.isEmpty || line.startsWith "#" then none
  else
    let (lhs, res) := match line.splitOn " -> " with
      | [l] => (if l.endsWith " ->" then (l.dropEnd 3).toString else l, "")
      | l :: rest => (l, " -> ".intercalate rest)
      | [] => ("", "")
    match (lhs.splitOn " ").filter (· ≠ "") with
    | [] => none
    | op :: rest => some { op := op, args := rest.filterMap parseKV, res := res }

/-- result tokens "found off=3 size=1" → head word and args -/
def parseRes (res : String) : String × Args :=
  match (res.splitOn " ").filter (· ≠ "") with
  | [] => ("", [])
  | h :: rest => (h, rest.filterMap parseKV)

/-- all tokens of a result as key=value args -/
def resArgs (res : String) : Args := ((res.splitOn " ").filter (· ≠ "")).filterMap parseKV

inductive Msg where
  | corr (s : String)     -- model and implementation disagree
  | prop (s : String)     -- the property oracle fails on the implementation's output
  | flag (s : String)     -- coverage flag for the evidence
deriving Repr

def natList (l : List Nat) : String := ",".intercalate (l.map toString)

/-- insertion sort (small lists) -/
def sortNat (l : List Nat) : List Nat :=
  l.foldl (fun acc x => (acc.takeWhile (· ≤ x)) ++ [x] ++ (acc.dropWhile (· ≤ x))) []

end Driver
