/-
Line-protocol driver.  Reads traces produced by the Go harness (which executed every operation on
the real code), replays each on the Lean model, and prints where model and implementation differ
(CORR), where the implementation's output violates the property specification (PROP), and per-trace
coverage flags.
-/
import Driver.Common
import Driver.C08
import Driver.FC
import Driver.Seq
import Driver.BS
import Driver.Crash
import Driver.Sched
import Driver.Res

open Driver

inductive Eng where
  | none
  | c08 (s : Driver.C08.St)
  | fc (s : Driver.FC.St)
  | seq (s : Driver.Seq.St)
  | bs (s : Driver.BS.St)
  | crash (s : Driver.Crash.St)
  | sched (s : Driver.Sched.St)
  | res (s : Driver.Res.St)

structure DState where
  eng : Eng := .none
  traceId : String := ""
  lineNo : Nat := 0
  corr : Nat := 0
  prop : Nat := 0
  flags : List String := []
  ops : Nat := 0
  hash : UInt64 := 14695981039346656037

def fnv (h : UInt64) (s : String) : UInt64 :=
  s.foldl (fun h c => (h ^^^ c.toNat.toUInt64) * 1099511628211) h

def newEngine (hdr : Args) : Eng :=
  match hdr.get "engine" with
  | "c08" => .c08 {}
  | "fc" => .fc {}
  | "seq" => .seq {}
  | "bs" => .bs {}
  | "crash" => .crash {}
  | "sched" => .sched {}
  | "res" => .res {}
  | _ => .none

def stepEng (e : Eng) (l : Line) : Eng × List Msg :=
  match e with
  | .none => (.none, [.corr "no engine"])
  | .c08 s => let (s', m) := Driver.C08.step s l; (.c08 s', m)
  | .fc s => let (s', m) := Driver.FC.step s l; (.fc s', m)
  | .seq s => let (s', m) := Driver.Seq.step s l; (.seq s', m)
  | .bs s => let (s', m) := Driver.BS.step s l; (.bs s', m)
  | .crash s => let (s', m) := Driver.Crash.step s l; (.crash s', m)
  | .sched s => let (s', m) := Driver.Sched.step s l; (.sched s', m)
  | .res s => let (s', m) := Driver.Res.step s l; (.res s', m)

partial def loop (h : IO.FS.Stream) (out : IO.FS.Stream) (st : DState) : IO Unit := do
  let line ← h.getLine
  if line.isEmpty then return ()
  let t := line.trimAscii.toString
  if t.startsWith "T " then
    let parts := (t.splitOn " ").filter (· ≠ "")
    let id := parts.getD 1 "?"
    let hdr := (parts.drop 2).filterMap parseKV
    loop h out { eng := newEngine hdr, traceId := id }
  else if t = "E" || t.startsWith "E " then
    let fl := ",".intercalate st.flags.eraseDups
    out.putStrLn s!"END trace={st.traceId} ops={st.ops} corr={st.corr} prop={st.prop} hash={st.hash} flags={fl}"
    loop h out { st with eng := .none }
  else
    match parseLine t with
    | none =>
      if t.startsWith "#stat" then out.putStrLn t
      loop h out st
    | some l =>
      if l.res = "bad-op" then loop h out st else
      let (e', msgs) := stepEng st.eng l
      let mut st := { st with eng := e', lineNo := st.lineNo + 1, ops := st.ops + 1,
                               hash := fnv st.hash (l.op ++ " " ++ " ".intercalate (l.args.map fun (k, v) => k ++ "=" ++ v)) }
      for m in msgs do
        match m with
        | .corr s =>
          out.putStrLn s!"CORR trace={st.traceId} line={st.lineNo} {s}"
          st := { st with corr := st.corr + 1 }
        | .prop s =>
          out.putStrLn s!"PROP trace={st.traceId} line={st.lineNo} {s}"
          st := { st with prop := st.prop + 1 }
        | .flag s => st := { st with flags := if st.flags.contains s then st.flags else s :: st.flags }
      loop h out st

def main : IO Unit := do
  let stdin ← IO.getStdin
  let stdout ← IO.getStdout
  loop stdin stdout {}
