/-
C10: the pure core of the legacy upgrade.

`chunk` mirrors chunkOldIndex / chunkOldPrimary (store/index/upgrade.go, store/primary/multihash/upgrade.go):
records are copied one by one into numbered files, a new file is started once the bytes written to the
current one reach the limit (so records are never split and every file but the last holds at least `limit`
bytes).  `remapOffset` mirrors IndexRemapper.RemapOffset: a linear offset into the old single primary file
becomes `fileNum * maxFileSize + localOffset` by walking the list of chunk sizes.
-/
import Sth.Model.Bytes

namespace Sth

/-- split a record sequence into chunks; `cur` is the chunk being filled (reversed), `written` its size -/
def chunkAux (limit : Nat) : List Bytes → List Bytes → Nat → List (List Bytes)
  | [], cur, _ => if cur.isEmpty then [] else [cur.reverse]
  | r :: rs, cur, written =>
    let written' := written + r.length
    if written' ≥ limit then (r :: cur).reverse :: chunkAux limit rs [] 0
    else chunkAux limit rs (r :: cur) written'

/-- chunks of whole records (each record already carries its 4-byte size prefix) -/
def chunk (limit : Nat) (recs : List Bytes) : List (List Bytes) := chunkAux limit recs [] 0

def chunkSizes (limit : Nat) (recs : List Bytes) : List Nat := (chunk limit recs).map fun c => (c.map List.length).sum

/-- the files the code leaves behind: when the last record fills its chunk, the next (empty) file has already been created -/
def chunkFileSizes (limit : Nat) (recs : List Bytes) : List Nat :=
  let sizes := chunkSizes limit recs
  match sizes.getLast? with
  | some last => if last ≥ limit then sizes ++ [0] else sizes
  | none => sizes

/-- IndexRemapper.RemapOffset -/
def remapOffset (first max : Nat) : List Nat → Nat → Option Nat
  | [], _ => none
  | size :: rest, pos => if pos < size then some (max * first + pos) else remapOffset (first + 1) max rest (pos - size)

/-- linear offsets of the records of a file -/
def recordStarts : List Bytes → Nat → List Nat
  | [], _ => []
  | r :: rs, pos => pos :: recordStarts rs (pos + r.length)

/-- the record that starts at local offset `off` of chunk number `n` -/
def recordAt (chunks : List (List Bytes)) (n off : Nat) : Option Bytes :=
  match chunks[n]? with
  | none => none
  | some c => ((recordStarts c 0).zip c).find? (·.1 = off) |>.map (·.2)

end Sth
