/-
L5-life: the shutdown handshakes of go-storethehash as a small-step machine (property C17).

Code modelled (the repaired tree, KNOWN_FINDINGS D10/D15: Store.Close closes the primary BEFORE the index):

  store/store.go                     Store.Start, Store.run (flusher goroutine), Store.Close
  store/index/index.go               Index.Close          (`close(idx.gcStop); <-idx.gcDone` before Flush)
  store/index/gc.go                  Index.garbageCollector (collector loop + one cycle goroutine at a time)
  store/primary/multihash/multihash.go  MultihashPrimary.Close (`mp.gc.close()` before Flush)
  store/primary/multihash/gc.go      primaryGC.close (`close(gc.stop); <-gc.done`), primaryGC.run (same shape)

Threads and their program counters (one step = one channel operation / one lock section / one file-system
step, i.e. the granularity of the `verif` hook points):

  closer     the caller of Store.Close                                  CPc
  flusher    Store.run, exists once Start was called                    FlPc
  igcLoop    Index.garbageCollector, exists iff the index GC interval ≠ 0 (idx.gcStop ≠ nil)   LPc
  igcCycle   the `go func(ctx)` the loop spawns on its timer (at most one alive)                CyPc
  pgcLoop    primaryGC.run, exists iff mp.gc ≠ nil                       LPc
  pgcCycle   its cycle goroutine                                         CyPc

  closer:  idle ─lock→ (running ? signalFlusher ─close(closing)→ waitFlusher ─[closed]→ : ) stopPgc
           stopPgc ─(mp.gc≠nil ? close(stop) → waitPgc ─[done]→ : )→ primaryFlush ─FS→ stopIgc
           stopIgc ─(gcStop≠nil ? close(gcStop) → waitIgc ─[gcDone]→ : )→ indexFlush ─FS→ indexSnapshot ─FS→
           freelistClose ─FS→ ret ─return→ returned            (`─[c]→` = blocked until channel c is closed)
           returned ─Close again: open is false, returns at once→ returned
  flusher: idle ─[flushNow token] take→ flushing ─FS*→ flushing ─done→ idle ;  idle ─[closing] exit: close(closed)→ terminated
  loop:    waiting ─timer (gcDone==nil)→ waiting, spawns the cycle, gcDone := open channel
           waiting ─[gcDone closed] reap: gcDone := nil, t.Reset→ waiting
           waiting ─[stop closed] stop: cancel()→ stopping ─(gcDone==nil or [gcDone closed]) exit: close(done)→ terminated
  cycle:   running ─FS*→ running ─finish | poll (ctx cancelled): close(gcDone)→ finished

Where the model abstracts the code (each abstraction has a name used in the report and in DESIGN §9):

  A-sel     Go's `select` picks any ready case: every enabled step of a thread may be scheduled, so e.g. the loop
            may still spawn a cycle after its stop channel was closed (timer and stop both ready).  Modelled exactly.
  A-timer   the collector's timer is armed exactly when the loop-local `gcDone` is nil (it fires once, and is
            re-armed by `t.Reset` only in the `<-gcDone` case), and an armed timer may fire at any moment.
  A-fs      a cycle (and a Flush of the flusher) is an arbitrary number of file-system steps; a cycle may end at any
            moment (`finish`: normal end, time limit, error) and, once cancelled, also by `poll`.  This
            over-approximates the code, which polls `ctx.Err()` only between files/records: nothing is assumed
            about how soon a cancelled cycle stops, only that it closes its `gcDone` when it does.
  A-term    `defer close(done)` is the goroutine's last action: "terminated" means the deferred close has run; the
            few runtime instructions between that and the goroutine's actual exit are not modelled (the harness
            polls the goroutine count briefly for this reason).
  A-flush   `tick` puts a token into `flushNow` at any time (the ticker inside `run`, or a writer's non-blocking
            send in flushTick); the writers themselves, explicit Flush/Put/Get callers and the rate protocol are
            C12's machine (Sth/Model/Rate.lean), they are callers and outside C17's statement.
  A-close2  a Close call by ANOTHER thread (`close2`) is enabled only when `open` is already false — whichever
            caller finds `open` true is, by definition, the thread called `closer`.  Such a call returns at once,
            possibly BEFORE the closer's Close has finished; C17 speaks about the call that performed the shutdown.
  A-start   `Start` is only called while the store is open (`lateStart = false`).  Store.Start does not look at
            `s.open`: with `lateStart = true` (Start racing with or following Close) the model exhibits a flusher
            that outlives Close — see C17_late_start_witness.  (In the code a Start after a Close that stopped a
            flusher additionally panics: the new goroutine's `defer close(s.closed)` closes a closed channel.)
  A-err     error returns inside Close (`Flush` failing → `file.Close()` and return) skip FS steps of the closer
            but no handshake: every handshake precedes the first fallible call of its Close.  Not modelled.
  A-once    Index.Close's `closeOnce` and MultihashPrimary.Close's `mp.closed` test are not modelled: through
            Store.Close each is reached at most once (guarded by `open`).  (Observation: `mp.closed` is never set, so
            calling MultihashPrimary.Close directly twice with GC enabled closes `gc.stop` twice and panics.)
  A-fd      descriptors (file.Close, fileCache.Clear) are not in this model; see the FileCache model (C14) and the
            harness' resource view.

Variant flags: `waitForCycle` (true = the code; false = the loop returns on stop WITHOUT `<-gcDone`) and `lateStart`.
-/
namespace Sth.Life

inductive Thread where
  | closer | flusher | igcLoop | igcCycle | pgcLoop | pgcCycle
deriving DecidableEq, Repr

/-- program counter of the caller of Store.Close; the name says what the NEXT step does -/
inductive CPc where
  | idle            -- Close not called yet.  next: stateLk section (open := false, read+clear running)
  | signalFlusher   -- next: close(s.closing)
  | waitFlusher     -- next: <-s.closed
  | stopPgc         -- Primary.Close: next: gcMutex; if mp.gc ≠ nil: close(gc.stop)
  | waitPgc         -- next: <-gc.done
  | primaryFlush    -- next: mp.Flush (FS step), file.Close
  | stopIgc         -- Index.Close: next: if idx.gcStop ≠ nil: close(idx.gcStop)
  | waitIgc         -- next: <-idx.gcDone
  | indexFlush      -- next: idx.Flush (FS step), file.Close
  | indexSnapshot   -- next: saveBucketState (FS step)
  | freelistClose   -- next: fileCache.Clear, freelist.Close (FS step: flush)
  | ret             -- next: return cerr
  | returned        -- Close has returned.  next (if scheduled): Close again
deriving DecidableEq, Repr

/-- position in Close, for "at or after" statements -/
def CPc.rank : CPc → Nat
  | .idle => 0 | .signalFlusher => 1 | .waitFlusher => 2 | .stopPgc => 3 | .waitPgc => 4 | .primaryFlush => 5
  | .stopIgc => 6 | .waitIgc => 7 | .indexFlush => 8 | .indexSnapshot => 9 | .freelistClose => 10 | .ret => 11
  | .returned => 12

inductive FlPc where
  | absent | idle | flushing | terminated
deriving DecidableEq, Repr

inductive LPc where
  | absent        -- GC disabled: the goroutine was never started
  | waiting       -- at the `select`
  | stopping      -- received from stop, called cancel(); next: `if gcDone != nil { <-gcDone }; return`
  | terminated    -- deferred close(done) has run
deriving DecidableEq, Repr

inductive CyPc where
  | none          -- no cycle goroutine was spawned yet
  | running
  | finished      -- the last spawned cycle has closed its gcDone
deriving DecidableEq, Repr

def FlPc.live : FlPc → Bool | .idle | .flushing => true | _ => false
def LPc.live : LPc → Bool | .waiting | .stopping => true | _ => false
def CyPc.live : CyPc → Bool | .running => true | _ => false

/-- one collector (the index one and the primary one have the same shape) -/
structure GCSt where
  enabled : Bool := false            -- idx.gcStop ≠ nil / mp.gc ≠ nil  (never changes)
  loop : LPc := .absent
  cycle : CyPc := .none
  stop : Bool := false               -- the stop channel is closed            (idx.gcStop / gc.stop)
  done : Bool := false               -- the loop's done channel is closed     (idx.gcDone / gc.done)
  cycDone : Option Bool := none      -- the loop-local `gcDone`: nil / some false = open / some true = closed
  cancelled : Bool := false          -- cancel() of the loop's context was called
deriving DecidableEq, Repr

inductive GCAct where
  | timer | reap | stop | exit       -- the loop
  | fs | poll | finish               -- the cycle
deriving DecidableEq, Repr

/-- one step of a collector; the Bool says whether the step is a file-system step (by the cycle) -/
def gcStep (waitForCycle : Bool) (g : GCSt) : GCAct → Option (GCSt × Bool)
  | .timer =>   -- case <-t.C: gcDone = make(chan); go func(){ defer close(gcDone) … }()
    if g.loop = .waiting ∧ g.cycDone = none then some ({ g with cycDone := some false, cycle := .running }, false)
    else none
  | .reap =>    -- case <-gcDone: gcDone = nil; t.Reset(interval)
    if g.loop = .waiting ∧ g.cycDone = some true then some ({ g with cycDone := none }, false) else none
  | .stop =>    -- case <-stop: cancel()
    if g.loop = .waiting ∧ g.stop = true then some ({ g with cancelled := true, loop := .stopping }, false) else none
  | .exit =>    -- if gcDone != nil { <-gcDone }; return  ⇒ deferred close(done)
    if g.loop = .stopping ∧ (g.cycDone ≠ some false ∨ waitForCycle = false) then
      some ({ g with loop := .terminated, done := true }, false)
    else none
  | .fs =>      -- mark / merge / truncate / header write / unlink
    if g.cycle = .running then some (g, true) else none
  | .poll =>    -- ctx.Err() != nil ⇒ return ⇒ deferred close(gcDone)
    if g.cycle = .running ∧ g.cancelled = true then some ({ g with cycle := .finished, cycDone := some true }, false)
    else none
  | .finish =>  -- normal end / time limit / error ⇒ deferred close(gcDone)
    if g.cycle = .running then some ({ g with cycle := .finished, cycDone := some true }, false) else none

structure Config where
  started : Bool := false      -- Start was called before the schedule begins (it may also be called during it)
  indexGC : Bool := false      -- index GC interval ≠ 0
  primaryGC : Bool := false    -- multihash primary with a freelist and GC interval ≠ 0
deriving DecidableEq, Repr

structure State where
  waitForCycle : Bool := true
  lateStart : Bool := false
  isOpen : Bool := true              -- s.open
  running : Bool := false            -- s.running
  closing : Bool := false            -- channel s.closing is closed
  closed : Bool := false             -- channel s.closed is closed
  flushNow : Bool := false           -- the 1-slot channel holds a token
  closer : CPc := .idle
  flusher : FlPc := .absent
  igc : GCSt := {}
  pgc : GCSt := {}
  clock : Nat := 0                   -- ghost: number of steps executed so far
  fs : List (Thread × Nat) := []     -- ghost: file-system steps (author, clock), newest first
  closeReturnedAt : Option Nat := none   -- ghost: clock at which the closer's Close returned
deriving DecidableEq, Repr

/-- the names used in the Go code / in DESIGN for the individual channels and contexts -/
abbrev State.gcStop (s : State) := s.igc.stop
abbrev State.gcDone (s : State) := s.igc.done
abbrev State.igcCycleDone (s : State) := s.igc.cycDone
abbrev State.cancelI (s : State) := s.igc.cancelled
abbrev State.pStop (s : State) := s.pgc.stop
abbrev State.pDone (s : State) := s.pgc.done
abbrev State.pgcCycleDone (s : State) := s.pgc.cycDone
abbrev State.cancelP (s : State) := s.pgc.cancelled

inductive GC where
  | index | primary
deriving DecidableEq, Repr

inductive FlAct where
  | take | fs | done | exit
deriving DecidableEq, Repr

inductive Step where
  | closer                       -- the closer's next step
  | close2                       -- a Close call by another thread (A-close2)
  | start                        -- a Start call (A-start)
  | tick                         -- a token arrives in flushNow (A-flush)
  | fl (a : FlAct)               -- the flusher
  | gc (g : GC) (a : GCAct)      -- a collector's loop or cycle
deriving DecidableEq, Repr

def tick (s : State) : State := { s with clock := s.clock + 1 }
def logFs (t : Thread) (s : State) : State := { s with fs := (t, s.clock) :: s.fs }

def closerStep (s : State) : Option State :=
  match s.closer with
  | .idle =>
    if s.isOpen then
      some (tick { s with isOpen := false, running := false,
                          closer := if s.running then .signalFlusher else .stopPgc })
    else none
  | .signalFlusher => some (tick { s with closing := true, closer := .waitFlusher })
  | .waitFlusher => if s.closed then some (tick { s with closer := .stopPgc }) else none
  | .stopPgc =>
    if s.pgc.enabled then some (tick { s with pgc := { s.pgc with stop := true }, closer := .waitPgc })
    else some (tick { s with closer := .primaryFlush })
  | .waitPgc => if s.pgc.done then some (tick { s with closer := .primaryFlush }) else none
  | .primaryFlush => some (tick (logFs .closer { s with closer := .stopIgc }))
  | .stopIgc =>
    if s.igc.enabled then some (tick { s with igc := { s.igc with stop := true }, closer := .waitIgc })
    else some (tick { s with closer := .indexFlush })
  | .waitIgc => if s.igc.done then some (tick { s with closer := .indexFlush }) else none
  | .indexFlush => some (tick (logFs .closer { s with closer := .indexSnapshot }))
  | .indexSnapshot => some (tick (logFs .closer { s with closer := .freelistClose }))
  | .freelistClose => some (tick (logFs .closer { s with closer := .ret }))
  | .ret => some (tick { s with closer := .returned, closeReturnedAt := some s.clock })
  | .returned =>
    -- Close again: `if !s.open { return nil }`.  (`open` is never set again: a reopened store is a new Store.)
    if s.isOpen then none else some (tick s)

def flStep (s : State) : FlAct → Option State
  | .take =>   -- case <-s.flushNow: s.Flush()
    if s.flusher = .idle ∧ s.flushNow = true then some (tick { s with flushNow := false, flusher := .flushing })
    else none
  | .fs =>     -- commit: primary flush / index flush / freelist flush / syncs
    if s.flusher = .flushing then some (tick (logFs .flusher s)) else none
  | .done => if s.flusher = .flushing then some (tick { s with flusher := .idle }) else none
  | .exit =>   -- case <-s.closing: return ⇒ deferred close(s.closed)
    if s.flusher = .idle ∧ s.closing = true then some (tick { s with flusher := .terminated, closed := true })
    else none

/-- one step; `none` = the step is not enabled (blocked, or no such thread) -/
def step (s : State) : Step → Option State
  | .closer => closerStep s
  | .close2 => if s.isOpen then none else some (tick s)
  | .start =>
    if s.isOpen = true ∨ s.lateStart = true then
      (if s.running then some (tick s) else some (tick { s with running := true, flusher := .idle }))
    else none
  | .tick => some (tick { s with flushNow := true })
  | .fl a => flStep s a
  | .gc .index a =>
    match gcStep s.waitForCycle s.igc a with
    | none => none
    | some (g, isFs) => some (tick (if isFs then logFs .igcCycle { s with igc := g } else { s with igc := g }))
  | .gc .primary a =>
    match gcStep s.waitForCycle s.pgc a with
    | none => none
    | some (g, isFs) => some (tick (if isFs then logFs .pgcCycle { s with pgc := g } else { s with pgc := g }))

/-- run a schedule; steps that are not enabled are skipped (the thread stays where it is) -/
def run (s : State) (sched : List Step) : State :=
  sched.foldl (fun s st => (step s st).getD s) s

def initGC (enabled : Bool) : GCSt :=
  { enabled := enabled, loop := if enabled then .waiting else .absent }

def init (cfg : Config) (waitForCycle : Bool := true) (lateStart : Bool := false) : State :=
  { waitForCycle := waitForCycle, lateStart := lateStart,
    running := cfg.started, flusher := if cfg.started then .idle else .absent,
    igc := initGC cfg.indexGC, pgc := initGC cfg.primaryGC }

/-- the background goroutines that are alive -/
def bg (s : State) : List Thread :=
  (if s.flusher.live then [Thread.flusher] else []) ++
  (if s.igc.loop.live then [Thread.igcLoop] else []) ++ (if s.igc.cycle.live then [Thread.igcCycle] else []) ++
  (if s.pgc.loop.live then [Thread.pgcLoop] else []) ++ (if s.pgc.cycle.live then [Thread.pgcCycle] else [])

end Sth.Life
