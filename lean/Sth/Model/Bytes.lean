/-
L0: byte strings, lexicographic order, prefixes, little-endian codecs.

Mirrors: bytes.Compare / bytes.HasPrefix (Go stdlib), firstNonCommonByte (store/index/index.go),
binary.LittleEndian.{PutUint32,PutUint64,Uint32,Uint64}.

Bytes are `Nat`; well-formedness (`< 256`) is a separate predicate used only by codec theorems.
Core Lean only (the driver links against this file).
-/

namespace Sth

abbrev Key := List Nat
abbrev Bytes := List Nat

/-- `klt a b` ⇔ `bytes.Compare(a, b) == -1` -/
def klt : Key → Key → Prop
  | [], [] => False
  | [], _ :: _ => True
  | _ :: _, [] => False
  | a :: as, b :: bs => a < b ∨ (a = b ∧ klt as bs)

/-- `pfx a b` ⇔ `bytes.HasPrefix(b, a)`  ("a is a prefix of b") -/
def pfx : Key → Key → Prop
  | [], _ => True
  | _ :: _, [] => False
  | a :: as, b :: bs => a = b ∧ pfx as bs

def apart (a b : Key) : Prop := ¬ pfx a b ∧ ¬ pfx b a

/-- firstNonCommonByte: length of the longest common prefix -/
def fncb : Key → Key → Nat
  | a :: as, b :: bs => if a = b then fncb as bs + 1 else 0
  | _, _ => 0

instance instDecidableKlt : (a b : Key) → Decidable (klt a b)
  | [], [] => isFalse (by simp [klt])
  | [], _ :: _ => isTrue (by simp [klt])
  | _ :: _, [] => isFalse (by simp [klt])
  | a :: as, b :: bs =>
    have := instDecidableKlt as bs
    by unfold klt; exact inferInstance

instance instDecidablePfx : (a b : Key) → Decidable (pfx a b)
  | [], _ => isTrue (by simp [pfx])
  | _ :: _, [] => isFalse (by simp [pfx])
  | a :: as, b :: bs =>
    have := instDecidablePfx as bs
    by unfold pfx; exact inferInstance

instance (a b : Key) : Decidable (apart a b) := by unfold apart; exact inferInstance

/-- all bytes in range -/
def bytesOK (b : Bytes) : Prop := ∀ x ∈ b, x < 256

instance (b : Bytes) : Decidable (bytesOK b) := by unfold bytesOK; exact inferInstance

/-- little-endian encoding of `n` in `w` bytes (truncating, like Go's conversion to uintN) -/
def leEnc : Nat → Nat → Bytes
  | 0, _ => []
  | w + 1, n => (n % 256) :: leEnc w (n / 256)

/-- little-endian decoding of all given bytes -/
def leDec : Bytes → Nat
  | [] => 0
  | b :: bs => b + 256 * leDec bs

def le32 (n : Nat) : Bytes := leEnc 4 n
def le64 (n : Nat) : Bytes := leEnc 8 n

/-- read a little-endian unsigned of `w` bytes at offset `pos`; `none` if out of range (Go: panic / short read) -/
def readLE (w : Nat) (data : Bytes) (pos : Nat) : Option Nat :=
  let s := (data.drop pos).take w
  if s.length = w then some (leDec s) else none

def two31 : Nat := 2147483648
def two32 : Nat := 4294967296
def two64 : Nat := 18446744073709551616

def hexDigit (n : Nat) : Char :=
  if n < 10 then Char.ofNat (48 + n) else Char.ofNat (87 + n)

def toHex (b : Bytes) : String :=
  String.ofList (b.flatMap fun x => [hexDigit ((x / 16) % 16), hexDigit (x % 16)])

def hexVal (c : Char) : Option Nat :=
  if '0' ≤ c ∧ c ≤ '9' then some (c.toNat - 48)
  else if 'a' ≤ c ∧ c ≤ 'f' then some (c.toNat - 87)
  else if 'A' ≤ c ∧ c ≤ 'F' then some (c.toNat - 55)
  else none

def fromHexAux : List Char → Option Bytes
  | [] => some []
  | [_] => none
  | a :: b :: rest => do
    let x ← hexVal a
    let y ← hexVal b
    let r ← fromHexAux rest
    pure ((x * 16 + y) :: r)

def fromHex (s : String) : Option Bytes := fromHexAux s.toList

end Sth
