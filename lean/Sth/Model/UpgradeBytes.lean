/-
C10: the legacy upgrade at byte level — what an upgrading `OpenStore` (multihash primary) does to a
directory that still holds the legacy single files.

Mirrors, statement for statement:
  store/store.go                       OpenStore (freelist.Open, mhprimary.Open, index.Open)
  store/freelist/freelist.go           Open (cut a torn entry), ToGC
  store/primary/multihash/upgrade.go   upgradePrimary, applyFreeList, chunkOldPrimary, NewIndexRemapper, RemapOffset
  store/primary/multihash/multihash.go Open (header missing ⇒ upgrade, header written, last file opened with O_CREATE)
  store/index/upgrade.go               upgradeIndex, readOldHeader, chunkOldIndex
  store/index/index.go                 Open (upgradeIndex, header, scan, `PrimaryFileSize == 0` ⇒ remapIndex,
                                       removal pool flushed inside Open), remapIndex
and /verif/go/legacy.go (`legacyOf` = writeLegacyStore).

How the two chunkers are modelled.  Both Go loops read one record and write it, and start a new numbered
file once the bytes written to the current one reach the limit.  The model separates the two halves: the
READING half is `parseOldPrimary` / `parseOldIndex` (byte-exact, including where the loops stop and what
they refuse), the WRITING half is `chunk` of Sth/Model/Upgrade.lean (`chunkFiles` adds the two things the
code does around it: the empty file it has already created when the last record filled its chunk, and -
before the repair recorded as D31 in KNOWN_FINDINGS - the size prefix of a torn last record that stayed in
the last file; `chunkFiles` keeps its `stray` parameter, which is now always []).

Quirks that are modelled because the code has them:
  * chunkOldPrimary does not read the body of a record whose size prefix carries the deleted bit: it
    writes whatever its scratch buffer holds (zeros, or the bytes of earlier records).  `parseOldPrimary`
    carries the scratch buffer.
  * chunkOldPrimary stops silently at a torn tail and copies nothing of the torn record (repaired code; it
    used to write the 4-byte size prefix before trying to read the data: D31); chunkOldIndex refuses a torn
    tail with an error.
  * applyFreeList skips an entry only when `offset > size`; an entry with `offset == size` (or inside the
    last three bytes, or ≥ 2^63) makes ReadAt fail and the whole Open fails.
  * remapIndex rewrites only the record list each bucket currently points at (earlier generations keep
    their linear offsets — they are garbage for index GC); an offset that RemapOffset rejects is
    rewritten to 0 in the file, and the bucket's list without those entries goes to a pool that
    index.Open flushes itself before it returns (Go map order = parameter `order`).  So the directory
    right after Open already contains the cleaned-up record lists at the end of the last index file,
    the pools are empty, `Store.Flush` right after finds no outstanding work and changes nothing:
    `upgradeStoreFlushed = upgradeStore`.
  * NewIndexRemapper returns no remapper when the upgraded primary is a single file below the limit:
    offsets are already right, the header is stamped, and out-of-range ("bad") entries STAY in the index
    (they are dropped lazily by the first Get/Put that meets them).
  * RemapOffset converts the u64 offset to int64 first: an offset ≥ 2^63 is "inside the first file".

Not modelled (returns `none`, although the code goes on): a configuration whose bit size differs from the
legacy index's — the first index.Open upgrades the index files, answers ErrIndexWrongBitSize BEFORE the
remap, and OpenStore continues with translateIndex (Sth/Model/Translate.lean); and the CID primary (it
would open `storethehash.data` as its own file).  A malformed record list met by remapIndex makes the Go
code panic (slice bounds); the model refuses.

Core Lean only.
-/
import Sth.Model.Upgrade
import Sth.Model.Recover
import Sth.Model.Machine

namespace Sth

/-- a directory in the legacy formats -/
structure LegacyDir where
  data : Bytes                 -- storethehash.data        unversioned single-file primary
  index : Bytes                -- storethehash.index       version-2 single-file index
  free : Option Bytes := none  -- storethehash.index.free  freelist with linear offsets
deriving DecidableEq, Repr

/-- a directory during an upgrade: legacy files that still exist, everything in the new formats, and the
    work files of remapIndex -/
structure UDir where
  data : Option Bytes := none      -- storethehash.data
  index : Option Bytes := none     -- storethehash.index
  disk : Disk := {}
  tmp : NMap Bytes := []           -- storethehash.index.N.tmp
  marked : List Nat := []          -- storethehash.index.N.remapped
deriving DecidableEq, Repr

def UDir.ofLegacy (L : LegacyDir) : UDir :=
  { data := some L.data, index := some L.index, disk := { free := L.free } }

/-! ### freelist: ToGC and applyFreeList -/

/-- FreeList.ToGC (pool empty): an existing `.free.gc` is kept and returned; otherwise `.free` is renamed
    to it and a new empty `.free` is created -/
def toGCU (d : Disk) : Disk :=
  match d.freeGc with
  | some _ => d
  | none => { d with freeGc := some (d.free.getD []), free := some [] }

/-- freelist.Iterator: the offsets of the whole 12-byte entries (a torn last entry ends the iteration) -/
def flOffsets : Nat → Bytes → List Nat
  | 0, _ => []
  | n + 1, fl => if fl.length < 12 then [] else leDec (fl.take 8) :: flOffsets n (fl.drop 12)

def freeOffsets (fl : Bytes) : List Nat := flOffsets (fl.length / 12) fl

/-- the loop of applyFreeList on the old primary: set the deleted bit of the size prefix at every offset.
    `none` = the function returns an error (ReadAt fails) -/
def markFreed (data : Bytes) : List Nat → Option Bytes
  | [] => some data
  | off :: rest =>
    if off ≥ two64 / 2 then none              -- int64(offset) < 0: ReadAt fails
    else if off > data.length then markFreed data rest
    else
      match readAt data off 4 with
      | none => none
      | some sb =>
        let recSize := leDec sb
        if recSize ≥ two31 then markFreed data rest
        else markFreed (writeAt data off (le32 (recSize + two31))) rest

/-! ### chunking -/

/-- the reading half of chunkOldPrimary from `pos`: the records as they are WRITTEN (size prefix as read,
    then the body — for a deleted record the scratch buffer's bytes), and the bytes written for a torn
    last record (none since the repair D31; before it, its size prefix).  `scratch` is the Go scratch buffer. -/
def parseOldPrimary (file : Bytes) : Nat → Nat → Bytes → List Bytes × Bytes
  | 0, _, _ => ([], [])
  | fuel + 1, pos, scratch =>
    match readAt file pos 4 with
    | none => ([], [])
    | some sb =>
      let raw := leDec sb
      let del := raw ≥ two31
      let size := if del then raw - two31 else raw
      let scratch := if size > scratch.length then List.replicate size 0 else scratch
      if del then
        let (rs, stray) := parseOldPrimary file fuel (pos + 4 + size) scratch
        ((sb ++ scratch.take size) :: rs, stray)
      else
        match readAt file (pos + 4) size with
        | none => ([], [])      -- torn last record: nothing of it is copied (repaired code, KNOWN_FINDINGS D31)
        | some body =>
          let (rs, stray) := parseOldPrimary file fuel (pos + 4 + size) (body ++ scratch.drop size)
          ((sb ++ body) :: rs, stray)

/-- the reading half of chunkOldIndex from `pos`: whole records, `none` on a torn tail (the code returns
    an error) -/
def parseOldIndex (file : Bytes) : Nat → Nat → Option (List Bytes)
  | 0, _ => some []
  | fuel + 1, pos =>
    match readAt file pos 4 with
    | none => if availAt file pos 4 = 0 then some [] else none
    | some sb =>
      match readAt file (pos + 4 + 0) (leDec sb) with
      | none => none
      | some body => (parseOldIndex file fuel (pos + 4 + leDec sb)).map ((sb ++ body) :: ·)

/-- the files the chunkers leave behind (numbered from 0): the chunks of `chunk`; plus the empty file that
    has already been created when the last record filled its chunk; `stray` (bytes written for a torn last
    record) reaches the last file only if that file already holds a record — otherwise the writer is never
    flushed. With no record at all there is the one empty file 0. -/
def chunkFiles (limit : Nat) (recs : List Bytes) (stray : Bytes) : List Bytes :=
  let cs := (chunk limit recs).map List.flatten
  match cs.getLast? with
  | none => [[]]
  | some last => if last.length ≥ limit then cs ++ [[]] else cs.dropLast ++ [last ++ stray]

/-- createFileAppend (O_CREATE|O_TRUNC) for consecutive file numbers -/
def setFiles (m : NMap Bytes) : Nat → List Bytes → NMap Bytes
  | _, [] => m
  | n, f :: fs => setFiles (m.set n f) (n + 1) fs

/-! ### the primary: mhprimary.Open with upgradePrimary -/

def scratch0 : Bytes := List.replicate 1024 0

/-- mhprimary.Open: (directory, maxFileSize, last file number, its length); `none` = Open fails -/
def openPrimaryU (c : Cfg) (ud : UDir) : Option (UDir × Nat × Nat × Nat) :=
  let pmax := if c.pfs = 0 then defaultMax else c.pfs
  if pmax > defaultMax then none else
  match ud.disk.phdr, ud.data with
  | none, some data =>
    -- upgradePrimary: applyFreeList, chunkOldPrimary, header, remove the old file
    let d := toGCU ud.disk
    match markFreed data (freeOffsets (d.freeGc.getD [])) with
    | none => none
    | some data =>
      let d := { d with freeGc := none }
      let (recs, stray) := parseOldPrimary data (data.length + 1) 0 scratch0
      let files := chunkFiles pmax recs stray
      -- an empty old primary creates no file; Open's O_CREATE then makes file 0 (keeping an existing one)
      let pfiles := if data.isEmpty then (if d.pfiles.has 0 then d.pfiles else d.pfiles.set 0 []) else setFiles d.pfiles 0 files
      let last := if data.isEmpty then 0 else files.length - 1
      some ({ ud with data := none, disk := { d with pfiles := pfiles, phdr := some ⟨pmax, 0⟩ } },
            pmax, last, (fileOf pfiles last).length)
  | _, _ =>
    match openPrimary { c with kind := .mh } ud.disk with
    | .error _ => none
    | .ok (d, pmax, pfn, plen) => some ({ ud with disk := d }, pmax, pfn, plen)

/-! ### the index: upgradeIndex -/

/-- readOldHeader: (version, bucket bits, where the records start) -/
def readOldHeader (f : Bytes) : Option (Nat × Nat × Nat) :=
  match readAt f 0 4 with
  | none => none
  | some sb =>
    match readAt f 4 (leDec sb) with
    | none => none
    | some hb =>
      match hb with
      | v :: b :: _ => some (v, b, 4 + leDec sb)
      | _ => none

/-- upgradeIndex with file-size limit `upmax` -/
def upgradeIndexU (upmax : Nat) (ud : UDir) : Option UDir :=
  match ud.index with
  | none => some ud
  | some f =>
    match readOldHeader f with
    | none => none
    | some (v, bits, start) =>
      if v ≠ 2 then none else
      match parseOldIndex f (f.length + 1) start with
      | none => none
      | some recs =>
        some { ud with index := none,
                       disk := { ud.disk with ifiles := setFiles ud.disk.ifiles 0 (chunkFiles upmax recs []),
                                              ihdr := some ⟨bits, upmax, 0, 0⟩ } }

/-! ### remapIndex -/

/-- NewIndexRemapper: sizes of the primary files `n, n+1, …` while they exist, at most `fuel` of them -/
def primarySizes (pfiles : NMap Bytes) : Nat → Nat → List Nat
  | 0, _ => []
  | fuel + 1, n =>
    match pfiles.get? n with
    | none => []
    | some f => f.length :: primarySizes pfiles fuel (n + 1)

/-- IndexRemapper.RemapOffset, including the int64 conversion of the offset -/
def remapOff (first max : Nat) (sizes : List Nat) (off : Nat) : Option Nat :=
  if off ≥ two64 / 2 then (if sizes.isEmpty then none else some ((max * first + off) % two64))
  else remapOffset first max sizes off

def remapEntry (remap : Nat → Option Nat) (e : Entry) : Option Entry :=
  (remap e.blk.off).map fun o => ⟨e.pfx, ⟨o, e.blk.size⟩⟩

/-- one bucket of remapIndex on the work copy `file`: the record list at local position `lp` is rewritten
    in place (rejected offsets become 0); when an offset was rejected, the list without those entries is
    returned for the removal pool -/
def remapBucket (remap : Nat → Option Nat) (file : Bytes) (lp : Nat) : Option (Bytes × Option RecordList) :=
  if lp < 4 then none else
  match readU32 file (lp - 4) with
  | none => none
  | some size =>
    match readAt file lp size with
    | none => none
    | some data =>
      if size < 4 then none else
      let (rl, exact) := decodeRL (data.drop 4)
      if !exact then none else
      let inPlace : RecordList := rl.map fun e => ⟨e.pfx, ⟨(remap e.blk.off).getD 0, e.blk.size⟩⟩
      some (writeAt file lp (data.take 4 ++ encodeRL inPlace),
            if rl.all fun e => (remap e.blk.off).isSome then none else some (rl.filterMap (remapEntry remap)))

/-- all buckets of index file `f` (ascending bucket numbers, as `fileBuckets[f]` is built) -/
def remapFile (remap : Nat → Option Nat) (imax : Nat) (bk : NMap Nat) (f : Nat) (file : Bytes) :
    Option (Bytes × NMap RecordList) :=
  bk.foldlM (fun (acc : Bytes × NMap RecordList) (bp : Nat × Nat) =>
    if bp.2 = 0 then some acc else
    if (localizeIdx imax bp.2).2 ≠ f then some acc else
    match remapBucket remap acc.1 (localizeIdx imax bp.2).1 with
    | none => none
    | some (file', rm) => some (file', match rm with | some rl => acc.2.set bp.1 rl | none => acc.2)) (file, [])

/-- the index files that hold a bucket's current record list, ascending, without duplicates -/
def bucketFiles (imax : Nat) (bk : NMap Nat) : List Nat :=
  let fs := (bk.filter (·.2 ≠ 0)).map fun bp => (localizeIdx imax bp.2).2
  (fs.foldl (fun (acc : NMap Unit) f => acc.set f ()) []).keys

/-- one file of remapIndex: skip if marked; copy to .tmp; rewrite; create the marker; rename -/
def remapOneFile (remap : Nat → Option Nat) (imax : Nat) (bk : NMap Nat)
    (acc : UDir × NMap RecordList) (f : Nat) : Option (UDir × NMap RecordList) :=
  let (ud, pool) := acc
  if ud.marked.contains f then some acc else
  match ud.disk.ifiles.get? f with
  | none => none
  | some file =>
    match remapFile remap imax bk f file with
    | none => none
    | some (file', rm) =>
      some ({ ud with disk := { ud.disk with ifiles := ud.disk.ifiles.set f file' }, tmp := ud.tmp.del f,
                      marked := f :: ud.marked },
            rm.foldl (fun p (b, rl) => p.set b rl) pool)

/-- NewIndexRemapper returns a remapper unless there is no primary file, or a single one below the limit -/
def needRemap (pmax : Nat) : List Nat → Bool
  | [] => false
  | [s] => decide (pmax ≤ s)
  | _ => true

/-- remapIndex: (directory, removal pool). `pfirst`, `pfn`: first and current file number of the primary.
    `forder`: Go map order of the files (irrelevant for the result; it matters for the intermediate
    directories only) -/
def remapIndexU (ud : UDir) (h : IdxHeader) (pmax pfirst pfn : Nat) (bk : NMap Nat) (forder : List Nat) :
    Option (UDir × NMap RecordList) :=
  let sizes := primarySizes ud.disk.pfiles (pfn + 1 - pfirst) pfirst
  if !needRemap pmax sizes then
    some ({ ud with disk := { ud.disk with ihdr := some { h with pfs := pmax } } }, [])
  else
    let files := fixOrder forder (bucketFiles h.max bk)
    match files.foldlM (remapOneFile (remapOff pfirst pmax sizes) h.max bk) (ud, []) with
    | none => none
    | some (ud, pool) =>
      some ({ ud with disk := { ud.disk with ihdr := some { h with pfs := pmax } },
                      marked := ud.marked.filter (!files.contains ·) }, pool)

/-! ### index.Open and OpenStore -/

/-- index.Open (multihash primary): (directory, bits, maxFileSize, buckets, last file, removal pool).
    Header present with `PrimaryFileSize = 0` ⇒ the loading part is `openIndex` of Sth/Model/Store.lean
    (asked for primary size 0 so that its header check passes), then remapIndex. -/
def openIndexU (c : Cfg) (pmax pfirst pfn : Nat) (ud : UDir) (forder : List Nat) :
    Option (UDir × Nat × Nat × NMap Nat × Nat × NMap RecordList) :=
  if c.bits ≠ 0 ∧ (c.bits > 31 ∨ c.bits < 8) then none else
  if c.ifs > defaultMax then none else
  match upgradeIndexU (if c.ifs = 0 then defaultMax else c.ifs) ud with
  | none => none
  | some ud =>
    match ud.disk.ihdr with
    | some h =>
      if h.pfs = 0 then
        match openIndex { c with kind := .mh } 0 ud.disk with
        | .error _ => none
        | .ok (d, bits, imax, bk, last) =>
          match remapIndexU { ud with disk := d } h pmax pfirst pfn bk forder with
          | none => none
          | some (ud, pool) => some (ud, bits, imax, bk, last, pool)
      else
        match openIndex { c with kind := .mh } pmax ud.disk with
        | .error _ => none
        | .ok (d, bits, imax, bk, last) => some ({ ud with disk := d }, bits, imax, bk, last, [])
    | none =>
      match openIndex { c with kind := .mh } pmax ud.disk with
      | .error _ => none
      | .ok (d, bits, imax, bk, last) => some ({ ud with disk := d }, bits, imax, bk, last, [])

/-- OpenStore (multihash primary) on a directory that may hold legacy files or an interrupted upgrade:
    the directory and the memory state when it returns; `none` = OpenStore fails (or a case listed as not
    modelled in the header). `order`: Go map order of the removal pool's flush; `forder`: of the files in
    remapIndex. -/
def openU (c : Cfg) (ud : UDir) (order forder : List Nat) : Option (UDir × Mem) :=
  if c.kind ≠ .mh then none else
  let ud := { ud with disk := openFreelist ud.disk }
  match openPrimaryU c ud with
  | none => none
  | some (ud, pmax, pfn, plen) =>
    let pfirst := match ud.disk.phdr with | some h => h.first | none => 0
    match openIndexU c pmax pfirst pfn ud forder with
    | none => none
    | some (ud, bits, imax, bk, last, pool) =>
      let m : Mem := { kind := .mh, imm := c.imm, bits := bits, imax := imax, buckets := bk,
                       ifileNum := last, ilength := (fileOf ud.disk.ifiles last).length,
                       pmax := pmax, pfileNum := pfn, plength := plen, precFileNum := pfn, precPos := plen }
      if pool.isEmpty then some (ud, m) else
      -- idx.nextPool = rmPool; idx.Flush(); idx.curPool = nil
      let (m, d) := idxFlush { m with inext := pool } ud.disk (fixOrder order pool.keys)
      some ({ ud with disk := d }, { m with icur := [] })

/-- the upgrading OpenStore on a legacy directory: directory and memory state -/
def upgradeOpen (c : Cfg) (L : LegacyDir) (order : List Nat) : Option (Disk × Mem) :=
  match openU c (UDir.ofLegacy L) order [] with
  | none => none
  | some (ud, m) => some (ud.disk, m)

/-- the directory after a successful upgrading OpenStore, with the removal pool flushed in the map order
    `order` (an `order` that is not a permutation of the pool's buckets is replaced by ascending buckets) -/
def upgradeStoreWith (c : Cfg) (L : LegacyDir) (order : List Nat) : Option Disk :=
  (upgradeOpen c L order).map (·.1)

/-- the directory after a successful upgrading OpenStore (removal pool flushed in ascending bucket order) -/
def upgradeStore (c : Cfg) (L : LegacyDir) : Option Disk := upgradeStoreWith c L []

/-- … and after the first Store.Flush that follows (no outstanding work: the same directory) -/
def upgradeStoreFlushed (c : Cfg) (L : LegacyDir) : Option Disk :=
  match upgradeOpen c L [] with
  | none => none
  | some (d, m) => (storeFlush m d []).map (·.2)

/-! ### the harness's legacy writer (/verif/go/legacy.go writeLegacyStore) -/

def insertEntry (e : Entry) : List Entry → List Entry
  | [] => [e]
  | x :: xs => if klt e.pfx x.pfx then e :: x :: xs else x :: insertEntry e xs

def sortEntries (es : List Entry) : List Entry := es.foldr insertEntry []

/-- linear offsets of the records `[u32 size][key][value]` -/
def legacyOffsets : List (Bytes × Bytes) → Nat → List Nat
  | [], _ => []
  | kv :: rest, pos => pos :: legacyOffsets rest (pos + 4 + kv.1.length + kv.2.length)

def legacyPrimary (recs : List (Bytes × Bytes)) : Bytes :=
  recs.flatMap fun kv => le32 (kv.1.length + kv.2.length) ++ kv.1 ++ kv.2

def idxRecordBytes (b : Nat) (rl : RecordList) : Bytes :=
  le32 ((encodeRL rl).length + 4) ++ le32 b ++ encodeRL rl

/-- writeLegacyStore: `recs` key/value pairs in primary order (keys are multihashes with one-byte code and
    length); `freed`: indexes of records not in the index and named by the freelist; `bad`: indexes whose
    index entry carries an offset beyond the end of the primary; `gone`: in the primary and nowhere else;
    `stale`: write an earlier generation (without its last entry) of every bucket with several entries. -/
def legacyOf (bits : Nat) (recs : List (Bytes × Bytes)) (freed bad gone : List Nat) (stale : Bool) : LegacyDir :=
  let primary := legacyPrimary recs
  let offs := legacyOffsets recs 0
  let items := (List.range recs.length).zip (recs.zip offs)
  let buckets : NMap (List Entry) := items.foldl (fun bk (i, kv, off) =>
    if freed.contains i || gone.contains i then bk else
    let dig := kv.1.drop 2
    let b := leDec (dig.take 4) % 2 ^ bits
    let off := if bad.contains i then primary.length + 17 + i else off
    bk.set b ((bk.get? b).getD [] ++ [⟨dig.drop (bits / 8), ⟨off, kv.1.length + kv.2.length⟩⟩])) []
  let staleRecs := if stale then buckets.flatMap fun (b, es) =>
      if es.length > 1 then idxRecordBytes b (sortEntries es.dropLast) else []
    else []
  let cur := buckets.flatMap fun (b, es) => idxRecordBytes b (sortEntries es)
  let fl := (items.filter fun (i, _, _) => freed.contains i).flatMap fun (_, kv, off) =>
    le64 off ++ le32 (kv.1.length + kv.2.length)
  { data := primary,
    index := [2, 0, 0, 0, 2, bits % 256] ++ staleRecs ++ cur,
    free := if (items.filter fun (i, _, _) => freed.contains i).isEmpty then none else some fl }

end Sth
