/-
L5-rate: the back-pressure protocol of store/store.go (flushTick, Flush, run), as a small-step machine.

Threads: any number of writers (Put/Remove callers that reach flushTick), the store's flusher goroutine
(`run`: receives from the 1-slot channel `flushNow`, calls Flush), any number of explicit Flush callers,
and the ticker (non-blocking send on `flushNow`).  Each step is one lock section / channel operation of
the code, exactly where the `verif` hook points sit:

  writer:  measure → decide (oracle) → register (rateLk: create/get the notice) → signal (non-blocking
           send on flushNow) → wait (blocked until the notice is closed) → done
  Flush:   stamp → check (no outstanding work ⇒ close the notice [repaired code] and return; else) →
           commit (writes the work) → finish (rateLk: close and clear the notice) → idle

`work` abstracts OutstandingWork() > 0.  The model follows the repaired code (KNOWN_FINDINGS D6); the
flag `closeOnNoWork` selects the behaviour of the early-return path so that the defect can be stated too.
-/
namespace Sth.Rate

inductive WPc where
  | idle                 -- before the write
  | measure              -- write done (work added), about to read the rate
  | decide
  | register
  | signal (ch : Nat)
  | wait (ch : Nat)
  | done
deriving DecidableEq, Repr

inductive FPc where
  | idle
  | stamp
  | check
  | commit
  | finish
deriving DecidableEq, Repr

structure State where
  closeOnNoWork : Bool := true      -- repaired code: the early-return path of Flush closes the notice
  notice : Option Nat := none       -- s.flushNotice (channel id) or nil
  nextCh : Nat := 0
  closed : List Nat := []           -- closed notice channels
  flushNow : Bool := false          -- the 1-slot channel holds a token
  work : Bool := false              -- outstanding work
  writers : List WPc := []
  flushers : List FPc := []         -- index 0 is the store's flusher goroutine; the others are Flush callers
  flushesDone : Nat := 0            -- ghost: number of Flush calls that returned
deriving Repr

inductive Step where
  | w (i : Nat) (wantWait : Bool)   -- writer i moves; `wantWait` is the oracle `inRate > flushRate` (used at decide)
  | f (i : Nat)                     -- flusher i moves (0 = goroutine: its idle→stamp step needs a token)
  | tick                            -- ticker: non-blocking send on flushNow
deriving DecidableEq, Repr

def setW (s : State) (i : Nat) (pc : WPc) : State := { s with writers := s.writers.set i pc }
def setF (s : State) (i : Nat) (pc : FPc) : State := { s with flushers := s.flushers.set i pc }

/-- one step; `none` = the step is not enabled (blocked or no such thread) -/
def step (s : State) : Step → Option State
  | .tick => some { s with flushNow := true }
  | .w i wantWait =>
    match s.writers[i]? with
    | none => none
    | some pc =>
      match pc with
      | .idle => some (setW { s with work := true } i .measure)
      | .measure => some (setW s i .decide)
      | .decide => some (setW s i (if wantWait then .register else .done))
      | .register =>
        match s.notice with
        | some c => some (setW s i (.signal c))
        | none => some (setW { s with notice := some s.nextCh, nextCh := s.nextCh + 1 } i (.signal s.nextCh))
      | .signal c => some (setW { s with flushNow := true } i (.wait c))
      | .wait c => if c ∈ s.closed then some (setW s i .done) else none
      | .done => none
  | .f i =>
    match s.flushers[i]? with
    | none => none
    | some pc =>
      match pc with
      | .idle =>
        if i = 0 then (if s.flushNow then some (setF { s with flushNow := false } i .stamp) else none)
        else some (setF s i .stamp)
      | .stamp => some (setF s i .check)
      | .check =>
        if s.work then some (setF s i .commit)
        else
          let s := if s.closeOnNoWork then
              (match s.notice with
               | some c => { s with closed := c :: s.closed, notice := none }
               | none => s)
            else s
          some (setF { s with flushesDone := s.flushesDone + 1 } i .idle)
      | .commit => some (setF { s with work := false } i .finish)
      | .finish =>
        let s := match s.notice with
          | some c => { s with closed := c :: s.closed, notice := none }
          | none => s
        some (setF { s with flushesDone := s.flushesDone + 1 } i .idle)

/-- run a schedule; steps that are not enabled are skipped (the thread stays where it is) -/
def run (s : State) (sched : List Step) : State :=
  sched.foldl (fun s st => (step s st).getD s) s

def init (nWriters nFlushCallers : Nat) (closeOnNoWork : Bool := true) : State :=
  { closeOnNoWork := closeOnNoWork, writers := List.replicate nWriters .idle,
    flushers := List.replicate (nFlushCallers + 1) .idle }

/-- writer i is parked on notice c -/
def waitingOn (s : State) (i c : Nat) : Prop := s.writers[i]? = some (.wait c)

/-- some flusher is inside Flush at or before the section that closes the notice -/
def flushInProgress (s : State) : Prop := ∃ pc ∈ s.flushers, pc ≠ .idle

end Sth.Rate
