/-
L3: re-bucketing on reopen with a different index bit size (store.go translateIndex + index.MoveFiles),
and OpenStore as a whole (freelist repair, primary, index with translation).

translateIndex opens the old index with its own bit size, iterates every live entry in bucket order,
re-inserts `(GetIndexKey(block), block)` into a fresh index with the new bit size (everything stays in
that index's pool until its Close flushes it — in Go map order, which is a parameter here), then swaps
the directories.  The primary is already open (pools empty) while this happens.
-/
import Sth.Model.Recover

namespace Sth

/-- a primary-only memory state for reads during translation -/
def primaryOnlyMem (kind : PKind) (bits pmax pfn plen : Nat) : Mem :=
  { kind := kind, imm := false, bits := bits, imax := 1, pmax := pmax,
    pfileNum := pfn, plength := plen, precFileNum := pfn, precPos := plen }

/-- Index.Put into a detached pool (the new index during translation: nothing on disk, only nextPool) -/
def poolPut (full : Block → FullKey) (bits : Nat) (pool : NMap RecordList) (dig : Bytes) (loc : Block) : Option (NMap RecordList) :=
  match bucketOfKey bits dig with
  | none => none
  | some b =>
    match indexPut full (pool.get? b) ((stripKey bits dig).getD []) loc with
    | .err => none
    | .noop => some pool
    | .set rl => some (pool.set b (normRL rl))

/-- flush a detached pool into fresh index files starting at file 0 -/
def flushFresh (imax : Nat) (pool : NMap RecordList) (order : List Nat) : NMap Bytes × NMap Nat :=
  let (files, _, _, bk) := order.foldl (fun (acc : NMap Bytes × Nat × Nat × NMap Nat) b =>
    let (files, fn, len, bk) := acc
    match pool.get? b with
    | none => acc
    | some rl =>
      let data := encodeRL rl
      let (fn, len, files) := if len ≥ imax then (fn + 1, 0, files.set (fn + 1) []) else (fn, len, files)
      let rec_ := le32 (data.length + 4) ++ le32 b ++ data
      (files.set fn (fileOf files fn ++ rec_), fn, len + rec_.length, bk.set b (fn * imax + len + 4))) (NMap.set ([] : NMap Bytes) 0 [], 0, 0, [])
  (files, bk)

/-- translateIndex: the disk afterwards, or an error. `order` = flush order of the new index's pool
    (the caller guarantees it is a permutation of the pool's buckets; the pool is returned for that check). -/
def translateIndex (kind : PKind) (pmax pfn plen : Nat) (newBits ifsArg : Nat) (d : Disk) (order : List Nat) :
    Except OpenErr (Disk × List Nat) :=
  match d.ihdr with
  | none => .error .other
  | some h =>
    -- open the old index with its own bit size
    let imax := if ifsArg = 0 then h.max else ifsArg
    if h.max ≠ imax then .error .wrongIndexFileSize else
    let usable : Bool := match d.snap with
      | some s => s.size == 8 * 2 ^ h.bits
      | none => false
    let loaded : Option (NMap Bytes × NMap Nat) :=
      if usable then some (d.ifiles, (d.snap.map (·.nz)).getD [])
      else (scanIndex (2 ^ h.bits) imax d.ifiles h.first).map fun (files, bk, _) => (files, bk)
    match loaded with
    | none => .error .other
    | some (ifiles, bk) =>
      if kind = .mh ∧ h.pfs ≠ pmax then .error .wrongPrimaryFileSize else
      let pm := primaryOnlyMem kind h.bits pmax pfn plen
      let dOld := { d with ifiles := ifiles }
      -- iterate the old index in bucket order and re-insert every entry
      let entries : Option (List Entry) := (bk.filter (·.2 ≠ 0)).foldlM (fun acc (_, pos) =>
        match readDiskBucket ifiles imax pos with
        | .ok (some rl) => some (acc ++ rl)
        | .ok none => some acc
        | .error _ => none) []
      match entries with
      | none => .error .other
      | some es =>
        let full := fun (blk : Block) => fullOf { pm with bits := newBits } dOld blk
        let pool : Option (NMap RecordList) := es.foldlM (fun pool e =>
          match priGetIndexKey pm dOld e.blk with
          | .ok dig => poolPut full newBits pool dig e.blk
          | _ => none) []
        match pool with
        | none => .error .other
        | some pool =>
          let ord := if order.length = pool.length ∧ pool.keys.all (order.contains ·) then order else pool.keys
          -- the new index is opened with the size argument as given: 0 means the default, not the old index's limit
          let newMax := if ifsArg = 0 then defaultMax else ifsArg
          let (files, nbk) := flushFresh newMax pool ord
          .ok ({ d with ifiles := files, ihdr := some ⟨newBits, newMax, 0, if kind = .mh then pmax else 0⟩,
                        snap := some ⟨8 * 2 ^ newBits, nbk.filter (·.2 ≠ 0)⟩ }, pool.keys)

/-- OpenStore with the freelist repair and the index translation -/
def openStoreT (c : Cfg) (d : Disk) (order : List Nat) : Disk × Except OpenErr Mem × List Nat :=
  let d := openFreelist d
  match openPrimary c d with
  | .error e => (d, .error e, [])
  | .ok (d1, pmax, pfn, plen) =>
    match openIndex c pmax d1 with
    | .error .wrongBits =>
      match translateIndex c.kind pmax pfn plen c.bits c.ifs d1 order with
      | .error e => (d1, .error e, [])
      | .ok (d2, keys) =>
        match openIndex c pmax d2 with
        | .error e => (d2, .error e, keys)
        | .ok (d3, bits, imax, bk, last) =>
          (d3, .ok { kind := c.kind, imm := c.imm, bits := bits, imax := imax, buckets := bk,
                     ifileNum := last, ilength := (fileOf d3.ifiles last).length,
                     pmax := pmax, pfileNum := pfn, plength := plen, precFileNum := pfn, precPos := plen }, keys)
    | .error e => (d1, .error e, [])
    | .ok (d3, bits, imax, bk, last) =>
      (d3, .ok { kind := c.kind, imm := c.imm, bits := bits, imax := imax, buckets := bk,
                 ifileNum := last, ilength := (fileOf d3.ifiles last).length,
                 pmax := pmax, pfileNum := pfn, plength := plen, precFileNum := pfn, precPos := plen }, [])

end Sth
