/-
C07: an independent reader of the on-disk formats that checks the mutual consistency of the files
(the "fsck invariant").  It takes the directory contents (`Disk`) and a bucket table (the live one, or the
one a reopen would reconstruct) and returns the list of violated clauses (empty = consistent).
-/
import Sth.Model.Store
import Sth.Model.GC

namespace Sth

def pairwiseOK (r : Key → Key → Bool) : List Key → Bool
  | [] => true
  | x :: xs => xs.all (r x) && pairwiseOK r xs

/-- clause 1: bucket → complete, non-deleted record list tagged with that bucket in an existing index file -/
def fsckBucket (d : Disk) (imax first : Nat) (b pos : Nat) : Except String RecordList :=
  let (lp, f) := localizeIdx imax pos
  if f < first then .error s!"bucket {b} points into index file {f}, below the header's first file {first}" else
  match d.ifiles.get? f with
  | none => .error s!"bucket {b} points into index file {f}, which does not exist"
  | some file =>
    match readU32 file (lp - 4) with
    | none => .error s!"bucket {b}: record list at {f}:{lp - 4} is incomplete"
    | some size =>
      if size ≥ two31 then .error s!"bucket {b} points at a record list marked deleted ({f}:{lp - 4})" else
      match readAt file lp size with
      | none => .error s!"bucket {b}: record list at {f}:{lp - 4} is incomplete"
      | some data =>
        if leDec (data.take 4) ≠ b then .error s!"bucket {b} points at a record list tagged {leDec (data.take 4)}" else
        let (rl, exact) := decodeRL (data.drop 4)
        if !exact then .error s!"bucket {b}: record list bytes do not parse" else .ok rl

/-- clause 2: entry → complete, non-deleted primary record whose key carries the bucket bits and the stored prefix -/
def fsckEntry (kind : PKind) (d : Disk) (bits pmax pfirst : Nat) (b : Nat) (e : Entry) : Option String :=
  match kind with
  | .cid =>
    match d.cidfile with
    | none => some s!"entry {e.blk.off}: no primary file"
    | some file =>
      match readAt file e.blk.off (e.blk.size + 4) with
      | none => some s!"entry of bucket {b} names an incomplete primary record at {e.blk.off}"
      | some rd =>
        if leDec (rd.take 4) ≠ e.blk.size then some s!"entry of bucket {b}: size {e.blk.size} differs from the record's {leDec (rd.take 4)}" else
        match readNode .cid (rd.drop 4) with
        | none => some s!"entry of bucket {b}: primary record at {e.blk.off} does not parse"
        | some (k, _) =>
          match indexKeyOf .cid k with
          | none => some s!"entry of bucket {b}: stored key is malformed"
          | some dig =>
            if bucketOfKey bits dig ≠ some b then some s!"entry of bucket {b} names a record whose key falls in bucket {(bucketOfKey bits dig).getD 0}"
            else if e.pfx.isEmpty ∨ !decide (pfx e.pfx ((stripKey bits dig).getD [])) then some s!"entry of bucket {b}: stored prefix {toHex e.pfx} is not a prefix of its record's key"
            else none
  | .mh =>
    let (lp, f) := localizePri pmax e.blk.off
    if f < pfirst then some s!"entry of bucket {b} names primary file {f}, below the header's first file {pfirst}" else
    match d.pfiles.get? f with
    | none => some s!"entry of bucket {b} names primary file {f}, which does not exist"
    | some file =>
      match readAt file lp (e.blk.size + 4) with
      | none => some s!"entry of bucket {b} names an incomplete primary record at {f}:{lp}"
      | some rd =>
        let sz := leDec (rd.take 4)
        if sz ≥ two31 then some s!"entry of bucket {b} names a primary record marked deleted ({f}:{lp})"
        else if sz ≠ e.blk.size then some s!"entry of bucket {b}: size {e.blk.size} differs from the record's {sz} ({f}:{lp})"
        else match readNode .mh (rd.drop 4) with
          | none => some s!"entry of bucket {b}: primary record at {f}:{lp} does not parse"
          | some (k, _) =>
            match indexKeyOf .mh k with
            | none => some s!"entry of bucket {b}: stored key is malformed"
            | some dig =>
              if bucketOfKey bits dig ≠ some b then some s!"entry of bucket {b} names a record whose key falls in bucket {(bucketOfKey bits dig).getD 0}"
              else if e.pfx.isEmpty ∨ !decide (pfx e.pfx ((stripKey bits dig).getD [])) then some s!"entry of bucket {b}: stored prefix {toHex e.pfx} is not a prefix of its record's key"
              else none

/-- the whole check -/
def fsck (kind : PKind) (d : Disk) (buckets : NMap Nat) (ignore : List Nat := []) : List String :=
  match d.ihdr with
  | none => ["index header missing"]
  | some ih =>
    let pmax := match d.phdr with | some h => h.max | none => 0
    let pfirst := match d.phdr with | some h => h.first | none => 0
    let hdrs := if kind = .mh ∧ d.phdr.isNone then ["primary header missing"] else []
    let free := (parseFreeList ((d.free.getD []).length + 1) (d.free.getD []) []).1 ++
                (parseFreeList ((d.freeGc.getD []).length + 1) (d.freeGc.getD []) []).1
    let perBucket := (buckets.filter (·.2 ≠ 0)).flatMap fun (b, pos) =>
      match fsckBucket d ih.max ih.first b pos with
      | .error e => [e]
      | .ok rl =>
        let ps := rl.map (·.pfx)
        (if pairwiseOK (fun a c => decide (klt a c)) ps then [] else [s!"bucket {b}: stored prefixes are not sorted"]) ++
        (if pairwiseOK (fun a c => decide (apart a c)) ps then [] else [s!"bucket {b}: stored prefixes are not prefix-free"]) ++
        (if (rl.map (·.blk.off)).eraseDups.length = rl.length then [] else [s!"bucket {b}: two entries name the same location"]) ++
        (rl.filter fun e => !ignore.contains e.blk.off).filterMap (fsckEntry kind d ih.bits pmax pfirst b) ++
        (rl.filterMap fun e => if free.any (fun fb => fb.off = e.blk.off) then
            some s!"location {e.blk.off}:{e.blk.size} is on the freelist but named by a live entry of bucket {b}" else none)
    hdrs ++ perBucket

/-- the bucket table a reopen would reconstruct: the snapshot if usable, else the rescan -/
def recoveredBuckets (d : Disk) : Option (NMap Nat) :=
  match d.ihdr with
  | none => none
  | some h =>
    match d.snap with
    | some s => if s.size = 8 * 2 ^ h.bits then some s.nz else (scanIndex (2 ^ h.bits) h.max d.ifiles h.first).map (·.2.1)
    | none => (scanIndex (2 ^ h.bits) h.max d.ifiles h.first).map (·.2.1)

end Sth
