/-
L5 (freelist hand-over): the CONCURRENT protocol between the writers of the freelist (`Put`), its flushers (`Flush`)
and the single collector (`ToGC`, then processFreeList: read the `.gc` file, remove it), at the granularity of the
lock sections of store/freelist/freelist.go.  The sections are the stretches between the `verifhook.At` points:

  Put(b)    one section under poolLk: pool := pool ++ [b]
  Flush()   takes flushLock for the whole call
            section 1 (under poolLk)  pool empty ⇒ return (flushLock released);
                                      else blocks := pool; pool := []                  [freelist.flush.swapped]
            section 2 (poolLk free: Puts may run in between; flushLock still held)
                                      append `blocks` to the freelist file             [freelist.flush.written]
  ToGC()    section 0 (no lock)       `.gc` exists ⇒ return it (nothing else happens)
            inner Flush()             sections 1, 2 as above, with their own lock span [freelist.togc.flushed]
            (flushLock is free here: other Flush calls may run; what they write goes into the renamed file)
            takes flushLock
            section A                 close the file                                   [freelist.togc.closed]
            section B                 rename file → .gc  (the freelist file is gone)   [freelist.togc.renamed]
            section C                 create the new empty file; release flushLock     [freelist.togc.reopened]
  apply     (collector) read all entries of the `.gc` file                             [primary.gc.fl.applied]
  remove    (collector) remove the `.gc` file                                          [primary.gc.fl.removed]

A thread is a program (a list of calls) and a pc; `step s i` runs the next section of thread `i` (`none`: no such
thread, nothing left to run, or the section needs `flushLock` and another thread holds it); `run` folds a schedule
(thread numbers), skipping steps that are not enabled.  The number of threads, writers and flushers is arbitrary.

Ghost state: `puts` (the log of returned Put calls, (thread, block), in order of return), `consumed` (the entries of
every REMOVED `.gc` file, in order), `applied` (what `apply` read), `dropped` (the blocks of a Flush whose
section 2 found the file missing or closed — the real Flush returns the write error and its local `blocks` is gone).

`stepNoLock` is the variant in which ToGC's sections A–C do NOT take `flushLock` (negative witness: why it is needed).
`replay` folds recorded EVENTS (thread, hook reached) over the state without needing programs.
-/
namespace Sth.FreeConc

abbrev Blk := Nat

inductive Op where
  | put (b : Blk)
  | flush
  | togc
  | apply
  | remove
deriving DecidableEq, Repr

/-- where a thread stands inside its current call -/
inductive Pc where
  | idle
  | flushing (blocks : List Blk) (inToGC : Bool)   -- between Flush's two sections; holds flushLock
  | togcStatted                                    -- ToGC: saw no .gc file; the inner Flush comes next
  | togcFlushed                                    -- ToGC: inner Flush returned; flushLock not held
  | togcClosed                                     -- ToGC: file closed; holds flushLock
  | togcRenamed                                    -- ToGC: file renamed to .gc; holds flushLock
deriving DecidableEq, Repr

structure Thread where
  prog : List Op := []
  pc : Pc := .idle
deriving DecidableEq, Repr

structure State where
  pool : List Blk := []
  file : Option (List Blk) := some []     -- the freelist file; `none` while renamed away
  fileOpen : Bool := true                 -- cp.file is an open descriptor (false between close and reopen)
  gc : Option (List Blk) := none          -- the `.gc` file
  consumed : List Blk := []               -- ghost: entries of removed `.gc` files
  applied : List Blk := []                -- ghost: entries read by `apply`
  dropped : List Blk := []                -- ghost: blocks of a Flush that could not write
  flushLock : Option Nat := none          -- holder
  puts : List (Nat × Blk) := []           -- ghost: returned Put calls
  threads : List Thread := []
deriving DecidableEq, Repr

def Op.writer : Op → Bool
  | .put _ => true
  | .flush => true
  | _ => false

/-- the pc holds `flushLock` -/
def Pc.holds : Pc → Bool
  | .flushing _ _ => true
  | .togcClosed => true
  | .togcRenamed => true
  | _ => false

/-- the blocks a thread carries between Flush's two sections -/
def Pc.blocks : Pc → List Blk
  | .flushing bs _ => bs
  | _ => []

/-- a pc a thread that never calls ToGC can be at -/
def Pc.writer : Pc → Bool
  | .idle => true
  | .flushing _ false => true
  | _ => false

def setThread (s : State) (i : Nat) (t : Thread) : State := { s with threads := s.threads.set i t }

/-- the current call returns -/
def Thread.ret (t : Thread) : Thread := { prog := t.prog.tail, pc := .idle }

/-- the thread after a Flush returned: back in ToGC, or the call is over -/
def Thread.flushed (t : Thread) (inToGC : Bool) : Thread := if inToGC then { t with pc := .togcFlushed } else t.ret

/-- Flush section 1 -/
def flushEnter (s : State) (i : Nat) (t : Thread) (inToGC : Bool) : Option State :=
  if s.flushLock.isSome then none
  else if s.pool = [] then some (setThread s i (t.flushed inToGC))
  else some (setThread { s with pool := [], flushLock := some i } i { t with pc := .flushing s.pool inToGC })

/-- Flush section 2: the write (to the open file, else the blocks are gone with the error return) -/
def flushWrite (s : State) (bs : List Blk) : State :=
  match s.file, s.fileOpen with
  | some f, true => { s with file := some (f ++ bs) }
  | _, _ => { s with dropped := s.dropped ++ bs }

/-- ToGC section B: os.Rename (replaces an existing `.gc`); fails when there is no file -/
def rename (s : State) : State :=
  match s.file with
  | some f => { s with gc := some f, file := none }
  | none => s

/-- one section of thread `i` -/
def step (s : State) (i : Nat) : Option State :=
  match s.threads[i]? with
  | none => none
  | some t =>
    match t.pc with
    | .idle =>
      match t.prog with
      | [] => none
      | .put b :: _ => some (setThread { s with pool := s.pool ++ [b], puts := s.puts ++ [(i, b)] } i t.ret)
      | .flush :: _ => flushEnter s i t false
      | .togc :: _ =>
        if s.gc.isSome then some (setThread s i t.ret) else some (setThread s i { t with pc := .togcStatted })
      | .apply :: _ => some (setThread { s with applied := s.applied ++ s.gc.getD [] } i t.ret)
      | .remove :: _ => some (setThread { s with consumed := s.consumed ++ s.gc.getD [], gc := none } i t.ret)
    | .togcStatted => flushEnter s i t true
    | .flushing bs k => some (setThread { flushWrite s bs with flushLock := none } i (t.flushed k))
    | .togcFlushed =>
      if s.flushLock.isSome then none
      else some (setThread { s with fileOpen := false, flushLock := some i } i { t with pc := .togcClosed })
    | .togcClosed => some (setThread (rename s) i { t with pc := .togcRenamed })
    | .togcRenamed => some (setThread { s with file := some [], fileOpen := true, flushLock := none } i t.ret)

/-- run a schedule (thread numbers); steps that are not enabled are skipped -/
def run (s : State) (sched : List Nat) : State := sched.foldl (fun s i => (step s i).getD s) s

def init (progs : List (List Op)) : State := { threads := progs.map fun p => { prog := p } }

/-! ### the accounting -/

def gcEntries (s : State) : List Blk := s.gc.getD []
def fileEntries (s : State) : List Blk := s.file.getD []
/-- the blocks held by threads between Flush's two sections, in thread order -/
def inFlight (s : State) : List Blk := s.threads.flatMap (·.pc.blocks)

/-- everything handed to the freelist, from the oldest stage to the newest -/
def account (s : State) : List Blk := s.consumed ++ gcEntries s ++ fileEntries s ++ inFlight s ++ s.pool

/-- the blocks of the Put calls that have returned, in order of return -/
def putBlocks (s : State) : List Blk := s.puts.map (·.2)
/-- the blocks of the Put calls of thread `i` that have returned, in order -/
def putsBy (s : State) (i : Nat) : List Blk := (s.puts.filter (·.1 = i)).map (·.2)

/-- the blocks a program puts, in program order -/
def progPuts : List Op → List Blk
  | [] => []
  | .put b :: r => b :: progPuts r
  | _ :: r => progPuts r

def Quiescent (s : State) : Prop := ∀ t ∈ s.threads, t.prog = [] ∧ t.pc = .idle
instance (s : State) : Decidable (Quiescent s) := by unfold Quiescent; infer_instance

/-- at most one thread — `c`, the collector — calls ToGC / apply / remove -/
def CollectorIs (c : Nat) (progs : List (List Op)) : Prop :=
  ∀ i, i < progs.length → i ≠ c → ∀ op ∈ progs[i]?.getD [], op.writer = true
instance (c : Nat) (progs : List (List Op)) : Decidable (CollectorIs c progs) := by unfold CollectorIs; infer_instance

def SingleCollector (progs : List (List Op)) : Prop := ∃ c, CollectorIs c progs

/-! ### the variant without the lock in ToGC's sections A–C -/

def stepNoLock (s : State) (i : Nat) : Option State :=
  match s.threads[i]? with
  | none => none
  | some t =>
    match t.pc with
    | .togcFlushed => some (setThread { s with fileOpen := false } i { t with pc := .togcClosed })
    | .togcClosed => some (setThread (rename s) i { t with pc := .togcRenamed })
    | .togcRenamed => some (setThread { s with file := some [], fileOpen := true } i t.ret)
    | _ => step s i

def runNoLock (s : State) (sched : List Nat) : State := sched.foldl (fun s i => (stepNoLock s i).getD s) s

/-! ### replay of recorded events -/

/-- the section a real thread just completed (the hook it reached).  freelist.go has hook points for flush.swapped,
    flush.written, togc.closed, togc.renamed, togc.reopened; apply / remove are primary.gc.fl.applied / .removed;
    put, flush.empty and togc.exists are the RETURN of Put, of a Flush that reached no hook, and of a ToGC that reached
    no togc.* hook. -/
inductive Ev where
  | put (b : Blk)        -- "put:<n>"        Put returned
  | flushSwapped         -- "flush.swapped"  Flush section 1 took the pool          (acquires flushLock)
  | flushWritten         -- "flush.written"  Flush section 2 wrote                  (releases)
  | flushEmpty           -- "flush.empty"    Flush returned at the empty-pool test  (acquires and releases)
  | togcExists           -- "togc.exists"    ToGC returned the existing .gc
  | togcClosed           -- "togc.closed"    section A                              (acquires)
  | togcRenamed          -- "togc.renamed"   section B
  | togcReopened         -- "togc.reopened"  section C                              (releases)
  | apply                -- "apply"
  | remove               -- "remove"
deriving DecidableEq, Repr

def Ev.collector : Ev → Bool
  | .togcExists => true
  | .togcClosed => true
  | .togcRenamed => true
  | .togcReopened => true
  | .apply => true
  | .remove => true
  | _ => false

/-- make thread `i` exist (idle, empty program) -/
def ensure (s : State) (i : Nat) : State :=
  { s with threads := s.threads ++ List.replicate (i + 1 - s.threads.length) {} }

def setProg (s : State) (i : Nat) (p : List Op) : State :=
  match s.threads[i]? with
  | some t => setThread s i { t with prog := p }
  | none => s

def pcOf (s : State) (i : Nat) : Pc := (s.threads[i]?.map (·.pc)).getD .idle

/-- the shared part of a state: everything but the threads -/
def shared (s : State) : State := { s with threads := [] }

/-- one recorded event: the event must be the next section of the thread in the model (its pc fits, the lock
    is free where the section takes it, and the branch taken is the model's), else `none`.
    The inner Flush of ToGC is recorded as an ordinary Flush of the collector thread (same hooks, same effect), and the
    `.gc`-absent test of ToGC is not an event: `togc.closed` is accepted from an idle thread when no `.gc` exists. -/
def replayEv (s0 : State) (e : Nat × Ev) : Option State :=
  let i := e.1
  let s := ensure s0 i
  match e.2 with
  | .put b => if pcOf s i = .idle then step (setProg s i [.put b]) i else none
  | .flushSwapped => if pcOf s i = .idle ∧ s.pool ≠ [] then step (setProg s i [.flush]) i else none
  | .flushEmpty => if pcOf s i = .idle ∧ s.pool = [] then step (setProg s i [.flush]) i else none
  | .flushWritten =>
    match pcOf s i with
    | .flushing _ false => if s.file.isSome ∧ s.fileOpen = true then step s i else none
    | _ => none
  | .togcExists => if pcOf s i = .idle ∧ s.gc.isSome then step (setProg s i [.togc]) i else none
  | .togcClosed =>
    if pcOf s i = .idle ∧ s.gc = none then
      step (setThread s i { prog := [.togc], pc := .togcFlushed }) i
    else none
  | .togcRenamed => if pcOf s i = .togcClosed ∧ s.file.isSome then step s i else none
  | .togcReopened => if pcOf s i = .togcRenamed then step s i else none
  | .apply => if pcOf s i = .idle then step (setProg s i [.apply]) i else none
  | .remove => if pcOf s i = .idle then step (setProg s i [.remove]) i else none

def replayFrom (s : State) (evs : List (Nat × Ev)) : Option State :=
  evs.foldlM replayEv s

/-- the state the events start from: empty pool, empty freelist file, no `.gc` -/
def replayInit : State := {}

/-! the textual event vocabulary -/

def digit? (c : Char) : Option Nat := if 48 ≤ c.toNat ∧ c.toNat ≤ 57 then some (c.toNat - 48) else none

def natOfChars : List Char → Nat → Option Nat
  | [], acc => some acc
  | c :: r, acc => match digit? c with
    | some d => natOfChars r (acc * 10 + d)
    | none => none

def parseChars (cs : List Char) : Option Ev :=
  match cs with
  | 'p' :: 'u' :: 't' :: ':' :: d :: r => (natOfChars (d :: r) 0).map Ev.put
  | _ =>
    if cs = "flush.swapped".toList then some .flushSwapped
    else if cs = "flush.written".toList then some .flushWritten
    else if cs = "flush.empty".toList then some .flushEmpty
    else if cs = "togc.exists".toList then some .togcExists
    else if cs = "togc.closed".toList then some .togcClosed
    else if cs = "togc.renamed".toList then some .togcRenamed
    else if cs = "togc.reopened".toList then some .togcReopened
    else if cs = "apply".toList then some .apply
    else if cs = "remove".toList then some .remove
    else none

def parseEv (e : String) : Option Ev := parseChars e.toList

def parseEvents : List (Nat × String) → Option (List (Nat × Ev))
  | [] => some []
  | (i, e) :: r =>
    match parseEv e, parseEvents r with
    | some ev, some evs => some ((i, ev) :: evs)
    | _, _ => none

/-- replay recorded events `(thread, event)` from the empty freelist; `none`: an event is not in the vocabulary or was
    not enabled in the model -/
def replay (events : List (Nat × String)) : Option State :=
  match parseEvents events with
  | some evs => replayFrom replayInit evs
  | none => none

end Sth.FreeConc
