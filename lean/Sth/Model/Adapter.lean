/-
L6 side model: the go-ipfs-blockstore adapter (storethehash.go, HashedBlockstore) over the store.

Every method = context check, store call on `c.Hash()`, error mapping.  The hash function is a
parameter: `hm` ("the stored bytes hash to the requested CID") is supplied by the caller — the model
never hashes.  The store underneath is opened immutable with the multihash primary.
-/
import Sth.Model.Store

namespace Sth

/-- `c.Hash()`: the multihash bytes inside a CID (v0: the CID itself) -/
def cidHash (c : Bytes) : Option Bytes :=
  match c with
  | 18 :: 32 :: _ => if c.length = 34 then some c else none
  | _ =>
    match uvarint c with
    | none => none
    | some (vers, n1) =>
      if vers ≠ 1 then none else
      match uvarint (c.drop n1) with
      | none => none
      | some (_, n2) => some (c.drop (n1 + n2))

structure BS where
  m : Mem
  d : Disk
  hashOnRead : Bool := false
deriving Repr

inductive BsOut where
  | ok
  | errCtx
  | errOther
  | notFound
  | wrongHash
  | found (c d : Bytes)
  | bool (b : Bool)
  | size (n : Nat)
deriving DecidableEq, Repr

def bsPut (s : BS) (live : Bool) (c data : Bytes) : BS × BsOut :=
  if !live then (s, .errCtx) else
  match cidHash c with
  | none => (s, .errOther)
  | some key =>
    match storePut s.m s.d key data with
    | (m, .ok) => ({ s with m := m }, .ok)
    | (m, .err .keyExists) => ({ s with m := m }, .ok)     -- suppressed: duplicate Puts are accepted silently
    | (m, .err _) => ({ s with m := m }, .errOther)

/-- PutMany: stops at the first error other than key-exists -/
def bsPutMany (s : BS) (live : Bool) : List (Bytes × Bytes) → BS × BsOut
  | [] => (s, if live then .ok else .errCtx)
  | (c, data) :: rest =>
    if !live then (s, .errCtx) else
    match bsPut s true c data with
    | (s', .ok) => bsPutMany s' live rest
    | (s', o) => (s', o)

def bsGet (s : BS) (live : Bool) (c : Bytes) (hm : Bool) : BS × BsOut :=
  if !live then (s, .errCtx) else
  match cidHash c with
  | none => (s, .errOther)
  | some key =>
    match storeGet s.m s.d key with
    | (m, .absent) => ({ s with m := m }, .notFound)
    | (m, .err _) => ({ s with m := m }, .errOther)
    | (m, .found v) =>
      if s.hashOnRead ∧ !hm then ({ s with m := m }, .wrongHash)
      else ({ s with m := m }, .found c v)

def bsHas (s : BS) (live : Bool) (c : Bytes) : BsOut :=
  if !live then .errCtx else
  match cidHash c with
  | none => .errOther
  | some key =>
    match storeHas s.m s.d key with
    | .val b => .bool b
    | .err _ => .errOther

def bsGetSize (s : BS) (live : Bool) (c : Bytes) : BsOut :=
  if !live then .errCtx else
  match cidHash c with
  | none => .errOther
  | some key =>
    match storeGetSize s.m s.d key with
    | .found n => .size n
    | .absent => .notFound
    | .err _ => .errOther

def bsDelete (s : BS) (live : Bool) (c : Bytes) : BS × BsOut :=
  if !live then (s, .errCtx) else
  match cidHash c with
  | none => (s, .errOther)
  | some key =>
    match storeRemove s.m s.d key with
    | (m, .val _) => ({ s with m := m }, .ok)
    | (m, .err _) => ({ s with m := m }, .errOther)

def bsHashOnRead (s : BS) (enabled : Bool) : BS := { s with hashOnRead := enabled }

end Sth
