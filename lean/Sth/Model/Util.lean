/-
Small utilities for the physical model: association lists (maps with few keys), byte-file operations.
-/
import Sth.Model.Bytes

namespace Sth

/-! ### association lists keyed by Nat (kept sorted by key so that views are canonical) -/

abbrev NMap (α : Type) := List (Nat × α)

namespace NMap
variable {α : Type}

def get? (m : NMap α) (k : Nat) : Option α :=
  match m with
  | [] => none
  | (k', v) :: rest => if k' = k then some v else get? rest k

def set (m : NMap α) (k : Nat) (v : α) : NMap α :=
  match m with
  | [] => [(k, v)]
  | (k', v') :: rest =>
    if k < k' then (k, v) :: (k', v') :: rest
    else if k = k' then (k, v) :: rest
    else (k', v') :: set rest k v

def del (m : NMap α) (k : Nat) : NMap α := m.filter (·.1 ≠ k)

def has (m : NMap α) (k : Nat) : Bool := (get? m k).isSome

def keys (m : NMap α) : List Nat := m.map (·.1)

end NMap

/-! ### files as byte lists -/

/-- os.File.ReadAt of exactly `n` bytes: `none` when fewer are available (io.EOF / ErrUnexpectedEOF) -/
def readAt (f : Bytes) (pos n : Nat) : Option Bytes :=
  let s := (f.drop pos).take n
  if s.length = n then some s else none

/-- number of bytes a ReadAt of `n` at `pos` would return -/
def availAt (f : Bytes) (pos n : Nat) : Nat := ((f.drop pos).take n).length

/-- os.File.WriteAt inside the file (the model never writes past the end with WriteAt) -/
def writeAt (f : Bytes) (pos : Nat) (data : Bytes) : Bytes :=
  f.take pos ++ data ++ f.drop (pos + data.length)

def truncateTo (f : Bytes) (n : Nat) : Bytes := f.take n

def readU32 (f : Bytes) (pos : Nat) : Option Nat := (readAt f pos 4).map leDec

/-- FNV-1a 64 over bytes -/
def fnv64 (b : Bytes) : Nat :=
  b.foldl (fun h x => ((h ^^^ x) * 1099511628211) % two64) 14695981039346656037

/-- decimal digits -/
def natToBytes (n : Nat) : Bytes := (toString n).toList.map Char.toNat

def strBytes (s : String) : Bytes := s.toList.map Char.toNat

end Sth
