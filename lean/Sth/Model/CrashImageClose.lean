/-
L3-crash: the directory images a process crash can leave behind while Store.Close runs.

Store.Close (Sth/Model/Store.lean `storeClose`, the repaired order) = primary flush, index flush, save of
the bucket snapshot, freelist flush.  The first two only append / create files, in the order the stream of
Sth/Model/CrashImage.lean describes.  The snapshot is written to a temporary file and RENAMED over the
snapshot file: atomic, and a leftover temporary is ignored and removed by the next open (regenerated fact),
so it is not part of the image.  Hence the images of Close are

  * `flush k early`: the first `k` events of the append stream of the primary + index flush (either
    rollover variant), no snapshot — for `k` at least the stream's length this is "flushed, snapshot not yet
    renamed";
  * `saved k`: primary and index flush complete, the snapshot in place, and the first `k` events of the
    freelist append (the creation of the file, if the flush creates it, then one event per byte).

The snapshot is thus only ever present together with the COMPLETE index flush; `closeCrashImages` lists
every image.
-/
import Sth.Model.CrashImage

namespace Sth

/-- the disks Store.Close passes through: after the primary + index flush (`d2`), the snapshot it saves,
    and the final disk (snapshot in place, freelist flushed); `none` when the primary flush fails -/
def closeParts (m : Mem) (d : Disk) (order : List Nat) : Option (Disk × Snap × Disk) :=
  match priFlush m d with
  | none => none
  | some (m1, d1) =>
    let (m2, d2) := idxFlush m1 d1 order
    let sn : Snap := ⟨8 * 2 ^ m2.bits, m2.buckets.filter (·.2 ≠ 0)⟩
    let (_, d3) := flFlush m2 { d2 with snap := some sn }
    some (d2, sn, d3)

/-- a point at which the process can die during Close -/
inductive ClosePoint where
  | flush (k : Nat) (early : Bool)
  | saved (k : Nat)
deriving DecidableEq, Repr

/-- the freelist's share of the append stream between `d` and `d'` -/
def freeStream (d d' : Disk) : List Growth :=
  match d'.free with
  | some f => [⟨.free, d.free.isNone, f.drop (d.free.getD []).length⟩]
  | none => []

/-- the image a crash at `pt` leaves: `d` the disk before Close, `d2` after the primary + index flush,
    `sn` the snapshot, `dC` the disk after Close -/
def closeCrashImage (d d2 : Disk) (sn : Snap) (dC : Disk) : ClosePoint → Disk
  | .flush k early => crashImage d (appendStream d d2) k early
  | .saved k =>
    crashImage { d2 with snap := some sn } (freeStream { d2 with snap := some sn } dC) k false

/-- every crash image of the Close that goes from `d` through `d2` to `dC` -/
def closeCrashImages (d d2 : Disk) (sn : Snap) (dC : Disk) : List Disk :=
  ((List.range (streamLength (appendStream d d2) + 1)).flatMap fun k =>
    [closeCrashImage d d2 sn dC (.flush k false), closeCrashImage d d2 sn dC (.flush k true)]) ++
  ((List.range (streamLength (freeStream { d2 with snap := some sn } dC) + 1)).map fun k =>
    closeCrashImage d d2 sn dC (.saved k))

end Sth
