/-
L5: concurrent Put / Get / Has / GetSize / Remove at the granularity of the store's lock sections
(store/store.go), over the abstract index (an exact map digest ↦ location: what Index.Get/Put/Update/Remove
compute per key by theorems C08/C01, each of them ONE exclusive section of `bucketLk` — regenerated fact
`C05_mutators_atomic`), the append-only primary (location ↦ key, value) and the freelist.

A call is a sequence of sections; between two sections of one thread any other thread may run.  The sections
are exactly the stretches between the `verif` hook points of store.go, which is how the cooperative scheduler
of the harness interleaves the real code; the driver replays every real schedule on this model and compares
every return value (Driver/Sched.lean, flag `conc-model-agrees`).

  Put(k,v):   lookup      Index.Get(k)                                  → prev                [index.get.info_read]
              read        primary read of prev: same key? immutable ⇒ ErrKeyExists; same value ⇒ return nil
                                                                                               [store.put.primary_read_done]
              store       Primary.Put(k,v) → loc                                              [store.put.primary_put_done]
              index       key was absent:  Index.Put(k,loc)  (a no-op if k is present by now), return nil
                          key was present: Index.Update(k,loc) (error if k is absent by now)   [store.put.index_done]
              free        freelist.Put(prev), return nil                                       [store.put.done]
  Get/Has/GetSize(k):  lookup, then the primary read of the location found (immutable data)
  Remove(k):  lookup (absent ⇒ false), read, Index.Remove(k) → removed                         [store.remove.index_done]
              free        if removed: freelist.Put(loc); return removed

The store has no per-key lock: two mutators of ONE key that overlap are not serialised (known finding D17);
the model reproduces what the code then does (Update error, lost Put, double free), and the theorems of
Sth/Props/C05.lean are stated for executions in which mutators of one key do not overlap.
One thing the exact-key index of this model does NOT show outside that premise: the losing mutator's late Index.Update /
Index.Remove acts on a key that is absent by then, and at the record-list level a lookup of an absent key can hit a neighbour
whose stored prefix matches (C08_absent), whose entry is then re-pointed or removed (observed on the real code; the driver
therefore compares this model with the code only on schedules without overlapping mutators of one key, and records a
difference on the others as a flag).
Garbage collection is not part of this model (locations are never recycled here; C06, known finding D18).
-/
namespace Sth.Conc

abbrev Key := List Nat
abbrev Val := List Nat

inductive Op where
  | put (k : Key) (v : Val)
  | get (k : Key)
  | has (k : Key)
  | size (k : Key)
  | rm (k : Key)
deriving DecidableEq, Repr

inductive Res where
  | ok
  | keyExists
  | err
  | found (v : Val)
  | absent
  | bool (b : Bool)
  | sizeOf (n : Nat)
deriving DecidableEq, Repr

/-- where a thread stands inside its current call -/
inductive Pc where
  | idle
  | putLooked (k : Key) (v : Val) (prev : Option Nat)
  | putRead (k : Key) (v : Val) (prev : Option Nat)        -- prev = some ⇒ the update path
  | putStored (k : Key) (v : Val) (prev : Option Nat) (loc : Nat)
  | putIndexed (k : Key) (prev : Nat)
  | readLooked (op : Op) (loc : Nat)
  | rmLooked (k : Key) (loc : Nat)
  | rmRead (k : Key) (loc : Nat)
  | rmIndexed (k : Key) (loc : Nat) (removed : Bool)
deriving DecidableEq, Repr

structure Thread where
  prog : List Op := []
  pc : Pc := .idle
  out : List Res := []           -- results of the calls that returned, oldest first
deriving DecidableEq, Repr

structure State where
  imm : Bool := false
  idx : List (Key × Nat) := []        -- the index: digest ↦ location (at most one entry per key)
  pri : List (Key × Val) := []        -- the primary: location = position, append-only
  fl : List Nat := []                 -- the freelist, in order of recording
  threads : List Thread := []
deriving DecidableEq, Repr

def lookup (idx : List (Key × Nat)) (k : Key) : Option Nat := (idx.find? (·.1 = k)).map (·.2)
def setIdx (idx : List (Key × Nat)) (k : Key) (loc : Nat) : List (Key × Nat) := (k, loc) :: idx.filter (·.1 ≠ k)
def delIdx (idx : List (Key × Nat)) (k : Key) : List (Key × Nat) := idx.filter (·.1 ≠ k)

/-- the call returns `r`: drop it from the program -/
def ret (t : Thread) (r : Res) : Thread := { prog := t.prog.tail, pc := .idle, out := t.out ++ [r] }

def setThread (s : State) (i : Nat) (t : Thread) : State := { s with threads := s.threads.set i t }

/-- one section of thread `i`; `none` = no such thread or nothing left to run -/
def step (s : State) (i : Nat) : Option State :=
  match s.threads[i]? with
  | none => none
  | some t =>
    match t.pc with
    | .idle =>
      match t.prog with
      | [] => none
      | .put k v :: _ => some (setThread s i { t with pc := .putLooked k v (lookup s.idx k) })
      | .rm k :: _ =>
        match lookup s.idx k with
        | none => some (setThread s i (ret t (.bool false)))
        | some loc => some (setThread s i { t with pc := .rmLooked k loc })
      | op :: _ =>       -- get / has / size
        match lookup s.idx (match op with | .get k => k | .has k => k | .size k => k | _ => []) with
        | none => some (setThread s i (ret t (match op with | .has _ => .bool false | _ => .absent)))
        | some loc => some (setThread s i { t with pc := .readLooked op loc })
    | .putLooked k v prev =>
      match prev with
      | none => some (setThread s i { t with pc := .putRead k v none })
      | some loc =>
        if s.imm then some (setThread s i (ret t .keyExists))
        else if (s.pri[loc]?.map (·.2)) = some v then some (setThread s i (ret t .ok))
        else some (setThread s i { t with pc := .putRead k v (some loc) })
    | .putRead k v prev =>
      some (setThread { s with pri := s.pri ++ [(k, v)] } i { t with pc := .putStored k v prev s.pri.length })
    | .putStored k _ prev loc =>
      match prev with
      | none =>
        -- Index.Put: inserts, or changes nothing when the key is present by now
        let idx := if (lookup s.idx k).isSome then s.idx else setIdx s.idx k loc
        some (setThread { s with idx := idx } i (ret t .ok))
      | some p =>
        -- Index.Update: error when the key is absent by now
        if (lookup s.idx k).isSome then some (setThread { s with idx := setIdx s.idx k loc } i { t with pc := .putIndexed k p })
        else some (setThread s i (ret t .err))
    | .putIndexed _ prev => some (setThread { s with fl := s.fl ++ [prev] } i (ret t .ok))
    | .readLooked op loc =>
      let r : Res := match s.pri[loc]? with
        | none => .err
        | some (_, v) => match op with
          | .get _ => .found v
          | .has _ => .bool true
          | .size _ => .sizeOf v.length
          | _ => .err
      some (setThread s i (ret t r))
    | .rmLooked k loc => some (setThread s i { t with pc := .rmRead k loc })
    | .rmRead k loc =>
      let removed := (lookup s.idx k).isSome
      some (setThread { s with idx := delIdx s.idx k } i { t with pc := .rmIndexed k loc removed })
    | .rmIndexed _ loc removed =>
      some (setThread (if removed then { s with fl := s.fl ++ [loc] } else s) i (ret t (.bool removed)))

/-- run a schedule (thread numbers); steps that are not enabled are skipped -/
def run (s : State) (sched : List Nat) : State := sched.foldl (fun s i => (step s i).getD s) s

/-- the key a thread is in the middle of mutating (from its lookup until its return) -/
def Pc.mutating : Pc → Option Key
  | .putLooked k _ _ => some k
  | .putRead k _ _ => some k
  | .putStored k _ _ _ => some k
  | .putIndexed k _ => some k
  | .rmLooked k _ => some k
  | .rmRead k _ => some k
  | .rmIndexed k _ _ => some k
  | _ => none

/-- the abstract contents: key ↦ value, through the index -/
def contents (s : State) (k : Key) : Option Val :=
  match lookup s.idx k with
  | some loc => s.pri[loc]?.map (·.2)
  | none => none

def init (imm : Bool) (progs : List (List Op)) : State :=
  { imm := imm, threads := progs.map fun p => { prog := p } }

end Sth.Conc
