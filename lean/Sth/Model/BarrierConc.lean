/-
L5 (flush barrier): the CONCURRENT protocol between the writers of the primary (`MultihashPrimary.Put`, then
`FreeList.Put` of the superseded record), the flushers (`Store.Flush` = `MultihashPrimary.Flush`, index flush,
`FreeList.Flush`) and the single collector (`primaryGC.gc`: `ToGC`, `MultihashPrimary.Flush` — THE BARRIER —,
processFreeList = `ToGC` again, apply every entry of the `.gc` file to the primary FILE, remove the `.gc` file), at the
granularity of the lock sections of store/primary/multihash/multihash.go.  Records are numbers.

  pput r    MultihashPrimary.Put, one section under poolLk: nextPool := nextPool ++ [r]; ghost putDone += r
  free o    FreeList.Put(o), one section: flPool := flPool ++ [o]; ghost freed += o.
            ENABLED only if o ∈ putDone: the location `o` was read from the index, and the index is updated only after
            the MultihashPrimary.Put of `o` returned (Store.Put, Store.Remove, and the collector's own relocation).
            (Store.Put overwriting `o` with `r` = [pput r, free o]; Store.Remove = [free o]; new key = [pput r].)
  pflush    MultihashPrimary.Flush: takes the primary's flushLock for the whole call (not enabled while another thread
            holds it)
            section F1 (under poolLk)  nextPool empty ⇒ return (lock released)
                                       else cur := nextPool; nextPool := []            [primary.flush.swapped]
            section F2 (poolLk free: Puts may run in between; flushLock still held)
                                       append `cur` to the primary file; release       [primary.flush.written]
  fflush    FreeList.Flush, ONE atomic section (its internals are Sth/Model/FreeConc.lean): flFile ++= flPool
            (Store.Flush = [pflush, fflush])
  togc      FreeList.ToGC, one atomic section: `.gc` exists ⇒ nothing; else `.gc` := flFile ++ flPool, both emptied
  apply     for every entry `o` of the `.gc` file: `o` in the primary file ⇒ marked (ghost `applied`), else SKIPPED and
            lost (ghost `missed`; deleteRecords logs "out-of-range primary offset" / cannot open / cannot read, and
            continues).  Applying a `.gc` file that has been applied completely changes nothing (deleted bit set).
  remove    remove the `.gc` file (ghost `consumed` += its entries)

  one pass of gc() = [togc, pflush, togc, apply, remove] (`gcPass`; the second togc is the one inside processFreeList),
  one cycle = two passes (`gcCycle`).

Ghost `phase` follows the `.gc` file: noGc (no file) → fresh (handed over by thread `handedBy`) → barriered (a
MultihashPrimary.Flush of THAT thread has returned since) → applied → noGc.  `orderOK` is the static discipline of a
collector program: never `apply` in phase fresh (and, strict, never `remove` what was not applied).

`stepFast`: the variant in which MultihashPrimary.Flush returns at once, WITHOUT flushLock, when nextPool is empty.
`replay` folds recorded EVENTS (thread, hook reached) over the state without needing programs.
-/
import Sth.Model.FreeConc

namespace Sth.BarrierConc

abbrev Rec := Nat

inductive Op where
  | pput (r : Rec)
  | free (o : Rec)
  | pflush
  | fflush
  | togc
  | apply
  | remove
deriving DecidableEq, Repr

/-- where a thread stands inside its current call -/
inductive Pc where
  | idle
  | flushing (cur : List Rec)     -- between F1 and F2 of MultihashPrimary.Flush; holds flushLock
deriving DecidableEq, Repr

inductive Phase where
  | noGc
  | fresh
  | barriered
  | applied
deriving DecidableEq, Repr

structure Thread where
  prog : List Op := []
  pc : Pc := .idle
deriving DecidableEq, Repr

structure State where
  nextPool : List Rec := []          -- the primary's in-memory pool
  disk : List Rec := []              -- the primary FILE
  flushLock : Option Nat := none     -- holder of the primary's flushLock
  flPool : List Rec := []            -- freelist pool
  flFile : List Rec := []            -- freelist file
  gc : Option (List Rec) := none     -- the `.gc` file
  phase : Phase := .noGc             -- ghost
  handedBy : Nat := 0                -- ghost: the thread whose togc created the present `.gc` file
  putDone : List Rec := []           -- ghost: records whose MultihashPrimary.Put has returned
  freed : List Rec := []             -- ghost: log of returned FreeList.Put calls
  applied : List Rec := []           -- ghost: entries applied to a record of the primary file
  missed : List Rec := []            -- ghost: entries skipped by apply: the record was not in the primary file
  consumed : List Rec := []          -- ghost: entries of removed `.gc` files
  threads : List Thread := []
deriving DecidableEq, Repr

def Op.collector : Op → Bool
  | .togc => true
  | .apply => true
  | .remove => true
  | _ => false

def Pc.holds : Pc → Bool
  | .flushing _ => true
  | .idle => false

/-- the records a thread carries between F1 and F2 -/
def Pc.cur : Pc → List Rec
  | .flushing c => c
  | .idle => []

def gcEntries (s : State) : List Rec := s.gc.getD []

def setThread (s : State) (i : Nat) (t : Thread) : State := { s with threads := s.threads.set i t }

/-- the current call returns -/
def Thread.ret (t : Thread) : Thread := { prog := t.prog.tail, pc := .idle }

/-- a MultihashPrimary.Flush of thread `i` has returned: if `i` handed the present `.gc` file over, the barrier stands -/
def barrierDone (s : State) (i : Nat) : State :=
  { s with phase := if s.phase = .fresh ∧ s.handedBy = i then .barriered else s.phase }

/-- MultihashPrimary.Flush, section F1 -/
def flushEnter (s : State) (i : Nat) (t : Thread) : Option State :=
  if s.flushLock.isSome then none
  else if s.nextPool = [] then some (setThread (barrierDone s i) i t.ret)
  else some (setThread { s with nextPool := [], flushLock := some i } i { t with pc := .flushing s.nextPool })

/-- FreeList.ToGC -/
def toGc (s : State) (i : Nat) : State :=
  if s.gc.isSome then s
  else { s with gc := some (s.flFile ++ s.flPool), flFile := [], flPool := [], phase := .fresh, handedBy := i }

/-- processFreeList up to [primary.gc.fl.applied] -/
def applyGc (s : State) : State :=
  if s.phase = .applied then s
  else { s with applied := s.applied ++ (gcEntries s).filter (fun o => s.disk.contains o)
                missed := s.missed ++ (gcEntries s).filter (fun o => !s.disk.contains o)
                phase := if s.phase = .barriered then .applied else s.phase }

def removeGc (s : State) : State :=
  { s with consumed := s.consumed ++ gcEntries s, gc := none, phase := .noGc }

/-- one section of thread `i` -/
def step (s : State) (i : Nat) : Option State :=
  match s.threads[i]? with
  | none => none
  | some t =>
    match t.pc with
    | .idle =>
      match t.prog with
      | [] => none
      | .pput r :: _ =>
        some (setThread { s with nextPool := s.nextPool ++ [r], putDone := s.putDone ++ [r] } i t.ret)
      | .free o :: _ =>
        if s.putDone.contains o then
          some (setThread { s with flPool := s.flPool ++ [o], freed := s.freed ++ [o] } i t.ret)
        else none
      | .pflush :: _ => flushEnter s i t
      | .fflush :: _ => some (setThread { s with flFile := s.flFile ++ s.flPool, flPool := [] } i t.ret)
      | .togc :: _ => some (setThread (toGc s i) i t.ret)
      | .apply :: _ => some (setThread (applyGc s) i t.ret)
      | .remove :: _ => some (setThread (removeGc s) i t.ret)
    | .flushing cur =>
      some (setThread (barrierDone { s with disk := s.disk ++ cur, flushLock := none } i) i t.ret)

/-- run a schedule (thread numbers); steps that are not enabled are skipped -/
def run (s : State) (sched : List Nat) : State := sched.foldl (fun s i => (step s i).getD s) s

/-- the programs start on a primary file holding `disk` (records of earlier runs), everything else empty -/
def init (progs : List (List Op)) (disk : List Rec := []) : State :=
  { disk := disk, putDone := disk, threads := progs.map fun p => { prog := p } }

/-! ### programs -/

/-- Store.Put of a key whose current record is `old` -/
def storePut (r : Rec) (old : Option Rec) : List Op :=
  match old with
  | some o => [.pput r, .free o]
  | none => [.pput r]

def storeRemove (o : Rec) : List Op := [.free o]
def storeFlush : List Op := [.pflush, .fflush]

/-- one hand-over pass of primaryGC.gc: ToGC, MultihashPrimary.Flush, processFreeList (ToGC, apply, remove) -/
def gcPass : List Op := [.togc, .pflush, .togc, .apply, .remove]
def gcCycle : List Op := gcPass ++ gcPass

/-- the pass in the order the code had before the repair of D4: flush first, hand over afterwards -/
def gcPassD4 : List Op := [.pflush, .togc, .togc, .apply, .remove]

/-- the static discipline: what an op of the collector does to the phase; `none`: not allowed there -/
def Phase.next (strict : Bool) (ph : Phase) : Op → Option Phase
  | .togc => some (if ph = .noGc then .fresh else ph)
  | .pflush => some (if ph = .fresh then .barriered else ph)
  | .apply =>
    match ph with
    | .fresh => none
    | .barriered => some .applied
    | _ => some ph
  | .remove =>
    match ph with
    | .fresh => if strict then none else some .noGc
    | .barriered => if strict then none else some .noGc
    | _ => some .noGc
  | _ => some ph

/-- the collector program never applies a `.gc` file before its own MultihashPrimary.Flush has returned since the
    hand-over; `strict`: nor removes a `.gc` file it has not applied -/
def orderOK (strict : Bool) : Phase → List Op → Bool
  | _, [] => true
  | ph, op :: r =>
    match ph.next strict op with
    | none => false
    | some ph' => orderOK strict ph' r

/-- at most one thread — `c`, the collector — calls ToGC / apply / remove -/
def CollectorIs (c : Nat) (progs : List (List Op)) : Prop :=
  ∀ i, i < progs.length → i ≠ c → ∀ op ∈ progs[i]?.getD [], op.collector = false
instance (c : Nat) (progs : List (List Op)) : Decidable (CollectorIs c progs) := by unfold CollectorIs; infer_instance

/-- at most one collector thread, and its program keeps the order of gc(): hand over, flush, then apply -/
def SingleCollector (strict : Bool) (progs : List (List Op)) : Prop :=
  ∃ c, CollectorIs c progs ∧ orderOK strict .noGc (progs[c]?.getD []) = true

def Quiescent (s : State) : Prop := ∀ t ∈ s.threads, t.prog = [] ∧ t.pc = .idle
instance (s : State) : Decidable (Quiescent s) := by unfold Quiescent; infer_instance

/-- the entries of the `.gc` file that have not been applied -/
def pendingGc (s : State) : List Rec := if s.phase = .applied then [] else gcEntries s

/-- the records a program frees, in program order -/
def progFrees : List Op → List Rec
  | [] => []
  | .free o :: r => o :: progFrees r
  | _ :: r => progFrees r

/-! ### the variant: MultihashPrimary.Flush returns without the lock when there is nothing to write -/

def stepFast (s : State) (i : Nat) : Option State :=
  match s.threads[i]? with
  | none => none
  | some t =>
    match t.pc, t.prog with
    | .idle, .pflush :: _ =>
      if s.nextPool = [] then some (setThread (barrierDone s i) i t.ret) else step s i
    | _, _ => step s i

def runFast (s : State) (sched : List Nat) : State := sched.foldl (fun s i => (stepFast s i).getD s) s

/-! ### replay of recorded events -/

/-- the section a real thread just completed -/
inductive Ev where
  | pput (r : Rec)       -- "pput:<r>"         MultihashPrimary.Put returned
  | free (o : Rec)       -- "free:<o>"         FreeList.Put returned
  | pflushSwapped        -- "pflush.swapped"   F1 took the pool                       (acquires flushLock)
  | pflushWritten        -- "pflush.written"   F2 wrote                               (releases)
  | pflushEmpty          -- "pflush.empty"     returned at the empty-pool test        (acquires and releases)
  | fflush               -- "fflush"           FreeList.Flush returned
  | togc                 -- "togc"             FreeList.ToGC returned (either branch)
  | apply                -- "apply"            [primary.gc.fl.applied]
  | remove               -- "remove"           [primary.gc.fl.removed]
deriving DecidableEq, Repr

def Ev.collector : Ev → Bool
  | .togc => true
  | .apply => true
  | .remove => true
  | _ => false

/-- make thread `i` exist (idle, empty program) -/
def ensure (s : State) (i : Nat) : State :=
  { s with threads := s.threads ++ List.replicate (i + 1 - s.threads.length) {} }

def setProg (s : State) (i : Nat) (p : List Op) : State :=
  match s.threads[i]? with
  | some t => setThread s i { t with prog := p }
  | none => s

def pcOf (s : State) (i : Nat) : Pc := (s.threads[i]?.map (·.pc)).getD .idle

/-- the shared part of a state: everything but the threads -/
def shared (s : State) : State := { s with threads := [] }

/-- one recorded event: it must be the next section of the thread in the model (its pc fits, the lock is free where
    the section takes it, the branch taken is the model's, a freed record's Put has returned), else `none`.
    `check`: also refuse an `apply` in phase fresh, i.e. before a MultihashPrimary.Flush of the thread that handed the
    `.gc` file over has returned — the order of gc() is part of the protocol. -/
def replayEv (check : Bool) (s0 : State) (e : Nat × Ev) : Option State :=
  let i := e.1
  let s := ensure s0 i
  match e.2 with
  | .pput r => if pcOf s i = .idle then step (setProg s i [.pput r]) i else none
  | .free o => if pcOf s i = .idle then step (setProg s i [.free o]) i else none
  | .pflushSwapped => if pcOf s i = .idle ∧ s.nextPool ≠ [] then step (setProg s i [.pflush]) i else none
  | .pflushEmpty => if pcOf s i = .idle ∧ s.nextPool = [] then step (setProg s i [.pflush]) i else none
  | .pflushWritten => if pcOf s i ≠ .idle then step s i else none
  | .fflush => if pcOf s i = .idle then step (setProg s i [.fflush]) i else none
  | .togc => if pcOf s i = .idle then step (setProg s i [.togc]) i else none
  | .apply =>
    if pcOf s i = .idle ∧ ¬ (check = true ∧ s.phase = .fresh) then step (setProg s i [.apply]) i else none
  | .remove => if pcOf s i = .idle then step (setProg s i [.remove]) i else none

def replayFrom (check : Bool) (s : State) (evs : List (Nat × Ev)) : Option State :=
  evs.foldlM (replayEv check) s

/-- the state the events start from: a primary file holding `disk`, everything else empty -/
def replayInit (disk : List Rec := []) : State := { disk := disk, putDone := disk }

/-! the textual event vocabulary -/

def parseChars (cs : List Char) : Option Ev :=
  match cs with
  | 'p' :: 'p' :: 'u' :: 't' :: ':' :: d :: r => (FreeConc.natOfChars (d :: r) 0).map Ev.pput
  | 'f' :: 'r' :: 'e' :: 'e' :: ':' :: d :: r => (FreeConc.natOfChars (d :: r) 0).map Ev.free
  | _ =>
    if cs = "pflush.swapped".toList then some .pflushSwapped
    else if cs = "pflush.written".toList then some .pflushWritten
    else if cs = "pflush.empty".toList then some .pflushEmpty
    else if cs = "fflush".toList then some .fflush
    else if cs = "togc".toList then some .togc
    else if cs = "apply".toList then some .apply
    else if cs = "remove".toList then some .remove
    else none

def parseEv (e : String) : Option Ev := parseChars e.toList

def parseEvents : List (Nat × String) → Option (List (Nat × Ev))
  | [] => some []
  | (i, e) :: r =>
    match parseEv e, parseEvents r with
    | some ev, some evs => some ((i, ev) :: evs)
    | _, _ => none

/-- replay recorded events `(thread, event)` from an empty store (`disk`: the records already in the primary file);
    `none`: an event is not in the vocabulary, or was not enabled in the model, or is an `apply` before the collector's
    own primary flush returned -/
def replay (events : List (Nat × String)) (disk : List Rec := []) : Option State :=
  match parseEvents events with
  | some evs => replayFrom true (replayInit disk) evs
  | none => none

/-- the same without the order check: an early `apply` is replayed, and what it skips is in `missed` -/
def replayLoose (events : List (Nat × String)) (disk : List Rec := []) : Option State :=
  match parseEvents events with
  | some evs => replayFrom false (replayInit disk) evs
  | none => none

end Sth.BarrierConc
