/-
L6-locks: abstract lock traces, happens-before and the lockset discipline (C16).

A trace is one interleaved execution: a list of events, each performed by one thread (goroutine).  The
only things recorded are the ones the Go memory model speaks about for this code base: Lock/Unlock and
RLock/RUnlock of a `sync.Mutex` / `sync.RWMutex` (mode `w` / `r`; a plain Mutex only uses `w`), plain
reads and writes of shared variables (struct fields), `go f()` (fork) and "observes the termination of"
(join: a receive from a channel that the child closed as its last action, or `wg.Wait()`).

`held` is deliberately syntactic: thread `t` holds `l` in mode `m` at position `i` when it has an
acquisition of (`l`, `m`) before `i` with no release of (`l`, `m`) by `t` in between.  (A thread that
read-locks the same RWMutex recursively and releases once is, conservatively, no longer holding; Go
forbids recursive read locking anyway.)

`WellFormed` is exactly what the runtime guarantees about a real execution: mutual exclusion.  Nothing
else is needed for the theorems of Sth/Props/C16.lean.

Happens-before follows the Go memory model (go.dev/ref/mem): program order; `sync`: the n-th Unlock is
synchronised before the (n+1)-th Lock returns, an Unlock before the RLock that follows it, and an RUnlock
before the next Lock.  By transitivity through the critical sections in between (in a real execution they
are properly bracketed: Go panics on an Unlock of an unlocked mutex) this gives: EVERY release
happens-before EVERY later acquisition of the same lock PROVIDED at least one of the two is in mode `w`.
The model takes exactly these edges — it does NOT take RUnlock → later RLock, which Go does not
guarantee; so `hb` here is the tight relation, not a generous one.  (The lockset theorem only ever uses
the edge from a release by a thread that holds the lock, i.e. a properly bracketed one.)
`go` statement → start of the goroutine; last action of the goroutine → the join that observes it.

The Boolean functions at the end are executable mirrors (used for `decide` on concrete traces and usable by
a driver); Sth/Lemmas/C16.lean proves each one equivalent to its Prop.
-/
namespace Sth.Race

/-- RLock (`r`) / Lock (`w`) of a `sync.RWMutex`; a `sync.Mutex` only uses `w` -/
inductive Mode where
  | r
  | w
deriving DecidableEq, Repr

inductive Ev where
  | acq (t l : Nat) (m : Mode)      -- thread t has acquired lock l in mode m (Lock / RLock returned)
  | rel (t l : Nat) (m : Mode)      -- thread t releases lock l, mode m (Unlock / RUnlock)
  | rd (t x : Nat)                  -- plain read of shared variable x by thread t
  | wr (t x : Nat)                  -- plain write of shared variable x by thread t
  | fork (t c : Nat)                -- thread t starts goroutine c (`go f()`)
  | join (t c : Nat)                -- thread t observes the termination of c (`<-done` closed by c as its last action)
deriving DecidableEq, Repr

abbrev Trace := List Ev

/-- the thread that performs the event -/
def Ev.thread : Ev → Nat
  | .acq t _ _ => t
  | .rel t _ _ => t
  | .rd t _ => t
  | .wr t _ => t
  | .fork t _ => t
  | .join t _ => t

/-- thread `t` holds lock `l` in mode `m` at position `i`: acquired before, not released since -/
def held (tr : Trace) (i t l : Nat) (m : Mode) : Prop :=
  ∃ a, a < i ∧ tr[a]? = some (.acq t l m) ∧ ∀ b, a < b → b < i → tr[b]? ≠ some (.rel t l m)

/-- mutual exclusion: an acquisition succeeds while another thread holds the lock only if both are readers -/
def WellFormed (tr : Trace) : Prop :=
  ∀ i t l m t' m', tr[i]? = some (.acq t l m) → t' ≠ t → held tr i t' l m' → m = .r ∧ m' = .r

/-- happens-before on trace positions (Go memory model; see the header for the `sync` edge) -/
inductive hb (tr : Trace) : Nat → Nat → Prop where
  | po {i j : Nat} {e e' : Ev} :
      i < j → tr[i]? = some e → tr[j]? = some e' → e.thread = e'.thread → hb tr i j
  | sync {i j t l t' : Nat} {m m' : Mode} :
      i < j → tr[i]? = some (.rel t l m) → tr[j]? = some (.acq t' l m') → (m = .w ∨ m' = .w) → hb tr i j
  | fork {i j t c : Nat} {e : Ev} :
      i < j → tr[i]? = some (.fork t c) → tr[j]? = some e → e.thread = c → hb tr i j
  | join {i j t c : Nat} {e : Ev} :
      i < j → tr[i]? = some e → e.thread = c → tr[j]? = some (.join t c) → hb tr i j
  | trans {i k j : Nat} : hb tr i k → hb tr k j → hb tr i j

/-- the part of happens-before that owes nothing to locks: program order, fork, join (the "phases" of an
    object's life — what its creator does before `go run()` precedes everything the goroutine does, and
    everything the goroutine does precedes what the closer does after `<-done`) -/
inductive hbFJ (tr : Trace) : Nat → Nat → Prop where
  | po {i j : Nat} {e e' : Ev} :
      i < j → tr[i]? = some e → tr[j]? = some e' → e.thread = e'.thread → hbFJ tr i j
  | fork {i j t c : Nat} {e : Ev} :
      i < j → tr[i]? = some (.fork t c) → tr[j]? = some e → e.thread = c → hbFJ tr i j
  | join {i j t c : Nat} {e : Ev} :
      i < j → tr[i]? = some e → e.thread = c → tr[j]? = some (.join t c) → hbFJ tr i j
  | trans {i k j : Nat} : hbFJ tr i k → hbFJ tr k j → hbFJ tr i j

/-- position `i` is an access of variable `x` by thread `t`; `w` = it is a write -/
def accessAt (tr : Trace) (i t x : Nat) (w : Bool) : Prop :=
  tr[i]? = some (if w then Ev.wr t x else Ev.rd t x)

/-- two accesses of the same variable by different threads, at least one a write (`i` is the earlier one) -/
def conflict (tr : Trace) (i j : Nat) : Prop :=
  i < j ∧ ∃ t t' x w w', accessAt tr i t x w ∧ accessAt tr j t' x w' ∧ t ≠ t' ∧ (w = true ∨ w' = true)

/-- the access at position `i` is performed holding `l`: a write holds it in mode `w`, a read in mode `r` or `w` -/
def guarded (tr : Trace) (i l : Nat) : Prop :=
  ∃ t x w m, accessAt tr i t x w ∧ held tr i t l m ∧ (w = true → m = .w)

/-- the event at position `i` is performed by a thread that holds `l` in mode `m` -/
def holds (tr : Trace) (i l : Nat) (m : Mode) : Prop :=
  ∃ e, tr[i]? = some e ∧ held tr i e.thread l m

/-- the common one-step case of `hbFJ`, purely syntactic: the thread of `i` forks the thread of `j` in
    between, or the thread of `j` joins the thread of `i` in between -/
def forkJoinOrdered (tr : Trace) (i j : Nat) : Prop :=
  ∃ p e e' t c, i < p ∧ p < j ∧ tr[i]? = some e ∧ tr[j]? = some e' ∧
    ((tr[p]? = some (.fork t c) ∧ e.thread = t ∧ e'.thread = c) ∨
     (tr[p]? = some (.join t c) ∧ e.thread = c ∧ e'.thread = t))

/-- data-race freedom: any two conflicting accesses are ordered by happens-before -/
def raceFree (tr : Trace) : Prop := ∀ i j, conflict tr i j → hb tr i j

/-! ### executable mirrors -/

/-- no release of (`l`, `m`) by `t` strictly between `a` and `i` -/
def noRelB (tr : Trace) (a i t l : Nat) (m : Mode) : Bool :=
  (List.range i).all fun b => !(decide (a < b)) || decide (tr[b]? ≠ some (.rel t l m))

def heldB (tr : Trace) (i t l : Nat) (m : Mode) : Bool :=
  (List.range i).any fun a => decide (tr[a]? = some (.acq t l m)) && noRelB tr a i t l m

/-- the acquisition at `i` against the (possibly still open) acquisition at `a < i` -/
def wfAtB (tr : Trace) (i a : Nat) : Bool :=
  match tr[i]?, tr[a]? with
  | some (.acq t l m), some (.acq t' l' m') =>
    !(decide (l' = l) && decide (t' ≠ t) && noRelB tr a i t' l m') || (decide (m = .r) && decide (m' = .r))
  | _, _ => true

def wellFormedB (tr : Trace) : Bool :=
  (List.range tr.length).all fun i => (List.range i).all fun a => wfAtB tr i a

def Ev.syncB : Ev → Ev → Bool
  | .rel _ l m, .acq _ l' m' => decide (l = l') && (decide (m = .w) || decide (m' = .w))
  | _, _ => false

def Ev.forkB : Ev → Ev → Bool
  | .fork _ c, e' => decide (e'.thread = c)
  | _, _ => false

def Ev.joinB : Ev → Ev → Bool
  | e, .join _ c => decide (e.thread = c)
  | _, _ => false

/-- one happens-before edge (a non-`trans` constructor of `hb`) -/
def edgeB (tr : Trace) (i j : Nat) : Bool :=
  decide (i < j) &&
    match tr[i]?, tr[j]? with
    | some e, some e' => decide (e.thread = e'.thread) || e.syncB e' || e.forkB e' || e.joinB e'
    | _, _ => false

/-- a path of at most `fuel` edges -/
def hbFuel (tr : Trace) : Nat → Nat → Nat → Bool
  | 0, _, _ => false
  | fuel + 1, i, j => edgeB tr i j || (List.range tr.length).any fun k => edgeB tr i k && hbFuel tr fuel k j

def hbB (tr : Trace) (i j : Nat) : Bool := hbFuel tr tr.length i j

def Ev.accessB : Ev → Option (Nat × Nat × Bool)      -- thread, variable, is a write
  | .rd t x => some (t, x, false)
  | .wr t x => some (t, x, true)
  | _ => none

def conflictB (tr : Trace) (i j : Nat) : Bool :=
  decide (i < j) &&
    match tr[i]?.bind Ev.accessB, tr[j]?.bind Ev.accessB with
    | some (t, x, w), some (t', x', w') => decide (x = x') && decide (t ≠ t') && (w || w')
    | _, _ => false

def holdsB (tr : Trace) (i l : Nat) (m : Mode) : Bool :=
  match tr[i]? with
  | some e => heldB tr i e.thread l m
  | none => false

def guardedB (tr : Trace) (i l : Nat) : Bool :=
  match tr[i]?.bind Ev.accessB with
  | some (t, _, w) => heldB tr i t l .w || (!w && heldB tr i t l .r)
  | none => false

/-- the guard table `guard` (variable ↦ its lock) is respected by every access of the trace -/
def disciplineB (tr : Trace) (guard : Nat → Nat) : Bool :=
  (List.range tr.length).all fun i =>
    match tr[i]?.bind Ev.accessB with
    | some (_, x, _) => guardedB tr i (guard x)
    | none => true

def raceFreeB (tr : Trace) : Bool :=
  (List.range tr.length).all fun j => (List.range j).all fun i => !(conflictB tr i j) || hbB tr i j

end Sth.Race
