/-
The store as a state machine over operation lists, and the map specification it is compared with.

`SOp` are the calls C01 quantifies over (Put/Get/Has/GetSize/Remove/Flush/iteration), `GOp` adds what
C02/C04 quantify over (GC cycles, close/reopen).  `stepS` is built from exactly the functions of
Sth/Model/Store.lean and Sth/Model/GC.lean that the driver replays traces with.
-/
import Sth.Model.Store
import Sth.Model.GC

namespace Sth

inductive SOp where
  | put (k v : Bytes)
  | get (k : Bytes)
  | has (k : Bytes)
  | size (k : Bytes)
  | rm (k : Bytes)
  | flush (order : List Nat)        -- order in which Index.Flush's map iteration visits the pool
  | iter (order : List Nat)         -- NewIterator (flushes first) and drain, as a sorted list
  | igc (scanFree : Bool) (budget : Budget)
  | pgc (lowUse : Nat) (budget : Budget)
  | reopen (order : List Nat) (useSnapshot : Bool)   -- Close, optionally drop the snapshot, OpenStore with the same configuration
deriving Repr

/-- the calls C01 is about -/
def SOp.isC01 : SOp → Bool
  | .igc .. => false
  | .pgc .. => false
  | .reopen .. => false
  | _ => true

inductive SOut where
  | ok
  | err (e : Err)
  | found (v : Bytes)
  | absent
  | bool (b : Bool)
  | sizeOf (n : Nat)
  | items (l : List (Bytes × Bytes))
  | gc                              -- GC cycles and reopen have no output the specification looks at
deriving DecidableEq, Repr

/-- lexicographic ≤ on byte strings, for sorting iteration results -/
def kle (a b : Bytes) : Bool := !decide (klt b a)

def insertPair (x : Bytes × Bytes) : List (Bytes × Bytes) → List (Bytes × Bytes)
  | [] => [x]
  | y :: ys => if kle x.1 y.1 then x :: y :: ys else y :: insertPair x ys

def sortPairs (l : List (Bytes × Bytes)) : List (Bytes × Bytes) := l.foldl (fun acc x => insertPair x acc) []

/-- the map iteration order is arbitrary: an `order` that is not a permutation of the pool's buckets
    cannot come from the code, and is replaced by the pool's own key order -/
def fixOrder (order keys : List Nat) : List Nat :=
  if order.length = keys.length ∧ keys.all (order.contains ·) ∧ order.all (keys.contains ·) ∧ order.eraseDups.length = order.length
  then order else keys

structure SState where
  cfg : Cfg
  m : Mem
  d : Disk
deriving Repr

def stepS (s : SState) : SOp → SState × SOut
  | .put k v =>
    match storePut s.m s.d k v with
    | (m, .ok) => ({ s with m := m }, .ok)
    | (m, .err e) => ({ s with m := m }, .err e)
  | .get k =>
    match storeGet s.m s.d k with
    | (m, .found v) => ({ s with m := m }, .found v)
    | (m, .absent) => ({ s with m := m }, .absent)
    | (m, .err e) => ({ s with m := m }, .err e)
  | .has k =>
    match storeHas s.m s.d k with
    | .val b => (s, .bool b)
    | .err e => (s, .err e)
  | .size k =>
    match storeGetSize s.m s.d k with
    | .found n => (s, .sizeOf n)
    | .absent => (s, .absent)
    | .err e => (s, .err e)
  | .rm k =>
    match storeRemove s.m s.d k with
    | (m, .val b) => ({ s with m := m }, .bool b)
    | (m, .err e) => ({ s with m := m }, .err e)
  | .flush order =>
    match storeFlush s.m s.d (fixOrder order s.m.inext.keys) with
    | some (m, d) => ({ s with m := m, d := d }, .ok)
    | none => (s, .err .io)
  | .iter order =>
    match storeFlush s.m s.d (fixOrder order s.m.inext.keys) with
    | none => (s, .err .io)
    | some (m, d) =>
      match storeIter m d with
      | .ok l => ({ s with m := m, d := d }, .items (sortPairs l))
      | .error e => ({ s with m := m, d := d }, .err e)
  | .igc scanFree budget =>
    let (_, m, d, _) := indexGC s.m s.d scanFree budget
    ({ s with m := m, d := d }, .gc)
  | .pgc lowUse budget =>
    match s.m.kind with
    | .cid => (s, .gc)
    | .mh =>
      match primaryGC s.m s.d lowUse budget with
      | some (_, m, d, _) => ({ s with m := m, d := d }, .gc)
      | none => (s, .gc)
  | .reopen order useSnapshot =>
    match storeClose { disk := s.d, mem := some s.m } (fixOrder order s.m.inext.keys) with
    | none => (s, .gc)
    | some st =>
      let d := if useSnapshot then st.disk else { st.disk with snap := none }
      match openStore s.cfg d with
      | (d', .ok m') => ({ s with m := m', d := d' }, .gc)
      | (_, .error _) => (s, .err .other)

def runS : SState → List SOp → SState × List SOut
  | s, [] => (s, [])
  | s, op :: ops =>
    let (s', o) := stepS s op
    let (s'', os) := runS s' ops
    (s'', o :: os)

/-! ### the specification: a finite map from digests to (key, value) -/

abbrev Spec := List (Bytes × Bytes × Bytes)      -- digest, key bytes as stored, value

def Spec.get (m : Spec) (dig : Bytes) : Option (Bytes × Bytes) := (m.find? (·.1 = dig)).map (·.2)
def Spec.set (m : Spec) (dig key val : Bytes) : Spec := (dig, key, val) :: m.filter (·.1 ≠ dig)
def Spec.del (m : Spec) (dig : Bytes) : Spec := m.filter (·.1 ≠ dig)

/-- how the store classifies a key: malformed (IndexKey fails), too short (< 4 digest bytes), or fine -/
def keyClass (kind : PKind) (k : Bytes) : Except Err Bytes :=
  match indexKeyOf kind k with
  | none => .error .badKey
  | some dig => if dig.length < 4 then .error .keyTooShort else .ok dig

def specStep (kind : PKind) (imm : Bool) (m : Spec) : SOp → Spec × SOut
  | .put k v =>
    match keyClass kind k with
    | .error e => (m, .err e)
    | .ok dig =>
      match m.get dig with
      | some (_, old) =>
        if imm then (m, .err .keyExists)
        else if old = v then (m, .ok)
        else (m.set dig k v, .ok)
      | none => (m.set dig k v, .ok)
  | .get k =>
    match keyClass kind k with
    | .error e => (m, .err e)
    | .ok dig => match m.get dig with
      | some (_, v) => (m, .found v)
      | none => (m, .absent)
  | .has k =>
    match keyClass kind k with
    | .error e => (m, .err e)
    | .ok dig => (m, .bool (m.get dig).isSome)
  | .size k =>
    match keyClass kind k with
    | .error e => (m, .err e)
    | .ok dig => match m.get dig with
      | some (_, v) => (m, .sizeOf v.length)
      | none => (m, .absent)
  | .rm k =>
    match keyClass kind k with
    | .error e => (m, .err e)
    | .ok dig => match m.get dig with
      | some _ => (m.del dig, .bool true)
      | none => (m, .bool false)
  | .flush _ => (m, .ok)
  | .iter _ => (m, .items (sortPairs (m.map fun (_, k, v) => (k, v))))
  | .igc .. => (m, .gc)
  | .pgc .. => (m, .gc)
  | .reopen .. => (m, .gc)

def specRun (kind : PKind) (imm : Bool) : Spec → List SOp → Spec × List SOut
  | m, [] => (m, [])
  | m, op :: ops =>
    let (m', o) := specStep kind imm m op
    let (m'', os) := specRun kind imm m' ops
    (m'', o :: os)

/-! ### hypotheses of the refinement theorems, as decidable predicates -/

def SOp.keyOf : SOp → Option Bytes
  | .put k _ => some k | .get k => some k | .has k => some k | .size k => some k | .rm k => some k
  | _ => none

def SOp.valOf : SOp → Bytes
  | .put _ v => v
  | _ => []

def SOp.bytes : SOp → Nat
  | .put k v => k.length + v.length + 17
  | _ => 0

/-- legal configuration: what OpenStore accepts (bits 8..31, file limits 1 B .. 1 GiB after defaults) -/
def Cfg.Legal (c : Cfg) : Prop :=
  8 ≤ c.bits ∧ c.bits ≤ 31 ∧ 1 ≤ c.ifs ∧ c.ifs ≤ defaultMax ∧ 1 ≤ c.pfs ∧ c.pfs ≤ defaultMax

instance (c : Cfg) : Decidable c.Legal := by unfold Cfg.Legal; exact inferInstance

/-- the digests of the well-formed keys of an operation list -/
def digestsOf (kind : PKind) (ops : List SOp) : List (Bytes × Bytes) :=
  ops.filterMap fun op => match op.keyOf with
    | some k => match keyClass kind k with
      | .ok dig => some (k, dig)
      | .error _ => none
    | none => none

/-- the property's premise on keys: digests of distinct keys are distinct and none is a proper prefix of
    another; plus the format limits the real code has: bytes are bytes, the stored prefix fits the
    one-byte length field (digest ≤ 255 bytes) -/
def KeysOK (kind : PKind) (ops : List SOp) : Prop :=
  (∀ p ∈ digestsOf kind ops, ∀ q ∈ digestsOf kind ops, p.2 = q.2 → p.1 = q.1) ∧
  (∀ p ∈ digestsOf kind ops, ∀ q ∈ digestsOf kind ops, p.2 ≠ q.2 → ¬ pfx p.2 q.2) ∧
  (∀ p ∈ digestsOf kind ops, p.2.length ≤ 255 ∧ bytesOK p.1)

/-- sizes stay inside the on-disk field widths: fewer than 2^30 operations, fewer than 2^31 bytes in all -/
def SizesOK (ops : List SOp) : Prop :=
  ops.length < 1073741824 ∧ (ops.map SOp.bytes).sum < two31 ∧
  ∀ op ∈ ops, bytesOK op.valOf

/-- fresh store opened with a configuration -/
def initS (c : Cfg) : Option SState :=
  match openStore c {} with
  | (d, .ok m) => some ⟨c, m, d⟩
  | _ => none

end Sth
