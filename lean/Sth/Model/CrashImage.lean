/-
L3-crash: the directory images a process crash can leave behind while Store.Flush / Store.commit runs.

Process-crash semantics (DESIGN.md section 5, C03): bytes reach a file in the order they were written; an
append can be cut at ANY byte; files are written in the order of the code — primary files (ascending file
number, a new file is created when the previous one is full), then index files (ascending), then the
freelist — which is the call order the regenerated fact `C03_commit_order` (Sth/Obligations/FactsC03.lean)
checks in store.go on every run.  A flush only appends and creates files (headers, snapshot and `.gc` file
are not touched), so an image is determined by how many EVENTS of the ordered stream happened, where an event
is the creation of a new file or one appended byte.

One refinement, forced by the correspondence run: on rollover the code creates the NEXT file before it flushes
the buffered tail of the file it is leaving (`flushBlock` / `flushBucket`: OpenFile, then `writer.Flush()`), so
while file n is still short of bytes, file n+1 may already exist, empty.  It cannot hold bytes yet (the writer
is re-targeted only after the flush), and file n+2 cannot exist (n+1 must first become current).  The flag
`early` of `crashImage` selects that variant.

`appendStream d d'` reads the stream off the disk before (`d`) and after (`d'`) a flush of the model;
`crashImage d stream k early` is the image after the first `k` events.  `crashImage d (appendStream d d') 0 false = d`
and, for `k` at least the stream's length, the image has the files of `d'`.

The crash engine of the harness (go/eng_crash.go) captures the real directory at hook points between the
file-system steps of the real Flush and synthesises every torn variant of each appended region; the driver
checks those real images against this definition (Driver/Crash.lean, flag `flush-image-in-model`).
-/
import Sth.Model.Store

namespace Sth

inductive FileId where
  | pri (n : Nat)
  | cid
  | idx (n : Nat)
  | free
deriving DecidableEq, Repr

/-- one file's share of the stream: which file, whether the flush created it, the bytes it appended -/
structure Growth where
  id : FileId
  isNew : Bool
  bytes : Bytes
deriving DecidableEq, Repr

def Growth.cost (g : Growth) : Nat := (if g.isNew then 1 else 0) + g.bytes.length

/-- the ordered append stream between the disk before and after a flush -/
def appendStream (d d' : Disk) : List Growth :=
  (d'.pfiles.map fun (n, f) => ⟨.pri n, !d.pfiles.has n, f.drop (fileOf d.pfiles n).length⟩) ++
  (match d'.cidfile with
   | some f => [⟨.cid, d.cidfile.isNone, f.drop (d.cidfile.getD []).length⟩]
   | none => []) ++
  (d'.ifiles.map fun (n, f) => ⟨.idx n, !d.ifiles.has n, f.drop (fileOf d.ifiles n).length⟩) ++
  (match d'.free with
   | some f => [⟨.free, d.free.isNone, f.drop (d.free.getD []).length⟩]
   | none => [])

/-- create the file if needed and append `bs` -/
def growFile (d : Disk) (id : FileId) (bs : Bytes) : Disk :=
  match id with
  | .pri n => { d with pfiles := d.pfiles.set n (fileOf d.pfiles n ++ bs) }
  | .cid => { d with cidfile := some (d.cidfile.getD [] ++ bs) }
  | .idx n => { d with ifiles := d.ifiles.set n (fileOf d.ifiles n ++ bs) }
  | .free => { d with free := some (d.free.getD [] ++ bs) }

def FileId.sameClass : FileId → FileId → Bool
  | .pri _, .pri _ => true
  | .idx _, .idx _ => true
  | _, _ => false

/-- the file the code rolls over to next, if the stream creates one directly after a file of the same class -/
def nextNew (id : FileId) (rest : List Growth) : Option FileId :=
  match rest.find? (fun g => g.cost ≠ 0) with
  | some g => if g.isNew && id.sameClass g.id then some g.id else none
  | none => none

/-- the image after the first `k` events of the stream; `early` = the file rolled over to already exists (empty)
    although the file being left has not received all its bytes -/
def crashImage (d : Disk) : List Growth → Nat → Bool → Disk
  | [], _, _ => d
  | g :: rest, k, early =>
    if g.cost = 0 then crashImage d rest k early
    else if k = 0 then
      -- nothing of this file's growth arrived; if it exists it may already have been left for the next one
      if early && !g.isNew then
        match nextNew g.id rest with
        | some nid => growFile d nid []
        | none => d
      else d
    else if g.cost ≤ k then crashImage (growFile d g.id g.bytes) rest (k - g.cost) early
    else
      -- cut inside this file: the creation (if any) happened, then `k - 1` resp. `k` bytes
      let d1 := growFile d g.id (g.bytes.take (k - (if g.isNew then 1 else 0)))
      if early then
        match nextNew g.id rest with
        | some nid => growFile d1 nid []
        | none => d1
      else d1

def streamLength (s : List Growth) : Nat := (s.map Growth.cost).sum

/-- every crash image of a flush from `d` to `d'` -/
def crashImages (d d' : Disk) : List Disk :=
  let s := appendStream d d'
  (List.range (streamLength s + 1)).flatMap fun k => [crashImage d s k false, crashImage d s k true]

end Sth
