/-
L0 glue: unsigned varints, multihash and CID parsing as the primaries use them
(go-varint / go-multihash v0.2.1 `Decode`, `Reader.ReadMultihash`; go-cid v0.3.2 `CidFromBytes`).

Only what the store observes is modelled: whether parsing succeeds, how many bytes the key takes, and
the digest (the index key).
-/
import Sth.Model.Bytes

namespace Sth

/-- binary.Uvarint / go-varint: returns (value, bytes consumed); `none` on truncation, on more than 9
    bytes, or on a non-minimal encoding (go-varint rejects a trailing zero byte). -/
def uvarintAux : Nat → Bytes → Nat → Nat → Nat → Option (Nat × Nat)
  | 0, _, _, _, _ => none
  | _ + 1, [], _, _, _ => none
  | fuel + 1, b :: bs, acc, shift, n =>
    if b < 128 then
      if b = 0 ∧ n > 0 then none          -- not minimal
      else some (acc + b * 2 ^ shift, n + 1)
    else uvarintAux fuel bs (acc + (b % 128) * 2 ^ shift) (shift + 7) (n + 1)

def uvarint (data : Bytes) : Option (Nat × Nat) := uvarintAux 9 data 0 0 0

/-- multihash.Decode(buf): `<uvarint code><uvarint length><digest>`; the buffer must be consumed exactly
    and be at least 2 bytes long. Returns the digest. -/
def mhDecode (buf : Bytes) : Option Bytes :=
  if buf.length < 2 then none else
  match uvarint buf with
  | none => none
  | some (_, n1) =>
    match uvarint (buf.drop n1) with
    | none => none
    | some (len, n2) =>
      let rest := buf.drop (n1 + n2)
      if rest.length = len then some rest else none

/-- Reader.ReadMultihash on a prefix of `data`: returns (multihash bytes, digest, bytes consumed).
    The reader rejects lengths above 2^31-1 and short reads. -/
def mhRead (data : Bytes) : Option (Bytes × Bytes × Nat) :=
  match uvarint data with
  | none => none
  | some (_, n1) =>
    match uvarint (data.drop n1) with
    | none => none
    | some (len, n2) =>
      let rest := data.drop (n1 + n2)
      if len ≤ rest.length then
        let total := n1 + n2 + len
        some (data.take total, rest.take len, total)
      else none

/-- cid.CidFromBytes on a prefix of `data`: returns (cid bytes, digest of its multihash, bytes consumed). -/
def cidRead (data : Bytes) : Option (Bytes × Bytes × Nat) :=
  match data with
  | 18 :: 32 :: rest =>
    if data.length > 2 then
      if rest.length ≥ 32 then some (data.take 34, rest.take 32, 34) else none
    else none
  | _ =>
    match uvarint data with
    | none => none
    | some (vers, n1) =>
      if vers ≠ 1 then none else
      match uvarint (data.drop n1) with
      | none => none
      | some (_, n2) =>
        match mhRead (data.drop (n1 + n2)) with
        | none => none
        | some (_, dig, n3) => some (data.take (n1 + n2 + n3), dig, n1 + n2 + n3)

inductive PKind where
  | mh
  | cid
deriving DecidableEq, Repr, Inhabited

/-- Primary.IndexKey: the digest, or `none` when the key is not a well-formed multihash / CID -/
def indexKeyOf (kind : PKind) (key : Bytes) : Option Bytes :=
  match kind with
  | .mh => mhDecode key
  | .cid =>
    -- the repaired CIDPrimary.IndexKey rejects bytes after the CID (KNOWN_FINDINGS D30)
    match cidRead key with
    | some (_, dig, n) => if n = key.length then some dig else none
    | none => none

/-- readNode: split stored record data into key bytes and value -/
def readNode (kind : PKind) (data : Bytes) : Option (Bytes × Bytes) :=
  match kind with
  | .mh => match mhRead data with
    | some (k, _, n) => some (k, data.drop n)
    | none => none
  | .cid => match cidRead data with
    | some (k, _, n) => some (k, data.drop n)
    | none => none

end Sth
