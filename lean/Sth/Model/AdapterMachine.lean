/-
L6 side model, part 2: the blockstore adapter (Sth/Model/Adapter.lean, Go: storethehash.go) as a state
machine over operation lists, the blockstore CONTRACT it is compared with (a finite map from multihash
digests to block bytes plus the hash-on-read flag), and the translation of adapter calls to store calls
through which property C15 is derived from C01.

Everything here is executable, core Lean.
-/
import Sth.Model.Adapter
import Sth.Model.Machine

namespace Sth

/-- the calls of the blockstore interface; `live = false` ⇔ the context handed in is already cancelled;
    `hm` is the verdict of the hash function ("the stored bytes hash to the requested CID") -/
inductive BsOp where
  | put (live : Bool) (c data : Bytes)
  | putMany (live : Bool) (blocks : List (Bytes × Bytes))
  | get (live : Bool) (c : Bytes) (hm : Bool)
  | has (live : Bool) (c : Bytes)
  | size (live : Bool) (c : Bytes)
  | del (live : Bool) (c : Bytes)
  | hashOnRead (enabled : Bool)
deriving DecidableEq, Repr

/-- one adapter call, built from exactly the functions of Sth/Model/Adapter.lean -/
def bsStepM (s : BS) : BsOp → BS × BsOut
  | .put live c data => bsPut s live c data
  | .putMany live blocks => bsPutMany s live blocks
  | .get live c hm => bsGet s live c hm
  | .has live c => (s, bsHas s live c)
  | .size live c => (s, bsGetSize s live c)
  | .del live c => bsDelete s live c
  | .hashOnRead enabled => (bsHashOnRead s enabled, .ok)

def bsRun : BS → List BsOp → BS × List BsOut
  | s, [] => (s, [])
  | s, op :: ops => ((bsRun (bsStepM s op).1 ops).1, (bsStepM s op).2 :: (bsRun (bsStepM s op).1 ops).2)

/-- the configuration the adapter opens the store with: multihash primary, immutable -/
def bsCfg (bits ifs pfs : Nat) : Cfg := { kind := .mh, bits := bits, ifs := ifs, pfs := pfs, imm := true }

/-- fresh blockstore: fresh store, hash-on-read off -/
def bsInit (bits ifs pfs : Nat) : Option BS :=
  match initS (bsCfg bits ifs pfs) with
  | some s => some { m := s.m, d := s.d, hashOnRead := false }
  | none => none

/-! ### the contract -/

/-- the digest a CID addresses its block by: the digest of the multihash inside the CID; `none` when the
    CID does not parse, the multihash is malformed or the digest is shorter than 4 bytes -/
def cidDigest (c : Bytes) : Option Bytes :=
  match cidHash c with
  | none => none
  | some k =>
    match keyClass .mh k with
    | .ok dig => some dig
    | .error _ => none

/-- contract state: digest ↦ block bytes, and the hash-on-read flag -/
structure BsSpec where
  blocks : List (Bytes × Bytes) := []
  hashOnRead : Bool := false
deriving DecidableEq, Repr

def BsSpec.get (s : BsSpec) (dig : Bytes) : Option Bytes := (s.blocks.find? (·.1 = dig)).map (·.2)

/-- first Put wins: a present block is never replaced -/
def BsSpec.insert (s : BsSpec) (dig data : Bytes) : BsSpec :=
  match s.get dig with
  | some _ => s
  | none => { s with blocks := (dig, data) :: s.blocks }

def BsSpec.del (s : BsSpec) (dig : Bytes) : BsSpec := { s with blocks := s.blocks.filter (·.1 ≠ dig) }

/-- PutMany with a live context: blocks are inserted in order; the first CID that is not well-formed
    ends the call with an error, the blocks before it stay (what the adapter does) -/
def bsSpecPutMany (s : BsSpec) : List (Bytes × Bytes) → BsSpec × BsOut
  | [] => (s, .ok)
  | (c, data) :: rest =>
    match cidDigest c with
    | none => (s, .errOther)
    | some dig => bsSpecPutMany (s.insert dig data) rest

def bsSpecStep (s : BsSpec) : BsOp → BsSpec × BsOut
  | .put live c data =>
    if !live then (s, .errCtx) else
    match cidDigest c with
    | none => (s, .errOther)
    | some dig => (s.insert dig data, .ok)
  | .putMany live blocks =>
    if !live then (s, .errCtx) else bsSpecPutMany s blocks
  | .get live c hm =>
    if !live then (s, .errCtx) else
    match cidDigest c with
    | none => (s, .errOther)
    | some dig =>
      match s.get dig with
      | none => (s, .notFound)
      | some data => if s.hashOnRead ∧ !hm then (s, .wrongHash) else (s, .found c data)
  | .has live c =>
    if !live then (s, .errCtx) else
    match cidDigest c with
    | none => (s, .errOther)
    | some dig => (s, .bool (s.get dig).isSome)
  | .size live c =>
    if !live then (s, .errCtx) else
    match cidDigest c with
    | none => (s, .errOther)
    | some dig =>
      match s.get dig with
      | none => (s, .notFound)
      | some data => (s, .size data.length)
  | .del live c =>
    if !live then (s, .errCtx) else
    match cidDigest c with
    | none => (s, .errOther)
    | some dig => (s.del dig, .ok)
  | .hashOnRead enabled => ({ s with hashOnRead := enabled }, .ok)

def bsSpecRunFrom : BsSpec → List BsOp → BsSpec × List BsOut
  | s, [] => (s, [])
  | s, op :: ops =>
    ((bsSpecRunFrom (bsSpecStep s op).1 ops).1, (bsSpecStep s op).2 :: (bsSpecRunFrom (bsSpecStep s op).1 ops).2)

/-- the contract run from the empty blockstore -/
def bsSpecRun (ops : List BsOp) : BsSpec × List BsOut := bsSpecRunFrom {} ops

/-! ### translation to store calls -/

/-- the store calls of one PutMany with a live context: one Put per block, up to and including the first
    block whose multihash the store refuses; nothing from the first CID that does not parse on -/
def trPutMany : List (Bytes × Bytes) → List SOp
  | [] => []
  | (c, data) :: rest =>
    match cidHash c with
    | none => []
    | some k =>
      match keyClass .mh k with
      | .ok _ => .put k data :: trPutMany rest
      | .error _ => [.put k data]

/-- the store calls one adapter call makes (none with a cancelled context or an unparsable CID) -/
def trOp : BsOp → List SOp
  | .put live c data => if live then (match cidHash c with | some k => [.put k data] | none => []) else []
  | .putMany live blocks => if live then trPutMany blocks else []
  | .get live c _ => if live then (match cidHash c with | some k => [.get k] | none => []) else []
  | .has live c => if live then (match cidHash c with | some k => [.has k] | none => []) else []
  | .size live c => if live then (match cidHash c with | some k => [.size k] | none => []) else []
  | .del live c => if live then (match cidHash c with | some k => [.rm k] | none => []) else []
  | .hashOnRead _ => []

def bsTranslate : List BsOp → List SOp
  | [] => []
  | op :: ops => trOp op ++ bsTranslate ops

/-- error mapping of Put: key-exists is suppressed -/
def putOut : SOut → BsOut
  | .ok => .ok
  | .err .keyExists => .ok
  | _ => .errOther

/-- result of a live PutMany from the results of its store calls -/
def mapPutMany : List (Bytes × Bytes) → List SOut → BsOut
  | [], _ => .ok
  | (c, _) :: rest, os =>
    match cidHash c with
    | none => .errOther
    | some _ =>
      match os with
      | o :: os' => if putOut o = .ok then mapPutMany rest os' else .errOther
      | [] => .errOther

/-- the adapter's answer as a function of the call, the hash-on-read flag and the results of the store
    calls it made -/
def mapOut (flag : Bool) : BsOp → List SOut → BsOut
  | .put live c _, os =>
    if !live then .errCtx else
    match cidHash c, os with
    | some _, [o] => putOut o
    | _, _ => .errOther
  | .putMany live blocks, os => if !live then .errCtx else mapPutMany blocks os
  | .get live c hm, os =>
    if !live then .errCtx else
    match cidHash c, os with
    | some _, [.found v] => if flag ∧ !hm then .wrongHash else .found c v
    | some _, [.absent] => .notFound
    | _, _ => .errOther
  | .has live c, os =>
    if !live then .errCtx else
    match cidHash c, os with
    | some _, [.bool b] => .bool b
    | _, _ => .errOther
  | .size live c, os =>
    if !live then .errCtx else
    match cidHash c, os with
    | some _, [.sizeOf n] => .size n
    | some _, [.absent] => .notFound
    | _, _ => .errOther
  | .del live c, os =>
    if !live then .errCtx else
    match cidHash c, os with
    | some _, [.bool _] => .ok
    | _, _ => .errOther
  | .hashOnRead _, _ => .ok

/-- the hash-on-read flag after a call -/
def nextFlag (flag : Bool) : BsOp → Bool
  | .hashOnRead enabled => enabled
  | _ => flag

/-- the hash-on-read flag after a call sequence -/
def bsFlagAfter : Bool → List BsOp → Bool
  | flag, [] => flag
  | flag, op :: ops => bsFlagAfter (nextFlag flag op) ops

/-- the adapter's answers from the store's answers, call by call -/
def mapOuts : Bool → List BsOp → List SOut → List BsOut
  | _, [], _ => []
  | flag, op :: ops, outs =>
    mapOut flag op (outs.take (trOp op).length) ::
      mapOuts (nextFlag flag op) ops (outs.drop (trOp op).length)

/-! ### premises of C15, as decidable predicates -/

/-- the property's premise on keys, through the translation: the keys of the store are the multihashes
    `cidHash c`, so CIDs that differ only in version / codec (aliases) are the SAME key; digests of
    distinct multihashes are distinct and prefix-free, digests are at most 255 bytes, bytes are bytes -/
def BsKeysOK (ops : List BsOp) : Prop := KeysOK .mh (bsTranslate ops)

/-- sizes stay inside the on-disk field widths (see `SizesOK`) -/
def BsSizesOK (ops : List BsOp) : Prop := SizesOK (bsTranslate ops)

instance (ops : List BsOp) : Decidable (BsKeysOK ops) := by unfold BsKeysOK KeysOK; exact inferInstance
instance (ops : List BsOp) : Decidable (BsSizesOK ops) := by unfold BsSizesOK SizesOK; exact inferInstance

/-- does the call put a block under digest `dig`? (syntactic over-approximation: a PutMany counts when
    any of its blocks has the digest) -/
def BsOp.puts (dig : Bytes) : BsOp → Bool
  | .put live c _ => live && decide (cidDigest c = some dig)
  | .putMany live blocks => live && blocks.any fun b => decide (cidDigest b.1 = some dig)
  | _ => false

/-- a call whose context is already cancelled -/
def BsOp.cancelled : BsOp → Bool
  | .put live .. => !live
  | .putMany live .. => !live
  | .get live .. => !live
  | .has live .. => !live
  | .size live .. => !live
  | .del live .. => !live
  | .hashOnRead _ => false

/-- a call on a single CID, with a live context, whose CID is not well-formed (does not parse, malformed
    multihash, or digest shorter than 4 bytes) -/
def BsOp.malformed : BsOp → Bool
  | .put live c _ => live && (cidDigest c).isNone
  | .get live c _ => live && (cidDigest c).isNone
  | .has live c => live && (cidDigest c).isNone
  | .size live c => live && (cidDigest c).isNone
  | .del live c => live && (cidDigest c).isNone
  | _ => false

end Sth
