/-
Index Flush next to an index garbage-collection cycle: the CONCURRENT protocol between the mutators of the index
(`Index.Put / Update / Remove`), its flushers (`Index.Flush`) and the index collector (`Index.gc`: `truncateFreeFiles`,
then `reapIndexRecords` file by file), at the granularity of the lock sections of store/index/index.go and
store/index/gc.go.  The sections are the stretches between the `verifhook.At` points and lock acquisitions:

  mutator(b)  one exclusive section of bucketLk: nextPool[b] := the bucket's new record list
  Flush()     takes flushLock for the whole call
              S1 (bucketLk exclusive)   nextPool empty ⇒ return (flushLock released);
                                        else curPool := nextPool; nextPool := {}            [index.flush.swapped]
              S2 (flushLock only)       for every bucket of curPool (Go map order: ANY order): `flushBucket`: roll over to
                                        a new file (`fileNum++`) when the current one is full, append the record list;
                                        the new position is remembered locally (`blks`), NOT yet in `buckets`.
                                        The model runs S2 ONE BUCKET PER STEP (finer than the hooks: mutators and the
                                        collector may run between two `flushBucket` calls)   [index.flush.written]
              S3 (bucketLk exclusive)   buckets[b] := newPos[b] for every flushed bucket; flushLock released
                                        (curPool is NOT cleared: it stays a cache until the next swap)
                                                                                             [index.flush.buckets_updated]
  gc cycle    G0   flushLock.Lock(); lastFileNum := fileNum; flushLock.Unlock()              [index.gc.start]
              then for every record x of every file < lastFileNum (starting at the resume file, wrapping around,
              possibly cut short by the time limit):
              G1   already marked deleted ⇒ next record; else `busy(x)` under bucketLk.RLock:
                   buckets[x.bucket] = x.pos ?  yes ⇒ kept, next record; no ⇒ FREE          [index.gc.busy_checked]
              G2   mark x deleted (no lock) — the destructive act; merging / truncating / unlinking only ever
                   touch records that are marked                                             [index.gc.marked]
  truncateFreeFiles (`gcFree`, the free-file scan at the start of a cycle)
              F0   flushLock.Lock(); lastFileNum := fileNum; flushLock.Unlock()
              F1   read the bucket table, a chunk per bucketLk.RLock section (the model: ONE BUCKET PER STEP, finer),
                   collecting the set of files some bucket points into
              F2   (local) the files < lastFileNum no bucket was seen pointing into
              F3   per such file: truncate it to nothing (or unlink it) — every record of the file is gone: the model
                   marks them all deleted                                  [index.gc.free.truncated / .unlinked]

Records are (file, bucket, id): `id` is the ordinal of the record in the log (it plays the part of the offset: a
position (file, id) is never used twice).  Sizes and offsets are not modelled: "the file is full" is a nondeterministic
choice carried by the program: `flush order rolls` writes the buckets of the pool in the order `pickOrder order pool`
(every permutation is reachable) and rolls over BEFORE writing its i-th bucket iff `rolls[i]` (as `flushBucket` does).
`gc resumeAt limit` examines the records of the files resumeAt … lastFileNum-1, then 0 … resumeAt-1 (`gcResumeAt`),
at most `limit` of them (the time limit); `gc 0 n` with n large is a full cycle.

A thread is a program (a list of calls) and a pc; `step s i` runs the next section of thread `i` (`none`: no such
thread, nothing left to run, or the section needs `flushLock` and another thread holds it); `run` folds a schedule
(thread numbers), skipping steps that are not enabled.  Any number of threads of any kind.

`stepNoLock` is the variant in which G0 reads `fileNum` WITHOUT taking `flushLock` (negative witness);
`stepNoLockFree` the one in which F0 does.
`replay` folds recorded EVENTS (thread, hook reached) over the state without needing programs.
-/
namespace Sth.IgcConc

abbrev Bucket := Nat
/-- a position in the index log: (file number, id) -/
abbrev Pos := Nat × Nat

/-- a record list in the index log -/
structure Rec where
  file : Nat
  bucket : Bucket
  id : Nat
  deleted : Bool := false
deriving DecidableEq, Repr

def Rec.pos (r : Rec) : Pos := (r.file, r.id)

inductive Op where
  | mut (b : Bucket)
  | flush (order : List Bucket) (rolls : List Bool)
  | gc (resumeAt limit : Nat)
  | gcFree
deriving DecidableEq, Repr

/-- where a thread stands inside its current call -/
inductive Pc where
  | idle
  /-- Flush after S1: `todo` buckets still to write, `done` = `blks`, the new positions; holds flushLock.
      `todo = []`: written, not yet published (between S2 and S3) -/
  | flushing (todo : List Bucket) (rolls : List Bool) (done : List (Bucket × Pos))
  /-- gc cycle after G0 / between two records -/
  | gcScan (last : Nat) (todo : List Rec)
  /-- gc cycle between the verdict "free" for `x` (G1) and the mark (G2) -/
  | gcMark (last : Nat) (x : Rec) (todo : List Rec)
  /-- truncateFreeFiles, reading the table: buckets `k-1 … 0` still to read, `busy` = files seen pointed into -/
  | freeRead (last : Nat) (k : Nat) (busy : List Nat)
  /-- truncateFreeFiles, truncating the files found free -/
  | freeTrunc (last : Nat) (files : List Nat)
deriving DecidableEq, Repr

structure Thread where
  prog : List Op := []
  pc : Pc := .idle
deriving DecidableEq, Repr

structure State where
  log : List Rec := []                    -- the index files, in order of writing
  fileNum : Nat := 0                      -- idx.fileNum, the file appended to
  buckets : List (Bucket × Pos) := []     -- idx.buckets (association list, newest binding first)
  nextPool : List Bucket := []            -- the dirty buckets
  curPool : List Bucket := []             -- the buckets of the pool swapped out by the last Flush
  flushLock : Option Nat := none          -- holder
  threads : List Thread := []
deriving DecidableEq, Repr

/-- the pc holds `flushLock` -/
def Pc.holds : Pc → Bool
  | .flushing _ _ _ => true
  | _ => false

/-- the positions a Flush has written and not yet published -/
def Pc.done : Pc → List (Bucket × Pos)
  | .flushing _ _ d => d
  | _ => []

/-- the `lastFileNum` a collector works with -/
def Pc.bound : Pc → Option Nat
  | .gcScan l _ => some l
  | .gcMark l _ _ => some l
  | .freeRead l _ _ => some l
  | .freeTrunc l _ => some l
  | _ => none

def setThread (s : State) (i : Nat) (t : Thread) : State := { s with threads := s.threads.set i t }

/-- the current call returns -/
def Thread.ret (t : Thread) : Thread := { prog := t.prog.tail, pc := .idle }

def addPool (pool : List Bucket) (b : Bucket) : List Bucket := if b ∈ pool then pool else pool ++ [b]

/-- the order in which S2 walks the pool: the buckets named by `order` first, then the rest in pool order -/
def pickOrder : List Bucket → List Bucket → List Bucket
  | [], pool => pool
  | b :: r, pool => if b ∈ pool then b :: pickOrder r (pool.erase b) else pickOrder r pool

/-- mark deleted every record satisfying `p` -/
def kill (p : Rec → Bool) (log : List Rec) : List Rec :=
  log.map fun r => if p r then { r with deleted := true } else r

/-- `r` is the record `x` names (its deleted flag aside) -/
def Rec.same (x r : Rec) : Bool := decide (r.file = x.file ∧ r.bucket = x.bucket ∧ r.id = x.id)

def isDeleted (log : List Rec) (x : Rec) : Bool := log.any fun r => x.same r && r.deleted

/-- the records a cycle with `last` examines: files resumeAt … last-1, then 0 … resumeAt-1, at most `limit` -/
def workList (log : List Rec) (last resumeAt limit : Nat) : List Rec :=
  ((log.filter fun r => decide (resumeAt ≤ r.file ∧ r.file < last)) ++
   (log.filter fun r => decide (r.file < resumeAt ∧ r.file < last))).take limit

/-- one more than the largest bucket number in the table -/
def tableBound : List (Bucket × Pos) → Nat
  | [] => 0
  | e :: r => max (e.1 + 1) (tableBound r)

/-- S3: `buckets.Put` for every entry of `blks` -/
def publish (bk : List (Bucket × Pos)) (done : List (Bucket × Pos)) : List (Bucket × Pos) := done.reverse ++ bk

/-- one `flushBucket`: roll over first iff `roll`, then append -/
def writeRec (s : State) (b : Bucket) (roll : Bool) : State × Pos :=
  let f := if roll then s.fileNum + 1 else s.fileNum
  ({ s with log := s.log ++ [{ file := f, bucket := b, id := s.log.length }], fileNum := f }, (f, s.log.length))

/-- G0 / F0 proper -/
def gcStart (s : State) (i : Nat) (t : Thread) (resumeAt limit : Nat) : State :=
  setThread s i { t with pc := .gcScan s.fileNum (workList s.log s.fileNum resumeAt limit) }

/-- one section of thread `i`; `lockG0` / `lockF0`: G0 / F0 takes flushLock -/
def stepWith (lockG0 lockF0 : Bool) (s : State) (i : Nat) : Option State :=
  match s.threads[i]? with
  | none => none
  | some t =>
    match t.pc with
    | .idle =>
      match t.prog with
      | [] => none
      | .mut b :: _ => some (setThread { s with nextPool := addPool s.nextPool b } i t.ret)
      | .flush order rolls :: _ =>
        if s.flushLock.isSome then none
        else if s.nextPool = [] then some (setThread s i t.ret)
        else some (setThread { s with curPool := s.nextPool, nextPool := [], flushLock := some i } i
                    { t with pc := .flushing (pickOrder order s.nextPool) rolls [] })
      | .gc resumeAt limit :: _ =>
        if lockG0 && s.flushLock.isSome then none else some (gcStart s i t resumeAt limit)
      | .gcFree :: _ =>
        if lockF0 && s.flushLock.isSome then none
        else some (setThread s i { t with pc := .freeRead s.fileNum (tableBound s.buckets) [] })
    | .flushing (b :: todo) rolls done =>
      let w := writeRec s b (rolls.headD false)
      some (setThread w.1 i { t with pc := .flushing todo rolls.tail (done ++ [(b, w.2)]) })
    | .flushing [] _ done =>
      some (setThread { s with buckets := publish s.buckets done, flushLock := none } i t.ret)
    | .gcScan _ [] => some (setThread s i t.ret)
    | .gcScan l (x :: todo) =>
      if isDeleted s.log x then some (setThread s i { t with pc := .gcScan l todo })
      else if s.buckets.lookup x.bucket = some x.pos then some (setThread s i { t with pc := .gcScan l todo })
      else some (setThread s i { t with pc := .gcMark l x todo })
    | .gcMark l x todo => some (setThread { s with log := kill x.same s.log } i { t with pc := .gcScan l todo })
    | .freeRead l (k + 1) busy =>
      match s.buckets.lookup k with
      | some p => some (setThread s i { t with pc := .freeRead l k (p.1 :: busy) })
      | none => some (setThread s i { t with pc := .freeRead l k busy })
    | .freeRead l 0 busy =>
      some (setThread s i { t with pc := .freeTrunc l ((List.range l).filter fun f => !busy.contains f) })
    | .freeTrunc l (f :: files) =>
      some (setThread { s with log := kill (fun r => r.file == f) s.log } i { t with pc := .freeTrunc l files })
    | .freeTrunc _ [] => some (setThread s i t.ret)

def step (s : State) (i : Nat) : Option State := stepWith true true s i

/-- run a schedule (thread numbers); steps that are not enabled are skipped -/
def run (s : State) (sched : List Nat) : State := sched.foldl (fun s i => (step s i).getD s) s

def init (progs : List (List Op)) : State := { threads := progs.map fun p => { prog := p } }

/-- the variant in which G0 reads `idx.fileNum` without `flushLock` -/
def stepNoLock (s : State) (i : Nat) : Option State := stepWith false true s i

def runNoLock (s : State) (sched : List Nat) : State := sched.foldl (fun s i => (stepNoLock s i).getD s) s

/-- the variant in which F0 (truncateFreeFiles) reads `idx.fileNum` without `flushLock` -/
def stepNoLockFree (s : State) (i : Nat) : Option State := stepWith true false s i

def runNoLockFree (s : State) (sched : List Nat) : State := sched.foldl (fun s i => (stepNoLockFree s i).getD s) s

/-! ### what the theorems speak about -/

/-- the positions written by a Flush in progress and not yet published, with their buckets -/
def inFlight (s : State) : List (Bucket × Pos) := s.threads.flatMap (·.pc.done)

/-- where a lookup of bucket `b` takes the record list from (`readBucketInfo`) -/
inductive Src where
  | next                -- nextPool[b]
  | cur                 -- curPool[b]
  | log (p : Pos)       -- the index file, at buckets[b]
  | absent              -- the bucket has never been flushed
deriving DecidableEq, Repr

def lookupSrc (s : State) (b : Bucket) : Src :=
  if b ∈ s.nextPool then .next
  else if b ∈ s.curPool then .cur
  else match s.buckets.lookup b with
    | some p => .log p
    | none => .absent

/-- statement 1 as a decidable predicate of a state: no record the table points at, and no record of a Flush in
    progress, is marked deleted -/
def Safe (s : State) : Prop :=
  (∀ r ∈ s.log, s.buckets.lookup r.bucket = some r.pos → r.deleted = false) ∧
  (∀ r ∈ s.log, (r.bucket, r.pos) ∈ inFlight s → r.deleted = false)
instance (s : State) : Decidable (Safe s) := by unfold Safe; infer_instance

def Quiescent (s : State) : Prop := ∀ t ∈ s.threads, t.prog = [] ∧ t.pc = .idle
instance (s : State) : Decidable (Quiescent s) := by unfold Quiescent; infer_instance

/-! ### replay of recorded events -/

inductive Ev where
  | mut (b : Bucket)                                    -- "mut:<bucket>"       a mutator section wrote nextPool[b]
  | flushSwapped                                        -- "flush.swapped"      S1 took the pool     (acquires flushLock)
  | flushEmpty                                          -- "flush.empty"        Flush returned at the empty-pool test
  | flushWritten (rolls : List Bool) (order : List Bucket)
                                                        -- "flush.written:<0/1…>[:<b>,<b>,…]"  S2 done
  | flushPublished                                      -- "flush.published"    S3                   (releases)
  | gcStart                                             -- "gc.start"           G0
  | gcBusy (file : Nat) (b : Bucket) (id : Nat)         -- "gc.busy:<file>:<bucket>:<id>"  G1, verdict in use
  | gcFree (file : Nat) (b : Bucket) (id : Nat)         -- "gc.free:<file>:<bucket>:<id>"  G1, verdict free
  | gcMarked                                            -- "gc.marked"          G2
  | gcEnd                                               -- "gc.end"             the cycle returned
  | freeStart                                           -- "gcfree.start"       F0
  | freeRead (n : Nat)                                  -- "gcfree.read:<n>"    F1, one section reading n buckets
  | freeScanned                                         -- "gcfree.scanned"     F2
  | freeTruncated (file : Nat)                          -- "gcfree.truncated:<file>"  F3
  | freeEnd                                             -- "gcfree.end"
deriving DecidableEq, Repr

/-- make thread `i` exist (idle, empty program) -/
def ensure (s : State) (i : Nat) : State :=
  { s with threads := s.threads ++ List.replicate (i + 1 - s.threads.length) {} }

def setProg (s : State) (i : Nat) (p : List Op) : State :=
  match s.threads[i]? with
  | some t => setThread s i { t with prog := p }
  | none => s

def setPc (s : State) (i : Nat) (pc : Pc) : State :=
  match s.threads[i]? with
  | some t => setThread s i { t with pc := pc }
  | none => s

def pcOf (s : State) (i : Nat) : Pc := (s.threads[i]?.map (·.pc)).getD .idle

/-- `n` consecutive sections of thread `i` -/
def stepN (s : State) (i : Nat) : Nat → Option State
  | 0 => some s
  | n + 1 => (step s i).bind fun s' => stepN s' i n

/-- the shared part of a state: everything but the threads -/
def shared (s : State) : State := { s with threads := [] }

/-- one recorded event: the event must be the next section of the thread in the model (its pc fits, the lock is free
    where the section takes it, and the branch taken is the model's), else `none`.  The choices the programs carry in
    `run` (roll-overs, write order, which record the collector looks at next) are taken from the event. -/
def replayEv (s0 : State) (e : Nat × Ev) : Option State :=
  let i := e.1
  let s := ensure s0 i
  match e.2 with
  | .mut b => if pcOf s i = .idle then step (setProg s i [.mut b]) i else none
  | .flushSwapped => if pcOf s i = .idle ∧ s.nextPool ≠ [] then step (setProg s i [.flush [] []]) i else none
  | .flushEmpty => if pcOf s i = .idle ∧ s.nextPool = [] then step (setProg s i [.flush [] []]) i else none
  | .flushWritten rolls order =>
    match pcOf s i with
    | .flushing (b :: todo) _ [] =>
      stepN (setPc s i (.flushing (pickOrder order (b :: todo)) rolls [])) i (todo.length + 1)
    | _ => none
  | .flushPublished =>
    match pcOf s i with
    | .flushing [] _ _ => step s i
    | _ => none
  | .gcStart => if pcOf s i = .idle then step (setProg s i [.gc 0 0]) i else none
  | .gcBusy f b id =>
    match pcOf s i with
    | .gcScan l _ =>
      if f < l ∧ (⟨f, b, id, false⟩ : Rec) ∈ s.log ∧ s.buckets.lookup b = some (f, id) then
        step (setPc s i (.gcScan l [⟨f, b, id, false⟩])) i
      else none
    | _ => none
  | .gcFree f b id =>
    match pcOf s i with
    | .gcScan l _ =>
      if f < l ∧ (⟨f, b, id, false⟩ : Rec) ∈ s.log ∧ s.buckets.lookup b ≠ some (f, id) then
        step (setPc s i (.gcScan l [⟨f, b, id, false⟩])) i
      else none
    | _ => none
  | .gcMarked =>
    match pcOf s i with
    | .gcMark _ _ _ => step s i
    | _ => none
  | .gcEnd =>
    match pcOf s i with
    | .gcScan l _ => step (setPc s i (.gcScan l [])) i
    | _ => none
  | .freeStart => if pcOf s i = .idle then step (setProg s i [.gcFree]) i else none
  | .freeRead n =>
    match pcOf s i with
    | .freeRead _ k _ => if n ≤ k then stepN s i n else none
    | _ => none
  | .freeScanned =>
    match pcOf s i with
    | .freeRead _ 0 _ => step s i
    | _ => none
  | .freeTruncated f =>
    match pcOf s i with
    | .freeTrunc l files =>
      match files.dropWhile (· != f) with
      | [] => none
      | fs => step (setPc s i (.freeTrunc l fs)) i
    | _ => none
  | .freeEnd =>
    match pcOf s i with
    | .freeTrunc l _ => step (setPc s i (.freeTrunc l [])) i
    | _ => none

def replayFrom (s : State) (evs : List (Nat × Ev)) : Option State := evs.foldlM replayEv s

/-- the state the events start from: an empty index -/
def replayInit : State := {}

/-! the textual event vocabulary -/

def digit? (c : Char) : Option Nat := if 48 ≤ c.toNat ∧ c.toNat ≤ 57 then some (c.toNat - 48) else none

def natOfChars : List Char → Nat → Option Nat
  | [], acc => some acc
  | c :: r, acc => match digit? c with
    | some d => natOfChars r (acc * 10 + d)
    | none => none

/-- a non-empty string of digits -/
def nat? (cs : List Char) : Option Nat := if cs = [] then none else natOfChars cs 0

/-- a string of 0 / 1 -/
def bits? : List Char → Option (List Bool)
  | [] => some []
  | c :: r =>
    if c = '0' then (bits? r).map (false :: ·)
    else if c = '1' then (bits? r).map (true :: ·)
    else none

def splitOn (sep : Char) : List Char → List (List Char)
  | [] => [[]]
  | c :: r =>
    if c = sep then [] :: splitOn sep r
    else match splitOn sep r with
      | [] => [[c]]
      | h :: t => (c :: h) :: t

def nats? : List (List Char) → Option (List Nat)
  | [] => some []
  | cs :: r => match nat? cs, nats? r with
    | some n, some ns => some (n :: ns)
    | _, _ => none

def parseChars (cs : List Char) : Option Ev :=
  match splitOn ':' cs with
  | [h] =>
    if h = "flush.swapped".toList then some .flushSwapped
    else if h = "flush.empty".toList then some .flushEmpty
    else if h = "flush.published".toList then some .flushPublished
    else if h = "gc.start".toList then some .gcStart
    else if h = "gc.marked".toList then some .gcMarked
    else if h = "gc.end".toList then some .gcEnd
    else if h = "gcfree.start".toList then some .freeStart
    else if h = "gcfree.scanned".toList then some .freeScanned
    else if h = "gcfree.end".toList then some .freeEnd
    else none
  | [h, a] =>
    if h = "mut".toList then (nat? a).map .mut
    else if h = "flush.written".toList then (bits? a).map (.flushWritten · [])
    else if h = "gcfree.read".toList then (nat? a).map .freeRead
    else if h = "gcfree.truncated".toList then (nat? a).map .freeTruncated
    else none
  | [h, a, b] =>
    if h = "flush.written".toList then
      match bits? a, nats? (splitOn ',' b) with
      | some rolls, some order => some (.flushWritten rolls order)
      | _, _ => none
    else none
  | [h, a, b, c] =>
    match nat? a, nat? b, nat? c with
    | some f, some bk, some id =>
      if h = "gc.busy".toList then some (.gcBusy f bk id)
      else if h = "gc.free".toList then some (.gcFree f bk id)
      else none
    | _, _, _ => none
  | _ => none

def parseEv (e : String) : Option Ev := parseChars e.toList

def parseEvents : List (Nat × String) → Option (List (Nat × Ev))
  | [] => some []
  | (i, e) :: r =>
    match parseEv e, parseEvents r with
    | some ev, some evs => some ((i, ev) :: evs)
    | _, _ => none

/-- replay recorded events `(thread, event)` from the empty index; `none`: an event is not in the vocabulary or was
    not enabled in the model -/
def replay (events : List (Nat × String)) : Option State :=
  match parseEvents events with
  | some evs => replayFrom replayInit evs
  | none => none

end Sth.IgcConc
