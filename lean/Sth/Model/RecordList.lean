/-
L1: the prefix-compressed record list of one bucket.

Mirrors store/index/recordlist.go (FindKeyPosition, Get, GetRecord, PutKeys, AddKeyPosition,
ReadRecord / RecordListIter) and the per-bucket logic of Index.Put / Update / Remove in
store/index/index.go.  Entries are addressed by list index; the byte offsets the Go code uses
appear only in the codec (`encodeRL` / `decodeRL`).
-/
import Sth.Model.Bytes

namespace Sth

structure Block where
  off : Nat
  size : Nat
deriving DecidableEq, Repr, Inhabited

structure Entry where
  pfx : Key
  blk : Block
deriving DecidableEq, Repr, Inhabited

abbrev RecordList := List Entry

/-- FindKeyPosition: index of the first entry whose stored prefix is greater than `k`
    (`bytes.Compare(record.Key, key) == 1`), or the length. The "previous record" is the entry
    just before that index. -/
def findPos : RecordList → Key → Nat
  | [], _ => 0
  | e :: es, k => if klt k e.pfx then 0 else findPos es k + 1

def prevOf (rl : RecordList) (pos : Nat) : Option Entry :=
  if pos = 0 then none else rl[pos - 1]?

/-- GetRecord: the LAST entry whose stored prefix is a prefix of `k`, scanning until the first
    non-matching entry greater than `k`. Returns index and entry. -/
def getRecAux (k : Key) : RecordList → Nat → Option (Nat × Entry) → Option (Nat × Entry)
  | [], _, acc => acc
  | e :: es, i, acc =>
    if pfx e.pfx k then getRecAux k es (i + 1) (some (i, e))
    else if klt k e.pfx then acc
    else getRecAux k es (i + 1) acc

def getRec (rl : RecordList) (k : Key) : Option (Nat × Entry) := getRecAux k rl 0 none

/-- RecordList.Get -/
def rlGet (rl : RecordList) (k : Key) : Option Block := (getRec rl k).map (·.2.blk)

/-- PutKeys with index positions: replace entries `[start, stop)` by `new`. -/
def putKeys (rl : RecordList) (new : List Entry) (start stop : Nat) : RecordList :=
  rl.take start ++ new ++ rl.drop stop

inductive FullKey where
  | err                 -- Primary.GetIndexKey returned an error
  | bad                 -- key unusable (nil / shorter than the bucket prefix)
  | ok (k : Key)        -- stripped index key of the record
deriving Repr

inductive PutRes where
  | err                       -- Put returns an error, pool untouched
  | noop                      -- already present: returns nil, pool untouched
  | set (rl : RecordList)     -- pool[bucket] := encode rl
deriving Repr

/-- Index.Put for one bucket. `rl = none` ⇔ `records == nil` (bucket never written). -/
def indexPut (full : Block → FullKey) (rl : Option RecordList) (k : Key) (loc : Block) : PutRes :=
  match rl with
  | none => .set [⟨k.take 1, loc⟩]
  | some rl =>
    let pos := findPos rl k
    let trimInsert : PutRes :=
      let a := match prevOf rl pos with
        | some p => fncb k p.pfx
        | none => 0
      let b := match rl[pos]? with
        | some n => fncb k n.pfx
        | none => 0
      let t := min (max a b) (k.length - 1)
      .set (putKeys rl [⟨k.take (t + 1), loc⟩] pos pos)
    match prevOf rl pos with
    | some p =>
      if pfx p.pfx k then
        match full p.blk with
        | .err => .err
        | .bad => .set (putKeys rl [⟨p.pfx, loc⟩] (pos - 1) pos)
        | .ok pk =>
          let t := fncb k pk
          if t ≥ k.length then .noop
          else
            let p' := if t < pk.length then pk.take (t + 1) else pk
            let k' := k.take (t + 1)
            if klt p' k' then .set (putKeys rl [⟨p', p.blk⟩, ⟨k', loc⟩] (pos - 1) pos)
            else .set (putKeys rl [⟨k', loc⟩, ⟨p', p.blk⟩] (pos - 1) pos)
      else trimInsert
    | none => trimInsert

/-- Index.Update for one bucket: `none` = error ("no records" / "key to update not found") -/
def indexUpdate (rl : Option RecordList) (k : Key) (loc : Block) : Option RecordList :=
  match rl with
  | none => none
  | some rl =>
    match getRec rl k with
    | none => none
    | some (i, e) => some (putKeys rl [⟨e.pfx, loc⟩] i (i + 1))

/-- Index.Remove for one bucket: `none` = nothing removed (returns false, pool untouched) -/
def indexRemove (rl : Option RecordList) (k : Key) : Option RecordList :=
  match rl with
  | none => none
  | some rl =>
    match getRec rl k with
    | none => none
    | some (i, _) => some (putKeys rl [] i (i + 1))

/-! ### Byte codec (AddKeyPosition / ReadRecord) -/

/-- AddKeyPosition: `[u64 off][u32 size][u8 len(pfx)][pfx]`; the length byte wraps like Go's `byte(len)` -/
def encodeEntry (e : Entry) : Bytes :=
  le64 e.blk.off ++ le32 e.blk.size ++ [e.pfx.length % 256] ++ e.pfx

def encodeRL (rl : RecordList) : Bytes := rl.flatMap encodeEntry

/-- RecordListIter over raw bytes; stops (returns what it has, flagged) on a short read where Go would panic.
    `fuel` bounds the number of records (each consumes ≥ 13 bytes). -/
def decodeRLAux : Nat → Bytes → RecordList → RecordList × Bool
  | 0, _, acc => (acc.reverse, false)
  | fuel + 1, data, acc =>
    if data.isEmpty then (acc.reverse, true)
    else
      match readLE 8 data 0, readLE 4 data 8, data[12]? with
      | some off, some size, some n =>
        let key := (data.drop 13).take n
        if key.length = n then decodeRLAux fuel (data.drop (13 + n)) (⟨key, ⟨off, size⟩⟩ :: acc)
        else (acc.reverse, false)
      | _, _, _ => (acc.reverse, false)

/-- decoded entries and whether the bytes were consumed exactly -/
def decodeRL (data : Bytes) : RecordList × Bool := decodeRLAux (data.length + 1) data []

end Sth
