/-
L5b: the two-pool protocol of the index (store/index/index.go) and of the multihash primary
(store/primary/multihash/multihash.go) under concurrent Flush, at the granularity of their lock sections.
This is the layer BETWEEN the exact-key index of Sth/Model/Conc.lean (where Index.Get / Put / Update / Remove
are atomic) and the code: it shows why they are atomic although a bucket's record list lives in one of three
places (nextPool, curPool, the append-only file through the bucket table) and moves between them while calls run.

PART 1 — the index.  Per bucket an opaque value `V` (the bucket's record list).  A mutator is a code `u : U`
interpreted by `ap : U → Option V → Option V` (a function of the list it finds; `none` = it stores nothing, as
Index.Remove of an absent key).  State = nextPool, curPool : bucket ⇀ V, table : bucket ⇀ position,
file : List (bucket × V) (append-only, position = list index), the holder of flushLock, the threads.
A call is a sequence of sections; between two sections of one thread any other thread may run.  The sections end
exactly at the `verif` hook points of index.go:

  upd b u  (Index.Put / Update / Remove, ONE section, bucketLk.Lock … Unlock: getRecordsFromBucket + the write)
      old := view b = nextPool[b] ?? curPool[b] ?? file[table[b]];  nextPool[b] := ap u old;  returns `updated old`
  read b   (Index.Get)
      info    bucketLk.RLock: nextPool[b] ?? curPool[b] → cached data; else buckets.Get(b) → position
                                                                                   [index.get.info_read]
      read    not cached: the record list at that position of the file; returns `got …`
  flush    (Index.Flush)
      swap    flushLock.Lock (blocks while held); bucketLk.Lock; if nextPool is empty: unlock both, return;
              curPool = nextPool; nextPool = new                                   [index.flush.swapped]
      append  for bucket, data := range idx.curPool — the FIELD, not a local copy — append to the file and
              remember (bucket, position) locally; writer.Flush                    [index.flush.written]
      publish bucketLk.Lock; buckets.Put(bucket, position) for all remembered      [index.flush.buckets_updated]
              (the hook is a deferred call that runs before the deferred unlocks)
      release bucketLk.Unlock; flushLock.Unlock; returns `flushed`

  Note: curPool is NOT emptied after the publish: it keeps serving the flushed buckets until the next swap.
  In the code bucketLk is still held between the last two sections; the model lets other sections run there
  (a superset of the code's interleavings).  Waiting for a lock is not a section: a blocked `step` is `none`.

Two seeded defects live at this layer and are selectable so that their failures can be stated:
  `lockAfterSwap` (C05-r3): flushLock is taken only after the swap (the swap section needs no lock, the append
                  section acquires it): a second flush may replace curPool before the first has written it.
  `skipPools`     (C05-r2, seeded in the primary's getCached; same shape here): the reader skips both pools when
                  nothing is outstanding (nextPool empty) — wrong between the swap and the publish.

PART 2 — the multihash primary (`namespace Pri`): the same two pools, but keyed by LOCATION and without a table:
Put allocates the location the record WILL have in the file (recPos advances under poolLk) and appends the record
to nextPool.blocks (a list, in allocation order); Flush = swap | append curPool.blocks IN ORDER | release (no
publish section: the location is the position).  Get = getCached (nextPool ?? curPool ?? "on file" if below
recPos, else ErrOutOfBounds) [primary.get.cache_checked], then the file read at the location.  Locations are
record numbers here (the n-th Put gets location n; the file is the list of records).
-/
namespace Sth.ConcPools

abbrev Bucket := Nat

/-! ## PART 1: the index pools -/

inductive Op (U : Type) where
  | upd (b : Bucket) (u : U)
  | read (b : Bucket)
  | flush
deriving DecidableEq, Repr

inductive Res (V : Type) where
  | got (v : Option V)          -- Index.Get: the record list it used (none = no records)
  | updated (old : Option V)    -- a mutator: the record list it found
  | flushed
deriving DecidableEq, Repr

/-- what the info section of a reader found -/
inductive Info (V : Type) where
  | cached (v : V)
  | pos (p : Option Nat)        -- the bucket's position in the file (none = no position: no records)
deriving DecidableEq, Repr

inductive Pc (V : Type) where
  | idle
  | readInfo (b : Bucket) (info : Info V)
  | flSwapped
  | flWritten (blks : List (Bucket × Nat))
  | flPublished
deriving DecidableEq, Repr

structure Thread (U V : Type) where
  prog : List (Op U) := []
  pc : Pc V := .idle
  out : List (Res V) := []
deriving DecidableEq, Repr

structure State (U V : Type) where
  lockAfterSwap : Bool := false
  skipPools : Bool := false
  next : List (Bucket × V) := []
  cur : List (Bucket × V) := []
  table : List (Bucket × Nat) := []
  file : List (Bucket × V) := []
  flushLock : Option Nat := none
  threads : List (Thread U V) := []
deriving DecidableEq, Repr

def getP {α : Type} (p : List (Bucket × α)) (b : Bucket) : Option α := (p.find? (·.1 = b)).map (·.2)
def setP {α : Type} (p : List (Bucket × α)) (b : Bucket) (x : α) : List (Bucket × α) := (b, x) :: p.filter (·.1 ≠ b)

variable {U V : Type}

/-- the record list the bucket table names -/
def fileVal (s : State U V) (b : Bucket) : Option V := (getP s.table b).bind fun p => s.file[p]?.map (·.2)

/-- the bucket's current record list, as every lookup of the code finds it: nextPool, else curPool, else the file -/
def view (s : State U V) (b : Bucket) : Option V := (getP s.next b).or ((getP s.cur b).or (fileVal s b))

/-- what a reader returns from what its info section found -/
def infoVal (file : List (Bucket × V)) : Info V → Option V
  | .cached v => some v
  | .pos none => none
  | .pos (some p) => file[p]?.map (·.2)

/-- the (bucket, position) pairs of a pool appended at position `base` -/
def positions (base : Nat) : List (Bucket × V) → List (Bucket × Nat)
  | [] => []
  | (b, _) :: r => (b, base) :: positions (base + 1) r

/-- buckets.Put for all remembered pairs, in order -/
def publish (table : List (Bucket × Nat)) (blks : List (Bucket × Nat)) : List (Bucket × Nat) :=
  blks.foldl (fun t e => setP t e.1 e.2) table

def ret (t : Thread U V) (r : Res V) : Thread U V := { prog := t.prog.tail, pc := .idle, out := t.out ++ [r] }

def setThread (s : State U V) (i : Nat) (t : Thread U V) : State U V := { s with threads := s.threads.set i t }

/-- one section of thread `i`; `none` = no such thread, nothing left to run, or blocked on flushLock -/
def step (ap : U → Option V → Option V) (s : State U V) (i : Nat) : Option (State U V) :=
  match s.threads[i]? with
  | none => none
  | some t =>
    match t.pc with
    | .idle =>
      match t.prog with
      | [] => none
      | .upd b u :: _ =>
        match ap u (view s b) with
        | some v => some (setThread { s with next := setP s.next b v } i (ret t (.updated (view s b))))
        | none => some (setThread s i (ret t (.updated (view s b))))
      | .read b :: _ =>
        let info : Info V :=
          if s.skipPools && s.next.isEmpty then .pos (getP s.table b)
          else match (getP s.next b).or (getP s.cur b) with
            | some v => .cached v
            | none => .pos (getP s.table b)
        some (setThread s i { t with pc := .readInfo b info })
      | .flush :: _ =>
        if s.lockAfterSwap then
          if s.next.isEmpty then some (setThread s i (ret t .flushed))
          else some (setThread { s with cur := s.next, next := [] } i { t with pc := .flSwapped })
        else
          match s.flushLock with
          | some _ => none
          | none =>
            if s.next.isEmpty then some (setThread s i (ret t .flushed))
            else some (setThread { s with cur := s.next, next := [], flushLock := some i } i { t with pc := .flSwapped })
    | .readInfo _ info => some (setThread s i (ret t (.got (infoVal s.file info))))
    | .flSwapped =>
      if s.lockAfterSwap then
        match s.flushLock with
        | some _ => none
        | none =>
          some (setThread { s with file := s.file ++ s.cur, flushLock := some i } i
            { t with pc := .flWritten (positions s.file.length s.cur) })
      else
        some (setThread { s with file := s.file ++ s.cur } i { t with pc := .flWritten (positions s.file.length s.cur) })
    | .flWritten blks => some (setThread { s with table := publish s.table blks } i { t with pc := .flPublished })
    | .flPublished => some (setThread { s with flushLock := none } i (ret t .flushed))

/-- run a schedule (thread numbers); steps that are not enabled are skipped -/
def run (ap : U → Option V → Option V) (s : State U V) (sched : List Nat) : State U V :=
  sched.foldl (fun s i => (step ap s i).getD s) s

def init (progs : List (List (Op U))) : State U V := { threads := progs.map fun p => { prog := p } }

/-- a small concrete instance for examples: record lists are `List Nat`; `set` overwrites, `app` is a true
    read-modify-write (appends to the list it finds), `del` stores nothing when there is nothing -/
inductive Upd where
  | set (v : List Nat)
  | app (x : Nat)
  | del
deriving DecidableEq, Repr

def Upd.ap : Upd → Option (List Nat) → Option (List Nat)
  | .set v, _ => some v
  | .app x, old => some (old.getD [] ++ [x])
  | .del, none => none
  | .del, some _ => some []

/-! ## PART 2: the primary's pools -/

namespace Pri

/-- a location: the number of the record (the n-th Put gets location n) -/
abbrev Loc := Nat

inductive Op (R : Type) where
  | put (r : R)
  | get (l : Nat)
  | flush
deriving DecidableEq, Repr

inductive Res (R : Type) where
  | loc (l : Nat)               -- Put: the location allocated
  | got (r : Option R)          -- Get: the record (none = nothing readable there: EOF)
  | outOfBounds                 -- Get: ErrOutOfBounds
  | flushed
deriving DecidableEq, Repr

inductive Pc (R : Type) where
  | idle
  | getChecked (l : Nat)        -- getCached found nothing: the record is to be read from the file
  | flSwapped
  | flWritten
deriving DecidableEq, Repr

structure Thread (R : Type) where
  prog : List (Op R) := []
  pc : Pc R := .idle
  out : List (Res R) := []
deriving DecidableEq, Repr

/-- a pool: the location of its first record and its records, in allocation order
    (`refs` of the code maps location ↦ index in `blocks`) -/
structure Pool (R : Type) where
  base : Nat := 0
  blocks : List R := []
deriving DecidableEq, Repr

structure State (R : Type) where
  lockAfterSwap : Bool := false
  skipPools : Bool := false
  next : Pool R := {}
  cur : Pool R := {}
  recPos : Nat := 0             -- the next location Put will hand out
  file : List R := []           -- append-only: location = position
  flushLock : Option Nat := none
  threads : List (Thread R) := []
deriving DecidableEq, Repr

variable {R : Type}

def Pool.get (p : Pool R) (l : Nat) : Option R := if p.base ≤ l then p.blocks[l - p.base]? else none

/-- the record at a location, as `Get` finds it -/
def view (s : State R) (l : Nat) : Option R := (s.next.get l).or ((s.cur.get l).or s.file[l]?)

def ret (t : Thread R) (r : Res R) : Thread R := { prog := t.prog.tail, pc := .idle, out := t.out ++ [r] }

def setThread (s : State R) (i : Nat) (t : Thread R) : State R := { s with threads := s.threads.set i t }

def step (s : State R) (i : Nat) : Option (State R) :=
  match s.threads[i]? with
  | none => none
  | some t =>
    match t.pc with
    | .idle =>
      match t.prog with
      | [] => none
      | .put r :: _ =>
        some (setThread { s with next := { s.next with blocks := s.next.blocks ++ [r] }, recPos := s.recPos + 1 } i
          (ret t (.loc s.recPos)))
      | .get l :: _ =>
        if s.skipPools && s.next.blocks.isEmpty && decide (l < s.recPos) then
          some (setThread s i { t with pc := .getChecked l })
        else
          match (s.next.get l).or (s.cur.get l) with
          | some r => some (setThread s i (ret t (.got (some r))))
          | none =>
            if l < s.recPos then some (setThread s i { t with pc := .getChecked l })
            else some (setThread s i (ret t .outOfBounds))
      | .flush :: _ =>
        if s.lockAfterSwap then
          if s.next.blocks.isEmpty then some (setThread s i (ret t .flushed))
          else some (setThread { s with cur := s.next, next := { base := s.recPos } } i { t with pc := .flSwapped })
        else
          match s.flushLock with
          | some _ => none
          | none =>
            if s.next.blocks.isEmpty then some (setThread s i (ret t .flushed))
            else some (setThread { s with cur := s.next, next := { base := s.recPos }, flushLock := some i } i
              { t with pc := .flSwapped })
    | .getChecked l => some (setThread s i (ret t (.got s.file[l]?)))
    | .flSwapped =>
      if s.lockAfterSwap then
        match s.flushLock with
        | some _ => none
        | none =>
          some (setThread { s with file := s.file ++ s.cur.blocks, flushLock := some i } i { t with pc := .flWritten })
      else some (setThread { s with file := s.file ++ s.cur.blocks } i { t with pc := .flWritten })
    | .flWritten => some (setThread { s with flushLock := none } i (ret t .flushed))

def run (s : State R) (sched : List Nat) : State R := sched.foldl (fun s i => (step s i).getD s) s

def init (progs : List (List (Op R))) : State R := { threads := progs.map fun p => { prog := p } }

end Pri

end Sth.ConcPools
