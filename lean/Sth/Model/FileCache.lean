/-
L6 side model: store/filecache/filecache.go (LRU cache of shared *os.File with reference counts
and a `removed` map).  Every exported method holds `c.lock` from entry to exit, so each method is
one atomic step of this machine.

File names and OS handles are natural numbers; a fresh handle id is allocated at every os.OpenFile
(`nextH`).  `opened` is the set of handles the OS currently has open, `closes` is the history of
os.File.Close calls (one element per call) — both are ghost state used by the theorems and by the
correspondence (the harness observes them with fstat).
-/
namespace Sth.FC

structure Ent where
  name : Nat
  h : Nat
  refs : Nat
deriving DecidableEq, Repr

structure State where
  cap : Nat := 0
  cache : List Ent := []            -- front = most recently used (container/list order)
  removed : List (Nat × Nat) := []  -- handle ↦ refs, removed from cache but still in use
  nextH : Nat := 0
  hname : List (Nat × Nat) := []    -- ghost: handle ↦ name it was opened with (file.Name())
  opened : List Nat := []           -- ghost: handles open at the OS level
  closes : List Nat := []           -- ghost: history of OS closes
deriving Repr

inductive Op where
  | open (name : Nat)
  | close (h : Nat)                 -- Close(file); file.Name() is looked up in `hname`
  | remove (name : Nat)
  | clear
  | setSize (n : Nat)
deriving DecidableEq, Repr

inductive Out where
  | handle (h : Nat)
  | ok
  | errClosed                       -- &os.PathError{Op: "close", Err: os.ErrClosed}
deriving DecidableEq, Repr

/-- file.Name() of a handle -/
def nameOf (s : State) (h : Nat) : Option Nat := (s.hname.find? (·.1 = h)).map (·.2)

def osClose (s : State) (h : Nat) : State :=
  { s with opened := s.opened.erase h, closes := h :: s.closes }

/-- removeElement: drop from the list; close if unreferenced, else park in `removed` -/
def removeEnt (s : State) (e : Ent) : State :=
  let s := { s with cache := s.cache.erase e }
  if e.refs = 0 then osClose s e.h
  else { s with removed := (e.h, e.refs) :: s.removed }

/-- removeOldest: `ll.Back()`; no-op on an empty (or nil) list -/
def removeOldest (s : State) : State :=
  match s.cache.getLast? with
  | some e => removeEnt s e
  | none => s

def removeAll (s : State) : State := s.cache.foldl removeEnt s

def iter (f : State → State) : Nat → State → State
  | 0, s => s
  | n + 1, s => iter f n (f s)

def step (s : State) : Op → State × Out
  | .open name =>
    if s.cap = 0 then
      ({ s with nextH := s.nextH + 1, opened := s.nextH :: s.opened, hname := (s.nextH, name) :: s.hname },
        .handle s.nextH)
    else
      match s.cache.find? (·.name = name) with
      | some e =>
        let e' := { e with refs := e.refs + 1 }
        ({ s with cache := e' :: s.cache.erase e }, .handle e.h)
      | none =>
        let h := s.nextH
        let s := { s with nextH := h + 1, opened := h :: s.opened, hname := (h, name) :: s.hname,
                          cache := ⟨name, h, 1⟩ :: s.cache }
        let s := if s.cache.length > s.cap then removeOldest s else s
        (s, .handle h)
  | .close h =>
    let name := nameOf s h
    match s.removed.find? (·.1 = h) with
    | some (_, refs) =>
      if refs = 1 then (osClose { s with removed := s.removed.filter (·.1 ≠ h) } h, .ok)
      else ({ s with removed := s.removed.map fun p => if p.1 = h then (p.1, refs - 1) else p }, .ok)
    | none =>
      match s.cache.find? (fun e => some e.name = name) with
      | some e =>
        if e.h = h then
          if e.refs = 0 then (s, .errClosed)
          else ({ s with cache := s.cache.map fun x => if x = e then { e with refs := e.refs - 1 } else x }, .ok)
        else (osClose s h, .ok)
      | none => (osClose s h, .ok)
  | .remove name =>
    match s.cache.find? (·.name = name) with
    | some e => (removeEnt s e, .ok)
    | none => (s, .ok)
  | .clear => (removeAll s, .ok)
  | .setSize n =>
    let s' := if n < s.cap then (if n = 0 then removeAll s else iter removeOldest (s.cap - n) s) else s
    ({ s' with cap := n }, .ok)

def run (s : State) (ops : List Op) : State := ops.foldl (fun s op => (step s op).1) s

/-! Client ghost state: how many times each handle is currently lent out. -/

structure Sys where
  fc : State := {}
  lent : Nat → Nat := fun _ => 0

/-- Open lends the returned handle once more; a successful Close gives one back -/
def Sys.step (y : Sys) (op : Op) : Sys :=
  let r := FC.step y.fc op
  let fc' := r.1
  match op, r.2 with
  | .open _, .handle h => ⟨fc', fun x => if x = h then y.lent x + 1 else y.lent x⟩
  | .close h, _ => ⟨fc', fun x => if x = h then y.lent x - 1 else y.lent x⟩
  | _, _ => ⟨fc', y.lent⟩

/-- the client closes only handles it currently holds -/
def ClientOK (y : Sys) : Op → Prop
  | .close h => y.lent h > 0
  | _ => True

def Sys.RunOK : Sys → List Op → Prop
  | _, [] => True
  | y, op :: ops => ClientOK y op ∧ Sys.RunOK (y.step op) ops

def Sys.run (y : Sys) (ops : List Op) : Sys := ops.foldl Sys.step y

/-- number of handles currently lent out at least once -/
def Sys.lentCount (y : Sys) : Nat := (List.range y.fc.nextH).countP (fun h => y.lent h > 0)

/-- initial system with a given capacity (filecache.New(capacity)) -/
def Sys.init (cap : Nat) : Sys := { fc := { cap := cap } }

end Sth.FC
