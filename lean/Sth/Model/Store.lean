/-
L3: the physical store — in-memory pools and bucket table plus byte-exact files.

Mirrors store/store.go (Put/Get/Has/GetSize/Remove/Flush/commit/Close/OpenStore/NewIterator),
store/index/index.go (readBucketInfo/readDiskBucket/Get/Put/Update/Remove/Flush/flushBucket/Close/
saveBucketState/loadBucketState/scanIndex/findLastIndex/Open), store/primary/multihash/multihash.go and
store/primary/cid/cid.go (Put/Get/GetIndexKey/Flush/flushBlock/Open/Close) and store/freelist/freelist.go
(Put/Flush/Close/Open), statement for statement, quirks included.  The model follows the code as repaired
by the `fix:` commits recorded in /verif/KNOWN_FINDINGS.txt.

Nondeterminism is a parameter: the order in which `Index.Flush` iterates its Go map is an argument.
-/
import Sth.Model.RecordList
import Sth.Model.Multihash
import Sth.Model.Util

namespace Sth

def defaultMax : Nat := 1073741824   -- 1 GiB, both index and primary

structure IdxHeader where
  bits : Nat
  max : Nat
  first : Nat
  pfs : Nat
deriving DecidableEq, Repr

structure PriHeader where
  max : Nat
  first : Nat
deriving DecidableEq, Repr

/-- saved bucket table: file size in bytes and the non-zero positions -/
structure Snap where
  size : Nat
  nz : NMap Nat
deriving DecidableEq, Repr

structure Disk where
  ihdr : Option IdxHeader := none
  ifiles : NMap Bytes := []
  snap : Option Snap := none
  phdr : Option PriHeader := none
  pfiles : NMap Bytes := []
  cidfile : Option Bytes := none
  free : Option Bytes := none
  freeGc : Option Bytes := none
deriving DecidableEq, Repr

structure PRec where
  blk : Block
  key : Bytes
  val : Bytes
deriving DecidableEq, Repr

structure Mem where
  kind : PKind
  imm : Bool
  bits : Nat
  imax : Nat
  buckets : NMap Nat := []
  inext : NMap RecordList := []
  icur : NMap RecordList := []
  ifileNum : Nat := 0
  ilength : Nat := 0
  gcResume : Option Nat := none
  pmax : Nat
  pnext : List PRec := []
  pcur : List PRec := []
  pfileNum : Nat := 0
  plength : Nat := 0
  precFileNum : Nat := 0
  precPos : Nat := 0
  visited : List Nat := []
  flpool : List Block := []
deriving Repr

structure Store where
  disk : Disk := {}
  mem : Option Mem := none
deriving Repr

/-! ### headers as bytes (encoding/json of the Header structs) -/

def idxHeaderBytes (h : IdxHeader) : Bytes :=
  strBytes s!"\{\"Version\":3,\"BucketsBits\":{h.bits},\"MaxFileSize\":{h.max},\"FirstFile\":{h.first},\"PrimaryFileSize\":{h.pfs}}"

def priHeaderBytes (h : PriHeader) : Bytes :=
  strBytes s!"\{\"Version\":1,\"MaxFileSize\":{h.max},\"FirstFile\":{h.first}}"

/-! ### positions -/

/-- localizeBucketPos: (local position, file number); (0,0) for an empty bucket -/
def localizeIdx (max pos : Nat) : Nat × Nat :=
  if pos = 0 then (0, 0) else
  let f := ((pos - 4) / max) % two32
  (pos - f * max, f)

/-- localizePrimaryPos -/
def localizePri (max pos : Nat) : Nat × Nat :=
  if pos = 0 then (0, 0) else
  let f := (pos / max) % two32
  (pos - f * max, f)

def bucketOfKey (bits : Nat) (ik : Bytes) : Option Nat :=
  if ik.length < 4 then none else some (leDec (ik.take 4) % 2 ^ bits)

/-- stripBucketPrefix: `none` ⇔ Go's nil (key shorter than the prefix) -/
def stripKey (bits : Nat) (k : Bytes) : Option Bytes :=
  if k.length < bits / 8 then none else some (k.drop (bits / 8))

/-- what the byte codec does to a record list on its way through a pool (identity when well-formed) -/
def normRL (rl : RecordList) : RecordList := (decodeRL (encodeRL rl)).1

/-! ### index reads -/

inductive Err where
  | keyExists | badKey | keyTooShort | io | other
deriving DecidableEq, Repr

def readDiskBucket (files : NMap Bytes) (max pos : Nat) : Except Err (Option RecordList) :=
  let (lp, f) := localizeIdx max pos
  if lp = 0 then .ok none else
  match files.get? f with
  | none => .error .io
  | some file =>
    match readU32 file (lp - 4) with
    | none => .error .io
    | some size =>
      match readAt file lp size with
      | none => .error .io
      | some data => .ok (some (decodeRL (data.drop 4)).1)

/-- getRecordsFromBucket / readBucketInfo + readDiskBucket -/
def idxRecords (m : Mem) (d : Disk) (b : Nat) : Except Err (Option RecordList) :=
  match m.inext.get? b with
  | some rl => .ok (some rl)
  | none =>
    match m.icur.get? b with
    | some rl => .ok (some rl)
    | none => readDiskBucket d.ifiles m.imax ((m.buckets.get? b).getD 0)

/-- Index.Get -/
def idxGet (m : Mem) (d : Disk) (ik : Bytes) : Except Err (Option Block) :=
  match bucketOfKey m.bits ik with
  | none => .error .keyTooShort
  | some b =>
    match idxRecords m d b with
    | .error e => .error e
    | .ok none => .ok none
    | .ok (some rl) => .ok (rlGet rl ((stripKey m.bits ik).getD []))

/-! ### primary reads -/

inductive PGet where
  | err
  | nilKey                       -- (nil, nil, nil): record marked deleted
  | got (key val : Bytes)
deriving Repr

def poolFind (p : List PRec) (blk : Block) : Option PRec := p.find? (·.blk = blk)

def priGet (m : Mem) (d : Disk) (blk : Block) : PGet :=
  match poolFind m.pnext blk with
  | some r => .got r.key r.val
  | none =>
    match poolFind m.pcur blk with
    | some r => .got r.key r.val
    | none =>
      match m.kind with
      | .mh =>
        if blk.off ≥ m.pmax * m.precFileNum + m.precPos then .err else
        let (lp, f) := localizePri m.pmax blk.off
        match d.pfiles.get? f with
        | none => .err
        | some file =>
          match readAt file lp (blk.size + 4) with
          | none => .err
          | some read =>
            if leDec (read.take 4) ≥ two31 then .nilKey
            else match readNode .mh (read.drop 4) with
              | none => .err
              | some (k, v) => .got k v
      | .cid =>
        if blk.off ≥ m.precPos then .err else
        match d.cidfile with
        | none => .err
        | some file =>
          match readAt file blk.off (blk.size + 4) with
          | none => .err
          | some read =>
            match readNode .cid (read.drop 4) with
            | none => .err
            | some (k, v) => .got k v

inductive IKey where
  | err
  | nilKey
  | ok (digest : Bytes)
deriving Repr

/-- Primary.GetIndexKey -/
def priGetIndexKey (m : Mem) (d : Disk) (blk : Block) : IKey :=
  match priGet m d blk with
  | .err => .err
  | .nilKey => .nilKey
  | .got k _ =>
    match indexKeyOf m.kind k with
    | none => .err
    | some dig => .ok dig

def fullOf (m : Mem) (d : Disk) (blk : Block) : FullKey :=
  match priGetIndexKey m d blk with
  | .err => .err
  | .nilKey => .bad
  | .ok dig =>
    match stripKey m.bits dig with
    | none => .bad
    | some k => .ok k

/-- Primary.Put: allocate the predicted location and pool the record -/
def priPut (m : Mem) (key val : Bytes) : Mem × Block :=
  let size := key.length + val.length
  match m.kind with
  | .mh =>
    let (rf, rp) := if m.precPos ≥ m.pmax then (m.precFileNum + 1, 0) else (m.precFileNum, m.precPos)
    let blk : Block := ⟨m.pmax * rf + rp, size⟩
    ({ m with precFileNum := rf, precPos := rp + 4 + size, pnext := m.pnext ++ [⟨blk, key, val⟩] }, blk)
  | .cid =>
    let blk : Block := ⟨m.precPos, size⟩
    ({ m with precPos := m.precPos + 4 + size, pnext := m.pnext ++ [⟨blk, key, val⟩] }, blk)

/-! ### index writes (into the next pool) -/

def idxPut (m : Mem) (d : Disk) (ik : Bytes) (loc : Block) : Except Err Mem :=
  match bucketOfKey m.bits ik with
  | none => .error .keyTooShort
  | some b =>
    match idxRecords m d b with
    | .error e => .error e
    | .ok recs =>
      match indexPut (fullOf m d) recs ((stripKey m.bits ik).getD []) loc with
      | .err => .error .io
      | .noop => .ok m
      | .set rl => .ok { m with inext := m.inext.set b (normRL rl) }

def idxUpdate (m : Mem) (d : Disk) (ik : Bytes) (loc : Block) : Except Err Mem :=
  match bucketOfKey m.bits ik with
  | none => .error .keyTooShort
  | some b =>
    match idxRecords m d b with
    | .error e => .error e
    | .ok recs =>
      match indexUpdate recs ((stripKey m.bits ik).getD []) loc with
      | none => .error .other
      | some rl => .ok { m with inext := m.inext.set b (normRL rl) }

def idxRemove (m : Mem) (d : Disk) (ik : Bytes) : Except Err (Mem × Bool) :=
  match bucketOfKey m.bits ik with
  | none => .error .keyTooShort
  | some b =>
    match idxRecords m d b with
    | .error e => .error e
    | .ok recs =>
      match indexRemove recs ((stripKey m.bits ik).getD []) with
      | none => .ok (m, false)
      | some rl => .ok ({ m with inext := m.inext.set b (normRL rl) }, true)

/-! ### store operations -/

/-- getPrimaryKeyData: `some (value)` when the record at `blk` holds exactly `ik`; an unreadable or
    malformed record makes the store drop whatever index entry matches `ik`. -/
def getPrimaryKeyData (m : Mem) (d : Disk) (blk : Block) (ik : Bytes) : Except Err (Mem × Option Bytes) :=
  let dropIndex : Except Err (Mem × Option Bytes) :=
    match idxRemove m d ik with
    | .error _ => .error .other
    | .ok (m', _) => .ok (m', none)
  match priGet m d blk with
  | .err => dropIndex
  | .nilKey => dropIndex           -- IndexKey(nil) fails
  | .got k v =>
    match indexKeyOf m.kind k with
    | none => dropIndex
    | some sk => if sk = ik then .ok (m, some v) else .ok (m, none)

inductive GetRes where
  | found (v : Bytes)
  | absent
  | err (e : Err)
deriving Repr

def storeGet (m : Mem) (d : Disk) (key : Bytes) : Mem × GetRes :=
  match indexKeyOf m.kind key with
  | none => (m, .err .badKey)
  | some ik =>
    match idxGet m d ik with
    | .error e => (m, .err e)
    | .ok none => (m, .absent)
    | .ok (some blk) =>
      match getPrimaryKeyData m d blk ik with
      | .error e => (m, .err e)
      | .ok (m', none) => (m', .absent)
      | .ok (m', some v) => (m', .found v)

inductive BoolRes where
  | val (b : Bool)
  | err (e : Err)
deriving Repr

def storeHas (m : Mem) (d : Disk) (key : Bytes) : BoolRes :=
  match indexKeyOf m.kind key with
  | none => .err .badKey
  | some ik =>
    match idxGet m d ik with
    | .error e => .err e
    | .ok none => .val false
    | .ok (some blk) =>
      match priGetIndexKey m d blk with
      | .err => .err .io
      | .nilKey => .val false
      | .ok dig => .val (dig = ik)

inductive SizeRes where
  | found (n : Nat)
  | absent
  | err (e : Err)
deriving Repr

def storeGetSize (m : Mem) (d : Disk) (key : Bytes) : SizeRes :=
  match indexKeyOf m.kind key with
  | none => .err .badKey
  | some ik =>
    match idxGet m d ik with
    | .error e => .err e
    | .ok none => .absent
    | .ok (some blk) =>
      match priGetIndexKey m d blk with
      | .err => .err .io
      | .nilKey => .absent
      | .ok dig => if dig = ik then .found (blk.size - key.length) else .absent

inductive PutRes3 where
  | ok
  | err (e : Err)
deriving Repr

def storePut (m : Mem) (d : Disk) (key val : Bytes) : Mem × PutRes3 :=
  match indexKeyOf m.kind key with
  | none => (m, .err .badKey)
  | some ik =>
    match idxGet m d ik with
    | .error e => (m, .err e)
    | .ok prev =>
      -- look the previous record up (may drop an unusable index entry)
      let looked : Except Err (Mem × Option Block × Option Bytes) :=
        match prev with
        | none => .ok (m, none, none)
        | some blk =>
          match getPrimaryKeyData m d blk ik with
          | .error e => .error e
          | .ok (m', sv) => .ok (m', some blk, sv)
      match looked with
      | .error e => (m, .err e)
      | .ok (m1, prevBlk, stored) =>
        match stored with
        | some sv =>
          if m1.imm then (m1, .err .keyExists)
          else if val = sv then (m1, .ok)
          else
            let (m2, loc) := priPut m1 key val
            match idxUpdate m2 d ik loc with
            | .error e => (m2, .err e)
            | .ok m3 => ({ m3 with flpool := m3.flpool ++ [prevBlk.getD default] }, .ok)
        | none =>
          let (m2, loc) := priPut m1 key val
          match idxPut m2 d ik loc with
          | .error e => (m2, .err e)
          | .ok m3 => (m3, .ok)

def storeRemove (m : Mem) (d : Disk) (key : Bytes) : Mem × BoolRes :=
  match indexKeyOf m.kind key with
  | none => (m, .err .badKey)
  | some ik =>
    match idxGet m d ik with
    | .error e => (m, .err e)
    | .ok none => (m, .val false)
    | .ok (some blk) =>
      match getPrimaryKeyData m d blk ik with
      | .error e => (m, .err e)
      | .ok (m1, none) => (m1, .val false)
      | .ok (m1, some _) =>
        match idxRemove m1 d ik with
        | .error e => (m1, .err e)
        | .ok (m2, removed) =>
          if removed then ({ m2 with flpool := m2.flpool ++ [blk] }, .val true)
          else (m2, .val false)

/-! ### flush -/

def fileOf (files : NMap Bytes) (n : Nat) : Bytes := (files.get? n).getD []

/-- MultihashPrimary.Flush / CIDPrimary.Flush. `none` = error (new file already exists). -/
def priFlush (m : Mem) (d : Disk) : Option (Mem × Disk) :=
  if m.pnext.isEmpty then some (m, d) else
  let recs := m.pnext
  let m := { m with pcur := m.pnext, pnext := [] }
  match m.kind with
  | .cid =>
    let data := recs.flatMap fun r => le32 (r.key.length + r.val.length) ++ r.key ++ r.val
    some (m, { d with cidfile := some ((d.cidfile.getD []) ++ data) })
  | .mh =>
    recs.foldlM (fun (md : Mem × Disk) r =>
      let (m, d) := md
      let roll := m.plength ≥ m.pmax
      if roll ∧ d.pfiles.has (m.pfileNum + 1) then none else
      let (fn, len, files) :=
        if roll then (m.pfileNum + 1, 0, d.pfiles.set (m.pfileNum + 1) []) else (m.pfileNum, m.plength, d.pfiles)
      let data := le32 (r.key.length + r.val.length) ++ r.key ++ r.val
      some ({ m with pfileNum := fn, plength := len + data.length },
            { d with pfiles := files.set fn (fileOf files fn ++ data) })) (m, d)

/-- Index.Flush with the map iteration order made explicit. The caller guarantees that `order` is a
    permutation of the pool's buckets. -/
def idxFlush (m : Mem) (d : Disk) (order : List Nat) : Mem × Disk :=
  if m.inext.isEmpty then (m, d) else
  let pool := m.inext
  let m := { m with icur := m.inext, inext := [] }
  let (m, d, blks) := order.foldl (fun (acc : Mem × Disk × List (Nat × Nat)) b =>
    let (m, d, blks) := acc
    match pool.get? b with
    | none => acc
    | some rl =>
      let data := encodeRL rl
      let roll := m.ilength ≥ m.imax
      let (fn, len, files) :=
        if roll then (m.ifileNum + 1, 0, if d.ifiles.has (m.ifileNum + 1) then d.ifiles else d.ifiles.set (m.ifileNum + 1) [])
        else (m.ifileNum, m.ilength, d.ifiles)
      let rec_ := le32 (data.length + 4) ++ le32 b ++ data
      ({ m with ifileNum := fn, ilength := len + rec_.length },
       { d with ifiles := files.set fn (fileOf files fn ++ rec_) },
       blks ++ [(b, fn * m.imax + len + 4)])) (m, d, [])
  ({ m with buckets := blks.foldl (fun bk (b, pos) => bk.set b pos) m.buckets }, d)

def blockBytes (b : Block) : Bytes := le64 b.off ++ le32 b.size

/-- FreeList.Flush -/
def flFlush (m : Mem) (d : Disk) : Mem × Disk :=
  if m.flpool.isEmpty then (m, d) else
  ({ m with flpool := [] }, { d with free := some ((d.free.getD []) ++ m.flpool.flatMap blockBytes) })

def outstanding (m : Mem) : Bool := !m.inext.isEmpty || !m.pnext.isEmpty

/-- Store.commit: primary, index, freelist -/
def commit (m : Mem) (d : Disk) (order : List Nat) : Option (Mem × Disk) :=
  match priFlush m d with
  | none => none
  | some (m, d) =>
    let (m, d) := idxFlush m d order
    some (flFlush m d)

/-- Store.Flush -/
def storeFlush (m : Mem) (d : Disk) (order : List Nat) : Option (Mem × Disk) :=
  if outstanding m then commit m d order else some (m, d)

/-! ### iteration -/

/-- Store.NewIterator + drain (after its implicit Flush, done by the caller): every live entry in
    bucket order, resolved through the primary; unreadable or deleted records are skipped. -/
def storeIter (m : Mem) (d : Disk) : Except Err (List (Bytes × Bytes)) :=
  m.buckets.foldlM (fun acc (b, pos) =>
    if pos = 0 then pure acc else
    let recs : Except Err (Option RecordList) :=
      match m.inext.get? b with
      | some rl => .ok (some rl)
      | none => match m.icur.get? b with
        | some rl => .ok (some rl)
        | none => readDiskBucket d.ifiles m.imax pos
    match recs with
    | .error e => .error e
    | .ok none => pure acc
    | .ok (some rl) =>
      pure (acc ++ rl.filterMap fun e =>
        match priGet m d e.blk with
        | .got k v => some (k, v)
        | _ => none)) []

/-! ### close -/

/-- Store.Close (repaired order: primary, then index, then freelist — see KNOWN_FINDINGS D10/D15). -/
def storeClose (s : Store) (order : List Nat) : Option Store :=
  match s.mem with
  | none => some s
  | some m =>
    match priFlush m s.disk with
    | none => none
    | some (m, d) =>
      let (m, d) := idxFlush m d order
      let d := { d with snap := some ⟨8 * 2 ^ m.bits, m.buckets.filter (·.2 ≠ 0)⟩ }
      let (_, d) := flFlush m d
      some { disk := d, mem := none }

/-! ### open -/

/-- findLastIndex / findLastPrimary -/
def findLast (files : NMap Bytes) (first : Nat) : Nat :=
  let rec go (fuel n last : Nat) : Nat :=
    match fuel with
    | 0 => last
    | fuel + 1 => if files.has n then go fuel (n + 1) n else last
  go (files.length + 1) first 0

/-- scanIndexFile: returns the (possibly truncated) file and the updated buckets; `none` on an
    out-of-range bucket (open fails). `tornPrefix` = truncate a tail torn inside the size prefix. -/
def scanFile (nb : Nat) (max fnum : Nat) : Nat → Bytes → Nat → NMap Nat → Option (Bytes × NMap Nat)
  | 0, file, _, bk => some (file, bk)
  | fuel + 1, file, pos, bk =>
    match readAt file pos 4 with
    | none =>
      if availAt file pos 4 > 0 then some (truncateTo file pos, bk) else some (file, bk)
    | some sz =>
      let size := leDec sz
      let pos' := pos + 4
      if size ≥ two31 then scanFile nb max fnum fuel file (pos' + (size - two31)) bk
      else
        match readAt file pos' size with
        | none => some (truncateTo file (pos' - 4), bk)
        | some data =>
          let b := leDec (data.take 4)
          if b ≥ nb then none
          else scanFile nb max fnum fuel file (pos' + size) (bk.set b (fnum * max + pos'))

/-- scanIndex from `first`: (files, buckets, last file number) -/
def scanIndex (nb max : Nat) (files : NMap Bytes) (first : Nat) : Option (NMap Bytes × NMap Nat × Nat) :=
  let rec go (fuel n last : Nat) (files : NMap Bytes) (bk : NMap Nat) : Option (NMap Bytes × NMap Nat × Nat) :=
    match fuel with
    | 0 => some (files, bk, last)
    | fuel + 1 =>
      match files.get? n with
      | none => some (files, bk, last)
      | some file =>
        if file.isEmpty then go fuel (n + 1) n files bk else
        match scanFile nb max n (file.length + 1) file 0 bk with
        | none => none
        | some (file', bk') => go fuel (n + 1) n (files.set n file') bk'
  go (files.length + 1) first 0 files []

inductive OpenErr where
  | wrongBits | wrongIndexFileSize | wrongPrimaryFileSize | badConfig | other
deriving DecidableEq, Repr

structure Cfg where
  kind : PKind := .mh
  bits : Nat := 24
  ifs : Nat := 0
  pfs : Nat := 0
  imm : Bool := false
deriving Repr

/-- mhprimary.Open / cidprimary.Open on the disk: returns the disk (header / file created) and the
    primary's part of the memory state as (pmax, fileNum, length). -/
def openPrimary (c : Cfg) (d : Disk) : Except OpenErr (Disk × Nat × Nat × Nat) :=
  match c.kind with
  | .cid =>
    let f := d.cidfile.getD []
    .ok ({ d with cidfile := some f }, 0, 0, f.length)
  | .mh =>
    let pmax := if c.pfs = 0 then defaultMax else c.pfs
    if pmax > defaultMax then .error .badConfig else
    match d.phdr with
    | none =>
      let d := { d with phdr := some ⟨pmax, 0⟩ }
      let d := if d.pfiles.has 0 then d else { d with pfiles := d.pfiles.set 0 [] }
      .ok (d, pmax, 0, (fileOf d.pfiles 0).length)
    | some h =>
      if h.max ≠ pmax then .error .wrongPrimaryFileSize else
      let last := findLast d.pfiles h.first
      let d := if d.pfiles.has last then d else { d with pfiles := d.pfiles.set last [] }
      .ok (d, pmax, last, (fileOf d.pfiles last).length)

/-- index.Open on the disk (without translation): buckets, last file, disk. -/
def openIndex (c : Cfg) (pmaxHdr : Nat) (d : Disk) : Except OpenErr (Disk × Nat × Nat × NMap Nat × Nat) :=
  if c.bits ≠ 0 ∧ (c.bits > 31 ∨ c.bits < 8) then .error .badConfig else
  if c.ifs > defaultMax then .error .badConfig else
  match d.ihdr with
  | none =>
    let bits := if c.bits = 0 then 24 else c.bits
    let imax := if c.ifs = 0 then defaultMax else c.ifs
    let d := { d with ihdr := some ⟨bits, imax, 0, pmaxHdr⟩ }
    let d := if d.ifiles.has 0 then d else { d with ifiles := d.ifiles.set 0 [] }
    .ok (d, bits, imax, [], 0)
  | some h =>
    let bits := if c.bits = 0 then h.bits else c.bits
    let imax := if c.ifs = 0 then h.max else c.ifs
    if h.bits ≠ bits then .error .wrongBits else
    if h.max ≠ imax then .error .wrongIndexFileSize else
    let usable : Bool := match d.snap with
      | some s => s.size == 8 * 2 ^ bits
      | none => false
    let loaded : Option (Disk × NMap Nat × Nat) :=
      if usable then
        some ({ d with snap := none }, (d.snap.map (·.nz)).getD [], findLast d.ifiles h.first)
      else
        match scanIndex (2 ^ bits) imax d.ifiles h.first with
        | none => none
        | some (files, bk, last) => some ({ d with snap := none, ifiles := files }, bk, last)
    match loaded with
    | none => .error .other
    | some (d, bk, last) =>
      if c.kind = .mh ∧ h.pfs ≠ pmaxHdr then .error .wrongPrimaryFileSize else
      let d := if d.ifiles.has last then d else { d with ifiles := d.ifiles.set last [] }
      .ok (d, bits, imax, bk, last)

/-- OpenStore without index translation (bit-size change) and without legacy upgrade. -/
def openStore (c : Cfg) (d : Disk) : Disk × Except OpenErr Mem :=
  let d := { d with free := some (d.free.getD []) }
  match openPrimary c d with
  | .error e => (d, .error e)
  | .ok (d, pmax, pfn, plen) =>
    match openIndex c pmax d with
    | .error e => (d, .error e)
    | .ok (d, bits, imax, bk, last) =>
      (d, .ok { kind := c.kind, imm := c.imm, bits := bits, imax := imax, buckets := bk,
                ifileNum := last, ilength := (fileOf d.ifiles last).length,
                pmax := pmax, pfileNum := pfn, plength := plen, precFileNum := pfn, precPos := plen })

/-! ### storage size -/

def sumFrom (files : NMap Bytes) (first : Nat) : Nat :=
  let rec go (fuel n acc : Nat) : Nat :=
    match fuel with
    | 0 => acc
    | fuel + 1 => match files.get? n with
      | some f => go fuel (n + 1) (acc + f.length)
      | none => acc
  go (files.length + 1) first 0

def indexStorage (d : Disk) : Nat :=
  match d.ihdr with
  | none => 0
  | some h => (idxHeaderBytes h).length + sumFrom d.ifiles h.first

def primaryStorage (kind : PKind) (d : Disk) : Nat :=
  match kind with
  | .cid => (d.cidfile.getD []).length
  | .mh => match d.phdr with
    | none => 0
    | some h => (priHeaderBytes h).length + sumFrom d.pfiles h.first

def freelistStorage (d : Disk) : Nat := (d.free.getD []).length

end Sth
