/-
Index-level machine for one bucket over the in-memory primary (store/primary/inmemory):
what the C08 harness drives (`index.Index.Put/Update/Remove/Get` with `inmemory.New`).

The in-memory primary is an append-only list; `Put` returns `Block{Offset: len, Size: 1}`.
Keys here are the *stripped* index keys (bucket-prefix bytes removed), all in one bucket.
-/
import Sth.Model.RecordList

namespace Sth

structure IxState where
  rl : Option RecordList := none     -- none ⇔ bucket never written (records == nil)
  prim : List Key := []              -- in-memory primary: offset i ↦ stripped key
deriving Repr

inductive IxOp where
  | put (k : Key)
  | upd (k : Key)
  | rm (k : Key)
deriving Repr, DecidableEq

def IxOp.key : IxOp → Key
  | .put k => k | .upd k => k | .rm k => k

def IxState.full (s : IxState) (b : Block) : FullKey :=
  match s.prim[b.off]? with
  | none => .err
  | some k => .ok k

/-- the location the in-memory primary hands out next -/
def IxState.nextLoc (s : IxState) : Block := ⟨s.prim.length, 1⟩

/-- one harness step: primary.Put (for put/upd) followed by the index call -/
def IxState.step (s : IxState) : IxOp → IxState
  | .put k =>
    let loc := s.nextLoc
    let s' := { s with prim := s.prim ++ [k] }
    match indexPut s'.full s.rl k loc with
    | .set rl => { s' with rl := some rl }
    | _ => s'
  | .upd k =>
    let loc := s.nextLoc
    let s' := { s with prim := s.prim ++ [k] }
    match indexUpdate s.rl k loc with
    | some rl => { s' with rl := some rl }
    | none => s'
  | .rm k =>
    match indexRemove s.rl k with
    | some rl => { s with rl := some rl }
    | none => s

def IxState.run (s : IxState) (ops : List IxOp) : IxState := ops.foldl IxState.step s

def IxState.get (s : IxState) (k : Key) : Option Block :=
  match s.rl with
  | none => none
  | some rl => rlGet rl k

def IxState.entries (s : IxState) : RecordList := s.rl.getD []

/-! Specification: a partial map from keys to the location most recently associated. -/

abbrev IxSpec := Key → Option Block

def IxSpec.empty : IxSpec := fun _ => none

/-- spec step given the location handed out (`n` = number of primary records so far) -/
def IxSpec.step (m : IxSpec) (n : Nat) : IxOp → IxSpec
  | .put k => fun x => if x = k then (match m k with | some b => some b | none => some ⟨n, 1⟩) else m x
  | .upd k => fun x => if x = k then some ⟨n, 1⟩ else m x
  | .rm k => fun x => if x = k then none else m x

/-- number of primary records after an op -/
def IxOp.grows : IxOp → Nat
  | .put _ => 1 | .upd _ => 1 | .rm _ => 0

def IxSpec.run : IxSpec → Nat → List IxOp → IxSpec
  | m, _, [] => m
  | m, n, op :: ops => IxSpec.run (m.step n op) (n + op.grows) ops

/-- discipline the store follows: Update / Remove only address present keys
    (`Store.Put/Remove` verify the full key in the primary first). -/
def Disciplined : IxSpec → Nat → List IxOp → Prop
  | _, _, [] => True
  | m, n, op :: ops =>
    (match op with
     | .put _ => True
     | .upd k => (m k).isSome
     | .rm k => (m k).isSome) ∧ Disciplined (m.step n op) (n + op.grows) ops

end Sth
