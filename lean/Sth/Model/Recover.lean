/-
OpenStore as the repaired code does it: freelist.Open first cuts off a partly written 12-byte entry.
(Kept apart from Sth/Model/Store.lean's `openStore`, which it wraps.)
-/
import Sth.Model.Store

namespace Sth

/-- freelist.Open: create if missing; truncate to a whole number of entries -/
def openFreelist (d : Disk) : Disk :=
  let f := d.free.getD []
  { d with free := some (f.take (f.length - f.length % 12)) }

def openStoreR (c : Cfg) (d : Disk) : Disk × Except OpenErr Mem := openStore c (openFreelist d)

end Sth
