/-
The relocation step of primary GC, split at the point where other threads can run.

`relocate` (Sth/Model/GC.lean, the function the correspondence run compares with
store/primary/multihash/gc.go) does, for one record of a low-use file:
    copy      primary.Put(key, value)            -- the copy is pooled at the next location
    -- hook point `primary.gc.reloc.put`: the window in which calls of other threads run --
    finish    index.Relocate(key, old, new)      -- re-point ONLY IF the index still names `old`
              on refusal: freelist.Put(new)      -- the copy is garbage
              freelist.Put(old)                  -- always
`relocCopy` is everything up to and including the pooling of the copy; it returns the new memory state
and the collector's LOCAL state (index key, old block, new block).  `relocFinish` continues exactly as
`relocate` does, from whatever memory / disk state the window left.  `relocate_split` ties the split to
`relocate`.

Also here: the two DEFECTIVE finishes the window schedules are meant to catch —
`relocFinishUncond` (the re-pointing as it was before the repair of D29: unconditional, `Index.Update`)
and `relocFinishWeak` (a seeded change: `Index.Relocate` refuses only when offset AND size of the
current block both differ from the old one).

Second part: one hand-over pass of primary GC (`freelistPass`) split at ITS two hook points
(`primary.gc.tgc_done`, `primary.gc.flushed`): `toGC`, `priFlush`, and `passApply` (the rest);
`freelistPass_split` ties the split to `freelistPass`.
Core Lean only.
-/
import Sth.Model.GC

namespace Sth

/-- what the collector holds across the relocation window -/
structure RelocLocal where
  ik : Bytes          -- the index key (digest) of the record being moved
  old : Block         -- where the record is
  loc : Block         -- where the copy has been pooled
deriving DecidableEq, Repr

/-- relocate, first half: read the record, pool the copy (primary.Put) -/
def relocCopy (m : Mem) (fnum : Nat) (file : Bytes) (at_ : Nat) (busySize : Nat) :
    Option (Mem × RelocLocal) :=
  match readU32 file at_ with
  | none => none
  | some size =>
    match readAt file (at_ + 4) size with
    | none => none
    | some data =>
      match readNode .mh data with
      | none => none
      | some (key, val) =>
        match indexKeyOf .mh key with
        | none => none
        | some ik =>
          let (m, loc) := priPut m key val
          some (m, ⟨ik, ⟨m.pmax * fnum + at_, busySize⟩, loc⟩)

/-- relocate, second half: Index.Relocate with the local state; on refusal the copy is freed; the old
    location is freed in any case -/
def relocFinish (m : Mem) (d : Disk) (l : RelocLocal) : Mem :=
  let m := match idxRelocate m d l.ik l.old l.loc with
    | .ok m' => m'
    | .error _ => { m with flpool := m.flpool ++ [l.loc] }
  { m with flpool := m.flpool ++ [l.old] }

/-- the split is `relocate`: finishing right after the copy, on the same disk -/
theorem relocate_split (m : Mem) (d : Disk) (fnum : Nat) (file : Bytes) (at_ busySize : Nat) :
    relocate m d fnum file at_ busySize =
      (relocCopy m fnum file at_ busySize).map (fun p => relocFinish p.1 d p.2) := by
  unfold relocate relocCopy relocFinish
  cases readU32 file at_ with
  | none => rfl
  | some size =>
    simp only
    cases readAt file (at_ + 4) size with
    | none => rfl
    | some data =>
      simp only
      cases readNode .mh data with
      | none => rfl
      | some kv =>
        simp only
        cases indexKeyOf .mh kv.1 with
        | none => rfl
        | some ik => rfl

/-! ### the hand-over pass of primary GC, split at its two hook points

`freelistPass` = `toGC` (hook point `primary.gc.tgc_done`), `priFlush` (hook point `primary.gc.flushed`),
`passApply`.  Other threads' calls may run at either hook point. -/

/-- the part of a hand-over pass after the primary flush: processFreeList on the hand-over file -/
def passApply (m : Mem) (d : Disk) (budget : Budget) : FlOut × Mem × Disk × Budget × List Nat :=
  let gcData := d.freeGc.getD []
  let (entries, complete) := parseFreeList (gcData.length + 1) gcData []
  let (expired, budget) :=
    if gcData.isEmpty then (false, budget) else freelistPass.pollN entries.length budget
  if expired then (.deadline, m, d, budget, []) else
  let (files, affected) := if entries.isEmpty then (d.pfiles, []) else deleteRecords m.pmax d.pfiles entries
  let d := { d with pfiles := files }
  let (expired, budget) := if gcData.isEmpty then (false, budget) else poll budget
  if expired then (.deadline, m, d, budget, affected) else
  if !complete then (.err, m, d, budget, affected) else
  (.ok, m, { d with freeGc := none }, budget, affected)

/-- the split is `freelistPass`: hand-over, flush and apply with nothing in between -/
theorem freelistPass_split (m : Mem) (d : Disk) (budget : Budget) :
    freelistPass m d budget =
      match priFlush (toGC m d).1 (toGC m d).2 with
      | none => (.flushErr, (toGC m d).1, (toGC m d).2, budget, [])
      | some (m1, d1) => passApply m1 d1 budget := by
  unfold freelistPass passApply
  cases toGC m d with
  | mk m0 d0 =>
    simp only
    cases priFlush m0 d0 with
    | none => rfl
    | some p => rfl

/-! ### the defective finishes -/

/-- DEFECT (D29, repaired in the code): the re-pointing is unconditional — `Index.Update(key, new)`
    instead of `Index.Relocate(key, old, new)` -/
def relocFinishUncond (m : Mem) (d : Disk) (l : RelocLocal) : Mem :=
  let m := match idxUpdate m d l.ik l.loc with
    | .ok m' => m'
    | .error _ => { m with flpool := m.flpool ++ [l.loc] }
  { m with flpool := m.flpool ++ [l.old] }

/-- `Index.Relocate` with the weakened comparison: refuse only when BOTH the offset and the size of the
    block the index names differ from the old block -/
def idxRelocateWeak (m : Mem) (d : Disk) (ik : Bytes) (old loc : Block) : Except Err Mem :=
  match bucketOfKey m.bits ik with
  | none => .error .keyTooShort
  | some b =>
    match idxRecords m d b with
    | .error e => .error e
    | .ok none => .error .other
    | .ok (some rl) =>
      match getRec rl ((stripKey m.bits ik).getD []) with
      | none => .error .other
      | some (i, e) =>
        if e.blk.off ≠ old.off ∧ e.blk.size ≠ old.size then .error .other
        else .ok { m with inext := m.inext.set b (normRL (putKeys rl [⟨e.pfx, loc⟩] i (i + 1))) }

/-- DEFECT (seeded): the finish with the weakened comparison -/
def relocFinishWeak (m : Mem) (d : Disk) (l : RelocLocal) : Mem :=
  let m := match idxRelocateWeak m d l.ik l.old l.loc with
    | .ok m' => m'
    | .error _ => { m with flpool := m.flpool ++ [l.loc] }
  { m with flpool := m.flpool ++ [l.old] }

end Sth
