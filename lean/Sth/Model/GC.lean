/-
L3: the two garbage collectors, at byte level.

Mirrors store/index/gc.go (gc, truncateFreeFiles, reapIndexRecords, busy) and
store/primary/multihash/gc.go (gc, processFreeList, deleteRecords, reapRecords) and
FreeList.ToGC.  Time limits are a parameter: `budget` is the number of `ctx.Err()` polls that return
nil before the deadline (`none` = no deadline); the harness passes a context that counts polls.
-/
import Sth.Model.Store

namespace Sth

/-- remaining successful polls; `none` = unlimited -/
abbrev Budget := Option Nat

/-- one `ctx.Err()` poll: (expired?, budget afterwards) -/
def poll (b : Budget) : Bool × Budget :=
  match b with
  | none => (false, none)
  | some 0 => (true, some 0)
  | some (n + 1) => (false, some n)

/-! ### index GC -/

inductive Reap where
  | stale | kept | deadline | err
deriving DecidableEq, Repr

structure ReapSt where
  file : Bytes
  pos : Nat := 0
  freeAt : Int := -1
  busyAt : Int := -1
  freeAtSize : Nat := 0
  budget : Budget

/-- Index.busy -/
def idxBusy (m : Mem) (bucket pos fnum : Nat) : Option Bool :=
  if bucket ≥ 2 ^ m.bits then none else
  let (lp, f) := localizeIdx m.imax ((m.buckets.get? bucket).getD 0)
  some (f = fnum ∧ lp = pos)

def setDeleted (file : Bytes) (at_ : Nat) (size : Nat) : Bytes := writeAt file at_ (le32 (size + two31))

def reapIdxLoop (m : Mem) (fnum : Nat) : Nat → ReapSt → Reap × ReapSt
  | 0, st => (.kept, st)
  | fuel + 1, st =>
    let (expired, bud) := poll st.budget
    let st := { st with budget := bud }
    if expired then (.deadline, st) else
    match readU32 st.file st.pos with
    | none => (.kept, st)
    | some raw =>
      if raw ≥ two31 then
        let size := raw - two31
        let st :=
          if st.freeAt > st.busyAt then
            let fs := st.freeAtSize + 4 + size
            if fs ≥ two31 then { st with freeAt := st.pos, freeAtSize := size }
            else { st with freeAtSize := fs, file := setDeleted st.file st.freeAt.toNat fs }
          else { st with freeAt := st.pos, freeAtSize := size }
        reapIdxLoop m fnum fuel { st with pos := st.pos + 4 + size }
      else
        let size := raw
        match readAt st.file (st.pos + 4) size with
        | none => (.kept, st)
        | some data =>
          match idxBusy m (leDec (data.take 4)) (st.pos + 4) fnum with
          | none => (.err, st)
          | some true => reapIdxLoop m fnum fuel { st with busyAt := st.pos, pos := st.pos + 4 + size }
          | some false =>
            let st :=
              if st.freeAt > st.busyAt then
                let fs := st.freeAtSize + 4 + size
                if fs ≥ two31 then { st with freeAt := st.pos, freeAtSize := size }
                else { st with freeAtSize := fs }
              else { st with freeAt := st.pos, freeAtSize := size }
            let st := { st with file := setDeleted st.file st.freeAt.toNat st.freeAtSize }
            reapIdxLoop m fnum fuel { st with pos := st.pos + 4 + size }

/-- reapIndexRecords on one file: result, new file contents, budget -/
def reapIndexRecords (m : Mem) (fnum : Nat) (file : Bytes) (budget : Budget) : Reap × Bytes × Budget :=
  if file.isEmpty then (.stale, file, budget) else
  let (r, st) := reapIdxLoop m fnum (file.length + 2) { file := file, budget := budget }
  match r with
  | .kept =>
    if st.freeAt > st.busyAt then
      let f := truncateTo st.file st.freeAt.toNat
      (if st.freeAt = 0 then .stale else .kept, f, st.budget)
    else (.kept, st.file, st.budget)
  | r => (r, st.file, st.budget)

inductive GcOut where
  | ok | deadline | err
deriving DecidableEq, Repr

/-- truncateFreeFiles -/
def truncateFreeFiles (m : Mem) (d : Disk) (budget : Budget) : GcOut × Disk × Budget :=
  match d.ihdr with
  | none => (.err, d, budget)
  | some h =>
    let last := m.ifileNum
    if last = h.first then (.ok, d, budget) else
    let busySet := m.buckets.filterMap fun (_, pos) => if pos = 0 then none else some (localizeIdx m.imax pos).2
    let rec go (fuel n : Nat) (h : IdxHeader) (d : Disk) (budget : Budget) : GcOut × Disk × Budget :=
      match fuel with
      | 0 => (.ok, d, budget)
      | fuel + 1 =>
        if n = last then (.ok, d, budget) else
        if busySet.contains n then go fuel (n + 1) h d budget else
        let (expired, budget) := poll budget
        if expired then (.deadline, d, budget) else
        match d.ifiles.get? n with
        | none => go fuel (n + 1) h d budget
        | some f =>
          if h.first = n then
            let h := { h with first := h.first + 1 }
            go fuel (n + 1) h { d with ihdr := some h, ifiles := d.ifiles.del n } budget
          else if f.isEmpty then go fuel (n + 1) h d budget
          else go fuel (n + 1) h { d with ifiles := d.ifiles.set n [] } budget
    go (last - h.first + 1) h.first h d budget

/-- Index.gc -/
def indexGC (m : Mem) (d : Disk) (scanFree : Bool) (budget : Budget) : GcOut × Mem × Disk × Budget :=
  let (r0, d, budget) := if scanFree then truncateFreeFiles m d budget else (.ok, d, budget)
  if r0 ≠ .ok then (r0, m, d, budget) else
  match d.ihdr with
  | none => (.err, m, d, budget)
  | some h =>
    let last := m.ifileNum
    if h.first = last then (.ok, m, d, budget) else
    let start := m.gcResume.getD h.first
    let m := { m with gcResume := none }
    let rec go (fuel n : Nat) (seenFirst : Bool) (h : IdxHeader) (m : Mem) (d : Disk) (budget : Budget) :
        GcOut × Mem × Disk × Budget :=
      match fuel with
      | 0 => (.ok, m, d, budget)
      | fuel + 1 =>
        if n = last then (.ok, m, d, budget) else
        match d.ifiles.get? n with
        | none => (.err, m, d, budget)
        | some file =>
          let (r, file', budget) := reapIndexRecords m n file budget
          let d := { d with ifiles := d.ifiles.set n file' }
          match r with
          | .deadline => (.deadline, { m with gcResume := some n }, d, budget)
          | .err => (.err, m, d, budget)
          | _ =>
            let (h, d, seenFirst) :=
              if r = .stale ∧ h.first = n then
                let h := { h with first := h.first + 1 }
                (h, { d with ihdr := some h, ifiles := d.ifiles.del n }, true)
              else (h, d, seenFirst)
            let n := n + 1
            if n = last then
              if seenFirst then (.ok, m, d, budget)
              else
                let n := h.first
                if n = start then (.ok, m, d, budget) else go fuel n seenFirst h m d budget
            else if n = start then (.ok, m, d, budget)
            else go fuel n seenFirst h m d budget
    go (2 * (last - h.first) + 4) start false h m d budget

/-! ### freelist hand-over and primary GC -/

/-- FreeList.ToGC: an existing .gc is returned as is; otherwise flush, rename, reopen empty -/
def toGC (m : Mem) (d : Disk) : Mem × Disk :=
  match d.freeGc with
  | some _ => (m, d)
  | none =>
    let (m, d) := flFlush m d
    (m, { d with freeGc := some (d.free.getD []), free := some [] })

def parseFreeList : Nat → Bytes → List Block → List Block × Bool
  | 0, _, acc => (acc.reverse, true)
  | fuel + 1, data, acc =>
    if data.isEmpty then (acc.reverse, true)
    else if data.length < 12 then (acc.reverse, false)
    else parseFreeList fuel (data.drop 12) (⟨leDec (data.take 8), leDec ((data.drop 8).take 4)⟩ :: acc)

def insertByOff (b : Block) : List Block → List Block
  | [] => [b]
  | x :: xs => if b.off < x.off then b :: x :: xs else x :: insertByOff b xs

def sortByOff (l : List Block) : List Block := l.foldl (fun acc b => insertByOff b acc) []

/-- deleteRecords: mark the named records deleted; returns files and the affected set -/
def deleteRecords (pmax : Nat) (files : NMap Bytes) (batch : List Block) : NMap Bytes × List Nat :=
  (sortByOff batch).foldl (fun (acc : NMap Bytes × List Nat) fr =>
    let (files, aff) := acc
    let (lp, f) := localizePri pmax fr.off
    match files.get? f with
    | none => acc
    | some file =>
      if lp > file.length then acc else
      match readU32 file lp with
      | none => acc
      | some raw =>
        if raw ≥ two31 then acc
        else if raw ≠ fr.size then acc
        else (files.set f (setDeleted file lp raw), if aff.contains f then aff else aff ++ [f])) (files, [])

structure PReap where
  file : Bytes
  pos : Nat := 0
  freeAt : Int := -1
  busyAt : Int := -1
  prevBusyAt : Int := -1
  busySize : Nat := 0
  prevBusySize : Nat := 0
  totalBusy : Nat := 0
  totalFree : Nat := 0
  freeAtSize : Nat := 0

def reapPriLoop : Nat → PReap → PReap
  | 0, st => st
  | fuel + 1, st =>
    match readU32 st.file st.pos with
    | none => st
    | some raw =>
      if raw ≥ two31 then
        let size := raw - two31
        let st :=
          if st.freeAt > st.busyAt then
            let fs := st.freeAtSize + 4 + size
            if fs ≥ two31 then { st with freeAt := st.pos, freeAtSize := size }
            else { st with freeAtSize := fs, file := setDeleted st.file st.freeAt.toNat fs }
          else { st with freeAt := st.pos, freeAtSize := size }
        reapPriLoop fuel { st with totalFree := st.totalFree + size, pos := st.pos + 4 + size }
      else
        reapPriLoop fuel { st with prevBusyAt := st.busyAt, prevBusySize := st.busySize, busyAt := st.pos,
                                   busySize := raw, totalBusy := st.totalBusy + raw, pos := st.pos + 4 + raw }

inductive PReapOut where
  | dead | kept | err
deriving DecidableEq, Repr

/-- Index.Relocate: re-point `ik` from `old` to `loc` only if the index still refers to `old` -/
def idxRelocate (m : Mem) (d : Disk) (ik : Bytes) (old loc : Block) : Except Err Mem :=
  match bucketOfKey m.bits ik with
  | none => .error .keyTooShort
  | some b =>
    match idxRecords m d b with
    | .error e => .error e
    | .ok none => .error .other
    | .ok (some rl) =>
      match getRec rl ((stripKey m.bits ik).getD []) with
      | none => .error .other
      | some (i, e) =>
        if e.blk = old then .ok { m with inext := m.inext.set b (normRL (putKeys rl [⟨e.pfx, loc⟩] i (i + 1))) }
        else .error .other

/-- relocate the record at `at_` of file `fnum`: primary.Put + Index.Relocate + freelist.Put(old) -/
def relocate (m : Mem) (d : Disk) (fnum : Nat) (file : Bytes) (at_ : Nat) (busySize : Nat) : Option Mem :=
  match readU32 file at_ with
  | none => none
  | some size =>
    match readAt file (at_ + 4) size with
    | none => none
    | some data =>
      match readNode .mh data with
      | none => none
      | some (key, val) =>
        match indexKeyOf .mh key with
        | none => none
        | some ik =>
          let (m, loc) := priPut m key val
          let old : Block := ⟨m.pmax * fnum + at_, busySize⟩
          let m := match idxRelocate m d ik old loc with
            | .ok m' => m'
            | .error _ => { m with flpool := m.flpool ++ [loc] }
          some { m with flpool := m.flpool ++ [old] }

/-- reapRecords on one primary file: (result, mem, disk, reclaimed bytes) -/
def reapRecords (m : Mem) (d : Disk) (fnum : Nat) (lowUse : Nat) : PReapOut × Mem × Disk × Nat :=
  match d.pfiles.get? fnum with
  | none => (.err, m, d, 0)
  | some file =>
    if file.isEmpty then (.dead, m, d, 0) else
    let st := reapPriLoop (file.length + 2) { file := file }
    let (file, reclaimed, dead) : Bytes × Nat × Bool :=
      if st.freeAt > st.busyAt then (truncateTo st.file st.freeAt.toNat, st.freeAtSize, decide (st.freeAt = 0))
      else (st.file, 0, false)
    let d := { d with pfiles := d.pfiles.set fnum file }
    if dead then (.dead, m, d, reclaimed) else
    if st.busyAt = -1 then (.kept, m, d, reclaimed) else
    if 100 * st.totalFree ≥ lowUse * (st.totalFree + st.totalBusy) then
      match relocate m d fnum file st.busyAt.toNat st.busySize with
      | none => (.err, m, d, reclaimed)
      | some m =>
        if st.prevBusyAt ≥ 0 then
          match relocate m d fnum file st.prevBusyAt.toNat st.prevBusySize with
          | none => (.err, m, d, reclaimed)
          | some m => (.kept, m, d, reclaimed)
        else (.kept, m, d, reclaimed)
    else (.kept, m, d, reclaimed)

structure PgcRes where
  out : GcOut
  reclaimed : Nat

inductive FlOut where
  | ok | deadline | err | flushErr
deriving DecidableEq, Repr

/-- one hand-over pass of primaryGC.gc: ToGC, primary Flush, processFreeList.
    Returns the outcome, the state, and the files in which a record was newly marked deleted. -/
def freelistPass (m : Mem) (d : Disk) (budget : Budget) : FlOut × Mem × Disk × Budget × List Nat :=
  let (m, d) := toGC m d
  match priFlush m d with
  | none => (.flushErr, m, d, budget, [])
  | some (m, d) =>
    let gcData := d.freeGc.getD []
    let (entries, complete) := parseFreeList (gcData.length + 1) gcData []
    -- one poll per loop iteration; the batch (capacity = number of complete entries) is applied in the
    -- iteration that reads the last complete entry, before the poll of the iteration that hits the end
    let rec pollN (n : Nat) (b : Budget) : Bool × Budget :=
      match n with
      | 0 => (false, b)
      | n + 1 => let (e, b) := poll b; if e then (true, b) else pollN n b
    let (expired, budget) := if gcData.isEmpty then (false, budget) else pollN entries.length budget
    if expired then (.deadline, m, d, budget, []) else
    let (files, affected) := if entries.isEmpty then (d.pfiles, []) else deleteRecords m.pmax d.pfiles entries
    let d := { d with pfiles := files }
    let (expired, budget) := if gcData.isEmpty then (false, budget) else poll budget
    if expired then (.deadline, m, d, budget, affected) else
    if !complete then (.err, m, d, budget, affected) else
    (.ok, m, { d with freeGc := none }, budget, affected)

/-- the files in which a hand-over pass newly marked records leave the visited set: they are reaped again.  (Repaired, D33: also when
    the pass ends early — the marks stay, and the re-processed .gc file reports no affected file for records already marked.) -/
def unvisit (m : Mem) (affected : List Nat) : Mem := { m with visited := m.visited.filter (fun f => !affected.contains f) }

/-- primaryGC.gc (repaired: two hand-over passes — the freelist is rotated and the primary flushed
    before the freelist is applied, and a second pass hands over what an unfinished earlier cycle's
    .gc file kept back). `none` = flush error. -/
def primaryGC (m : Mem) (d : Disk) (lowUse : Nat) (budget : Budget) : Option (PgcRes × Mem × Disk × Budget) :=
  let (r1, m, d, budget, aff1) := freelistPass m d budget
  match r1 with
  | .flushErr => none
  | .deadline => some (⟨.deadline, 0⟩, unvisit m aff1, d, budget)
  | .err => some (⟨.err, 0⟩, unvisit m aff1, d, budget)
  | .ok =>
  let (r2, m, d, budget, aff2) := freelistPass m d budget
  match r2 with
  | .flushErr => none
  | .deadline => some (⟨.deadline, 0⟩, unvisit m (aff1 ++ aff2), d, budget)
  | .err => some (⟨.err, 0⟩, unvisit m (aff1 ++ aff2), d, budget)
  | .ok =>
    let affected := aff1 ++ aff2
    let m := { m with visited := m.visited.filter (fun f => !affected.contains f) }
    match d.phdr with
    | none => some (⟨.err, 0⟩, m, d, budget)
    | some h =>
      let rec go (fuel n : Nat) (h : PriHeader) (m : Mem) (d : Disk) (budget : Budget) (recl : Nat) :
          PgcRes × Mem × Disk × Budget :=
        match fuel with
        | 0 => (⟨.ok, recl⟩, m, d, budget)
        | fuel + 1 =>
          if n = m.pfileNum then (⟨.ok, recl⟩, m, d, budget) else
          if m.visited.contains n then go fuel (n + 1) h m d budget recl else
          let (r, m, d, got) := reapRecords m d n lowUse
          let recl := recl + got
          match r with
          | .err => (⟨.err, recl⟩, m, d, budget)
          | _ =>
            let (h, d) :=
              if r = .dead ∧ n = h.first then
                let h := { h with first := h.first + 1 }
                (h, { d with phdr := some h, pfiles := d.pfiles.del n })
              else (h, d)
            let m := { m with visited := m.visited ++ [n] }
            let (expired, budget) := poll budget
            if expired then (⟨.deadline, 0⟩, m, d, budget)
            else go fuel (n + 1) h m d budget recl
      some (go (m.pfileNum - h.first + 1) h.first h m d budget 0)

end Sth
