/-
L3-crash: the directory images a process crash can leave behind while OpenStore itself runs.

OpenStore (store.go; here `openStoreR` of Sth/Model/Recover.lean = `openFreelist` + `openStore` of
Sth/Model/Store.lean, no bit-size change, no legacy upgrade) changes the directory in a fixed order of
file-system steps, each of which is atomic with respect to a process crash (create, truncate, rename,
unlink):

  freelist.Open      1. create the freelist file if it is missing
                     2. truncate a partly written 12-byte entry
  mhprimary.Open     3. if the header is missing: write it (temporary file + rename; the temporary file is
                        not a file the store ever reads, so it is not part of the image)
                     4. open the last primary file, creating it if it is missing
  cidprimary.Open    3'. open the CID file, creating it if it is missing
  index.Open         5. if the header is missing: write it (temporary file + rename); otherwise
                     6. `loadBucketState`: read the snapshot, then REMOVE the snapshot file (deferred
                        `os.Remove`, executed whether or not the snapshot could be used)
                     7. if the snapshot was not usable: `scanIndex`, file by file in ascending order; a file
                        that ends in a torn record is truncated when the scan reaches its end
                     8. open the last index file, creating it if it is missing

`openSteps c d` lists the directory after each of these steps, in code order.  A step that finds nothing
to do (file exists, nothing to truncate, no snapshot) repeats the previous directory; the scan contributes
one entry per non-empty file it has gone through.  If the open fails, the list stops at the failing check
(the steps before it have happened).  When the open succeeds, the last entry is the directory
`(openStoreR c d).1` that the model's open returns (`openSteps_last`, Sth/Lemmas/C03OpenSteps.lean).

The hook points of the harness between these steps: `primary.open.header_written`,
`primary.open.file_opened`, `index.open.header_written`, `index.open.snapshot_read` (before the removal),
`index.open.scan.truncated`, `index.open.state_loaded`, `index.open.file_opened`.
-/
import Sth.Model.Translate

namespace Sth

/-- `scanIndex`, recording the file map after every non-empty file it has gone through (the file is
    rewritten — truncated — when it ends in a torn record; otherwise the entry repeats the map) -/
def scanIndexSteps (nb max : Nat) (files : NMap Bytes) (first : Nat) : List (NMap Bytes) :=
  let rec go (fuel n : Nat) (files : NMap Bytes) (bk : NMap Nat) : List (NMap Bytes) :=
    match fuel with
    | 0 => []
    | fuel + 1 =>
      match files.get? n with
      | none => []
      | some file =>
        if file.isEmpty then go fuel (n + 1) files bk else
        match scanFile nb max n (file.length + 1) file 0 bk with
        | none => []
        | some (file', bk') => files.set n file' :: go fuel (n + 1) (files.set n file') bk'
  go (files.length + 1) first files []

/-- the directory after each step of mhprimary.Open / cidprimary.Open (`openPrimary`) -/
def openPrimarySteps (c : Cfg) (d : Disk) : List Disk :=
  match c.kind with
  | .cid => [{ d with cidfile := some (d.cidfile.getD []) }]
  | .mh =>
    let pmax := if c.pfs = 0 then defaultMax else c.pfs
    if pmax > defaultMax then [] else
    match d.phdr with
    | none =>
      let d1 := { d with phdr := some ⟨pmax, 0⟩ }
      [d1, if d1.pfiles.has 0 then d1 else { d1 with pfiles := d1.pfiles.set 0 [] }]
    | some h =>
      if h.max ≠ pmax then [] else
      let last := findLast d.pfiles h.first
      [if d.pfiles.has last then d else { d with pfiles := d.pfiles.set last [] }]

/-- the directory after each step of index.Open (`openIndex`) -/
def openIndexSteps (c : Cfg) (pmaxHdr : Nat) (d : Disk) : List Disk :=
  if c.bits ≠ 0 ∧ (c.bits > 31 ∨ c.bits < 8) then [] else
  if c.ifs > defaultMax then [] else
  match d.ihdr with
  | none =>
    let bits := if c.bits = 0 then 24 else c.bits
    let imax := if c.ifs = 0 then defaultMax else c.ifs
    let d1 := { d with ihdr := some ⟨bits, imax, 0, pmaxHdr⟩ }
    [d1, if d1.ifiles.has 0 then d1 else { d1 with ifiles := d1.ifiles.set 0 [] }]
  | some h =>
    let bits := if c.bits = 0 then h.bits else c.bits
    let imax := if c.ifs = 0 then h.max else c.ifs
    if h.bits ≠ bits then [] else
    if h.max ≠ imax then [] else
    let usable : Bool := match d.snap with
      | some s => s.size == 8 * 2 ^ bits
      | none => false
    -- loadBucketState has returned: the snapshot file (if any) is removed
    let d1 := { d with snap := none }
    let create (d : Disk) (last : Nat) : Disk :=
      if d.ifiles.has last then d else { d with ifiles := d.ifiles.set last [] }
    if usable then
      if c.kind = .mh ∧ h.pfs ≠ pmaxHdr then [d1] else [d1, create d1 (findLast d.ifiles h.first)]
    else
      let scanned := (scanIndexSteps (2 ^ bits) imax d.ifiles h.first).map
        fun fs => { d with snap := none, ifiles := fs }
      match scanIndex (2 ^ bits) imax d.ifiles h.first with
      | none => d1 :: scanned
      | some (files, _, last) =>
        if c.kind = .mh ∧ h.pfs ≠ pmaxHdr then d1 :: scanned
        else d1 :: scanned ++ [create { d with snap := none, ifiles := files } last]

/-- the directory after each file-system step of `openStoreR c d`, in code order -/
def openSteps (c : Cfg) (d : Disk) : List Disk :=
  let d0 := { d with free := some (d.free.getD []) }
  let d1 := openFreelist d
  let dS := { d1 with free := some (d1.free.getD []) }
  [d0, d1] ++ openPrimarySteps c dS ++
    match openPrimary c dS with
    | .error _ => []
    | .ok (dP, pmax, _, _) => openIndexSteps c pmax dP

/-! ## the re-bucketing (store.go `translateIndex` + index.MoveFiles)

When index.Open answers "wrong bit size", OpenStore runs `translateIndex` (Sth/Model/Translate.lean): it
opens the OLD index with its own bit size (`loadBucketState` removes the snapshot file, or the scan cuts
torn tails), builds the NEW index in a temporary directory `new_index*` INSIDE the index directory
(header and file 0 at once, everything else when it is closed), closes both (the old index saves its
table as a snapshot again), and then swaps the files with two calls of `index.MoveFiles`, each of which
renames, one `os.Rename` at a time, the data files in ascending order from the header's first file while
they exist, then the header, then the snapshot:

    MoveFiles(old → `old_index*`)      old files out one by one, old header out, old snapshot out
    MoveFiles(`new_index*` → index)    new files in one by one, new header in, new snapshot in
    RemoveAll(`old_index*`)            (and, deferred, RemoveAll(`new_index*`))

`translateSteps` lists the directories after each of these steps, in code order, the two temporary
directories as separate components.  The swap is NOT crash-safe (known finding D13): between the first
old file leaving and the new header arriving, the index directory holds a header whose log has a hole, or
no header at all.  `TransStep.inWindow` marks those steps; `TransStep.point` is the hook point of the
harness at which the image is taken.  (The plain index.Open that follows the translation runs on the last
directory of the list; its steps are those of `openIndexSteps`.) -/

/-- an index directory: header, data files, snapshot -/
structure IdxDir where
  ihdr : Option IdxHeader := none
  ifiles : NMap Bytes := []
  snap : Option Snap := none
deriving DecidableEq, Repr

/-- the store's directory (`main`: index directory, primary, freelist) and the two temporary directories
    of the re-bucketing -/
structure TransDir where
  main : Disk
  newTmp : IdxDir := {}
  oldTmp : IdxDir := {}
deriving DecidableEq, Repr

/-- the steps of the re-bucketing after which the directory is listed -/
inductive TransStep where
  | oldOpened                 -- old index open (snapshot removed / torn tails cut), new index created: header + empty file 0
  | newClosed                 -- new index closed: its files and snapshot complete in `new_index*`
  | oldClosed                 -- old index closed: its snapshot saved again
  | oldFileMoved (n : Nat)    -- old data file `n` renamed into `old_index*`
  | oldHeaderMoved            -- old header renamed into `old_index*`
  | oldMoved                  -- old snapshot renamed into `old_index*`: first MoveFiles done
  | newFileMoved (n : Nat)    -- new data file `n` renamed into the index directory
  | newHeaderMoved            -- new header renamed into the index directory
  | newMoved                  -- new snapshot renamed into the index directory: second MoveFiles done
  | oldRemoved                -- temporary directories removed
deriving DecidableEq, Repr

/-- the hook point of the harness at which the directory after the step is captured -/
def TransStep.point : TransStep → String
  | .oldOpened => "translate.copied"
  | .newClosed => "translate.new_closed"
  | .oldClosed => "translate.old_closed"
  | .oldFileMoved _ => "movefiles.file_moved"
  | .oldHeaderMoved => "movefiles.header_moved"
  | .oldMoved => "translate.old_moved"
  | .newFileMoved _ => "movefiles.file_moved"
  | .newHeaderMoved => "movefiles.header_moved"
  | .newMoved => "translate.new_moved"
  | .oldRemoved => "translate.old_removed"

/-- the D13 window: from the first old file leaving the index directory until the new header arrives -/
def TransStep.inWindow : TransStep → Bool
  | .oldFileMoved _ => true
  | .oldHeaderMoved => true
  | .oldMoved => true
  | .newFileMoved _ => true
  | _ => false

/-- the file numbers index.MoveFiles goes through (`fileIter`): `first`, `first + 1`, … while the file
    exists -/
def fileRun (files : NMap Bytes) (first : Nat) : List Nat :=
  let rec go (fuel n : Nat) : List Nat :=
    match fuel with
    | 0 => []
    | fuel + 1 => if files.has n then n :: go fuel (n + 1) else []
  go (files.length + 1) first

/-- the files `ns` renamed away -/
def delFiles (files : NMap Bytes) (ns : List Nat) : NMap Bytes := ns.foldl NMap.del files

/-- the files `ns` of `src` renamed in (over a file of the same name, if there is one) -/
def putFiles (files src : NMap Bytes) (ns : List Nat) : NMap Bytes :=
  ns.foldl (fun fs n => fs.set n (fileOf src n)) files

/-- the directories after each step of the re-bucketing, given the old header `h`, the directory `d` it
    starts from, the old index as loaded (`ifiles`: torn tails cut; `bk`: its bucket table) and the
    directory `dT` that `translateIndex` returns -/
def transStepsOf (h : IdxHeader) (d : Disk) (ifiles : NMap Bytes) (bk : NMap Nat) (dT : Disk) :
    List (TransStep × TransDir) :=
  -- old index open: snapshot file removed, torn tails cut
  let dO : Disk := { d with snap := none, ifiles := ifiles }
  -- old index closed: its table saved again
  let dC : Disk := { dO with snap := some ⟨8 * 2 ^ h.bits, bk.filter (·.2 ≠ 0)⟩ }
  let new0 : IdxDir := { ihdr := dT.ihdr, ifiles := [(0, [])] }
  let newD : IdxDir := { ihdr := dT.ihdr, ifiles := dT.ifiles, snap := dT.snap }
  let olds := fileRun dC.ifiles h.first
  let news := fileRun dT.ifiles 0
  let mainA (k : Nat) : Disk := { dC with ifiles := delFiles dC.ifiles (olds.take k) }
  let oldOut (k : Nat) : IdxDir := { ifiles := putFiles [] dC.ifiles (olds.take k) }
  let dE : Disk := { dC with ifiles := delFiles dC.ifiles olds, ihdr := none, snap := none }
  let oldAll : IdxDir := { ihdr := dC.ihdr, ifiles := putFiles [] dC.ifiles olds, snap := dC.snap }
  let mainB (k : Nat) : Disk := { dE with ifiles := putFiles dE.ifiles dT.ifiles (news.take k) }
  let newIn (k : Nat) : IdxDir := { newD with ifiles := delFiles dT.ifiles (news.take k) }
  let dN : Disk := { mainB news.length with ihdr := dT.ihdr, snap := dT.snap }
  [(.oldOpened, ⟨dO, new0, {}⟩), (.newClosed, ⟨dO, newD, {}⟩), (.oldClosed, ⟨dC, newD, {}⟩)] ++
  (List.range olds.length).map (fun i =>
    (.oldFileMoved (olds.getD i 0), ⟨mainA (i + 1), newD, oldOut (i + 1)⟩)) ++
  [(.oldHeaderMoved, ⟨{ mainA olds.length with ihdr := none }, newD,
      { oldOut olds.length with ihdr := dC.ihdr }⟩),
   (.oldMoved, ⟨dE, newD, oldAll⟩)] ++
  (List.range news.length).map (fun i =>
    (.newFileMoved (news.getD i 0), ⟨mainB (i + 1), newIn (i + 1), oldAll⟩)) ++
  [(.newHeaderMoved, ⟨{ mainB news.length with ihdr := dT.ihdr },
      { newIn news.length with ihdr := none }, oldAll⟩),
   (.newMoved, ⟨dN, {}, oldAll⟩),
   (.oldRemoved, ⟨dN, {}, {}⟩)]

/-- the directories after each step of the re-bucketing `translateIndex kind pmax pfn plen newBits ifsArg d
    order`, in code order; empty if `translateIndex` fails -/
def translateSteps (kind : PKind) (pmax pfn plen : Nat) (newBits ifsArg : Nat) (d : Disk)
    (order : List Nat) : List (TransStep × TransDir) :=
  match d.ihdr with
  | none => []
  | some h =>
    let imax := if ifsArg = 0 then h.max else ifsArg
    let usable : Bool := match d.snap with
      | some s => s.size == 8 * 2 ^ h.bits
      | none => false
    let loaded : Option (NMap Bytes × NMap Nat) :=
      if usable then some (d.ifiles, (d.snap.map (·.nz)).getD [])
      else (scanIndex (2 ^ h.bits) imax d.ifiles h.first).map fun (files, bk, _) => (files, bk)
    match loaded with
    | none => []
    | some (ifiles, bk) =>
      match translateIndex kind pmax pfn plen newBits ifsArg d order with
      | .error _ => []
      | .ok (dT, _) => transStepsOf h d ifiles bk dT

end Sth
