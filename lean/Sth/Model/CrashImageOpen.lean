/-
L3-crash: the directory images a process crash can leave behind while OpenStore itself runs.

OpenStore (store.go; here `openStoreR` of Sth/Model/Recover.lean = `openFreelist` + `openStore` of
Sth/Model/Store.lean, no bit-size change, no legacy upgrade) changes the directory in a fixed order of
file-system steps, each of which is atomic with respect to a process crash (create, truncate, rename,
unlink):

  freelist.Open      1. create the freelist file if it is missing
                     2. truncate a partly written 12-byte entry
  mhprimary.Open     3. if the header is missing: write it (temporary file + rename; the temporary file is
                        not a file the store ever reads, so it is not part of the image)
                     4. open the last primary file, creating it if it is missing
  cidprimary.Open    3'. open the CID file, creating it if it is missing
  index.Open         5. if the header is missing: write it (temporary file + rename); otherwise
                     6. `loadBucketState`: read the snapshot, then REMOVE the snapshot file (deferred
                        `os.Remove`, executed whether or not the snapshot could be used)
                     7. if the snapshot was not usable: `scanIndex`, file by file in ascending order; a file
                        that ends in a torn record is truncated when the scan reaches its end
                     8. open the last index file, creating it if it is missing

`openSteps c d` lists the directory after each of these steps, in code order.  A step that finds nothing
to do (file exists, nothing to truncate, no snapshot) repeats the previous directory; the scan contributes
one entry per non-empty file it has gone through.  If the open fails, the list stops at the failing check
(the steps before it have happened).  When the open succeeds, the last entry is the directory
`(openStoreR c d).1` that the model's open returns (`openSteps_last`, Sth/Lemmas/C03OpenSteps.lean).

The hook points of the harness between these steps: `primary.open.header_written`,
`primary.open.file_opened`, `index.open.header_written`, `index.open.snapshot_read` (before the removal),
`index.open.scan.truncated`, `index.open.state_loaded`, `index.open.file_opened`.
-/
import Sth.Model.Recover

namespace Sth

/-- `scanIndex`, recording the file map after every non-empty file it has gone through (the file is
    rewritten — truncated — when it ends in a torn record; otherwise the entry repeats the map) -/
def scanIndexSteps (nb max : Nat) (files : NMap Bytes) (first : Nat) : List (NMap Bytes) :=
  let rec go (fuel n : Nat) (files : NMap Bytes) (bk : NMap Nat) : List (NMap Bytes) :=
    match fuel with
    | 0 => []
    | fuel + 1 =>
      match files.get? n with
      | none => []
      | some file =>
        if file.isEmpty then go fuel (n + 1) files bk else
        match scanFile nb max n (file.length + 1) file 0 bk with
        | none => []
        | some (file', bk') => files.set n file' :: go fuel (n + 1) (files.set n file') bk'
  go (files.length + 1) first files []

/-- the directory after each step of mhprimary.Open / cidprimary.Open (`openPrimary`) -/
def openPrimarySteps (c : Cfg) (d : Disk) : List Disk :=
  match c.kind with
  | .cid => [{ d with cidfile := some (d.cidfile.getD []) }]
  | .mh =>
    let pmax := if c.pfs = 0 then defaultMax else c.pfs
    if pmax > defaultMax then [] else
    match d.phdr with
    | none =>
      let d1 := { d with phdr := some ⟨pmax, 0⟩ }
      [d1, if d1.pfiles.has 0 then d1 else { d1 with pfiles := d1.pfiles.set 0 [] }]
    | some h =>
      if h.max ≠ pmax then [] else
      let last := findLast d.pfiles h.first
      [if d.pfiles.has last then d else { d with pfiles := d.pfiles.set last [] }]

/-- the directory after each step of index.Open (`openIndex`) -/
def openIndexSteps (c : Cfg) (pmaxHdr : Nat) (d : Disk) : List Disk :=
  if c.bits ≠ 0 ∧ (c.bits > 31 ∨ c.bits < 8) then [] else
  if c.ifs > defaultMax then [] else
  match d.ihdr with
  | none =>
    let bits := if c.bits = 0 then 24 else c.bits
    let imax := if c.ifs = 0 then defaultMax else c.ifs
    let d1 := { d with ihdr := some ⟨bits, imax, 0, pmaxHdr⟩ }
    [d1, if d1.ifiles.has 0 then d1 else { d1 with ifiles := d1.ifiles.set 0 [] }]
  | some h =>
    let bits := if c.bits = 0 then h.bits else c.bits
    let imax := if c.ifs = 0 then h.max else c.ifs
    if h.bits ≠ bits then [] else
    if h.max ≠ imax then [] else
    let usable : Bool := match d.snap with
      | some s => s.size == 8 * 2 ^ bits
      | none => false
    -- loadBucketState has returned: the snapshot file (if any) is removed
    let d1 := { d with snap := none }
    let create (d : Disk) (last : Nat) : Disk :=
      if d.ifiles.has last then d else { d with ifiles := d.ifiles.set last [] }
    if usable then
      if c.kind = .mh ∧ h.pfs ≠ pmaxHdr then [d1] else [d1, create d1 (findLast d.ifiles h.first)]
    else
      let scanned := (scanIndexSteps (2 ^ bits) imax d.ifiles h.first).map
        fun fs => { d with snap := none, ifiles := fs }
      match scanIndex (2 ^ bits) imax d.ifiles h.first with
      | none => d1 :: scanned
      | some (files, _, last) =>
        if c.kind = .mh ∧ h.pfs ≠ pmaxHdr then d1 :: scanned
        else d1 :: scanned ++ [create { d with snap := none, ifiles := files } last]

/-- the directory after each file-system step of `openStoreR c d`, in code order -/
def openSteps (c : Cfg) (d : Disk) : List Disk :=
  let d0 := { d with free := some (d.free.getD []) }
  let d1 := openFreelist d
  let dS := { d1 with free := some (d1.free.getD []) }
  [d0, d1] ++ openPrimarySteps c dS ++
    match openPrimary c dS with
    | .error _ => []
    | .ok (dP, pmax, _, _) => openIndexSteps c pmax dP

end Sth
