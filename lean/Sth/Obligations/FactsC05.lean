/-
Call-order and shape facts regenerated from /repo, as obligations (closed by `decide`).
-/
import Sth.Generated.Facts

namespace Sth.Obligations
open Sth.Generated

/-- C05/C13: every mutator of the index, the freelist pool and the primary pool is ONE exclusive section: its lock is taken once,
    in write mode, never in read mode, and every access to the struct's mutable data and every call that reaches such data inside
    the function holds it (the read-modify-write of a bucket / pool cannot be interleaved) -/
theorem C05_mutators_atomic :
    rmwSections.map (·.1) = ["Index.Put", "Index.Update", "Index.Remove", "Index.Relocate", "FreeList.Put", "MultihashPrimary.Put"] ∧
    rmwSections.all (fun (_, w, r, ok, n) => w == 1 && r == 0 && ok && n ≥ 3) = true := by decide

end Sth.Obligations
