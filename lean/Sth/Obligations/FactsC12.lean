/-
Call-order and shape facts regenerated from /repo, as obligations (closed by `decide`).
-/
import Sth.Generated.Facts

namespace Sth.Obligations
open Sth.Generated

/-- C12: Store.Flush has three return statements (no work, commit error, normal) and two notice-closing sections:
    both non-error return paths pass one -/
theorem C12_flush_paths : flushReturns = 3 ∧ flushNoticeClears = 2 := by decide

/-- C12: flushTick tests for and creates the flush notice under rateLk held exclusively (the `register` step of Sth/Model/Rate.lean
    is atomic) -/
theorem C12_register_atomic : flushTickNoticeExclusive = true ∧ flushTickNoticeAccesses ≥ 3 := by decide

end Sth.Obligations
