/-
Call-order and shape facts regenerated from /repo, as obligations (closed by `decide`).
-/
import Sth.Generated.Facts

namespace Sth.Obligations
open Sth.Generated

/-- C03: commit writes the primary, then the index, then the freelist -/
theorem C03_commit_order : commitOrder = ["MultihashPrimary.Flush", "Index.Flush", "FreeList.Flush"] := by decide

/-- C03/C06: Close closes the primary (stopping its collector) before the index, the freelist last -/
theorem C03_close_order : closeOrder = ["MultihashPrimary.Close", "Index.Close", "FreeList.Close"] := by decide

/-- C14_concurrent: every access of a FileCache field from an exported method holds c.lock exclusively -/
theorem C14_methods_atomic : fileCacheAllLocked = true ∧ fileCacheRows ≥ 50 := by decide

/-- C12: Store.Flush has three return statements (no work, commit error, normal) and two notice-closing sections:
    both non-error return paths pass one -/
theorem C12_flush_paths : flushReturns = 3 ∧ flushNoticeClears = 2 := by decide

/-- C17: the background loops close their done channels -/
theorem C17_done_channels : runClosesClosed = true ∧ igcClosesDone = true ∧ pgcClosesDone = true := by decide

end Sth.Obligations
