/-
C13 / C11 obligation over the regenerated facts: the collector's own primary Flush is a BARRIER between the hand-over of the freelist
and its application (Sth/Model/BarrierConc.lean assumes it).
-/
import Sth.Generated.Facts

namespace Sth.Obligations
open Sth.Generated

/-- every return statement of `MultihashPrimary.Flush`, `Index.Flush` and `FreeList.Flush` is reached with the function's flushLock
    held (no caller returns without having queued behind a flush that is already running), and `primaryGC.gc` hands the freelist
    over, then flushes the primary, then applies the freelist -/
theorem C13_flush_is_barrier :
    flushBarrier.map (·.1) = ["MultihashPrimary.Flush", "Index.Flush", "FreeList.Flush"] ∧
    flushBarrier.all (fun (_, n, held) => n ≥ 2 && held == n) = true ∧
    gcHandoverOrder = ["FreeList.ToGC", "MultihashPrimary.Flush", "pkg.processFreeList"] := by decide

end Sth.Obligations
