/-
Call-order and shape facts regenerated from /repo, as obligations (closed by `decide`).
-/
import Sth.Generated.Facts

namespace Sth.Obligations
open Sth.Generated

/-- C03: commit writes the primary, then the index, then the freelist -/
theorem C03_commit_order : commitOrder = ["MultihashPrimary.Flush", "Index.Flush", "FreeList.Flush"] := by decide

/-- C03/C06: Close closes the primary (stopping its collector) before the index, the freelist last -/
theorem C03_close_order : closeOrder = ["MultihashPrimary.Close", "Index.Close", "FreeList.Close"] := by decide

end Sth.Obligations
