/-
C16 obligation over the regenerated access table: for every shared field, every write access reachable from
the entry points (the public API of C16's list, the flusher goroutine, both collector goroutines) and every
other access of that field that can run concurrently with it hold a common lock, the write exclusively — the
hypothesis of `Sth.Race.C16_lockset_sound` for each conflicting pair.  Kernel evaluation over the whole table.
-/
import Sth.Obligations.Table

namespace Sth.Obligations
open Sth.Generated

theorem C16_discipline : violationCount = 0 := by decide +kernel

/-- the table is not trivially empty -/
theorem C16_table_nontrivial : (rows.filter (·.write)).length ≥ 50 ∧ rows.length ≥ 300 ∧ lockNames.length ≥ 10 := by decide +kernel

end Sth.Obligations
