/-
Call-order and shape facts regenerated from /repo, as obligations (closed by `decide`).
-/
import Sth.Generated.Facts

namespace Sth.Obligations
open Sth.Generated

/-- C14_concurrent: every access of a FileCache field from an exported method holds c.lock exclusively -/
theorem C14_methods_atomic : fileCacheAllLocked = true ∧ fileCacheRows ≥ 50 := by decide

/-- … and every exported method is ONE critical section (`c.lock.Lock()` has one call site in it): the sequential model
    `Sth/Model/FileCache.lean` takes each method as one atomic step, which an Unlock/Lock pair inside a method would break -/
theorem C14_methods_single_section :
    fileCacheSections.map (·.1) = ["FileCache.Cap", "FileCache.Clear", "FileCache.Close", "FileCache.Len", "FileCache.Open",
      "FileCache.Remove", "FileCache.SetCacheSize", "FileCache.SetOnEvicted", "FileCache.Stats"] ∧
    fileCacheSections.all (·.2 == 1) = true := by decide

end Sth.Obligations
