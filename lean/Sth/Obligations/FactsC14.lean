/-
Call-order and shape facts regenerated from /repo, as obligations (closed by `decide`).
-/
import Sth.Generated.Facts

namespace Sth.Obligations
open Sth.Generated

/-- C14_concurrent: every access of a FileCache field from an exported method holds c.lock exclusively -/
theorem C14_methods_atomic : fileCacheAllLocked = true ∧ fileCacheRows ≥ 50 := by decide

end Sth.Obligations
