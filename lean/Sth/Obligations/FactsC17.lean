/-
Call-order and shape facts regenerated from /repo, as obligations (closed by `decide`).
-/
import Sth.Generated.Facts

namespace Sth.Obligations
open Sth.Generated

/-- C17: the background loops close their done channels -/
theorem C17_done_channels : runClosesClosed = true ∧ igcClosesDone = true ∧ pgcClosesDone = true := by decide

end Sth.Obligations
