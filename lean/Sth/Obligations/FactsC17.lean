/-
Call-order and shape facts regenerated from /repo, as obligations (closed by `decide`).
-/
import Sth.Generated.Facts

namespace Sth.Obligations
open Sth.Generated

/-- C17: the background loops close their done channels -/
theorem C17_done_channels : runClosesClosed = true ∧ igcClosesDone = true ∧ pgcClosesDone = true := by decide

/-- C17: the shutdown handshakes live in locals of the loop functions (`gcDone`, the timer): no branch declares one of them again
    with `:=` (which would leave the variable the stop arm waits on untouched) -/
theorem C17_handshake_locals_not_shadowed : lifecycleShadowedLocals = [] := by decide

end Sth.Obligations
