/-
The pairwise lockset rule over the access table regenerated from /repo (Sth/Generated/Facts.lean).
-/
import Sth.Generated.Facts

namespace Sth.Obligations
open Sth.Generated

def holdsAny (r : Row) (l : Nat) : Bool := r.held.any (fun h => h.1 == l)

/-- `a` is a write: some lock it holds exclusively is also held (in any mode) by `b` -/
def pairOK (a b : Row) : Bool := a.held.any fun h => h.2 && holdsAny b h.1

/-- two accesses can run concurrently: different thread classes, or a class whose instances run concurrently -/
def concurrent (a b : Row) : Bool := if a.cls == b.cls then classSelfConcurrent.getD a.cls false else true

def violationsOf (rs : List Row) : List (Row × Row) :=
  rs.flatMap fun a => if !a.write then [] else
    rs.filterMap fun b => if concurrent a b && !pairOK a b then some (a, b) else none

/-- violating pairs per field -/
def violationCount : Nat :=
  ((List.range fieldNames.length).map fun f => (violationsOf (rows.filter (·.field == f))).length).sum

end Sth.Obligations
