/-
C05 obligation over the regenerated access table: the lock-section model of Sth/Model/Conc.lean and ConcPools.lean treats what a
call holds between two sections (the record list read by a lookup, a bucket position, a location) as private to the call.  That is
the lockset rule of C16 restricted to the state of the data path: every write to a field of the index, the primary, the freelist,
the store or the file cache and every access that can run concurrently with it hold a common lock, the write exclusively.
-/
import Sth.Obligations.Table

namespace Sth.Obligations
open Sth.Generated

/-- the structs whose fields a Put / Get / Has / GetSize / Remove / Flush touches, as indices into the regenerated `structNames` -/
def dataPathStructs : List Nat := [1, 2, 3, 5, 6, 7]

def dataPathField (f : Nat) : Bool := dataPathStructs.contains (fieldStruct.getD f structNames.length)

def dataPathViolations : Nat :=
  ((List.range fieldNames.length).map fun f =>
    if dataPathField f then (violationsOf (rows.filter (·.field == f))).length else 0).sum

theorem C05_data_path_guarded :
    dataPathStructs.map (structNames.getD · "") = ["FileCache", "FreeList", "Index", "MultihashPrimary", "Store", "entry"] ∧
    fieldStruct.length = fieldNames.length ∧
    ((List.range fieldNames.length).filter dataPathField).length ≥ 40 ∧
    dataPathViolations = 0 :=
  ⟨by decide, by decide +kernel, by decide +kernel, by decide +kernel⟩

end Sth.Obligations
