def hello := "world"
