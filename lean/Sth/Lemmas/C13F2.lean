/-
C13F (2): every section of every thread preserves the invariant (`step_inv`), hence every schedule does (`run_inv`).
-/
import Sth.Lemmas.C13F1
namespace Sth.FreeConc

@[simp] theorem setThread_threads (s : State) (i : Nat) (t : Thread) : (setThread s i t).threads = s.threads.set i t := rfl
@[simp] theorem setThread_pool (s : State) (i : Nat) (t : Thread) : (setThread s i t).pool = s.pool := rfl
@[simp] theorem setThread_file (s : State) (i : Nat) (t : Thread) : (setThread s i t).file = s.file := rfl
@[simp] theorem setThread_fileOpen (s : State) (i : Nat) (t : Thread) : (setThread s i t).fileOpen = s.fileOpen := rfl
@[simp] theorem setThread_gc (s : State) (i : Nat) (t : Thread) : (setThread s i t).gc = s.gc := rfl
@[simp] theorem setThread_consumed (s : State) (i : Nat) (t : Thread) : (setThread s i t).consumed = s.consumed := rfl
@[simp] theorem setThread_dropped (s : State) (i : Nat) (t : Thread) : (setThread s i t).dropped = s.dropped := rfl
@[simp] theorem setThread_flushLock (s : State) (i : Nat) (t : Thread) : (setThread s i t).flushLock = s.flushLock := rfl
@[simp] theorem setThread_puts (s : State) (i : Nat) (t : Thread) : (setThread s i t).puts = s.puts := rfl

theorem pcOf_set (s s1 : State) (i c : Nat) (t t' : Thread) (hi : s.threads[i]? = some t)
    (hth : s1.threads = s.threads.set i t') : pcOf s1 c = if i = c then t'.pc else pcOf s c := by
  have hlen : i < s.threads.length := (List.getElem?_eq_some_iff.1 hi).1
  unfold pcOf
  rw [hth, List.getElem?_set]
  split <;> simp [*]

/-- the frame: thread `i` moves from `t` to `t'`, the shared state from `s` to `s1` -/
theorem Inv.set {c : Nat} {s : State} (h : Inv c s) {i : Nat} {t : Thread} (hi : s.threads[i]? = some t)
    {s1 : State} {t' : Thread} (hth : s1.threads = s.threads.set i t')
    (hacct : account s1 = putBlocks s1) (hdrop : s1.dropped = [])
    (hlk : (s1.flushLock = s.flushLock ∧ t'.pc.holds = t.pc.holds) ∨
           (s.flushLock = none ∧ s1.flushLock = some i ∧ t'.pc.holds = true) ∨
           (s.flushLock = some i ∧ s1.flushLock = none ∧ t'.pc.holds = false))
    (hw : i ≠ c → t'.pc.writer = true ∧ t'.prog.all Op.writer = true)
    (hcoll : CollOK s1 (if i = c then t'.pc else pcOf s c)) : Inv c s1 := by
  have hlen : i < s.threads.length := (List.getElem?_eq_some_iff.1 hi).1
  have hget : ∀ j u, s1.threads[j]? = some u → (j = i ∧ u = t') ∨ (j ≠ i ∧ s.threads[j]? = some u) := by
    intro j u hj
    rw [hth, List.getElem?_set] at hj
    by_cases hij : i = j
    · subst hij; simp [hlen] at hj; exact .inl ⟨rfl, hj.symm⟩
    · simp [hij] at hj; exact .inr ⟨fun h => hij h.symm, hj⟩
  refine ⟨hacct, hdrop, ?_, ?_, ?_, ?_⟩
  · intro k hk
    rw [hth, List.length_set]
    rcases hlk with ⟨h1, _⟩ | ⟨_, h1, _⟩ | ⟨_, h1, _⟩
    · exact h.lockLt k (h1 ▸ hk)
    · rw [h1] at hk; cases hk; exact hlen
    · rw [h1] at hk; cases hk
  · intro j u hj
    have hti := h.lock i t hi
    rcases hget j u hj with ⟨rfl, rfl⟩ | ⟨hji, hj'⟩
    · rcases hlk with ⟨h1, h2⟩ | ⟨_, h1, h2⟩ | ⟨_, h1, h2⟩ <;> simp_all
    · have := h.lock j u hj'
      rcases hlk with ⟨h1, h2⟩ | ⟨h0, h1, h2⟩ | ⟨h0, h1, h2⟩
      · rw [h1]; exact this
      · rw [h1]; rw [h0] at this; simp_all; omega
      · rw [h1]; rw [h0] at this; simp_all; omega
  · intro j u hj hjc
    rcases hget j u hj with ⟨rfl, rfl⟩ | ⟨hji, hj'⟩
    · exact hw hjc
    · exact h.writers j u hj' hjc
  · rw [pcOf_set s s1 i c t t' hi hth]; exact hcoll

theorem inFlight_same {s s1 : State} {i : Nat} {t t' : Thread} (hi : s.threads[i]? = some t)
    (hth : s1.threads = s.threads.set i t') (hb : t'.pc.blocks = t.pc.blocks) : inFlight s1 = inFlight s := by
  unfold inFlight; rw [hth]; exact flatMap_set_same _ _ _ t _ hi hb

theorem Inv.inFlight_holder {c : Nat} {s s1 : State} (h : Inv c s) {i : Nat} {t t' : Thread}
    (hi : s.threads[i]? = some t) (hth : s1.threads = s.threads.set i t')
    (hl : s.flushLock = none ∨ s.flushLock = some i) :
    inFlight s = t.pc.blocks ∧ inFlight s1 = t'.pc.blocks := by
  have := flatMap_others_nil (fun u : Thread => u.pc.blocks) s.threads i t hi (h.others_nil i hl)
  unfold inFlight; rw [hth]; exact ⟨this.1, this.2 t'⟩

theorem CollOK_congr {s s1 : State} (hf : s1.file.isSome = s.file.isSome) (ho : s1.fileOpen = s.fileOpen)
    (hg : s1.gc = s.gc) (p : Pc) (h : CollOK s p) : CollOK s1 p := by
  cases p <;> simp_all [CollOK, FileOK]

theorem pcOf_eq {s : State} {i : Nat} {t : Thread} (hi : s.threads[i]? = some t) : pcOf s i = t.pc := by
  simp [pcOf, hi]

/-- a thread other than the collector is at a writer's pc with a writer's program -/
theorem Inv.coll_of {c : Nat} {s : State} (h : Inv c s) {i : Nat} {t : Thread} (hi : s.threads[i]? = some t)
    (hnw : t.pc.writer = false ∨ t.prog.all Op.writer = false) : i = c := by
  by_cases hic : i = c
  · exact hic
  · have := h.writers i t hi hic
    rcases hnw with h1 | h1 <;> simp_all

theorem all_tail {α : Type} (p : α → Bool) (l : List α) (h : l.all p = true) : l.tail.all p = true := by
  cases l <;> simp_all

theorem Inv.mem_lt {s : State} {i : Nat} {t : Thread} (hi : s.threads[i]? = some t) : i < s.threads.length :=
  (List.getElem?_eq_some_iff.1 hi).1

theorem coll_other {s s1 : State} {i c : Nat} {p : Pc} (hic : i ≠ c) (hf : s1.file.isSome = s.file.isSome)
    (ho : s1.fileOpen = s.fileOpen) (hg : s1.gc = s.gc) (h : CollOK s (pcOf s c)) :
    CollOK s1 (if i = c then p else pcOf s c) := by
  rw [if_neg hic]; exact CollOK_congr hf ho hg _ h

theorem coll_self {s s1 : State} {i c : Nat} {p : Pc} (hic : i = c) (h : CollOK s1 p) :
    CollOK s1 (if i = c then p else pcOf s c) := by
  rw [if_pos hic]; exact h

theorem flushEnter_inv {c : Nat} {s s' : State} {i : Nat} {t : Thread} (h : Inv c s) (hi : s.threads[i]? = some t)
    (k : Bool) (hp : t.pc = .idle ∧ k = false ∨ t.pc = .togcStatted ∧ k = true)
    (hs : flushEnter s i t k = some s') : Inv c s' := by
  have hcoll := h.coll
  have hw := h.writers i t hi
  have hb : t.pc.blocks = [] := by rcases hp with ⟨hp, _⟩ | ⟨hp, _⟩ <;> simp [hp, Pc.blocks]
  have hh : t.pc.holds = false := by rcases hp with ⟨hp, _⟩ | ⟨hp, _⟩ <;> simp [hp, Pc.holds]
  have hkc : k = true → i = c := by
    intro hk; apply h.coll_of hi; left
    rcases hp with ⟨_, hp⟩ | ⟨hp, _⟩
    · simp_all
    · simp [hp, Pc.writer]
  unfold flushEnter at hs
  split at hs
  · cases hs
  rename_i hlk
  have hlk : s.flushLock = none := by simpa using hlk
  split at hs
  · -- empty pool: return
    cases hs
    refine h.set hi (t' := t.flushed k) rfl ?_ h.nodrop (.inl ⟨rfl, ?_⟩) ?_ ?_
    · have := h.acct
      simp only [account, gcEntries, fileEntries, putBlocks] at this ⊢
      rw [inFlight_same (s := s) hi rfl (by rw [hb]; cases k <;> simp [Thread.flushed, Thread.ret, Pc.blocks])]
      simpa using this
    · rw [hh]; cases k <;> simp [Thread.flushed, Thread.ret, Pc.holds]
    · intro hic
      have hk : k = false := by cases k <;> simp_all
      subst hk
      exact ⟨by simp [Thread.flushed, Thread.ret, Pc.writer],
        by simpa [Thread.flushed, Thread.ret] using all_tail _ _ (hw hic).2⟩
    · by_cases hic : i = c
      · apply coll_self hic
        subst hic; rw [pcOf_eq hi] at hcoll
        rcases hp with ⟨hp, rfl⟩ | ⟨hp, rfl⟩ <;> simp_all [CollOK, FileOK, Thread.flushed, Thread.ret]
      · exact coll_other hic rfl rfl rfl hcoll
  · -- take the pool
    cases hs
    refine h.set hi (t' := { t with pc := .flushing s.pool k }) rfl ?_ h.nodrop
      (.inr (.inl ⟨hlk, rfl, by simp [Pc.holds]⟩)) ?_ ?_
    · have := h.acct
      have hf := h.inFlight_holder
        (s1 := setThread { s with pool := [], flushLock := some i } i { t with pc := .flushing s.pool k }) hi rfl (.inl hlk)
      simp only [account, gcEntries, fileEntries, putBlocks] at this ⊢
      rw [hf.1, hb] at this
      rw [hf.2]
      simpa [Pc.blocks] using this
    · intro hic
      have hk : k = false := by cases k <;> simp_all
      subst hk
      exact ⟨by simp [Pc.writer], (hw hic).2⟩
    · by_cases hic : i = c
      · apply coll_self hic
        subst hic; rw [pcOf_eq hi] at hcoll
        rcases hp with ⟨hp, rfl⟩ | ⟨hp, rfl⟩ <;> simp_all [CollOK, FileOK]
      · exact coll_other hic rfl rfl rfl hcoll

theorem step_inv {c : Nat} {s s' : State} {i : Nat} (h : Inv c s) (hs : step s i = some s') : Inv c s' := by
  unfold step at hs
  split at hs
  · cases hs
  rename_i t hi
  have hcoll := h.coll
  have hw := h.writers i t hi
  have hlen : i < s.threads.length := Inv.mem_lt hi
  split at hs
  · -- idle
    rename_i hp
    have hb : t.ret.pc.blocks = t.pc.blocks := by simp [Thread.ret, hp, Pc.blocks]
    have hh : t.ret.pc.holds = t.pc.holds := by simp [Thread.ret, hp, Pc.holds]
    have hwr : i ≠ c → t.ret.pc.writer = true ∧ t.ret.prog.all Op.writer = true := fun hic =>
      ⟨by simp [Thread.ret, Pc.writer], all_tail _ _ (hw hic).2⟩
    split at hs
    · cases hs
    · -- put
      rename_i b r hprog
      cases hs
      refine h.set hi (t' := t.ret) rfl ?_ h.nodrop (.inl ⟨rfl, hh⟩) hwr ?_
      · have := h.acct
        simp only [account, gcEntries, fileEntries, putBlocks] at this ⊢
        rw [inFlight_same (s := s) hi rfl hb]
        simp [← this]
      · by_cases hic : i = c
        · apply coll_self hic
          subst hic; rw [pcOf_eq hi, hp] at hcoll
          simpa [CollOK, FileOK, Thread.ret] using hcoll
        · exact coll_other hic rfl rfl rfl hcoll
    · -- flush
      exact flushEnter_inv h hi false (.inl ⟨hp, rfl⟩) hs
    · -- togc
      rename_i r hprog
      have hic : i = c := h.coll_of hi (.inr (by simp [hprog, Op.writer]))
      subst hic; rw [pcOf_eq hi, hp] at hcoll
      split at hs
      · cases hs
        refine h.set hi (t' := t.ret) rfl ?_ h.nodrop (.inl ⟨rfl, hh⟩) hwr (coll_self rfl ?_)
        · have := h.acct
          simp only [account, gcEntries, fileEntries, putBlocks] at this ⊢
          rw [inFlight_same (s := s) hi rfl hb]
          simpa using this
        · simpa [CollOK, FileOK, Thread.ret] using hcoll
      · rename_i hgc
        cases hs
        refine h.set hi (t' := { t with pc := .togcStatted }) rfl ?_ h.nodrop (.inl ⟨rfl, by simp [hp, Pc.holds]⟩)
          (fun hic => absurd rfl hic) (coll_self rfl ?_)
        · have := h.acct
          simp only [account, gcEntries, fileEntries, putBlocks] at this ⊢
          rw [inFlight_same (s := s) hi rfl (by simp [hp, Pc.blocks])]
          simpa using this
        · simp_all [CollOK, FileOK]
    · -- apply
      rename_i r hprog
      cases hs
      refine h.set hi (t' := t.ret) rfl ?_ h.nodrop (.inl ⟨rfl, hh⟩) hwr ?_
      · have := h.acct
        simp only [account, gcEntries, fileEntries, putBlocks] at this ⊢
        rw [inFlight_same (s := s) hi rfl hb]
        simpa using this
      · by_cases hic : i = c
        · apply coll_self hic
          subst hic; rw [pcOf_eq hi, hp] at hcoll
          simpa [CollOK, FileOK, Thread.ret] using hcoll
        · exact coll_other hic rfl rfl rfl hcoll
    · -- remove
      rename_i r hprog
      have hic : i = c := h.coll_of hi (.inr (by simp [hprog, Op.writer]))
      subst hic; rw [pcOf_eq hi, hp] at hcoll
      cases hs
      refine h.set hi (t' := t.ret) rfl ?_ h.nodrop (.inl ⟨rfl, hh⟩) hwr (coll_self rfl ?_)
      · have := h.acct
        simp only [account, gcEntries, fileEntries, putBlocks] at this ⊢
        rw [inFlight_same (s := s) hi rfl hb]
        simpa using this
      · simpa [CollOK, FileOK, Thread.ret] using hcoll
  · -- togcStatted
    rename_i hp
    exact flushEnter_inv h hi true (.inr ⟨hp, rfl⟩) hs
  · -- flushing: section 2
    rename_i bs k hp
    cases hs
    have hfo := h.flushing_fileOK hi hp
    have hlk : s.flushLock = some i := (h.lock i t hi).1 (by simp [hp, Pc.holds])
    obtain ⟨f, hf⟩ := Option.isSome_iff_exists.1 hfo.1
    have hfw : flushWrite s bs = { s with file := some (f ++ bs) } := by
      simp [flushWrite, hf, hfo.2]
    rw [hfw]
    refine h.set hi (t' := t.flushed k) rfl ?_ h.nodrop (.inr (.inr ⟨hlk, rfl, ?_⟩)) ?_ ?_
    · have := h.acct
      have hfl := h.inFlight_holder (s1 := setThread { s with file := some (f ++ bs), flushLock := none } i (t.flushed k))
        hi rfl (.inr hlk)
      simp only [account, gcEntries, fileEntries, putBlocks] at this ⊢
      rw [hfl.1, hp, hf] at this
      rw [hfl.2]
      have hb : (t.flushed k).pc.blocks = [] := by cases k <;> simp [Thread.flushed, Thread.ret, Pc.blocks]
      rw [hb]
      simpa [Pc.blocks] using this
    · cases k <;> simp [Thread.flushed, Thread.ret, Pc.holds]
    · intro hic
      have hk : k = false := by have := (hw hic).1; rw [hp] at this; cases k <;> simp_all [Pc.writer]
      subst hk
      exact ⟨by simp [Thread.flushed, Thread.ret, Pc.writer],
        by simpa [Thread.flushed, Thread.ret] using all_tail _ _ (hw hic).2⟩
    · by_cases hic : i = c
      · apply coll_self hic
        subst hic; rw [pcOf_eq hi, hp] at hcoll
        cases k <;> simp_all [CollOK, FileOK, Thread.flushed, Thread.ret]
      · exact coll_other hic (by simp [hf]) rfl rfl hcoll
  · -- togcFlushed: section A
    rename_i hp
    have hic : i = c := h.coll_of hi (.inl (by simp [hp, Pc.writer]))
    subst hic; rw [pcOf_eq hi, hp] at hcoll
    split at hs
    · cases hs
    rename_i hlk
    have hlk : s.flushLock = none := by simpa using hlk
    cases hs
    refine h.set hi (t' := { t with pc := .togcClosed }) rfl ?_ h.nodrop (.inr (.inl ⟨hlk, rfl, by simp [Pc.holds]⟩))
      (fun hic => absurd rfl hic) (coll_self rfl ?_)
    · have := h.acct
      simp only [account, gcEntries, fileEntries, putBlocks] at this ⊢
      rw [inFlight_same (s := s) hi rfl (by simp [hp, Pc.blocks])]
      simpa using this
    · simp_all [CollOK, FileOK]
  · -- togcClosed: section B
    rename_i hp
    have hic : i = c := h.coll_of hi (.inl (by simp [hp, Pc.writer]))
    subst hic; rw [pcOf_eq hi, hp] at hcoll
    cases hs
    simp only [CollOK] at hcoll
    obtain ⟨f, hf⟩ := Option.isSome_iff_exists.1 hcoll.1
    have hrn : rename s = { s with gc := some f, file := none } := by simp [rename, hf]
    rw [hrn]
    refine h.set hi (t' := { t with pc := .togcRenamed }) rfl ?_ h.nodrop (.inl ⟨rfl, by simp [hp, Pc.holds]⟩)
      (fun hic => absurd rfl hic) (coll_self rfl ?_)
    · have := h.acct
      simp only [account, gcEntries, fileEntries, putBlocks] at this ⊢
      rw [inFlight_same (s := s) hi rfl (by simp [hp, Pc.blocks])]
      simpa [hf, hcoll.2.2] using this
    · simp_all [CollOK]
  · -- togcRenamed: section C
    rename_i hp
    have hic : i = c := h.coll_of hi (.inl (by simp [hp, Pc.writer]))
    subst hic; rw [pcOf_eq hi, hp] at hcoll
    cases hs
    simp only [CollOK] at hcoll
    have hlk : s.flushLock = some i := (h.lock i t hi).1 (by simp [hp, Pc.holds])
    have hf : s.file = none := by simpa using hcoll.1
    refine h.set hi (t' := t.ret) rfl ?_ h.nodrop (.inr (.inr ⟨hlk, rfl, by simp [Thread.ret, Pc.holds]⟩))
      (fun hic => absurd rfl hic) (coll_self rfl ?_)
    · have := h.acct
      simp only [account, gcEntries, fileEntries, putBlocks] at this ⊢
      rw [inFlight_same (s := s) hi rfl (by simp [hp, Thread.ret, Pc.blocks])]
      simpa [hf] using this
    · simp [CollOK, FileOK, Thread.ret]

theorem run_inv {c : Nat} {s : State} (h : Inv c s) (sched : List Nat) : Inv c (run s sched) := by
  induction sched generalizing s with
  | nil => exact h
  | cons i r ih =>
    simp only [run, List.foldl_cons]
    cases hs : step s i with
    | none => exact ih h
    | some s' => exact ih (step_inv h hs)

end Sth.FreeConc
