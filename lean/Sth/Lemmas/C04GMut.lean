/-
C04 — Put and Remove on the GC invariant: how the index entries and the freelist pool change.
Core Lean only.
-/
import Sth.Lemmas.C04G

namespace Sth

theorem priGet_frame {m m' : Mem} (f : Frame m m') (d : Disk) : priGet m' d = priGet m d := by
  funext blk
  unfold priGet
  rw [f.kind, f.pmax, f.pnext, f.pcur, f.precFileNum, f.precPos]

theorem below_frame {m m' : Mem} (f : Frame m m') (blk : Block) : Below m' blk ↔ Below m blk := by
  unfold Below
  rw [f.kind, f.pmax, f.precFileNum, f.precPos]

theorem PriLog.frame {m m' : Mem} {d : Disk} {pf : Nat} {psp : Nat → List GSpan}
    (h : PriLog m d pf psp) (h1 : m'.pfileNum = m.pfileNum) (h2 : m'.pmax = m.pmax) :
    PriLog m' d pf psp :=
  ⟨by rw [h1]; exact h.le, h.gone, by rw [h1]; exact h.files, by rw [h1]; exact h.ok,
    by rw [h1, h2]; exact h.starts⟩

theorem OnDisk.frame {m m' : Mem} {pf : Nat} {psp : Nat → List GSpan} {blk : Block} {body : Bytes}
    (h : OnDisk m pf psp blk body) (h1 : m'.pfileNum = m.pfileNum) (h2 : m'.pmax = m.pmax) :
    OnDisk m' pf psp blk body := by
  unfold OnDisk at h ⊢
  rw [h1, h2]; exact h

theorem FreeLoc.frame {m m' : Mem} {pf : Nat} {psp : Nat → List GSpan} {fb : Block}
    (h : FreeLoc m pf psp fb) (h1 : m'.pfileNum = m.pfileNum) (h2 : m'.pmax = m.pmax)
    (h3 : ∀ r ∈ m.pnext, r ∈ m'.pnext) : FreeLoc m' pf psp fb := by
  unfold FreeLoc at h ⊢
  rw [h1, h2]
  rcases h with ⟨r, hr, e⟩ | h
  · exact Or.inl ⟨r, h3 r hr, e⟩
  · exact Or.inr h

section
variable {U : List (Bytes × Bytes)} {m m' : Mem} {d : Disk} {spec : Spec} {pf : Nat}
  {psp : Nat → List GSpan}

/-- the memory-only change of a Put or a relocation: a record is pooled at the next location, the index
    entries are old ones or the new block, some blocks are freed -/
theorem zinv_put (hA : SInv U m d spec) (hl : PriLog m d pf psp) (he : EntOK m d pf psp)
    (hfl : FlInv m d pf psp) (hpm : m.kind = .mh → 1 ≤ m.pmax) {key val : Bytes}
    (hf : Frame (putMem m key val) m')
    (hnew : priGet m' d (nextBlk m (key.length + val.length)) = .got key val)
    (hents : ∀ blk, IsEnt m' d blk → blk = nextBlk m (key.length + val.length) ∨ IsEnt m d blk)
    {freed : List Block} (hflp : m'.flpool = m.flpool ++ freed)
    (hfreed : ∀ fb ∈ freed, FreeOK m' d pf psp fb) :
    PriLog m' d pf psp ∧ EntOK m' d pf psp ∧ FlInv m' d pf psp := by
  have e1 : m'.pfileNum = m.pfileNum := by rw [hf.pfileNum, putMem_pfileNum]
  have e2 : m'.pmax = m.pmax := by rw [hf.pmax, putMem_pmax]
  have e3 : ∀ r ∈ m.pnext, r ∈ m'.pnext := by
    intro r hr; rw [hf.pnext, putMem_pnext]; exact List.mem_append_left _ hr
  have hbl : ∀ blk, Below m blk → Below m' blk := fun blk hb =>
    (below_frame hf blk).mpr (below_putMem key val hb)
  have hget : ∀ blk k v, Below m blk → priGet m d blk = .got k v → priGet m' d blk = .got k v := by
    intro blk k v hb hg
    rw [priGet_frame hf]
    exact priGet_putMem_old d key val hpm hb hg
  refine ⟨hl.frame e1 e2, ?_, ?_⟩
  · intro blk hent
    rcases hents blk hent with rfl | hold
    · refine ⟨key, val, hnew, Or.inl ⟨⟨nextBlk m (key.length + val.length), key, val⟩, ?_, rfl, rfl, rfl⟩⟩
      rw [hf.pnext, putMem_pnext]; simp
    · obtain ⟨k, v, g1, g2⟩ := he blk hold
      refine ⟨k, v, hget blk k v (ent_below hA hold) g1, ?_⟩
      rcases g2 with ⟨r, hr, x⟩ | g2
      · exact Or.inl ⟨r, e3 r hr, x⟩
      · exact Or.inr (g2.frame e1 e2)
  · obtain ⟨L1, L2, f1, f2, f3⟩ := hfl
    refine ⟨L1, L2, f1, f2, ?_⟩
    intro fb hfb
    rw [hflp] at hfb
    simp only [List.mem_append] at hfb
    have hold : fb ∈ m.flpool ++ L1 ++ L2 → FreeOK m' d pf psp fb := by
      intro h
      obtain ⟨q1, q2, q3, q4, q5⟩ := f3 fb h
      refine ⟨hbl fb q1, ?_, q3.frame e1 e2 e3, q4, q5⟩
      intro blk hent
      rcases hents blk hent with rfl | hold
      · intro hc
        exact not_below_next hpm _ (below_of_off hc q1)
      · exact q2 blk hold
    rcases hfb with ((h | h) | h) | h
    · exact hold (by simp [h])
    · exact hfreed fb h
    · exact hold (by simp [h])
    · exact hold (by simp [h])

/-- the memory-only change of a Remove: an entry goes, its block is freed -/
theorem zinv_rm (hl : PriLog m d pf psp) (he : EntOK m d pf psp)
    (hfl : FlInv m d pf psp) (hf : Frame m m')
    (hents : ∀ blk, IsEnt m' d blk → IsEnt m d blk)
    {freed : List Block} (hflp : m'.flpool = m.flpool ++ freed)
    (hfreed : ∀ fb ∈ freed, FreeOK m' d pf psp fb) :
    PriLog m' d pf psp ∧ EntOK m' d pf psp ∧ FlInv m' d pf psp := by
  have e1 : m'.pfileNum = m.pfileNum := hf.pfileNum
  have e2 : m'.pmax = m.pmax := hf.pmax
  have e3 : ∀ r ∈ m.pnext, r ∈ m'.pnext := by intro r hr; rw [hf.pnext]; exact hr
  refine ⟨hl.frame e1 e2, ?_, ?_⟩
  · intro blk hent
    obtain ⟨k, v, g1, g2⟩ := he blk (hents blk hent)
    refine ⟨k, v, by rw [priGet_frame hf]; exact g1, ?_⟩
    rcases g2 with ⟨r, hr, x⟩ | g2
    · exact Or.inl ⟨r, e3 r hr, x⟩
    · exact Or.inr (g2.frame e1 e2)
  · obtain ⟨L1, L2, f1, f2, f3⟩ := hfl
    refine ⟨L1, L2, f1, f2, ?_⟩
    intro fb hfb
    rw [hflp] at hfb
    simp only [List.mem_append] at hfb
    have hold : fb ∈ m.flpool ++ L1 ++ L2 → FreeOK m' d pf psp fb := by
      intro h
      obtain ⟨q1, q2, q3, q4, q5⟩ := f3 fb h
      exact ⟨(below_frame hf fb).mpr q1, fun blk hent => q2 blk (hents blk hent), q3.frame e1 e2 e3,
        q4, q5⟩
    rcases hfb with ((h | h) | h) | h
    · exact hold (by simp [h])
    · exact hfreed fb h
    · exact hold (by simp [h])
    · exact hold (by simp [h])

/-- the entries after one entry of a bucket has been replaced (`X = [⟨pfx, loc⟩]`) or dropped
    (`X = []`) -/
theorem ents_after_replace (hU : Univ m.kind U) (hk : m.kind = .mh) (h31 : m.bits ≤ 31)
    (hp : 1 ≤ m.pmax) (hA : SInv U m d spec) (hl : PriLog m d pf psp) (he : EntOK m d pf psp)
    (halloc : allocMh m.pmax m.pfileNum m.plength m.pnext m.precFileNum m.precPos)
    (hplen : (fileOf d.pfiles m.pfileNum).length = m.plength)
    {b : Nat} {pre post X : RecordList} {e : Entry} {loc : Block}
    (hold : idxRecords m d b = .ok (some (pre ++ e :: post)))
    (hnew : ∀ b', idxRecords m' d b' =
      if b' = b then .ok (some (pre ++ X ++ post)) else idxRecords m d b')
    (hX : ∀ x ∈ X, x.blk = loc) (hloc : ¬ Below m loc) :
    (∀ blk, IsEnt m' d blk → blk = loc ∨ IsEnt m d blk) ∧
      (∀ blk, IsEnt m' d blk → blk.off ≠ e.blk.off) := by
  have hnd := (ent_blockOK hA hold (e := e) (by simp)).2.distinctBlocks
  simp only [List.map_append, List.map_cons] at hnd
  have hnn := nodup_middle_notin hnd
  have hcase : ∀ b' rl' e', idxRecords m' d b' = .ok (some rl') → e' ∈ rl' →
      e'.blk = loc ∨ (∃ rl, idxRecords m d b' = .ok (some rl) ∧ e' ∈ rl ∧ (b' = b → e' ≠ e)) := by
    intro b' rl' e' hr he'
    rw [hnew b'] at hr
    by_cases hbb : b' = b
    · rw [if_pos hbb] at hr
      simp only [Except.ok.injEq, Option.some.injEq] at hr
      subst hr
      simp only [List.mem_append] at he'
      rcases he' with (h | h) | h
      · right
        refine ⟨_, by rw [hbb]; exact hold, by simp [h], fun _ hc => ?_⟩
        exact hnn.1 (by rw [← hc]; exact List.mem_map_of_mem h)
      · exact Or.inl (hX e' h)
      · right
        refine ⟨_, by rw [hbb]; exact hold, by simp [h], fun _ hc => ?_⟩
        exact hnn.2 (by rw [← hc]; exact List.mem_map_of_mem h)
    · rw [if_neg hbb] at hr
      exact Or.inr ⟨rl', hr, he', fun h => absurd h hbb⟩
  constructor
  · rintro blk ⟨b', rl', e', hr, he', rfl⟩
    rcases hcase b' rl' e' hr he' with h | ⟨rl, h1, h2, _⟩
    · exact Or.inl h
    · exact Or.inr ⟨b', rl, e', h1, h2, rfl⟩
  · rintro blk ⟨b', rl', e', hr, he', rfl⟩ hoff
    rcases hcase b' rl' e' hr he' with h | ⟨rl, h1, h2, h3⟩
    · apply hloc
      rw [← h]
      exact below_of_off hoff (ent_blockOK hA hold (e := e) (by simp)).1.below
    · obtain ⟨q1, q2⟩ := ent_off_unique hU hk h31 hp hA hl he halloc hplen h1 h2 hold (e2 := e)
        (by simp) hoff
      exact h3 q1 q2

/-- the block of a former entry may be freed -/
theorem freeOK_old_entry (hA : SInv U m d spec) (hl : PriLog m d pf psp) (he : EntOK m d pf psp)
    {blk : Block} (hent : IsEnt m d blk)
    (hbl : ∀ b, Below m b → Below m' b) (e1 : m'.pfileNum = m.pfileNum) (e2 : m'.pmax = m.pmax)
    (e3 : ∀ r ∈ m.pnext, r ∈ m'.pnext)
    (hnoent : ∀ b, IsEnt m' d b → b.off ≠ blk.off) : FreeOK m' d pf psp blk := by
  obtain ⟨b, rl, e, hr, hm, rfl⟩ := hent
  have hB := (ent_blockOK hA hr hm).1
  obtain ⟨k, v, _, g2⟩ := he e.blk ⟨b, rl, e, hr, hm, rfl⟩
  refine ⟨hbl _ hB.below, hnoent, ?_, hB.off, by have := hB.size; unfold two31 at this; unfold two32; omega⟩
  rcases g2 with ⟨r, hr', x, _, _⟩ | ⟨f, lp, y1, y2, y3, y4, y5⟩
  · exact Or.inl ⟨r, e3 r hr', by rw [x]⟩
  · right
    refine ⟨f, lp, by rw [e2]; exact y1, by rw [e2]; exact hl.starts f y2 y3 _ y4,
      Or.inr ⟨y2, by rw [e1]; exact y3, ?_⟩⟩
    exact Or.inr (Or.inl ⟨_, y4⟩)

end

end Sth
