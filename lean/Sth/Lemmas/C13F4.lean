/-
C13F (4): the invariant along a REPLAY of recorded events (`replayEv`, `replayFrom`, `replay`): every event is one
section of the small-step machine after the thread was made to exist and given the program the event names.
-/
import Sth.Lemmas.C13F3

namespace Sth.FreeConc

theorem ensure_getElem? (s : State) (i j : Nat) (u : Thread) (hj : (ensure s i).threads[j]? = some u) :
    s.threads[j]? = some u ∨ (s.threads.length ≤ j ∧ u = {}) := by
  simp only [ensure, List.getElem?_append] at hj
  split at hj
  · exact .inl hj
  · rename_i hlt
    right
    refine ⟨by omega, ?_⟩
    rw [List.getElem?_replicate] at hj
    split at hj
    · cases hj; rfl
    · cases hj

theorem ensure_lt (s : State) (i : Nat) : i < (ensure s i).threads.length := by
  simp [ensure]; omega

theorem pcOf_ensure (s : State) (i c : Nat) : pcOf (ensure s i) c = pcOf s c := by
  unfold pcOf
  cases h : (ensure s i).threads[c]? with
  | none =>
    have : s.threads[c]? = none := by
      simp only [ensure, List.getElem?_eq_none_iff, List.length_append] at h ⊢; omega
    simp [this]
  | some u =>
    rcases ensure_getElem? s i c u h with h1 | ⟨h1, rfl⟩
    · simp [h1]
    · have : s.threads[c]? = none := by simp [h1]
      simp [this]

theorem ensure_inv {c : Nat} {s : State} (h : Inv c s) (i : Nat) : Inv c (ensure s i) := by
  refine ⟨?_, h.nodrop, ?_, ?_, ?_, ?_⟩
  · have hacct := h.acct
    have : inFlight (ensure s i) = inFlight s := by
      simp only [inFlight, ensure, List.flatMap_append]
      have : (List.replicate (i + 1 - s.threads.length) ({} : Thread)).flatMap (·.pc.blocks) = [] := by
        rw [List.flatMap_eq_nil_iff]
        intro t ht
        rw [(List.mem_replicate.1 ht).2]; rfl
      rw [this]; simp
    simp only [account, gcEntries, fileEntries, putBlocks] at hacct ⊢
    rw [this]; exact hacct
  · intro k hk
    have := h.lockLt k hk
    simp [ensure]; omega
  · intro j u hj
    rcases ensure_getElem? s i j u hj with h1 | ⟨h1, rfl⟩
    · exact h.lock j u h1
    · constructor
      · intro hh; simp [Pc.holds] at hh
      · intro hl
        have := h.lockLt j hl
        omega
  · intro j u hj hjc
    rcases ensure_getElem? s i j u hj with h1 | ⟨h1, rfl⟩
    · exact h.writers j u h1 hjc
    · simp [Pc.writer]
  · rw [pcOf_ensure]
    exact CollOK_congr rfl rfl rfl _ h.coll

/-- re-program an idle thread -/
theorem Inv.reprogram {c : Nat} {s : State} (h : Inv c s) {i : Nat} {t : Thread} (hi : s.threads[i]? = some t)
    (t' : Thread) (hb : t'.pc.blocks = t.pc.blocks) (hh : t'.pc.holds = t.pc.holds)
    (hw : i ≠ c → t'.pc.writer = true ∧ t'.prog.all Op.writer = true)
    (hc : i = c → CollOK s t'.pc) : Inv c (setThread s i t') := by
  refine h.set hi rfl ?_ h.nodrop (.inl ⟨rfl, hh⟩) hw ?_
  · have := h.acct
    simp only [account, gcEntries, fileEntries, putBlocks] at this ⊢
    rw [inFlight_same (s := s) hi rfl hb]
    simpa using this
  · by_cases hic : i = c
    · exact coll_self hic (CollOK_congr rfl rfl rfl _ (hc hic))
    · exact coll_other hic rfl rfl rfl h.coll

theorem setProg_inv {c : Nat} {s : State} (h : Inv c s) (i : Nat) (p : List Op)
    (hp : i ≠ c → p.all Op.writer = true) : Inv c (setProg s i p) := by
  unfold setProg
  split
  · rename_i t hi
    refine h.reprogram hi _ rfl rfl (fun hic => ⟨(h.writers i t hi hic).1, hp hic⟩) ?_
    intro hic; subst hic
    have := h.coll
    rwa [pcOf_eq hi] at this
  · exact h

theorem pcOf_getElem? {s : State} {i : Nat} (hlt : i < s.threads.length) :
    ∃ t, s.threads[i]? = some t ∧ t.pc = pcOf s i :=
  ⟨s.threads[i], List.getElem?_eq_getElem hlt, by simp [pcOf, List.getElem?_eq_getElem hlt]⟩

theorem replayEv_inv {c : Nat} {s s' : State} {e : Nat × Ev} (h : Inv c s)
    (he : e.2.collector = true → e.1 = c) (hs : replayEv s e = some s') : Inv c s' := by
  obtain ⟨i, ev⟩ := e
  have h1 := ensure_inv h i
  obtain ⟨t, hi, hpc⟩ := pcOf_getElem? (ensure_lt s i)
  cases ev with
  | put b =>
    simp only [replayEv] at hs
    split at hs
    · exact step_inv (setProg_inv h1 i _ (fun _ => by simp [Op.writer])) hs
    · cases hs
  | flushSwapped =>
    simp only [replayEv] at hs
    split at hs
    · exact step_inv (setProg_inv h1 i _ (fun _ => by simp [Op.writer])) hs
    · cases hs
  | flushEmpty =>
    simp only [replayEv] at hs
    split at hs
    · exact step_inv (setProg_inv h1 i _ (fun _ => by simp [Op.writer])) hs
    · cases hs
  | flushWritten =>
    simp only [replayEv] at hs
    split at hs
    · split at hs
      · exact step_inv h1 hs
      · cases hs
    · cases hs
  | togcExists =>
    simp only [replayEv] at hs
    have hic : i = c := he rfl
    split at hs
    · exact step_inv (setProg_inv h1 i _ (fun hne => absurd hic hne)) hs
    · cases hs
  | togcClosed =>
    simp only [replayEv] at hs
    have hic : i = c := he rfl
    split at hs
    · rename_i hcond
      refine step_inv (h1.reprogram hi _ ?_ ?_ (fun hne => absurd hic hne) ?_) hs
      · rw [hpc, hcond.1]; rfl
      · rw [hpc, hcond.1]; rfl
      · intro _
        have hc := h1.coll
        rw [← hic, ← hpc] at hc
        have hidle : t.pc = .idle := by rw [hpc]; exact hcond.1
        rw [hidle] at hc
        exact ⟨hcond.2, hc⟩
    · cases hs
  | togcRenamed =>
    simp only [replayEv] at hs
    split at hs
    · exact step_inv h1 hs
    · cases hs
  | togcReopened =>
    simp only [replayEv] at hs
    split at hs
    · exact step_inv h1 hs
    · cases hs
  | apply =>
    simp only [replayEv] at hs
    have hic : i = c := he rfl
    split at hs
    · exact step_inv (setProg_inv h1 i _ (fun hne => absurd hic hne)) hs
    · cases hs
  | remove =>
    simp only [replayEv] at hs
    have hic : i = c := he rfl
    split at hs
    · exact step_inv (setProg_inv h1 i _ (fun hne => absurd hic hne)) hs
    · cases hs

/-! ### every replayed event is one section of the small-step machine -/

theorem shared_ensure (s : State) (i : Nat) : shared (ensure s i) = shared s := rfl
theorem shared_setThread (s : State) (i : Nat) (t : Thread) : shared (setThread s i t) = shared s := rfl
theorem shared_setProg (s : State) (i : Nat) (p : List Op) : shared (setProg s i p) = shared s := by
  unfold setProg; split <;> rfl

theorem ensure_other (s : State) (i j : Nat) (hj : j < s.threads.length) :
    (ensure s i).threads[j]? = s.threads[j]? := by
  simp only [ensure]; exact List.getElem?_append_left hj

theorem setThread_other (s : State) (i j : Nat) (t : Thread) (hji : j ≠ i) :
    (setThread s i t).threads[j]? = s.threads[j]? := by
  simp [Ne.symm hji]

theorem setProg_other (s : State) (i j : Nat) (p : List Op) (hji : j ≠ i) :
    (setProg s i p).threads[j]? = s.threads[j]? := by
  unfold setProg; split
  · exact setThread_other s i j _ hji
  · rfl

/-- the state an event is replayed on is one section (`step`) of the event's thread away from a state with the same
    shared part and the same other threads: the replay is a run of the small-step machine in which each thread is
    handed the call its next event names -/
theorem replayEv_is_step {s s' : State} {e : Nat × Ev} (hs : replayEv s e = some s') :
    ∃ s1, step s1 e.1 = some s' ∧ shared s1 = shared s ∧
      ∀ j, j ≠ e.1 → j < s.threads.length → s1.threads[j]? = s.threads[j]? := by
  obtain ⟨i, ev⟩ := e
  have hP : ∀ p, shared (setProg (ensure s i) i p) = shared s ∧
      ∀ j, j ≠ i → j < s.threads.length → (setProg (ensure s i) i p).threads[j]? = s.threads[j]? :=
    fun p => ⟨by rw [shared_setProg, shared_ensure],
      fun j hji hj => by rw [setProg_other _ _ _ _ hji, ensure_other _ _ _ hj]⟩
  have hE : shared (ensure s i) = shared s ∧
      ∀ j, j ≠ i → j < s.threads.length → (ensure s i).threads[j]? = s.threads[j]? :=
    ⟨rfl, fun j _ hj => ensure_other _ _ _ hj⟩
  cases ev <;> simp only [replayEv] at hs
  case put b => split at hs; exact ⟨_, hs, hP _⟩; cases hs
  case flushSwapped => split at hs; exact ⟨_, hs, hP _⟩; cases hs
  case flushEmpty => split at hs; exact ⟨_, hs, hP _⟩; cases hs
  case flushWritten =>
    split at hs
    · split at hs; exact ⟨_, hs, hE⟩; cases hs
    · cases hs
  case togcExists => split at hs; exact ⟨_, hs, hP _⟩; cases hs
  case togcClosed =>
    split at hs
    · exact ⟨_, hs, rfl, fun j hji hj => by rw [setThread_other _ _ _ _ hji, ensure_other _ _ _ hj]⟩
    · cases hs
  case togcRenamed => split at hs; exact ⟨_, hs, hE⟩; cases hs
  case togcReopened => split at hs; exact ⟨_, hs, hE⟩; cases hs
  case apply => split at hs; exact ⟨_, hs, hP _⟩; cases hs
  case remove => split at hs; exact ⟨_, hs, hP _⟩; cases hs

theorem replayInit_inv (c : Nat) : Inv c replayInit := by
  refine ⟨rfl, rfl, ?_, ?_, ?_, ?_⟩
  · intro k hk; cases hk
  · intro j u hj; simp [replayInit] at hj
  · intro j u hj; simp [replayInit] at hj
  · simp [pcOf, replayInit, CollOK, FileOK]

theorem replayFrom_inv {c : Nat} {s s' : State} (evs : List (Nat × Ev)) (h : Inv c s)
    (he : ∀ e ∈ evs, e.2.collector = true → e.1 = c) (hs : replayFrom s evs = some s') : Inv c s' := by
  induction evs generalizing s with
  | nil => simp [replayFrom] at hs; subst hs; exact h
  | cons e r ih =>
    simp only [replayFrom, List.foldlM_cons] at hs
    cases h1 : replayEv s e with
    | none => simp [h1] at hs
    | some s1 =>
      simp only [h1, Option.bind_eq_bind, Option.bind_some] at hs
      exact ih (replayEv_inv h (he e (by simp)) h1) (fun e' he' => he e' (by simp [he'])) hs

/-- the textual events: a successful parse is position-wise -/
theorem parseEvents_some {events : List (Nat × String)} {evs : List (Nat × Ev)}
    (h : parseEvents events = some evs) :
    ∀ e ∈ evs, ∃ x ∈ events, x.1 = e.1 ∧ parseEv x.2 = some e.2 := by
  induction events generalizing evs with
  | nil => simp [parseEvents] at h; subst h; simp
  | cons x r ih =>
    obtain ⟨i, str⟩ := x
    simp only [parseEvents] at h
    split at h
    · rename_i ev evs' h1 h2
      cases h
      intro e he
      rcases List.mem_cons.1 he with rfl | he
      · exact ⟨(i, str), by simp, rfl, h1⟩
      · obtain ⟨x, hx, hx'⟩ := ih h2 e he
        exact ⟨x, by simp [hx], hx'⟩
    · cases h

end Sth.FreeConc
