/-
Lemmas for C16 (Sth/Props/C16.lean): soundness of the lockset discipline over the lock-trace model of
Sth/Model/LockTrace.lean, and the equivalence of every executable mirror with its Prop (which makes all
notions of the model decidable on concrete traces).
-/
import Sth.Model.LockTrace

namespace Sth.Race

/-! ### happens-before respects the trace order -/

theorem hb_lt {tr : Trace} {i j : Nat} (h : hb tr i j) : i < j := by
  induction h with
  | po h _ _ _ => exact h
  | sync h _ _ _ => exact h
  | fork h _ _ _ => exact h
  | join h _ _ _ => exact h
  | trans _ _ ih1 ih2 => exact Nat.lt_trans ih1 ih2

theorem hb_lt_length {tr : Trace} {i j : Nat} (h : hb tr i j) : j < tr.length := by
  induction h with
  | po _ _ h _ => exact (List.getElem?_eq_some_iff.mp h).1
  | sync _ _ h _ => exact (List.getElem?_eq_some_iff.mp h).1
  | fork _ _ h _ => exact (List.getElem?_eq_some_iff.mp h).1
  | join _ _ _ h => exact (List.getElem?_eq_some_iff.mp h).1
  | trans _ _ _ ih2 => exact ih2

/-! ### accesses -/

theorem accessAt_inj {tr : Trace} {i t x t' x' : Nat} {w w' : Bool}
    (h : accessAt tr i t x w) (h' : accessAt tr i t' x' w') : t = t' ∧ x = x' ∧ w = w' := by
  unfold accessAt at h h'
  rw [h] at h'
  cases w <;> cases w' <;> simp at h' <;> simp [h']

theorem accessAt_thread {tr : Trace} {i t x : Nat} {w : Bool} (h : accessAt tr i t x w) :
    ∃ e, tr[i]? = some e ∧ e.thread = t := by
  unfold accessAt at h
  cases w
  · exact ⟨_, h, rfl⟩
  · exact ⟨_, h, rfl⟩

theorem accessAt_not_acq {tr : Trace} {i t x : Nat} {w : Bool} (h : accessAt tr i t x w) (t' l : Nat) (m : Mode) :
    tr[i]? ≠ some (.acq t' l m) := by
  unfold accessAt at h
  rw [h]; cases w <;> simp

theorem accessAt_not_rel {tr : Trace} {i t x : Nat} {w : Bool} (h : accessAt tr i t x w) (t' l : Nat) (m : Mode) :
    tr[i]? ≠ some (.rel t' l m) := by
  unfold accessAt at h
  rw [h]; cases w <;> simp

/-! ### the lockset theorem -/

/-- a thread that holds `l` at `i` holds it at every position between the acquisition and `i` -/
theorem held_of_acq {tr : Trace} {a i k t l : Nat} {m : Mode} (hacq : tr[a]? = some (.acq t l m))
    (hno : ∀ b, a < b → b < i → tr[b]? ≠ some (.rel t l m)) (hak : a < k) (hki : k ≤ i) : held tr k t l m :=
  ⟨a, hak, hacq, fun b h1 h2 => hno b h1 (Nat.lt_of_lt_of_le h2 hki)⟩

/-- the core: both accesses hold `l`, at least one of them exclusively -/
theorem lockset_sound_modes (tr : Trace) (wf : WellFormed tr) (i j l : Nat) (m1 m2 : Mode)
    (hc : conflict tr i j) (gi : holds tr i l m1) (gj : holds tr j l m2) (hm : m1 = .w ∨ m2 = .w) :
    hb tr i j := by
  obtain ⟨hij, t, t', x, w, w', hi, hj, htt, -⟩ := hc
  obtain ⟨ei, hei, heit⟩ := accessAt_thread hi
  obtain ⟨ej, hej, hejt⟩ := accessAt_thread hj
  obtain ⟨ei', hei', a1, ha1, hacq1, hno1⟩ := gi
  obtain ⟨ej', hej', a2, ha2, hacq2, hno2⟩ := gj
  rw [hei] at hei'; cases hei'
  rw [hej] at hej'; cases hej'
  subst heit hejt
  -- the two modes exclude each other
  have hmode : ¬ (m1 = .r ∧ m2 = .r) := by
    rintro ⟨rfl, rfl⟩
    rcases hm with h | h <;> cases h
  have hmode' : ¬ (m2 = .r ∧ m1 = .r) := fun h => hmode ⟨h.2, h.1⟩
  rcases Nat.lt_trichotomy a2 i with h2i | h2i | h2i
  · -- the later thread acquired before i and still holds at j > i: the two critical sections overlap
    exfalso
    rcases Nat.lt_trichotomy a1 a2 with h12 | h12 | h12
    · exact hmode' (wf a2 _ l m2 _ m1 hacq2 htt (held_of_acq hacq1 hno1 h12 (Nat.le_of_lt h2i)))
    · subst h12
      rw [hacq1] at hacq2
      injection hacq2 with h; injection h with h; exact htt h
    · exact hmode (wf a1 _ l m1 _ m2 hacq1 (Ne.symm htt) (held_of_acq hacq2 hno2 h12 (by omega)))
  · subst h2i
    exact absurd hacq2 (accessAt_not_acq hi _ _ _)
  · -- it acquires after i: the earlier thread must have released in between, and that release is after i
    by_cases hrel : ∃ p, a1 < p ∧ p < a2 ∧ tr[p]? = some (.rel ei.thread l m1)
    · obtain ⟨p, h1p, hp2, hp⟩ := hrel
      have hip : i < p := by
        rcases Nat.lt_trichotomy p i with h | h | h
        · exact absurd hp (hno1 p h1p h)
        · subst h; exact absurd hp (accessAt_not_rel hi _ _ _)
        · exact h
      have e1 : hb tr i p := hb.po hip hei hp rfl
      have e2 : hb tr p a2 := hb.sync hp2 hp hacq2 hm
      have e3 : hb tr a2 j := hb.po ha2 hacq2 hej rfl
      exact hb.trans e1 (hb.trans e2 e3)
    · exfalso
      exact hmode' (wf a2 _ l m2 _ m1 hacq2 htt
        ⟨a1, by omega, hacq1, fun b h1 h2 h3 => hrel ⟨b, h1, h2, h3⟩⟩)

/-- a guarded access holds the lock; a guarded write holds it exclusively -/
theorem guarded_holds {tr : Trace} {i l : Nat} (g : guarded tr i l) :
    ∃ m, holds tr i l m ∧ ∀ t x, accessAt tr i t x true → m = .w := by
  obtain ⟨t, x, w, m, hi, hh, hm⟩ := g
  obtain ⟨e, he, het⟩ := accessAt_thread hi
  refine ⟨m, ⟨e, he, het ▸ hh⟩, fun t' x' hi' => ?_⟩
  obtain ⟨-, -, rfl⟩ := accessAt_inj hi hi'
  exact hm rfl

theorem lockset_sound (tr : Trace) (wf : WellFormed tr) (i j l : Nat)
    (hc : conflict tr i j) (gi : guarded tr i l) (gj : guarded tr j l) : hb tr i j := by
  obtain ⟨m1, h1, w1⟩ := guarded_holds gi
  obtain ⟨m2, h2, w2⟩ := guarded_holds gj
  refine lockset_sound_modes tr wf i j l m1 m2 hc h1 h2 ?_
  obtain ⟨-, t, t', x, w, w', hi, hj, -, hw⟩ := hc
  rcases hw with rfl | rfl
  · exact Or.inl (w1 t x hi)
  · exact Or.inr (w2 t' x hj)

theorem hbFJ_hb {tr : Trace} {i j : Nat} (h : hbFJ tr i j) : hb tr i j := by
  induction h with
  | po h1 h2 h3 h4 => exact hb.po h1 h2 h3 h4
  | fork h1 h2 h3 h4 => exact hb.fork h1 h2 h3 h4
  | join h1 h2 h3 h4 => exact hb.join h1 h2 h3 h4
  | trans _ _ ih1 ih2 => exact hb.trans ih1 ih2

theorem forkJoinOrdered_hbFJ {tr : Trace} {i j : Nat} (h : forkJoinOrdered tr i j) : hbFJ tr i j := by
  obtain ⟨p, e, e', t, c, hip, hpj, hi, hj, h | h⟩ := h
  · obtain ⟨hp, h1, h2⟩ := h
    exact hbFJ.trans (hbFJ.po hip hi hp h1) (hbFJ.fork hpj hp hj h2)
  · obtain ⟨hp, h1, h2⟩ := h
    exact hbFJ.trans (hbFJ.join hip hi h1 hp) (hbFJ.po hpj hp hj h2.symm)

/-! ### corollaries: disciplines over a whole trace -/

/-- every conflicting pair holds a common lock, one side exclusively, or is ordered by the fork/join
    structure -/
theorem pairwise_race_free (tr : Trace) (wf : WellFormed tr)
    (h : ∀ i j, conflict tr i j →
      (∃ l m m', holds tr i l m ∧ holds tr j l m' ∧ (m = .w ∨ m' = .w)) ∨ hbFJ tr i j) :
    ∀ i j, conflict tr i j → hb tr i j := by
  intro i j hc
  rcases h i j hc with ⟨l, m, m', gi, gj, hm⟩ | h
  · exact lockset_sound_modes tr wf i j l m m' hc gi gj hm
  · exact hbFJ_hb h

/-- both sides guarded by the same lock is an instance of the pairwise rule -/
theorem guarded_pair {tr : Trace} {i j l : Nat} (hc : conflict tr i j) (gi : guarded tr i l) (gj : guarded tr j l) :
    ∃ l m m', holds tr i l m ∧ holds tr j l m' ∧ (m = .w ∨ m' = .w) := by
  obtain ⟨m1, h1, w1⟩ := guarded_holds gi
  obtain ⟨m2, h2, w2⟩ := guarded_holds gj
  refine ⟨l, m1, m2, h1, h2, ?_⟩
  obtain ⟨-, t, t', x, w, w', hi, hj, -, hw⟩ := hc
  rcases hw with rfl | rfl
  · exact Or.inl (w1 t x hi)
  · exact Or.inr (w2 t' x hj)

theorem discipline_phased (tr : Trace) (wf : WellFormed tr) (guard : Nat → Nat)
    (h : ∀ i j t t' x w w', accessAt tr i t x w → accessAt tr j t' x w' → conflict tr i j →
      (guarded tr i (guard x) ∧ guarded tr j (guard x)) ∨ hbFJ tr i j) :
    ∀ i j, conflict tr i j → hb tr i j := by
  apply pairwise_race_free tr wf
  intro i j hc
  obtain ⟨_, t, t', x, w, w', hi, hj, _, _⟩ := id hc
  rcases h i j t t' x w w' hi hj hc with h | h
  · exact Or.inl (guarded_pair hc h.1 h.2)
  · exact Or.inr h

theorem discipline_race_free (tr : Trace) (wf : WellFormed tr) (guard : Nat → Nat)
    (h : ∀ i t x w, accessAt tr i t x w → guarded tr i (guard x)) :
    ∀ i j, conflict tr i j → hb tr i j :=
  discipline_phased tr wf guard fun i j t t' x w w' hi hj _ => Or.inl ⟨h i t x w hi, h j t' x w' hj⟩

/-- guard SETS: a write holds every lock of the variable's set (non-empty), a read holds at least one -/
theorem discipline_locksets (tr : Trace) (wf : WellFormed tr) (guards : Nat → List Nat)
    (hw : ∀ i t x, accessAt tr i t x true → guards x ≠ [] ∧ ∀ l, l ∈ guards x → guarded tr i l)
    (hr : ∀ i t x, accessAt tr i t x false → ∃ l, l ∈ guards x ∧ guarded tr i l) :
    ∀ i j, conflict tr i j → hb tr i j := by
  apply pairwise_race_free tr wf
  intro i j hc
  obtain ⟨_, t, t', x, w, w', hi, hj, _, hww⟩ := id hc
  left
  suffices ∃ l, guarded tr i l ∧ guarded tr j l by
    obtain ⟨l, gi, gj⟩ := this
    exact guarded_pair hc gi gj
  cases w with
  | true =>
    obtain ⟨hne, hall⟩ := hw i t x hi
    cases w' with
    | true =>
      obtain ⟨l, hl⟩ := List.exists_mem_of_ne_nil _ hne
      exact ⟨l, hall l hl, (hw j t' x hj).2 l hl⟩
    | false =>
      obtain ⟨l, hl, g⟩ := hr j t' x hj
      exact ⟨l, hall l hl, g⟩
  | false =>
    cases w' with
    | true =>
      obtain ⟨l, hl, g⟩ := hr i t x hi
      exact ⟨l, g, (hw j t' x hj).2 l hl⟩
    | false => rcases hww with h | h <;> cases h

theorem hb_irrefl {tr : Trace} (i : Nat) : ¬ hb tr i i := fun h => Nat.lt_irrefl i (hb_lt h)

theorem hb_asymm {tr : Trace} {i j : Nat} (h : hb tr i j) : ¬ hb tr j i :=
  fun h' => Nat.lt_irrefl i (Nat.lt_trans (hb_lt h) (hb_lt h'))

/-! ### the executable mirrors decide the Props -/

theorem lt_length_of_getElem? {tr : Trace} {i : Nat} {e : Ev} (h : tr[i]? = some e) : i < tr.length :=
  (List.getElem?_eq_some_iff.mp h).1

theorem noRelB_iff {tr : Trace} {a i t l : Nat} {m : Mode} :
    noRelB tr a i t l m = true ↔ ∀ b, a < b → b < i → tr[b]? ≠ some (.rel t l m) := by
  simp only [noRelB, List.all_eq_true, List.mem_range, Bool.or_eq_true, Bool.not_eq_true',
    decide_eq_false_iff_not, decide_eq_true_eq]
  constructor
  · intro h b h1 h2
    rcases h b h2 with h | h
    · exact absurd h1 h
    · exact h
  · intro h b h2
    by_cases h1 : a < b
    · exact Or.inr (h b h1 h2)
    · exact Or.inl h1

theorem heldB_iff {tr : Trace} {i t l : Nat} {m : Mode} : heldB tr i t l m = true ↔ held tr i t l m := by
  simp only [heldB, held, List.any_eq_true, List.mem_range, Bool.and_eq_true, decide_eq_true_eq, noRelB_iff]

instance (tr : Trace) (i t l : Nat) (m : Mode) : Decidable (held tr i t l m) :=
  decidable_of_iff _ heldB_iff

theorem holdsB_iff {tr : Trace} {i l : Nat} {m : Mode} : holdsB tr i l m = true ↔ holds tr i l m := by
  unfold holdsB holds
  cases hi : tr[i]? with
  | none => simp
  | some e => simp [heldB_iff]

instance (tr : Trace) (i l : Nat) (m : Mode) : Decidable (holds tr i l m) := decidable_of_iff _ holdsB_iff

theorem wellFormedB_iff {tr : Trace} : wellFormedB tr = true ↔ WellFormed tr := by
  simp only [wellFormedB, List.all_eq_true, List.mem_range]
  constructor
  · intro h i t l m t' m' hacq hne ⟨a, ha, hacq', hno⟩
    have := h i (lt_length_of_getElem? hacq) a ha
    simp only [wfAtB, hacq, hacq', decide_true, Bool.true_and, Bool.or_eq_true, Bool.not_eq_true',
      Bool.and_eq_false_iff, decide_eq_false_iff_not, Bool.and_eq_true, decide_eq_true_eq] at this
    rcases this with (h1 | h1) | h1
    · exact absurd hne h1
    · rw [← Bool.not_eq_true, noRelB_iff] at h1; exact absurd hno h1
    · exact h1
  · intro wf i _ a ha
    unfold wfAtB
    split
    · next t l m t' l' m' hi ha' =>
      by_cases hc : l' = l ∧ t' ≠ t ∧ noRelB tr a i t' l m' = true
      · obtain ⟨rfl, hne, hno⟩ := hc
        have := wf i t l' m t' m' hi hne ⟨a, ha, ha', noRelB_iff.mp hno⟩
        simp [this.1, this.2]
      · simp only [Bool.or_eq_true, Bool.not_eq_true', Bool.and_eq_false_iff, decide_eq_false_iff_not]
        by_cases h1 : l' = l
        · by_cases h2 : t' ≠ t
          · refine Or.inl (Or.inr ?_)
            cases h3 : noRelB tr a i t' l m'
            · rfl
            · exact absurd ⟨h1, h2, h3⟩ hc
          · exact Or.inl (Or.inl (Or.inr h2))
        · exact Or.inl (Or.inl (Or.inl h1))
    · rfl

instance (tr : Trace) : Decidable (WellFormed tr) := decidable_of_iff _ wellFormedB_iff

theorem edgeB_lt_length {tr : Trace} {i j : Nat} (h : edgeB tr i j = true) : j < tr.length := by
  unfold edgeB at h
  rcases Nat.lt_or_ge j tr.length with hj | hj
  · exact hj
  · rw [List.getElem?_eq_none hj] at h
    cases hi : tr[i]? <;> simp [hi] at h

theorem edgeB_hb {tr : Trace} {i j : Nat} (h : edgeB tr i j = true) : hb tr i j := by
  unfold edgeB at h
  cases hi : tr[i]? with
  | none => simp [hi] at h
  | some e =>
    cases hj : tr[j]? with
    | none => simp [hi, hj] at h
    | some e' =>
      simp only [hi, hj, Bool.and_eq_true, decide_eq_true_eq, Bool.or_eq_true] at h
      obtain ⟨hij, ((h | h) | h) | h⟩ := h
      · exact hb.po hij hi hj h
      · cases e <;> cases e' <;> simp [Ev.syncB] at h
        next t l m t' l' m' =>
          obtain ⟨rfl, hm⟩ := h
          exact hb.sync hij hi hj hm
      · cases e <;> simp [Ev.forkB] at h
        next t c => exact hb.fork hij hi hj h
      · cases e' <;> simp [Ev.joinB] at h
        next t c => exact hb.join hij hi h hj

theorem hb_edge_or {tr : Trace} {i j : Nat} (h : hb tr i j) :
    edgeB tr i j = true ∨ ∃ k, edgeB tr i k = true ∧ hb tr k j := by
  induction h with
  | po hij hi hj ht => left; simp [edgeB, hij, hi, hj, ht]
  | sync hij hi hj hm => left; simp [edgeB, hij, hi, hj, Ev.syncB, hm]
  | fork hij hi hj ht => left; simp [edgeB, hij, hi, hj, Ev.forkB, ht]
  | join hij hi ht hj => left; simp [edgeB, hij, hi, hj, Ev.joinB, ht]
  | trans _ h2 ih1 _ =>
    right
    rcases ih1 with h | ⟨k, hk, hkj⟩
    · exact ⟨_, h, h2⟩
    · exact ⟨k, hk, hb.trans hkj h2⟩

theorem hbFuel_succ {tr : Trace} {n i j : Nat} :
    hbFuel tr (n + 1) i j = true ↔ edgeB tr i j = true ∨ ∃ k, edgeB tr i k = true ∧ hbFuel tr n k j = true := by
  simp only [hbFuel, Bool.or_eq_true, List.any_eq_true, List.mem_range, Bool.and_eq_true]
  constructor
  · rintro (h | ⟨k, _, h1, h2⟩)
    · exact Or.inl h
    · exact Or.inr ⟨k, h1, h2⟩
  · rintro (h | ⟨k, h1, h2⟩)
    · exact Or.inl h
    · exact Or.inr ⟨k, edgeB_lt_length h1, h1, h2⟩

theorem hbFuel_hb {tr : Trace} {n i j : Nat} (h : hbFuel tr n i j = true) : hb tr i j := by
  induction n generalizing i with
  | zero => simp [hbFuel] at h
  | succ n ih =>
    rcases hbFuel_succ.mp h with h | ⟨k, h1, h2⟩
    · exact edgeB_hb h
    · exact hb.trans (edgeB_hb h1) (ih h2)

theorem hb_hbFuel {tr : Trace} {n : Nat} : ∀ {i j : Nat}, hb tr i j → j - i ≤ n → hbFuel tr n i j = true := by
  induction n with
  | zero => intro i j h hn; have := hb_lt h; omega
  | succ n ih =>
    intro i j h hn
    rcases hb_edge_or h with h | ⟨k, h1, h2⟩
    · exact hbFuel_succ.mpr (Or.inl h)
    · have := hb_lt (edgeB_hb h1)
      have := hb_lt h2
      exact hbFuel_succ.mpr (Or.inr ⟨k, h1, ih h2 (by omega)⟩)

theorem hbB_iff {tr : Trace} {i j : Nat} : hbB tr i j = true ↔ hb tr i j :=
  ⟨hbFuel_hb, fun h => hb_hbFuel h (by have := hb_lt_length h; omega)⟩

instance (tr : Trace) (i j : Nat) : Decidable (hb tr i j) := decidable_of_iff _ hbB_iff

theorem accessAt_iff {tr : Trace} {i t x : Nat} {w : Bool} :
    accessAt tr i t x w ↔ tr[i]?.bind Ev.accessB = some (t, x, w) := by
  unfold accessAt
  cases hi : tr[i]? with
  | none => simp
  | some e => cases e <;> cases w <;> simp [Ev.accessB] <;> omega

theorem conflictB_iff {tr : Trace} {i j : Nat} : conflictB tr i j = true ↔ conflict tr i j := by
  unfold conflictB conflict
  simp only [accessAt_iff]
  constructor
  · intro h
    simp only [Bool.and_eq_true, decide_eq_true_eq] at h
    obtain ⟨hij, h⟩ := h
    split at h
    · next t x w t' x' w' h1 h2 =>
      simp only [Bool.and_eq_true, decide_eq_true_eq, Bool.or_eq_true] at h
      obtain ⟨⟨rfl, hne⟩, hw⟩ := h
      exact ⟨hij, t, t', x, w, w', h1, h2, hne, hw⟩
    · cases h
  · rintro ⟨hij, t, t', x, w, w', h1, h2, hne, hw⟩
    simp [hij, h1, h2, hne, hw]

instance (tr : Trace) (i j : Nat) : Decidable (conflict tr i j) := decidable_of_iff _ conflictB_iff

theorem guardedB_iff {tr : Trace} {i l : Nat} : guardedB tr i l = true ↔ guarded tr i l := by
  unfold guardedB guarded
  simp only [accessAt_iff]
  constructor
  · intro h
    split at h
    · next t x w h1 =>
      simp only [Bool.or_eq_true, Bool.and_eq_true, Bool.not_eq_true', heldB_iff] at h
      rcases h with h | ⟨rfl, h⟩
      · exact ⟨t, x, w, .w, h1, h, fun _ => rfl⟩
      · exact ⟨t, x, false, .r, h1, h, fun h => by cases h⟩
    · cases h
  · rintro ⟨t, x, w, m, h1, h2, h3⟩
    simp only [h1, Bool.or_eq_true, Bool.and_eq_true, Bool.not_eq_true', heldB_iff]
    cases m with
    | w => exact Or.inl h2
    | r =>
      cases w with
      | false => exact Or.inr ⟨rfl, h2⟩
      | true => cases h3 rfl

instance (tr : Trace) (i l : Nat) : Decidable (guarded tr i l) := decidable_of_iff _ guardedB_iff

theorem disciplineB_iff {tr : Trace} {guard : Nat → Nat} :
    disciplineB tr guard = true ↔ ∀ i t x w, accessAt tr i t x w → guarded tr i (guard x) := by
  simp only [disciplineB, List.all_eq_true, List.mem_range, accessAt_iff]
  constructor
  · intro h i t x w hi
    have hlt : i < tr.length := by
      rcases Nat.lt_or_ge i tr.length with h' | h'
      · exact h'
      · rw [List.getElem?_eq_none h'] at hi; cases hi
    have := h i hlt
    rw [hi] at this
    exact guardedB_iff.mp this
  · intro h i _
    split
    · next t x w hi => exact guardedB_iff.mpr (h i t x w hi)
    · rfl

theorem conflict_lt_length {tr : Trace} {i j : Nat} (h : conflict tr i j) : j < tr.length := by
  obtain ⟨_, _, t', x, _, w', _, hj, _⟩ := h
  obtain ⟨e, he, _⟩ := accessAt_thread hj
  exact lt_length_of_getElem? he

theorem raceFreeB_iff {tr : Trace} : raceFreeB tr = true ↔ raceFree tr := by
  simp only [raceFreeB, raceFree, List.all_eq_true, List.mem_range, Bool.or_eq_true, Bool.not_eq_true']
  constructor
  · intro h i j hc
    rcases h j (conflict_lt_length hc) i hc.1 with h | h
    · rw [← Bool.not_eq_true, conflictB_iff] at h; exact absurd hc h
    · exact hbB_iff.mp h
  · intro h j _ i _
    cases hc : conflictB tr i j
    · exact Or.inl rfl
    · exact Or.inr (hbB_iff.mpr (h i j (conflictB_iff.mp hc)))

instance (tr : Trace) : Decidable (raceFree tr) := decidable_of_iff _ raceFreeB_iff

end Sth.Race
