/-
C04 — the keyed calls on the GC invariant (multihash primary): Get / Has / GetSize leave the state
alone, Put and Remove keep the invariant.
Core Lean only.
-/
import Sth.Lemmas.C04GMut

namespace Sth

section
variable {c : Cfg} {U : List (Bytes × Bytes)} {s : SState} {spec : Spec} {n B : Nat}

theorem GInv.univ (hU : Univ c.kind U) (hG : GInv c U s spec n B) : Univ s.m.kind U := by
  rw [hG.kind, ← hG.kmh]; exact hU

theorem GInv.mono {n' B' : Nat} (h : GInv c U s spec n B) (hn : n ≤ n') (hB : B ≤ B') :
    GInv c U s spec n' B' :=
  { h with cntF := Nat.le_trans h.cntF hn, cntI := Nat.le_trans h.cntI hn, w := Nat.le_trans h.w hB }

theorem GInv.pfile_le (h : GInv c U s spec n B) : s.m.pfileNum ≤ s.m.precFileNum := allocMh_le h.alloc

theorem GInv.putPre (h : GInv c U s spec n B) {key val : Bytes} (hn : n + 1 < 1073741824)
    (hsz : key.length + val.length < two31) : PutPre s.m key val := by
  refine ⟨fun _ => h.pmax1, h.nextBelow, hsz, ?_⟩
  unfold nextBlk
  simp only [h.kind]
  have h1 : nextFile s.m + 1 ≤ 1073741824 := by
    have := h.cntF
    unfold nextFile; split <;> omega
  have h2 := nextPos_lt h.pmax1
  have h3 : s.m.pmax * nextFile s.m + nextPos s.m < s.m.pmax * (nextFile s.m + 1) := by
    rw [Nat.mul_add]; omega
  have := mul_bound h.pmaxle h1
  omega

/-- assembling the invariant after a record has been pooled and the index pool changed -/
theorem ginv_put_core (_hU : Univ c.kind U) (hG : GInv c U s spec n B) {k v : Bytes}
    (hrn : readNode .mh (k ++ v) = some (k, v)) (hsz : k.length + v.length < two31)
    {m' : Mem}
    (hf : Frame (putMem s.m k v) m') (hlen : m'.inext.length ≤ s.m.inext.length + 1)
    (hy : YInv c { s with m := m' })
    {spec' : Spec}
    (hA : AInv s.m.kind s.m.bits U (priGet m' s.d) (idxRecords m' s.d) (Below m') spec')
    (hnd : (spec'.map (·.1)).Nodup) {B' : Nat} (hw : specW spec' ≤ B')
    (hz : ZInv m' s.d) :
    GInv c U { s with m := m' } spec' (n + 1) B' := by
  have hkind : m'.kind = s.m.kind := by rw [hf.kind, putMem_kind]
  have hbits : m'.bits = s.m.bits := by rw [hf.bits, putMem_bits]
  have hk := hG.kind
  obtain ⟨e1, e2⟩ := putMem_prec_mh hk k v
  refine { kmh := hG.kmh, kind := by show m'.kind = _; rw [hkind]; exact hk,
           imm := by show m'.imm = _; rw [hf.imm, putMem_imm]; exact hG.imm,
           bits8 := by show 8 ≤ m'.bits; rw [hbits]; exact hG.bits8,
           bits31 := by show m'.bits ≤ 31; rw [hbits]; exact hG.bits31,
           a := ?_, pmax1 := by show 1 ≤ m'.pmax; rw [hf.pmax, putMem_pmax]; exact hG.pmax1,
           pmaxle := by show m'.pmax ≤ _; rw [hf.pmax, putMem_pmax]; exact hG.pmaxle,
           recs := ?_, nextBelow := ?_, alloc := ?_, plen := ?_, pno := ?_, i := ?_, cntF := ?_,
           cntI := ?_, nodup := hnd, w := hw, y := ?_, z := hz }
  · show AInv m'.kind m'.bits U _ _ _ _
    rw [hkind, hbits]; exact hA
  · intro r hr
    have hr' : r ∈ m'.pnext := hr
    rw [hf.pnext, putMem_pnext, List.mem_append, List.mem_singleton] at hr'
    rcases hr' with hr' | rfl
    · exact hG.recs r hr'
    · exact ⟨hrn, hsz⟩
  · intro r hr
    have hr' : r ∈ m'.pnext := hr
    rw [hf.pnext, putMem_pnext, List.mem_append, List.mem_singleton] at hr'
    show Below m' r.blk
    rw [below_frame hf]
    rcases hr' with hr' | rfl
    · exact below_putMem k v (hG.nextBelow r hr')
    · exact below_putMem_new (fun _ => hG.pmax1) k v
  · show allocMh m'.pmax m'.pfileNum m'.plength m'.pnext m'.precFileNum m'.precPos
    rw [hf.pmax, hf.pfileNum, hf.plength, hf.pnext, hf.precFileNum, hf.precPos, putMem_pmax,
      putMem_pfileNum, putMem_plength, putMem_pnext, e1, e2]
    refine allocMh_snoc hG.alloc ⟨?_, rfl, rfl⟩
    unfold nextBlk nextFile nextPos
    simp only [hk]
  · show (fileOf s.d.pfiles m'.pfileNum).length = m'.plength
    rw [hf.pfileNum, hf.plength, putMem_pfileNum, putMem_plength]; exact hG.plen
  · intro f hf'
    have : s.m.pfileNum < f := by
      have h' : m'.pfileNum < f := hf'
      rw [hf.pfileNum, putMem_pfileNum] at h'; exact h'
    exact hG.pno f this
  · have : IInv (putMem s.m k v) s.d :=
      hG.i.frame (putMem_imax _ _ _) (putMem_icur _ _ _) (putMem_buckets _ _ _)
        (putMem_ifileNum _ _ _) (putMem_ilength _ _ _)
    exact this.of_frame hf
  · show m'.precFileNum ≤ n + 1
    rw [hf.precFileNum, e1]
    have := hG.cntF
    unfold nextFile; split <;> omega
  · show m'.ifileNum + m'.inext.length ≤ n + 1
    rw [hf.ifileNum, putMem_ifileNum]
    have := hG.cntI
    omega
  · exact hy

theorem ginv_put (hU : Univ c.kind U) (hG : GInv c U s spec n B) {k v : Bytes}
    (hrn : readNode .mh (k ++ v) = some (k, v)) (hsz : k.length + v.length < two31)
    {m' : Mem} {b : Nat} {rl : RecordList}
    (hf : Frame (putMem s.m k v) m') (hin : m'.inext = s.m.inext.set b rl) (hb : b < 2 ^ s.m.bits)
    {spec' : Spec}
    (hA : AInv s.m.kind s.m.bits U (priGet m' s.d) (idxRecords m' s.d) (Below m') spec')
    (hnd : (spec'.map (·.1)).Nodup) {B' : Nat} (hw : specW spec' ≤ B')
    (hz : ZInv m' s.d) :
    GInv c U { s with m := m' } spec' (n + 1) B' := by
  have hshape : MutShape (putMem s.m k v) s { s with m := m' } :=
    Or.inr ⟨m', b, rl, rfl, hf, hin, hb⟩
  refine ginv_put_core hU hG hrn hsz hf ?_ ?_ hA hnd hw hz
  · rw [hin]; exact NMap.length_set_le _ _ _
  · exact hG.y.of_shape hshape (putMem_bits _ _ _) (putMem_imax _ _ _) (putMem_pmax _ _ _)
      (putMem_pfileNum _ _ _) (putMem_ifileNum _ _ _) (putMem_buckets _ _ _)

theorem ginv_rm (hG : GInv c U s spec n B) {m' : Mem} {b : Nat} {rl : RecordList}
    (hf : Frame s.m m') (hin : m'.inext = s.m.inext.set b rl) (hb : b < 2 ^ s.m.bits)
    {spec' : Spec}
    (hA : AInv s.m.kind s.m.bits U (priGet m' s.d) (idxRecords m' s.d) (Below m') spec')
    (hnd : (spec'.map (·.1)).Nodup) (hw : specW spec' ≤ B)
    (hz : ZInv m' s.d) :
    GInv c U { s with m := m' } spec' (n + 1) B := by
  have hshape : MutShape s.m s { s with m := m' } := Or.inr ⟨m', b, rl, rfl, hf, hin, hb⟩
  refine { kmh := hG.kmh, kind := by show m'.kind = _; rw [hf.kind]; exact hG.kind,
           imm := by show m'.imm = _; rw [hf.imm]; exact hG.imm,
           bits8 := by show 8 ≤ m'.bits; rw [hf.bits]; exact hG.bits8,
           bits31 := by show m'.bits ≤ 31; rw [hf.bits]; exact hG.bits31,
           a := ?_, pmax1 := by show 1 ≤ m'.pmax; rw [hf.pmax]; exact hG.pmax1,
           pmaxle := by show m'.pmax ≤ _; rw [hf.pmax]; exact hG.pmaxle,
           recs := by show ∀ r ∈ m'.pnext, _; rw [hf.pnext]; exact hG.recs,
           nextBelow := ?_, alloc := ?_, plen := ?_, pno := ?_, i := hG.i.of_frame hf, cntF := ?_,
           cntI := ?_, nodup := hnd, w := hw, y := ?_, z := hz }
  · show AInv m'.kind m'.bits U _ _ _ _
    rw [hf.kind, hf.bits]; exact hA
  · intro r hr
    have hr' : r ∈ m'.pnext := hr
    rw [hf.pnext] at hr'
    show Below m' r.blk
    rw [below_frame hf]; exact hG.nextBelow r hr'
  · show allocMh m'.pmax m'.pfileNum m'.plength m'.pnext m'.precFileNum m'.precPos
    rw [hf.pmax, hf.pfileNum, hf.plength, hf.pnext, hf.precFileNum, hf.precPos]; exact hG.alloc
  · show (fileOf s.d.pfiles m'.pfileNum).length = m'.plength
    rw [hf.pfileNum, hf.plength]; exact hG.plen
  · intro f hf'
    have h' : m'.pfileNum < f := hf'
    rw [hf.pfileNum] at h'
    exact hG.pno f h'
  · show m'.precFileNum ≤ n + 1
    rw [hf.precFileNum]; have := hG.cntF; omega
  · show m'.ifileNum + m'.inext.length ≤ n + 1
    rw [hf.ifileNum, hin]
    have := hG.cntI
    have := NMap.length_set_le s.m.inext b rl
    omega
  · exact hG.y.of_shape hshape rfl rfl rfl rfl rfl rfl

end

end Sth

namespace Sth

theorem putMem_flpool (m : Mem) (key val : Bytes) : (putMem m key val).flpool = m.flpool := by
  unfold putMem; split <;> rfl

theorem idxRecords_frame_put {m : Mem} {d : Disk} {key val : Bytes} {b : Nat} {rl : RecordList}
    (b' : Nat) :
    idxRecords (setNext (putMem m key val) b rl) d b' =
      if b' = b then .ok (some rl) else idxRecords m d b' := by
  rw [idxRecords_setNext', idxRecords_putMem]

section
variable {c : Cfg} {U : List (Bytes × Bytes)} {s : SState} {spec : Spec} {n B : Nat}

theorem step_put_g (hU : Univ c.kind U) (hG : GInv c U s spec n B) (k v : Bytes)
    (hkey : ∀ dig, keyClass c.kind k = .ok dig → (k, dig) ∈ U)
    (hn : n + 1 < 1073741824) (hB : B + (k.length + v.length + 17) < two31) :
    (stepS s (.put k v)).2 = (specStep c.kind c.imm spec (.put k v)).2 ∧
      GInv c U (stepS s (.put k v)).1 (specStep c.kind c.imm spec (.put k v)).1 (n + 1)
        (B + (k.length + v.length + 17)) := by
  have hU' := hG.univ hU
  have hG' : GInv c U s spec (n + 1) (B + (k.length + v.length + 17)) := hG.mono (by omega) (by omega)
  have hkk : s.m.kind = c.kind := by rw [hG.kind, hG.kmh]
  cases hcls : keyClass c.kind k with
  | error e =>
    have := storePut_bad (m := s.m) (d := s.d) (k := k) (v := v) (e := e) (by rw [hkk]; exact hcls)
    simp only [stepS, this, specStep, hcls, true_and]
    exact hG'
  | ok dig =>
    have hk := hkey dig hcls
    have hpre := hG.putPre (key := k) (val := v) hn (by omega)
    have hrn : readNode .mh (k ++ v) = some (k, v) := by
      have := readNode_append c.kind k v (hU.exact _ hk)
      rw [hG.kmh] at this; exact this
    obtain ⟨pf, psp, zh, zl, ze, zf⟩ := hG.z
    have hloc : ¬ Below s.m (nextBlk s.m (k.length + v.length)) := not_below_next hpre.pmax _
    cases hs : Spec.get spec dig with
    | none =>
      obtain ⟨b, rl, h1, h2, h3, h4, orl, h5, hperm⟩ :=
        storePut_absent_x hU' hG.bits8 hG.bits31 hG.a hpre hk hs
      simp only [stepS, h1, specStep, hcls, hs, true_and]
      have hnew : priGet (setNext (putMem s.m k v) b rl) s.d (nextBlk s.m (k.length + v.length)) =
          .got k v := priGet_putMem_new s.d k v hpre.pmax hpre.pool
      have hents : ∀ blk, IsEnt (setNext (putMem s.m k v) b rl) s.d blk →
          blk = nextBlk s.m (k.length + v.length) ∨ IsEnt s.m s.d blk := by
        rintro blk ⟨b', rl', e', hr, he', rfl⟩
        rw [idxRecords_frame_put] at hr
        by_cases hbb : b' = b
        · rw [if_pos hbb] at hr
          simp only [Except.ok.injEq, Option.some.injEq] at hr
          subst hr
          have hm : e'.blk ∈ rl.map (·.blk) := List.mem_map_of_mem he'
          rw [hperm.mem_iff, List.mem_cons] at hm
          rcases hm with hm | hm
          · exact Or.inl hm
          · right
            obtain ⟨e0, he0, heq⟩ := List.mem_map.mp hm
            cases orl with
            | none => simp at he0
            | some rl0 => exact ⟨b, rl0, e0, h5, he0, heq⟩
        · rw [if_neg hbb] at hr
          exact Or.inr ⟨b', rl', e', hr, he', rfl⟩
      obtain ⟨z1, z2, z3⟩ := zinv_put (m' := setNext (putMem s.m k v) b rl) hG.a zl ze zf hpre.pmax
        (frame_setNext _ _ _) hnew hents (freed := [])
        (by show (putMem s.m k v).flpool = _; rw [putMem_flpool]; simp) (by simp)
      have zh' : s.d.phdr = some ⟨(setNext (putMem s.m k v) b rl).pmax, pf⟩ := by
        show s.d.phdr = some ⟨(putMem s.m k v).pmax, pf⟩
        rw [putMem_pmax]; exact zh
      refine ginv_put hU hG hrn (by omega) (frame_setNext _ _ _)
        (by show (putMem s.m k v).inext.set b rl = _; rw [putMem_inext]) h3 h2
        (nodup_set hG.nodup _ _ _) ?_ ⟨pf, psp, zh', z1, z2, z3⟩
      have := specW_set spec dig k v
      have := hG.w
      omega
    | some kv =>
      obtain ⟨key0, old⟩ := kv
      obtain ⟨p1, p2, p3⟩ := storePut_present_x (val := v) hU' hG.bits31 hG.a hk hs
      by_cases himm : s.m.imm = true
      · have himm' : c.imm = true := by rw [← hG.imm]; exact himm
        simp only [stepS, p1 himm, specStep, hcls, hs, himm', if_true, true_and]
        exact hG'
      · have himm0 : s.m.imm = false := by simpa using himm
        have himm' : c.imm = false := by rw [← hG.imm]; exact himm0
        by_cases hv : v = old
        · subst hv
          simp only [stepS, p2 himm0 rfl, specStep, hcls, hs, himm', if_true, Bool.false_eq_true,
            if_false, true_and]
          exact hG'
        · have hv' : ¬ old = v := fun h => hv h.symm
          obtain ⟨b, rl, blk, h1, h2, h3, h4, pre, e, post, h5, h6, h7, h8⟩ := p3 himm0 hv hpre
          simp only [stepS, h1, specStep, hcls, hs, himm', hv', Bool.false_eq_true, if_false, true_and]
          subst h6 h7
          have hnew : priGet (addFree (setNext (putMem s.m k v) b
                (pre ++ (⟨e.pfx, nextBlk s.m (k.length + v.length)⟩ : Entry) :: post)) e.blk) s.d
              (nextBlk s.m (k.length + v.length)) = .got k v :=
            priGet_putMem_new s.d k v hpre.pmax hpre.pool
          have hidx : ∀ b', idxRecords (addFree (setNext (putMem s.m k v) b
                (pre ++ (⟨e.pfx, nextBlk s.m (k.length + v.length)⟩ : Entry) :: post)) e.blk) s.d b' =
              if b' = b then .ok (some (pre ++ [(⟨e.pfx, nextBlk s.m (k.length + v.length)⟩ : Entry)]
                ++ post)) else idxRecords s.m s.d b' := by
            intro b'
            rw [idxRecords_addFree, idxRecords_frame_put]
            simp
          obtain ⟨hents, hnoent⟩ := ents_after_replace hU' hG.kind hG.bits31 hG.pmax1 hG.a zl ze
            hG.alloc hG.plen h5 hidx (by simp) hloc
          have hfreed := freeOK_old_entry (m' := addFree (setNext (putMem s.m k v) b
              (pre ++ (⟨e.pfx, nextBlk s.m (k.length + v.length)⟩ : Entry) :: post)) e.blk)
            hG.a zl ze ⟨b, _, e, h5, by simp, rfl⟩
            (fun blk hb => below_putMem k v hb) (putMem_pfileNum _ _ _) (putMem_pmax _ _ _)
            (fun r hr => by show r ∈ (putMem s.m k v).pnext; rw [putMem_pnext]; exact
              List.mem_append_left _ hr) hnoent
          obtain ⟨z1, z2, z3⟩ := zinv_put hG.a zl ze zf hpre.pmax
            (frame_addFree_setNext _ _ _ _) hnew hents (freed := [e.blk])
            (by show (putMem s.m k v).flpool ++ [e.blk] = _; rw [putMem_flpool])
            (by intro fb hfb; simp only [List.mem_singleton] at hfb; rw [hfb]; exact hfreed)
          have zh' : s.d.phdr = some ⟨(addFree (setNext (putMem s.m k v) b
              (pre ++ (⟨e.pfx, nextBlk s.m (k.length + v.length)⟩ : Entry) :: post)) e.blk).pmax, pf⟩ := by
            show s.d.phdr = some ⟨(putMem s.m k v).pmax, pf⟩
            rw [putMem_pmax]; exact zh
          refine ginv_put hU hG hrn (by omega) (frame_addFree_setNext _ _ _ _)
            (by show (putMem s.m k v).inext.set b _ = _; rw [putMem_inext]) h3 h2
            (nodup_set hG.nodup _ _ _) ?_ ⟨pf, psp, zh', z1, z2, z3⟩
          have := specW_set spec dig k v
          have := hG.w
          omega

theorem step_rm_g (hU : Univ c.kind U) (hG : GInv c U s spec n B) (k : Bytes)
    (hkey : ∀ dig, keyClass c.kind k = .ok dig → (k, dig) ∈ U) :
    (stepS s (.rm k)).2 = (specStep c.kind c.imm spec (.rm k)).2 ∧
      GInv c U (stepS s (.rm k)).1 (specStep c.kind c.imm spec (.rm k)).1 (n + 1) B := by
  have hU' := hG.univ hU
  have hG' : GInv c U s spec (n + 1) B := hG.mono (by omega) (Nat.le_refl _)
  have hkk : s.m.kind = c.kind := by rw [hG.kind, hG.kmh]
  cases hcls : keyClass c.kind k with
  | error e =>
    have := storeRemove_bad (m := s.m) (d := s.d) (k := k) (e := e) (by rw [hkk]; exact hcls)
    simp only [stepS, this, specStep, hcls, true_and]
    exact hG'
  | ok dig =>
    have hk := hkey dig hcls
    obtain ⟨r1, r2⟩ := storeRemove_x hU' hG.bits31 hG.a hk
    obtain ⟨pf, psp, zh, zl, ze, zf⟩ := hG.z
    cases hs : Spec.get spec dig with
    | none =>
      simp only [stepS, r1 hs, specStep, hcls, hs, true_and]
      exact hG'
    | some kv =>
      obtain ⟨b, rl, blk, h1, h2, h3, h4, pre, e, post, h5, h6, h7⟩ := r2 kv hs
      simp only [stepS, h1, specStep, hcls, hs, true_and]
      subst h6 h7
      have hidx : ∀ b', idxRecords (addFree (setNext s.m b (pre ++ post)) e.blk) s.d b' =
          if b' = b then .ok (some (pre ++ [] ++ post)) else idxRecords s.m s.d b' := by
        intro b'
        rw [idxRecords_addFree, idxRecords_setNext']
        simp
      have hnb : ¬ Below s.m ⟨0, 0⟩ ∨ True := Or.inr trivial
      -- no replacement block: use any block that is not below the allocator
      obtain ⟨hents, hnoent⟩ := ents_after_replace (loc := nextBlk s.m 0) hU' hG.kind hG.bits31
        hG.pmax1 hG.a zl ze hG.alloc hG.plen h5 hidx (by simp)
        (not_below_next (fun _ => hG.pmax1) _)
      have hents' : ∀ blk, IsEnt (addFree (setNext s.m b (pre ++ post)) e.blk) s.d blk →
          IsEnt s.m s.d blk := by
        rintro blk ⟨b', rl', e', hr, he', rfl⟩
        rw [hidx b'] at hr
        by_cases hbb : b' = b
        · rw [if_pos hbb] at hr
          simp only [List.append_nil, Except.ok.injEq, Option.some.injEq] at hr
          subst hr
          refine ⟨b, _, e', h5, ?_, rfl⟩
          simp only [List.mem_append] at he'
          rcases he' with h | h
          · simp [h]
          · simp [h]
        · rw [if_neg hbb] at hr
          exact ⟨b', rl', e', hr, he', rfl⟩
      have hfreed := freeOK_old_entry (m' := addFree (setNext s.m b (pre ++ post)) e.blk)
        hG.a zl ze ⟨b, _, e, h5, by simp, rfl⟩ (fun blk hb => hb) rfl rfl (fun r hr => hr) hnoent
      obtain ⟨z1, z2, z3⟩ := zinv_rm zl ze zf (frame_addFree_setNext _ _ _ _) hents'
        (freed := [e.blk]) rfl
        (by intro fb hfb; simp only [List.mem_singleton] at hfb; rw [hfb]; exact hfreed)
      exact ginv_rm hG (frame_addFree_setNext _ _ _ _) rfl h3 h2 (nodup_del hG.nodup _)
        (Nat.le_trans (specW_filter_le _ _) hG.w) ⟨pf, psp, zh, z1, z2, z3⟩

/-- Get / Has / GetSize -/
theorem step_read_g (hU : Univ c.kind U) (hG : GInv c U s spec n B) (op : SOp)
    (hop : (∃ k, op = .get k) ∨ (∃ k, op = .has k) ∨ (∃ k, op = .size k))
    (hkey : ∀ k, op.keyOf = some k → ∀ dig, keyClass c.kind k = .ok dig → (k, dig) ∈ U) :
    stepS s op = (s, (specStep c.kind c.imm spec op).2) ∧ (specStep c.kind c.imm spec op).1 = spec := by
  have hU' := hG.univ hU
  have hkk : s.m.kind = c.kind := by rw [hG.kind, hG.kmh]
  rcases hop with ⟨k, rfl⟩ | ⟨k, rfl⟩ | ⟨k, rfl⟩
  · cases hcls : keyClass c.kind k with
    | error e =>
      have := storeGet_bad (m := s.m) (d := s.d) (k := k) (e := e) (by rw [hkk]; exact hcls)
      simp only [stepS, this, specStep, hcls, and_self]
    | ok dig =>
      have := storeGet_ok hU' hG.bits31 hG.a (hkey k rfl dig hcls)
      cases hs : Spec.get spec dig with
      | none => rw [hs] at this; simp only [stepS, this, specStep, hcls, hs, and_self]
      | some kv => rw [hs] at this; simp only [stepS, this, specStep, hcls, hs, and_self]
  · cases hcls : keyClass c.kind k with
    | error e =>
      have := storeHas_bad (m := s.m) (d := s.d) (k := k) (e := e) (by rw [hkk]; exact hcls)
      simp only [stepS, this, specStep, hcls, and_self]
    | ok dig =>
      have := storeHas_ok hU' hG.bits31 hG.a (hkey k rfl dig hcls)
      simp only [stepS, this, specStep, hcls, and_self]
  · cases hcls : keyClass c.kind k with
    | error e =>
      have := storeGetSize_bad (m := s.m) (d := s.d) (k := k) (e := e) (by rw [hkk]; exact hcls)
      simp only [stepS, this, specStep, hcls, and_self]
    | ok dig =>
      have := storeGetSize_ok hU' hG.bits31 hG.a (hkey k rfl dig hcls)
      cases hs : Spec.get spec dig with
      | none => rw [hs] at this; simp only [stepS, this, specStep, hcls, hs, and_self]
      | some kv => rw [hs] at this; simp only [stepS, this, specStep, hcls, hs, and_self]

end

end Sth
