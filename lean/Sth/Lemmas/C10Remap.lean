/-
C10 (byte level) — remapIndex on logs: one bucket (`remapBucket_at`), one file (`remapFile_log`: the file
stays a log of the same records, with exactly the record lists the table points at rewritten), all files.
Core Lean only.
-/
import Sth.Lemmas.C10Idx
import Sth.Lemmas.C07Sem

namespace Sth

/-! ### one bucket -/

/-- the rewrite remapIndex applies in place -/
def remapRL (remap : Nat → Option Nat) (rl : RecordList) : RecordList :=
  rl.map fun e => ⟨e.pfx, ⟨(remap e.blk.off).getD 0, e.blk.size⟩⟩

theorem encodeRL_remapRL_length (remap : Nat → Option Nat) (rl : RecordList) :
    (encodeRL (remapRL remap rl)).length = (encodeRL rl).length := by
  rw [encodeRL_length, encodeRL_length]
  unfold remapRL
  rw [List.map_map]
  rfl

theorem idxRecBytes_remapRL_length (remap : Nat → Option Nat) (b : Nat) (rl : RecordList) :
    (idxRecBytes b (remapRL remap rl)).length = (idxRecBytes b rl).length := by
  rw [idxRecBytes_length, idxRecBytes_length, encodeRL_remapRL_length]

theorem remapBucket_at (remap : Nat → Option Nat) (F g : Bytes) (b : Nat) (rl : RecordList)
    (hok : FlushOK rl) :
    remapBucket remap (F ++ idxRecBytes b rl ++ g) (F.length + 4) =
      some (F ++ idxRecBytes b (remapRL remap rl) ++ g,
        if rl.all (fun e => (remap e.blk.off).isSome) then none else some (rl.filterMap (remapEntry remap))) := by
  have hB : (le32 b).length = 4 := le32_length _
  have hS : (le32 ((encodeRL rl).length + 4)).length = 4 := le32_length _
  unfold remapBucket
  rw [if_neg (by omega), Nat.add_sub_cancel, idxRec_read_size F g b rl hok.2]
  simp only [idxRec_read_data]
  rw [if_neg (by omega)]
  simp only [List.drop_left' hB, decodeRL_encode hok.1, Bool.not_true, Bool.false_eq_true, if_false,
    List.take_left' hB]
  congr 2
  have e1 : F ++ idxRecBytes b rl ++ g =
      (F ++ le32 ((encodeRL rl).length + 4)) ++ ((le32 b ++ encodeRL rl) ++ g) := by
    unfold idxRecBytes; simp [List.append_assoc]
  have e2 : (F ++ le32 ((encodeRL rl).length + 4)).length = F.length + 4 := by simp [hS]
  change writeAt _ _ (le32 b ++ encodeRL (remapRL remap rl)) = _
  rw [e1, ← e2, writeAt_mid _ _ (le32 b ++ encodeRL (remapRL remap rl)) _
    (by simp [encodeRL_remapRL_length])]
  unfold idxRecBytes
  rw [encodeRL_remapRL_length]
  simp [List.append_assoc]

/-! ### rewriting selected records of a log -/

/-- rewrite the record lists of the records of file `f` that `p` selects by (bucket, table position) -/
def rmP (p : Nat → Nat → Bool) (g : RecordList → RecordList) (max f : Nat) : Nat → List LRec → List LRec
  | _, [] => []
  | pos, r :: rs =>
    (if p r.1 (f * max + pos + 4) then (r.1, g r.2) else r) ::
      rmP p g max f (pos + (idxRecBytes r.1 r.2).length) rs

section
variable {p p' : Nat → Nat → Bool} {g : RecordList → RecordList} {max f : Nat}

theorem rmP_append (a b : List LRec) (pos : Nat) :
    rmP p g max f pos (a ++ b) = rmP p g max f pos a ++ rmP p g max f (pos + (logBytes a).length) b := by
  induction a generalizing pos with
  | nil => simp [rmP, logBytes]
  | cons r a ih =>
    simp only [List.cons_append, rmP, ih, logBytes_cons, List.length_append, Nat.add_assoc]

theorem rmP_logLen (hg : ∀ rl, (encodeRL (g rl)).length = (encodeRL rl).length) (recs : List LRec) (pos : Nat) :
    (logBytes (rmP p g max f pos recs)).length = (logBytes recs).length := by
  induction recs generalizing pos with
  | nil => rfl
  | cons r rs ih =>
    simp only [rmP, logBytes_cons, List.length_append, ih]
    congr 1
    split
    · rw [idxRecBytes_length, idxRecBytes_length, hg]
    · rfl

theorem rmP_congr (recs : List LRec) (pos : Nat)
    (h : ∀ pre r post, recs = pre ++ r :: post →
      p r.1 (f * max + (pos + (logBytes pre).length) + 4) = p' r.1 (f * max + (pos + (logBytes pre).length) + 4)) :
    rmP p g max f pos recs = rmP p' g max f pos recs := by
  induction recs generalizing pos with
  | nil => rfl
  | cons r rs ih =>
    simp only [rmP]
    have h0 := h [] r rs rfl
    simp only [logBytes, List.flatMap_nil, List.length_nil, Nat.add_zero] at h0
    rw [h0, ih]
    intro pre r' post hrs
    have := h (r :: pre) r' post (by rw [hrs]; rfl)
    rw [logBytes_cons, List.length_append] at this
    rw [Nat.add_assoc pos]
    exact this

theorem rmP_id (recs : List LRec) (pos : Nat)
    (h : ∀ pre r post, recs = pre ++ r :: post →
      p r.1 (f * max + (pos + (logBytes pre).length) + 4) = true → g r.2 = r.2) :
    rmP p g max f pos recs = recs := by
  induction recs generalizing pos with
  | nil => rfl
  | cons r rs ih =>
    simp only [rmP]
    have h0 := h [] r rs rfl
    simp only [logBytes, List.flatMap_nil, List.length_nil, Nat.add_zero] at h0
    rw [ih]
    · split
      · rename_i hp; rw [h0 hp]
      · rfl
    · intro pre r' post hrs
      have := h (r :: pre) r' post (by rw [hrs]; rfl)
      rw [logBytes_cons, List.length_append] at this
      rw [Nat.add_assoc pos]
      exact this

/-- bucket and encoded length of a record: all that a scan looks at -/
def shape (r : LRec) : Nat × Nat := (r.1, (idxRecBytes r.1 r.2).length)

theorem rmP_shape (hg : ∀ rl, (encodeRL (g rl)).length = (encodeRL rl).length) (recs : List LRec) (pos : Nat) :
    (rmP p g max f pos recs).map shape = recs.map shape := by
  induction recs generalizing pos with
  | nil => rfl
  | cons r rs ih =>
    simp only [rmP, List.map_cons, ih]
    congr 1
    split
    · unfold shape; simp only; rw [idxRecBytes_length, idxRecBytes_length, hg]
    · rfl

theorem rmP_split (pre post : List LRec) (b : Nat) (rl : RecordList) (pos : Nat)
    (hp : p b (f * max + (pos + (logBytes pre).length) + 4) = true) :
    rmP p g max f pos (pre ++ (b, rl) :: post) =
      rmP p g max f pos pre ++ (b, g rl) ::
        rmP p g max f (pos + (logBytes pre).length + (idxRecBytes b rl).length) post := by
  rw [rmP_append]
  simp only [rmP, hp, if_true]

theorem rmP_split_not (pre post : List LRec) (b : Nat) (rl : RecordList) (pos : Nat)
    (hp : p b (f * max + (pos + (logBytes pre).length) + 4) = false) :
    rmP p g max f pos (pre ++ (b, rl) :: post) =
      rmP p g max f pos pre ++ (b, rl) ::
        rmP p g max f (pos + (logBytes pre).length + (idxRecBytes b rl).length) post := by
  rw [rmP_append]
  simp only [rmP, hp, Bool.false_eq_true, if_false]

theorem rmP_mem (recs : List LRec) (pos : Nat) (r : LRec) (h : r ∈ rmP p g max f pos recs) :
    r ∈ recs ∨ ∃ r0 ∈ recs, r = (r0.1, g r0.2) := by
  induction recs generalizing pos with
  | nil => simp [rmP] at h
  | cons x rs ih =>
    simp only [rmP, List.mem_cons] at h
    rcases h with h | h
    · split at h
      · right; exact ⟨x, by simp, h⟩
      · left; rw [h]; simp
    · rcases ih _ h with h' | ⟨r0, h1, h2⟩
      · left; exact List.mem_cons_of_mem _ h'
      · right; exact ⟨r0, List.mem_cons_of_mem _ h1, h2⟩

end

/-- scans only look at the shapes -/
theorem scanRecs_shape (max fnum : Nat) : ∀ (a b : List LRec) (pos : Nat) (bk : NMap Nat),
    a.map shape = b.map shape → scanRecs max fnum pos a bk = scanRecs max fnum pos b bk
  | [], [], _, _, _ => rfl
  | [], _ :: _, _, _, h => by simp at h
  | _ :: _, [], _, _, h => by simp at h
  | (xb, xr) :: a, (yb, yr) :: b, pos, bk, h => by
    simp only [List.map_cons, List.cons.injEq, shape, Prod.mk.injEq] at h
    obtain ⟨⟨h1, h2⟩, h3⟩ := h
    subst h1
    simp only [scanRecs]
    rw [h2]
    exact scanRecs_shape max fnum a b _ _ h3

theorem scanTo_shape (max : Nat) {lg lg' : Nat → List LRec} : ∀ N,
    (∀ f, f ≤ N → (lg' f).map shape = (lg f).map shape) → scanTo max lg' N = scanTo max lg N
  | 0, h => by simp only [scanTo]; exact scanRecs_shape _ _ _ _ _ _ (h 0 (Nat.le_refl _))
  | N + 1, h => by
    simp only [scanTo]
    rw [scanTo_shape max N (fun f hf => h f (by omega))]
    exact scanRecs_shape _ _ _ _ _ _ (h (N + 1) (Nat.le_refl _))

/-! ### one file -/

def memS (S : List (Nat × Nat)) (b P : Nat) : Bool := S.contains (b, P)

theorem memS_append (S : List (Nat × Nat)) (x : Nat × Nat) (b P : Nat) (h : (b, P) ≠ x) :
    memS (S ++ [x]) b P = memS S b P := by
  unfold memS
  rw [List.contains_eq_mem, List.contains_eq_mem]
  simp only [List.mem_append, List.mem_singleton, h, or_false]

/-- the step of the fold in `remapFile` -/
def remapStep (remap : Nat → Option Nat) (imax f : Nat) (acc : Bytes × NMap RecordList) (bp : Nat × Nat) :
    Option (Bytes × NMap RecordList) :=
  if bp.2 = 0 then some acc else
  if (localizeIdx imax bp.2).2 ≠ f then some acc else
  match remapBucket remap acc.1 (localizeIdx imax bp.2).1 with
  | none => none
  | some (file', rm) => some (file', match rm with | some rl => acc.2.set bp.1 rl | none => acc.2)

theorem remapFile_eq (remap : Nat → Option Nat) (imax : Nat) (bk : NMap Nat) (f : Nat) (file : Bytes) :
    remapFile remap imax bk f file = bk.foldlM (remapStep remap imax f) (file, []) := rfl

/-- what `remapFile` needs to know about file `f` (a log of `recs`) and the table -/
structure FileOK (remap : Nat → Option Nat) (imax f : Nat) (recs : List LRec) (bk : List (Nat × Nat)) : Prop where
  keys : (bk.map (·.1)).Nodup
  start : ∀ pre r post, recs = pre ++ r :: post → (logBytes pre).length < imax
  f32 : f < two32
  hmax : 1 ≤ imax
  cur : ∀ b pos, (b, pos) ∈ bk → pos ≠ 0 → (localizeIdx imax pos).2 = f →
    ∃ pre rl post, recs = pre ++ (b, rl) :: post ∧ pos = f * imax + (logBytes pre).length + 4 ∧
      FlushOK rl ∧ rl.all (fun e => (remap e.blk.off).isSome) = true

theorem logBytes_lt_of_split {pre pre1 post1 : List LRec} {r : LRec} (h : pre = pre1 ++ r :: post1) :
    (logBytes pre1).length < (logBytes pre).length := by
  rw [h, logBytes_append, logBytes_cons, List.length_append, List.length_append, idxRecBytes_length]
  omega

theorem remapFile_fold {remap : Nat → Option Nat} {imax f : Nat} {recs : List LRec} {bk : List (Nat × Nat)}
    (hok : FileOK remap imax f recs bk) :
    ∀ (todo done : List (Nat × Nat)), bk = done ++ todo →
      todo.foldlM (remapStep remap imax f)
          (logBytes (rmP (memS done) (remapRL remap) imax f 0 recs), ([] : NMap RecordList)) =
        some (logBytes (rmP (memS (done ++ todo)) (remapRL remap) imax f 0 recs), []) := by
  have hg := encodeRL_remapRL_length remap
  intro todo
  induction todo with
  | nil => intro done _; simp
  | cons x todo ih =>
    intro done hbk
    obtain ⟨b, pos⟩ := x
    have hnext := ih (done ++ [(b, pos)]) (by rw [hbk]; simp)
    have happ : done ++ (b, pos) :: todo = (done ++ [(b, pos)]) ++ todo := by simp
    rw [happ]
    rw [List.foldlM_cons]
    -- positions inside file `f`
    have hposIn : ∀ pre r post, recs = pre ++ r :: post →
        localizeIdx imax (f * imax + (logBytes pre).length + 4) = ((logBytes pre).length + 4, f) :=
      fun pre r post h => localizeIdx_eq hok.hmax (hok.start pre r post h) hok.f32
    by_cases h0 : pos = 0
    · -- empty bucket
      have hskip : remapStep remap imax f
          (logBytes (rmP (memS done) (remapRL remap) imax f 0 recs), []) (b, pos) =
          some (logBytes (rmP (memS done) (remapRL remap) imax f 0 recs), []) := by
        unfold remapStep; simp only [h0, if_true]
      rw [hskip]
      simp only [Option.bind_eq_bind, Option.bind_some]
      have : rmP (memS (done ++ [(b, pos)])) (remapRL remap) imax f 0 recs =
          rmP (memS done) (remapRL remap) imax f 0 recs := by
        apply rmP_congr
        intro pre r post _
        apply memS_append
        intro he
        have := congrArg Prod.snd he
        simp only at this
        omega
      rw [← this]
      exact hnext
    · by_cases hf : (localizeIdx imax pos).2 = f
      · -- the bucket's current list is in this file
        obtain ⟨pre, rl, post, hrecs, hpos, hfl, hall⟩ := hok.cur b pos (by rw [hbk]; simp) h0 hf
        have hnot : memS done b pos = false := by
          unfold memS
          rw [List.contains_eq_mem]
          simp only [decide_eq_false_iff_not]
          intro hm
          have hk := hok.keys
          rw [hbk, List.map_append, List.map_cons] at hk
          have := (List.nodup_append.mp hk).2.2 b (List.mem_map_of_mem (f := (·.1)) hm) b (by simp)
          exact this rfl
        have hcur : rmP (memS done) (remapRL remap) imax f 0 recs =
            rmP (memS done) (remapRL remap) imax f 0 pre ++ (b, rl) ::
              rmP (memS done) (remapRL remap) imax f (0 + (logBytes pre).length + (idxRecBytes b rl).length) post := by
          rw [hrecs]
          apply rmP_split_not
          rw [Nat.zero_add, ← hpos]; exact hnot
        have hlp : (localizeIdx imax pos).1 =
            (logBytes (rmP (memS done) (remapRL remap) imax f 0 pre)).length + 4 := by
          rw [hpos, hposIn pre (b, rl) post hrecs, rmP_logLen hg]
        have hstep : remapStep remap imax f
            (logBytes (rmP (memS done) (remapRL remap) imax f 0 recs), []) (b, pos) =
            some (logBytes (rmP (memS done) (remapRL remap) imax f 0 pre) ++
              idxRecBytes b (remapRL remap rl) ++
              logBytes (rmP (memS done) (remapRL remap) imax f
                (0 + (logBytes pre).length + (idxRecBytes b rl).length) post), []) := by
          unfold remapStep
          simp only [h0, if_false, hf, ne_eq, not_true_eq_false]
          rw [hlp, hcur, logBytes_append, logBytes_cons, ← List.append_assoc,
            remapBucket_at remap _ _ b rl hfl, hall]
          simp
        rw [hstep]
        simp only [Option.bind_eq_bind, Option.bind_some]
        have hnew : rmP (memS (done ++ [(b, pos)])) (remapRL remap) imax f 0 recs =
            rmP (memS done) (remapRL remap) imax f 0 pre ++ (b, remapRL remap rl) ::
              rmP (memS done) (remapRL remap) imax f
                (0 + (logBytes pre).length + (idxRecBytes b rl).length) post := by
          rw [hrecs, rmP_split (p := memS (done ++ [(b, pos)]))]
          · congr 1
            · apply rmP_congr
              intro pre1 r post1 hpre
              apply memS_append
              intro he
              have h2 := congrArg Prod.snd he
              simp only at h2
              have := logBytes_lt_of_split hpre
              rw [hpos] at h2
              omega
            · congr 1
              apply rmP_congr
              intro pre1 r post1 _
              apply memS_append
              intro he
              have h2 := congrArg Prod.snd he
              simp only at h2
              rw [hpos] at h2
              have := idxRecBytes_length b rl
              omega
          · rw [Nat.zero_add, ← hpos]
            unfold memS
            rw [List.contains_eq_mem]
            simp
        rw [hnew] at hnext
        rw [logBytes_append, logBytes_cons, ← List.append_assoc] at hnext
        exact hnext
      · -- the bucket's current list is in another file
        have hskip : remapStep remap imax f
            (logBytes (rmP (memS done) (remapRL remap) imax f 0 recs), []) (b, pos) =
            some (logBytes (rmP (memS done) (remapRL remap) imax f 0 recs), []) := by
          unfold remapStep; simp only [h0, if_false, ne_eq, hf, not_false_eq_true, if_true]
        rw [hskip]
        simp only [Option.bind_eq_bind, Option.bind_some]
        have : rmP (memS (done ++ [(b, pos)])) (remapRL remap) imax f 0 recs =
            rmP (memS done) (remapRL remap) imax f 0 recs := by
          apply rmP_congr
          intro pre r post hsp
          apply memS_append
          intro he
          have h2 := congrArg Prod.snd he
          simp only at h2
          apply hf
          rw [← h2, Nat.zero_add, hposIn pre r post hsp]
        rw [← this]
        exact hnext

/-- `remapFile` on a log: the same records, the ones the table points at rewritten; nothing for the pool -/
theorem remapFile_log {remap : Nat → Option Nat} {imax f : Nat} {recs : List LRec} {bk : NMap Nat}
    (hok : FileOK remap imax f recs bk) :
    remapFile remap imax bk f (logBytes recs) =
      some (logBytes (rmP (memS bk) (remapRL remap) imax f 0 recs), []) := by
  rw [remapFile_eq]
  have h := remapFile_fold hok bk [] (by simp)
  simp only [List.nil_append] at h
  have e : rmP (memS []) (remapRL remap) imax f 0 recs = recs := by
    apply rmP_id
    intro pre r post _ hp
    unfold memS at hp
    simp at hp
  rw [e] at h
  exact h

end Sth
