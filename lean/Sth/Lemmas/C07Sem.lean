/-
C07 — the consistency check in semantic form.

`BucketAt` (a record list tagged with its bucket sits, complete and not deleted, at a table position),
`RecAt` (a primary record of exactly the recorded size sits, complete and not deleted, at a location),
`BucketOK` / `DiskOK` (the clauses of `fsck` as propositions) and the soundness of the executable
checker against them: `DiskOK kind d buckets → fsck kind d buckets = []`.
Core Lean only.
-/
import Sth.Model.Fsck
import Sth.Lemmas.C13

namespace Sth

/-! ### small list facts -/

theorem pairwiseOK_of_pairwise {r : Key → Key → Bool} : ∀ {l : List Key},
    l.Pairwise (fun a c => r a c = true) → pairwiseOK r l = true
  | [], _ => rfl
  | x :: xs, h => by
    rw [List.pairwise_cons] at h
    simp only [pairwiseOK, Bool.and_eq_true, List.all_eq_true]
    exact ⟨h.1, pairwiseOK_of_pairwise h.2⟩

theorem pairwise_of_pairwiseOK {r : Key → Key → Bool} : ∀ {l : List Key},
    pairwiseOK r l = true → l.Pairwise (fun a c => r a c = true)
  | [], _ => List.Pairwise.nil
  | x :: xs, h => by
    simp only [pairwiseOK, Bool.and_eq_true, List.all_eq_true] at h
    exact List.pairwise_cons.mpr ⟨h.1, pairwise_of_pairwiseOK h.2⟩

theorem eraseDups_of_nodup : ∀ {l : List Nat}, l.Nodup → l.eraseDups = l
  | [], _ => rfl
  | a :: as, h => by
    rw [List.nodup_cons] at h
    rw [List.eraseDups_cons]
    have hf : as.filter (fun b => !b == a) = as := by
      rw [List.filter_eq_self]
      intro b hb
      have : b ≠ a := fun e => h.1 (e ▸ hb)
      simpa using this
    rw [hf, eraseDups_of_nodup h.2]

/-! ### a record list at a table position -/

/-- the record `[u32 size][u32 bucket][record list]` of bucket `b` holding `rl` sits in an existing index
    file at or above `first`, its payload starting at table position `pos`; the size field is below the
    deleted bit and the list survives the codec -/
def BucketAt (files : NMap Bytes) (imax first b pos : Nat) (rl : RecordList) : Prop :=
  ∃ f len F g, 1 ≤ imax ∧ len < imax ∧ f < two32 ∧ first ≤ f ∧ pos = f * imax + len + 4 ∧
    files.get? f = some (F ++ idxRecBytes b rl ++ g) ∧ F.length = len ∧
    FlushOK rl ∧ (encodeRL rl).length + 4 < two31 ∧ b < two32

theorem idxRec_read_size (F g : Bytes) (b : Nat) (rl : RecordList)
    (h : (encodeRL rl).length + 4 < two32) :
    readU32 (F ++ idxRecBytes b rl ++ g) F.length = some ((encodeRL rl).length + 4) := by
  have hA : (le32 ((encodeRL rl).length + 4)).length = 4 := leEnc_length 4 _
  unfold readU32
  have e : F ++ idxRecBytes b rl ++ g =
      F ++ le32 ((encodeRL rl).length + 4) ++ (le32 b ++ encodeRL rl ++ g) := by
    unfold idxRecBytes; simp [List.append_assoc]
  have := readAt_at_end F (le32 ((encodeRL rl).length + 4)) (le32 b ++ encodeRL rl ++ g)
  rw [hA] at this
  rw [e, this]
  simp only [Option.map_some]
  unfold le32
  rw [leDec_leEnc 4 _ (by unfold two32 at h; omega)]

theorem idxRec_read_data (F g : Bytes) (b : Nat) (rl : RecordList) :
    readAt (F ++ idxRecBytes b rl ++ g) (F.length + 4) ((encodeRL rl).length + 4) =
      some (le32 b ++ encodeRL rl) := by
  have hA : (le32 ((encodeRL rl).length + 4)).length = 4 := leEnc_length 4 _
  have hB : (le32 b).length = 4 := leEnc_length 4 _
  have e : F ++ idxRecBytes b rl ++ g =
      (F ++ le32 ((encodeRL rl).length + 4)) ++ (le32 b ++ encodeRL rl) ++ g := by
    unfold idxRecBytes; simp [List.append_assoc]
  have := readAt_at_end (F ++ le32 ((encodeRL rl).length + 4)) (le32 b ++ encodeRL rl) g
  have e1 : (F ++ le32 ((encodeRL rl).length + 4)).length = F.length + 4 := by simp [hA]
  have e2 : (le32 b ++ encodeRL rl).length = (encodeRL rl).length + 4 := by simp [hB]; omega
  rw [e1, e2] at this
  rw [e]
  exact this

theorem decodeRL_encode {rl : RecordList}
    (h : ∀ e ∈ rl, e.pfx.length < 256 ∧ e.blk.off < two64 ∧ e.blk.size < two32) :
    decodeRL (encodeRL rl) = (rl, true) := by
  unfold decodeRL
  rw [decodeAux_encode rl ((encodeRL rl).length + 1) [] h
    (by have := encodeRL_length_ge rl; omega)]
  simp

/-- clause 1 of the checker accepts a record list that sits at the position -/
theorem fsckBucket_of_at {d : Disk} {imax first b pos : Nat} {rl : RecordList}
    (h : BucketAt d.ifiles imax first b pos rl) : fsckBucket d imax first b pos = .ok rl := by
  obtain ⟨f, len, F, g, hp, hl, hf, hfirst, rfl, hfile, hF, hok, h31, hb⟩ := h
  subst hF
  have hB : (le32 b).length = 4 := leEnc_length 4 _
  have hdec : leDec (le32 b) = b := by
    unfold le32; exact leDec_leEnc 4 _ (by unfold two32 at hb; omega)
  unfold fsckBucket
  simp only [localizeIdx_eq hp hl hf, hfile]
  rw [if_neg (by omega)]
  simp only [Nat.add_sub_cancel, idxRec_read_size F g b rl hok.2]
  rw [if_neg (by omega)]
  simp only [idxRec_read_data, List.take_left' hB, List.drop_left' hB, hdec, decodeRL_encode hok.1]
  simp

theorem readDiskBucket_of_at {files : NMap Bytes} {imax first b pos : Nat} {rl : RecordList}
    (h : BucketAt files imax first b pos rl) : readDiskBucket files imax pos = .ok (some rl) := by
  obtain ⟨f, len, F, g, hp, hl, hf, _, rfl, hfile, hF, hok, _, _⟩ := h
  exact readDiskBucket_new hp hl hf hfile hF hok

theorem BucketAt.mono {files files' : NMap Bytes} {imax first b pos : Nat} {rl : RecordList}
    (h : BucketAt files imax first b pos rl) (hx : FilesExt files files') :
    BucketAt files' imax first b pos rl := by
  obtain ⟨f, len, F, g, hp, hl, hf, h0, hpos, hfile, hF, hok, h31, hb⟩ := h
  obtain ⟨g', hg'⟩ := hx f _ hfile
  exact ⟨f, len, F, g ++ g', hp, hl, hf, h0, hpos, by rw [hg']; simp [List.append_assoc], hF, hok, h31, hb⟩

theorem BucketAt.congr {files files' : NMap Bytes} {imax first b pos : Nat} {rl : RecordList}
    (h : BucketAt files imax first b pos rl) (hx : ∀ f, files'.get? f = files.get? f) :
    BucketAt files' imax first b pos rl := by
  obtain ⟨f, len, F, g, hp, hl, hf, h0, hpos, hfile, hF, hok, h31, hb⟩ := h
  exact ⟨f, len, F, g, hp, hl, hf, h0, hpos, by rw [hx]; exact hfile, hF, hok, h31, hb⟩

/-- the payload position is never the "empty bucket" value -/
theorem BucketAt.pos_ne_zero {files : NMap Bytes} {imax first b pos : Nat} {rl : RecordList}
    (h : BucketAt files imax first b pos rl) : pos ≠ 0 := by
  obtain ⟨f, len, F, g, _, _, _, _, rfl, _⟩ := h
  omega

/-! ### a primary record at a location -/

/-- the record `[u32 size][key][value]` sits at location `blk.off` (multihash primary: in an existing
    file at or above `pfirst`), its size field equals `blk.size` (so it is below the deleted bit) and
    its bytes parse back as `key`, `val` -/
def RecAt (kind : PKind) (pmax pfirst : Nat) (d : Disk) (blk : Block) (key val : Bytes) : Prop :=
  blk.size = key.length + val.length ∧ RecOK kind ⟨blk, key, val⟩ ∧
  match kind with
  | .mh => ∃ f lp F g, 1 ≤ pmax ∧ lp < pmax ∧ f < two32 ∧ pfirst ≤ f ∧ blk.off = pmax * f + lp ∧
      d.pfiles.get? f = some (F ++ recBytes ⟨blk, key, val⟩ ++ g) ∧ F.length = lp
  | .cid => ∃ F g, d.cidfile = some (F ++ recBytes ⟨blk, key, val⟩ ++ g) ∧ blk.off = F.length

theorem rec_read (F g : Bytes) (r : PRec) :
    readAt (F ++ recBytes r ++ g) F.length (r.key.length + r.val.length + 4) = some (recBytes r) := by
  have := readAt_at_end F (recBytes r) g
  rw [recBytes_length] at this
  rw [← this]
  congr 1
  omega

/-- the primary reads such a record -/
theorem RecAt.diskRead {kind : PKind} {pmax pfirst : Nat} {d : Disk} {blk : Block} {key val : Bytes}
    (h : RecAt kind pmax pfirst d blk key val) : diskRead kind pmax d blk = .got key val := by
  obtain ⟨hs, hr, h⟩ := h
  cases kind with
  | mh =>
    obtain ⟨f, lp, F, g, hp, hl, hf, _, hoff, hfile, hF⟩ := h
    exact diskRead_mh_new (r := ⟨blk, key, val⟩) hp hl hf
      (by cases blk; simp only at hoff hs; simp only [hoff, hs]) hfile hF hr
  | cid =>
    obtain ⟨F, g, hfile, hoff⟩ := h
    exact diskRead_cid_new (r := ⟨blk, key, val⟩)
      (by cases blk; simp only at hoff hs; simp only [hoff, hs]) hfile hr

/-- clause 2 of the checker accepts an entry whose record sits at its location and carries the bucket
    bits and the stored prefix -/
theorem fsckEntry_of_at {kind : PKind} {d : Disk} {bits pmax pfirst b : Nat} {e : Entry}
    {key val dig : Bytes} (h : RecAt kind pmax pfirst d e.blk key val)
    (hik : indexKeyOf kind key = some dig) (hb : bucketOfKey bits dig = some b)
    (hne : e.pfx ≠ []) (hp : pfx e.pfx (dig.drop (bits / 8))) :
    fsckEntry kind d bits pmax pfirst b e = none := by
  obtain ⟨hs, hr, h⟩ := h
  obtain ⟨p1, p2⟩ := recBytes_parse hr
  have hstrip : (stripKey bits dig).getD [] = dig.drop (bits / 8) := by
    unfold stripKey
    split
    · rename_i hlt
      have : dig.drop (bits / 8) = [] := List.drop_eq_nil_of_le (by omega)
      rw [this]; rfl
    · rfl
  have hcond : ¬ (e.pfx.isEmpty = true ∨ (!decide (pfx e.pfx ((stripKey bits dig).getD []))) = true) := by
    rw [hstrip]
    intro hc
    rcases hc with hc | hc
    · exact hne (List.isEmpty_iff.mp hc)
    · simp [hp] at hc
  cases kind with
  | cid =>
    obtain ⟨F, g, hfile, hoff⟩ := h
    have hread : readAt (F ++ recBytes ⟨e.blk, key, val⟩ ++ g) e.blk.off (e.blk.size + 4) =
        some (recBytes ⟨e.blk, key, val⟩) := by
      rw [hoff, hs]; exact rec_read F g ⟨e.blk, key, val⟩
    unfold fsckEntry
    simp only [hfile, hread, p1, p2, hik, hb]
    rw [if_neg (by simp [hs]), if_neg (by simp), if_neg hcond]
  | mh =>
    obtain ⟨f, lp, F, g, hpm, hl, hf, hfirst, hoff, hfile, hF⟩ := h
    subst hF
    have hread : readAt (F ++ recBytes ⟨e.blk, key, val⟩ ++ g) F.length (e.blk.size + 4) =
        some (recBytes ⟨e.blk, key, val⟩) := by
      rw [hs]; exact rec_read F g ⟨e.blk, key, val⟩
    have h31 : key.length + val.length < two31 := hr.2
    unfold fsckEntry
    simp only [hoff, localizePri_eq hpm hl hf, hfile, hread, p1, p2, hik, hb]
    rw [if_neg (by omega), if_neg (by omega), if_neg (by simp [hs]), if_neg (by simp), if_neg hcond]

theorem RecAt.mono_mh {pmax pfirst : Nat} {d d' : Disk} {blk : Block} {key val : Bytes}
    (h : RecAt .mh pmax pfirst d blk key val) (hx : FilesExt d.pfiles d'.pfiles) :
    RecAt .mh pmax pfirst d' blk key val := by
  obtain ⟨hs, hr, f, lp, F, g, hp, hl, hf, h0, hoff, hfile, hF⟩ := h
  obtain ⟨g', hg'⟩ := hx f _ hfile
  exact ⟨hs, hr, f, lp, F, g ++ g', hp, hl, hf, h0, hoff, by rw [hg']; simp [List.append_assoc], hF⟩

theorem RecAt.mono_cid {pmax pfirst : Nat} {d d' : Disk} {blk : Block} {key val : Bytes}
    (h : RecAt .cid pmax pfirst d blk key val)
    (hx : ∀ file, d.cidfile = some file → ∃ g, d'.cidfile = some (file ++ g)) :
    RecAt .cid pmax pfirst d' blk key val := by
  obtain ⟨hs, hr, F, g, hfile, hoff⟩ := h
  obtain ⟨g', hg'⟩ := hx _ hfile
  exact ⟨hs, hr, F, g ++ g', by rw [hg']; simp [List.append_assoc], hoff⟩

/-- a location holds one record: the offset determines the size -/
theorem RecAt.size_eq {kind : PKind} {pmax pfirst : Nat} {d : Disk} {blk blk' : Block}
    {k v k' v' : Bytes} (h : RecAt kind pmax pfirst d blk k v) (h' : RecAt kind pmax pfirst d blk' k' v')
    (ho : blk.off = blk'.off) : blk.size = blk'.size := by
  obtain ⟨hs, hr, h⟩ := h
  obtain ⟨hs', hr', h'⟩ := h'
  have key : ∀ (F F' g g' : Bytes), F.length = F'.length →
      F ++ recBytes ⟨blk, k, v⟩ ++ g = F' ++ recBytes ⟨blk', k', v'⟩ ++ g' →
      k.length + v.length = k'.length + v'.length := by
    intro F F' g g' hl he
    rw [List.append_assoc, List.append_assoc] at he
    have h1 := (List.append_inj he hl).2
    unfold recBytes at h1
    simp only [List.append_assoc] at h1
    have h2 := (List.append_inj h1 (by simp [le32, leEnc_length])).1
    have a : k.length + v.length < two31 := hr.2
    have a' : k'.length + v'.length < two31 := hr'.2
    have e1 : leDec (le32 (k.length + v.length)) = k.length + v.length := by
      unfold le32; exact leDec_leEnc 4 _ (by unfold two31 at a; omega)
    have e2 : leDec (le32 (k'.length + v'.length)) = k'.length + v'.length := by
      unfold le32; exact leDec_leEnc 4 _ (by unfold two31 at a'; omega)
    have h2' : le32 (k.length + v.length) = le32 (k'.length + v'.length) := h2
    rw [← e1, ← e2, h2']
  cases kind with
  | mh =>
    obtain ⟨f, lp, F, g, hp, hl, hf, _, hoff, hfile, hF⟩ := h
    obtain ⟨f', lp', F', g', _, hl', _, _, hoff', hfile', hF'⟩ := h'
    rw [hoff, hoff'] at ho
    obtain ⟨rfl, rfl⟩ := divmod_unique ho hl hl'
    rw [hfile] at hfile'
    simp only [Option.some.injEq] at hfile'
    rw [hs, hs']
    exact key F F' g g' (by rw [hF, hF']) hfile'
  | cid =>
    obtain ⟨F, g, hfile, hoff⟩ := h
    obtain ⟨F', g', hfile', hoff'⟩ := h'
    rw [hfile] at hfile'
    simp only [Option.some.injEq] at hfile'
    rw [hs, hs']
    exact key F F' g g' (by rw [← hoff, ← hoff', ho]) hfile'

/-! ### the clauses as propositions -/

/-- the entries of the GC's freelist work file -/
def flGcEntries (d : Disk) : List Block :=
  (parseFreeList ((d.freeGc.getD []).length + 1) (d.freeGc.getD []) []).1

def hdrPmax (d : Disk) : Nat := match d.phdr with | some h => h.max | none => 0
def hdrPfirst (d : Disk) : Nat := match d.phdr with | some h => h.first | none => 0

/-- the clauses of the check for one non-empty bucket `b ↦ pos` -/
structure BucketOK (kind : PKind) (d : Disk) (ih : IdxHeader) (b pos : Nat) (rl : RecordList) :
    Prop where
  /-- the bucket points at a complete, non-deleted record list tagged with the bucket, inside an existing
      index file at or above the header's first file -/
  loc : BucketAt d.ifiles ih.max ih.first b pos rl
  sorted : (rl.map (·.pfx)).Pairwise klt
  prefixFree : (rl.map (·.pfx)).Pairwise apart
  /-- no two entries name the same location -/
  distinct : (rl.map (·.blk.off)).Nodup
  /-- every entry names a complete, non-deleted primary record of exactly the recorded size whose key
      falls in the bucket and extends the (non-empty) stored prefix -/
  entries : ∀ e ∈ rl, ∃ key val dig, RecAt kind (hdrPmax d) (hdrPfirst d) d e.blk key val ∧
    indexKeyOf kind key = some dig ∧ bucketOfKey ih.bits dig = some b ∧ e.pfx ≠ [] ∧
    pfx e.pfx (dig.drop (ih.bits / 8))
  /-- no location named by an entry is on the freelist (file or GC work file) -/
  notFree : ∀ e ∈ rl, ∀ fb ∈ flEntries d ++ flGcEntries d, fb.off ≠ e.blk.off

/-- the on-disk files are mutually consistent with the bucket table `buckets` -/
structure DiskOK (kind : PKind) (d : Disk) (buckets : NMap Nat) : Prop where
  ihdr : d.ihdr ≠ none
  phdr : kind = .mh → d.phdr ≠ none
  buckets : ∀ ih, d.ihdr = some ih → ∀ b pos, (b, pos) ∈ buckets → pos ≠ 0 →
    ∃ rl, BucketOK kind d ih b pos rl

/-- soundness of the executable checker: a consistent disk passes -/
theorem fsck_of_diskOK {kind : PKind} {d : Disk} {buckets : NMap Nat} (h : DiskOK kind d buckets) :
    fsck kind d buckets = [] := by
  cases hih : d.ihdr with
  | none => exact absurd hih h.ihdr
  | some ih =>
    unfold fsck
    simp only [hih]
    have hh : ¬ (kind = .mh ∧ d.phdr.isNone = true) := by
      rintro ⟨hk, hn⟩
      cases hp : d.phdr with
      | none => exact h.phdr hk hp
      | some _ => rw [hp] at hn; cases hn
    rw [if_neg hh, List.nil_append, List.flatMap_eq_nil_iff]
    rintro ⟨b, pos⟩ hx
    have hx' := List.mem_filter.mp hx
    obtain ⟨rl, hok⟩ := h.buckets ih hih b pos hx'.1 (by simpa using hx'.2)
    simp only [fsckBucket_of_at hok.loc]
    have c1 : pairwiseOK (fun a c => decide (klt a c)) (rl.map (·.pfx)) = true :=
      pairwiseOK_of_pairwise (hok.sorted.imp (fun h => by simpa using h))
    have c2 : pairwiseOK (fun a c => decide (apart a c)) (rl.map (·.pfx)) = true :=
      pairwiseOK_of_pairwise (hok.prefixFree.imp (fun h => by simpa using h))
    have c3 : (rl.map (·.blk.off)).eraseDups.length = rl.length := by
      rw [eraseDups_of_nodup hok.distinct, List.length_map]
    have c4 : (rl.filter fun e => !([] : List Nat).contains e.blk.off).filterMap
        (fsckEntry kind d ih.bits (hdrPmax d) (hdrPfirst d) b) = [] := by
      rw [List.filterMap_eq_nil_iff]
      intro e he
      obtain ⟨key, val, dig, a1, a2, a3, a4, a5⟩ := hok.entries e (List.mem_filter.mp he).1
      exact fsckEntry_of_at a1 a2 a3 a4 a5
    have c5 : (rl.filterMap fun e =>
        if (flEntries d ++ flGcEntries d).any (fun fb => fb.off = e.blk.off) = true then
          some s!"location {e.blk.off}:{e.blk.size} is on the freelist but named by a live entry of bucket {b}"
        else none) = [] := by
      rw [List.filterMap_eq_nil_iff]
      intro e he
      rw [if_neg]
      intro hany
      obtain ⟨fb, hfb, heq⟩ := List.any_eq_true.mp hany
      exact hok.notFree e he fb hfb (by simpa using heq)
    unfold hdrPmax hdrPfirst flEntries flGcEntries at *
    simp only [c1, c2, c3, c5, if_true, List.append_nil, List.nil_append]
    exact c4

end Sth
