/-
C03/C09, crashes while the re-bucketing of OpenStore runs — the steps of Sth/Model/CrashImageOpen.lean
`translateSteps` on the cleanly closed directory of a reachable state: before the first move the
directory is the closed directory itself (with or without its snapshot); from the arrival of the new
header on, OpenStore recovers from it exactly what it recovers from the directory `translateIndex`
returns.
Core Lean only.
-/
import Sth.Lemmas.C03Open
import Sth.Lemmas.C09

namespace Sth.C03O

/-! ### a plain index log (C02's description) as a span log -/

theorem le32_len (n : Nat) : (le32 n).length = 4 := leEnc_length 4 n

theorem leDec_le32_lt (n : Nat) (h : n < two32) : leDec (le32 n) = n := by
  unfold le32; exact leDec_leEnc 4 n (by unfold two32 at h; omega)

/-- an index record as a span -/
def recSpan (r : LRec) : GSpan := ⟨false, le32 r.1 ++ encodeRL r.2⟩

theorem recSpan_bytes (r : LRec) : (recSpan r).bytes = idxRecBytes r.1 r.2 := by
  unfold recSpan GSpan.bytes GSpan.raw idxRecBytes
  simp only [Bool.false_eq_true, if_false, Nat.add_zero, List.length_append, le32_len,
    List.append_assoc]
  rw [Nat.add_comm 4]

theorem gbytes_recSpans (rs : List LRec) : gbytes (rs.map recSpan) = logBytes rs := by
  induction rs with
  | nil => rfl
  | cons r rs ih =>
    rw [List.map_cons, gbytes_cons, logBytes_cons, ih, recSpan_bytes]

theorem recSpan_ok {bits : Nat} (h31 : bits ≤ 31) {r : LRec} (h : RecLogOK bits r) :
    IdxSpanOK bits (recSpan r) := by
  obtain ⟨h1, h2⟩ := h
  have hlt : r.1 < two32 := by
    have : 2 ^ bits ≤ 2 ^ 31 := Nat.pow_le_pow_right (by omega) h31
    unfold two32; omega
  refine ⟨?_, fun _ => ?_⟩
  · show (le32 r.1 ++ encodeRL r.2).length < two31
    rw [List.length_append, le32_len]; omega
  · show leDec ((le32 r.1 ++ encodeRL r.2).take 4) < 2 ^ bits
    have : (le32 r.1 ++ encodeRL r.2).take 4 = le32 r.1 := by
      rw [List.take_append_of_le_length (by rw [le32_len]; omega)]
      rw [← le32_len r.1, List.take_length]
    rw [this, leDec_le32_lt _ hlt]
    exact h1

section
variable {c : Cfg} {U : List (Bytes × Bytes)} {spec : Spec} {n B : Nat} {cfg : Cfg} {m : Mem}
  {d : Disk}

/-- a state satisfying the C01/C02 invariants has a disk of the shape (no torn tails), with any freelist
    and with no snapshot or the snapshot Close saves from its table -/
theorem xinv_openShape (hc : c.Legal) (hI : Inv c U ⟨cfg, m, d⟩ spec n B) (hX : XInv c ⟨cfg, m, d⟩)
    (fr : Option Bytes) (osn : Option Snap)
    (hsn : osn = none ∨ osn = some ⟨8 * 2 ^ m.bits, m.buckets.filter (·.2 ≠ 0)⟩) :
    ∃ sp, OpenShape c { d with snap := osn, free := fr } 0 m.pfileNum 0 m.ifileNum sp
      (fun _ => []) := by
  have hIi : IInv m d := hI.i
  have hkind : m.kind = c.kind := hI.kind
  have hbits : m.bits = c.bits := hX.bits
  have himax : m.imax = c.ifs := hX.imax
  obtain ⟨lg, hl⟩ := hX.log
  have hfiles : ∀ f, 0 ≤ f → f ≤ m.ifileNum →
      d.ifiles.get? f = some (gbytes ((lg f).map recSpan) ++ []) := by
    intro f _ hf
    rw [List.append_nil, gbytes_recSpans]
    exact hl.files f hf
  have hok : ∀ f, 0 ≤ f → f ≤ m.ifileNum → ∀ s ∈ (lg f).map recSpan, IdxSpanOK c.bits s := by
    intro f _ hf s hs
    obtain ⟨r, hr, rfl⟩ := List.mem_map.mp hs
    have := hl.recs f hf r hr
    rw [hbits] at this
    exact recSpan_ok hc.2.1 this
  have hno : d.ifiles.get? (m.ifileNum + 1) = none := hIi.noFiles _ (Nat.lt_succ_self _)
  refine ⟨fun f => (lg f).map recSpan, hX.ihdr, hX.phdr, fun _ => Nat.zero_le _,
    fun hk f _ hf => hX.pall hk f hf,
    fun hk => (hI.p.mh (by rw [hkind]; exact hk)).2.2 _ (Nat.lt_succ_self _), Nat.zero_le _, hfiles,
    hno, hok, fun _ _ _ => isTorn_nil _, ?_⟩
  intro sn hsn' _
  have hsn'' : osn = some sn := hsn'
  rcases hsn with h0 | h0
  · rw [h0] at hsn''; cases hsn''
  · rw [h0] at hsn''
    cases hsn''
    refine ⟨fun _ _ _ => rfl, ?_⟩
    intro b
    show (NMap.get? (m.buckets.filter (·.2 ≠ 0)) b).getD 0 = scanTbl c _ 0 m.ifileNum b
    rw [NMap.get?_filter_nz hIi.sorted b, hl.table b, himax]
    -- both tables are what `scanIndex` computes on these files
    obtain ⟨f1, s1, _⟩ := scanIndex_log (max := c.ifs) hc.2.1
      (fun f hf => hl.files f hf) hno (fun f hf r hr => by
        have := hl.recs f hf r hr
        rw [hbits] at this; exact this)
    obtain ⟨f2, s2, _⟩ := scanIndex_spans_torn (max := c.ifs) (junk := fun _ => []) hc.2.1
      (Nat.zero_le m.ifileNum) hfiles hno hok (fun _ _ _ => isTorn_nil _)
    rw [s1] at s2
    simp only [Option.some.injEq, Prod.mk.injEq] at s2
    unfold scanTbl
    rw [← s2.2.1]

end

/-! ### the files index.MoveFiles goes through -/

theorem fileRun_go_eq (files : NMap Bytes) (fuel n : Nat) :
    fileRun.go files (fuel + 1) n = if files.has n then n :: fileRun.go files fuel (n + 1) else [] := rfl

theorem mem_fileRun_go {files : NMap Bytes} {first N : Nat}
    (hall : ∀ f, first ≤ f → f ≤ N → files.get? f ≠ none) (hno : files.get? (N + 1) = none) :
    ∀ (k n fuel : Nat), first ≤ n → n + k = N + 1 → k + 1 ≤ fuel →
      ∀ f, f ∈ fileRun.go files fuel n ↔ (n ≤ f ∧ f ≤ N)
  | 0, n, fuel, _, hn, hf => by
    obtain ⟨fu, rfl⟩ : ∃ fu, fuel = fu + 1 := ⟨fuel - 1, by omega⟩
    have : n = N + 1 := by omega
    subst this
    have hh : files.has (N + 1) = false := by unfold NMap.has; rw [hno]; rfl
    intro f
    rw [fileRun_go_eq, hh]
    simp only [Bool.false_eq_true, if_false, List.not_mem_nil, false_iff]
    omega
  | k + 1, n, fuel, hn1, hn, hf => by
    obtain ⟨fu, rfl⟩ : ∃ fu, fuel = fu + 1 := ⟨fuel - 1, by omega⟩
    have hh : files.has n = true := has_eq_true (hall n hn1 (by omega))
    intro f
    rw [fileRun_go_eq, hh]
    simp only [if_true, List.mem_cons]
    rw [mem_fileRun_go hall hno k (n + 1) fu (by omega) (by omega) (by omega) f]
    omega

/-- the run of existing files from `first` is `first..N` -/
theorem mem_fileRun {files : NMap Bytes} {first N : Nat} (hle : first ≤ N + 1)
    (hall : ∀ f, first ≤ f → f ≤ N → files.get? f ≠ none) (hno : files.get? (N + 1) = none) (f : Nat) :
    f ∈ fileRun files first ↔ (first ≤ f ∧ f ≤ N) := by
  have hlen := NMap.length_ge_interval (N + 1 - first) first files (fun f h1 h2 => hall f h1 (by omega))
  unfold fileRun
  exact mem_fileRun_go hall hno (N + 1 - first) first (files.length + 1) (Nat.le_refl _) (by omega)
    (by omega) f

theorem get?_delFiles : ∀ (ns : List Nat) (files : NMap Bytes) (f : Nat),
    (delFiles files ns).get? f = if f ∈ ns then none else files.get? f
  | [], _, _ => by simp [delFiles]
  | n :: ns, files, f => by
    have ih := get?_delFiles ns (files.del n) f
    unfold delFiles at ih ⊢
    rw [List.foldl_cons, ih]
    by_cases hfn : f = n
    · subst hfn
      simp only [List.mem_cons, true_or, if_true]
      split
      · rfl
      · exact NMap.get?_del_eq files f
    · rw [NMap.get?_del_ne files hfn]
      simp only [List.mem_cons, hfn, false_or]

theorem get?_putFiles (src : NMap Bytes) : ∀ (ns : List Nat) (files : NMap Bytes) (f : Nat),
    (putFiles files src ns).get? f = if f ∈ ns then some (fileOf src f) else files.get? f
  | [], _, _ => by simp [putFiles]
  | n :: ns, files, f => by
    have ih := get?_putFiles src ns (files.set n (fileOf src n)) f
    unfold putFiles at ih ⊢
    rw [List.foldl_cons, ih]
    by_cases hfn : f = n
    · subst hfn
      simp only [List.mem_cons, true_or, if_true]
      split
      · rfl
      · rw [NMap.get?_set]; simp
    · have e : (files.set n (fileOf src n)).get? f = files.get? f := by
        rw [NMap.get?_set]
        split
        · rename_i h; exact absurd h hfn
        · rfl
      rw [e]
      simp only [List.mem_cons, hfn, false_or]

/-! ### the steps, classified -/

/-- the index directory from the arrival of the new header on: old files out, new files in, new header;
    `sn` = the new snapshot once it has arrived -/
def lateMain (h : IdxHeader) (d : Disk) (ifiles : NMap Bytes) (dT : Disk) (sn : Option Snap) : Disk :=
  { d with ifiles := putFiles (delFiles ifiles (fileRun ifiles h.first)) dT.ifiles (fileRun dT.ifiles 0),
           ihdr := dT.ihdr, snap := sn }

/-- every step is in the D13 window, or before the first move (the directory is the one the translation
    started from, the old index's snapshot removed or saved again), or after the arrival of the new header -/
theorem transStepsOf_mem {h : IdxHeader} {d : Disk} {ifiles : NMap Bytes} {bk : NMap Nat} {dT : Disk}
    {st : TransStep} {td : TransDir} (hm : (st, td) ∈ transStepsOf h d ifiles bk dT) :
    st.inWindow = true ∨
    ((st = .oldOpened ∨ st = .newClosed) ∧ td.main = { d with snap := none, ifiles := ifiles }) ∨
    (st = .oldClosed ∧
      td.main = { d with snap := some ⟨8 * 2 ^ h.bits, bk.filter (·.2 ≠ 0)⟩, ifiles := ifiles }) ∨
    (st = .newHeaderMoved ∧ td.main = lateMain h d ifiles dT none) ∨
    ((st = .newMoved ∨ st = .oldRemoved) ∧ td.main = lateMain h d ifiles dT dT.snap) := by
  unfold transStepsOf at hm
  simp only [List.mem_append, List.mem_cons, List.mem_map, List.mem_range, Prod.mk.injEq,
    List.not_mem_nil, or_false] at hm
  rcases hm with (((hm | hm) | hm) | hm) | hm
  · rcases hm with ⟨rfl, rfl⟩ | ⟨rfl, rfl⟩ | ⟨rfl, rfl⟩
    · exact Or.inr (Or.inl ⟨Or.inl rfl, rfl⟩)
    · exact Or.inr (Or.inl ⟨Or.inr rfl, rfl⟩)
    · exact Or.inr (Or.inr (Or.inl ⟨rfl, rfl⟩))
  · obtain ⟨i, _, rfl, _⟩ := hm
    exact Or.inl rfl
  · rcases hm with ⟨rfl, _⟩ | ⟨rfl, _⟩ <;> exact Or.inl rfl
  · obtain ⟨i, _, rfl, _⟩ := hm
    exact Or.inl rfl
  · rcases hm with ⟨rfl, rfl⟩ | ⟨rfl, rfl⟩ | ⟨rfl, rfl⟩
    · refine Or.inr (Or.inr (Or.inr (Or.inl ⟨rfl, ?_⟩)))
      simp only [lateMain, List.take_length]
    · refine Or.inr (Or.inr (Or.inr (Or.inr ⟨Or.inl rfl, ?_⟩)))
      simp only [lateMain, List.take_length]
    · refine Or.inr (Or.inr (Or.inr (Or.inr ⟨Or.inr rfl, ?_⟩)))
      simp only [lateMain, List.take_length]

/-! ### loading the old index from the closed directory, exactly -/

theorem get?_filter_nz_ne : ∀ {m : NMap Nat} {b v : Nat},
    NMap.get? (m.filter (·.2 ≠ 0)) b = some v → v ≠ 0
  | [], _, _, h => by cases h
  | (k, w) :: rest, b, v, h => by
    simp only [List.filter_cons] at h
    by_cases hw : w = 0
    · simp only [hw, ne_eq, not_true_eq_false, decide_false, Bool.false_eq_true, if_false] at h
      exact get?_filter_nz_ne h
    · simp only [ne_eq, hw, not_false_eq_true, decide_true, if_true] at h
      rw [NMap.get?_cons] at h
      split at h
      · cases h; exact hw
      · exact get?_filter_nz_ne h

/-- sorted tables that map every bucket to the same position have the same non-zero entries -/
theorem filter_nz_eq {x y : NMap Nat} (hx : NMap.Sorted x) (hy : NMap.Sorted y)
    (h : ∀ b, (x.get? b).getD 0 = (y.get? b).getD 0) :
    x.filter (·.2 ≠ 0) = y.filter (·.2 ≠ 0) := by
  apply NMap.ext_sorted (NMap.sorted_filter _ hx) (NMap.sorted_filter _ hy)
  intro b
  have e : (NMap.get? (x.filter (·.2 ≠ 0)) b).getD 0 = (NMap.get? (y.filter (·.2 ≠ 0)) b).getD 0 := by
    rw [NMap.get?_filter_nz hx b, NMap.get?_filter_nz hy b]; exact h b
  cases hxb : NMap.get? (x.filter (·.2 ≠ 0)) b with
  | none =>
    cases hyb : NMap.get? (y.filter (·.2 ≠ 0)) b with
    | none => rfl
    | some w =>
      rw [hxb, hyb] at e
      simp only [Option.getD_none, Option.getD_some] at e
      exact absurd e.symm (get?_filter_nz_ne hyb)
  | some v =>
    cases hyb : NMap.get? (y.filter (·.2 ≠ 0)) b with
    | none =>
      rw [hxb, hyb] at e
      simp only [Option.getD_none, Option.getD_some] at e
      exact absurd e (get?_filter_nz_ne hxb)
    | some w =>
      rw [hxb, hyb] at e
      simp only [Option.getD_some] at e
      rw [e]

section
variable {c c' : Cfg} {U : List (Bytes × Bytes)} {spec : Spec} {n B : Nat} {m2 : Mem} {d2 d : Disk}

open C09 in
/-- the old index as `translateIndex` loads it from the closed directory: the files as they are, and a
    table with the non-zero entries of the table Close saved -/
theorem load_exact (hc : c.Legal) (hC : Closed c U spec n B m2 d2 d) (hsi : NMap.Sorted d.ifiles) :
    ∃ bk, loadOld d c.bits c.ifs 0 = some (d.ifiles, bk) ∧
      bk.filter (·.2 ≠ 0) = m2.buckets.filter (·.2 ≠ 0) := by
  have hIi : IInv m2 d2 := hC.inv.i
  have hbits : m2.bits = c.bits := hC.xinv.bits
  rcases hC.snap with hs | hs
  · refine ⟨m2.buckets.filter (·.2 ≠ 0), ?_, ?_⟩
    · unfold loadOld
      simp only [hs, hbits, beq_self_eq_true, if_true, Option.map_some, Option.getD_some]
    · rw [List.filter_filter]
      congr 1
      funext a
      simp
  · obtain ⟨lg, hl⟩ := hC.xinv.log
    have hlf : ∀ f, f ≤ m2.ifileNum → d.ifiles.get? f = some (logBytes (lg f)) := by
      intro f hf; rw [hC.ifiles]; exact hl.files f hf
    have hlr : ∀ f, f ≤ m2.ifileNum → ∀ r ∈ lg f, RecLogOK c.bits r := by
      intro f hf r hr
      have := hl.recs f hf r hr
      rw [← hbits]; exact this
    have hino : d.ifiles.get? (m2.ifileNum + 1) = none := by
      rw [hC.ifiles]; exact hIi.noFiles _ (by omega)
    obtain ⟨files', s1, s2⟩ := scanIndex_log (max := c.ifs) hc.2.1 hlf hino hlr
    have hfe : files' = d.ifiles := NMap.ext_sorted (scanIndex_sorted hsi s1) hsi s2
    subst hfe
    refine ⟨scanTo c.ifs lg m2.ifileNum, ?_, ?_⟩
    · unfold loadOld
      simp only [hs, Bool.false_eq_true, if_false, s1, Option.map_some]
    · apply filter_nz_eq (scanTo_sorted _ _ _) hIi.sorted
      intro b
      have := hl.table b
      have e : m2.imax = c.ifs := hC.xinv.imax
      rw [e] at this
      exact this.symm

end

/-! ### the shape under a change of the representation of the index file map -/

theorem OpenShape.congr {c : Cfg} {d d' : Disk} {pf Pm first M : Nat} {sp : Nat → List GSpan}
    {junk : Nat → Bytes} (h : OpenShape c d pf Pm first M sp junk) (e1 : d'.ihdr = d.ihdr)
    (e2 : d'.phdr = d.phdr) (e3 : d'.pfiles = d.pfiles) (e4 : ∀ f, d'.ifiles.get? f = d.ifiles.get? f)
    (e5 : d'.snap = d.snap ∨ d'.snap = none) : OpenShape c d' pf Pm first M sp junk := by
  refine ⟨by rw [e1]; exact h.ihdr, fun hk => by rw [e2]; exact h.phdr hk, h.ple,
    fun hk f a b => by rw [e3]; exact h.pall hk f a b, fun hk => by rw [e3]; exact h.pno hk, h.fM,
    fun f a b => by rw [e4]; exact h.files f a b, by rw [e4]; exact h.noI, h.ok, h.torn, ?_⟩
  intro sn hsn
  rcases e5 with e | e
  · rw [e] at hsn; exact h.snap sn hsn
  · rw [e] at hsn; cases hsn

/-- the directory `translateIndex` returns: new files, new header, new snapshot -/
abbrev trDisk (c' : Cfg) (d : Disk) (files : NMap Bytes) (bk : NMap Nat) : Disk :=
  { d with ifiles := files, ihdr := some ⟨c'.bits, c'.ifs, 0, hdrPfs c'⟩,
           snap := some ⟨8 * 2 ^ c'.bits, bk.filter (·.2 ≠ 0)⟩ }

section
variable {c c' : Cfg} {U : List (Bytes × Bytes)} {spec : Spec} {n B : Nat} {m2 : Mem} {d2 d : Disk}

open C09 in
/-- the steps of the re-bucketing of the closed directory of a reachable state, for a configuration that
    differs in the bit size only: every step is in the D13 window, or before the first move — then the
    directory is the closed directory itself, without or with its snapshot —, or after the arrival of the
    new header — then OpenStore recovers from it what it recovers from the directory `translateIndex`
    returns -/
theorem translate_steps_closed (hc : c.Legal) (hc' : c'.Legal) (hkind : c'.kind = c.kind)
    (hifs : c'.ifs = c.ifs) (hpfs : c.kind = .mh → c'.pfs = c.pfs) (hU : Univ c.kind U)
    (hC : Closed c U spec n B m2 d2 d) (hsi : NMap.Sorted d.ifiles) (hsn : spec.length ≤ n)
    (hn : n < 1073741824) (hB : B < two31) {pfn plen : Nat}
    (o2 : c.kind = .mh → pfn = m2.pfileNum ∧ plen = (fileOf d2.pfiles m2.pfileNum).length)
    (o3 : c.kind = .cid → pfn = 0 ∧ plen = (d2.cidfile.getD []).length) (order : List Nat) :
    ∃ dT keys, translateIndex c'.kind (hdrPfs c') pfn plen c'.bits c'.ifs d order = .ok (dT, keys) ∧
      translateSteps c'.kind (hdrPfs c') pfn plen c'.bits c'.ifs d order ≠ [] ∧
      ∀ st td, (st, td) ∈ translateSteps c'.kind (hdrPfs c') pfn plen c'.bits c'.ifs d order →
        st.inWindow = true ∨
        ((st = .oldOpened ∨ st = .newClosed) ∧ td.main = { d with snap := none }) ∨
        (st = .oldClosed ∧
          td.main = { d with snap := some ⟨8 * 2 ^ c.bits, m2.buckets.filter (·.2 ≠ 0)⟩ }) ∨
        ((st = .newHeaderMoved ∨ st = .newMoved ∨ st = .oldRemoved) ∧
          RecoversSame c' dT td.main) := by
  have hU' : Univ c'.kind U := by rw [hkind]; exact hU
  obtain ⟨pool, ic, fn, len, bk, files, t1, hI3, hX3⟩ :=
    translate_ok hc hc' hkind (Or.inr ⟨rfl, hifs⟩) hpfs hU hC hsn hn hB o2 o3 order
  obtain ⟨bk0, hload, hbk0⟩ := load_exact hc hC hsi
  have hi0 : c'.ifs ≠ 0 := by have := hc'.2.2.1; omega
  -- the step list
  have hsteps : translateSteps c'.kind (hdrPfs c') pfn plen c'.bits c'.ifs d order =
      transStepsOf ⟨c.bits, c.ifs, 0, hdrPfs c⟩ d d.ifiles bk0
        (trDisk c' d files bk) := by
    have hl' := hload
    unfold loadOld at hl'
    rw [← hifs] at hl'
    unfold translateSteps
    simp only [hC.hdr, hi0, if_false, t1]
    split
    · rename_i heq
      have e := hl'.symm.trans heq
      cases e
    · rename_i ifl bkl heq
      have e := hl'.symm.trans heq
      simp only [Option.some.injEq, Prod.mk.injEq] at e
      obtain ⟨rfl, rfl⟩ := e
      rfl
  refine ⟨_, _, t1, ?_, ?_⟩
  · rw [hsteps]
    unfold transStepsOf
    simp
  intro st td hm
  rw [hsteps] at hm
  rcases transStepsOf_mem hm with h | ⟨h1, h2⟩ | ⟨h1, h2⟩ | hlate
  · exact Or.inl h
  · exact Or.inr (Or.inl ⟨h1, h2⟩)
  · refine Or.inr (Or.inr (Or.inl ⟨h1, ?_⟩))
    rw [h2]
    show ({ d with snap := some ⟨8 * 2 ^ c.bits, bk0.filter (·.2 ≠ 0)⟩, ifiles := d.ifiles } : Disk) = _
    rw [hbk0]
  · -- from the arrival of the new header on
    refine Or.inr (Or.inr (Or.inr ?_))
    have hmain : (st = .newHeaderMoved ∨ st = .newMoved ∨ st = .oldRemoved) ∧
        ∃ sn, (sn = none ∨ sn = some ⟨8 * 2 ^ c'.bits, bk.filter (·.2 ≠ 0)⟩) ∧
          td.main = lateMain ⟨c.bits, c.ifs, 0, hdrPfs c⟩ d d.ifiles
            (trDisk c' d files bk) sn := by
      rcases hlate with ⟨h1, h2⟩ | ⟨h1, h2⟩
      · exact ⟨Or.inl h1, none, Or.inl rfl, h2⟩
      · refine ⟨?_, _, Or.inr rfl, h2⟩
        rcases h1 with h1 | h1
        · exact Or.inr (Or.inl h1)
        · exact Or.inr (Or.inr h1)
    obtain ⟨hst, sn, hsn', hmain⟩ := hmain
    refine ⟨hst, ?_⟩
    -- the shape of the directory `translateIndex` returns
    obtain ⟨sp, oT⟩ := xinv_openShape hc' hI3 hX3 d.free
      (some ⟨8 * 2 ^ c'.bits, bk.filter (·.2 ≠ 0)⟩) (Or.inr rfl)
    have oT' : OpenShape c' (trDisk c' d files bk) 0 pfn 0 fn sp (fun _ => []) := oT
    -- the old files
    obtain ⟨lg, hl⟩ := hC.xinv.log
    have hIi : IInv m2 d2 := hC.inv.i
    have hold : ∀ f, f ∈ fileRun d.ifiles 0 ↔ (0 ≤ f ∧ f ≤ m2.ifileNum) :=
      mem_fileRun (Nat.zero_le _) (fun f _ hf => by rw [hC.ifiles, hl.files f hf]; simp)
        (by rw [hC.ifiles]; exact hIi.noFiles _ (Nat.lt_succ_self _))
    have hnew : ∀ f, f ∈ fileRun files 0 ↔ (0 ≤ f ∧ f ≤ fn) :=
      mem_fileRun (Nat.zero_le _) (fun f _ hf => by
        have := oT'.files f (Nat.zero_le _) hf
        have e : files.get? f = some (gbytes (sp f) ++ []) := this
        rw [e]; simp) oT'.noI
    have hpt : ∀ f, (putFiles (delFiles d.ifiles (fileRun d.ifiles 0)) files (fileRun files 0)).get? f =
        files.get? f := by
      intro f
      rw [get?_putFiles, get?_delFiles]
      by_cases hf : f ≤ fn
      · rw [if_pos ((hnew f).mpr ⟨Nat.zero_le _, hf⟩)]
        have := oT'.files f (Nat.zero_le _) hf
        have e : files.get? f = some (gbytes (sp f) ++ []) := this
        unfold fileOf
        rw [e]; rfl
      · rw [if_neg (fun h => hf ((hnew f).mp h).2)]
        have hnone : files.get? f = none := (hI3.i.noFiles f (by show fn < f; omega))
        rw [hnone]
        by_cases hf2 : f ≤ m2.ifileNum
        · rw [if_pos ((hold f).mpr ⟨Nat.zero_le _, hf2⟩)]
        · rw [if_neg (fun h => hf2 ((hold f).mp h).2), hC.ifiles]
          exact hIi.noFiles f (by omega)
    have oM : OpenShape c' td.main 0 pfn 0 fn sp (fun _ => []) := by
      rw [hmain]
      refine OpenShape.congr oT' ?_ ?_ ?_ ?_ ?_
      · rfl
      · rfl
      · rfl
      · exact hpt
      · rcases hsn' with h | h
        · exact Or.inr h
        · exact Or.inl h
    have aM : OpenAgree c' 0 fn (trDisk c' d files bk) td.main := by
      rw [hmain]
      exact ⟨rfl, rfl, rfl, fun _ => rfl, rfl, rfl, fun f _ => hpt f⟩
    exact open_same hc' oT' oM aM

end

/-! ### reachable states -/

open C09 in
/-- the re-bucketing of the cleanly closed directory of any reachable state (snapshot kept or dropped),
    reopened with a configuration that differs in the bit size only -/
theorem translate_steps_reach (c : Cfg) (hc : c.Legal) (c' : Cfg) (hc' : c'.Legal)
    (hkind : c'.kind = c.kind) (hifs : c'.ifs = c.ifs) (hpfs : c.kind = .mh → c'.pfs = c.pfs)
    (ops : List SOp) (ha : ∀ op ∈ ops, op.isC02 = true) (hk : KeysOK c.kind ops) (hs : SizesOK ops)
    (s0 : SState) (hi : initS c = some s0) (ord order : List Nat) (us : Bool) :
    ∃ d dF dS pfn plen dT keys,
      C09.closedDisk (runS s0 ops).1 ord us = some d ∧
      C09.closedDisk (runS s0 ops).1 ord false = some dF ∧
      C09.closedDisk (runS s0 ops).1 ord true = some dS ∧
      openFreelist d = d ∧ openPrimary c' d = .ok (d, hdrPfs c', pfn, plen) ∧
      translateIndex c'.kind (hdrPfs c') pfn plen c'.bits c'.ifs d order = .ok (dT, keys) ∧
      translateSteps c'.kind (hdrPfs c') pfn plen c'.bits c'.ifs d order ≠ [] ∧
      ∀ st td, (st, td) ∈ translateSteps c'.kind (hdrPfs c') pfn plen c'.bits c'.ifs d order →
        st.inWindow = true ∨
        ((st = .oldOpened ∨ st = .newClosed ∨ st = .oldClosed) ∧ (td.main = dF ∨ td.main = dS)) ∨
        ((st = .newHeaderMoved ∨ st = .newMoved ∨ st = .oldRemoved) ∧
          RecoversSame c' dT td.main) := by
  have hU := univ_of_keysOK hk (keysExact_all c.kind ops)
  have hkeys : ∀ op ∈ ops, ∀ k, op.keyOf = some k → ∀ dig, keyClass c.kind k = .ok dig →
      (k, dig) ∈ digestsOf c.kind ops := fun op ho k hkey dig hcls => mem_digestsOf ho hkey hcls
  have hn : 0 + ops.length < 1073741824 := by have := hs.1; omega
  have hB : 0 + (ops.map SOp.bytes).sum < two31 := by have := hs.2.1; omega
  obtain ⟨_, hI, hX⟩ := run_ok2 hc hU ops s0 [] 0 0 (inv_init c hc _ s0 hi) (xinv_init c hc s0 hi) ha
    hkeys hn hB
  have hD := run_shape hc hU ops s0 [] 0 0 (inv_init c hc _ s0 hi) (xinv_init c hc s0 hi)
    (shape_init c hc s0 hi) ha hkeys hn hB
  have hG : DiskG (runS s0 ops).1.d := runS_keeps ops s0 (diskG_init c hc s0 hi)
  have hsl : (specRun c.kind c.imm [] ops).1.length ≤ 0 + ops.length := by
    have := specRun_length c.kind c.imm ops []
    simpa using this
  obtain ⟨m2, d2, dS, h1, hC, hsnapT, _⟩ := closed_of_reach hU hI hX hD hn hB ord true
  have hsnapS : dS.snap = some ⟨8 * 2 ^ c.bits, m2.buckets.filter (·.2 ≠ 0)⟩ := by
    have := hsnapT rfl
    rw [hC.xinv.bits] at this
    exact this
  -- the closed directory without its snapshot
  have hCF : Closed c (digestsOf c.kind ops) (specRun c.kind c.imm [] ops).1 (0 + ops.length)
      (0 + (ops.map SOp.bytes).sum) m2 d2 { dS with snap := none } :=
    ⟨hC.inv, hC.xinv, hC.inext, hC.pnext, ⟨hC.shape.free, hC.shape.cid⟩, hC.pfiles, hC.cidfile,
      hC.ifiles, hC.ihdr, hC.phdr, Or.inr rfl⟩
  have hF : C09.closedDisk (runS s0 ops).1 ord false = some { dS with snap := none } := by
    unfold C09.closedDisk at h1 ⊢
    split at h1
    · cases h1
    · rename_i st hst
      simp only [if_true, Option.some.injEq] at h1
      subst h1
      simp
  -- sortedness of the index file map
  have hsi : NMap.Sorted dS.ifiles := by
    unfold C09.closedDisk at h1
    split at h1
    · cases h1
    · rename_i st hst
      simp only [if_true, Option.some.injEq] at h1
      subst h1
      exact (storeClose_keeps hst hG).2.2
  have hdS : ({ dS with snap := some ⟨8 * 2 ^ c.bits, m2.buckets.filter (·.2 ≠ 0)⟩ } : Disk) = dS := by
    rw [← hsnapS]
  -- the directory the open starts from
  have main : ∀ d, (d = dS ∨ d = { dS with snap := none }) →
      Closed c (digestsOf c.kind ops) (specRun c.kind c.imm [] ops).1 (0 + ops.length)
        (0 + (ops.map SOp.bytes).sum) m2 d2 d →
      ∃ pfn plen dT keys, openFreelist d = d ∧ openPrimary c' d = .ok (d, hdrPfs c', pfn, plen) ∧
        translateIndex c'.kind (hdrPfs c') pfn plen c'.bits c'.ifs d order = .ok (dT, keys) ∧
        translateSteps c'.kind (hdrPfs c') pfn plen c'.bits c'.ifs d order ≠ [] ∧
        ∀ st td, (st, td) ∈ translateSteps c'.kind (hdrPfs c') pfn plen c'.bits c'.ifs d order →
          st.inWindow = true ∨
          ((st = .oldOpened ∨ st = .newClosed ∨ st = .oldClosed) ∧
            (td.main = { dS with snap := none } ∨ td.main = dS)) ∨
          ((st = .newHeaderMoved ∨ st = .newMoved ∨ st = .oldRemoved) ∧
            RecoversSame c' dT td.main) := by
    intro d hd hCd
    have hsid : NMap.Sorted d.ifiles := by
      rcases hd with rfl | rfl
      · exact hsi
      · exact hsi
    have hpm := hdrPfs_eq hkind hpfs
    obtain ⟨pfn, plen, o1, o2, o3⟩ := hCd.openPrimary hc' hkind hpfs
    rw [← hpm] at o1
    obtain ⟨dT, keys, t1, t2, t3⟩ := translate_steps_closed hc hc' hkind hifs hpfs hU hCd hsid hsl hn hB
      o2 o3 order
    refine ⟨pfn, plen, dT, keys, openFreelist_id hCd.shape, o1, t1, t2, ?_⟩
    intro st td hm
    rcases t3 st td hm with h | ⟨h1, h2⟩ | ⟨h1, h2⟩ | h
    · exact Or.inl h
    · refine Or.inr (Or.inl ⟨?_, Or.inl ?_⟩)
      · rcases h1 with h1 | h1
        · exact Or.inl h1
        · exact Or.inr (Or.inl h1)
      · rw [h2]
        rcases hd with rfl | rfl <;> rfl
    · refine Or.inr (Or.inl ⟨Or.inr (Or.inr h1), Or.inr ?_⟩)
      rw [h2]
      rcases hd with rfl | rfl
      · exact hdS
      · exact hdS
    · exact Or.inr (Or.inr h)
  cases us with
  | true =>
    obtain ⟨pfn, plen, dT, keys, q⟩ := main dS (Or.inl rfl) hC
    exact ⟨dS, _, dS, pfn, plen, dT, keys, h1, hF, h1, q⟩
  | false =>
    obtain ⟨pfn, plen, dT, keys, q⟩ := main { dS with snap := none } (Or.inr rfl) hCF
    exact ⟨_, _, dS, pfn, plen, dT, keys, hF, hF, h1, q⟩

end Sth.C03O
