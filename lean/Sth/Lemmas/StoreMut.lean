/-
Put and Remove against the specification map (C01, layer 1): outputs agree and the observational
invariant is preserved.
Core Lean only.
-/
import Sth.Lemmas.StoreStep
import Sth.Lemmas.C08

namespace Sth

section
variable {kind : PKind} {bits : Nat} {U : List (Bytes × Bytes)} {P P' : Block → PGet}
  {R R' : Nat → Except Err (Option RecordList)} {below below' : Block → Prop} {spec spec' : Spec}

/-- one bucket's list and one key of the specification change; everything else is framed -/
theorem AInv.change (hU : Univ kind U) (h : AInv kind bits U P R below spec)
    {dig : Bytes} {b : Nat} (hbk : bucketOfKey bits dig = some b) {rl' : RecordList}
    (hP : ∀ blk k v, below blk → P blk = .got k v → P' blk = .got k v)
    (hB : ∀ blk, below blk → below' blk)
    (hspec : ∀ dig', dig' ≠ dig → Spec.get spec' dig' = Spec.get spec dig')
    (hR : ∀ b', b' ≠ b → R' b' = R b')
    (hRb : R' b = .ok (some rl'))
    (ho : OInv (ownOf kind bits P') rl')
    (hblk : ∀ e ∈ rl', BlockOK kind bits U P' below' spec' b e.blk)
    (hcd : ∀ key val, Spec.get spec' dig = some (key, val) →
      ∃ e ∈ rl', P' e.blk = .got key val ∧ (key, dig) ∈ U)
    (hkeep : ∀ rl, R b = .ok (some rl) → ∀ e ∈ rl,
      (∀ key val, P e.blk = .got key val → (key, dig) ∉ U) → ∃ e' ∈ rl', e'.blk = e.blk) :
    AInv kind bits U P' R' below' spec' := by
  constructor
  · intro b'
    by_cases hbb : b' = b
    · subst hbb
      exact ⟨some rl', hRb, ho, hblk⟩
    · obtain ⟨orl, h1, h2, h3⟩ := h.recs b'
      refine ⟨orl, by rw [hR b' hbb, h1], ?_, ?_⟩
      · apply OInv.congr _ h2
        intro e he k hk
        exact ownOf_mono (fun k v hg => hP _ k v (h3 e he).below hg) hk
      · intro e he
        apply (h3 e he).mono hP hB
        intro key val dig0 hg hm
        apply hspec
        rintro rfl
        obtain ⟨key1, val1, dig1, e1, e2, e3, _, _⟩ := (h3 e he).ex
        rw [hg] at e1
        cases e1
        have : dig0 = dig1 := by
          have a1 := (hU.dig hm).1
          have a2 := (hU.dig e2).1
          rw [a1] at a2
          cases a2
          rfl
        subst this
        rw [hbk] at e3
        cases e3
        exact hbb rfl
  · intro dig' key val hs
    by_cases hdd : dig' = dig
    · subst hdd
      obtain ⟨e, he, h1, h2⟩ := hcd key val hs
      exact ⟨b, rl', e, hbk, hRb, he, h1, h2⟩
    · rw [hspec dig' hdd] at hs
      obtain ⟨b'', rl, e, h1, h2, h3, h4, h5⟩ := h.complete dig' key val hs
      obtain ⟨orl, g1, _, g3⟩ := h.recs b''
      rw [h2] at g1
      cases g1
      have hbel := (g3 e h3).below
      by_cases hbb : b'' = b
      · subst hbb
        obtain ⟨e', he', heq⟩ := hkeep rl h2 e h3 (by
          intro key0 val0 hg hm
          rw [h4] at hg
          cases hg
          have a1 := (hU.dig hm).1
          have a2 := (hU.dig h5).1
          rw [a1] at a2
          cases a2
          exact hdd rfl)
        exact ⟨b'', rl', e', h1, hRb, he', by rw [heq]; exact hP _ _ _ hbel h4, h5⟩
      · exact ⟨b'', rl, e, h1, by rw [hR b'' hbb, h2], h3, hP _ _ _ hbel h4, h5⟩

end

end Sth

namespace Sth

theorem nextBlk_size (m : Mem) (size : Nat) : (nextBlk m size).size = size := by
  unfold nextBlk; split <;> rfl

/-- what the put lemmas need to know about the allocator -/
structure PutPre (m : Mem) (key val : Bytes) : Prop where
  pmax : m.kind = .mh → 1 ≤ m.pmax
  pool : ∀ r ∈ m.pnext, Below m r.blk
  size : key.length + val.length < two31
  off : (nextBlk m (key.length + val.length)).off < two64

section
variable {kind : PKind} {bits : Nat} {U : List (Bytes × Bytes)} {P : Block → PGet}
  {below : Block → Prop} {spec : Spec}

theorem BlockOK.dig_ne_of_absent (hU : Univ kind U) {b : Nat} {blk : Block} {dig : Bytes}
    (h : BlockOK kind bits U P below spec b blk) (hs : Spec.get spec dig = none) :
    ∀ key val dig0, P blk = .got key val → (key, dig0) ∈ U → dig0 ≠ dig := by
  intro key val dig0 hg hm
  obtain ⟨key1, val1, dig1, e1, e2, _, _, e5⟩ := h.ex
  rw [hg] at e1
  cases e1
  have a1 := (hU.dig hm).1
  have a2 := (hU.dig e2).1
  rw [a1] at a2
  cases a2
  rintro rfl
  rw [hs] at e5
  cases e5

/-- in the bucket of `e`, no other entry resolves to `e`'s digest -/
theorem other_dig_ne (hU : Univ kind U) (h31 : bits ≤ 31) {b : Nat} {pre post : RecordList}
    {e x : Entry} {dig : Bytes}
    (ho : OInv (ownOf kind bits P) (pre ++ e :: post))
    (hB : ∀ x ∈ pre ++ e :: post, BlockOK kind bits U P below spec b x.blk)
    (hown : ownOf kind bits P e.blk = some (dig.drop (bits / 8)))
    (hx : x ∈ pre ++ post) :
    ∀ key val dig0, P x.blk = .got key val → (key, dig0) ∈ U → dig0 ≠ dig := by
  intro key val dig0 hg hm
  rintro rfl
  have hx' : x ∈ pre ++ e :: post := by
    simp only [List.mem_append, List.mem_cons] at hx ⊢
    rcases hx with h | h
    · exact Or.inl h
    · exact Or.inr (Or.inr h)
  obtain ⟨key1, val1, dig1, e1, e2, e3, _, e5⟩ := (hB x hx').own hU h31
  rw [hg] at e1
  cases e1
  have a1 := (hU.dig hm).1
  have a2 := (hU.dig e2).1
  rw [a1] at a2
  cases a2
  have := ho.owner_unique hx' (by simp) e5 hown
  subst this
  have hnd := ho.distinctBlocks
  simp only [List.map_append, List.map_cons] at hnd
  have hn := nodup_middle_notin hnd
  simp only [List.mem_append] at hx
  rcases hx with h | h
  · exact hn.1 (List.mem_map_of_mem h)
  · exact hn.2 (List.mem_map_of_mem h)

end

section
variable {U : List (Bytes × Bytes)} {m : Mem} {d : Disk} {spec : Spec}

/-- Put of a key that is not in the map -/
theorem storePut_absent (hU : Univ m.kind U) (h8 : 8 ≤ m.bits) (h31 : m.bits ≤ 31)
    (hI : SInv U m d spec) {key val dig : Bytes} (hpre : PutPre m key val)
    (hk : (key, dig) ∈ U) (hs : Spec.get spec dig = none) :
    ∃ b rl, storePut m d key val = (setNext (putMem m key val) b rl, .ok) ∧
      AInv m.kind m.bits U (priGet (setNext (putMem m key val) b rl) d)
        (idxRecords (setNext (putMem m key val) b rl) d) (Below (setNext (putMem m key val) b rl))
        (Spec.set spec dig key val) ∧ b < 2 ^ m.bits := by
  have hik := (hU.dig hk).1
  cases lookup hU h31 hI hk with
  | present val' b pre e post hs' => rw [hs] at hs'; cases hs'
  | absent b orl _ hb hr ho hB hg =>
    have hstrip := (stripKey_of_bucket m.bits h31 dig b hb)
    have hP : ∀ blk k v, Below m blk → priGet m d blk = .got k v →
        priGet (putMem m key val) d blk = .got k v :=
      fun blk k v hbl hgt => priGet_putMem_old d key val hpre.pmax hbl hgt
    have hnew := priGet_putMem_new d key val hpre.pmax hpre.pool
    have hown' : ownOf m.kind m.bits (priGet (putMem m key val) d)
        (nextBlk m (key.length + val.length)) = some (dig.drop (m.bits / 8)) :=
      ownOf_got hnew hik hstrip.1
    have ho' : OInv (ownOf m.kind m.bits (priGet (putMem m key val) d)) (orl.getD []) := by
      apply OInv.congr _ ho
      intro e he k hk'
      exact ownOf_mono (fun k v hgt => hP _ k v (hB e he).below hgt) hk'
    have hfresh : nextBlk m (key.length + val.length) ∉ (orl.getD []).map (·.blk) := by
      intro hm
      obtain ⟨e, he, heq⟩ := List.mem_map.mp hm
      have := (hB e he).below
      rw [heq] at this
      exact not_below_next hpre.pmax _ this
    -- the index put succeeds
    have hput : ∃ rl', indexPut (fullOf (putMem m key val) d) orl (dig.drop (m.bits / 8))
          (nextBlk m (key.length + val.length)) = .set rl' ∧
        OInv (ownOf m.kind m.bits (priGet (putMem m key val) d)) rl' ∧
        (rl'.map (·.blk)).Perm (nextBlk m (key.length + val.length) :: (orl.getD []).map (·.blk)) := by
      cases orl with
      | none =>
        have := indexPut_none_ok' (own := ownOf m.kind m.bits (priGet (putMem m key val) d))
          (fullOf (putMem m key val) d) hstrip.2.1 hown'
        exact ⟨_, this.1, this.2, by simp⟩
      | some rl =>
        simp only [Option.getD_some] at ho' hfresh hB ⊢
        apply indexPut_absent' (fullOf (putMem m key val) d) ho' hstrip.2.1 _ hown' hfresh
        · intro e he ko hko
          apply fullOf_of_own
          rw [putMem_kind, putMem_bits]
          exact hko
        · intro e he ko hko
          obtain ⟨key0, val0, dig0, e1, e2, e3, e4, e5⟩ := (hB e he).own hU h31
          have := ownOf_mono (P' := priGet (putMem m key val) d)
            (fun k v hgt => hP _ k v (hB e he).below hgt) e5
          rw [hko] at this
          cases this
          have hne : dig ≠ dig0 := by
            rintro rfl
            rw [hs] at e4
            cases e4
          exact hU.apart h8 h31 hk e2 hne hb e3
    obtain ⟨rl', hset, horl', hperm⟩ := hput
    -- blocks of the new list
    have hblk : ∀ e ∈ rl', BlockOK m.kind m.bits U (priGet (putMem m key val) d)
        (Below (putMem m key val)) (Spec.set spec dig key val) b e.blk := by
      intro e he
      have hm : e.blk ∈ rl'.map (·.blk) := List.mem_map_of_mem he
      rw [hperm.mem_iff, List.mem_cons] at hm
      rcases hm with hm | hm
      · rw [hm]
        refine ⟨⟨key, val, dig, hnew, hk, hb, nextBlk_size _ _, Spec.get_set_eq _ _ _ _⟩,
          below_putMem_new hpre.pmax key val, hpre.off, ?_⟩
        rw [nextBlk_size]; exact hpre.size
      · obtain ⟨e0, he0, heq⟩ := List.mem_map.mp hm
        rw [← heq]
        apply (hB e0 he0).mono hP (fun blk hb => below_putMem key val hb)
        intro key0 val0 dig0 hg0 hm0
        exact Spec.get_set_ne _ _ _ _ ((hB e0 he0).dig_ne_of_absent hU hs key0 val0 dig0 hg0 hm0)
    have hnorm : normRL rl' = rl' := normRL_of_wf (wf_of_inv hU h31 horl' hblk)
    have hidx : idxPut (putMem m key val) d dig (nextBlk m (key.length + val.length)) =
        .ok (setNext (putMem m key val) b rl') := by
      have := idxPut_eq (m := putMem m key val) (d := d) (dig := dig) (b := b) (recs := orl)
        (loc := nextBlk m (key.length + val.length)) (rl := rl')
        (by rw [putMem_bits]; exact hb) (by rw [putMem_bits]; exact hstrip.1)
        (by rw [idxRecords_putMem]; exact hr) hset
      rw [hnorm] at this
      exact this
    refine ⟨b, rl', ?_, ?_, bucket_lt _ _ _ hb⟩
    · unfold storePut
      rcases hg with hg | ⟨blk, k', v', dig', hg, e1, e2, e3⟩
      · simp only [hik, hg, priPut_eq, hidx]
      · simp only [hik, hg, gpkd_miss e1 e2 e3, priPut_eq, hidx]
    · apply AInv.change hU hI hb (rl' := rl') (dig := dig)
      · intro blk k v hbl hgt
        rw [priGet_setNext]
        exact hP blk k v hbl hgt
      · intro blk hbl
        rw [below_setNext]
        exact below_putMem key val hbl
      · intro dig' hne
        exact Spec.get_set_ne _ _ _ _ hne
      · intro b' hne
        rw [idxRecords_setNext', if_neg hne, idxRecords_putMem]
      · rw [idxRecords_setNext', if_pos rfl]
      · rw [priGet_setNext]; exact horl'
      · rw [priGet_setNext, below_setNext]; exact hblk
      · intro key0 val0 hg0
        rw [Spec.get_set_eq] at hg0
        cases hg0
        have hm : nextBlk m (key.length + val.length) ∈ rl'.map (·.blk) := by
          rw [hperm.mem_iff]; simp
        obtain ⟨e, he, heq⟩ := List.mem_map.mp hm
        exact ⟨e, he, by rw [priGet_setNext, heq]; exact hnew, hk⟩
      · intro rl hrl e he _
        rw [hr] at hrl
        cases hrl
        have hm : e.blk ∈ rl'.map (·.blk) := by
          rw [hperm.mem_iff]
          exact List.mem_cons_of_mem _ (List.mem_map_of_mem he)
        obtain ⟨e', he', heq⟩ := List.mem_map.mp hm
        exact ⟨e', he', heq⟩

end

end Sth

namespace Sth

section
variable {U : List (Bytes × Bytes)} {m : Mem} {d : Disk} {spec : Spec}

/-- Put of a key that is in the map: error (immutable), no-op (same value) or update -/
theorem storePut_present (hU : Univ m.kind U) (h31 : m.bits ≤ 31)
    (hI : SInv U m d spec) {key val dig key0 old : Bytes}
    (hk : (key, dig) ∈ U) (hs : Spec.get spec dig = some (key0, old)) :
    (m.imm = true → storePut m d key val = (m, .err .keyExists)) ∧
    (m.imm = false → val = old → storePut m d key val = (m, .ok)) ∧
    (m.imm = false → val ≠ old → PutPre m key val →
      ∃ b rl blk, storePut m d key val = (addFree (setNext (putMem m key val) b rl) blk, .ok) ∧
        AInv m.kind m.bits U (priGet (addFree (setNext (putMem m key val) b rl) blk) d)
          (idxRecords (addFree (setNext (putMem m key val) b rl) blk) d)
          (Below (addFree (setNext (putMem m key val) b rl) blk))
          (Spec.set spec dig key val) ∧ b < 2 ^ m.bits) := by
  have hik := (hU.dig hk).1
  cases lookup hU h31 hI hk with
  | absent b orl hs' => rw [hs] at hs'; cases hs'
  | present val' b pre e post hs' hb hr ho hB hp hown hsz hg =>
    rw [hs] at hs'
    cases hs'
    refine ⟨?_, ?_, ?_⟩
    · intro himm
      unfold storePut
      simp only [hik, hg, gpkd_hit hp hik, himm, if_true]
    · intro himm hv
      unfold storePut
      simp only [hik, hg, gpkd_hit hp hik, himm, hv, if_true, Bool.false_eq_true, if_false]
    · intro himm hv hpre
      have hstrip := (stripKey_of_bucket m.bits h31 dig b hb)
      have hP : ∀ blk k v, Below m blk → priGet m d blk = .got k v →
          priGet (putMem m key val) d blk = .got k v :=
        fun blk k v hbl hgt => priGet_putMem_old d key val hpre.pmax hbl hgt
      have hnew := priGet_putMem_new d key val hpre.pmax hpre.pool
      have hown' : ownOf m.kind m.bits (priGet (putMem m key val) d)
          (nextBlk m (key.length + val.length)) = some (dig.drop (m.bits / 8)) :=
        ownOf_got hnew hik hstrip.1
      have ho' : OInv (ownOf m.kind m.bits (priGet (putMem m key val) d)) (pre ++ e :: post) := by
        apply OInv.congr _ ho
        intro x hx k hk'
        exact ownOf_mono (fun k v hgt => hP _ k v (hB x hx).below hgt) hk'
      have howne' : ownOf m.kind m.bits (priGet (putMem m key val) d) e.blk =
          some (dig.drop (m.bits / 8)) :=
        ownOf_mono (fun k v hgt => hP _ k v (hB e (by simp)).below hgt) hown
      have hfresh : nextBlk m (key.length + val.length) ∉ (pre ++ e :: post).map (·.blk) := by
        intro hm
        obtain ⟨x, hx, heq⟩ := List.mem_map.mp hm
        have := (hB x hx).below
        rw [heq] at this
        exact not_below_next hpre.pmax _ this
      obtain ⟨hupd, horl'⟩ := indexUpdate_ok' ho' howne' hown' hfresh
      have hblk : ∀ x ∈ pre ++ (⟨e.pfx, nextBlk m (key.length + val.length)⟩ : Entry) :: post,
          BlockOK m.kind m.bits U (priGet (putMem m key val) d)
            (Below (putMem m key val)) (Spec.set spec dig key val) b x.blk := by
        intro x hx
        have hold : x ∈ pre ++ post → BlockOK m.kind m.bits U (priGet (putMem m key val) d)
            (Below (putMem m key val)) (Spec.set spec dig key val) b x.blk := by
          intro hx'
          have hx'' : x ∈ pre ++ e :: post := by
            simp only [List.mem_append, List.mem_cons] at hx' ⊢
            rcases hx' with h | h
            · exact Or.inl h
            · exact Or.inr (Or.inr h)
          apply (hB x hx'').mono hP (fun blk hb => below_putMem key val hb)
          intro key1 val1 dig1 hg1 hm1
          exact Spec.get_set_ne _ _ _ _ (other_dig_ne hU h31 ho hB hown hx' key1 val1 dig1 hg1 hm1)
        simp only [List.mem_append, List.mem_cons] at hx
        rcases hx with h | rfl | h
        · exact hold (by simp [h])
        · refine ⟨⟨key, val, dig, hnew, hk, hb, nextBlk_size _ _, Spec.get_set_eq _ _ _ _⟩,
            below_putMem_new hpre.pmax key val, hpre.off, ?_⟩
          simp only [nextBlk_size]; exact hpre.size
        · exact hold (by simp [h])
      have hnorm := normRL_of_wf (wf_of_inv hU h31 horl' hblk)
      have hidx : idxUpdate (putMem m key val) d dig (nextBlk m (key.length + val.length)) =
          .ok (setNext (putMem m key val) b
            (pre ++ (⟨e.pfx, nextBlk m (key.length + val.length)⟩ : Entry) :: post)) := by
        have := idxUpdate_eq (m := putMem m key val) (d := d) (dig := dig) (b := b)
          (recs := some (pre ++ e :: post))
          (loc := nextBlk m (key.length + val.length))
          (by rw [putMem_bits]; exact hb) (by rw [putMem_bits]; exact hstrip.1)
          (by rw [idxRecords_putMem]; exact hr) hupd
        rw [hnorm] at this
        exact this
      refine ⟨b, pre ++ (⟨e.pfx, nextBlk m (key.length + val.length)⟩ : Entry) :: post, e.blk, ?_, ?_,
        bucket_lt _ _ _ hb⟩
      · unfold storePut
        simp only [hik, hg, gpkd_hit hp hik, himm, hv, Bool.false_eq_true, if_false, priPut_eq, hidx,
          Option.getD_some]
        rfl
      · apply AInv.change hU hI hb (dig := dig)
          (rl' := pre ++ (⟨e.pfx, nextBlk m (key.length + val.length)⟩ : Entry) :: post)
        · intro blk k v hbl hgt
          rw [priGet_addFree, priGet_setNext]
          exact hP blk k v hbl hgt
        · intro blk hbl
          rw [below_addFree, below_setNext]
          exact below_putMem key val hbl
        · intro dig' hne
          exact Spec.get_set_ne _ _ _ _ hne
        · intro b' hne
          rw [idxRecords_addFree, idxRecords_setNext', if_neg hne, idxRecords_putMem]
        · rw [idxRecords_addFree, idxRecords_setNext', if_pos rfl]
        · rw [priGet_addFree, priGet_setNext]; exact horl'
        · rw [priGet_addFree, priGet_setNext, below_addFree, below_setNext]; exact hblk
        · intro key1 val1 hg1
          rw [Spec.get_set_eq] at hg1
          cases hg1
          exact ⟨⟨e.pfx, nextBlk m (key.length + val.length)⟩, by simp,
            by rw [priGet_addFree, priGet_setNext]; exact hnew, hk⟩
        · intro rl hrl x hx hnot
          rw [hr] at hrl
          cases hrl
          simp only [List.mem_append, List.mem_cons] at hx
          rcases hx with h | rfl | h
          · exact ⟨x, by simp [h], rfl⟩
          · exact absurd hk (hnot _ _ hp)
          · exact ⟨x, by simp [h], rfl⟩

/-- Remove -/
theorem storeRemove_ok (hU : Univ m.kind U) (h31 : m.bits ≤ 31)
    (hI : SInv U m d spec) {key dig : Bytes} (hk : (key, dig) ∈ U) :
    (Spec.get spec dig = none → storeRemove m d key = (m, .val false)) ∧
    (∀ kv, Spec.get spec dig = some kv →
      ∃ b rl blk, storeRemove m d key = (addFree (setNext m b rl) blk, .val true) ∧
        AInv m.kind m.bits U (priGet (addFree (setNext m b rl) blk) d)
          (idxRecords (addFree (setNext m b rl) blk) d)
          (Below (addFree (setNext m b rl) blk)) (Spec.del spec dig) ∧ b < 2 ^ m.bits) := by
  have hik := (hU.dig hk).1
  cases lookup hU h31 hI hk with
  | absent b orl hs hb hr ho hB hg =>
    refine ⟨fun _ => ?_, fun kv hkv => (by rw [hs] at hkv; cases hkv)⟩
    unfold storeRemove
    rcases hg with hg | ⟨blk, k', v', dig', hg, e1, e2, e3⟩
    · simp only [hik, hg]
    · simp only [hik, hg, gpkd_miss e1 e2 e3]
  | present val b pre e post hs hb hr ho hB hp hown hsz hg =>
    refine ⟨fun hn => (by rw [hs] at hn; cases hn), fun kv _ => ?_⟩
    have hstrip := (stripKey_of_bucket m.bits h31 dig b hb)
    obtain ⟨hrm, horl'⟩ := indexRemove_ok' ho hown
    have hblk : ∀ x ∈ pre ++ post, BlockOK m.kind m.bits U (priGet m d) (Below m)
        (Spec.del spec dig) b x.blk := by
      intro x hx
      have hx'' : x ∈ pre ++ e :: post := by
        simp only [List.mem_append, List.mem_cons] at hx ⊢
        rcases hx with h | h
        · exact Or.inl h
        · exact Or.inr (Or.inr h)
      apply (hB x hx'').mono (fun _ _ _ _ h => h) (fun _ h => h)
      intro key1 val1 dig1 hg1 hm1
      exact Spec.get_del_ne _ _ (other_dig_ne hU h31 ho hB hown hx key1 val1 dig1 hg1 hm1)
    have hnorm := normRL_of_wf (wf_of_inv hU h31 horl' hblk)
    have hidx : idxRemove m d dig = .ok (setNext m b (pre ++ post), true) := by
      have := idxRemove_eq (m := m) (d := d) (dig := dig) (b := b)
        (recs := some (pre ++ e :: post)) hb hstrip.1 hr hrm
      rw [hnorm] at this
      exact this
    refine ⟨b, pre ++ post, e.blk, ?_, ?_, bucket_lt _ _ _ hb⟩
    · unfold storeRemove
      simp only [hik, hg, gpkd_hit hp hik, hidx, if_true]
      rfl
    · apply AInv.change hU hI hb (dig := dig) (rl' := pre ++ post)
      · intro blk k v _ hgt
        rw [priGet_addFree, priGet_setNext]
        exact hgt
      · intro blk hbl
        rw [below_addFree, below_setNext]
        exact hbl
      · intro dig' hne
        exact Spec.get_del_ne _ _ hne
      · intro b' hne
        rw [idxRecords_addFree, idxRecords_setNext', if_neg hne]
      · rw [idxRecords_addFree, idxRecords_setNext', if_pos rfl]
      · rw [priGet_addFree, priGet_setNext]; exact horl'
      · rw [priGet_addFree, priGet_setNext, below_addFree, below_setNext]; exact hblk
      · intro key1 val1 hg1
        rw [Spec.get_del_eq] at hg1
        cases hg1
      · intro rl hrl x hx hnot
        rw [hr] at hrl
        cases hrl
        simp only [List.mem_append, List.mem_cons] at hx
        rcases hx with h | rfl | h
        · exact ⟨x, by simp [h], rfl⟩
        · exact absurd hk (hnot _ _ hp)
        · exact ⟨x, by simp [h], rfl⟩

end

end Sth
