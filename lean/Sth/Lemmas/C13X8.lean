import Sth.Lemmas.C13X7

/-!
C13 along GC histories, exactly once: the loop over the closed files, the whole cycle, the run, and the
theorem.  Core Lean only.
-/

namespace Sth.C13X

open Sth.C11 Sth.C13H

/-- one iteration of the loop on an unvisited file that reapRecords handles without error -/
theorem pgcGo_unfold (lowUse fuel n : Nat) (h : PriHeader) (m : Mem) (d : Disk) (b : Budget)
    (recl : Nat) (hn : n ≠ m.pfileNum) (hv : m.visited.contains n = false) {r : PReapOut} {m1 : Mem}
    {d1 : Disk} {got : Nat} (hr : reapRecords m d n lowUse = (r, m1, d1, got)) (hne : r ≠ .err) :
    primaryGC.go lowUse (fuel + 1) n h m d b recl =
      if (poll b).1 = true then
        (⟨.deadline, 0⟩, { m1 with visited := m1.visited ++ [n] },
          (if r = .dead ∧ n = h.first then
            { d1 with phdr := some { h with first := h.first + 1 }, pfiles := d1.pfiles.del n } else d1),
          (poll b).2)
      else primaryGC.go lowUse fuel (n + 1)
        (if r = .dead ∧ n = h.first then { h with first := h.first + 1 } else h)
        { m1 with visited := m1.visited ++ [n] }
        (if r = .dead ∧ n = h.first then
          { d1 with phdr := some { h with first := h.first + 1 }, pfiles := d1.pfiles.del n } else d1)
        (poll b).2 (recl + got) := by
  rw [primaryGC.go]
  rw [if_neg hn, hv]
  simp only [Bool.false_eq_true, if_false, hr]
  cases r with
  | err => exact absurd rfl hne
  | dead =>
    simp only [true_and]
    by_cases hf : n = h.first
    · simp only [hf, if_true]
    · simp only [hf, if_false]
  | kept =>
    have : ¬ (PReapOut.kept = PReapOut.dead ∧ n = h.first) := by rintro ⟨h, _⟩; cases h
    simp only [this, if_false]

section
variable {c : Cfg} {U : List (Bytes × Bytes)} {cfg : Cfg} {spec : Spec} {B : Nat} {m0 : Mem}
  {d0 : Disk}

/-- the loop over the closed files: the state description, coverage, the relation to the state before
    the step; relocation never takes the refused path -/
theorem pgcGo_x (hU : Univ c.kind U) (lowUse : Nat) :
    ∀ (fuel nn pf : Nat) (m : Mem) (d : Disk) (budget : Budget) (recl k : Nat)
      (psp : Nat → List GSpan), HState c U cfg m d spec k B pf psp → Rel cfg m0 d0 m d →
      LInv cfg m d psp nn → pf ≤ nn → nn ≤ m.pfileNum →
      k + 2 * (m.pfileNum - nn) < 1073741824 →
      ∃ k' pf' psp', HState c U cfg (primaryGC.go lowUse fuel nn ⟨m.pmax, pf⟩ m d budget recl).2.1
          (primaryGC.go lowUse fuel nn ⟨m.pmax, pf⟩ m d budget recl).2.2.1 spec k' B pf' psp' ∧
        Rel cfg m0 d0 (primaryGC.go lowUse fuel nn ⟨m.pmax, pf⟩ m d budget recl).2.1
          (primaryGC.go lowUse fuel nn ⟨m.pmax, pf⟩ m d budget recl).2.2.1 := by
  intro fuel
  induction fuel with
  | zero =>
    intro nn pf m d budget recl k psp hS hR _ _ _ _
    exact ⟨k, pf, psp, hS, hR⟩
  | succ fuel ih =>
    intro nn pf m d budget recl k psp hS hR hL h1 h2 hk
    by_cases he : nn = m.pfileNum
    · rw [primaryGC.go, if_pos he]; exact ⟨k, pf, psp, hS, hR⟩
    by_cases hv : m.visited.contains nn = true
    · rw [primaryGC.go, if_neg he, if_pos hv]
      exact ih (nn + 1) pf m d budget recl k psp hS hR hL.succ (by omega) (by omega) (by omega)
    have hv' : m.visited.contains nn = false := by
      cases hh : m.visited.contains nn
      · rfl
      · exact absurd hh hv
    obtain ⟨k1, psp1, hS1, hRr, hL1, hk1, e1, e2, e3, hdead⟩ :=
      reapRecords_x hU hS (by omega) h1 (by omega) lowUse hR.nodup hL
    cases hr : reapRecords m d nn lowUse with
    | mk r rest =>
    obtain ⟨m1, d1, got⟩ := rest
    rw [hr] at hS1 hRr hL1 e1 e2 e3 hdead
    simp only at hS1 hRr hL1 e1 e2 e3 hdead
    have hR1 := hR.trans hRr
    by_cases hne : r = .err
    · -- reapRecords failed: the loop stops
      subst hne
      rw [primaryGC.go, if_neg he, hv']
      simp only [Bool.false_eq_true, if_false, hr]
      exact ⟨k1, pf, psp1, hS1, hR1⟩
    rw [pgcGo_unfold lowUse fuel nn ⟨m.pmax, pf⟩ m d budget recl he hv' hr hne]
    -- the optional unlink of the first file
    have hdrop : ∃ pf2, HState c U cfg m1
        (if r = .dead ∧ nn = pf then
          { d1 with phdr := some ⟨m.pmax, pf + 1⟩, pfiles := d1.pfiles.del nn } else d1) spec k1 B pf2
          psp1 ∧ pf2 ≤ nn + 1 ∧
        (if r = .dead ∧ nn = pf then ({ max := m.pmax, first := pf + 1 } : PriHeader)
          else ⟨m.pmax, pf⟩) = ⟨m1.pmax, pf2⟩ := by
      by_cases hd : r = .dead ∧ nn = pf
      · rw [if_pos hd, if_pos hd]
        obtain ⟨hd1, hd2⟩ := hd
        have hlt : pf < m1.pfileNum := by rw [e1, ← hd2]; omega
        have := drop_h hS1 (by omega) hlt (by rw [← hd2]; exact hdead hd1)
        rw [e2] at this
        rw [hd2]
        exact ⟨pf + 1, this, by omega, by rw [e2]⟩
      · rw [if_neg hd, if_neg hd]
        exact ⟨pf, hS1, by omega, by rw [e2]⟩
    obtain ⟨pf2, hS2, hpf2, hhdr⟩ := hdrop
    have hRd : Rel cfg m0 d0 m1 (if r = .dead ∧ nn = pf then
        { d1 with phdr := some ⟨m.pmax, pf + 1⟩, pfiles := d1.pfiles.del nn } else d1) := by
      split
      · exact hR1.trans (rel_frame hR1.nodup (fun _ h => h) (fun _ => rfl)
          (List.Perm.of_eq (recordedG_congr rfl rfl rfl)))
      · exact hR1
    have hLd : LInv cfg m1 (if r = .dead ∧ nn = pf then
        { d1 with phdr := some ⟨m.pmax, pf + 1⟩, pfiles := d1.pfiles.del nn } else d1) psp1 (nn + 1) := by
      split
      · intro b hb
        exact hL1 b hb
      · exact hL1
    have hS3 := hS2.visited (m1.visited ++ [nn])
    have hR3 : Rel cfg m0 d0 { m1 with visited := m1.visited ++ [nn] } (if r = .dead ∧ nn = pf then
        { d1 with phdr := some ⟨m.pmax, pf + 1⟩, pfiles := d1.pfiles.del nn } else d1) :=
      hRd.trans (rel_frame hRd.nodup (fun _ h => h) (fun _ => rfl)
        (List.Perm.of_eq (recordedG_congr rfl rfl rfl)))
    have hL3 : LInv cfg { m1 with visited := m1.visited ++ [nn] } (if r = .dead ∧ nn = pf then
        { d1 with phdr := some ⟨m.pmax, pf + 1⟩, pfiles := d1.pfiles.del nn } else d1) psp1 (nn + 1) :=
      hLd
    by_cases hp : (poll budget).1 = true
    · rw [if_pos hp]
      exact ⟨k1, pf2, psp1, hS3, hR3⟩
    · rw [if_neg hp]
      have hh : (if r = .dead ∧ nn = (⟨m.pmax, pf⟩ : PriHeader).first then
          ({ (⟨m.pmax, pf⟩ : PriHeader) with first := (⟨m.pmax, pf⟩ : PriHeader).first + 1 } : PriHeader)
          else ⟨m.pmax, pf⟩) = ⟨m1.pmax, pf2⟩ := hhdr
      rw [hh]
      exact ih (nn + 1) pf2 { m1 with visited := m1.visited ++ [nn] } _ (poll budget).2 (recl + got)
        k1 psp1 hS3 hR3 hL3 hpf2 (by show nn + 1 ≤ m1.pfileNum; omega)
        (by show k1 + 2 * (m1.pfileNum - (nn + 1)) < 1073741824; omega)

/-- the visited set is not part of what `Rel` speaks about -/
theorem Rel.visited {cfg : Cfg} {m0 m : Mem} {d0 d : Disk} (h : Rel cfg m0 d0 m d) (vis : List Nat) :
    Rel cfg m0 d0 { m with visited := vis } d :=
  h.trans (rel_frame h.nodup (fun _ h => h) (fun _ => rfl)
    (List.Perm.of_eq (recordedG_congr rfl rfl rfl)))

/-- a whole primary GC cycle -/
theorem primaryGC_rel (hU : Univ c.kind U) {m : Mem} {d : Disk} {k pf : Nat} {psp : Nat → List GSpan}
    (hS : HState c U cfg m d spec k B pf psp) (hnd : (recordedG ⟨cfg, m, d⟩).Nodup)
    (hk : 3 * k < 1073741824) (lowUse : Nat) (budget : Budget)
    {res : PgcRes × Mem × Disk × Budget} (hres : primaryGC m d lowUse budget = some res) :
    Rel cfg m d res.2.1 res.2.2.1 := by
  have hkind : m.kind = .mh := hS.gs.g.kind
  unfold primaryGC at hres
  have hp1 := freelistPass_h hU hS (by omega) budget
  have hr1 := freelistPass_rel hU hS hnd (by omega) budget
  obtain ⟨_, _, hgcok1⟩ := freelistPass_free (d := d) hkind budget
  cases hf1 : freelistPass m d budget with
  | mk r1 rest =>
  obtain ⟨m1, d1, b1, aff1⟩ := rest
  rw [hf1] at hres hp1 hr1 hgcok1
  simp only at hres hp1 hr1 hgcok1
  have hS1 : r1 ≠ .flushErr → (∃ psp1, HState c U cfg m1 d1 spec k B pf psp1) ∧ Rel cfg m d m1 d1 := by
    intro hne
    refine ⟨?_, ?_⟩
    · rcases hp1 with h | h
      · exact absurd h hne
      · exact h
    · rcases hr1 with h | h
      · exact absurd h hne
      · exact h
  cases r1 with
  | flushErr => cases hres
  | deadline => simp only [Option.some.injEq] at hres; subst hres; exact (hS1 (by decide)).2.visited _
  | err => simp only [Option.some.injEq] at hres; subst hres; exact (hS1 (by decide)).2.visited _
  | ok =>
  obtain ⟨⟨psp1, hS1'⟩, hR1⟩ := hS1 (by decide)
  have hgc1 : d1.freeGc = none := hgcok1 rfl
  have hkind1 : m1.kind = .mh := hS1'.gs.g.kind
  have hp2 := freelistPass_h hU hS1' (by omega) b1
  have hr2 := freelistPass_rel hU hS1' hR1.nodup (by omega) b1
  obtain ⟨q1, q2, hgcok2⟩ := freelistPass_free (d := d1) hkind1 b1
  obtain ⟨t1, t2, _⟩ := toGC_none (m := m1) hgc1
  cases hf2 : freelistPass m1 d1 b1 with
  | mk r2 rest =>
  obtain ⟨m2, d2, b2, aff2⟩ := rest
  rw [hf2] at hres hp2 hr2 q1 q2 hgcok2
  simp only at hres hp2 hr2 q1 q2 hgcok2
  have hS2 : r2 ≠ .flushErr → (∃ psp2, HState c U cfg m2 d2 spec k B pf psp2) ∧ Rel cfg m1 d1 m2 d2 := by
    intro hne
    refine ⟨?_, ?_⟩
    · rcases hp2 with h | h
      · exact absurd h hne
      · exact h
    · rcases hr2 with h | h
      · exact absurd h hne
      · exact h
  cases r2 with
  | flushErr => cases hres
  | deadline =>
    simp only [Option.some.injEq] at hres; subst hres; exact (hR1.trans (hS2 (by decide)).2).visited _
  | err =>
    simp only [Option.some.injEq] at hres; subst hres; exact (hR1.trans (hS2 (by decide)).2).visited _
  | ok =>
  obtain ⟨⟨psp2, hS2'⟩, hR2'⟩ := hS2 (by decide)
  have hR2 := hR1.trans hR2'
  have hS3 := hS2'.visited (m2.visited.filter (fun f => !(aff1 ++ aff2).contains f))
  have hR3 : Rel cfg m d { m2 with visited := m2.visited.filter (fun f => !(aff1 ++ aff2).contains f) }
      d2 :=
    hR2.trans (rel_frame hR2.nodup (fun _ h => h) (fun _ => rfl)
      (List.Perm.of_eq (recordedG_congr rfl rfl rfl)))
  -- nothing is recorded when the loop starts
  have hrec0 : ∀ vis : List Nat, recordedG ⟨cfg, { m2 with visited := vis }, d2⟩ = [] := by
    intro vis
    have a1 : flEntries d2 = [] := by
      unfold flEntries; rw [q1, t2]; simp [parseFreeList]
    have a2 : flGcEntries d2 = [] := flGcEntries_none (hgcok2 rfl)
    have a3 : m2.flpool = [] := by rw [q2, t1]
    unfold recordedG
    show flEntries d2 ++ flGcEntries d2 ++ m2.flpool = []
    rw [a1, a2, a3]; rfl
  have hL3 : LInv cfg { m2 with visited := m2.visited.filter (fun f => !(aff1 ++ aff2).contains f) }
      d2 psp2 pf := by
    intro b hb
    rw [hrec0 _] at hb
    cases hb
  have hh : d2.phdr = some ⟨m2.pmax, pf⟩ := hS2'.gs.hdr
  rw [hh] at hres
  simp only [Option.some.injEq] at hres
  subst hres
  have hle : m2.pfileNum ≤ k := by
    have h1 := GInv.pfile_le (s := ⟨cfg, m2, d2⟩) hS2'.gs.g
    have h2 : m2.precFileNum ≤ k := hS2'.gs.g.cntF
    exact Nat.le_trans h1 h2
  obtain ⟨k', pf', psp', _, g2⟩ := pgcGo_x (m0 := m) (d0 := d) hU lowUse (m2.pfileNum - pf + 1) pf pf
    { m2 with visited := m2.visited.filter (fun f => !(aff1 ++ aff2).contains f) } d2 b2 0 k psp2 hS3
    hR3 hL3 (Nat.le_refl _) hS2'.gs.log.le
    (by show k + 2 * (m2.pfileNum - pf) < 1073741824; omega)
  exact g2

end

end Sth.C13X
