/-
C03 — reachable states of histories with GC cycles: the shape recovery needs, and the two crash
statements about an interrupted GC cycle on them.
Core Lean only.
-/
import Sth.Lemmas.C03GcCrash
import Sth.Lemmas.C04M4

namespace Sth

section
variable {c : Cfg} {U : List (Bytes × Bytes)} {s : SState} {spec : Spec} {n B : Nat}

theorem DiskShape.of_ginv (hG : GInv c U s spec n B) (hD : DiskG s.d) : DiskShape c s.m s.d :=
  ⟨hG.y.bits, hG.y.imax, hD.snap, hG.y.ilog, hG.i.noFiles, hG.y.phdr,
    fun _ => hG.pno _ (Nat.lt_succ_self _)⟩

theorem DiskShape.of_inv (hcid : c.kind = .cid) (hI : Inv c U s spec n B) (hY : YInv c s)
    (hD : DiskG s.d) : DiskShape c s.m s.d :=
  ⟨hY.bits, hY.imax, hD.snap, hY.ilog, hI.i.noFiles, hY.phdr,
    fun hk => by rw [hcid] at hk; cases hk⟩

end

/-- what a history with GC cycles reaches: the recovery shape, a bound on the index file number, and —
    for the multihash primary — the GC invariant with the counter of the state as bound -/
theorem reachable_gc (c : Cfg) (hc : c.Legal) (U : List (Bytes × Bytes)) (hU : Univ c.kind U)
    (ops : List SOp)
    (hk : ∀ op ∈ ops, ∀ k, op.keyOf = some k → ∀ dig, keyClass c.kind k = .ok dig → (k, dig) ∈ U)
    (hs : SizesOK ops) (s0 : SState) (hi : initS c = some s0) (hb : GcCountersOK s0 ops) :
    DiskG (runS s0 ops).1.d ∧ DiskShape c (runS s0 ops).1.m (runS s0 ops).1.d ∧
      ((runS s0 ops).1.m.ifileNum < 1073741824 ∨ gcCnt (runS s0 ops).1 < 268435456 →
        (runS s0 ops).1.m.ifileNum < two32) ∧
      (c.kind = .cid → (runS s0 ops).1.m.ifileNum < 1073741824) ∧
      (c.kind = .mh → GInv c U (runS s0 ops).1 (specRun c.kind c.imm [] ops).1
        (gcCnt (runS s0 ops).1) (0 + (ops.map SOp.bytes).sum)) := by
  have hD : DiskG (runS s0 ops).1.d := runS_keeps ops s0 (diskG_init c hc s0 hi)
  have hlt : (runS s0 ops).1.m.ifileNum < 1073741824 ∨ gcCnt (runS s0 ops).1 < 268435456 →
      (runS s0 ops).1.m.ifileNum < two32 := by
    intro h
    unfold two32
    rcases h with h | h
    · omega
    · unfold gcCnt at h
      omega
  rcases (by cases c.kind <;> simp : c.kind = .mh ∨ c.kind = .cid) with hkind | hkind
  · obtain ⟨_, n', hG⟩ := run_g hc hU ops s0 [] 0 0 (ginv_init hc hkind hi) hk hb
      (by have := hs.2.1; omega)
    exact ⟨hD, DiskShape.of_ginv hG hD, hlt, fun h => (by rw [hkind] at h; cases h), fun _ => hG.tight⟩
  · obtain ⟨_, hI, hY⟩ := run_cid hc hkind hU ops s0 [] 0 0 (inv_init c hc _ s0 hi)
      (yinv_init c hc s0 hi) hk (by have := hs.1; omega) (by have := hs.2.1; omega)
    refine ⟨hD, DiskShape.of_inv hkind hI hY hD, hlt, fun _ => ?_, fun h => (by rw [hkind] at h; cases h)⟩
    have := hI.cnt.idx
    have := hs.1
    omega

section
variable {c : Cfg} {U : List (Bytes × Bytes)} {cfg : Cfg} {spec : Spec} {B : Nat}

/-- on a state satisfying the GC invariant the hand-over pass never fails in the primary flush -/
theorem freelistPass_noErr (hU : Univ c.kind U) {m : Mem} {d : Disk} {n : Nat}
    (hG : GInv c U ⟨cfg, m, d⟩ spec n B) (hn : n < 1073741824) (budget : Budget) :
    (freelistPass m d budget).1 ≠ .flushErr := by
  have hG0 := toGC_g hG
  unfold freelistPass
  cases htg : toGC m d with
  | mk m0 d0 =>
  rw [htg] at hG0
  simp only at hG0 ⊢
  obtain ⟨m1, d1, p1, _⟩ := priFlush_g (s := ⟨cfg, m0, d0⟩) hU hG0 hn
  rw [p1]
  simp only
  repeat' split
  all_goals (intro h; cases h)

theorem primaryGC_some (hU : Univ c.kind U) {m : Mem} {d : Disk} {k : Nat}
    (hG : GInv c U ⟨cfg, m, d⟩ spec k B) (hk : k < 1073741824) (lowUse : Nat) (budget : Budget) :
    ∃ res, primaryGC m d lowUse budget = some res := by
  unfold primaryGC
  have hp1 := freelistPass_g hU hG hk budget
  have hn1 := freelistPass_noErr hU hG hk budget
  cases hf1 : freelistPass m d budget with
  | mk r1 rest =>
  obtain ⟨m1, d1, b1, aff1⟩ := rest
  rw [hf1] at hp1 hn1
  simp only at hp1 hn1 ⊢
  cases r1 with
  | flushErr => exact absurd rfl hn1
  | deadline => exact ⟨_, rfl⟩
  | err => exact ⟨_, rfl⟩
  | ok =>
  have hG1 : GInv c U ⟨cfg, m1, d1⟩ spec k B := by
    rcases hp1 with h | h
    · cases h
    · exact h
  have hn2 := freelistPass_noErr hU hG1 hk b1
  cases hf2 : freelistPass m1 d1 b1 with
  | mk r2 rest =>
  obtain ⟨m2, d2, b2, aff2⟩ := rest
  rw [hf2] at hn2
  simp only at hn2 ⊢
  cases r2 with
  | flushErr => exact absurd rfl hn2
  | deadline => exact ⟨_, rfl⟩
  | err => exact ⟨_, rfl⟩
  | ok =>
    simp only
    split <;> exact ⟨_, rfl⟩

end

end Sth
