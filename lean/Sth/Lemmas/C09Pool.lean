/-
C09 — the heart of the index translation: re-inserting every live entry of the old index with
`poolPut` (Index.Put into a detached pool) for a new bit size yields, bucket by bucket, record lists
that satisfy the record-list invariant for the new bit size and hold exactly the same blocks.
Core Lean only.
-/
import Sth.Lemmas.C09Open

namespace Sth.C09

/-- one step of the re-insertion fold of `translateIndex` -/
def trStep (pm : Mem) (d : Disk) (nb : Nat) (pool : NMap RecordList) (e : Entry) :
    Option (NMap RecordList) :=
  match priGetIndexKey pm d e.blk with
  | .ok dig => poolPut (fun blk => fullOf { pm with bits := nb } d blk) nb pool dig e.blk
  | _ => none

section
variable {U : List (Bytes × Bytes)} {pm : Mem} {d : Disk} {nb : Nat} {below : Block → Prop}
  {spec : Spec}

/-- the invariant of the detached pool: `S` = blocks inserted so far -/
structure PoolInv (U : List (Bytes × Bytes)) (pm : Mem) (d : Disk) (nb : Nat) (below : Block → Prop)
    (spec : Spec) (pool : NMap RecordList) (S : List Block) : Prop where
  sorted : NMap.Sorted pool
  oinv : ∀ b rl, pool.get? b = some rl → OInv (ownOf pm.kind nb (priGet pm d)) rl
  blk : ∀ b rl, pool.get? b = some rl → ∀ e ∈ rl, e.blk ∈ S ∧
    BlockOK pm.kind nb U (priGet pm d) below spec b e.blk
  cover : ∀ x ∈ S, ∃ b rl, pool.get? b = some rl ∧ x ∈ rl.map (·.blk)
  len : pool.length ≤ S.length
  lt : ∀ b rl, pool.get? b = some rl → b < 2 ^ nb

theorem PoolInv.nil : PoolInv U pm d nb below spec [] [] :=
  ⟨NMap.sorted_nil, fun _ _ h => (by cases h), fun _ _ h => (by cases h), fun _ h => (by cases h),
    Nat.le_refl _, fun _ _ h => (by cases h)⟩

theorem dgOf_got {kind : PKind} {P : Block → PGet} {blk : Block} {k v dig : Bytes}
    (h1 : P blk = .got k v) (h2 : indexKeyOf kind k = some dig) : dgOf kind P blk = dig := by
  unfold dgOf; rw [h1]; simp [h2]

theorem fullOf_newbits {blk : Block} {sk : Key}
    (h : ownOf pm.kind nb (priGet pm d) blk = some sk) :
    fullOf { pm with bits := nb } d blk = .ok sk :=
  fullOf_of_own (m := { pm with bits := nb }) (d := d) h

/-- inserting one more entry, whose digest differs from all inserted so far -/
theorem poolPut_ok (hU : Univ pm.kind U) (h8 : 8 ≤ nb) (h31 : nb ≤ 31) {pool : NMap RecordList}
    {S : List Block} (hI : PoolInv U pm d nb below spec pool S) {x : Block} {b0 ob : Nat}
    (hx : BlockOK pm.kind ob U (priGet pm d) below spec b0 x)
    (hnew : ∀ y ∈ S, dgOf pm.kind (priGet pm d) y ≠ dgOf pm.kind (priGet pm d) x) :
    ∃ pool', trStep pm d nb pool ⟨[], x⟩ = some pool' ∧
      PoolInv U pm d nb below spec pool' (x :: S) := by
  obtain ⟨key, val, dig, hP, hmem, _, hsz, hspec⟩ := hx.ex
  have hik := (hU.dig hmem).1
  have hdx : dgOf pm.kind (priGet pm d) x = dig := dgOf_got hP hik
  rw [hdx] at hnew
  obtain ⟨b, hb⟩ := bucketOfKey_isSome (bits := nb) (hU.dig hmem).2.1
  have hstrip := stripKey_of_bucket nb h31 dig b hb
  have hown : ownOf pm.kind nb (priGet pm d) x = some (dig.drop (nb / 8)) :=
    ownOf_got hP hik hstrip.1
  have hbx : BlockOK pm.kind nb U (priGet pm d) below spec b x :=
    ⟨⟨key, val, dig, hP, hmem, hb, hsz, hspec⟩, hx.below, hx.off, hx.size⟩
  have hgik : priGetIndexKey pm d x = .ok dig := by
    unfold priGetIndexKey; simp only [hP, hik]
  -- the list of the bucket after the put
  have hput : ∃ rl', indexPut (fun blk => fullOf { pm with bits := nb } d blk) (pool.get? b)
        (dig.drop (nb / 8)) x = .set rl' ∧
      OInv (ownOf pm.kind nb (priGet pm d)) rl' ∧
      (rl'.map (·.blk)).Perm (x :: ((pool.get? b).getD []).map (·.blk)) := by
    cases hg : pool.get? b with
    | none =>
      have := indexPut_none_ok' (own := ownOf pm.kind nb (priGet pm d))
        (fun blk => fullOf { pm with bits := nb } d blk) hstrip.2.1 hown
      exact ⟨_, this.1, this.2, by simp⟩
    | some rl =>
      simp only [Option.getD_some]
      have ho := hI.oinv b rl hg
      have hB := hI.blk b rl hg
      apply indexPut_absent' (fun blk => fullOf { pm with bits := nb } d blk) ho hstrip.2.1 _ hown
      · intro hm
        obtain ⟨e, he, heq⟩ := List.mem_map.mp hm
        have := hnew e.blk (hB e he).1
        rw [heq, hdx] at this
        exact this rfl
      · intro e he ko hko
        exact fullOf_newbits hko
      · intro e he ko hko
        obtain ⟨key0, val0, dig0, e1, e2, e3, _, e5⟩ := (hB e he).2.own hU h31
        rw [hko] at e5
        cases e5
        have hne : dig ≠ dig0 := by
          intro heq
          have := hnew e.blk (hB e he).1
          rw [dgOf_got e1 (hU.dig e2).1] at this
          exact this heq.symm
        exact hU.apart h8 h31 hmem e2 hne hb e3
  obtain ⟨rl', hset, horl', hperm⟩ := hput
  have hblk' : ∀ e ∈ rl', e.blk ∈ x :: S ∧ BlockOK pm.kind nb U (priGet pm d) below spec b e.blk := by
    intro e he
    have hm : e.blk ∈ rl'.map (·.blk) := List.mem_map_of_mem he
    rw [hperm.mem_iff, List.mem_cons] at hm
    rcases hm with hm | hm
    · rw [hm]; exact ⟨by simp, hbx⟩
    · cases hg : pool.get? b with
      | none => rw [hg] at hm; simp at hm
      | some rl =>
        rw [hg] at hm
        simp only [Option.getD_some] at hm
        obtain ⟨e0, he0, heq⟩ := List.mem_map.mp hm
        rw [← heq]
        exact ⟨List.mem_cons_of_mem _ (hI.blk b rl hg e0 he0).1, (hI.blk b rl hg e0 he0).2⟩
  have hnorm : normRL rl' = rl' :=
    normRL_of_wf (wf_of_inv hU h31 horl' (fun e he => (hblk' e he).2))
  refine ⟨pool.set b rl', ?_, ?_⟩
  · unfold trStep poolPut
    simp only [hgik, hb, hstrip.1, Option.getD_some, hset, hnorm]
  · constructor
    · exact NMap.sorted_set _ _ hI.sorted
    · intro b' rl1 hg1
      rw [NMap.get?_set] at hg1
      split at hg1
      · cases hg1; exact horl'
      · exact hI.oinv b' rl1 hg1
    · intro b' rl1 hg1
      rw [NMap.get?_set] at hg1
      split at hg1
      · rename_i hbb
        cases hg1
        rw [hbb]
        exact hblk'
      · intro e he
        exact ⟨List.mem_cons_of_mem _ (hI.blk b' rl1 hg1 e he).1, (hI.blk b' rl1 hg1 e he).2⟩
    · intro y hy
      rw [List.mem_cons] at hy
      rcases hy with rfl | hy
      · refine ⟨b, rl', NMap.get?_set_eq _ _ _, ?_⟩
        rw [hperm.mem_iff]; simp
      · obtain ⟨b1, rl1, g1, g2⟩ := hI.cover y hy
        by_cases hbb : b1 = b
        · subst hbb
          refine ⟨b1, rl', NMap.get?_set_eq _ _ _, ?_⟩
          rw [hperm.mem_iff, g1]
          exact List.mem_cons_of_mem _ g2
        · exact ⟨b1, rl1, by rw [NMap.get?_set_ne _ _ hbb]; exact g1, g2⟩
    · have := NMap.length_set_le pool b rl'
      have := hI.len
      simp only [List.length_cons]
      omega
    · intro b' rl1 hg1
      rw [NMap.get?_set] at hg1
      split at hg1
      · rename_i hbb
        rw [hbb]
        exact bucket_lt _ _ _ hb
      · exact hI.lt b' rl1 hg1

theorem trStep_blk (pool : NMap RecordList) (e : Entry) :
    trStep pm d nb pool e = trStep pm d nb pool ⟨[], e.blk⟩ := rfl

/-- the whole re-insertion fold -/
theorem poolFold_ok (hU : Univ pm.kind U) (h8 : 8 ≤ nb) (h31 : nb ≤ 31) {ob : Nat} :
    ∀ (es : List Entry) (pool : NMap RecordList) (S : List Block),
      PoolInv U pm d nb below spec pool S →
      (∀ e ∈ es, ∃ b0, BlockOK pm.kind ob U (priGet pm d) below spec b0 e.blk) →
      es.Pairwise (fun a b => dgOf pm.kind (priGet pm d) a.blk ≠ dgOf pm.kind (priGet pm d) b.blk) →
      (∀ y ∈ S, ∀ e ∈ es, dgOf pm.kind (priGet pm d) y ≠ dgOf pm.kind (priGet pm d) e.blk) →
      ∃ pool', es.foldlM (trStep pm d nb) pool = some pool' ∧
        PoolInv U pm d nb below spec pool' ((es.map (·.blk)).reverse ++ S)
  | [], pool, S, hI, _, _, _ => ⟨pool, rfl, by simpa using hI⟩
  | e :: es, pool, S, hI, hE, hpw, hS => by
    obtain ⟨b0, hx⟩ := hE e (by simp)
    rw [List.pairwise_cons] at hpw
    obtain ⟨pool1, s1, s2⟩ := poolPut_ok hU h8 h31 hI hx (fun y hy => hS y hy e (by simp))
    obtain ⟨pool', f1, f2⟩ := poolFold_ok hU h8 h31 es pool1 (e.blk :: S) s2
      (fun e' he' => hE e' (by simp [he'])) hpw.2 (by
        intro y hy e' he'
        rw [List.mem_cons] at hy
        rcases hy with rfl | hy
        · exact hpw.1 e' he'
        · exact hS y hy e' (by simp [he']))
    refine ⟨pool', ?_, ?_⟩
    · rw [List.foldlM_cons, trStep_blk, s1]
      exact f1
    · simpa [List.append_assoc] using f2

end

end Sth.C09
