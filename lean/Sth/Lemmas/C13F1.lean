/-
C13F (1): the invariant of the concurrent freelist hand-over model (Sth/Model/FreeConc.lean) and its preservation by
every section of every thread.
-/
import Sth.Model.FreeConc

namespace Sth.FreeConc

/-! ### lists -/

theorem flatMap_set_same {α β : Type} (f : α → List β) (l : List α) (i : Nat) (t t' : α)
    (hi : l[i]? = some t) (hf : f t' = f t) : (l.set i t').flatMap f = l.flatMap f := by
  induction l generalizing i with
  | nil => simp
  | cons a l ih =>
    cases i with
    | zero => simp at hi; subst hi; simp [hf]
    | succ i => simp at hi; simp [ih i hi]

theorem flatMap_others_nil {α β : Type} (f : α → List β) (l : List α) (i : Nat) (t : α)
    (hi : l[i]? = some t) (ho : ∀ j u, l[j]? = some u → j ≠ i → f u = []) :
    l.flatMap f = f t ∧ ∀ t', (l.set i t').flatMap f = f t' := by
  induction l generalizing i with
  | nil => simp at hi
  | cons a l ih =>
    cases i with
    | zero =>
      simp at hi; subst hi
      have hn : l.flatMap f = [] := by
        rw [List.flatMap_eq_nil_iff]
        intro u hu
        obtain ⟨j, hj, rfl⟩ := List.getElem_of_mem hu
        exact ho (j + 1) _ (by simp [hj]) (by omega)
      simp [hn]
    | succ i =>
      simp at hi
      have ha : f a = [] := ho 0 a (by simp) (by omega)
      have := ih i hi (fun j u hj hji => ho (j + 1) u (by simpa using hj) (by omega))
      simp [ha, this.1, this.2]

/-! ### the invariant -/

def FileOK (s : State) : Prop := s.file.isSome = true ∧ s.fileOpen = true

/-- what the collector's pc says about the files -/
def CollOK (s : State) : Pc → Prop
  | .togcClosed => s.file.isSome = true ∧ s.fileOpen = false ∧ s.gc = none
  | .togcRenamed => s.file.isSome = false ∧ s.fileOpen = false
  | .togcStatted => s.gc = none ∧ FileOK s
  | .flushing _ true => s.gc = none ∧ FileOK s
  | .togcFlushed => s.gc = none ∧ FileOK s
  | _ => FileOK s

/-- the invariant; `c` is the collector thread -/
structure Inv (c : Nat) (s : State) : Prop where
  acct : account s = putBlocks s
  nodrop : s.dropped = []
  lockLt : ∀ h, s.flushLock = some h → h < s.threads.length
  lock : ∀ i t, s.threads[i]? = some t → (t.pc.holds = true ↔ s.flushLock = some i)
  writers : ∀ i t, s.threads[i]? = some t → i ≠ c → t.pc.writer = true ∧ t.prog.all Op.writer = true
  coll : CollOK s (pcOf s c)

theorem blocks_of_not_holds (p : Pc) (h : p.holds = false) : p.blocks = [] := by
  cases p <;> simp_all [Pc.holds, Pc.blocks]

theorem Inv.others_nil {c : Nat} {s : State} (h : Inv c s) (i : Nat)
    (hl : s.flushLock = none ∨ s.flushLock = some i) :
    ∀ j u, s.threads[j]? = some u → j ≠ i → u.pc.blocks = [] := by
  intro j u hj hji
  apply blocks_of_not_holds
  have := h.lock j u hj
  cases hh : u.pc.holds with
  | false => rfl
  | true =>
    have := this.1 hh
    rcases hl with hl | hl <;> simp_all

/-- Flush's section 2 finds the file present and open -/
theorem Inv.flushing_fileOK {c : Nat} {s : State} (h : Inv c s) {i : Nat} {t : Thread} (hi : s.threads[i]? = some t)
    {bs : List Blk} {k : Bool} (hp : t.pc = .flushing bs k) : FileOK s := by
  have hlk : s.flushLock = some i := (h.lock i t hi).1 (by simp [hp, Pc.holds])
  have hc := h.coll
  by_cases hic : i = c
  · subst hic
    simp [pcOf, hi, hp] at hc
    cases k <;> simp_all [CollOK]
  · unfold pcOf at hc
    cases hct : s.threads[c]? with
    | none => simpa [hct, CollOK] using hc
    | some u =>
      have hlu := h.lock c u hct
      simp [hct] at hc
      have hne : s.flushLock ≠ some c := by rw [hlk]; simp; exact hic
      have hnh : u.pc.holds = false := by
        cases hh : u.pc.holds with
        | false => rfl
        | true => exact absurd (hlu.1 hh) hne
      cases hu : u.pc <;> simp_all [CollOK, Pc.holds]

/-- with the lock free the freelist file exists and is open -/
theorem Inv.unlocked_fileOK {c : Nat} {s : State} (h : Inv c s) (hl : s.flushLock = none) : FileOK s := by
  have hc := h.coll
  unfold pcOf at hc
  cases hct : s.threads[c]? with
  | none => simpa [hct, CollOK] using hc
  | some u =>
    have hlu := h.lock c u hct
    simp [hct] at hc
    have hnh : u.pc.holds = false := by
      cases hh : u.pc.holds with
      | false => rfl
      | true => have := hlu.1 hh; simp_all
    cases hu : u.pc <;> simp_all [CollOK, Pc.holds]

end Sth.FreeConc
