/-
C10 widened (U1) — the upgrading OpenStore evaluated on a legacy directory with unmappable entries,
multi-chunk case (a remapper exists): the directory before the pool flush is the one of the plain
development (`diskU`, in-place lists with rejected offsets 0), and the removal pool is `poolC`.
Core Lean only.
-/
import Sth.Lemmas.C10BPool

namespace Sth

namespace C10B

open LegacyC

variable {c : Cfg} {U : List (Bytes × Bytes)} {C : LegacyC}

theorem remapFile_lgR {remap : Nat → Option Nat} {imax f : Nat} {lg : Nat → List LRec} {T : NMap Nat}
    {cur : Nat → Option RecordList} (hs : NMap.Sorted T) (hok : FileOKB remap imax f (lg f) T cur) :
    remapFile remap imax T f (logBytes (lg f)) =
      some (logBytes (lgR remap imax T lg f), List.foldl (poolStep remap imax f cur) [] T) := by
  rw [remapFile_log hok]
  unfold lgR
  congr 3
  apply rmP_congr
  intro pre r post _
  exact memS_eq_pT hs _ _

theorem remapFiles_fold {remap : Nat → Option Nat} {imax : Nat} {lg : Nat → List LRec} {T : NMap Nat}
    {cur : Nat → Option RecordList} (hs : NMap.Sorted T) :
    ∀ (fl : List Nat) (ud : UDir) (pool : NMap RecordList), fl.Nodup → ud.tmp = [] →
      (∀ f ∈ fl, f ∉ ud.marked) →
      (∀ f ∈ fl, ud.disk.ifiles.get? f = some (logBytes (lg f)) ∧ FileOKB remap imax f (lg f) T cur) →
      ∃ ifs, fl.foldlM (remapOneFile remap imax T) (ud, pool) =
          some ({ ud with disk := { ud.disk with ifiles := ifs }, marked := fl.reverse ++ ud.marked },
            totalPool remap imax cur T fl pool) ∧
        ∀ f, ifs.get? f = if f ∈ fl then some (logBytes (lgR remap imax T lg f)) else ud.disk.ifiles.get? f := by
  intro fl
  induction fl with
  | nil =>
    intro ud pool _ _ _ _
    exact ⟨ud.disk.ifiles, by simp [totalPool], fun f => by simp⟩
  | cons f fl ih =>
    intro ud pool hnd htmp hmk hfiles
    obtain ⟨hget, hok⟩ := hfiles f (by simp)
    have hnm : ud.marked.contains f = false := by
      rw [List.contains_eq_mem]; simpa using hmk f (by simp)
    have hstep : remapOneFile remap imax T (ud, pool) f =
        some ({ ud with disk := { ud.disk with ifiles := ud.disk.ifiles.set f (logBytes (lgR remap imax T lg f)) },
                        marked := f :: ud.marked },
              mergePool pool (List.foldl (poolStep remap imax f cur) [] T)) := by
      unfold remapOneFile
      simp only [hnm, Bool.false_eq_true, if_false, hget, remapFile_lgR hs hok, htmp]
      rfl
    rw [List.foldlM_cons, hstep]
    simp only [Option.bind_eq_bind, Option.bind_some]
    rw [List.nodup_cons] at hnd
    obtain ⟨ifs, h1, h2⟩ := ih
      { ud with disk := { ud.disk with ifiles := ud.disk.ifiles.set f (logBytes (lgR remap imax T lg f)) },
                marked := f :: ud.marked }
      (mergePool pool (List.foldl (poolStep remap imax f cur) [] T)) hnd.2 htmp
      (by
        intro f' hf' hm
        simp only [List.mem_cons] at hm
        rcases hm with hm | hm
        · rw [hm] at hf'; exact hnd.1 hf'
        · exact hmk f' (List.mem_cons_of_mem _ hf') hm)
      (by
        intro f' hf'
        have hne : f' ≠ f := fun e => hnd.1 (e ▸ hf')
        obtain ⟨g1, g2⟩ := hfiles f' (List.mem_cons_of_mem _ hf')
        refine ⟨?_, g2⟩
        show (ud.disk.ifiles.set f _).get? f' = _
        rw [NMap.get?_set_ne _ _ hne]
        exact g1)
    refine ⟨ifs, ?_, ?_⟩
    · rw [h1]
      simp [totalPool]
    · intro f'
      rw [h2]
      show (if f' ∈ fl then _ else (ud.disk.ifiles.set f _).get? f') = _
      rw [NMap.get?_set]
      by_cases hf' : f' ∈ fl
      · simp [hf']
      · by_cases he : f' = f
        · subst he; simp [hf']
        · simp [hf', he]

theorem lg_recOK (hwf : LegacyWFBadU c U C) (f : Nat) : ∀ r ∈ C.lg c.ifs f, RecLogOK c.bits r ∧ FlushOK r.2 :=
  fun r hr => hwf.gensOK r (C.lg_mem c.ifs f r hr)

theorem gens_enc32 (hwf : LegacyWFBadU c U C) : ∀ r ∈ C.gens, (encodeRL r.2).length + 4 < two32 :=
  fun r hr => (hwf.gensOK r hr).2.2

theorem fileOK (hc : c.Legal) (hwf : LegacyWFBadU c U C) (hn2 : C.gens.length < 1073741824)
    (f : Nat) (hf : f ≤ C.lastI c) :
    FileOKB (C.remapC c) c.ifs f (C.lg c.ifs f) (C.tableT c) (fun b => C.table.get? b) := by
  have hsorted : NMap.Sorted (C.tableT c) := scanTo_sorted _ _ _
  refine ⟨NMap.keys_nodup hsorted, fun pre r post h => C.lg_start_lt c.ifs hc.2.2.1 f pre post r h,
    by have := lastI_lt (c := c) hn2; unfold two32; omega, hc.2.2.1, ?_⟩
  intro b pos hmem _ hfile
  have hget := NMap.get?_of_mem_sorted hsorted hmem
  obtain ⟨rl, f0, pre, post, h1, h2, h3, h4, h5, h6⟩ := table_at hc hn2 b pos hget
  rw [h6] at hfile
  simp only at hfile
  subst hfile
  exact ⟨pre, rl, post, h3, h4, (lg_recOK hwf f0 (b, rl) (by rw [h3]; simp)).2, h1⟩

/-- the removal pool of the upgrade -/
def poolC (c : Cfg) (C : LegacyC) : NMap RecordList :=
  totalPool (C.remapC c) c.ifs (fun b => C.table.get? b) (C.tableT c) (bucketFiles c.ifs (C.tableT c)) []

theorem remapIndexU_b (hc : c.Legal) (hwf : LegacyWFBadU c U C) (hn2 : C.gens.length < 1073741824)
    (hnr : needRemap c.pfs (C.psizes c) = true) (dl : Option Bytes) (files' : NMap Bytes)
    (hfiles : ∀ f, files'.get? f = (setFiles [] 0 (C.ifilesL c.ifs)).get? f) :
    ∃ ifs, remapIndexU { data := dl, disk := C.diskPre c files' } ⟨c.bits, c.ifs, 0, 0⟩ c.pfs 0 (C.lastP c)
        (C.tableT c) [] = some ({ data := dl, disk := C.diskU c ifs }, poolC c C) ∧
      (∀ f, f ≤ C.lastI c → ifs.get? f = some (logBytes (C.lgU c f))) ∧
      (∀ f, C.lastI c < f → ifs.get? f = none) := by
  unfold remapIndexU
  have hsz : primarySizes ({ data := dl, disk := C.diskPre c files' } : UDir).disk.pfiles (C.lastP c + 1 - 0) 0 =
      C.psizes c := psizes_eq
  simp only [hsz, hnr, Bool.not_true, Bool.false_eq_true, if_false, fixOrder_nil]
  have hsorted : NMap.Sorted (C.tableT c) := scanTo_sorted _ _ _
  have hin : ∀ f ∈ bucketFiles c.ifs (C.tableT c), f ≤ C.lastI c := by
    intro f hf
    rw [mem_bucketFiles] at hf
    obtain ⟨⟨b, pos⟩, h1, _, h3⟩ := hf
    have hget := NMap.get?_of_mem_sorted hsorted h1
    obtain ⟨rl, f0, pre, post, _, g2, _, _, _, g6⟩ := table_at hc hn2 b pos hget
    simp only at h3
    rw [g6] at h3
    simp only at h3
    omega
  obtain ⟨ifs, h1, h2⟩ := remapFiles_fold (remap := C.remapC c) (imax := c.ifs) (lg := C.lg c.ifs)
    (cur := fun b => C.table.get? b) hsorted
    (bucketFiles c.ifs (C.tableT c)) { data := dl, disk := C.diskPre c files' } [] (bucketFiles_nodup _ _) rfl
    (fun f _ hm => by cases hm)
    (fun f hf => ⟨by
      show files'.get? f = _
      rw [hfiles, ifiles0_get f (hin f hf)], fileOK hc hwf hn2 f (hin f hf)⟩)
  refine ⟨ifs, ?_, ?_, ?_⟩
  · have h1' : (bucketFiles c.ifs (C.tableT c)).foldlM
        (remapOneFile (remapOff 0 c.pfs (C.psizes c)) c.ifs (C.tableT c))
        (({ data := dl, disk := C.diskPre c files' } : UDir), ([] : NMap RecordList)) = _ := h1
    simp only [h1', filter_not_contains_rev]
    rfl
  · intro f hf
    rw [h2]
    by_cases hm : f ∈ bucketFiles c.ifs (C.tableT c)
    · rw [if_pos hm]; rfl
    · rw [if_neg hm]
      show files'.get? f = _
      rw [hfiles, ifiles0_get f hf, lgU_not_in hc hn2 f hf hm]
  · intro f hf
    rw [h2]
    have hm : f ∉ bucketFiles c.ifs (C.tableT c) := fun hm => by have := hin f hm; omega
    rw [if_neg hm]
    show files'.get? f = _
    rw [hfiles, ifiles0_none f hf]

theorem openIndexU_chunked_b (hc : c.Legal) (hwf : LegacyWFBadU c U C) (hn2 : C.gens.length < 1073741824)
    (hnr : needRemap c.pfs (C.psizes c) = true) (dl : Option Bytes) :
    ∃ ifs, openIndexU c c.pfs 0 (C.lastP c)
        { data := dl, disk := C.diskPre c (setFiles [] 0 (C.ifilesL c.ifs)) } [] =
        some ({ data := dl, disk := C.diskU c ifs }, c.bits, c.ifs, C.tableT c, C.lastI c, poolC c C) ∧
      (∀ f, f ≤ C.lastI c → ifs.get? f = some (logBytes (C.lgU c f))) ∧
      (∀ f, C.lastI c < f → ifs.get? f = none) := by
  obtain ⟨p1, p2, p3, p4⟩ := openIndex_pre c hc
  have hscan := openIndex_scan0 c hc (C.diskPre c (setFiles [] 0 (C.ifilesL c.ifs)))
    (C.lastI c) (C.lg c.ifs) rfl rfl (fun f hf => ifiles0_get f hf) (ifiles0_none _ (by omega))
    (fun f _ r hr => (lg_recOK hwf f r hr).1)
  obtain ⟨files', hs1, hs2⟩ := hscan
  obtain ⟨ifs, hr1, hr2, hr3⟩ := remapIndexU_b hc hwf hn2 hnr dl files' hs2
  refine ⟨ifs, ?_, hr2, hr3⟩
  unfold openIndexU
  simp only [p1, p2, if_false, p4]
  have hup : upgradeIndexU c.ifs { data := dl, disk := C.diskPre c (setFiles [] 0 (C.ifilesL c.ifs)) } =
      some { data := dl, disk := C.diskPre c (setFiles [] 0 (C.ifilesL c.ifs)) } := rfl
  have e3 : ¬ (c.bits ≠ 0 ∧ False) := fun h => h.2
  rw [if_neg e3, hup]
  have hr1' : remapIndexU { data := dl, disk := C.diskPre c files' } ⟨c.bits, c.ifs, 0, 0⟩ c.pfs 0
      (C.lastP c) (scanTo c.ifs (C.lg c.ifs) (C.lastI c)) [] =
      some ({ data := dl, disk := C.diskU c ifs }, poolC c C) := hr1
  simp only [diskPre] at hs1 hr1' ⊢
  simp only [if_true]
  rw [hs1]
  simp only
  rw [hr1']
  rfl

theorem openIndexU_legacy_b (hc : c.Legal) (hwf : LegacyWFBadU c U C) (hn2 : C.gens.length < 1073741824)
    (hnr : needRemap c.pfs (C.psizes c) = true) (dl : Option Bytes) :
    ∃ ifs, openIndexU c c.pfs 0 (C.lastP c)
        { data := dl, index := some C.dir.index, disk := C.diskP c } [] =
        some ({ data := dl, disk := C.diskU c ifs }, c.bits, c.ifs, C.tableT c, C.lastI c, poolC c C) ∧
      (∀ f, f ≤ C.lastI c → ifs.get? f = some (logBytes (C.lgU c f))) ∧
      (∀ f, C.lastI c < f → ifs.get? f = none) := by
  obtain ⟨p1, p2, p3, p4⟩ := openIndex_pre c hc
  obtain ⟨ifs, h1, h2, h3⟩ := openIndexU_chunked_b hc hwf hn2 hnr dl
  refine ⟨ifs, ?_, h2, h3⟩
  rw [← h1]
  have hup := upgradeIndexU_legacy (c := c) (C := C) (gens_enc32 hwf) dl (C.diskP c)
  have hup2 : upgradeIndexU c.ifs { data := dl, disk := C.diskPre c (setFiles [] 0 (C.ifilesL c.ifs)) } =
      some { data := dl, disk := C.diskPre c (setFiles [] 0 (C.ifilesL c.ifs)) } := rfl
  have e1 : ({ data := dl, index := some C.dir.index, disk := C.diskP c } : UDir) =
      { data := dl, index := some ([2, 0, 0, 0, 2, C.bits] ++ logBytes C.gens), disk := C.diskP c } := rfl
  have e2 : ({ data := dl, disk := { C.diskP c with ifiles := setFiles (C.diskP c).ifiles 0 (C.ifilesL c.ifs),
                                                     ihdr := some ⟨C.bits, c.ifs, 0, 0⟩ } } : UDir) =
      { data := dl, disk := C.diskPre c (setFiles [] 0 (C.ifilesL c.ifs)) } := by
    rw [hwf.bits]; rfl
  unfold openIndexU
  simp only [p1, p2, if_false, p4]
  rw [e1, hup, e2, hup2]

/-- the memory state and directory after the pool flush in order `order` -/
def flushedU (c : Cfg) (C : LegacyC) (ifs : NMap Bytes) (order : List Nat) : Mem × Disk :=
  idxFlush { C.memU c ifs with inext := poolC c C } (C.diskU c ifs) (fixOrder order (poolC c C).keys)

/-- the upgrading OpenStore on a legacy directory with unmappable entries, multi-chunk case -/
theorem upgradeOpen_b (hc : c.Legal) (hk : c.kind = .mh) (hwf : LegacyWFBadU c U C)
    (hn1 : C.recs.length < 1073741824) (hn2 : C.gens.length < 1073741824)
    (hnr : needRemap c.pfs (C.psizes c) = true) (order : List Nat) :
    ∃ ifs, upgradeOpen c C.dir order =
        (if (poolC c C).isEmpty then some (C.diskU c ifs, C.memU c ifs)
         else some ((flushedU c C ifs order).2, { (flushedU c C ifs order).1 with icur := [] })) ∧
      (∀ f, f ≤ C.lastI c → ifs.get? f = some (logBytes (C.lgU c f))) ∧
      (∀ f, C.lastI c < f → ifs.get? f = none) := by
  obtain ⟨ifs, hi1, hi2, hi3⟩ := openIndexU_legacy_b hc hwf hn2 hnr none
  refine ⟨ifs, ?_, hi2, hi3⟩
  unfold upgradeOpen openU
  simp only [hk, ne_eq, not_true_eq_false, if_false]
  have hprim := openPrimaryU_legacy c hc C hwf.recSize hwf.freedOK hn1 (some C.dir.index)
  have e0 : ({ UDir.ofLegacy C.dir with disk := openFreelist (UDir.ofLegacy C.dir).disk } : UDir) =
      { data := some (legacyPrimary C.recs), index := some C.dir.index,
        disk := openFreelist { free := C.dir.free } } := rfl
  rw [e0, hprim]
  simp only
  have hi1' : openIndexU c c.pfs 0 ((C.pfilesL c.pfs).length - 1)
      { data := none, index := some C.dir.index,
        disk := { free := some [], freeGc := none, pfiles := setFiles [] 0 (C.pfilesL c.pfs),
                  phdr := some ⟨c.pfs, 0⟩ } } [] = _ := hi1
  rw [hi1']
  simp only
  by_cases hp : (poolC c C).isEmpty = true
  · simp only [hp, if_true]
    rfl
  · simp only [hp, if_false]
    rfl

end C10B

end Sth
