/-
C03 — a crash at any point of Store.Flush loses at most unflushed work: assembly of the crash-image
analysis (Sth/Lemmas/C03*.lean) into statements about Get on the recovered store.
Core Lean only.
-/
import Sth.Lemmas.C03Inv

namespace Sth

/-- what Get answers for a digest in a specification map -/
def getResOf : Option (Bytes × Bytes) → GetRes
  | some (_, v) => .found v
  | none => .absent

section
variable {c : Cfg} {U : List (Bytes × Bytes)} {s : SState} {spec specD : Spec} {n B : Nat}

/-- every crash image of a flush of a reachable state recovers, and every bucket of the recovered state
    reads like the recovery of the old disk or like the flushed state -/
theorem crash_buckets (hc : c.Legal) (hU : Univ c.kind U) (hI : Inv c U s spec n B) (hX : XInv c s)
    (hD : DiskWF s.d) (hn : n < 1073741824) (hB : B < two31) {dOld : Disk} {mOld : Mem}
    (hold : openStoreR c s.d = (dOld, .ok mOld)) (hAold : SInv U mOld dOld specD)
    (order : List Nat) (k : Nat) (early : Bool) :
    ∃ m' d', storeFlush s.m s.d (fixOrder order s.m.inext.keys) = some (m', d') ∧
      Inv c U ⟨s.cfg, m', d'⟩ spec n B ∧ XInv c ⟨s.cfg, m', d'⟩ ∧
      ∃ dr mr, ∃ newB : List Nat,
        openStoreR c (crashImage s.d (appendStream s.d d') k early) = (dr, .ok mr) ∧
        RecInv c mr dr n B ∧
        ∀ b, (b ∉ newB → BucketSame c.kind mr dr mOld dOld b) ∧
          (b ∈ newB → BucketSame c.kind mr dr m' d' b) := by
  obtain ⟨m1, d1, m2, d2, lg, p1, i1, hI2, hX2, hin, hpn, _, _, _, hd2, _⟩ :=
    flush_parts hU hI hX hD hn hB order
  have hfree : d2.free = s.d.free := by
    have := congrArg Disk.free hd2; exact this
  by_cases ho : outstanding s.m = true
  · obtain ⟨fl, fr, f1, f2⟩ := storeFlush_out p1 i1 ho
    rw [hfree] at f1
    obtain ⟨m1', d1', m2', d2', p1', i1', dr, mr, newB, r1, r2, r4⟩ :=
      crash_core hc hU hI hX hD hn hB hold hAold order fr f1 k early
    rw [p1] at p1'
    simp only [Option.some.injEq, Prod.mk.injEq] at p1'
    obtain ⟨rfl, rfl⟩ := p1'
    rw [i1] at i1'
    simp only [Prod.mk.injEq] at i1'
    obtain ⟨rfl, rfl⟩ := i1'
    exact ⟨_, _, f2, hI2.frame_ff fl fr d2.snap, hX2.frame_ff fl fr d2.snap, dr, mr, newB, r1, r2, r4⟩
  · obtain ⟨f1, _, _, f4, f5⟩ :=
      storeFlush_idle (d := s.d) (order := fixOrder order s.m.inext.keys) ho
    obtain ⟨m1', d1', m2', d2', p1', i1', dr, mr, newB, r1, r2, r4⟩ :=
      crash_core hc hU hI hX hD hn hB hold hAold order s.d.free (Or.inl rfl) k early
    rw [f4] at p1'
    simp only [Option.some.injEq, Prod.mk.injEq] at p1'
    obtain ⟨rfl, rfl⟩ := p1'
    rw [f5] at i1'
    simp only [Prod.mk.injEq] at i1'
    obtain ⟨rfl, rfl⟩ := i1'
    exact ⟨_, _, f1, hI, hX, dr, mr, newB, r1, r2, r4⟩

/-- Get on the recovered store: old or new per key (for every byte string), stated against the maps
    for the keys of the universe, and malformed keys are refused as ever -/
theorem crash_recovers (hc : c.Legal) (hU : Univ c.kind U) (hI : Inv c U s spec n B) (hX : XInv c s)
    (hD : DiskWF s.d) (hDur : Durable c U s.d specD) (hn : n < 1073741824) (hB : B < two31)
    (order : List Nat) (k : Nat) (early : Bool) :
    ∃ m' d', storeFlush s.m s.d (fixOrder order s.m.inext.keys) = some (m', d') ∧
      ∃ dOld mOld, openStoreR c s.d = (dOld, .ok mOld) ∧
      ∃ dr mr, openStoreR c (crashImage s.d (appendStream s.d d') k early) = (dr, .ok mr) ∧
        (∀ key, (storeGet mr dr key).2 = (storeGet mOld dOld key).2 ∨
          (storeGet mr dr key).2 = (storeGet m' d' key).2) ∧
        (∀ key dig, (key, dig) ∈ U →
          (storeGet mOld dOld key).2 = getResOf (Spec.get specD dig) ∧
          (storeGet m' d' key).2 = getResOf (Spec.get spec dig)) ∧
        (∀ key e, keyClass c.kind key = .error e → (storeGet mr dr key).2 = .err e) := by
  obtain ⟨dOld, mOld, hold, hAold⟩ := hDur
  obtain ⟨m', d', f1, hI', hX', dr, mr, newB, r1, hRec, r4'⟩ :=
    crash_buckets hc hU hI hX hD hn hB hold hAold order k early
  have r2 : mr.kind = c.kind := hRec.kind
  have r3 : mr.bits = c.bits := hRec.bits
  have r4 : ∀ b, BucketSame c.kind mr dr mOld dOld b ∨ BucketSame c.kind mr dr m' d' b := by
    intro b
    by_cases hb : b ∈ newB
    · exact Or.inr ((r4' b).2 hb)
    · exact Or.inl ((r4' b).1 hb)
  -- the old recovered state, explicitly enough to know its kind and bits
  have hOk : mOld.kind = c.kind ∧ mOld.bits = c.bits := by
    obtain ⟨_, _, _, _, _, _, _, _, _, _, _, _, _, _, _, _, _, _, _, _, hl, _, _⟩ :=
      flush_parts hU hI hX hD hn hB order
    obtain ⟨cfO, pfnO, plenO, filesO, frO, eqO, _⟩ :=
      recover_form c hc s.d s.m.pfileNum s.m.ifileNum _ (fun _ => []) hX.ihdr hD.snap hX.phdr hX.pall
        (fun hk => (hI.p.mh (by rw [hI.kind]; exact hk)).2.2 _ (Nat.lt_succ_self _))
        (fun f hf => by rw [hl.files f hf, List.append_nil]) (hI.i.noFiles _ (Nat.lt_succ_self _))
        (fun f hf r hr => by rw [← hX.bits]; exact hl.recs f hf r hr) (fun _ _ => isTorn_nil _)
    rw [eqO] at hold
    simp only [Prod.mk.injEq, Except.ok.injEq] at hold
    obtain ⟨_, rfl⟩ := hold
    exact ⟨rfl, rfl⟩
  have hk' : m'.kind = c.kind := hI'.kind
  have hb' : m'.bits = c.bits := hX'.bits
  refine ⟨m', d', f1, dOld, mOld, hold, dr, mr, r1, ?_, ?_, ?_⟩
  · intro key
    cases hik : indexKeyOf c.kind key with
    | none =>
      left
      apply storeGet_congr (r2.trans hOk.1.symm) (r3.trans hOk.2.symm)
      intro ik b h1
      rw [hOk.1, hik] at h1; cases h1
    | some ik =>
      cases hbk : bucketOfKey c.bits ik with
      | none =>
        left
        apply storeGet_congr (r2.trans hOk.1.symm) (r3.trans hOk.2.symm)
        intro ik' b h1 h2
        rw [hOk.1, hik] at h1; cases h1
        rw [hOk.2, hbk] at h2; cases h2
      | some b =>
        rcases r4 b with h | h
        · left
          apply storeGet_congr (r2.trans hOk.1.symm) (r3.trans hOk.2.symm)
          intro ik' b' h1 h2
          rw [hOk.1, hik] at h1; cases h1
          rw [hOk.2, hbk] at h2; cases h2
          rw [hOk.1]; exact h
        · right
          apply storeGet_congr (r2.trans hk'.symm) (r3.trans hb'.symm)
          intro ik' b' h1 h2
          rw [hk', hik] at h1; cases h1
          rw [hb', hbk] at h2; cases h2
          rw [hk']; exact h
  · intro key dig hkd
    have hUo : Univ mOld.kind U := by rw [hOk.1]; exact hU
    have hUn : Univ m'.kind U := by rw [hk']; exact hU
    have h31o : mOld.bits ≤ 31 := by rw [hOk.2]; exact hc.2.1
    have h31n : m'.bits ≤ 31 := by rw [hb']; exact hc.2.1
    constructor
    · rw [storeGet_ok hUo h31o hAold hkd]
      cases Spec.get specD dig with
      | none => rfl
      | some kv => rfl
    · rw [storeGet_ok hUn h31n hI'.a hkd]
      cases Spec.get spec dig with
      | none => rfl
      | some kv => rfl
  · intro key e he
    rw [storeGet_bad (by rw [r2]; exact he)]

end

section
variable {c : Cfg} {U : List (Bytes × Bytes)} {s : SState} {spec : Spec} {n B : Nat}

/-- with all events of the stream the image has the files of the flushed disk -/
theorem crash_image_full (hU : Univ c.kind U) (hI : Inv c U s spec n B) (hX : XInv c s)
    (hD : DiskWF s.d) (hn : n < 1073741824) (hB : B < two31) (order : List Nat) {m' : Mem} {d' : Disk}
    (hf : storeFlush s.m s.d (fixOrder order s.m.inext.keys) = some (m', d')) (k : Nat) (early : Bool)
    (hk : streamLength (appendStream s.d d') ≤ k) :
    (∀ f, (crashImage s.d (appendStream s.d d') k early).pfiles.get? f = d'.pfiles.get? f) ∧
    (∀ f, (crashImage s.d (appendStream s.d d') k early).ifiles.get? f = d'.ifiles.get? f) ∧
    (crashImage s.d (appendStream s.d d') k early).cidfile = d'.cidfile ∧
    (crashImage s.d (appendStream s.d d') k early).free = d'.free ∧
    (crashImage s.d (appendStream s.d d') k early).ihdr = d'.ihdr ∧
    (crashImage s.d (appendStream s.d d') k early).phdr = d'.phdr ∧
    (crashImage s.d (appendStream s.d d') k early).snap = d'.snap ∧
    (crashImage s.d (appendStream s.d d') k early).freeGc = d'.freeGc := by
  obtain ⟨m1, d1, m2, d2, lg, p1, i1, _, _, _, _, _, _, _, hd2, sP, sC, ⟨PI', sI⟩, _⟩ :=
    flush_parts hU hI hX hD hn hB order
  have hfree : d2.free = s.d.free := by
    have := congrArg Disk.free hd2; exact this
  have hd' : ∃ fr, OptExt s.d.free fr ∧
      d' = { s.d with pfiles := d1.pfiles, cidfile := d1.cidfile, ifiles := d2.ifiles, free := fr } := by
    by_cases ho : outstanding s.m = true
    · obtain ⟨fl, fr, f1, f2⟩ := storeFlush_out p1 i1 ho
      rw [hf] at f2
      simp only [Option.some.injEq, Prod.mk.injEq] at f2
      obtain ⟨_, rfl⟩ := f2
      refine ⟨fr, by rw [← hfree]; exact f1, ?_⟩
      conv => lhs; rw [hd2]
    · obtain ⟨f1, _, _, f4, f5⟩ :=
        storeFlush_idle (d := s.d) (order := fixOrder order s.m.inext.keys) ho
      rw [hf] at f1
      simp only [Option.some.injEq, Prod.mk.injEq] at f1
      obtain ⟨_, rfl⟩ := f1
      rw [f4] at p1
      simp only [Option.some.injEq, Prod.mk.injEq] at p1
      obtain ⟨rfl, rfl⟩ := p1
      rw [f5] at i1
      simp only [Prod.mk.injEq] at i1
      obtain ⟨rfl, rfl⟩ := i1
      exact ⟨s.d.free, Or.inl rfl, rfl⟩
  obtain ⟨fr, hF, rfl⟩ := hd'
  obtain ⟨fiP, cf, fiI, fr', hEq, _, _, _, _, _, hfull⟩ :=
    crashImage_form s.d d1.pfiles d1.cidfile d2.ifiles fr sP sC (Or.inr ⟨_, _, sI⟩) hF k early
  obtain ⟨a1, a2, a3, a4⟩ := hfull hk
  rw [hEq]
  exact ⟨a1, a3, a2, a4, rfl, rfl, rfl, rfl⟩

end

/-! ### `lastDurable` is the map after the longest prefix ending in a durable call -/

theorem lastDurable_none (kind : PKind) (imm : Bool) : ∀ (ops : List SOp) (cur dur : Spec),
    (∀ op ∈ ops, op.isDurable = false) → lastDurable kind imm cur dur ops = dur
  | [], _, _, _ => rfl
  | op :: ops, cur, dur, h => by
    simp only [lastDurable, h op (by simp), Bool.false_eq_true, if_false]
    exact lastDurable_none kind imm ops _ dur (fun o ho => h o (by simp [ho]))

theorem specRun_append_fst (kind : PKind) (imm : Bool) : ∀ (a b : List SOp) (m : Spec),
    (specRun kind imm m (a ++ b)).1 = (specRun kind imm (specRun kind imm m a).1 b).1
  | [], _, _ => rfl
  | op :: a, b, m => by
    rw [List.cons_append, specRun_cons_fst, specRun_cons_fst]
    exact specRun_append_fst kind imm a b _

theorem lastDurable_some (kind : PKind) (imm : Bool) : ∀ (ops : List SOp) (cur dur : Spec),
    (∃ op ∈ ops, op.isDurable = true) →
    ∃ pre op post, ops = pre ++ op :: post ∧ op.isDurable = true ∧
      (∀ o ∈ post, o.isDurable = false) ∧
      lastDurable kind imm cur dur ops = (specRun kind imm cur (pre ++ [op])).1
  | [], _, _, h => by obtain ⟨_, h, _⟩ := h; cases h
  | op :: ops, cur, dur, _ => by
    by_cases hrest : ∃ o ∈ ops, o.isDurable = true
    · obtain ⟨pre, o, post, e1, e2, e3, e4⟩ := lastDurable_some kind imm ops (specStep kind imm cur op).1
        (if op.isDurable then (specStep kind imm cur op).1 else dur) hrest
      refine ⟨op :: pre, o, post, by rw [e1]; rfl, e2, e3, ?_⟩
      simp only [lastDurable]
      rw [e4, List.cons_append, specRun_cons_fst]
    · have hno : ∀ o ∈ ops, o.isDurable = false := by
        intro o ho
        cases hd : o.isDurable with
        | false => rfl
        | true => exact absurd ⟨o, ho, hd⟩ hrest
      rename_i h
      obtain ⟨o, ho, hd⟩ := h
      have hop : op.isDurable = true := by
        simp only [List.mem_cons] at ho
        rcases ho with rfl | ho
        · exact hd
        · rw [hno o ho] at hd; cases hd
      refine ⟨[], op, ops, rfl, hop, hno, ?_⟩
      simp only [lastDurable, hop, if_true]
      rw [lastDurable_none kind imm ops _ _ hno]
      rfl

end Sth
