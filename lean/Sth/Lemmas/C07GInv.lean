/-
C07 with index GC — the state invariant `CInvY` (the C07 invariant with C04's `YInv` in place of C02's
`XInv`: the index header's first file may have advanced, index files hold deleted spans) and its
preservation by every call except primary GC: Put / Get / Has / GetSize / Remove / Flush / iteration /
Close+reopen / index GC cycles (complete or cut short at any poll, with or without the free-file scan).
Core Lean only.
-/
import Sth.Lemmas.C07Rec
import Sth.Lemmas.C07GIdx
import Sth.Lemmas.C04M1

namespace Sth

/-! ### `BucketAt` and raw spans -/

theorem BucketAt.raw {files : NMap Bytes} {imax first b pos : Nat} {rl : RecordList}
    (h : BucketAt files imax first b pos rl) :
    ∃ f off, pos = f * imax + off + 4 ∧ off < imax ∧ first ≤ f ∧
      RawAt files f off (le32 b ++ encodeRL rl) := by
  obtain ⟨f, len, F, g, _, hl, _, h0, hpos, hfile, hF, _, _, _⟩ := h
  refine ⟨f, len, hpos, hl, h0, F, g, ?_, hF⟩
  rw [hfile]
  have := recSpan_bytes b rl
  unfold recSpan at this
  rw [this, List.append_assoc]

theorem BucketAt.of_raw {files : NMap Bytes} {imax first b f off : Nat} {rl : RecordList}
    (hr : RawAt files f off (le32 b ++ encodeRL rl)) (hp : 1 ≤ imax) (ho : off < imax)
    (hf : f < two32) (h0 : first ≤ f) (hok : FlushOK rl) (h31 : (encodeRL rl).length + 4 < two31)
    (hb : b < two32) : BucketAt files imax first b (f * imax + off + 4) rl := by
  obtain ⟨pre, rest, hfile, hpre⟩ := hr
  refine ⟨f, off, pre, rest, hp, ho, hf, h0, rfl, ?_, hpre, hok, h31, hb⟩
  rw [hfile]
  have := recSpan_bytes b rl
  unfold recSpan at this
  rw [this, List.append_assoc]

theorem recBody_facts {b : Nat} {rl : RecordList} (hb : b < two32)
    (h31 : (encodeRL rl).length + 4 < two31) :
    leDec ((le32 b ++ encodeRL rl).take 4) = b ∧ (le32 b ++ encodeRL rl).length < two31 := by
  have hB : (le32 b).length = 4 := leEnc_length 4 _
  refine ⟨?_, by rw [List.length_append, hB]; omega⟩
  rw [List.take_left' hB]
  unfold le32
  exact leDec_leEnc 4 _ (by unfold two32 at hb; omega)

/-- the record list of a bucket lies at or above the first file of the log -/
theorem BucketAt.raise {m : Mem} {d : Disk} {first b : Nat} {sp : Nat → List GSpan} {rl : RecordList}
    (hl : IdxLog m d first sp) (h : BucketAt d.ifiles m.imax 0 b (tbl m b) rl) :
    BucketAt d.ifiles m.imax first b (tbl m b) rl := by
  have h' := h
  obtain ⟨f, len, F, g, hp, hlen, hf, _, hpos, hfile, hF, hok, h31, hb⟩ := h'
  obtain ⟨f', off, hpos', ho, _, hr⟩ := h.raw
  have heq : m.imax * f + len = m.imax * f' + off := by
    rw [Nat.mul_comm m.imax f, Nat.mul_comm m.imax f']; omega
  obtain ⟨rfl, rfl⟩ := divmod_unique heq hlen ho
  obtain ⟨t1, t2⟩ := recBody_facts hb h31
  obtain ⟨k1, _, _⟩ := hl.live_of_rawAt hr ho t2 (by rw [t1]; exact hpos)
  exact ⟨f, len, F, g, hp, hlen, hf, k1, hpos, hfile, hF, hok, h31, hb⟩

/-- an index GC cycle keeps the tags of the table -/
theorem tagInv_gk {m : Mem} {d d' : Disk} (hK : GK m d d') (hT : TagInv m d) (g : Option Nat) :
    TagInv { m with gcResume := g } d' := by
  intro b hb
  obtain ⟨rl, h⟩ := hT b hb
  refine ⟨rl, ?_⟩
  have h' := h
  obtain ⟨f, len, F, gg, hp, hlen, hf, h0, hpos, hfile, hF, hok, h31, hb32⟩ := h'
  obtain ⟨f', off, hpos', ho, _, hr⟩ := h.raw
  have heq : m.imax * f + len = m.imax * f' + off := by
    rw [Nat.mul_comm m.imax f, Nat.mul_comm m.imax f']; omega
  obtain ⟨rfl, rfl⟩ := divmod_unique heq hlen ho
  obtain ⟨t1, t2⟩ := recBody_facts hb32 h31
  have hr' := hK f len _ ho t2 (by rw [t1]; exact hpos) hr
  have := BucketAt.of_raw (first := 0) hr' hp ho hf (Nat.zero_le _) hok h31 hb32
  show BucketAt d'.ifiles m.imax 0 b ((m.buckets.get? b).getD 0) rl
  rw [hpos]
  exact this

/-! ### the invariant -/

/-- the state invariant of C07 along histories with index GC cycles: the invariants of C01 (`Inv`), C04
    (`YInv`) and C13 (`FInv`), the placement of the named blocks, the tags of the table, no GC work
    file, no bucket snapshot between calls, an untouched primary header, and the consistency of the disk
    against the live table -/
structure CInvY (c : Cfg) (U : List (Bytes × Bytes)) (s : SState) (spec : Spec) (n B : Nat) : Prop where
  inv : Inv c U s spec n B
  y : YInv c s
  f : FInv s
  pl : PlInv s
  tag : TagInv s.m s.d
  gc : s.d.freeGc = none
  snap : s.d.snap = none
  ph0 : c.kind = .mh → s.d.phdr = some ⟨c.pfs, 0⟩
  ok : DiskOK c.kind s.d s.m.buckets

section
variable {c : Cfg} {U : List (Bytes × Bytes)} {s : SState} {spec : Spec} {n B : Nat}

theorem CInvY.mono (h : CInvY c U s spec n B) {n' B' : Nat} (hn : n ≤ n') (hB : B ≤ B') :
    CInvY c U s spec n' B' :=
  ⟨h.inv.mono hn hB, h.y, h.f, h.pl, h.tag, h.gc, h.snap, h.ph0, h.ok⟩

/-- a quiesced state: the other invariants imply the consistency of the disk -/
theorem diskOK_of_quiesced_y (hU : Univ c.kind U) (hI : Inv c U s spec n B) (hY : YInv c s)
    (hF : FInv s) (hP : PlInv s) (hT : TagInv s.m s.d) (hgc : s.d.freeGc = none)
    (hph : c.kind = .mh → s.d.phdr = some ⟨c.pfs, 0⟩)
    (hin : s.m.inext = []) (hpn : s.m.pnext = []) : DiskOK c.kind s.d s.m.buckets := by
  have hU' : Univ s.m.kind U := by rw [hI.kind]; exact hU
  obtain ⟨first, sp, hih, hl⟩ := hY.ilog
  have hplaced : ∀ blk, Placed s.m s.d blk → ∃ k v, RecAt s.m.kind s.m.pmax 0 s.d blk k v := by
    intro blk hp
    rcases hp with ⟨r, hr, _⟩ | h
    · rw [hpn] at hr; cases hr
    · exact h
  have hhdr : ∀ blk k v, RecAt s.m.kind s.m.pmax 0 s.d blk k v →
      RecAt c.kind (hdrPmax s.d) (hdrPfirst s.d) s.d blk k v := by
    intro blk k v h
    rw [← hI.kind]
    rcases kind_cases s.m with hk | hk
    · have hk' : c.kind = .mh := by rw [← hI.kind]; exact hk
      have e1 : hdrPmax s.d = s.m.pmax := by
        unfold hdrPmax
        rw [hph hk', hY.pmax]
        unfold hdrPfs
        simp only [hk']
      have e2 : hdrPfirst s.d = 0 := by
        unfold hdrPfirst
        rw [hph hk']
      rw [e1, e2]
      exact h
    · rw [hk] at h ⊢
      exact h
  refine ⟨by rw [hih]; simp, fun hk => by rw [hph hk]; simp, ?_⟩
  intro ih hih' b pos hmem hpos
  rw [hih] at hih'
  simp only [Option.some.injEq] at hih'
  subst hih'
  have hget : s.m.buckets.get? b = some pos := NMap.get?_of_mem_sorted hI.i.sorted hmem
  have htb : tbl s.m b = pos := by unfold tbl; rw [hget]; rfl
  obtain ⟨rl, hat0⟩ := hT b (by rw [hget]; exact hpos)
  have hat1 : BucketAt s.d.ifiles s.m.imax 0 b (tbl s.m b) rl := hat0
  have hat2 := hat1.raise hl
  rw [htb, hY.imax] at hat2
  have hat : BucketAt s.d.ifiles c.ifs first b pos rl := hat2
  have hrd : readDiskBucket s.d.ifiles s.m.imax ((s.m.buckets.get? b).getD 0) = .ok (some rl) := by
    rw [hget, Option.getD_some, hY.imax]
    exact readDiskBucket_of_at hat
  have hrec : idxRecords s.m s.d b = .ok (some rl) := by
    unfold idxRecords
    rw [hin]
    simp only [NMap.get?_nil]
    cases hc : s.m.icur.get? b with
    | some rl' =>
      simp only
      have := hI.i.curDisk b rl' hc
      rw [hrd] at this
      cases this
      rfl
    | none => exact hrd
  obtain ⟨orl, h1, ho, hB⟩ := hI.a.recs b
  rw [hrec] at h1
  cases h1
  simp only [Option.getD_some] at ho hB
  have hent : ∀ e ∈ rl, ∃ key val dig, RecAt s.m.kind s.m.pmax 0 s.d e.blk key val ∧
      indexKeyOf c.kind key = some dig ∧ bucketOfKey c.bits dig = some b ∧ e.pfx ≠ [] ∧
      pfx e.pfx (dig.drop (c.bits / 8)) := by
    intro e he
    obtain ⟨key, val, dig, g1, g2, g3, _, g5⟩ := (hB e he).own hU' hI.bits31
    obtain ⟨o1, o2⟩ := ho.own_pfx he g5
    obtain ⟨k', v', hr⟩ := hplaced e.blk (hP.cur b rl hrec e he)
    have e1 := hr.diskRead
    rw [priGet_quiesced hI.p hpn g1] at e1
    cases e1
    refine ⟨key, val, dig, hr, ?_, ?_, o2, ?_⟩
    · rw [← hI.kind]; exact (hU'.dig g2).1
    · rw [← hY.bits]; exact g3
    · rw [← hY.bits]; exact o1
  refine ⟨rl, hat, ho.sorted, ho.prefixFree, ?_, ?_, ?_⟩
  · apply nodup_map_of_inj_on (g := fun x : Entry => x.blk.off) ho.distinctBlocks
    intro x hx y hy hoff
    obtain ⟨_, _, _, rx, _⟩ := hent x hx
    obtain ⟨_, _, _, ry, _⟩ := hent y hy
    have := rx.size_eq ry hoff
    cases hbx : x.blk
    cases hby : y.blk
    rw [hbx, hby] at hoff this
    simp only at hoff this
    rw [hoff, this]
  · intro e he
    obtain ⟨key, val, dig, g1, g2, g3, g4, g5⟩ := hent e he
    exact ⟨key, val, dig, hhdr _ _ _ g1, g2, g3, g4, g5⟩
  · intro e he fb hfb hoff
    rw [flGcEntries_none hgc, List.append_nil] at hfb
    have hrecd : fb ∈ recorded s := by unfold recorded; simp [hfb]
    obtain ⟨k1, v1, r1⟩ := hplaced fb (hP.fl fb hrecd)
    obtain ⟨_, _, _, r2, _⟩ := hent e he
    have hsz := r1.size_eq r2 hoff
    have : fb = e.blk := by
      cases hb1 : fb
      cases hb2 : e.blk
      rw [hb1, hb2] at hoff hsz
      simp only at hoff hsz
      rw [hoff, hsz]
    exact hF.notcur b rl hrec e he (this ▸ hrecd)

/-- a call that writes nothing to the disk and leaves the table alone keeps the disk-side invariants -/
theorem CInvY.of_mem_step (h : CInvY c U s spec n B) {s' : SState} {spec' : Spec} {n' B' : Nat}
    (hI : Inv c U s' spec' n' B') (hY : YInv c s') (hF : FInv s') (hP : PlInv s')
    (hd : s'.d = s.d) (hbk : s'.m.buckets = s.m.buckets) (him : s'.m.imax = s.m.imax) :
    CInvY c U s' spec' n' B' := by
  refine ⟨hI, hY, hF, hP, ?_, by rw [hd]; exact h.gc, by rw [hd]; exact h.snap,
    by rw [hd]; exact h.ph0, by rw [hd, hbk]; exact h.ok⟩
  unfold TagInv
  rw [hd, hbk, him]
  exact h.tag

theorem CInvY.of_quiesced (hU : Univ c.kind U) {s' : SState} {spec' : Spec} {n' B' : Nat}
    (hI : Inv c U s' spec' n' B') (hY : YInv c s') (hF : FInv s') (hP : PlInv s')
    (hT : TagInv s'.m s'.d) (hgc : s'.d.freeGc = none) (hsn : s'.d.snap = none)
    (hph : c.kind = .mh → s'.d.phdr = some ⟨c.pfs, 0⟩)
    (hin : s'.m.inext = []) (hpn : s'.m.pnext = []) : CInvY c U s' spec' n' B' :=
  ⟨hI, hY, hF, hP, hT, hgc, hsn, hph, diskOK_of_quiesced_y hU hI hY hF hP hT hgc hph hin hpn⟩

/-- Store.Flush under `YInv` -/
theorem storeFlush_c07y (hU : Univ c.kind U) (hI : Inv c U s spec n B) (hY : YInv c s)
    (hn : n < 1073741824) (hB : B < two31) (order : List Nat) (hT : TagInv s.m s.d) :
    ∃ m' d', storeFlush s.m s.d (fixOrder order s.m.inext.keys) = some (m', d') ∧
      TagInv m' d' ∧ (∀ blk, Placed s.m s.d blk → Placed m' d' blk) ∧
      d'.freeGc = s.d.freeGc ∧ d'.snap = s.d.snap ∧ m'.inext = [] ∧ m'.pnext = [] ∧
      (∀ b, idxRecords m' d' b = idxRecords s.m s.d b) ∧ d'.phdr = s.d.phdr := by
  by_cases hout : outstanding s.m = true
  · obtain ⟨m1, d1, m2, d2, p1, i1, _, _, hin, hpn, _, hR, _, _, _⟩ :=
      flushBoth_inv4 hU hI hY hn hB order
    obtain ⟨t1, t2, t3, t4, _, t6, t7, _, _, t10, _⟩ :=
      flushBoth_c07_core hU hI hY.inextLt hn hB order p1 i1 hT
    obtain ⟨fl, fr, f1⟩ := flFlush_shape m2 d2
    refine ⟨{ m2 with flpool := fl }, { d2 with free := fr }, ?_, t1, ?_, t6, t7, hin, hpn, hR, t10⟩
    · unfold storeFlush commit
      rw [if_pos hout]
      simp only [p1, i1, f1]
    · intro blk hp
      obtain ⟨k, v, h⟩ := t2 blk hp
      right
      show ∃ k v, RecAt m2.kind m2.pmax 0 _ blk k v
      rw [t3, t4]
      exact ⟨k, v, h.congr rfl rfl⟩
  · unfold outstanding at hout
    simp only [Bool.or_eq_true, Bool.not_eq_true', not_or, Bool.not_eq_false] at hout
    refine ⟨s.m, s.d, ?_, hT, fun _ h => h, rfl, rfl, List.isEmpty_iff.mp hout.1,
      List.isEmpty_iff.mp hout.2, fun _ => rfl, rfl⟩
    unfold storeFlush outstanding
    rw [if_neg (by simp [hout.1, hout.2])]

theorem ystep_flushed (hU : Univ c.kind U) (h : CInvY c U s spec n B) (hn : n + 1 < 1073741824)
    (hB : B < two31) (order : List Nat) {s' : SState}
    (hs' : ∀ m' d', storeFlush s.m s.d (fixOrder order s.m.inext.keys) = some (m', d') →
      s' = { s with m := m', d := d' })
    (hI : Inv c U s' spec (n + 1) B) (hY : YInv c s') (hF : FInv s' ∧ recorded s' = recorded s) :
    CInvY c U s' spec (n + 1) B := by
  obtain ⟨m', d', f1, t1, t2, t3, t4, t5, t6, t7, t8⟩ :=
    storeFlush_c07y hU h.inv h.y (by omega) hB order h.tag
  have e := hs' m' d' f1
  subst e
  apply CInvY.of_quiesced hU hI hY hF.1 _ t1 (by show d'.freeGc = none; rw [t3]; exact h.gc)
    (by show d'.snap = none; rw [t4]; exact h.snap)
    (fun hk => by show d'.phdr = _; rw [t8]; exact h.ph0 hk) t5 t6
  refine ⟨?_, ?_⟩
  · intro bkt rl hr e he
    exact t2 _ (h.pl.cur bkt rl (by rw [← t7]; exact hr) e he)
  · intro blk hb
    exact t2 _ (h.pl.fl blk (by rw [← hF.2]; exact hb))

theorem ystep_reopen (hc : c.Legal) (hU : Univ c.kind U) (h : CInvY c U s spec n B)
    (hn : n < 1073741824) (hB : B < two31) (order : List Nat) (us : Bool) :
    CInvY c U (stepS s (.reopen order us)).1 spec n B := by
  obtain ⟨m1, d1, m2, d2, m', d', p1, i1, r1, hI', hY', hR, _, hr, hfl, hfree, hgc, hsnap⟩ :=
    step_reopen4_full hc hU h.inv h.y hn hB order us
  obtain ⟨t1, t2, t3, t4, t5, t6, _, t8, t9, t10, _⟩ :=
    flushBoth_c07_core hU h.inv h.y.inextLt hn hB order p1 i1 h.tag
  rw [r1]
  have hrec : ∀ blk k v, RecAt s.m.kind s.m.pmax 0 d2 blk k v → RecAt m'.kind m'.pmax 0 d' blk k v := by
    intro blk k v hh
    rw [hr.kind, hr.pmax, t3, t4]
    rcases kind_cases s.m with hk | hk
    · rw [hk] at hh ⊢
      exact hh.mono_mh (by rw [hr.pfiles]; exact FilesExt.refl _)
    · rw [hk] at hh ⊢
      exact hh.mono_cid (fun file hf => ⟨[], by rw [hr.cidSome file hf]; simp⟩)
  have hpl : ∀ blk, Placed s.m s.d blk → Placed m' d' blk := by
    intro blk hp
    obtain ⟨k, v, hh⟩ := t2 blk hp
    exact Or.inr ⟨k, v, hrec blk k v hh⟩
  have hF' := h.f.flush (m' := m') (d' := d') hR (fun blk hb => (hr.below blk).mpr (t8 blk hb))
    (Or.inr ⟨hfl, by rw [hfree, t5, t9]⟩)
  apply CInvY.of_quiesced hU hI' hY' hF'.1 _ _
    (by show d'.freeGc = none; rw [hgc, t6]; exact h.gc) hsnap
    (fun hk => by show d'.phdr = _; rw [hr.phdr, t10]; exact h.ph0 hk) hr.inext hr.pnext
  · refine ⟨?_, ?_⟩
    · intro bkt rl hrr e he
      exact hpl _ (h.pl.cur bkt rl (by rw [← hR]; exact hrr) e he)
    · intro blk hb
      exact hpl _ (h.pl.fl blk (by rw [← hF'.2]; exact hb))
  · intro b hb
    show ∃ rl, BucketAt d'.ifiles m'.imax 0 b ((m'.buckets.get? b).getD 0) rl
    have hb' : (m'.buckets.get? b).getD 0 ≠ 0 := hb
    rw [hr.table b] at hb' ⊢
    obtain ⟨rl, hh⟩ := t1 b hb'
    rw [hr.imax]
    exact ⟨rl, hh.congr hr.ifiles⟩

/-- one index GC cycle, complete or cut short at any poll, keeps the invariant: the cycle marks, merges,
    truncates and unlinks only record lists no bucket points at, and the header's first file advances
    only past unlinked files -/
theorem ystep_igc (h : CInvY c U s spec n B) (hn : n < 1073741824) (scanFree : Bool)
    (budget : Budget) : CInvY c U (stepS s (.igc scanFree budget)).1 spec n B := by
  obtain ⟨g, d', r1, hI', hY', hrec, f1, f2, f3, f4, f5, f6⟩ :=
    step_igc h.inv h.y hn scanFree budget
  obtain ⟨first, sp, hih, hl⟩ := h.y.ilog
  have hp1 : 1 ≤ s.m.imax := h.inv.i.imax
  have hN : s.m.ifileNum < two32 := by
    have := h.inv.cnt.idx
    unfold two32; omega
  have hG0 : GI s.m s.d s.d c.bits c.ifs (hdrPfs c) :=
    ⟨⟨first, sp, hih, hl⟩, fun _ => rfl, h.inv.i.noFiles, rfl, rfl, rfl, rfl, rfl, rfl, rfl⟩
  have hK := indexGC_keep hp1 hN hG0 scanFree budget
  have hd' : (indexGC s.m s.d scanFree budget).2.2.1 = d' := by
    have := congrArg (fun x => x.1.d) r1
    simp only [stepS] at this
    exact this
  rw [hd'] at hK
  rw [r1]
  have hT' : TagInv { s.m with gcResume := g } d' := tagInv_gk hK h.tag g
  have hF' := h.f.flush (m' := { s.m with gcResume := g }) (d' := d') hrec (fun _ hb => hb)
    (Or.inl ⟨rfl, f4⟩)
  have hpl : ∀ blk, Placed s.m s.d blk → Placed { s.m with gcResume := g } d' blk := by
    intro blk hp
    rcases hp with hp | ⟨k, v, hh⟩
    · exact Or.inl hp
    · exact Or.inr ⟨k, v, hh.congr f1 f2⟩
  refine ⟨hI', hY', hF'.1, ⟨?_, ?_⟩, hT', by show d'.freeGc = none; rw [f5]; exact h.gc,
    by show d'.snap = none; rw [f6]; exact h.snap,
    fun hk => by show d'.phdr = _; rw [f3]; exact h.ph0 hk, ?_⟩
  · intro bkt rl hr e he
    exact hpl _ (h.pl.cur bkt rl (by rw [← hrec]; exact hr) e he)
  · intro blk hb
    exact hpl _ (h.pl.fl blk (by rw [← hF'.2]; exact hb))
  · -- the consistency of the disk: clause by clause from the one before the cycle
    obtain ⟨first', sp', hih', hl'⟩ := hY'.ilog
    have hih'' : d'.ihdr = some ⟨c.bits, c.ifs, first', hdrPfs c⟩ := hih'
    refine ⟨by rw [hih'']; simp, fun hk => by show d'.phdr ≠ none; rw [f3]; exact h.ok.phdr hk, ?_⟩
    intro ih hihx b pos hmem hpos
    rw [hih''] at hihx
    simp only [Option.some.injEq] at hihx
    subst hihx
    obtain ⟨rl, hok⟩ := h.ok.buckets _ hih b pos hmem hpos
    have hget : s.m.buckets.get? b = some pos := NMap.get?_of_mem_sorted h.inv.i.sorted hmem
    have htb : tbl { s.m with gcResume := g } b = pos := by
      show (s.m.buckets.get? b).getD 0 = pos
      rw [hget]; rfl
    obtain ⟨rl', hat0⟩ := hT' b (by show (s.m.buckets.get? b).getD 0 ≠ 0; rw [hget]; exact hpos)
    have hat1 : BucketAt d'.ifiles ({ s.m with gcResume := g } : Mem).imax 0 b
        (tbl { s.m with gcResume := g } b) rl' := hat0
    have hat2 := hat1.raise hl'
    rw [htb] at hat2
    have himax : ({ s.m with gcResume := g } : Mem).imax = c.ifs := h.y.imax
    rw [himax] at hat2
    -- the same record list as before the cycle
    have e1 := readDiskBucket_of_at hat2
    have e2 := readDiskBucket_of_at hok.loc
    have hrd := hrec b
    have hsame : rl' = rl := by
      have r0 : readDiskBucket d'.ifiles c.ifs pos = readDiskBucket s.d.ifiles c.ifs pos := by
        have hG := (indexGC_ok hp1 hN hG0 scanFree budget).1
        rw [hd'] at hG
        have := hG.reads b
        have ht : tbl s.m b = pos := by unfold tbl; rw [hget]; rfl
        rw [ht, h.y.imax] at this
        exact this
      rw [e1, e2] at r0
      cases r0
      rfl
    subst hsame
    refine ⟨rl', hat2, hok.sorted, hok.prefixFree, hok.distinct, ?_, ?_⟩
    · intro e he
      obtain ⟨key, val, dig, g1, g2, g3, g4, g5⟩ := hok.entries e he
      refine ⟨key, val, dig, ?_, g2, g3, g4, g5⟩
      have ep : hdrPmax d' = hdrPmax s.d := by unfold hdrPmax; rw [f3]
      have ef : hdrPfirst d' = hdrPfirst s.d := by unfold hdrPfirst; rw [f3]
      rw [ep, ef]
      exact g1.congr f1 f2
    · intro e he fb hfb
      have e3 : flEntries d' = flEntries s.d := by unfold flEntries; rw [f4]
      have e4 : flGcEntries d' = flGcEntries s.d := by unfold flGcEntries; rw [f5]
      rw [e3, e4] at hfb
      exact hok.notFree e he fb hfb

/-- one call other than primary GC keeps the invariant (and returns what the map returns) -/
theorem ystep (hc : c.Legal) (hU : Univ c.kind U) (h : CInvY c U s spec n B) (op : SOp)
    (hop : op.isC04a = true)
    (hkey : ∀ k, op.keyOf = some k → ∀ dig, keyClass c.kind k = .ok dig → (k, dig) ∈ U)
    (hn : n + 1 < 1073741824) (hB : B + op.bytes < two31) :
    (stepS s op).2 = (specStep c.kind c.imm spec op).2 ∧
      CInvY c U (stepS s op).1 (specStep c.kind c.imm spec op).1 (n + 1) (B + op.bytes) := by
  obtain ⟨o1, o2, o3⟩ := step_ok4a hc hU h.inv h.y op hop hkey hn hB
  refine ⟨o1, ?_⟩
  cases op with
  | put k v =>
    have hf := (fstep hU h.inv h.f (.put k v) rfl hkey hn hB).1
    have hp := pstep_put hU h.inv h.pl k v (hkey k rfl) hn hB
    obtain ⟨e1, e2, e3⟩ := (putShape hU h.inv k v (hkey k rfl) hn hB).disk (putMem_buckets _ _ _)
      (putMem_imax _ _ _)
    exact h.of_mem_step o2 o3 hf hp e1 e2 e3
  | get k =>
    have e := (step_get hU h.inv k (hkey k rfl)).1
    have hf := (fstep hU h.inv h.f (.get k) rfl hkey hn hB).1
    rw [e] at o2 o3 hf ⊢
    exact h.of_mem_step o2 o3 hf h.pl rfl rfl rfl
  | has k =>
    have e := (step_has hU h.inv k (hkey k rfl)).1
    have hf := (fstep hU h.inv h.f (.has k) rfl hkey hn hB).1
    rw [e] at o2 o3 hf ⊢
    exact h.of_mem_step o2 o3 hf h.pl rfl rfl rfl
  | size k =>
    have e := (step_size hU h.inv k (hkey k rfl)).1
    have hf := (fstep hU h.inv h.f (.size k) rfl hkey hn hB).1
    rw [e] at o2 o3 hf ⊢
    exact h.of_mem_step o2 o3 hf h.pl rfl rfl rfl
  | rm k =>
    have hf := (fstep hU h.inv h.f (.rm k) rfl hkey hn hB).1
    have hp := pstep_rm hU h.inv h.pl k (hkey k rfl)
    obtain ⟨e1, e2, e3⟩ := (rmShape hU h.inv k (hkey k rfl)).disk rfl rfl
    exact h.of_mem_step o2 o3 hf hp e1 e2 e3
  | flush order =>
    have hf := fstep_flush hU h.inv h.f (by omega) (by omega) order
    apply ystep_flushed hU h hn hB order _ o2 o3 hf
    intro m' d' f1
    simp only [stepS, f1]
  | iter order =>
    have hf := fstep_iter hU h.inv h.f (by omega) (by omega) order
    apply ystep_flushed hU h hn hB order _ o2 o3 hf
    intro m' d' f1
    simp only [stepS, f1]
    cases storeIter m' d' <;> rfl
  | reopen order us =>
    exact (ystep_reopen hc hU h (by omega) hB order us).mono (by omega) (Nat.le_refl _)
  | igc sf bud =>
    exact (ystep_igc h (by omega) sf bud).mono (by omega) (Nat.le_refl _)
  | pgc a b => cases hop

end

/-! ### the run -/

theorem run_c07y {c : Cfg} {U : List (Bytes × Bytes)} (hc : c.Legal) (hU : Univ c.kind U) :
    ∀ (ops : List SOp) (s : SState) (spec : Spec) (n B : Nat),
    CInvY c U s spec n B → (∀ op ∈ ops, op.isC04a = true) →
    (∀ op ∈ ops, ∀ k, op.keyOf = some k → ∀ dig, keyClass c.kind k = .ok dig → (k, dig) ∈ U) →
    n + ops.length < 1073741824 → B + (ops.map SOp.bytes).sum < two31 →
    CInvY c U (runS s ops).1 (specRun c.kind c.imm spec ops).1 (n + ops.length)
      (B + (ops.map SOp.bytes).sum)
  | [], _, _, _, _, h, _, _, _, _ => h
  | op :: ops, s, spec, n, B, h, ha, hk, hn, hB => by
    simp only [List.length_cons, List.map_cons, List.sum_cons] at hn hB ⊢
    obtain ⟨_, h2⟩ := ystep hc hU h op (ha op (by simp)) (hk op (by simp)) (by omega) (by omega)
    have ih := run_c07y hc hU ops (stepS s op).1 (specStep c.kind c.imm spec op).1 (n + 1)
      (B + op.bytes) h2 (fun o ho => ha o (by simp [ho])) (fun o ho => hk o (by simp [ho]))
      (by omega) (by omega)
    rw [runS_cons_fst, specRun_cons_fst]
    have e1 : n + (ops.length + 1) = n + 1 + ops.length := by omega
    have e2 : B + (op.bytes + (ops.map SOp.bytes).sum) = B + op.bytes + (ops.map SOp.bytes).sum := by
      omega
    rw [e1, e2]
    exact ih

theorem cinvY_init (c : Cfg) (hc : c.Legal) (U : List (Bytes × Bytes)) (s : SState)
    (hi : initS c = some s) : CInvY c U s [] 0 0 := by
  have h := cinv_init c hc U s hi
  refine ⟨h.inv, yinv_init c hc s hi, h.f, h.pl, h.tag, h.gc, h.snap, ?_, h.ok⟩
  intro hk
  exact h.x.phdr hk

/-- every state reachable by a history without primary GC cycles satisfies the invariant -/
theorem c07y_reach (c : Cfg) (hc : c.Legal) (ops : List SOp) (ha : ∀ op ∈ ops, op.isC04a = true)
    (hk : KeysOK c.kind ops) (hs : SizesOK ops) (s0 : SState) (hi : initS c = some s0) :
    CInvY c (digestsOf c.kind ops) (runS s0 ops).1 (specRun c.kind c.imm [] ops).1 (0 + ops.length)
      (0 + (ops.map SOp.bytes).sum) := by
  have hU := univ_of_keysOK hk (keysExact_all c.kind ops)
  apply run_c07y hc hU ops s0 [] 0 0 (cinvY_init c hc _ s0 hi) ha
  · intro op ho k hkey dig hcls
    exact mem_digestsOf ho hkey hcls
  · have := hs.1; omega
  · have := hs.2.1; omega

/-! ### the reconstructed table -/

section
variable {c : Cfg} {U : List (Bytes × Bytes)} {s : SState} {spec : Spec} {n B : Nat}

/-- without a snapshot `recoveredBuckets` rescans the span log from the header's first file, skipping
    the deleted spans, and finds the live table -/
theorem recovered_rescan_y (hI : Inv c U s spec n B) (hY : YInv c s) (hsn : s.d.snap = none) :
    ∃ T, recoveredBuckets s.d = some T ∧ T.filter (·.2 ≠ 0) = s.m.buckets.filter (·.2 ≠ 0) := by
  obtain ⟨first, sp, hih, hl⟩ := hY.ilog
  have hl' : IdxLogT c.bits c.ifs s.m.ifileNum s.d.ifiles (tbl s.m) first sp := by
    have : IdxLogT s.m.bits s.m.imax s.m.ifileNum s.d.ifiles (tbl s.m) first sp := hl
    rw [hY.bits, hY.imax] at this; exact this
  have hno : s.d.ifiles.get? (s.m.ifileNum + 1) = none := hI.i.noFiles _ (by omega)
  obtain ⟨files', s1, _⟩ := scanIndex_spans (max := c.ifs) hl'.le hl'.files hno hl'.ok
  refine ⟨setAll [] (rangeLive c.ifs sp first (s.m.ifileNum + 1 - first)), ?_, ?_⟩
  · unfold recoveredBuckets
    simp only [hih, hsn, s1, Option.map_some]
  · apply NMap.filter_nz_eq (setAll_sorted _ _ NMap.sorted_nil) hI.i.sorted
    intro k
    exact scan_tbl hl' k

end

end Sth
