/-
C10 (byte level) — `upgradeOpen` on the directory of well-formed legacy contents.
Core Lean only.
-/
import Sth.Lemmas.C10Up

namespace Sth

theorem filter_not_contains_rev (l : List Nat) : (l.reverse ++ []).filter (fun x => !l.contains x) = [] := by
  rw [List.filter_eq_nil_iff]
  intro x hx
  simp only [List.append_nil, List.mem_reverse] at hx
  simp [hx]

namespace LegacyC

variable {c : Cfg} {U : List (Bytes × Bytes)} {C : LegacyC}

/-- the disk handed to remapIndex, with index files `files'` -/
def diskPre (c : Cfg) (C : LegacyC) (files' : NMap Bytes) : Disk :=
  { ihdr := some ⟨c.bits, c.ifs, 0, 0⟩, ifiles := files', snap := none,
    phdr := some ⟨c.pfs, 0⟩, pfiles := setFiles [] 0 (C.pfilesL c.pfs), free := some [], freeGc := none }

theorem remapIndexU_legacy (hc : c.Legal) (hwf : LegacyWFU c U C) (hn1 : C.recs.length < 1073741824)
    (hn2 : C.gens.length < 1073741824) (dl : Option Bytes) (files' : NMap Bytes)
    (hfiles : ∀ f, files'.get? f = (setFiles [] 0 (C.ifilesL c.ifs)).get? f) :
    ∃ ifs, remapIndexU { data := dl, disk := C.diskPre c files' } ⟨c.bits, c.ifs, 0, 0⟩ c.pfs 0 (C.lastP c)
        (C.tableT c) [] = some ({ data := dl, disk := C.diskU c ifs }, []) ∧
      (∀ f, f ≤ C.lastI c → ifs.get? f = some (logBytes (C.lgU c f))) ∧
      (∀ f, C.lastI c < f → ifs.get? f = none) := by
  unfold remapIndexU
  have hsz : primarySizes ({ data := dl, disk := C.diskPre c files' } : UDir).disk.pfiles (C.lastP c + 1 - 0) 0 =
      C.psizes c :=
    psizes_eq
  simp only [hsz]
  cases hnr : needRemap c.pfs (C.psizes c) with
  | false =>
    refine ⟨files', ?_, ?_, ?_⟩
    · simp only [Bool.not_false, if_true]
      rfl
    · intro f hf
      rw [hfiles, ifiles0_get f hf, lgU_noremap hc hwf hn1 hn2 hnr f hf]
    · intro f hf
      rw [hfiles, ifiles0_none f hf]
  | true =>
    simp only [Bool.not_true, Bool.false_eq_true, if_false, fixOrder_nil]
    have hsorted : NMap.Sorted (C.tableT c) := scanTo_sorted _ _ _
    have hin : ∀ f ∈ bucketFiles c.ifs (C.tableT c), f ≤ C.lastI c := by
      intro f hf
      rw [mem_bucketFiles] at hf
      obtain ⟨⟨b, pos⟩, h1, _, h3⟩ := hf
      have hget := NMap.get?_of_mem_sorted hsorted h1
      obtain ⟨rl, f0, pre, post, _, g2, _, _, _, g6⟩ := table_at hc hn2 b pos hget
      simp only at h3
      rw [g6] at h3
      simp only at h3
      omega
    obtain ⟨ifs, h1, h2⟩ := remapFiles_fold (remap := C.remapC c) (imax := c.ifs) (lg := C.lg c.ifs) hsorted
      (bucketFiles c.ifs (C.tableT c)) { data := dl, disk := C.diskPre c files' } (bucketFiles_nodup _ _) rfl
      (fun f _ hm => by cases hm)
      (fun f hf => ⟨by
        show files'.get? f = _
        rw [hfiles, ifiles0_get f (hin f hf)], fileOK hc hwf hn1 hn2 f (hin f hf)⟩)
    refine ⟨ifs, ?_, ?_, ?_⟩
    · have h1' : (bucketFiles c.ifs (C.tableT c)).foldlM
          (remapOneFile (remapOff 0 c.pfs (C.psizes c)) c.ifs (C.tableT c))
          (({ data := dl, disk := C.diskPre c files' } : UDir), ([] : NMap RecordList)) = _ := h1
      simp only [h1', filter_not_contains_rev]
      rfl
    · intro f hf
      rw [h2]
      by_cases hm : f ∈ bucketFiles c.ifs (C.tableT c)
      · rw [if_pos hm]; rfl
      · rw [if_neg hm]
        show files'.get? f = _
        rw [hfiles, ifiles0_get f hf, lgU_not_in hc hn2 f hf hm]
    · intro f hf
      rw [h2]
      have hm : f ∉ bucketFiles c.ifs (C.tableT c) := fun hm => by have := hin f hm; omega
      rw [if_neg hm]
      show files'.get? f = _
      rw [hfiles, ifiles0_none f hf]

theorem upgradeIndexU_legacy (hok : ∀ r ∈ C.gens, (encodeRL r.2).length + 4 < two32) (dl : Option Bytes)
    (d1 : Disk) :
    upgradeIndexU c.ifs { data := dl, index := some ([2, 0, 0, 0, 2, C.bits] ++ logBytes C.gens), disk := d1 } =
      some { data := dl, disk := { d1 with ifiles := setFiles d1.ifiles 0 (C.ifilesL c.ifs),
                                           ihdr := some ⟨C.bits, c.ifs, 0, 0⟩ } } := by
  unfold upgradeIndexU
  simp only [readOldHeader_legacy, ne_eq, not_true_eq_false, if_false]
  have hp := parseOldIndex_log C.gens hok [2, 0, 0, 0, 2, C.bits]
    (([2, 0, 0, 0, 2, C.bits] ++ logBytes C.gens).length + 1) (by
      have := logBytes_length_ge C.gens
      simp only [List.length_append]
      omega)
  have e6 : ([2, 0, 0, 0, 2, C.bits] : Bytes).length = 6 := rfl
  rw [e6] at hp
  rw [hp]
  rfl

theorem gens_enc32 (hwf : LegacyWFU c U C) : ∀ r ∈ C.gens, (encodeRL r.2).length + 4 < two32 :=
  fun r hr => (hwf.gensOK r hr).2.2

/-- the disk after the primary phase -/
def diskP (c : Cfg) (C : LegacyC) : Disk :=
  { free := some [], freeGc := none, pfiles := setFiles [] 0 (C.pfilesL c.pfs), phdr := some ⟨c.pfs, 0⟩ }

/-- index.Open on the chunked, not yet remapped index (old index file gone); a leftover legacy primary
    `dl` is carried along -/
theorem openIndexU_chunked (hc : c.Legal) (hwf : LegacyWFU c U C)
    (hn1 : C.recs.length < 1073741824) (hn2 : C.gens.length < 1073741824) (dl : Option Bytes) :
    ∃ ifs, openIndexU c c.pfs 0 (C.lastP c)
        { data := dl, disk := C.diskPre c (setFiles [] 0 (C.ifilesL c.ifs)) } [] =
        some ({ data := dl, disk := C.diskU c ifs }, c.bits, c.ifs, C.tableT c, C.lastI c, []) ∧
      (∀ f, f ≤ C.lastI c → ifs.get? f = some (logBytes (C.lgU c f))) ∧
      (∀ f, C.lastI c < f → ifs.get? f = none) := by
  obtain ⟨p1, p2, p3, p4⟩ := openIndex_pre c hc
  have hscan := openIndex_scan0 c hc (C.diskPre c (setFiles [] 0 (C.ifilesL c.ifs)))
    (C.lastI c) (C.lg c.ifs) rfl rfl (fun f hf => ifiles0_get f hf) (ifiles0_none _ (by omega))
    (fun f _ r hr => (lg_recOK hwf f r hr).1)
  obtain ⟨files', hs1, hs2⟩ := hscan
  obtain ⟨ifs, hr1, hr2, hr3⟩ := remapIndexU_legacy hc hwf hn1 hn2 dl files' hs2
  refine ⟨ifs, ?_, hr2, hr3⟩
  unfold openIndexU
  simp only [p1, p2, if_false, p4]
  have hup : upgradeIndexU c.ifs { data := dl, disk := C.diskPre c (setFiles [] 0 (C.ifilesL c.ifs)) } =
      some { data := dl, disk := C.diskPre c (setFiles [] 0 (C.ifilesL c.ifs)) } := rfl
  have e3 : ¬ (c.bits ≠ 0 ∧ False) := fun h => h.2
  rw [if_neg e3, hup]
  have hr1' : remapIndexU { data := dl, disk := C.diskPre c files' } ⟨c.bits, c.ifs, 0, 0⟩ c.pfs 0
      (C.lastP c) (scanTo c.ifs (C.lg c.ifs) (C.lastI c)) [] =
      some ({ data := dl, disk := C.diskU c ifs }, []) := hr1
  simp only [diskPre] at hs1 hr1' ⊢
  simp only [if_true]
  rw [hs1]
  simp only
  rw [hr1']
  rfl

/-- index.Open after the primary phase, the old index file still there (also: after an interruption
    anywhere between the end of the primary phase and the removal of the old index) -/
theorem openIndexU_legacy (hc : c.Legal) (hwf : LegacyWFU c U C)
    (hn1 : C.recs.length < 1073741824) (hn2 : C.gens.length < 1073741824) (dl : Option Bytes) :
    ∃ ifs, openIndexU c c.pfs 0 (C.lastP c)
        { data := dl, index := some C.dir.index, disk := C.diskP c } [] =
        some ({ data := dl, disk := C.diskU c ifs }, c.bits, c.ifs, C.tableT c, C.lastI c, []) ∧
      (∀ f, f ≤ C.lastI c → ifs.get? f = some (logBytes (C.lgU c f))) ∧
      (∀ f, C.lastI c < f → ifs.get? f = none) := by
  obtain ⟨p1, p2, p3, p4⟩ := openIndex_pre c hc
  obtain ⟨ifs, h1, h2, h3⟩ := openIndexU_chunked hc hwf hn1 hn2 dl
  refine ⟨ifs, ?_, h2, h3⟩
  rw [← h1]
  have hup := upgradeIndexU_legacy (c := c) (C := C) (gens_enc32 hwf) dl (C.diskP c)
  have hup2 : upgradeIndexU c.ifs { data := dl, disk := C.diskPre c (setFiles [] 0 (C.ifilesL c.ifs)) } =
      some { data := dl, disk := C.diskPre c (setFiles [] 0 (C.ifilesL c.ifs)) } := rfl
  have e1 : ({ data := dl, index := some C.dir.index, disk := C.diskP c } : UDir) =
      { data := dl, index := some ([2, 0, 0, 0, 2, C.bits] ++ logBytes C.gens), disk := C.diskP c } := rfl
  have e2 : ({ data := dl, disk := { C.diskP c with ifiles := setFiles (C.diskP c).ifiles 0 (C.ifilesL c.ifs),
                                                     ihdr := some ⟨C.bits, c.ifs, 0, 0⟩ } } : UDir) =
      { data := dl, disk := C.diskPre c (setFiles [] 0 (C.ifilesL c.ifs)) } := by
    rw [hwf.bits]; rfl
  unfold openIndexU
  simp only [p1, p2, if_false, p4]
  rw [e1, hup, e2, hup2]

/-- the upgrading OpenStore on the directory of well-formed legacy contents -/
theorem upgradeOpen_legacy (hc : c.Legal) (hk : c.kind = .mh) (hwf : LegacyWFU c U C)
    (hn1 : C.recs.length < 1073741824) (hn2 : C.gens.length < 1073741824) :
    ∃ ifs, upgradeOpen c C.dir [] = some (C.diskU c ifs, C.memU c ifs) ∧
      (∀ f, f ≤ C.lastI c → ifs.get? f = some (logBytes (C.lgU c f))) ∧
      (∀ f, C.lastI c < f → ifs.get? f = none) := by
  obtain ⟨ifs, hi1, hi2, hi3⟩ := openIndexU_legacy hc hwf hn1 hn2 none
  refine ⟨ifs, ?_, hi2, hi3⟩
  unfold upgradeOpen openU
  simp only [hk, ne_eq, not_true_eq_false, if_false]
  have hprim := openPrimaryU_legacy c hc C hwf.recSize hwf.freedOK hn1 (some C.dir.index)
  have e0 : ({ UDir.ofLegacy C.dir with disk := openFreelist (UDir.ofLegacy C.dir).disk } : UDir) =
      { data := some (legacyPrimary C.recs), index := some C.dir.index,
        disk := openFreelist { free := C.dir.free } } := rfl
  rw [e0, hprim]
  simp only
  have hi1' : openIndexU c c.pfs 0 ((C.pfilesL c.pfs).length - 1)
      { data := none, index := some C.dir.index,
        disk := { free := some [], freeGc := none, pfiles := setFiles [] 0 (C.pfilesL c.pfs),
                  phdr := some ⟨c.pfs, 0⟩ } } [] = _ := hi1
  rw [hi1']
  simp only [List.isEmpty_nil, if_true]
  rfl

end LegacyC

end Sth
