/-
Primary flush (C01, layer 2): the locations `priPut` predicted are the positions `priFlush` writes at;
every readable record stays readable with the same contents.
Core Lean only.
-/
import Sth.Lemmas.StoreDisk

namespace Sth

/-! ### allocation chains -/

/-- replaying the multihash primary's allocation rule over pooled records -/
def allocMh (pmax : Nat) : Nat → Nat → List PRec → Nat → Nat → Prop
  | fn, len, [], efn, elen => fn = efn ∧ len = elen
  | fn, len, r :: rs, efn, elen =>
    r.blk = ⟨pmax * (if len ≥ pmax then fn + 1 else fn) + (if len ≥ pmax then 0 else len),
      r.key.length + r.val.length⟩ ∧
    allocMh pmax (if len ≥ pmax then fn + 1 else fn)
      ((if len ≥ pmax then 0 else len) + 4 + (r.key.length + r.val.length)) rs efn elen

theorem allocMh_snoc {pmax : Nat} : ∀ {rs : List PRec} {fn len mfn mlen efn elen : Nat} {r : PRec},
    allocMh pmax fn len rs mfn mlen → allocMh pmax mfn mlen [r] efn elen →
    allocMh pmax fn len (rs ++ [r]) efn elen
  | [], _, _, _, _, _, _, _, h1, h2 => by
    obtain ⟨rfl, rfl⟩ := h1
    exact h2
  | x :: rs, _, _, _, _, _, _, _, h1, h2 => by
    exact ⟨h1.1, allocMh_snoc h1.2 h2⟩

theorem allocMh_le {pmax : Nat} : ∀ {rs : List PRec} {fn len efn elen : Nat},
    allocMh pmax fn len rs efn elen → fn ≤ efn
  | [], _, _, _, _, h => by obtain ⟨rfl, _⟩ := h; exact Nat.le_refl _
  | x :: rs, fn, len, _, _, h => by
    have := allocMh_le h.2
    split at this <;> omega

def allocCid : Nat → List PRec → Nat → Prop
  | len, [], elen => len = elen
  | len, r :: rs, elen =>
    r.blk = ⟨len, r.key.length + r.val.length⟩ ∧
      allocCid (len + 4 + (r.key.length + r.val.length)) rs elen

theorem allocCid_snoc : ∀ {rs : List PRec} {len mlen elen : Nat} {r : PRec},
    allocCid len rs mlen → allocCid mlen [r] elen → allocCid len (rs ++ [r]) elen
  | [], _, _, _, _, h1, h2 => by
    cases h1
    exact h2
  | x :: rs, _, _, _, _, h1, h2 => by
    exact ⟨h1.1, allocCid_snoc h1.2 h2⟩

/-! ### the primary's part of the disk invariant -/

structure PInv (m : Mem) (d : Disk) : Prop where
  pmax : m.kind = .mh → 1 ≤ m.pmax
  recs : ∀ r ∈ m.pnext, RecOK m.kind r
  nextBelow : ∀ r ∈ m.pnext, Below m r.blk
  curDisk : ∀ r ∈ m.pcur, diskRead m.kind m.pmax d r.blk = .got r.key r.val ∧ Below m r.blk
  mh : m.kind = .mh → allocMh m.pmax m.pfileNum m.plength m.pnext m.precFileNum m.precPos ∧
    (fileOf d.pfiles m.pfileNum).length = m.plength ∧ (∀ f, m.pfileNum < f → d.pfiles.get? f = none)
  cid : m.kind = .cid → allocCid (d.cidfile.getD []).length m.pnext m.precPos

/-! ### multihash primary: one record, then the fold -/

def pstepMh (md : Mem × Disk) (r : PRec) : Option (Mem × Disk) :=
  let (m, d) := md
  let roll := m.plength ≥ m.pmax
  if roll ∧ d.pfiles.has (m.pfileNum + 1) then none else
  let (fn, len, files) :=
    if roll then (m.pfileNum + 1, 0, d.pfiles.set (m.pfileNum + 1) []) else (m.pfileNum, m.plength, d.pfiles)
  let data := le32 (r.key.length + r.val.length) ++ r.key ++ r.val
  some ({ m with pfileNum := fn, plength := len + data.length },
        { d with pfiles := files.set fn (fileOf files fn ++ data) })

theorem pstepMh_ok {m : Mem} {d : Disk} {r : PRec} (hp : 1 ≤ m.pmax)
    (hlen : (fileOf d.pfiles m.pfileNum).length = m.plength)
    (hno : ∀ f, m.pfileNum < f → d.pfiles.get? f = none)
    (hr : RecOK .mh r)
    (hb : r.blk = ⟨m.pmax * (if m.plength ≥ m.pmax then m.pfileNum + 1 else m.pfileNum) +
      (if m.plength ≥ m.pmax then 0 else m.plength), r.key.length + r.val.length⟩)
    (hf : (if m.plength ≥ m.pmax then m.pfileNum + 1 else m.pfileNum) < two32) :
    ∃ files', pstepMh (m, d) r =
        some ({ m with pfileNum := (if m.plength ≥ m.pmax then m.pfileNum + 1 else m.pfileNum),
                       plength := (if m.plength ≥ m.pmax then 0 else m.plength) + 4 +
                         (r.key.length + r.val.length) },
              { d with pfiles := files' }) ∧
      FilesExt d.pfiles files' ∧
      (fileOf files' (if m.plength ≥ m.pmax then m.pfileNum + 1 else m.pfileNum)).length =
        (if m.plength ≥ m.pmax then 0 else m.plength) + 4 + (r.key.length + r.val.length) ∧
      (∀ f, (if m.plength ≥ m.pmax then m.pfileNum + 1 else m.pfileNum) < f → files'.get? f = none) ∧
      diskRead .mh m.pmax { d with pfiles := files' } r.blk = .got r.key r.val := by
  have hdl : (le32 (r.key.length + r.val.length) ++ r.key ++ r.val).length =
      4 + (r.key.length + r.val.length) := recBytes_length r
  by_cases hroll : m.plength ≥ m.pmax
  · simp only [if_pos hroll] at hb hf ⊢
    have hnone : d.pfiles.get? (m.pfileNum + 1) = none := hno _ (by omega)
    refine ⟨(d.pfiles.set (m.pfileNum + 1) []).set (m.pfileNum + 1)
      (fileOf (d.pfiles.set (m.pfileNum + 1) []) (m.pfileNum + 1) ++ recBytes r), ?_, ?_, ?_, ?_, ?_⟩
    · unfold pstepMh
      simp only [hroll, has_eq_false hnone, and_false, if_false, if_true, Bool.false_eq_true, hdl,
        recBytes, Nat.add_assoc]
    · exact (FilesExt.create _ _ hnone).trans (FilesExt.append _ _ _)
    · rw [fileOf_some (NMap.get?_set_eq _ _ _), fileOf_some (NMap.get?_set_eq _ _ _)]
      simp [recBytes_length]
    · intro f hf'
      rw [NMap.get?_set_ne _ _ (by omega), NMap.get?_set_ne _ _ (by omega)]
      exact hno f (by omega)
    · apply diskRead_mh_new (F := []) (g := []) hp (by omega) hf hb _ rfl hr
      simp only [NMap.get?_set_eq, fileOf_some (NMap.get?_set_eq _ _ _), List.nil_append,
        List.append_nil]
  · simp only [if_neg hroll] at hb hf ⊢
    refine ⟨d.pfiles.set m.pfileNum (fileOf d.pfiles m.pfileNum ++ recBytes r), ?_, ?_, ?_, ?_, ?_⟩
    · unfold pstepMh
      simp only [hroll, false_and, if_false, hdl, recBytes, Nat.add_assoc]
    · exact FilesExt.append _ _ _
    · rw [fileOf_some (NMap.get?_set_eq _ _ _)]
      simp [recBytes_length, hlen]; omega
    · intro f hf'
      rw [NMap.get?_set_ne _ _ (by omega)]
      exact hno f hf'
    · apply diskRead_mh_new (F := fileOf d.pfiles m.pfileNum) (g := []) hp (by omega) hf hb _ hlen hr
      simp only [NMap.get?_set_eq, List.append_nil]

theorem pfold_mh : ∀ (recs : List PRec) (m : Mem) (d : Disk) (efn elen : Nat),
    1 ≤ m.pmax → allocMh m.pmax m.pfileNum m.plength recs efn elen →
    (fileOf d.pfiles m.pfileNum).length = m.plength →
    (∀ f, m.pfileNum < f → d.pfiles.get? f = none) →
    efn < two32 → (∀ r ∈ recs, RecOK .mh r) →
    ∃ files', recs.foldlM pstepMh (m, d) =
        some ({ m with pfileNum := efn, plength := elen }, { d with pfiles := files' }) ∧
      FilesExt d.pfiles files' ∧ (fileOf files' efn).length = elen ∧
      (∀ f, efn < f → files'.get? f = none) ∧
      (∀ r ∈ recs, diskRead .mh m.pmax { d with pfiles := files' } r.blk = .got r.key r.val)
  | [], m, d, efn, elen, _, ha, hlen, hno, _, _ => by
    obtain ⟨rfl, rfl⟩ := ha
    exact ⟨d.pfiles, rfl, FilesExt.refl _, hlen, hno, by simp⟩
  | r :: rs, m, d, efn, elen, hp, ha, hlen, hno, hf, hr => by
    have hle := allocMh_le ha.2
    obtain ⟨files1, h1, h2, h3, h4, h5⟩ := pstepMh_ok hp hlen hno (hr r (by simp)) ha.1 (by omega)
    obtain ⟨files', g1, g2, g3, g4, g5⟩ := pfold_mh rs
      { m with pfileNum := (if m.plength ≥ m.pmax then m.pfileNum + 1 else m.pfileNum),
               plength := (if m.plength ≥ m.pmax then 0 else m.plength) + 4 +
                 (r.key.length + r.val.length) }
      { d with pfiles := files1 } efn elen
      hp ha.2 h3 h4 hf (fun x hx => hr x (by simp [hx]))
    refine ⟨files', ?_, h2.trans g2, g3, g4, ?_⟩
    · rw [List.foldlM_cons, h1]
      exact g1
    · intro x hx
      simp only [List.mem_cons] at hx
      rcases hx with rfl | hx
      · exact diskRead_mh_mono (d := { d with pfiles := files1 }) (d' := { d with pfiles := files' })
          g2 h5
      · exact g5 x hx

/-! ### CID primary: one append -/

theorem cid_readback : ∀ (recs : List PRec) (F T : Bytes) (elen : Nat),
    allocCid F.length recs elen → (∀ r ∈ recs, RecOK .cid r) →
    elen = F.length + (recs.flatMap recBytes).length ∧
      ∀ r ∈ recs, ∀ (d : Disk) (pmax : Nat), d.cidfile = some (F ++ recs.flatMap recBytes ++ T) →
        diskRead .cid pmax d r.blk = .got r.key r.val
  | [], F, T, elen, ha, _ => by
    cases ha
    exact ⟨by simp, by simp⟩
  | r :: rs, F, T, elen, ha, hr => by
    have hl : (F ++ recBytes r).length = F.length + 4 + (r.key.length + r.val.length) := by
      simp [recBytes_length]; omega
    obtain ⟨ih1, ih2⟩ := cid_readback rs (F ++ recBytes r) T elen (by rw [hl]; exact ha.2)
      (fun x hx => hr x (by simp [hx]))
    refine ⟨?_, ?_⟩
    · rw [ih1, hl]
      simp [recBytes_length]; omega
    · intro x hx d pmax hd
      simp only [List.mem_cons] at hx
      rcases hx with rfl | hx
      · apply diskRead_cid_new (F := F) (g := rs.flatMap recBytes ++ T) ha.1 _ (hr x (by simp))
        rw [hd]
        simp [List.append_assoc]
      · apply ih2 x hx d pmax
        rw [hd]
        simp [List.append_assoc]

end Sth

namespace Sth

/-! ### `priFlush` -/

theorem priFlush_empty {m : Mem} {d : Disk} (h : m.pnext.isEmpty = true) : priFlush m d = some (m, d) := by
  unfold priFlush; simp only [h, if_true]

theorem priFlush_mh_eq {m : Mem} {d : Disk} (hk : m.kind = .mh) (hne : m.pnext.isEmpty = false) :
    priFlush m d = m.pnext.foldlM pstepMh ({ m with pcur := m.pnext, pnext := [] }, d) := by
  unfold priFlush
  simp only [hne, Bool.false_eq_true, if_false, hk]
  rfl

theorem priFlush_cid_eq {m : Mem} {d : Disk} (hk : m.kind = .cid) (hne : m.pnext.isEmpty = false) :
    priFlush m d = some ({ m with pcur := m.pnext, pnext := [] },
      { d with cidfile := some ((d.cidfile.getD []) ++ m.pnext.flatMap recBytes) }) := by
  unfold priFlush
  simp only [hne, Bool.false_eq_true, if_false, hk]
  rfl

/-- shape of the memory / disk after a primary flush -/
abbrev pfl (m : Mem) (pc : List PRec) (pfn plen : Nat) : Mem :=
  { m with pcur := pc, pnext := [], pfileNum := pfn, plength := plen }
abbrev dfl (d : Disk) (pfiles : NMap Bytes) (cidf : Option Bytes) : Disk :=
  { d with pfiles := pfiles, cidfile := cidf }

theorem kind_cases (m : Mem) : m.kind = .mh ∨ m.kind = .cid := by
  cases m.kind
  · exact Or.inl rfl
  · exact Or.inr rfl

/-- after the records of `pnext` have reached the disk: the new `pcur` is backed by the disk and every
    read gives what it gave before -/
theorem flush_common {m : Mem} {d d' : Disk} (h : PInv m d) (pfn plen : Nat)
    (hmono : ∀ blk k v, diskRead m.kind m.pmax d blk = .got k v →
      diskRead m.kind m.pmax d' blk = .got k v) :
    ∀ blk k v, priGet m d blk = .got k v → priGet (pfl m m.pnext pfn plen) d' blk = .got k v := by
  intro blk k v hg
  rw [priGet_eq] at hg ⊢
  have e0 : poolFind (pfl m m.pnext pfn plen).pnext blk = none := rfl
  have e1 : (pfl m m.pnext pfn plen).pcur = m.pnext := rfl
  rw [e0, e1]
  simp only
  cases h1 : poolFind m.pnext blk with
  | some r => rw [h1] at hg; exact hg
  | none =>
    rw [h1] at hg
    simp only at hg ⊢
    have hthr : thrOK (pfl m m.pnext pfn plen) blk = thrOK m blk := rfl
    have hpd : priDisk (pfl m m.pnext pfn plen) d' blk =
        if thrOK m blk then diskRead m.kind m.pmax d' blk else .err := rfl
    rw [hpd]
    cases h2 : poolFind m.pcur blk with
    | some r =>
      rw [h2] at hg
      simp only at hg
      obtain ⟨hr1, hr2⟩ := poolFind_some h2
      obtain ⟨c1, c2⟩ := h.curDisk r hr1
      rw [hr2] at c1 c2
      rw [if_pos c2.thrOK]
      rw [← hg]
      exact hmono _ _ _ c1
    | none =>
      rw [h2] at hg
      simp only at hg
      unfold priDisk at hg
      by_cases ht : thrOK m blk
      · rw [if_pos ht] at hg ⊢
        exact hmono _ _ _ hg
      · rw [if_neg ht] at hg
        cases hg

theorem priFlush_ok {m : Mem} {d : Disk} (h : PInv m d) (hfn : m.kind = .mh → m.precFileNum < two32) :
    ∃ pc pfn plen pfiles cidf,
      priFlush m d = some (pfl m pc pfn plen, dfl d pfiles cidf) ∧
      PInv (pfl m pc pfn plen) (dfl d pfiles cidf) ∧
      ∀ blk k v, priGet m d blk = .got k v →
        priGet (pfl m pc pfn plen) (dfl d pfiles cidf) blk = .got k v := by
  by_cases hne : m.pnext.isEmpty = true
  · have hnil : m.pnext = [] := List.isEmpty_iff.mp hne
    have hm : pfl m m.pcur m.pfileNum m.plength = m := by
      cases m; simp_all [pfl]
    refine ⟨m.pcur, m.pfileNum, m.plength, d.pfiles, d.cidfile, ?_, ?_, ?_⟩
    · rw [priFlush_empty hne, hm]
    · rw [hm]; exact h
    · rw [hm]; intro blk k v hg; exact hg
  · have hne' : m.pnext.isEmpty = false := by simpa using hne
    rcases kind_cases m with hk | hk
    · obtain ⟨ha, hlen, hno⟩ := h.mh hk
      have hp := h.pmax hk
      obtain ⟨files', g1, g2, g3, g4, g5⟩ := pfold_mh m.pnext { m with pcur := m.pnext, pnext := [] } d
        m.precFileNum m.precPos hp ha hlen hno (hfn hk)
        (fun r hr => by have := h.recs r hr; rw [hk] at this; exact this)
      have hmono : ∀ blk k v, diskRead m.kind m.pmax d blk = .got k v →
          diskRead m.kind m.pmax (dfl d files' d.cidfile) blk = .got k v := by
        intro blk k v hr
        rw [hk] at hr ⊢
        exact diskRead_mh_mono (d' := dfl d files' d.cidfile) g2 hr
      have hnew : ∀ r ∈ m.pnext, diskRead m.kind m.pmax (dfl d files' d.cidfile) r.blk =
          .got r.key r.val := by
        intro r hr
        rw [hk]
        exact g5 r hr
      refine ⟨m.pnext, m.precFileNum, m.precPos, files', d.cidfile, ?_, ?_, ?_⟩
      · rw [priFlush_mh_eq hk hne', g1]
      · refine ⟨h.pmax, ?_, ?_, ?_, ?_, ?_⟩
        · intro r hr; cases hr
        · intro r hr; cases hr
        · intro r hr
          exact ⟨hnew r hr, h.nextBelow r hr⟩
        · intro _
          exact ⟨⟨rfl, rfl⟩, g3, g4⟩
        · intro hc
          have : m.kind = .cid := hc
          rw [hk] at this
          cases this
      · exact flush_common h _ _ hmono
    · have ha := h.cid hk
      obtain ⟨c1, c2⟩ := cid_readback m.pnext (d.cidfile.getD []) [] m.precPos ha
        (fun r hr => by have := h.recs r hr; rw [hk] at this; exact this)
      have hmono : ∀ blk k v, diskRead m.kind m.pmax d blk = .got k v →
          diskRead m.kind m.pmax
            (dfl d d.pfiles (some ((d.cidfile.getD []) ++ m.pnext.flatMap recBytes))) blk = .got k v := by
        intro blk k v hr
        rw [hk] at hr ⊢
        cases hcf : d.cidfile with
        | none => unfold diskRead at hr; simp [hcf] at hr
        | some file =>
          exact diskRead_cid_mono
            (d' := dfl d d.pfiles (some ((some file).getD [] ++ m.pnext.flatMap recBytes))) hcf rfl hr
      have hnew : ∀ r ∈ m.pnext, diskRead m.kind m.pmax
          (dfl d d.pfiles (some ((d.cidfile.getD []) ++ m.pnext.flatMap recBytes))) r.blk =
            .got r.key r.val := by
        intro r hr
        rw [hk]
        apply c2 r hr
        simp
      refine ⟨m.pnext, m.pfileNum, m.plength, d.pfiles,
        some ((d.cidfile.getD []) ++ m.pnext.flatMap recBytes), ?_, ?_, ?_⟩
      · rw [priFlush_cid_eq hk hne']
      · refine ⟨h.pmax, ?_, ?_, ?_, ?_, ?_⟩
        · intro r hr; cases hr
        · intro r hr; cases hr
        · intro r hr
          exact ⟨hnew r hr, h.nextBelow r hr⟩
        · intro hc
          have : m.kind = .mh := hc
          rw [hk] at this
          cases this
        · intro _
          show allocCid _ [] m.precPos
          simp only [allocCid, Option.getD_some, List.length_append]
          omega
      · exact flush_common h _ _ hmono

end Sth

namespace Sth

/-! ### the primary invariant under the in-memory updates -/

theorem PInv.putMem {m : Mem} {d : Disk} (h : PInv m d) (key val : Bytes)
    (hrec : RecOK m.kind ⟨nextBlk m (key.length + val.length), key, val⟩) :
    PInv (Sth.putMem m key val) d := by
  constructor
  · rw [putMem_kind, putMem_pmax]; exact h.pmax
  · intro r hr
    rw [putMem_pnext, List.mem_append, List.mem_singleton] at hr
    rw [putMem_kind]
    rcases hr with hr | rfl
    · exact h.recs r hr
    · exact hrec
  · intro r hr
    rw [putMem_pnext, List.mem_append, List.mem_singleton] at hr
    rcases hr with hr | rfl
    · exact below_putMem key val (h.nextBelow r hr)
    · exact below_putMem_new h.pmax key val
  · intro r hr
    rw [putMem_pcur] at hr
    rw [putMem_kind, putMem_pmax]
    exact ⟨(h.curDisk r hr).1, below_putMem key val (h.curDisk r hr).2⟩
  · intro hk
    rw [putMem_kind] at hk
    obtain ⟨ha, hlen, hno⟩ := h.mh hk
    obtain ⟨e1, e2⟩ := putMem_prec_mh hk key val
    rw [putMem_pmax, putMem_pfileNum, putMem_plength, putMem_pnext, e1, e2]
    refine ⟨allocMh_snoc ha ?_, hlen, hno⟩
    refine ⟨?_, rfl, rfl⟩
    unfold nextBlk nextFile nextPos
    simp only [hk]
  · intro hk
    rw [putMem_kind] at hk
    have ha := h.cid hk
    rw [putMem_pnext, (putMem_prec_cid hk key val).2]
    refine allocCid_snoc ha ⟨?_, rfl⟩
    unfold nextBlk
    simp only [hk]

theorem PInv.frame {m m' : Mem} {d : Disk} (h : PInv m d)
    (h1 : m'.kind = m.kind) (h2 : m'.pmax = m.pmax) (h3 : m'.pnext = m.pnext) (h4 : m'.pcur = m.pcur)
    (h5 : m'.pfileNum = m.pfileNum) (h6 : m'.plength = m.plength)
    (h7 : m'.precFileNum = m.precFileNum) (h8 : m'.precPos = m.precPos) : PInv m' d := by
  have hb : ∀ blk, Below m blk → Below m' blk := by
    intro blk hbl
    unfold Below at hbl ⊢
    rw [h1, h2, h7, h8]
    exact hbl
  constructor
  · rw [h1, h2]; exact h.pmax
  · rw [h1, h3]; exact h.recs
  · rw [h3]; exact fun r hr => hb _ (h.nextBelow r hr)
  · rw [h1, h2, h4]; exact fun r hr => ⟨(h.curDisk r hr).1, hb _ (h.curDisk r hr).2⟩
  · rw [h1, h2, h3, h5, h6, h7, h8]; exact h.mh
  · rw [h1, h3, h8]; exact h.cid

end Sth
