import Sth.Lemmas.C13H5

/-!
C13 along GC histories, completeness: coverage inside a primary GC cycle — relocation, reapRecords,
the visited set, the unlink of the first file.  Core Lean only.
-/

namespace Sth.C13H

open Sth.C11

section
variable {c : Cfg} {U : List (Bytes × Bytes)} {cfg : Cfg} {m : Mem} {d : Disk} {spec : Spec}
  {k B pf : Nat} {psp : Nat → List GSpan}

theorem HState.mono {k' : Nat} (h : HState c U cfg m d spec k B pf psp) (hk : k ≤ k') :
    HState c U cfg m d spec k' B pf psp :=
  ⟨h.gs.mono hk, h.cov⟩

/-- relocation keeps the state description and coverage: the copy is current (or recorded, when the
    index refused), the old location is recorded -/
theorem relocate_h (hU : Univ c.kind U) (hS : HState c U cfg m d spec k B pf psp)
    (hk : k + 1 < 1073741824) {fnum at_ : Nat} {body : Bytes}
    (h1 : pf ≤ fnum) (h2 : fnum < m.pfileNum) (hx : (at_, body) ∈ liveAt 0 (psp fnum)) {m' : Mem}
    (hrel : relocate m d fnum (gbytes (psp fnum)) at_ body.length = some m') :
    HState c U cfg m' d spec (k + 1) B pf psp ∧ m'.pfileNum = m.pfileNum ∧ m'.pmax = m.pmax ∧
      m'.visited = m.visited := by
  obtain ⟨g1, g2, g3, g4, g5, g6, g7, _, g9, r, g10, g11⟩ :=
    relocate_g3 hU hS.gs.g hk hS.gs.hdr hS.gs.log hS.gs.ent hS.gs.fl h1 h2 hx hrel
  obtain ⟨o1, o2⟩ := relocate_records_old hrel
  refine ⟨⟨⟨g1, by rw [g6]; exact hS.gs.hdr, g2, g3, g4⟩, ?_⟩, g5, g6, g7⟩
  have hrec : ∀ blk, blk ∈ recordedG ⟨cfg, m, d⟩ → blk ∈ recordedG ⟨cfg, m', d⟩ := by
    intro blk hb
    rw [mem_recordedG] at hb ⊢
    rcases hb with hb | hb | hb
    · exact Or.inl hb
    · exact Or.inr (Or.inl hb)
    · exact Or.inr (Or.inr (o2 blk hb))
  have hpool : ∀ blk, blk ∈ m'.flpool → blk ∈ recordedG ⟨cfg, m', d⟩ := by
    intro blk hb
    rw [mem_recordedG]
    exact Or.inr (Or.inr hb)
  apply hS.cov.transfer' (cfg' := cfg) (m' := m') (d' := d) (pf' := pf) (psp' := psp) g6
  · intro g a b x hx'
    exact Or.inl ⟨a, by rw [← g5]; exact b, hx'⟩
  · intro r' hr'
    rw [g10, List.mem_append, List.mem_singleton] at hr'
    rcases hr' with hr' | rfl
    · exact Or.inl hr'
    · exact Or.inr (g11.imp id (hpool _))
  · intro blk hc
    rcases hc with hc | hc
    · rcases g9 blk hc with h | h
      · exact Or.inl h
      · exact Or.inr (by rw [h]; exact hpool _ o1)
    · exact Or.inr (hrec blk hc)

/-- the visited set is not looked at -/
theorem HState.visited (h : HState c U cfg m d spec k B pf psp) (vis : List Nat) :
    HState c U cfg { m with visited := vis } d spec k B pf psp := by
  have hG' := h.gs.g.visited vis
  have hgs : GState c U cfg { m with visited := vis } d spec k B pf psp :=
    state_with hG' h.gs.hdr (fun g a b => ⟨h.gs.log.files g a b, h.gs.log.ok g a b⟩)
  refine ⟨hgs, ?_⟩
  apply h.cov.transfer' (cfg' := cfg) (m' := { m with visited := vis }) (d' := d) (pf' := pf)
    (psp' := psp) rfl
  · intro g a b x hx
    exact Or.inl ⟨a, b, hx⟩
  · intro r hr
    exact Or.inl hr
  · intro blk hc
    exact hc

/-- unlinking the first file once it holds no record span -/
theorem drop_h (hS : HState c U cfg m d spec k B pf psp) (hk : k < 1073741824)
    (hlt : pf < m.pfileNum) (hempty : liveAt 0 (psp pf) = []) :
    HState c U cfg m { d with phdr := some ⟨m.pmax, pf + 1⟩, pfiles := d.pfiles.del pf } spec k B
      (pf + 1) psp := by
  refine ⟨drop_state hS.gs hk hlt hempty, ?_⟩
  apply hS.cov.transfer' (cfg' := cfg) (m' := m)
    (d' := { d with phdr := some ⟨m.pmax, pf + 1⟩, pfiles := d.pfiles.del pf }) (pf' := pf + 1)
    (psp' := psp) rfl
  · intro g a b x hx
    exact Or.inl ⟨by omega, b, hx⟩
  · intro r hr
    exact Or.inl hr
  · intro blk hc
    rcases hc with hc | hc
    · exact Or.inl hc
    · exact Or.inr hc

/-- reapRecords on a closed file keeps the state description and coverage -/
theorem reapRecords_h (hU : Univ c.kind U) (hS : HState c U cfg m d spec k B pf psp)
    (hk : k + 2 < 1073741824) {nn : Nat} (h1 : pf ≤ nn) (h2 : nn < m.pfileNum) (lowUse : Nat) :
    ∃ k' psp', HState c U cfg (reapRecords m d nn lowUse).2.1 (reapRecords m d nn lowUse).2.2.1 spec k' B
        pf psp' ∧ k' ≤ k + 2 ∧
      (reapRecords m d nn lowUse).2.1.pfileNum = m.pfileNum ∧
      (reapRecords m d nn lowUse).2.1.pmax = m.pmax ∧
      (reapRecords m d nn lowUse).2.1.visited = m.visited ∧
      ((reapRecords m d nn lowUse).1 = .dead → liveAt 0 (psp' nn) = []) := by
  have hfile : d.pfiles.get? nn = some (gbytes (psp nn)) := hS.gs.log.files nn h1 (by omega)
  unfold reapRecords
  rw [hfile]
  simp only
  by_cases hemp : (gbytes (psp nn)).isEmpty = true
  · rw [if_pos hemp]
    refine ⟨k, psp, hS, by omega, rfl, rfl, rfl, fun _ => ?_⟩
    have : psp nn = [] := gbytes_eq_nil (List.isEmpty_iff.mp hemp)
    rw [this]; rfl
  rw [if_neg hemp]
  obtain ⟨ss', hf', hR, hL, hdead⟩ := reapFile_ok (psp nn) (hS.gs.log.ok nn h1 (by omega))
  generalize reapPriLoop ((gbytes (psp nn)).length + 2) { file := gbytes (psp nn) } = st at hf' hL hdead ⊢
  have hfw : (if st.freeAt > st.busyAt then
        (truncateTo st.file st.freeAt.toNat, st.freeAtSize, decide (st.freeAt = 0))
      else (st.file, 0, false)) =
      (gbytes ss', (if st.freeAt > st.busyAt then st.freeAtSize else 0),
        (if st.freeAt > st.busyAt then decide (st.freeAt = 0) else false)) := by
    by_cases hc : st.freeAt > st.busyAt
    · rw [if_pos hc] at hf'; simp only [if_pos hc, hf']
    · rw [if_neg hc] at hf'; simp only [if_neg hc, hf']
  rw [hfw]
  simp only
  -- the state after the file is written back
  obtain ⟨l1, l2, l3⟩ := reap_step hS.gs.log h1 h2 hR
  have hne : nn ≠ m.pfileNum := by omega
  obtain ⟨g1, g2, g3⟩ := ginv_disk_step (d' := { d with pfiles := d.pfiles.set nn (gbytes ss') })
    hS.gs.g (by omega) hS.gs.log hS.gs.ent hS.gs.fl rfl rfl rfl rfl hS.gs.hdr l1
    (fun blk body _ ho => l2 blk body ho) (fun fb hfb => l3 fb hfb.2.2.1)
    (by
      show (fileOf (d.pfiles.set nn (gbytes ss')) m.pfileNum).length = m.plength
      unfold fileOf
      rw [NMap.get?_set_ne _ _ (Ne.symm hne)]
      exact hS.gs.g.plen)
    (by
      intro f hf
      show (d.pfiles.set nn (gbytes ss')).get? f = none
      rw [NMap.get?_set_ne _ _ (by omega)]
      exact hS.gs.g.pno f hf)
  have hpn : (fun f => if f = nn then ss' else psp f) nn = ss' := by simp
  have hS1 : HState c U cfg m { d with pfiles := d.pfiles.set nn (gbytes ss') } spec k B pf
      (fun f => if f = nn then ss' else psp f) := by
    refine ⟨⟨g1, hS.gs.hdr, l1, g2, g3⟩, ?_⟩
    apply hS.cov.transfer' (cfg' := cfg) (m' := m)
      (d' := { d with pfiles := d.pfiles.set nn (gbytes ss') }) (pf' := pf)
      (psp' := fun f => if f = nn then ss' else psp f) rfl
    · intro g a b x hx
      left
      refine ⟨a, b, ?_⟩
      by_cases hg : g = nn
      · subst hg
        simp only [if_true] at hx
        rw [← hR.live]; exact hx
      · simp only [hg, if_false] at hx; exact hx
    · intro r hr
      exact Or.inl hr
    · intro blk hc
      rcases hc with hc | hc
      · exact Or.inl hc
      · exact Or.inr hc
  by_cases hdd : (if st.freeAt > st.busyAt then decide (st.freeAt = 0) else false) = true
  · rw [if_pos hdd]
    refine ⟨k, _, hS1, by omega, rfl, rfl, rfl, fun _ => ?_⟩
    show liveAt 0 ((fun f => if f = nn then ss' else psp f) nn) = []
    rw [hpn]
    by_cases hc : st.freeAt > st.busyAt
    · rw [if_pos hc] at hdd
      rw [hdead hc (of_decide_eq_true hdd)]; rfl
    · rw [if_neg hc] at hdd; cases hdd
  rw [if_neg hdd]
  by_cases hb1 : st.busyAt = -1
  · rw [if_pos hb1]
    exact ⟨k, _, hS1, by omega, rfl, rfl, rfl, fun h => by cases h⟩
  rw [if_neg hb1]
  by_cases hlow : ¬ 100 * st.totalFree ≥ lowUse * (st.totalFree + st.totalBusy)
  · rw [if_neg hlow]
    exact ⟨k, _, hS1, by omega, rfl, rfl, rfl, fun h => by cases h⟩
  rw [if_pos (Classical.not_not.mp hlow)]
  rcases hL with ⟨hb, _⟩ | ⟨pre, off, body, hl, hba, hbs, hprev⟩
  · exact absurd hb hb1
  have hx : (off, body) ∈ liveAt 0 ((fun f => if f = nn then ss' else psp f) nn) := by
    rw [hpn, hl]; simp
  have hoff : st.busyAt.toNat = off := by rw [hba]; rfl
  rw [hoff, hbs]
  cases hr1 : relocate m { d with pfiles := d.pfiles.set nn (gbytes ss') } nn (gbytes ss') off body.length with
  | none => exact ⟨k, _, hS1, by omega, rfl, rfl, rfl, fun h => by cases h⟩
  | some m1 =>
    simp only
    have hr1' : relocate m { d with pfiles := d.pfiles.set nn (gbytes ss') } nn
        (gbytes ((fun f => if f = nn then ss' else psp f) nn)) off body.length = some m1 := by
      rw [hpn]; exact hr1
    obtain ⟨hS2, e1, e2, e3⟩ := relocate_h hU hS1 (by omega) h1 h2 hx hr1'
    rcases hprev with ⟨hp, _⟩ | ⟨pre', off', body', hl', hpa, hps⟩
    · have : ¬ st.prevBusyAt ≥ 0 := by rw [hp]; decide
      rw [if_neg this]
      exact ⟨k + 1, _, hS2, by omega, e1, e2, e3, fun h => by cases h⟩
    · have : st.prevBusyAt ≥ 0 := by rw [hpa]; exact Int.natCast_nonneg _
      rw [if_pos this]
      have hoff' : st.prevBusyAt.toNat = off' := by rw [hpa]; rfl
      rw [hoff', hps]
      have hx' : (off', body') ∈ liveAt 0 ((fun f => if f = nn then ss' else psp f) nn) := by
        rw [hpn, hl, hl']; simp
      cases hr2 : relocate m1 { d with pfiles := d.pfiles.set nn (gbytes ss') } nn (gbytes ss') off'
          body'.length with
      | none => exact ⟨k + 1, _, hS2, by omega, e1, e2, e3, fun h => by cases h⟩
      | some m2 =>
        simp only
        have hr2' : relocate m1 { d with pfiles := d.pfiles.set nn (gbytes ss') } nn
            (gbytes ((fun f => if f = nn then ss' else psp f) nn)) off' body'.length = some m2 := by
          rw [hpn]; exact hr2
        obtain ⟨hS3, e1', e2', e3'⟩ := relocate_h hU hS2 (by omega) h1 (by omega) hx' hr2'
        exact ⟨k + 1 + 1, _, hS3, by omega, by rw [e1', e1], by rw [e2', e2], by rw [e3', e3],
          fun h => by cases h⟩

end

end Sth.C13H
