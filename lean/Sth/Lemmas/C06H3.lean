/-
C06 — the hand-over windows of primary GC, part 3: hand-over, window, flush, window, apply put together.
Core Lean only.
-/
import Sth.Lemmas.C06H2

namespace Sth.C06W

open Sth.C11 Sth.C13H Sth.C13X

section
variable {c : Cfg} {U : List (Bytes × Bytes)} {s : SState} {spec : Spec} {n B : Nat}

/-- what the apply step does at the end of a hand-over pass with windows; `g0` is the hand-over file the
    pass started with, `s2` the state when the apply starts -/
structure ApplyOut (c : Cfg) (U : List (Bytes × Bytes)) (g0 : Option Bytes) (s2 : SState) (spec : Spec)
    (B : Nat) (budget : Budget) : Prop where
  out : ∃ o files g bud aff n' pf psp psp',
    passApply s2.m s2.d budget = (o, s2.m, { s2.d with pfiles := files, freeGc := g }, bud, aff) ∧
    GInv c U ⟨s2.cfg, s2.m, { s2.d with pfiles := files, freeGc := g }⟩ spec n' B ∧
    GState c U s2.cfg s2.m s2.d spec n' B pf psp ∧
    GState c U s2.cfg s2.m { s2.d with pfiles := files, freeGc := g } spec n' B pf psp' ∧
    (g = g0 ∨ (o = .ok ∧ g = none)) ∧
    (o = .ok → g = none ∧
      Kills s2.m pf (fun b => b ∈ flGcEntries { s2.d with freeGc := g0 }) psp psp' aff)

/-- hand-over → calls of other threads → flush → calls of other threads → apply, from a state satisfying
    the GC invariant -/
theorem handover_g (hc : c.Legal) (hU : Univ c.kind U) (hG : GInv c U s spec n B)
    (win1 win2 : List SOp) (hw1 : ∀ op ∈ win1, isWin op = true) (hw2 : ∀ op ∈ win2, isWin op = true)
    (hk1 : ∀ op ∈ win1, ∀ k, op.keyOf = some k → ∀ dig, keyClass c.kind k = .ok dig → (k, dig) ∈ U)
    (hk2 : ∀ op ∈ win2, ∀ k, op.keyOf = some k → ∀ dig, keyClass c.kind k = .ok dig → (k, dig) ∈ U)
    (hB : B + (win1.map SOp.bytes).sum + (win2.map SOp.bytes).sum < two31)
    (hb1 : GcCountersOK ⟨s.cfg, (toGC s.m s.d).1, (toGC s.m s.d).2⟩ win1)
    (hf1 : gcCnt (runS ⟨s.cfg, (toGC s.m s.d).1, (toGC s.m s.d).2⟩ win1).1 < 268435456) :
    (runS ⟨s.cfg, (toGC s.m s.d).1, (toGC s.m s.d).2⟩ win1).2 = (specRun c.kind c.imm spec win1).2 ∧
    (runS ⟨s.cfg, (toGC s.m s.d).1, (toGC s.m s.d).2⟩ win1).1.d.freeGc = (toGC s.m s.d).2.freeGc ∧
    ∃ m2 d2, priFlush (runS ⟨s.cfg, (toGC s.m s.d).1, (toGC s.m s.d).2⟩ win1).1.m
        (runS ⟨s.cfg, (toGC s.m s.d).1, (toGC s.m s.d).2⟩ win1).1.d = some (m2, d2) ∧
      d2.freeGc = (toGC s.m s.d).2.freeGc ∧ m2.pnext = [] ∧
      (GcCountersOK ⟨s.cfg, m2, d2⟩ win2 → gcCnt (runS ⟨s.cfg, m2, d2⟩ win2).1 < 268435456 →
        (runS ⟨s.cfg, m2, d2⟩ win2).2 =
            (specRun c.kind c.imm (specRun c.kind c.imm spec win1).1 win2).2 ∧
          (runS ⟨s.cfg, m2, d2⟩ win2).1.cfg = s.cfg ∧
          (runS ⟨s.cfg, m2, d2⟩ win2).1.d.freeGc = (toGC s.m s.d).2.freeGc ∧
          (∀ fb ∈ flGcEntries (toGC s.m s.d).2, NotPooled (runS ⟨s.cfg, m2, d2⟩ win2).1.m fb) ∧
          ∀ budget, ApplyOut c U (toGC s.m s.d).2.freeGc (runS ⟨s.cfg, m2, d2⟩ win2).1
            (specRun c.kind c.imm (specRun c.kind c.imm spec win1).1 win2).1
            (B + (win1.map SOp.bytes).sum + (win2.map SOp.bytes).sum) budget) := by
  obtain ⟨cfg, m, d⟩ := s
  have hb1 : GcCountersOK ⟨cfg, (toGC m d).1, (toGC m d).2⟩ win1 := hb1
  have hf1 : gcCnt (runS ⟨cfg, (toGC m d).1, (toGC m d).2⟩ win1).1 < 268435456 := hf1
  have hG0 : GInv c U ⟨cfg, (toGC m d).1, (toGC m d).2⟩ spec n B := toGC_g hG
  obtain ⟨w1, ⟨n1, w2⟩, w3, w4, _⟩ := hand_run hc hU win1 ⟨cfg, (toGC m d).1, (toGC m d).2⟩ spec n B hG0
    hw1 hk1 hb1 (by omega)
  refine ⟨w1, w4, ?_⟩
  obtain ⟨m2, d2, p1, hG2, hpn, _, _, _, _, _, _, q8, _⟩ := priFlush_g hU w2.tight (by omega)
  have w3' : (runS ⟨cfg, (toGC m d).1, (toGC m d).2⟩ win1).1.cfg = cfg := w3
  rw [w3'] at hG2
  have hgc2 : d2.freeGc = (toGC m d).2.freeGc := by rw [q8]; exact w4
  refine ⟨m2, d2, p1, hgc2, hpn, ?_⟩
  intro hb2 hf2
  obtain ⟨v1, ⟨n2, v2⟩, v3, v4, v5⟩ := hand_run hc hU win2 ⟨cfg, m2, d2⟩ _ _ _ hG2 hw2 hk2 hb2 (by omega)
  have v4' : (runS ⟨cfg, m2, d2⟩ win2).1.d.freeGc = (toGC m d).2.freeGc := by rw [v4]; exact hgc2
  have hge : flGcEntries d2 = flGcEntries (toGC m d).2 := by unfold flGcEntries; rw [hgc2]
  have hnp : ∀ fb ∈ flGcEntries (toGC m d).2, NotPooled (runS ⟨cfg, m2, d2⟩ win2).1.m fb := by
    intro fb hfb
    apply v5 fb (by rw [show (⟨cfg, m2, d2⟩ : SState).d = d2 from rfl, hge]; exact hfb)
    intro r hr
    rw [show (⟨cfg, m2, d2⟩ : SState).m.pnext = m2.pnext from rfl, hpn] at hr
    cases hr
  refine ⟨v1, v3, v4', hnp, ?_⟩
  intro budget
  have v2t := v2.tight
  have hf2' : gcCnt (runS ⟨cfg, m2, d2⟩ win2).1 < 268435456 := hf2
  have v3' : (runS ⟨cfg, m2, d2⟩ win2).1.cfg = cfg := v3
  generalize (runS ⟨cfg, m2, d2⟩ win2).1 = r2 at v2t hf2' v4' hnp v3' ⊢
  obtain ⟨cfg2, mr, dr⟩ := r2
  have v3'' : cfg2 = cfg := v3'
  subst v3''
  have v4'' : dr.freeGc = (toGC m d).2.freeGc := v4'
  obtain ⟨pf, psp, hS⟩ := v2t.state
  have hge2 : flGcEntries dr = flGcEntries (toGC m d).2 := by unfold flGcEntries; rw [v4'']
  obtain ⟨o, files, g, bud, aff, psp', a1, a2, a3, a4⟩ := passApply_w hS (by omega)
    (fun fb hfb => hnp fb (by rw [← hge2]; exact hfb)) budget
  refine ⟨⟨o, files, g, bud, aff, _, pf, psp, psp', a1, a2.g, hS, a2, ?_, ?_⟩⟩
  · rcases a3 with a3 | a3
    · exact Or.inl (by rw [a3]; exact v4'')
    · exact Or.inr a3
  · intro ho
    obtain ⟨b1, b2⟩ := a4 ho
    refine ⟨b1, ?_⟩
    have : flGcEntries { dr with freeGc := (toGC m d).2.freeGc } = flGcEntries dr := by
      unfold flGcEntries
      rw [show ({ dr with freeGc := (toGC m d).2.freeGc } : Disk).freeGc = (toGC m d).2.freeGc from rfl,
        v4'']
    exact b2.mono (fun b => by rw [this])

end

end Sth.C06W
