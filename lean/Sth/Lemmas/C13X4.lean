import Sth.Lemmas.C13X3

/-!
C13 along GC histories, exactly once: index GC and Close + reopen (the proofs follow `igc_h` and
`reopen_h` of Sth/Lemmas/C13H4.lean).  Core Lean only.
-/

namespace Sth.C13X

open Sth.C11 Sth.C13H

section
variable {c : Cfg} {U : List (Bytes × Bytes)} {s : SState} {spec : Spec} {n B : Nat}

/-- an index GC cycle touches nothing coverage looks at -/
theorem igc_rel {pf : Nat} {psp : Nat → List GSpan}
    (hS : HState c U s.cfg s.m s.d spec n B pf psp) (hn : n < 1073741824)
    (scanFree : Bool) (budget : Budget)
    (hnd : (recordedG s).Nodup) :
    Rel s.cfg s.m s.d (stepS s (.igc scanFree budget)).1.m (stepS s (.igc scanFree budget)).1.d ∧
      (stepS s (.igc scanFree budget)).1.cfg = s.cfg := by
  have hG : GInv c U s spec n B := hS.gs.g
  obtain ⟨g, d', e, hG'⟩ := step_igc_g hG hn scanFree budget
  rw [e]
  refine ⟨?_, rfl⟩
  have hd : d' = (indexGC s.m s.d scanFree budget).2.2.1 := by
    have := congrArg (fun x => x.1.d) e
    simp only at this
    rw [← this]
    rfl
  obtain ⟨first, sp, hih, hl⟩ := hG.y.ilog
  have hp1 : 1 ≤ s.m.imax := hG.i.imax
  have hN : s.m.ifileNum < two32 := by
    have := hG.cntI
    unfold two32; omega
  have hG0 : GI s.m s.d s.d c.bits c.ifs (hdrPfs c) :=
    ⟨⟨first, sp, hih, hl⟩, fun _ => rfl, hG.i.noFiles, rfl, rfl, rfl, rfl, rfl, rfl, rfl⟩
  obtain ⟨hGI, _, _⟩ := indexGC_ok hp1 hN hG0 scanFree budget
  rw [← hd] at hGI
  obtain ⟨f1, f2, f3, f4, f5, f6⟩ := hGI.frame
  have hrec : ∀ b, idxRecords { s.m with gcResume := g } d' b = idxRecords s.m s.d b := by
    intro b
    have := hGI.reads b
    unfold tbl at this
    show (match s.m.inext.get? b with
      | some rl => Except.ok (some rl)
      | none => match s.m.icur.get? b with
        | some rl => Except.ok (some rl)
        | none => readDiskBucket d'.ifiles s.m.imax ((s.m.buckets.get? b).getD 0)) =
      (match s.m.inext.get? b with
      | some rl => Except.ok (some rl)
      | none => match s.m.icur.get? b with
        | some rl => Except.ok (some rl)
        | none => readDiskBucket s.d.ifiles s.m.imax ((s.m.buckets.get? b).getD 0))
    rw [this]
  exact rel_frame hnd (fun _ h => h) hrec (List.Perm.of_eq (recordedG_congr f4 f5 rfl))

/-- Close + reopen keeps the state description and coverage -/
theorem reopen_rel {pf : Nat} {psp : Nat → List GSpan} (hc : c.Legal) (hU : Univ c.kind U)
    (hS : HState c U s.cfg s.m s.d spec n B pf psp) (hn : n < 1073741824) (hB : B < two31)
    (order : List Nat) (us : Bool) (hnd : (recordedG s).Nodup) :
    Rel s.cfg s.m s.d (stepS s (.reopen order us)).1.m (stepS s (.reopen order us)).1.d ∧
      (stepS s (.reopen order us)).1.cfg = s.cfg := by
  have hG : GInv c U s spec n B := hS.gs.g
  obtain ⟨m1, d1, psp1, p1, hS1, hp1, hi1, w3, _, _, w7, w8, _, _, _, w11⟩ := priFlush_h hU hS hn
  have hG1 := hS1.gs.g
  obtain ⟨f1, f2⟩ := fixOrder_ok order s.m.inext
  obtain ⟨m2, d2, i1, hG2, hin, a1, a2, a3, _, b1, b2, _, b4, b5, b6, _⟩ :=
    idxFlush_g (s := ⟨s.cfg, m1, d1⟩) hU hG1 hn hB
      (order := fixOrder order s.m.inext.keys) (by rw [hi1]; exact f1) (by rw [hi1]; exact f2)
  have hS2 : HState c U s.cfg m2 d2 spec n B pf psp1 := hS1.frame hG2 a1 a2 a3 b1 b2 b4 b5 b6
  have hpn : m2.pnext = [] := by rw [a1]; exact hp1
  obtain ⟨fr, hcl, hfr⟩ := storeClose_eq4 p1 i1
  have hcfg : s.cfg = c := hG.y.cfg
  have hkind : m2.kind = c.kind := by have : m2.kind = .mh := hG2.kind; rw [this, hG.kmh]
  obtain ⟨first, sp, hih, hl⟩ := hG2.y.ilog
  have hbits : m2.bits = c.bits := hG2.y.bits
  have himax : m2.imax = c.ifs := hG2.y.imax
  have hl' : IdxLogT c.bits c.ifs m2.ifileNum d2.ifiles (tbl m2) first sp := by
    have : IdxLogT m2.bits m2.imax m2.ifileNum d2.ifiles (tbl m2) first sp := hl
    rw [hbits, himax] at this; exact this
  obtain ⟨pf0, q1, q2, q3⟩ := hG2.y.phdr hG.kmh
  have halloc : m2.pfileNum = m2.precFileNum ∧ m2.plength = m2.precPos := by
    have := hG2.alloc
    have e : m2.pnext = [] := hpn
    simp only [e] at this
    exact this
  obtain ⟨m', d', o1, hr, o2, o3, o4⟩ := open_after_close hc (m2 := m2) (d2 := d2) fr us hkind hG2.imm
    hbits himax hG2.y.pmax hih hl' (hG2.i.noFiles _ (by show m2.ifileNum < m2.ifileNum + 1; omega))
    hG2.i.sorted (fun _ => q1) (fun _ => q2) (fun _ => q3)
    (fun _ => hG2.pno _ (by show m2.pfileNum < m2.pfileNum + 1; omega)) (fun _ => halloc)
    (fun _ => hG2.plen) (fun hk => by have : m2.kind = .mh := hG2.kind; rw [this] at hk; cases hk)
  have hfree : d'.free = some (d2.free.getD [] ++ m2.flpool.flatMap blockBytes) := by rw [o3, hfr]
  have hG' := reopen_g hU hG2 hn hin hpn hr o2 hfree o4
  have hG'' : GInv c U ⟨s.cfg, m', d'⟩ spec n B := by rw [hcfg]; exact hG'
  have hstep : stepS s (.reopen order us) = (⟨s.cfg, m', d'⟩, .gc) := by
    unfold stepS; simp only [hcl, hcfg, o1]
  rw [hstep]
  refine ⟨?_, rfl⟩
  -- the shape of the index flush: only index fields change
  have hU' := hG1.univ hU
  obtain ⟨ic, fn, len, bk, files, j1, _, _, _⟩ := idxFlush_ok (m := m1) (d := d1)
    (order := fixOrder order s.m.inext.keys) hG1.i
    (fun b => by obtain ⟨orl, h1, _⟩ := hG1.a.recs b; exact ⟨orl, h1⟩)
    (inext_flushOK (m := m1) (d := d1) hU' hG1.bits31 hG1.a hG1.w hB)
    (by rw [hi1]; exact f1) (by
      have : m1.ifileNum + m1.inext.length ≤ n := hG1.cntI
      have e : (fixOrder order s.m.inext.keys).length = m1.inext.length := by rw [hi1]; exact f2
      unfold two32; omega)
  have hm2 : m2 = ifl m1 ic fn len bk := by
    have : (m2, d2) = (ifl m1 ic fn len bk, difl d1 files) := by rw [← i1, ← j1]
    exact (Prod.mk.inj this).1
  have hbel2 : ∀ blk, Below m2 blk ↔ Below m1 blk := by
    intro blk; rw [hm2]; exact Iff.rfl
  have hR := hr.idxRecords hG2.i hin
  have hfe := flEntries_append hS2.gs.fl
  have h1 : flEntries d' = flEntries d2 ++ m2.flpool := by
    rw [← hfe]
    unfold flEntries
    rw [hfree]
  have h2 : flGcEntries d' = flGcEntries d2 := by unfold flGcEntries; rw [o4]
  apply rel_frame hnd
  · intro blk hb
    exact (hr.below blk).mpr ((hbel2 blk).mpr ((priFlush_below hG.kind p1 blk).mpr hb))
  · intro b
    rw [hR, b6]
    exact w11 b
  · have e1 : recordedG ⟨s.cfg, m2, d2⟩ = recordedG ⟨s.cfg, m1, d1⟩ := recordedG_congr b1 b2 a2
    have e2 : recordedG ⟨s.cfg, m1, d1⟩ = recordedG s := recordedG_congr w7 w8 w3
    rw [← e2, ← e1]
    unfold recordedG
    simp only
    rw [h1, h2, o2, List.append_nil, List.append_assoc, List.append_assoc]
    exact List.Perm.append_left _ List.perm_append_comm

end

end Sth.C13X
