/-
C09 — writing the translated pool out: `flushFresh` (the new index's Close during translation) is
`idxFlush` on a fresh index whose pool holds the translated buckets, so the C01/C02 flush lemmas apply;
and the index flush of a state with an empty primary pool, for an arbitrary covering flush order.
Core Lean only.
-/
import Sth.Lemmas.C09Entries

namespace Sth.C09

/-! ### `flushFresh` as a fold -/

/-- the fold body of `flushFresh` -/
def ffStep (imax : Nat) (pool : NMap RecordList) (acc : NMap Bytes × Nat × Nat × NMap Nat) (b : Nat) :
    NMap Bytes × Nat × Nat × NMap Nat :=
  let (files, fn, len, bk) := acc
  match pool.get? b with
  | none => acc
  | some rl =>
    let data := encodeRL rl
    let (fn, len, files) := if len ≥ imax then (fn + 1, 0, files.set (fn + 1) []) else (fn, len, files)
    let rec_ := le32 (data.length + 4) ++ le32 b ++ data
    (files.set fn (fileOf files fn ++ rec_), fn, len + rec_.length, bk.set b (fn * imax + len + 4))

theorem flushFresh_eq (imax : Nat) (pool : NMap RecordList) (order : List Nat) :
    flushFresh imax pool order =
      ((order.foldl (ffStep imax pool) (NMap.set ([] : NMap Bytes) 0 [], 0, 0, [])).1,
       (order.foldl (ffStep imax pool) (NMap.set ([] : NMap Bytes) 0 [], 0, 0, [])).2.2.2) := by
  have : flushFresh imax pool order =
      (match order.foldl (ffStep imax pool) (NMap.set ([] : NMap Bytes) 0 [], 0, 0, []) with
       | (files, _, _, bk) => (files, bk)) := rfl
  rw [this]

theorem ffStep_none {imax : Nat} {pool : NMap RecordList} {acc : NMap Bytes × Nat × Nat × NMap Nat}
    {b : Nat} (hg : pool.get? b = none) : ffStep imax pool acc b = acc := by
  obtain ⟨f, fn, len, bk⟩ := acc
  unfold ffStep; simp only [hg]

theorem ffStep_roll {imax : Nat} {pool : NMap RecordList} {files : NMap Bytes} {fn len : Nat}
    {bk : NMap Nat} {b : Nat} {rl : RecordList} (hg : pool.get? b = some rl) (hroll : len ≥ imax) :
    ffStep imax pool (files, fn, len, bk) b =
      (rollFiles files (fn + 1) (idxRecBytes b rl), fn + 1, 0 + (idxRecBytes b rl).length,
       bk.set b ((fn + 1) * imax + 0 + 4)) := by
  unfold ffStep
  simp only [hg, hroll, if_true]
  rfl

theorem ffStep_noroll {imax : Nat} {pool : NMap RecordList} {files : NMap Bytes} {fn len : Nat}
    {bk : NMap Nat} {b : Nat} {rl : RecordList} (hg : pool.get? b = some rl) (hroll : ¬ len ≥ imax) :
    ffStep imax pool (files, fn, len, bk) b =
      (files.set fn (fileOf files fn ++ idxRecBytes b rl), fn, len + (idxRecBytes b rl).length,
       bk.set b (fn * imax + len + 4)) := by
  unfold ffStep
  simp only [hg, hroll, if_false]
  rfl

/-! ### simulation by `iflushStep` -/

/-- the accumulator of `flushFresh` against the accumulator of `idxFlush` -/
structure Sim (imax : Nat) (acc : NMap Bytes × Nat × Nat × NMap Nat)
    (st : Mem × Disk × List (Nat × Nat)) : Prop where
  files : st.2.1.ifiles = acc.1
  fn : st.1.ifileNum = acc.2.1
  len : st.1.ilength = acc.2.2.1
  bk : setAll [] st.2.2 = acc.2.2.2
  imax : st.1.imax = imax
  noFiles : ∀ f, st.1.ifileNum < f → st.2.1.ifiles.get? f = none
  buckets : st.1.buckets = []

theorem sim_step {imax : Nat} {pool : NMap RecordList} {acc : NMap Bytes × Nat × Nat × NMap Nat}
    {st : Mem × Disk × List (Nat × Nat)} (h : Sim imax acc st) (b : Nat) :
    Sim imax (ffStep imax pool acc b) (iflushStep pool st b) := by
  obtain ⟨files, fn, len, bk⟩ := acc
  obtain ⟨m, d, blks⟩ := st
  obtain ⟨h1, h2, h3, h4, h5, h6, h7⟩ := h
  simp only at h1 h2 h3 h4 h5 h6 h7
  cases hg : pool.get? b with
  | none =>
    rw [ffStep_none hg, iflushStep_none hg]
    exact ⟨h1, h2, h3, h4, h5, h6, h7⟩
  | some rl =>
    by_cases hroll : m.ilength ≥ m.imax
    · have hnone : d.ifiles.get? (m.ifileNum + 1) = none := h6 _ (by omega)
      rw [istep_roll hg hroll hnone, ffStep_roll hg (by rw [← h3, ← h5]; exact hroll)]
      refine ⟨?_, ?_, ?_, ?_, h5, ?_, h7⟩
      · show rollFiles d.ifiles (m.ifileNum + 1) _ = rollFiles files (fn + 1) _
        rw [h1, h2]
      · show m.ifileNum + 1 = fn + 1
        rw [h2]
      · rfl
      · show setAll [] (blks ++ [(b, (m.ifileNum + 1) * m.imax + 0 + 4)]) = _
        rw [setAll_snoc, h4, h2, h5]
      · intro f hf
        show (rollFiles d.ifiles (m.ifileNum + 1) _).get? f = none
        have hf' : m.ifileNum + 1 < f := hf
        rw [NMap.get?_set_ne _ _ (by omega), NMap.get?_set_ne _ _ (by omega)]
        exact h6 f (by omega)
    · rw [istep_noroll hg hroll, ffStep_noroll hg (by rw [← h3, ← h5]; exact hroll)]
      refine ⟨?_, h2, ?_, ?_, h5, ?_, h7⟩
      · show d.ifiles.set m.ifileNum _ = files.set fn _
        rw [h1, h2]
      · show m.ilength + _ = len + _
        rw [h3]
      · show setAll [] (blks ++ [(b, m.ifileNum * m.imax + m.ilength + 4)]) = _
        rw [setAll_snoc, h4, h2, h3, h5]
      · intro f hf
        show (d.ifiles.set m.ifileNum _).get? f = none
        have hf' : m.ifileNum < f := hf
        rw [NMap.get?_set_ne _ _ (by omega)]
        exact h6 f hf'

theorem sim_fold {imax : Nat} {pool : NMap RecordList} :
    ∀ (order : List Nat) (acc : NMap Bytes × Nat × Nat × NMap Nat)
      (st : Mem × Disk × List (Nat × Nat)), Sim imax acc st →
      Sim imax (order.foldl (ffStep imax pool) acc) (order.foldl (iflushStep pool) st)
  | [], _, _, h => h
  | b :: order, acc, st, h => by
    rw [List.foldl_cons, List.foldl_cons]
    exact sim_fold order _ _ (sim_step h b)

theorem ff_fold_empty {imax : Nat} : ∀ (order : List Nat) (acc : NMap Bytes × Nat × Nat × NMap Nat),
    order.foldl (ffStep imax ([] : NMap RecordList)) acc = acc
  | [], _ => rfl
  | b :: order, acc => by
    rw [List.foldl_cons, ffStep_none (NMap.get?_nil b)]
    exact ff_fold_empty order acc

/-- `flushFresh` writes what `idxFlush` writes from a fresh index with the pool pending -/
theorem flushFresh_eq_idxFlush (m : Mem) (d : Disk) (h0 : m.ifileNum = 0) (h1 : m.ilength = 0)
    (h2 : m.buckets = []) (h3 : d.ifiles = [(0, [])]) (order : List Nat) :
    flushFresh m.imax m.inext order =
      ((idxFlush m d order).2.ifiles, (idxFlush m d order).1.buckets) := by
  rw [flushFresh_eq]
  by_cases hne : m.inext.isEmpty = true
  · have hnil : m.inext = [] := List.isEmpty_iff.mp hne
    rw [idxFlush_empty hne, hnil, ff_fold_empty, h2, h3]
    rfl
  · have hne' : m.inext.isEmpty = false := by simpa using hne
    rw [idxFlush_eq hne']
    have hs := sim_fold (imax := m.imax) (pool := m.inext) order
      (NMap.set ([] : NMap Bytes) 0 [], 0, 0, []) ({ m with icur := m.inext, inext := [] }, d, [])
      ⟨h3, h0, h1, rfl, rfl, by
        intro f hf
        show d.ifiles.get? f = none
        rw [h3]
        have hf' : m.ifileNum < f := hf
        exact get?_single_none _ f (by omega), h2⟩
    simp only
    rw [hs.files, hs.buckets, hs.bk]

/-! ### the index flush of a state whose primary pool is empty -/

section
variable {c : Cfg} {U : List (Bytes × Bytes)} {s : SState} {spec : Spec} {n B : Nat}

/-- `flushBoth_inv` without the primary flush and for any flush order that covers the pool -/
theorem idxFlush_inv (hU : Univ c.kind U) (hI : Inv c U s spec n B) (hX : XInv c s)
    (hn : n < 1073741824) (hB : B < two31) {order : List Nat}
    (hcov : ∀ b rl, s.m.inext.get? b = some rl → b ∈ order) (hlen : order.length = s.m.inext.length) :
    ∃ ic fn len bk files, idxFlush s.m s.d order = (ifl s.m ic fn len bk, difl s.d files) ∧
      Inv c U ⟨s.cfg, ifl s.m ic fn len bk, difl s.d files⟩ spec n B ∧
      XInv c ⟨s.cfg, ifl s.m ic fn len bk, difl s.d files⟩ := by
  have hU' : Univ s.m.kind U := by rw [hI.kind]; exact hU
  obtain ⟨ic, fn, len, bk, files, i1, i2, i3, i4⟩ :=
    idxFlush_ok (order := order) hI.i
      (fun b => by
        obtain ⟨orl, h1, _⟩ := hI.a.recs b
        exact ⟨orl, h1⟩)
      (inext_flushOK (m := s.m) (d := s.d) hU' hI.bits31 hI.a hI.w hB) hcov (by
        have := hI.cnt.idx
        rw [hlen]
        unfold two32; omega)
  have hpool : ∀ b rl, s.m.inext.get? b = some rl → RecLogOK s.m.bits (b, rl) := by
    intro b rl hb
    refine ⟨hX.inextLt b rl hb, ?_⟩
    obtain ⟨orl, h1, h2, h3⟩ := hI.a.recs b
    have : idxRecords s.m s.d b = .ok (some rl) := by unfold idxRecords; rw [hb]
    rw [this] at h1
    cases h1
    simp only [Option.getD_some] at h2 h3
    exact enc_lt31 hU' hI.bits8 hI.bits31 h2 h3 hI.w hB
  obtain ⟨l1, _, _⟩ := idxFlush_log (order := order) hI.i hX.log hpool
  rw [i1] at l1
  refine ⟨ic, fn, len, bk, files, i1, ?_, ?_⟩
  · refine ⟨hI.kind, hI.imm, hI.bits8, hI.bits31, ?_, hI.p.frame2 rfl rfl rfl rfl rfl rfl rfl rfl rfl rfl,
      i2, ?_, hI.nodup, hI.w⟩
    · apply AInv.mono hI.a
      · intro blk k v _ hg
        exact hg
      · intro blk hb; exact hb
      · intro b
        exact i3 b
    · refine ⟨hI.cnt.mh, hI.cnt.cid, ?_⟩
      have := hI.cnt.idx
      show fn + 0 ≤ n
      omega
  · refine ⟨hX.cfg, hX.bits, hX.imax, hX.pmax, hX.ihdr, hX.phdr, hX.pall, ?_, l1⟩
    intro b rl hb
    cases hb

end

end Sth.C09
