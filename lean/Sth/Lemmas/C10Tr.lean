/-
C10 widened (U3) — a configured bit size that differs from the legacy index's.

What the code does (store.go OpenStore, index.Open, translateIndex): the first index.Open chunks the
legacy index and writes its header with the LEGACY bit size, then answers ErrIndexWrongBitSize — before
the scan and the remap; OpenStore calls translateIndex, whose own index.Open of the old index (bit size
0 = "the header's") scans, remaps (header `PrimaryFileSize = 0`) and flushes the removal pool; then every
entry is re-inserted into a new index with the configured bit size, the files are swapped and the index is
opened a third time.

Model: `upgradeOpen { c with bits := C.bits }` is everything up to and including translateIndex's open of
the old index (Sth/Model/UpgradeBytes.lean returns `none` for the mismatching configuration itself);
`openStoreT c` of Sth/Model/Translate.lean on its directory is the rest (freelist repair and primary open
are idempotent on it; its index open answers `wrongBits`; its translateIndex loads the old index by
rescanning, which gives the table of the live index).  C09's `translate_open` takes the invariants of a
quiesced state (`C09.Closed`), not a history, and the upgraded state has them.
Core Lean only.
-/
import Sth.Lemmas.C10BMain
import Sth.Lemmas.C09

namespace Sth

namespace C10X

open LegacyC C09

variable {c : Cfg} {U : List (Bytes × Bytes)} {spec : Spec} {n B : Nat} {m : Mem} {d : Disk}

/-- a quiesced state with an empty freelist file and no snapshot is `Closed` in the sense of C09 -/
theorem closed_of_quiesced (hI : Inv c U ⟨c, m, d⟩ spec n B) (hX : XInv c ⟨c, m, d⟩)
    (hin : m.inext = []) (hpn : m.pnext = []) (hfr : d.free = some []) (hsn : d.snap = none)
    (hk : c.kind = .mh) : Closed c U spec n B m d d :=
  ⟨hI, hX, hin, hpn, ⟨⟨[], hfr, rfl⟩, fun hc => by rw [hk] at hc; cases hc⟩, rfl, rfl, rfl, rfl, rfl, Or.inr hsn⟩

/-- OpenStore with another bit size on the directory of a quiesced state: translated, same map -/
theorem translate_quiesced {c0 : Cfg} (hc0 : c0.Legal) (hc : c.Legal) (hk0 : c0.kind = .mh)
    (hkind : c.kind = c0.kind) (hifs : c.ifs = c0.ifs) (hpfs : c.pfs = c0.pfs) (hbits : c.bits ≠ c0.bits)
    (hU : Univ .mh U) (hI : Inv c0 U ⟨c0, m, d⟩ spec n B) (hX : XInv c0 ⟨c0, m, d⟩)
    (hin : m.inext = []) (hpn : m.pnext = []) (hfr : d.free = some []) (hsn : d.snap = none)
    (hsl : spec.length ≤ n) (ops : List SOp) (ha : ∀ op ∈ ops, op.isC02 = true)
    (hk' : ∀ op ∈ ops, ∀ k, op.keyOf = some k → ∀ dig, keyClass .mh k = .ok dig → (k, dig) ∈ U)
    (hn : n + ops.length < 1073741824) (hB : B + (ops.map SOp.bytes).sum < two31) (order : List Nat) :
    ∃ m' d' keys, openStoreT c d order = (d', .ok m', keys) ∧
      (runS ⟨c, m', d'⟩ ops).2 = (specRun .mh c.imm spec ops).2 ∧
      d'.pfiles = d.pfiles ∧ d'.free = d.free ∧ d'.phdr = d.phdr ∧
      d'.ihdr = some ⟨c.bits, c.ifs, 0, c.pfs⟩ := by
  have hU0 : Univ c0.kind U := by rw [hk0]; exact hU
  have hC := closed_of_quiesced hI hX hin hpn hfr hsn hk0
  obtain ⟨m', d', keys, t1, hI', hX', q1, _, q3, q4, q5⟩ :=
    translate_open (c := c0) (c' := c) hc0 hc hkind (ia := c.ifs) (Or.inr ⟨rfl, hifs⟩) (fun _ => hpfs) hbits
      hU0 hC hsl (by omega) (by omega) order
  have hkc : c.kind = .mh := by rw [hkind]; exact hk0
  have hUc : Univ c.kind U := by rw [hkc]; exact hU
  have hrun := (run_ok2 hc hUc ops ⟨c, m', d'⟩ spec n B hI' hX' ha (by rw [hkc]; exact hk') hn hB).1
  rw [hkc] at hrun
  have e : ({ c with ifs := c.ifs } : Cfg) = c := rfl
  rw [e] at t1
  refine ⟨m', d', keys, t1, hrun, q1, q3, q4, ?_⟩
  rw [q5]
  unfold hdrPfs
  rw [hkc]

end C10X

end Sth
