import Sth.Lemmas.C13H3

/-!
C13 along GC histories, completeness: coverage is kept by index GC and by Close + reopen.
Core Lean only.
-/

namespace Sth.C13H

open Sth.C11

section
variable {c : Cfg} {U : List (Bytes × Bytes)} {s : SState} {spec : Spec} {n B : Nat}

/-- an index GC cycle touches nothing coverage looks at -/
theorem igc_h {pf : Nat} {psp : Nat → List GSpan}
    (hS : HState c U s.cfg s.m s.d spec n B pf psp) (hn : n < 1073741824)
    (scanFree : Bool) (budget : Budget) :
    ∃ g d', stepS s (.igc scanFree budget) = (⟨s.cfg, { s.m with gcResume := g }, d'⟩, .gc) ∧
      HState c U s.cfg { s.m with gcResume := g } d' spec n B pf psp := by
  have hG : GInv c U s spec n B := hS.gs.g
  obtain ⟨g, d', e, hG'⟩ := step_igc_g hG hn scanFree budget
  refine ⟨g, d', e, ?_⟩
  have hd : d' = (indexGC s.m s.d scanFree budget).2.2.1 := by
    have := congrArg (fun x => x.1.d) e
    simp only at this
    rw [← this]
    rfl
  obtain ⟨first, sp, hih, hl⟩ := hG.y.ilog
  have hp1 : 1 ≤ s.m.imax := hG.i.imax
  have hN : s.m.ifileNum < two32 := by
    have := hG.cntI
    unfold two32; omega
  have hG0 : GI s.m s.d s.d c.bits c.ifs (hdrPfs c) :=
    ⟨⟨first, sp, hih, hl⟩, fun _ => rfl, hG.i.noFiles, rfl, rfl, rfl, rfl, rfl, rfl, rfl⟩
  obtain ⟨hGI, _, _⟩ := indexGC_ok hp1 hN hG0 scanFree budget
  rw [← hd] at hGI
  obtain ⟨f1, f2, f3, f4, f5, f6⟩ := hGI.frame
  have hrec : ∀ b, idxRecords { s.m with gcResume := g } d' b = idxRecords s.m s.d b := by
    intro b
    have := hGI.reads b
    unfold tbl at this
    show (match s.m.inext.get? b with
      | some rl => Except.ok (some rl)
      | none => match s.m.icur.get? b with
        | some rl => Except.ok (some rl)
        | none => readDiskBucket d'.ifiles s.m.imax ((s.m.buckets.get? b).getD 0)) =
      (match s.m.inext.get? b with
      | some rl => Except.ok (some rl)
      | none => match s.m.icur.get? b with
        | some rl => Except.ok (some rl)
        | none => readDiskBucket s.d.ifiles s.m.imax ((s.m.buckets.get? b).getD 0))
    rw [this]
  exact hS.frame hG' rfl rfl rfl f4 f5 f3 f1 hrec

/-- Close + reopen keeps the state description and coverage -/
theorem reopen_h {pf : Nat} {psp : Nat → List GSpan} (hc : c.Legal) (hU : Univ c.kind U)
    (hS : HState c U s.cfg s.m s.d spec n B pf psp) (hn : n < 1073741824) (hB : B < two31)
    (order : List Nat) (us : Bool) :
    ∃ m' d' psp', stepS s (.reopen order us) = (⟨s.cfg, m', d'⟩, .gc) ∧
      HState c U s.cfg m' d' spec n B pf psp' := by
  have hG : GInv c U s spec n B := hS.gs.g
  obtain ⟨m1, d1, psp1, p1, hS1, hp1, hi1, _⟩ := priFlush_h hU hS hn
  have hG1 := hS1.gs.g
  obtain ⟨f1, f2⟩ := fixOrder_ok order s.m.inext
  obtain ⟨m2, d2, i1, hG2, hin, a1, a2, a3, _, b1, b2, _, b4, b5, b6, _⟩ :=
    idxFlush_g (s := ⟨s.cfg, m1, d1⟩) hU hG1 hn hB
      (order := fixOrder order s.m.inext.keys) (by rw [hi1]; exact f1) (by rw [hi1]; exact f2)
  have hS2 : HState c U s.cfg m2 d2 spec n B pf psp1 := hS1.frame hG2 a1 a2 a3 b1 b2 b4 b5 b6
  have hpn : m2.pnext = [] := by rw [a1]; exact hp1
  obtain ⟨fr, hcl, hfr⟩ := storeClose_eq4 p1 i1
  have hcfg : s.cfg = c := hG.y.cfg
  have hkind : m2.kind = c.kind := by have : m2.kind = .mh := hG2.kind; rw [this, hG.kmh]
  obtain ⟨first, sp, hih, hl⟩ := hG2.y.ilog
  have hbits : m2.bits = c.bits := hG2.y.bits
  have himax : m2.imax = c.ifs := hG2.y.imax
  have hl' : IdxLogT c.bits c.ifs m2.ifileNum d2.ifiles (tbl m2) first sp := by
    have : IdxLogT m2.bits m2.imax m2.ifileNum d2.ifiles (tbl m2) first sp := hl
    rw [hbits, himax] at this; exact this
  obtain ⟨pf0, q1, q2, q3⟩ := hG2.y.phdr hG.kmh
  have halloc : m2.pfileNum = m2.precFileNum ∧ m2.plength = m2.precPos := by
    have := hG2.alloc
    have e : m2.pnext = [] := hpn
    simp only [e] at this
    exact this
  obtain ⟨m', d', o1, hr, o2, o3, o4⟩ := open_after_close hc (m2 := m2) (d2 := d2) fr us hkind hG2.imm
    hbits himax hG2.y.pmax hih hl' (hG2.i.noFiles _ (by show m2.ifileNum < m2.ifileNum + 1; omega))
    hG2.i.sorted (fun _ => q1) (fun _ => q2) (fun _ => q3)
    (fun _ => hG2.pno _ (by show m2.pfileNum < m2.pfileNum + 1; omega)) (fun _ => halloc)
    (fun _ => hG2.plen) (fun hk => by have : m2.kind = .mh := hG2.kind; rw [this] at hk; cases hk)
  have hfree : d'.free = some (d2.free.getD [] ++ m2.flpool.flatMap blockBytes) := by rw [o3, hfr]
  have hG' := reopen_g hU hG2 hn hin hpn hr o2 hfree o4
  have hG'' : GInv c U ⟨s.cfg, m', d'⟩ spec n B := by rw [hcfg]; exact hG'
  refine ⟨m', d', psp1, by unfold stepS; simp only [hcl, hcfg, o1], ?_⟩
  have hk2 : m2.kind = .mh := hG2.kind
  obtain ⟨e1, _⟩ := hr.pfileNum hk2
  have hgs : GState c U s.cfg m' d' spec n B pf psp1 :=
    state_with hG'' (by rw [hr.phdr, hr.pmax]; exact hS2.gs.hdr) (fun g a b => by
      rw [hr.pfiles]
      exact ⟨hS2.gs.log.files g a (by rw [← e1]; exact b), hS2.gs.log.ok g a (by rw [← e1]; exact b)⟩)
  refine ⟨hgs, ?_⟩
  have hR := hr.idxRecords hG2.i hin
  have hent : ∀ blk, IsEnt m' d' blk ↔ IsEnt m2 d2 blk := by
    intro blk; unfold IsEnt; simp only [hR]
  have hfe := flEntries_append hS2.gs.fl
  apply hS2.cov.transfer' (cfg' := s.cfg) (m' := m') (d' := d') (pf' := pf) (psp' := psp1) hr.pmax
  · intro g a b x hx
    exact Or.inl ⟨a, by rw [← e1]; exact b, hx⟩
  · intro r hr'
    rw [hr.pnext] at hr'
    cases hr'
  · intro blk hc
    rcases hc with hc | hc
    · exact Or.inl ((hent blk).mpr hc)
    · right
      rw [mem_recordedG] at hc ⊢
      have h1 : flEntries d' = flEntries d2 ++ m2.flpool := by
        rw [← hfe]
        unfold flEntries
        rw [hfree]
      have h2 : flGcEntries d' = flGcEntries d2 := by unfold flGcEntries; rw [o4]
      show blk ∈ flEntries d' ∨ blk ∈ flGcEntries d' ∨ blk ∈ m'.flpool
      rw [h1, h2, List.mem_append]
      rcases hc with hc | hc | hc
      · exact Or.inl (Or.inl hc)
      · exact Or.inr (Or.inl hc)
      · exact Or.inl (Or.inr hc)

end

end Sth.C13H
