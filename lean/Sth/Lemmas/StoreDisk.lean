/-
Disk-level facts for the store refinement (C01, layer 2): files only grow by appending, reads inside
the old contents are unchanged, a freshly appended record is read back.
Core Lean only.
-/
import Sth.Lemmas.StoreObs

namespace Sth

/-! ### append-only file sets -/

/-- every file of `fs` is still there in `fs'`, possibly with bytes appended -/
def FilesExt (fs fs' : NMap Bytes) : Prop :=
  ∀ f file, fs.get? f = some file → ∃ g, fs'.get? f = some (file ++ g)

theorem FilesExt.refl (fs : NMap Bytes) : FilesExt fs fs :=
  fun _ file h => ⟨[], by simpa using h⟩

theorem FilesExt.trans {a b c : NMap Bytes} (h1 : FilesExt a b) (h2 : FilesExt b c) : FilesExt a c := by
  intro f file h
  obtain ⟨g, hg⟩ := h1 f file h
  obtain ⟨g', hg'⟩ := h2 f _ hg
  exact ⟨g ++ g', by rw [hg', List.append_assoc]⟩

theorem fileOf_some {fs : NMap Bytes} {f : Nat} {file : Bytes} (h : fs.get? f = some file) :
    fileOf fs f = file := by
  unfold fileOf; rw [h]; rfl

theorem fileOf_none {fs : NMap Bytes} {f : Nat} (h : fs.get? f = none) : fileOf fs f = [] := by
  unfold fileOf; rw [h]; rfl

theorem FilesExt.append (fs : NMap Bytes) (fn : Nat) (data : Bytes) :
    FilesExt fs (fs.set fn (fileOf fs fn ++ data)) := by
  intro f file h
  by_cases hf : f = fn
  · subst hf
    exact ⟨data, by rw [NMap.get?_set_eq, fileOf_some h]⟩
  · exact ⟨[], by rw [NMap.get?_set_ne _ _ hf, h]; simp⟩

theorem FilesExt.create (fs : NMap Bytes) (fn : Nat) (h : fs.get? fn = none) :
    FilesExt fs (fs.set fn []) := by
  intro f file hf
  by_cases hff : f = fn
  · subst hff; rw [h] at hf; cases hf
  · exact ⟨[], by rw [NMap.get?_set_ne _ _ hff, hf]; simp⟩

theorem has_eq_false {α : Type} {fs : NMap α} {f : Nat} (h : fs.get? f = none) : fs.has f = false := by
  unfold NMap.has; rw [h]; rfl

/-! ### positions -/

theorem localizePri_eq {pmax f lp : Nat} (hp : 1 ≤ pmax) (hl : lp < pmax) (hf : f < two32) :
    localizePri pmax (pmax * f + lp) = (lp, f) := by
  unfold localizePri
  by_cases h0 : pmax * f + lp = 0
  · rw [if_pos h0]
    have : f = 0 := by
      rcases Nat.eq_zero_or_pos f with h | h
      · exact h
      · have : pmax * 1 ≤ pmax * f := Nat.mul_le_mul_left _ h
        omega
    subst this
    simp at h0
    simp [h0]
  · rw [if_neg h0]
    have e1 : (pmax * f + lp) / pmax = f := by
      rw [Nat.mul_add_div (by omega), Nat.div_eq_of_lt hl]; rfl
    simp only [e1, Nat.mod_eq_of_lt hf]
    rw [Nat.mul_comm f pmax, Nat.add_sub_cancel_left]

theorem localizeIdx_eq {imax f len : Nat} (hp : 1 ≤ imax) (hl : len < imax) (hf : f < two32) :
    localizeIdx imax (f * imax + len + 4) = (len + 4, f) := by
  unfold localizeIdx
  rw [if_neg (by omega)]
  have e0 : f * imax + len + 4 - 4 = imax * f + len := by rw [Nat.mul_comm]; omega
  have e1 : (imax * f + len) / imax = f := by
    rw [Nat.mul_add_div (by omega), Nat.div_eq_of_lt hl]; rfl
  simp only [e0, e1, Nat.mod_eq_of_lt hf]
  congr 1
  omega

/-! ### primary disk reads -/

theorem diskRead_mh_mono {pmax : Nat} {d d' : Disk} (h : FilesExt d.pfiles d'.pfiles) {blk : Block}
    {k v : Bytes} (hr : diskRead .mh pmax d blk = .got k v) : diskRead .mh pmax d' blk = .got k v := by
  unfold diskRead at hr ⊢
  simp only at hr ⊢
  cases hf : d.pfiles.get? (localizePri pmax blk.off).2 with
  | none => simp [hf] at hr
  | some file =>
    rw [hf] at hr
    obtain ⟨g, hg⟩ := h _ _ hf
    rw [hg]
    simp only at hr ⊢
    cases hra : readAt file (localizePri pmax blk.off).1 (blk.size + 4) with
    | none => simp [hra] at hr
    | some read =>
      rw [hra] at hr
      rw [readAt_append g hra]
      exact hr

theorem diskRead_cid_mono {pmax : Nat} {d d' : Disk} {file g : Bytes} (h : d.cidfile = some file)
    (h' : d'.cidfile = some (file ++ g)) {blk : Block}
    {k v : Bytes} (hr : diskRead .cid pmax d blk = .got k v) : diskRead .cid pmax d' blk = .got k v := by
  unfold diskRead at hr ⊢
  simp only [h, h'] at hr ⊢
  cases hra : readAt file blk.off (blk.size + 4) with
  | none => simp [hra] at hr
  | some read =>
    rw [hra] at hr
    rw [readAt_append g hra]
    exact hr

/-- the bytes of one primary record -/
def recBytes (r : PRec) : Bytes := le32 (r.key.length + r.val.length) ++ r.key ++ r.val

theorem recBytes_length (r : PRec) : (recBytes r).length = 4 + (r.key.length + r.val.length) := by
  unfold recBytes le32
  simp [leEnc_length]

/-- a pooled record that the primary can parse back -/
def RecOK (kind : PKind) (r : PRec) : Prop :=
  readNode kind (r.key ++ r.val) = some (r.key, r.val) ∧ r.key.length + r.val.length < two31

/-- decoding the bytes of a record -/
theorem recBytes_parse {kind : PKind} {r : PRec} (h : RecOK kind r) :
    leDec ((recBytes r).take 4) = r.key.length + r.val.length ∧
      readNode kind ((recBytes r).drop 4) = some (r.key, r.val) := by
  have hl : (le32 (r.key.length + r.val.length)).length = 4 := leEnc_length 4 _
  unfold recBytes
  rw [List.append_assoc, List.take_left' hl, List.drop_left' hl]
  refine ⟨?_, h.1⟩
  unfold le32
  apply leDec_leEnc
  have := h.2
  unfold two31 at this
  omega

theorem diskRead_mh_new {pmax : Nat} {d : Disk} {r : PRec} {f lp : Nat} {F g : Bytes}
    (hp : 1 ≤ pmax) (hl : lp < pmax) (hf : f < two32)
    (hb : r.blk = ⟨pmax * f + lp, r.key.length + r.val.length⟩)
    (hfile : d.pfiles.get? f = some (F ++ recBytes r ++ g)) (hF : F.length = lp)
    (hr : RecOK .mh r) : diskRead .mh pmax d r.blk = .got r.key r.val := by
  unfold diskRead
  simp only [hb, localizePri_eq hp hl hf, hfile]
  have : readAt (F ++ recBytes r ++ g) lp (r.key.length + r.val.length + 4) = some (recBytes r) := by
    have := readAt_at_end F (recBytes r) g
    rw [hF, recBytes_length] at this
    rw [← this]
    congr 1
    omega
  rw [this]
  obtain ⟨h1, h2⟩ := recBytes_parse hr
  have h3 := hr.2
  simp only [h1, h2]
  rw [if_neg (by omega)]

theorem diskRead_cid_new {pmax : Nat} {d : Disk} {r : PRec} {F g : Bytes}
    (hb : r.blk = ⟨F.length, r.key.length + r.val.length⟩)
    (hfile : d.cidfile = some (F ++ recBytes r ++ g))
    (hr : RecOK .cid r) : diskRead .cid pmax d r.blk = .got r.key r.val := by
  unfold diskRead
  simp only [hb, hfile]
  have : readAt (F ++ recBytes r ++ g) F.length (r.key.length + r.val.length + 4) = some (recBytes r) := by
    have := readAt_at_end F (recBytes r) g
    rw [recBytes_length] at this
    rw [← this]
    congr 1
    omega
  rw [this]
  obtain ⟨_, h2⟩ := recBytes_parse hr
  simp only [h2]

/-! ### index disk reads -/

theorem readDiskBucket_zero (fs : NMap Bytes) (imax : Nat) : readDiskBucket fs imax 0 = .ok none := by
  unfold readDiskBucket localizeIdx
  simp

theorem readDiskBucket_mono {fs fs' : NMap Bytes} (h : FilesExt fs fs') {imax pos : Nat}
    {x : Option RecordList} (hr : readDiskBucket fs imax pos = .ok x) :
    readDiskBucket fs' imax pos = .ok x := by
  unfold readDiskBucket at hr ⊢
  simp only at hr ⊢
  split at hr
  · rename_i h0; rw [if_pos h0]; exact hr
  · rename_i h0
    rw [if_neg h0]
    cases hf : fs.get? (localizeIdx imax pos).2 with
    | none => simp [hf] at hr
    | some file =>
      rw [hf] at hr
      obtain ⟨g, hg⟩ := h _ _ hf
      rw [hg]
      simp only at hr ⊢
      cases hu : readU32 file ((localizeIdx imax pos).1 - 4) with
      | none => simp [hu] at hr
      | some size =>
        rw [hu] at hr
        rw [readU32_append g hu]
        simp only at hr ⊢
        cases hra : readAt file (localizeIdx imax pos).1 size with
        | none => simp [hra] at hr
        | some data =>
          rw [hra] at hr
          rw [readAt_append g hra]
          exact hr

/-- the bytes of one index record -/
def idxRecBytes (b : Nat) (rl : RecordList) : Bytes :=
  le32 ((encodeRL rl).length + 4) ++ le32 b ++ encodeRL rl

theorem idxRecBytes_length (b : Nat) (rl : RecordList) :
    (idxRecBytes b rl).length = 8 + (encodeRL rl).length := by
  unfold idxRecBytes le32
  simp [leEnc_length]; omega

/-- what a record list must satisfy to survive the trip through an index file -/
def FlushOK (rl : RecordList) : Prop :=
  (∀ e ∈ rl, e.pfx.length < 256 ∧ e.blk.off < two64 ∧ e.blk.size < two32) ∧
    (encodeRL rl).length + 4 < two32

theorem readDiskBucket_new {fs : NMap Bytes} {imax f len b : Nat} {rl : RecordList} {F g : Bytes}
    (hp : 1 ≤ imax) (hl : len < imax) (hf : f < two32)
    (hfile : fs.get? f = some (F ++ idxRecBytes b rl ++ g)) (hF : F.length = len)
    (hok : FlushOK rl) :
    readDiskBucket fs imax (f * imax + len + 4) = .ok (some rl) := by
  unfold readDiskBucket
  simp only [localizeIdx_eq hp hl hf, hfile]
  rw [if_neg (by omega)]
  have hA : (le32 ((encodeRL rl).length + 4)).length = 4 := leEnc_length 4 _
  have hB : (le32 b).length = 4 := leEnc_length 4 _
  have h1 : readU32 (F ++ idxRecBytes b rl ++ g) (len + 4 - 4) = some ((encodeRL rl).length + 4) := by
    unfold readU32
    have e : F ++ idxRecBytes b rl ++ g =
        F ++ le32 ((encodeRL rl).length + 4) ++ (le32 b ++ encodeRL rl ++ g) := by
      unfold idxRecBytes; simp [List.append_assoc]
    have := readAt_at_end F (le32 ((encodeRL rl).length + 4)) (le32 b ++ encodeRL rl ++ g)
    rw [hA, hF] at this
    rw [e, Nat.add_sub_cancel, this]
    simp only [Option.map_some]
    unfold le32
    rw [leDec_leEnc 4 _ (by have := hok.2; unfold two32 at this; omega)]
  rw [h1]
  simp only
  have h2 : readAt (F ++ idxRecBytes b rl ++ g) (len + 4) ((encodeRL rl).length + 4) =
      some (le32 b ++ encodeRL rl) := by
    have e : F ++ idxRecBytes b rl ++ g =
        (F ++ le32 ((encodeRL rl).length + 4)) ++ (le32 b ++ encodeRL rl) ++ g := by
      unfold idxRecBytes; simp [List.append_assoc]
    have := readAt_at_end (F ++ le32 ((encodeRL rl).length + 4)) (le32 b ++ encodeRL rl) g
    rw [e, ← this]
    congr 1
    simp [hA, hF]
  rw [h2]
  simp only
  rw [List.drop_left' hB]
  have := decodeAux_encode rl ((encodeRL rl).length + 1) [] hok.1
    (by have := encodeRL_length_ge rl; omega)
  unfold decodeRL
  rw [this]
  simp

end Sth
