import Sth.Lemmas.C11D2

/-!
C11 P3 by induction (3): one complete cycle on a flushed store, seen from a low-use closed file `f`
with record spans in use.  Core Lean only.
-/

namespace Sth.C11D

open Sth.C11 Sth.C13H Sth.C13X

section
variable {c : Cfg} {U : List (Bytes × Bytes)} {cfg : Cfg} {spec : Spec} {B : Nat}
  {m : Mem} {d : Disk} {k pf : Nat} {psp : Nat → List GSpan}

/-- the disk after the two hand-over passes of a complete cycle -/
def afterPasses (m : Mem) (d : Disk) : Disk :=
  (freelistPass (freelistPass m d none).2.1 (freelistPass m d none).2.2.1 none).2.2.1

/-- one complete primary GC cycle on a flushed store.  `f` is a closed file; at least one of its record
    spans is in use (an index entry names it); the cycle will visit it; it is low-use when visited.
    Then the cycle runs, and afterwards: the record spans of `f` are exactly the ones that were in use
    (`E`, in file order); the last min 2 |E| of them have been relocated and their blocks are exactly
    the recorded blocks inside `f`. -/
theorem pgc_round_core (hU : Univ c.kind U) (hS : HState c U cfg m d spec k B pf psp)
    (hnd : (recordedG ⟨cfg, m, d⟩).Nodup) (hk : 3 * k < 1073741824) (hpn : m.pnext = [])
    {f : Nat} (h1 : pf ≤ f) (h2 : f < m.pfileNum)
    (hvisit : f ∉ m.visited ∨ ∃ x ∈ liveAt 0 (psp f), ¬ IsEnt m d (spanBlk m.pmax f x))
    (huse : ∃ x ∈ liveAt 0 (psp f), IsEnt m d (spanBlk m.pmax f x)) (lowUse : Nat)
    (hlow : LowUse (fileOf (afterPasses m d).pfiles f) lowUse) :
    ∃ res, primaryGC m d lowUse none = some res ∧ res.2.1.pmax = m.pmax ∧
      res.2.1.pfileNum = m.pfileNum ∧
      (∀ x, x ∈ lv (afterPasses m d) f ↔ x ∈ liveAt 0 (psp f) ∧ IsEnt m d (spanBlk m.pmax f x)) ∧
      ResF cfg lowUse f (afterPasses m d) res.2.1 res.2.2.1 := by
  have hSg := hS.gs
  obtain ⟨m1, d1, aff1, m2, d2, aff2, psp2, p1, p2, hS2, hA, hpn2, e1, e2, e3, e4, e5⟩ :=
    passes_f hSg (by omega) hpn
  have hd2 : afterPasses m d = d2 := by
    unfold afterPasses; rw [p1]; simp only; rw [p2]
  rw [hd2] at hlow ⊢
  have hkind : m.kind = .mh := hSg.g.kind
  -- coverage and the relation to the state before, after the passes
  have hp1 := freelistPass_h hU hS (by omega) none
  have hr1 := freelistPass_rel hU hS hnd (by omega) none
  obtain ⟨_, _, hgcok1⟩ := freelistPass_free (d := d) hkind none
  rw [p1] at hp1 hr1 hgcok1
  simp only at hp1 hr1 hgcok1
  obtain ⟨psp1, hS1⟩ : ∃ psp1, HState c U cfg m1 d1 spec k B pf psp1 := by
    rcases hp1 with h | h
    · cases h
    · exact h
  have hR1 : Rel cfg m d m1 d1 := by
    rcases hr1 with h | h
    · cases h
    · exact h
  have hgc1 : d1.freeGc = none := hgcok1 trivial
  have hkind1 : m1.kind = .mh := hS1.gs.g.kind
  have hp2 := freelistPass_h hU hS1 (by omega) none
  have hr2 := freelistPass_rel hU hS1 hR1.nodup (by omega) none
  obtain ⟨q1, q2, hgcok2⟩ := freelistPass_free (d := d1) hkind1 none
  obtain ⟨t1, t2, _⟩ := toGC_none (m := m1) hgc1
  rw [p2] at hp2 hr2 q1 q2 hgcok2
  simp only at hp2 hr2 q1 q2 hgcok2
  obtain ⟨psp2', hS2'⟩ : ∃ psp2', HState c U cfg m2 d2 spec k B pf psp2' := by
    rcases hp2 with h | h
    · cases h
    · exact h
  have hR2 : Rel cfg m d m2 d2 := by
    rcases hr2 with h | h
    · cases h
    · exact hR1.trans h
  have hcov2 : Cov cfg m2 d2 pf psp2 := covS_of hS2' pf psp2 hS2.hdr hS2.log
  have hHS2 : HState c U cfg m2 d2 spec k B pf psp2 := ⟨hS2, hcov2⟩
  have hent : ∀ blk, IsEnt m2 d2 blk ↔ IsEnt m d blk := by
    intro blk; unfold IsEnt; simp only [e4]
  -- nothing is recorded after the passes
  have hrec0 : ∀ vis : List Nat, recordedG ⟨cfg, { m2 with visited := vis }, d2⟩ = [] := by
    intro vis
    have a1 : flEntries d2 = [] := by
      unfold flEntries; rw [q1, t2]; simp [parseFreeList]
    have a2 : flGcEntries d2 = [] := flGcEntries_none (hgcok2 trivial)
    have a3 : m2.flpool = [] := by rw [q2, t1]
    unfold recordedG
    show flEntries d2 ++ flGcEntries d2 ++ m2.flpool = []
    rw [a1, a2, a3]; rfl
  -- the record spans of `f` after the passes are the ones in use
  have hlv2 : lv d2 f = liveAt 0 (psp2 f) := lv_eq hS2 h1 (by rw [e1]; omega)
  have hE : ∀ x, x ∈ liveAt 0 (psp2 f) ↔ x ∈ liveAt 0 (psp f) ∧ IsEnt m d (spanBlk m.pmax f x) := by
    intro x
    constructor
    · intro hx
      have hx0 := hA.sub f x hx
      refine ⟨hx0, ?_⟩
      have hnr := hA.surv f x h1 (by show f ≤ m.pfileNum; omega) hx
      rcases hS.cov.span f h1 (by omega) x hx0 with h | h
      · exact h
      · exact absurd h hnr
    · rintro ⟨hx0, hent0⟩
      obtain ⟨key, val, _, hb⟩ := hS2.ent _ ((hent _).mpr hent0)
      rcases hb with ⟨r, hr, _⟩ | ⟨f', lp', y1, y2, y3, y4, y5⟩
      · rw [hpn2] at hr; cases hr
      · have hlp : lp' < m2.pmax := hS2.log.starts f' y2 y3 _ y4
        have hat : x.1 < m.pmax := hSg.log.starts f h1 (by omega) x hx0
        have hoff : m2.pmax * f' + lp' = m2.pmax * f + x.1 := by
          rw [← y1, e2]
        rw [e2] at hlp
        rw [e2] at hoff
        obtain ⟨rfl, rfl⟩ := divmod_unique hoff hlp hat
        have hy0 := hA.sub f' _ y4
        have hb := liveAt_off_unique hy0 (show (x.1, x.2) ∈ liveAt 0 (psp f') from hx0)
        have : (x.1, key ++ val) = x := by rw [hb]
        rw [← this]; exact y4
  -- every record span left in a closed file is a well-formed record
  have hwf : WfAfter d2 m.pfileNum := by
    intro g hg ss hfile hok x hx
    by_cases hgp : pf ≤ g
    · have hfile2 := hS2.log.files g hgp (by rw [e1]; omega)
      have : ss = psp2 g := by
        rw [hfile] at hfile2
        exact gbytes_inj hok (hS2.log.ok g hgp (by rw [e1]; omega)) (Option.some.inj hfile2)
      subst this
      have hx0 := hA.sub g x hx
      have hnr := hA.surv g x hgp (by show g ≤ m.pfileNum; omega) hx
      rcases hS.cov.span g hgp (by omega) x hx0 with h | h
      · exact ent_recspan hU hSg hpn hgp (by omega) hx0 h
      · exact absurd h hnr
    · rw [hS2.log.gone g (by omega)] at hfile; cases hfile
  -- the loop
  have hP : m.pfileNum ≤ k := by
    have a1 := GInv.pfile_le (s := ⟨cfg, m, d⟩) hSg.g
    have a2 : m.precFileNum ≤ k := hSg.g.cntF
    exact Nat.le_trans a1 a2
  have hS3 := hHS2.visited (m2.visited.filter (fun g => !(aff1 ++ aff2).contains g))
  have hR3 : Rel cfg m d { m2 with visited := m2.visited.filter (fun g => !(aff1 ++ aff2).contains g) }
      d2 :=
    hR2.trans (rel_frame hR2.nodup (fun _ h => h) (fun _ => rfl)
      (List.Perm.of_eq (recordedG_congr rfl rfl rfl)))
  have hL3 : C13X.LInv cfg { m2 with visited := m2.visited.filter (fun g => !(aff1 ++ aff2).contains g) }
      d2 psp2 pf := by
    intro b hb
    rw [hrec0 _] at hb
    cases hb
  have hres : primaryGC m d lowUse none = some (primaryGC.go lowUse (m2.pfileNum - pf + 1) pf
      ⟨m2.pmax, pf⟩ { m2 with visited := m2.visited.filter (fun g => !(aff1 ++ aff2).contains g) }
      d2 none 0) := by
    unfold primaryGC
    rw [p1]
    simp only
    rw [p2]
    simp only
    rw [hS2.hdr]
  obtain ⟨k', pf', psp', _, _, g3, g4, _⟩ := pgcGo_t (m0 := m) (d0 := d) hU lowUse f d2 m.pfileNum hwf
    (m2.pfileNum - pf + 1) pf pf
    { m2 with visited := m2.visited.filter (fun g => !(aff1 ++ aff2).contains g) } d2 0 k psp2 hS3 hR3 hL3
    (Nat.le_refl _) hS2.log.le e1 (by show k + 2 * (m2.pfileNum - pf) < 1073741824; omega)
    (by show m2.pfileNum - pf < m2.pfileNum - pf + 1; omega) (fun _ _ => rfl)
  obtain ⟨_, _, _, hpfn⟩ := pgcGo_mono lowUse (m2.pfileNum - pf + 1) pf ⟨m2.pmax, pf⟩
    { m2 with visited := m2.visited.filter (fun g => !(aff1 ++ aff2).contains g) } d2 none 0 hS2.hdr
  refine ⟨_, hres, g3.trans e2, hpfn.trans e1, by rw [hlv2]; exact hE, ?_⟩
  apply g4 h1 h2
  · -- the cycle visits `f`
    show (m2.visited.filter (fun g => !(aff1 ++ aff2).contains g)).contains f = false
    cases hh : (m2.visited.filter (fun g => !(aff1 ++ aff2).contains g)).contains f
    · rfl
    · exfalso
      have hm := List.contains_iff_mem.mp hh
      rw [List.mem_filter] at hm
      obtain ⟨hv1, hv2⟩ := hm
      rw [e3] at hv1
      rcases hvisit with hnv | ⟨x, hx, hne⟩
      · exact hnv hv1
      · -- a record span not in use is recorded, hence applied: the file is affected
        have hdied : x ∉ liveAt 0 (psp2 f) := fun hc => hne ((hE x).mp hc).2
        have := hA.died f x h1 (by show f ≤ m.pfileNum; omega) hx hdied
        rw [List.contains_iff_mem.mpr this] at hv2
        cases hv2
  · intro b hb
    unfold recIn at hb
    rw [hrec0 _] at hb
    cases hb.1
  · exact hlow
  · rw [hlv2]
    obtain ⟨x, hx, he⟩ := huse
    intro hc
    have := (hE x).mpr ⟨hx, he⟩
    rw [hc] at this; cases this

end

end Sth.C11D
