/-
C05 — the freelist of the section-level concurrency model (C13 at this level): under `NoOverlap` the freelist
has no duplicates and never names a current location.  `FLInv` is the invariant, `flInv_sec` its preservation.
-/
import Sth.Lemmas.C05Lin

namespace Sth.Conc

/-- no key of the index is at location `l` -/
def NotCurrent (idx : List (Key × Nat)) (l : Nat) : Prop := ∀ k, lookup idx k ≠ some l

/-- two keys of a well-formed index are at different locations -/
theorem WF.inj {s : State} (h : WF s) {k k' : Key} {l : Nat} (h1 : lookup s.idx k = some l)
    (h2 : lookup s.idx k' = some l) : k = k' := (h.holds h1).key_eq (h.holds h2)

/-- the location a thread is about to publish (putStored) or to free (putIndexed, rmIndexed) is neither on the
    freelist nor current -/
def TFL (idx : List (Key × Nat)) (fl : List Nat) (t : Thread) : Prop :=
  match t.pc with
  | .putStored _ _ _ loc => loc ∉ fl ∧ NotCurrent idx loc
  | .putIndexed _ p => p ∉ fl ∧ NotCurrent idx p
  | .rmIndexed _ loc removed => removed = true → loc ∉ fl ∧ NotCurrent idx loc
  | _ => True

structure FLInv (s : State) : Prop where
  nodup : s.fl.Nodup
  notCur : ∀ l ∈ s.fl, NotCurrent s.idx l
  bound : ∀ l ∈ s.fl, l < s.pri.length
  thr : ∀ (i : Nat) (t : Thread), s.threads[i]? = some t → TFL s.idx s.fl t

/-- a location that becomes current in a section is keyed (in the primary) by the key the thread is mutating -/
theorem sec_idx_effect {s s' : State} {i : Nat} {t : Thread} (hT : TWF s.imm s.pri t) (h : Sec s i t s')
    {k' : Key} {l : Nat} (hl : lookup s'.idx k' = some l) :
    lookup s.idx k' = some l ∨ (t.pc.mutating = some k' ∧ Holds s.pri l k') := by
  cases h with
  | putIndexNew k v loc hpc =>
    simp only [TWF, hpc] at hT
    simp only [setThread_idx] at hl
    split at hl
    · exact Or.inl hl
    · rw [lookup_setIdx] at hl
      split at hl
      · rename_i hk; subst hk
        simp only [Option.some.injEq] at hl; subst hl
        exact Or.inr ⟨by rw [hpc]; rfl, ⟨v, hT.2.1⟩⟩
      · exact Or.inl hl
  | putIndexUpd k v p loc hpc hl' =>
    simp only [TWF, hpc] at hT
    simp only [setThread_idx] at hl
    rw [lookup_setIdx] at hl
    split at hl
    · rename_i hk; subst hk
      simp only [Option.some.injEq] at hl; subst hl
      exact Or.inr ⟨by rw [hpc]; rfl, ⟨v, hT.2.1⟩⟩
    · exact Or.inl hl
  | rmIndex k loc hpc =>
    simp only [setThread_idx] at hl
    rw [lookup_delIdx] at hl
    split at hl
    · simp at hl
    · exact Or.inl hl
  | rmFree k loc removed hpc => cases removed <;> exact Or.inl hl
  | _ => exact Or.inl hl

/-- a location recorded on the freelist in a section is keyed by the key the thread is mutating -/
theorem sec_fl_effect {s s' : State} {i : Nat} {t : Thread} (hT : TWF s.imm s.pri t) (h : Sec s i t s')
    {l : Nat} (hl : l ∈ s'.fl) :
    l ∈ s.fl ∨ (∃ k, t.pc.mutating = some k ∧ Holds s.pri l k) := by
  cases h with
  | putFree k p hpc =>
    simp only [TWF, hpc] at hT
    simp only [setThread_fl, List.mem_append, List.mem_singleton] at hl
    rcases hl with hl | rfl
    · exact Or.inl hl
    · exact Or.inr ⟨k, by rw [hpc]; rfl, hT.2⟩
  | rmFree k loc removed hpc =>
    simp only [TWF, hpc] at hT
    cases removed with
    | false => exact Or.inl hl
    | true =>
      simp only [setThread_fl, if_true, List.mem_append, List.mem_singleton] at hl
      rcases hl with hl | rfl
      · exact Or.inl hl
      · exact Or.inr ⟨k, by rw [hpc]; rfl, hT.2⟩
  | _ => exact Or.inl hl

/-- the location a mutating thread holds in `TFL` is keyed by the key it is mutating -/
theorem TFL.frame {s s' : State} {i : Nat} {t u : Thread} (hT : TWF s.imm s.pri t) (hU : TWF s.imm s.pri u)
    (h : Sec s i t s') (hne : ∀ k, u.pc.mutating = some k → t.pc.mutating ≠ some k)
    (hu : TFL s.idx s.fl u) : TFL s'.idx s'.fl u := by
  have key : ∀ (k : Key) (l : Nat), u.pc.mutating = some k → Holds s.pri l k →
      (l ∉ s.fl ∧ NotCurrent s.idx l) → (l ∉ s'.fl ∧ NotCurrent s'.idx l) := by
    intro k l hk hh ⟨h1, h2⟩
    constructor
    · intro hm
      rcases sec_fl_effect hT h hm with hm | ⟨k2, hk2, hh2⟩
      · exact h1 hm
      · have := hh.key_eq hh2; subst this; exact hne k hk hk2
    · intro k' hl
      rcases sec_idx_effect hT h hl with hl | ⟨hk2, hh2⟩
      · exact h2 k' hl
      · have := hh.key_eq hh2; subst this; exact hne k hk hk2
  unfold TFL at hu ⊢
  unfold TWF at hU
  split at hu
  · rename_i k v prev loc hpc
    simp only [hpc] at hU
    exact key k loc (by rw [hpc]; rfl) ⟨v, hU.2.1⟩ hu
  · rename_i k p hpc
    simp only [hpc] at hU
    exact key k p (by rw [hpc]; rfl) hU.2 hu
  · rename_i k loc removed hpc
    simp only [hpc] at hU
    intro hr
    exact key k loc (by rw [hpc]; rfl) hU.2 (hu hr)
  · trivial

theorem FLInv.build {s g : State} {i : Nat} {t' : Thread} (hthr : g.threads = s.threads) (hn : g.fl.Nodup)
    (hc : ∀ l ∈ g.fl, NotCurrent g.idx l) (hb : ∀ l ∈ g.fl, l < g.pri.length)
    (hothers : ∀ (j : Nat) (u : Thread), j ≠ i → s.threads[j]? = some u → TFL g.idx g.fl u)
    (hown : TFL g.idx g.fl t') : FLInv (setThread g i t') := by
  refine ⟨hn, hc, hb, ?_⟩
  intro j u hu
  rcases setThread_threads_get hu with ⟨_, rfl⟩ | ⟨hji, hu⟩
  · exact hown
  · rw [hthr] at hu; exact hothers j u hji hu

theorem notCur_setIdx {idx : List (Key × Nat)} {fl : List Nat} {k : Key} {loc : Nat}
    (h : ∀ l ∈ fl, NotCurrent idx l) (hloc : loc ∉ fl) : ∀ l ∈ fl, NotCurrent (setIdx idx k loc) l := by
  intro l hl k' hk'
  rw [lookup_setIdx] at hk'
  split at hk'
  · simp only [Option.some.injEq] at hk'; subst hk'; exact hloc hl
  · exact h l hl k' hk'

theorem notCur_delIdx {idx : List (Key × Nat)} {fl : List Nat} {k : Key}
    (h : ∀ l ∈ fl, NotCurrent idx l) : ∀ l ∈ fl, NotCurrent (delIdx idx k) l := by
  intro l hl k' hk'
  rw [lookup_delIdx] at hk'
  split at hk'
  · simp at hk'
  · exact h l hl k' hk'

theorem nodup_snoc {l : List Nat} {a : Nat} (h : l.Nodup) (ha : a ∉ l) : (l ++ [a]).Nodup := by
  rw [List.nodup_append]
  refine ⟨h, by simp, ?_⟩
  intro x hx y hy
  simp only [List.mem_singleton] at hy; subst hy
  intro e; subst e; exact ha hx

/-- the freelist invariant is preserved by a section taken from a state without overlap -/
theorem flInv_sec {s s' : State} {i : Nat} {t : Thread} (h0 : Inv0 s) (ha : Acc s) (hno : NoOverlap s)
    (hf : FLInv s) (ht : s.threads[i]? = some t) (h : Sec s i t s') : FLInv s' := by
  have hT := h0.thr i t ht
  have hA := ha i t ht
  have hF := hf.thr i t ht
  have hothers : ∀ (j : Nat) (u : Thread), j ≠ i → s.threads[j]? = some u → TFL s'.idx s'.fl u :=
    fun j u hji hu => TFL.frame hT (h0.thr j u hu) h (fun k hk hk' => hno.ne hu ht hji hk hk') (hf.thr j u hu)
  cases h with
  | putLook k v rest hpc hp => exact .build rfl hf.nodup hf.notCur hf.bound hothers (by simp [TFL])
  | rmAbsent k rest hpc hp hl => exact .build rfl hf.nodup hf.notCur hf.bound hothers (by simp [TFL, ret])
  | rmLook k rest loc hpc hp hl => exact .build rfl hf.nodup hf.notCur hf.bound hothers (by simp [TFL])
  | readAbsent op k rest hpc hp hk hl => exact .build rfl hf.nodup hf.notCur hf.bound hothers (by simp [TFL, ret])
  | readLook op k rest loc hpc hp hk hl => exact .build rfl hf.nodup hf.notCur hf.bound hothers (by simp [TFL])
  | putKeyExists k v loc hpc himm => exact .build rfl hf.nodup hf.notCur hf.bound hothers (by simp [TFL, ret])
  | putSame k v loc hpc himm hv => exact .build rfl hf.nodup hf.notCur hf.bound hothers (by simp [TFL, ret])
  | putReadNew k v hpc => exact .build rfl hf.nodup hf.notCur hf.bound hothers (by simp [TFL])
  | putReadUpd k v loc hpc himm hv => exact .build rfl hf.nodup hf.notCur hf.bound hothers (by simp [TFL])
  | putStore k v prev hpc =>
    refine .build rfl hf.nodup hf.notCur ?_ hothers ?_
    · intro l hl; have := hf.bound l hl; simp only [List.length_append]; omega
    · simp only [TFL]
      refine ⟨fun hm => Nat.lt_irrefl _ (hf.bound _ hm), fun k' hk' => Nat.lt_irrefl _ (h0.wf.holds hk').lt⟩
  | putIndexNew k v loc hpc =>
    simp only [TFL, hpc] at hF
    refine .build rfl hf.nodup ?_ hf.bound hothers (by simp [TFL, ret])
    show ∀ l ∈ s.fl, NotCurrent (if (lookup s.idx k).isSome then s.idx else setIdx s.idx k loc) l
    split
    · exact hf.notCur
    · exact notCur_setIdx hf.notCur hF.1
  | putIndexUpd k v p loc hpc hl =>
    simp only [TFL, hpc] at hF
    simp only [TAcc, hpc] at hA
    refine .build rfl hf.nodup (notCur_setIdx hf.notCur hF.1) hf.bound hothers ?_
    simp only [TFL]
    refine ⟨fun hm => hf.notCur p hm k hA, ?_⟩
    intro k' hk'
    rw [lookup_setIdx] at hk'
    split at hk'
    · simp only [Option.some.injEq] at hk'; subst hk'; exact hF.2 k hA
    · rename_i hne; exact hne (h0.wf.inj hk' hA)
  | putIndexErr k v p loc hpc hl => exact .build rfl hf.nodup hf.notCur hf.bound hothers (by simp [TFL, ret])
  | putFree k p hpc =>
    simp only [TFL, hpc] at hF
    simp only [TWF, hpc] at hT
    refine .build rfl (nodup_snoc hf.nodup hF.1) ?_ ?_ hothers (by simp [TFL, ret])
    · intro l hl
      simp only [List.mem_append, List.mem_singleton] at hl
      rcases hl with hl | rfl
      · exact hf.notCur l hl
      · exact hF.2
    · intro l hl
      simp only [List.mem_append, List.mem_singleton] at hl
      rcases hl with hl | rfl
      · exact hf.bound l hl
      · exact hT.2.lt
  | readDone op loc hpc => exact .build rfl hf.nodup hf.notCur hf.bound hothers (by simp [TFL, ret])
  | rmReadS k loc hpc => exact .build rfl hf.nodup hf.notCur hf.bound hothers (by simp [TFL])
  | rmIndex k loc hpc =>
    simp only [TAcc, hpc] at hA
    refine .build rfl hf.nodup (notCur_delIdx hf.notCur) hf.bound hothers ?_
    simp only [TFL]
    intro _
    refine ⟨fun hm => hf.notCur loc hm k hA, ?_⟩
    intro k' hk'
    rw [lookup_delIdx] at hk'
    split at hk'
    · simp at hk'
    · rename_i hne; exact hne (h0.wf.inj hk' hA)
  | rmFree k loc removed hpc =>
    simp only [TFL, hpc] at hF
    simp only [TWF, hpc] at hT
    cases removed with
    | false => exact .build rfl hf.nodup hf.notCur hf.bound hothers (by simp [TFL, ret])
    | true =>
      have hF := hF rfl
      refine .build rfl (nodup_snoc hf.nodup hF.1) ?_ ?_ hothers (by simp [TFL, ret])
      · intro l hl
        simp only [if_true, List.mem_append, List.mem_singleton] at hl
        rcases hl with hl | rfl
        · exact hf.notCur l hl
        · exact hF.2
      · intro l hl
        simp only [if_true, List.mem_append, List.mem_singleton] at hl
        rcases hl with hl | rfl
        · exact hf.bound l hl
        · exact hT.2.lt

/-- initial freelist: no duplicates, positions of the primary, nothing current -/
structure InitFL (s : State) : Prop where
  nodup : s.fl.Nodup
  notCur : ∀ l ∈ s.fl, NotCurrent s.idx l
  bound : ∀ l ∈ s.fl, l < s.pri.length

theorem InitFL.flInv {s : State} (hi : Init s) (h : InitFL s) : FLInv s := by
  refine ⟨h.nodup, h.notCur, h.bound, fun i t ht => ?_⟩
  have := (hi.idle t (List.mem_of_getElem? ht)).1
  simp [TFL, this]

/-- `Inv0`, `Acc` and `FLInv` along every schedule without overlap -/
theorem flInv_run {s : State} (h0 : Inv0 s) (ha : Acc s) (hf : FLInv s) (sched : List Nat)
    (hno : NoOverlapAlong s sched) :
    Inv0 (run s sched) ∧ Acc (run s sched) ∧ FLInv (run s sched) := by
  induction sched generalizing s with
  | nil => exact ⟨h0, ha, hf⟩
  | cons i r ih =>
    rw [run_cons]
    have hno' := hno.2
    unfold stepD at hno' ⊢
    cases h : step s i with
    | none => rw [h] at hno'; exact ih h0 ha hf hno'
    | some s' =>
      rw [h] at hno'
      obtain ⟨t, ht, hsec⟩ := step_sec h
      exact ih (inv0_step h0 h) (acc_sec ha hno.1 ht hsec) (flInv_sec h0 ha hno.1 hf ht hsec) hno'

/-! ### no leak: every location is current, recorded, or held by a running mutator -/

/-- the location a thread holds: stored and about to be published (putStored), or superseded / removed and about
    to be recorded on the freelist (putIndexed, rmIndexed) -/
def holdsLoc : Pc → Option Nat
  | .putStored _ _ _ loc => some loc
  | .putIndexed _ p => some p
  | .rmIndexed _ loc true => some loc
  | _ => none

/-- location `l` is accounted for: current, or on the freelist, or held by a running mutator -/
def Accounted (s : State) (l : Nat) : Prop :=
  (∃ k, lookup s.idx k = some l) ∨ l ∈ s.fl ∨ ∃ (j : Nat) (u : Thread), s.threads[j]? = some u ∧ holdsLoc u.pc = some l

theorem Accounted.build {s g : State} {i : Nat} {t t' : Thread} {l : Nat} (ht : s.threads[i]? = some t)
    (hthr : g.threads = s.threads)
    (hidx : ∀ k, lookup s.idx k = some l → Accounted (setThread g i t') l)
    (hfl : ∀ x ∈ s.fl, x ∈ g.fl)
    (hown : holdsLoc t.pc = some l → Accounted (setThread g i t') l)
    (h : Accounted s l) : Accounted (setThread g i t') l := by
  rcases h with ⟨k, hk⟩ | hm | ⟨j, u, hu, hh⟩
  · exact hidx k hk
  · exact Or.inr (Or.inl (hfl l hm))
  · by_cases hji : j = i
    · subst hji; rw [ht] at hu; cases hu; exact hown hh
    · refine Or.inr (Or.inr ⟨j, u, ?_, hh⟩)
      rw [setThread_threads_ne hji, hthr]; exact hu

theorem accounted_sec {s s' : State} {i : Nat} {t : Thread} {l : Nat} (ha : Acc s)
    (ht : s.threads[i]? = some t) (h : Sec s i t s') (hl : Accounted s l) : Accounted s' l := by
  have hA := ha i t ht
  have hself : ∀ (g : State) (t' : Thread), g.threads = s.threads → (setThread g i t').threads[i]? = some t' :=
    fun g t' hg => setThread_threads_self (t := t) (by rw [hg]; exact ht)
  cases h with
  | putIndexNew k v loc hpc =>
    simp only [TAcc, hpc] at hA
    refine Accounted.build ht rfl ?_ (fun x hx => hx) ?_ hl
    · intro k' hk'
      refine Or.inl ⟨k', ?_⟩
      simp only [setThread_idx, hA, Option.isSome_none, Bool.false_eq_true, if_false]
      rw [lookup_setIdx, if_neg (by intro e; subst e; rw [hA] at hk'; cases hk')]; exact hk'
    · intro hh
      simp only [holdsLoc, hpc, Option.some.injEq] at hh; subst hh
      refine Or.inl ⟨k, ?_⟩
      simp only [setThread_idx, hA, Option.isSome_none, Bool.false_eq_true, if_false]
      rw [lookup_setIdx, if_pos rfl]
  | putIndexUpd k v p loc hpc hl' =>
    simp only [TAcc, hpc] at hA
    refine Accounted.build ht rfl ?_ (fun x hx => hx) ?_ hl
    · intro k' hk'
      by_cases hkk : k' = k
      · subst hkk; rw [hA] at hk'; cases hk'
        exact Or.inr (Or.inr ⟨i, _, hself _ _ rfl, rfl⟩)
      · refine Or.inl ⟨k', ?_⟩
        simp only [setThread_idx]; rw [lookup_setIdx, if_neg hkk]; exact hk'
    · intro hh
      simp only [holdsLoc, hpc, Option.some.injEq] at hh; subst hh
      refine Or.inl ⟨k, ?_⟩
      simp only [setThread_idx]; rw [lookup_setIdx, if_pos rfl]
  | putIndexErr k v p loc hpc hl' =>
    simp only [TAcc, hpc] at hA
    rw [hA] at hl'; simp at hl'
  | putFree k p hpc =>
    refine Accounted.build ht rfl (fun k' hk' => Or.inl ⟨k', hk'⟩) (fun x hx => by simp [hx]) ?_ hl
    intro hh
    simp only [holdsLoc, hpc, Option.some.injEq] at hh; subst hh
    exact Or.inr (Or.inl (by simp))
  | rmIndex k loc hpc =>
    simp only [TAcc, hpc] at hA
    refine Accounted.build ht rfl ?_ (fun x hx => hx) (by simp [holdsLoc, hpc]) hl
    intro k' hk'
    by_cases hkk : k' = k
    · subst hkk; rw [hA] at hk'; cases hk'
      refine Or.inr (Or.inr ⟨i, _, hself _ _ rfl, ?_⟩)
      simp [holdsLoc, hA]
    · refine Or.inl ⟨k', ?_⟩
      simp only [setThread_idx]; rw [lookup_delIdx, if_neg hkk]; exact hk'
  | rmFree k loc removed hpc =>
    cases removed with
    | false =>
      exact Accounted.build ht rfl (fun k' hk' => Or.inl ⟨k', hk'⟩) (fun x hx => hx) (by simp [holdsLoc, hpc]) hl
    | true =>
      refine Accounted.build ht rfl (fun k' hk' => Or.inl ⟨k', hk'⟩) (fun x hx => by simp [hx]) ?_ hl
      intro hh
      simp only [holdsLoc, hpc, Option.some.injEq] at hh; subst hh
      exact Or.inr (Or.inl (by simp))
  | putStore k v prev hpc =>
    exact Accounted.build ht rfl (fun k' hk' => Or.inl ⟨k', hk'⟩) (fun x hx => hx) (by simp [holdsLoc, hpc]) hl
  | putLook k v rest hpc hp =>
    exact Accounted.build ht rfl (fun k' hk' => Or.inl ⟨k', hk'⟩) (fun x hx => hx) (by simp [holdsLoc, hpc]) hl
  | rmAbsent k rest hpc hp hl' =>
    exact Accounted.build ht rfl (fun k' hk' => Or.inl ⟨k', hk'⟩) (fun x hx => hx) (by simp [holdsLoc, hpc]) hl
  | rmLook k rest loc hpc hp hl' =>
    exact Accounted.build ht rfl (fun k' hk' => Or.inl ⟨k', hk'⟩) (fun x hx => hx) (by simp [holdsLoc, hpc]) hl
  | readAbsent op k rest hpc hp hk hl' =>
    exact Accounted.build ht rfl (fun k' hk' => Or.inl ⟨k', hk'⟩) (fun x hx => hx) (by simp [holdsLoc, hpc]) hl
  | readLook op k rest loc hpc hp hk hl' =>
    exact Accounted.build ht rfl (fun k' hk' => Or.inl ⟨k', hk'⟩) (fun x hx => hx) (by simp [holdsLoc, hpc]) hl
  | putKeyExists k v loc hpc himm =>
    exact Accounted.build ht rfl (fun k' hk' => Or.inl ⟨k', hk'⟩) (fun x hx => hx) (by simp [holdsLoc, hpc]) hl
  | putSame k v loc hpc himm hv =>
    exact Accounted.build ht rfl (fun k' hk' => Or.inl ⟨k', hk'⟩) (fun x hx => hx) (by simp [holdsLoc, hpc]) hl
  | putReadNew k v hpc =>
    exact Accounted.build ht rfl (fun k' hk' => Or.inl ⟨k', hk'⟩) (fun x hx => hx) (by simp [holdsLoc, hpc]) hl
  | putReadUpd k v loc hpc himm hv =>
    exact Accounted.build ht rfl (fun k' hk' => Or.inl ⟨k', hk'⟩) (fun x hx => hx) (by simp [holdsLoc, hpc]) hl
  | readDone op loc hpc =>
    exact Accounted.build ht rfl (fun k' hk' => Or.inl ⟨k', hk'⟩) (fun x hx => hx) (by simp [holdsLoc, hpc]) hl
  | rmReadS k loc hpc =>
    exact Accounted.build ht rfl (fun k' hk' => Or.inl ⟨k', hk'⟩) (fun x hx => hx) (by simp [holdsLoc, hpc]) hl

/-- a location allocated by a section is held by the allocating thread -/
theorem accounted_new {s s' : State} {i : Nat} {t : Thread} {l : Nat} (ht : s.threads[i]? = some t)
    (h : Sec s i t s') (h1 : s.pri.length ≤ l) (h2 : l < s'.pri.length) : Accounted s' l := by
  cases h with
  | putStore k v prev hpc =>
    simp only [setThread_pri, List.length_append, List.length_cons, List.length_nil] at h2
    have : l = s.pri.length := by omega
    subst this
    exact Or.inr (Or.inr ⟨i, _, setThread_threads_self ht, rfl⟩)
  | rmFree k loc removed hpc =>
    cases removed <;> (simp only [setThread_pri, if_true, Bool.false_eq_true, if_false] at h2; omega)
  | _ => simp only [setThread_pri] at h2; omega

/-- every location allocated since `n0` is accounted for, along every schedule without overlap -/
theorem accounted_run {s : State} {n0 : Nat} (ha : Acc s)
    (hacc : ∀ l, n0 ≤ l → l < s.pri.length → Accounted s l) (sched : List Nat) (hno : NoOverlapAlong s sched) :
    ∀ l, n0 ≤ l → l < (run s sched).pri.length → Accounted (run s sched) l := by
  induction sched generalizing s with
  | nil => exact hacc
  | cons i r ih =>
    rw [run_cons]
    have hno' := hno.2
    unfold stepD at hno' ⊢
    cases h : step s i with
    | none => rw [h] at hno'; exact ih ha hacc hno'
    | some s' =>
      rw [h] at hno'
      obtain ⟨t, ht, hsec⟩ := step_sec h
      refine ih (acc_sec ha hno.1 ht hsec) ?_ hno'
      intro l h1 h2
      by_cases hlt : l < s.pri.length
      · exact accounted_sec ha ht hsec (hacc l h1 hlt)
      · exact accounted_new ht hsec (by omega) h2

end Sth.Conc
