/-
C05 (pools layer) — the abstract register of the index pools: ghost linearization log of the instrumented run,
the simulation of the atomic register map (`sim_sec`), and the run-level invariants.
-/
import Sth.Lemmas.C05Pools

namespace Sth.ConcPools

variable {U V : Type} {ap : U → Option V → Option V}

/-! ### runs -/

def stepD (ap : U → Option V → Option V) (s : State U V) (i : Nat) : State U V := (step ap s i).getD s

theorem run_nil (s : State U V) : run ap s [] = s := rfl
theorem run_cons (s : State U V) (i : Nat) (sched : List Nat) :
    run ap s (i :: sched) = run ap (stepD ap s i) sched := rfl
theorem run_append (s : State U V) (a b : List Nat) : run ap s (a ++ b) = run ap (run ap s a) b := by
  simp [run, List.foldl_append]

theorem inv_step {s s' : State U V} {i : Nat} (hs : Inv s) (h : step ap s i = some s') : Inv s' := by
  obtain ⟨t, ht, hsec⟩ := step_secC hs.fl1 hs.fl2 h
  exact inv_sec hs ht hsec

theorem inv_stepD {s : State U V} (hs : Inv s) (i : Nat) : Inv (stepD ap s i) := by
  unfold stepD
  cases h : step ap s i with
  | none => exact hs
  | some s' => exact inv_step hs h

theorem inv_run {s : State U V} (hs : Inv s) (sched : List Nat) : Inv (run ap s sched) := by
  induction sched generalizing s with
  | nil => exact hs
  | cons i r ih => rw [run_cons]; exact ih (inv_stepD hs i)

/-! ### the register specification -/

/-- a mutator applied to the register of its bucket (`none` = it stores nothing: the register keeps its value) -/
def applyU (ap : U → Option V → Option V) (u : U) (r : Option V) : Option V := (ap u r).or r

/-- the sequential specification: one atomic register per bucket -/
def specStep (ap : U → Option V → Option V) (m : Bucket → Option V) : Op U → (Bucket → Option V) × Res V
  | .upd b u => (fun b' => if b' = b then applyU ap u (m b) else m b', .updated (m b))
  | .read b => (m, .got (m b))
  | .flush => (m, .flushed)

def specRun (ap : U → Option V → Option V) (m : Bucket → Option V) :
    List (Op U) → (Bucket → Option V) × List (Res V)
  | [] => (m, [])
  | op :: ops =>
    ((specRun ap (specStep ap m op).1 ops).1, (specStep ap m op).2 :: (specRun ap (specStep ap m op).1 ops).2)

theorem specRun_append (m : Bucket → Option V) (a b : List (Op U)) :
    specRun ap m (a ++ b) =
      ((specRun ap (specRun ap m a).1 b).1, (specRun ap m a).2 ++ (specRun ap (specRun ap m a).1 b).2) := by
  induction a generalizing m with
  | nil => simp [specRun]
  | cons op a ih => simp [specRun, ih]

/-- THE LINEARIZATION POINT of a section: a mutator's only section; a reader's info section; a flush's
    returning section (a flush has no effect on the register map) -/
def linOf (s : State U V) (t : Thread U V) : Option (Op U × Res V) :=
  match t.pc with
  | .idle =>
    match t.prog with
    | .upd b u :: _ => some (.upd b u, .updated (view s b))
    | .read b :: _ => some (.read b, .got (view s b))
    | .flush :: _ => if s.next.isEmpty then some (.flush, .flushed) else none
    | [] => none
  | .flPublished => some (.flush, .flushed)
  | _ => none

def linPoint (s : State U V) (i : Nat) : Option (Op U × Res V) := (s.threads[i]?).bind (linOf s)

/-- the result of a read that has passed its info section and has not returned yet -/
def pending (s : State U V) (t : Thread U V) : Option (Res V) :=
  match t.pc with
  | .readInfo _ inf => some (.got (infoVal s.file inf))
  | _ => none

/-- what the info section finds IS the view (correct protocol) -/
theorem infoVal_infoOf (s : State U V) (b : Bucket) : infoVal s.file (infoOf s b) = view s b := by
  unfold infoOf view
  cases hn : getP s.next b with
  | some v => simp [infoVal]
  | none =>
    cases hc : getP s.cur b with
    | some v => simp [infoVal]
    | none =>
      simp only [Option.none_or]
      unfold fileVal
      cases ht : getP s.table b <;> simp [infoVal]

/-- SIMULATION of the register map by the correct protocol -/
theorem sim_sec {s s' : State U V} {i : Nat} {t : Thread U V} (hs : Inv s) (ht : s.threads[i]? = some t)
    (h : SecC ap s i t s') :
    match linOf s t with
    | some (op, r) => specStep ap (view s) op = (view s', r)
    | none => view s' = view s := by
  have hv := view_sec hs ht h
  cases h with
  | updSome b u rest v hpc hp hap =>
    simp only [hpc, hp] at hv
    simp only [linOf, hpc, hp, specStep, applyU]
    refine Prod.ext ?_ rfl
    funext b'; exact (hv b').symm
  | updNone b u rest hpc hp hap =>
    simp only [hpc, hp] at hv
    simp only [linOf, hpc, hp, specStep, applyU]
    refine Prod.ext ?_ rfl
    funext b'; exact (hv b').symm
  | info b rest hpc hp =>
    simp only [hpc, hp] at hv
    simp only [linOf, hpc, hp, specStep]
    refine Prod.ext ?_ rfl
    funext b'; exact (hv b').symm
  | flushEmpty rest hpc hp hl he =>
    simp only [hpc, hp] at hv
    simp only [linOf, hpc, hp, he, if_true, specStep]
    refine Prod.ext ?_ rfl
    funext b'; exact (hv b').symm
  | flushSwap rest hpc hp hl he =>
    simp only [hpc, hp] at hv
    simp only [linOf, hpc, hp, he, Bool.false_eq_true, if_false]
    funext b'; exact hv b'
  | readDone b inf hpc =>
    simp only [hpc] at hv
    simp only [linOf, hpc]
    funext b'; exact hv b'
  | append hpc =>
    simp only [hpc] at hv
    simp only [linOf, hpc]
    funext b'; exact hv b'
  | publish blks hpc =>
    simp only [hpc] at hv
    simp only [linOf, hpc]
    funext b'; exact hv b'
  | release hpc =>
    simp only [hpc] at hv
    simp only [linOf, hpc, specStep]
    refine Prod.ext ?_ rfl
    funext b'; exact (hv b').symm

/-! ### the instrumented run -/

abbrev Log (U V : Type) := List (Nat × Op U × Res V)

def linEntry (s : State U V) (i : Nat) : Log U V :=
  match linPoint s i with
  | some e => [(i, e)]
  | none => []

def stepL (ap : U → Option V → Option V) (sl : State U V × Log U V) (i : Nat) : State U V × Log U V :=
  match step ap sl.1 i with
  | none => sl
  | some s' => (s', sl.2 ++ linEntry sl.1 i)

def runLFrom (ap : U → Option V → Option V) (sl : State U V × Log U V) (sched : List Nat) : State U V × Log U V :=
  sched.foldl (stepL ap) sl

/-- the instrumented run: final state and ghost linearization log -/
def runL (ap : U → Option V → Option V) (s : State U V) (sched : List Nat) : State U V × Log U V :=
  runLFrom ap (s, []) sched

theorem stepL_fst (sl : State U V × Log U V) (i : Nat) : (stepL ap sl i).1 = stepD ap sl.1 i := by
  unfold stepL stepD
  cases step ap sl.1 i <;> rfl

theorem runLFrom_fst (sl : State U V × Log U V) (sched : List Nat) :
    (runLFrom ap sl sched).1 = run ap sl.1 sched := by
  induction sched generalizing sl with
  | nil => rfl
  | cons i r ih =>
    show (runLFrom ap (stepL ap sl i) r).1 = run ap (stepD ap sl.1 i) r
    rw [ih, stepL_fst]

theorem runL_fst (s : State U V) (sched : List Nat) : (runL ap s sched).1 = run ap s sched := runLFrom_fst _ _

def logOf (i : Nat) (log : Log U V) : List (Op U × Res V) := (log.filter (·.1 = i)).map (·.2)

theorem logOf_append (i : Nat) (a b : Log U V) : logOf i (a ++ b) = logOf i a ++ logOf i b := by
  simp [logOf]

theorem logOf_linEntry_self (s : State U V) (i : Nat) : logOf i (linEntry s i) = (linPoint s i).toList := by
  unfold linEntry logOf
  cases linPoint s i <;> simp

theorem logOf_linEntry_ne (s : State U V) {i j : Nat} (h : j ≠ i) : logOf j (linEntry s i) = [] := by
  unfold linEntry logOf
  cases linPoint s i with
  | none => simp
  | some e => simp; exact fun e' => h e'.symm

def rem (s : State U V) (t : Thread U V) : List (Op U) := if (pending s t).isSome then t.prog.tail else t.prog

theorem secC_globals {s s' : State U V} {i : Nat} {t : Thread U V} (h : SecC ap s i t s') :
    (∃ x, s'.file = s.file ++ x) ∧ ∃ t', s'.threads = s.threads.set i t' := by
  cases h with
  | append hpc => exact ⟨⟨_, rfl⟩, _, rfl⟩
  | _ => exact ⟨⟨[], by simp⟩, _, rfl⟩

theorem infoVal_append {file : List (Bucket × V)} {inf : Info V} (h : ∀ p, inf = .pos (some p) → p < file.length)
    (x : List (Bucket × V)) : infoVal (file ++ x) inf = infoVal file inf := by
  cases inf with
  | cached v => rfl
  | pos p =>
    cases p with
    | none => rfl
    | some p => simp only [infoVal]; rw [List.getElem?_append_left (h p rfl)]

theorem pending_frame {s s' : State U V} {i j : Nat} {t u : Thread U V} (h : SecC ap s i t s')
    (hu : TInv s j u) : pending s' u = pending s u := by
  obtain ⟨⟨x, hx⟩, _⟩ := secC_globals h
  unfold pending
  unfold TInv at hu
  split
  · rename_i b inf hpc
    simp only [hpc] at hu
    rw [hx, infoVal_append hu.2]
  · rfl

theorem lin_own {s s' : State U V} {i : Nat} {t : Thread U V} (hT : TInv s i t) (h : SecC ap s i t s') :
    ∃ t', s'.threads = s.threads.set i t' ∧
      rem s t = ((linOf s t).map (·.1)).toList ++ rem s' t' ∧
      t'.out ++ (pending s' t').toList = t.out ++ (pending s t).toList ++ ((linOf s t).map (·.2)).toList := by
  cases h with
  | updSome b u rest v hpc hp hap =>
    refine ⟨_, rfl, ?_, ?_⟩ <;> simp [rem, pending, hpc, linOf, hp, ret]
  | updNone b u rest hpc hp hap =>
    refine ⟨_, rfl, ?_, ?_⟩ <;> simp [rem, pending, hpc, linOf, hp, ret]
  | info b rest hpc hp =>
    refine ⟨_, rfl, ?_, ?_⟩ <;> simp [rem, pending, hpc, linOf, hp, infoVal_infoOf]
  | flushEmpty rest hpc hp hl he =>
    refine ⟨_, rfl, ?_, ?_⟩ <;> simp [rem, pending, hpc, linOf, hp, he, ret]
  | flushSwap rest hpc hp hl he =>
    refine ⟨_, rfl, ?_, ?_⟩ <;> simp [rem, pending, hpc, linOf, hp, he]
  | readDone b inf hpc =>
    refine ⟨_, rfl, ?_, ?_⟩ <;> simp [rem, pending, hpc, linOf, ret]
  | append hpc =>
    refine ⟨_, rfl, ?_, ?_⟩ <;> simp [rem, pending, hpc, linOf]
  | publish blks hpc =>
    refine ⟨_, rfl, ?_, ?_⟩ <;> simp [rem, pending, hpc, linOf]
  | release hpc =>
    simp only [TInv, hpc] at hT
    obtain ⟨rest, hp⟩ := hT.1
    refine ⟨_, rfl, ?_, ?_⟩ <;> simp [rem, pending, hpc, linOf, hp, ret]

/-- per thread: the log restricted to the thread lists the calls of its program in order, with the results the
    calls returned followed by the result of the read that is past its info section -/
def LinInv (progs : List (List (Op U))) (s : State U V) (log : Log U V) : Prop :=
  ∀ (i : Nat) (t : Thread U V), s.threads[i]? = some t → ∃ p, progs[i]? = some p ∧
    (logOf i log).map (·.1) ++ rem s t = p ∧ (logOf i log).map (·.2) = t.out ++ (pending s t).toList

theorem set_get_cases {α} {l : List α} {i j : Nat} {a u : α} (h : (l.set i a)[j]? = some u) :
    (j = i ∧ u = a) ∨ (j ≠ i ∧ l[j]? = some u) := by
  simp only [List.getElem?_set] at h
  by_cases hij : i = j
  · subst hij
    simp only [if_true] at h
    split at h
    · left; exact ⟨rfl, by simpa using h.symm⟩
    · simp at h
  · simp only [hij, if_false] at h
    right; exact ⟨fun e => hij e.symm, h⟩

theorem lin_step {progs : List (List (Op U))} {s s' : State U V} {log : Log U V} {i : Nat} (h0 : Inv s)
    (hl : LinInv progs s log) (h : step ap s i = some s') : LinInv progs s' (log ++ linEntry s i) := by
  obtain ⟨t, ht, hsec⟩ := step_secC h0.fl1 h0.fl2 h
  obtain ⟨t', hthr, h1, h2⟩ := lin_own (h0.thr i t ht) hsec
  have hlp : linPoint s i = linOf s t := by simp [linPoint, ht]
  intro j u hu
  rw [hthr] at hu
  rcases set_get_cases hu with ⟨rfl, rfl⟩ | ⟨hji, hu⟩
  · obtain ⟨p, hp, ho, hr⟩ := hl j t ht
    refine ⟨p, hp, ?_, ?_⟩
    · rw [logOf_append, logOf_linEntry_self, hlp, List.map_append, List.append_assoc, ← ho, h1]
      congr 2
      cases linOf s t <;> rfl
    · rw [logOf_append, logOf_linEntry_self, hlp, List.map_append, hr, h2]
      congr 1
      cases linOf s t <;> rfl
  · obtain ⟨p, hp, ho, hr⟩ := hl j u hu
    have hpe := pending_frame hsec (h0.thr j u hu)
    refine ⟨p, hp, ?_, ?_⟩
    · rw [logOf_append, logOf_linEntry_ne s hji, List.append_nil]
      unfold rem at ho ⊢; rw [hpe]; exact ho
    · rw [logOf_append, logOf_linEntry_ne s hji, List.append_nil, hpe]; exact hr

structure Good (ap : U → Option V → Option V) (progs : List (List (Op U))) (m0 : Bucket → Option V)
    (s : State U V) (log : Log U V) : Prop where
  inv : Inv s
  lin : LinInv progs s log
  spec : specRun ap m0 (log.map (·.2.1)) = (view s, log.map (·.2.2))

theorem good_stepL {progs : List (List (Op U))} {m0 : Bucket → Option V} {s : State U V} {log : Log U V}
    (hg : Good ap progs m0 s log) (i : Nat) :
    Good ap progs m0 (stepL ap (s, log) i).1 (stepL ap (s, log) i).2 := by
  unfold stepL
  cases h : step ap s i with
  | none => exact hg
  | some s' =>
    obtain ⟨t, ht, hsec⟩ := step_secC hg.inv.fl1 hg.inv.fl2 h
    refine ⟨inv_step hg.inv h, lin_step hg.inv hg.lin h, ?_⟩
    have hsim := sim_sec hg.inv ht hsec
    have hlp : linPoint s i = linOf s t := by simp [linPoint, ht]
    show specRun ap m0 ((log ++ linEntry s i).map (·.2.1)) = (view s', (log ++ linEntry s i).map (·.2.2))
    rw [List.map_append, List.map_append, specRun_append, hg.spec]
    unfold linEntry
    rw [hlp]
    cases hlo : linOf s t with
    | none =>
      rw [hlo] at hsim
      simp only [] at hsim
      simp [specRun, hsim]
    | some e =>
      rw [hlo] at hsim
      simp only [] at hsim
      simp [specRun, hsim]

theorem good_runLFrom {progs : List (List (Op U))} {m0 : Bucket → Option V} {s : State U V} {log : Log U V}
    (hg : Good ap progs m0 s log) (sched : List Nat) :
    Good ap progs m0 (runLFrom ap (s, log) sched).1 (runLFrom ap (s, log) sched).2 := by
  induction sched generalizing s log with
  | nil => exact hg
  | cons i r ih =>
    show Good ap progs m0 (runLFrom ap (stepL ap (s, log) i) r).1 (runLFrom ap (stepL ap (s, log) i) r).2
    exact ih (good_stepL hg i)

/-- initial states: the invariant holds (in particular flushLock is free and curPool is clean), every thread is
    idle and has returned nothing -/
structure Init (s : State U V) : Prop where
  inv : Inv s
  idle : ∀ t ∈ s.threads, t.pc = .idle ∧ t.out = []

theorem pending_idle {s : State U V} {t : Thread U V} (h : t.pc = .idle) : pending s t = none := by
  simp [pending, h]

theorem Init.good {s : State U V} (h : Init s) : Good ap (s.threads.map (·.prog)) (view s) s [] := by
  refine ⟨h.inv, ?_, rfl⟩
  intro i t ht
  obtain ⟨hpc, hout⟩ := h.idle t (List.mem_of_getElem? ht)
  refine ⟨t.prog, by simp [ht], ?_, ?_⟩
  · simp [logOf, rem, pending_idle hpc]
  · simp [logOf, pending_idle hpc, hout]

theorem init_Init (progs : List (List (Op U))) : Init (init progs : State U V) := by
  refine ⟨⟨rfl, rfl, ?_, by simp [init], by simp [init], ?_, ?_, ?_⟩, ?_⟩
  · intro b p h; simp [init, getP_nil] at h
  · intro _ b v h; simp [init, getP_nil] at h
  · intro i h; simp [init] at h
  · intro i t ht
    simp only [init, List.getElem?_map, Option.map_eq_some_iff] at ht
    obtain ⟨p, _, rfl⟩ := ht
    simp [TInv]
  · intro t ht
    simp only [init, List.mem_map] at ht
    obtain ⟨p, _, rfl⟩ := ht
    exact ⟨rfl, rfl⟩

/-- any store at rest is an initial state: flags off, pools empty, flushLock free, the table names positions of the
    file, threads idle -/
theorem Init.of_rest {s : State U V} (h1 : s.lockAfterSwap = false) (h2 : s.skipPools = false)
    (hn : s.next = []) (hc : s.cur = []) (hl : s.flushLock = none)
    (htab : ∀ b p, getP s.table b = some p → p < s.file.length)
    (hidle : ∀ t ∈ s.threads, t.pc = .idle ∧ t.out = []) : Init s := by
  refine ⟨⟨h1, h2, htab, by simp [hc], by simp [hn], ?_, ?_, ?_⟩, hidle⟩
  · intro _ b v h; rw [hc, getP_nil] at h; cases h
  · intro i h; rw [hl] at h; cases h
  · intro i t ht
    have := (hidle t (List.mem_of_getElem? ht)).1
    simp [TInv, this]

/-- a call is running -/
def Pc.running : Pc V → Bool
  | .idle => false
  | _ => true

/-- the consequences of `LinInv` for one thread -/
theorem LinInv.facts {progs : List (List (Op U))} {s : State U V} {log : Log U V} (hl : LinInv progs s log)
    {i : Nat} {t : Thread U V} (ht : s.threads[i]? = some t) :
    ∃ p, progs[i]? = some p ∧
      (logOf i log).map (·.1) = p.take (logOf i log).length ∧
      t.out.length ≤ (logOf i log).length ∧
      (logOf i log).length ≤ t.out.length + (if t.pc.running then 1 else 0) ∧
      t.out = ((logOf i log).map (·.2)).take t.out.length ∧
      (t.pc = .idle → t.out = (logOf i log).map (·.2)) := by
  obtain ⟨p, hp, ho, hr⟩ := hl i t ht
  have hlen : (logOf i log).length = t.out.length + (pending s t).toList.length := by
    have := congrArg List.length hr
    simpa using this
  refine ⟨p, hp, ?_, by omega, ?_, ?_, ?_⟩
  · rw [← ho]
    have : (logOf i log).length = ((logOf i log).map (·.1)).length := by simp
    rw [this, List.take_left']
    rfl
  · rw [hlen]
    unfold pending
    cases t.pc <;> simp [Pc.running]
  · rw [hr, List.take_left']; rfl
  · intro hpc; rw [hr, pending_idle hpc]; simp

/-! ### programs -/

theorem prog_own {s s' : State U V} {i : Nat} {t : Thread U V} (h : SecC ap s i t s') :
    ∃ t', s'.threads = s.threads.set i t' ∧
      ((t'.prog = t.prog ∧ t'.out = t.out) ∨ (∃ r, t'.prog = t.prog.tail ∧ t'.out = t.out ++ [r])) := by
  cases h with
  | info | flushSwap | append | publish => exact ⟨_, rfl, Or.inl ⟨rfl, rfl⟩⟩
  | _ => exact ⟨_, rfl, Or.inr ⟨_, rfl, rfl⟩⟩

def ProgInv (progs : List (List (Op U))) (s : State U V) : Prop :=
  ∀ (i : Nat) (t : Thread U V), s.threads[i]? = some t → ∃ p, progs[i]? = some p ∧ t.prog = p.drop t.out.length

theorem progInv_run {progs : List (List (Op U))} {s : State U V} (h0 : Inv s) (hp : ProgInv progs s)
    (sched : List Nat) : ProgInv progs (run ap s sched) := by
  induction sched generalizing s with
  | nil => exact hp
  | cons i r ih =>
    rw [run_cons]
    refine ih (inv_stepD h0 i) ?_
    unfold stepD
    cases h : step ap s i with
    | none => exact hp
    | some s' =>
      obtain ⟨t, ht, hsec⟩ := step_secC h0.fl1 h0.fl2 h
      obtain ⟨t', hthr, hcase⟩ := prog_own hsec
      intro j u hu
      simp only [Option.getD_some] at hu
      rw [hthr] at hu
      rcases set_get_cases hu with ⟨rfl, rfl⟩ | ⟨_, hu⟩
      · obtain ⟨p, hpp, hd⟩ := hp j t ht
        refine ⟨p, hpp, ?_⟩
        rcases hcase with ⟨h1, h2⟩ | ⟨r, h1, h2⟩
        · rw [h1, h2]; exact hd
        · rw [h1, h2, hd, List.tail_drop]; simp
      · exact hp j u hu

theorem Init.progInv {s : State U V} (h : Init s) : ProgInv (s.threads.map (·.prog)) s := by
  intro i t ht
  refine ⟨t.prog, by simp [ht], ?_⟩
  simp [(h.idle t (List.mem_of_getElem? ht)).2]

end Sth.ConcPools
