/-
C04 — rescanning a span log: `scanFile` skips deleted spans, `scanIndex` walks the files from the
header's first file, and the table it builds is the one the log invariant describes; `findLast` from
the first file.
Core Lean only.
-/
import Sth.Lemmas.C04Flush

namespace Sth

/-! ### counting keys in an interval -/

theorem NMap.length_ge_interval {α : Type} : ∀ (K first : Nat) (m : NMap α),
    (∀ f, first ≤ f → f < first + K → NMap.get? m f ≠ none) → K ≤ m.length
  | 0, _, _, _ => Nat.zero_le _
  | K + 1, first, m, h => by
    have h1 := NMap.length_filter_lt m (first + K) (h (first + K) (by omega) (by omega))
    have h2 := NMap.length_ge_interval K first (m.filter (·.1 ≠ first + K)) (by
      intro f hf1 hf2
      rw [NMap.get?_filter_ne m (first + K) f (by omega)]
      exact h f hf1 (by omega))
    omega

theorem has_true_of_get {α : Type} {fs : NMap α} {f : Nat} (h : fs.get? f ≠ none) : fs.has f = true := by
  unfold NMap.has
  cases hg : fs.get? f with
  | none => exact absurd hg h
  | some _ => rfl

theorem findLast_go_from {files : NMap Bytes} {first N : Nat}
    (hall : ∀ f, first ≤ f → f ≤ N → files.get? f ≠ none) (hno : files.get? (N + 1) = none) :
    ∀ (k n fuel last : Nat), first ≤ n → n + k = N → k + 2 ≤ fuel → findLast.go files fuel n last = N
  | 0, n, fuel, last, hn1, hn, hf => by
    obtain ⟨f, rfl⟩ : ∃ f, fuel = f + 2 := ⟨fuel - 2, by omega⟩
    have hn' : n = N := by omega
    subst hn'
    rw [findLast_go_eq, has_true_of_get (hall n hn1 (Nat.le_refl _)), if_pos rfl, findLast_go_eq,
      has_eq_false hno]
    simp
  | k + 1, n, fuel, last, hn1, hn, hf => by
    obtain ⟨f, rfl⟩ : ∃ f, fuel = f + 1 := ⟨fuel - 1, by omega⟩
    rw [findLast_go_eq, has_true_of_get (hall n hn1 (by omega)), if_pos rfl]
    exact findLast_go_from hall hno k (n + 1) f n (by omega) (by omega) (by omega)

theorem findLast_from {files : NMap Bytes} {first N : Nat} (hle : first ≤ N)
    (hall : ∀ f, first ≤ f → f ≤ N → files.get? f ≠ none) (hno : files.get? (N + 1) = none) :
    findLast files first = N := by
  unfold findLast
  have := NMap.length_ge_interval (N + 1 - first) first files (fun f h1 h2 => hall f h1 (by omega))
  exact findLast_go_from hall hno (N - first) first _ 0 (Nat.le_refl _) (by omega) (by omega)

/-! ### scanning a span file -/

/-- (tag, table position) of the live records of a file, in file order -/
def fileLive (max fnum base : Nat) (ss : List GSpan) : List (Nat × Nat) :=
  (liveAt base ss).map (fun x => (leDec (x.2.take 4), fnum * max + x.1 + 4))

theorem setAll_cons (bk : NMap Nat) (x : Nat × Nat) (l : List (Nat × Nat)) :
    setAll bk (x :: l) = setAll (bk.set x.1 x.2) l := rfl

theorem setAll_append (bk : NMap Nat) (a b : List (Nat × Nat)) :
    setAll bk (a ++ b) = setAll (setAll bk a) b := by
  unfold setAll; rw [List.foldl_append]

theorem readAt4_span (pre : Bytes) (s : GSpan) (rest : Bytes) :
    readAt (pre ++ (s.bytes ++ rest)) pre.length 4 = some (le32 s.raw) := by
  have hA : (le32 s.raw).length = 4 := leEnc_length 4 _
  have := readAt_at_end pre (le32 s.raw) (s.body ++ rest)
  rw [hA] at this
  have e : pre ++ (s.bytes ++ rest) = pre ++ le32 s.raw ++ (s.body ++ rest) := by
    unfold GSpan.bytes; simp [List.append_assoc]
  rw [e, this]

theorem scanFile_spans {bits max fnum : Nat} :
    ∀ (ss : List GSpan) (pre : Bytes) (bk : NMap Nat) (fuel : Nat),
      (∀ s ∈ ss, IdxSpanOK bits s) → ss.length < fuel →
      scanFile (2 ^ bits) max fnum fuel (pre ++ gbytes ss) pre.length bk =
        some (pre ++ gbytes ss, setAll bk (fileLive max fnum pre.length ss))
  | [], pre, bk, fuel, _, hf => by
    obtain ⟨f, rfl⟩ : ∃ f, fuel = f + 1 := ⟨fuel - 1, by simp at hf; omega⟩
    simp only [gbytes_nil, List.append_nil]
    simp only [scanFile, readAt_end, availAt_end]
    simp [fileLive, liveAt, setAll]
  | s :: ss, pre, bk, fuel, hok, hf => by
    obtain ⟨f, rfl⟩ : ∃ f, fuel = f + 1 := ⟨fuel - 1, by simp at hf; omega⟩
    have hs := hok s (by simp)
    have hlen := hs.1
    have h1 : readAt (pre ++ gbytes (s :: ss)) pre.length 4 = some (le32 s.raw) := by
      rw [gbytes_cons]; exact readAt4_span _ _ _
    have h3 : leDec (le32 s.raw) = s.raw := leDec_leEnc 4 _ (GSpan.raw_lt hs.1)
    have ih := scanFile_spans (bits := bits) (max := max) (fnum := fnum) ss (pre ++ s.bytes)
    have e1 : pre ++ s.bytes ++ gbytes ss = pre ++ gbytes (s :: ss) := by
      rw [gbytes_cons]; simp [List.append_assoc]
    have e2 : (pre ++ s.bytes).length = pre.length + 4 + s.body.length := by
      rw [List.length_append, GSpan.bytes_length]; omega
    rw [scanFile]
    simp only [h1, h3]
    by_cases hd : s.dead = true
    · have hraw : s.raw = s.body.length + two31 := by unfold GSpan.raw; simp [hd]
      rw [if_pos (by omega)]
      have := ih bk f (fun x hx => hok x (by simp [hx])) (by simp at hf; omega)
      rw [e1, e2] at this
      have e3 : pre.length + 4 + (s.raw - two31) = pre.length + 4 + s.body.length := by omega
      rw [e3, this]
      simp only [fileLive, liveAt, hd, if_true, GSpan.bytes_length]
      have e4 : pre.length + (4 + s.body.length) = pre.length + 4 + s.body.length := by omega
      rw [e4]
    · have hd' : s.dead = false := by simpa using hd
      have hraw : s.raw = s.body.length := by unfold GSpan.raw; simp [hd']
      rw [if_neg (by omega), hraw]
      have h2 : readAt (pre ++ gbytes (s :: ss)) (pre.length + 4) s.body.length = some s.body := by
        rw [gbytes_cons]; exact readAt_span_body _ _ _
      simp only [h2]
      rw [if_neg (by have := hs.2 hd'; omega)]
      have := ih (bk.set (leDec (s.body.take 4)) (fnum * max + (pre.length + 4))) f
        (fun x hx => hok x (by simp [hx])) (by simp at hf; omega)
      rw [e1, e2] at this
      rw [this]
      simp only [fileLive, liveAt, hd', Bool.false_eq_true, if_false, List.map_cons, setAll_cons,
        GSpan.bytes_length]
      have e4 : pre.length + (4 + s.body.length) = pre.length + 4 + s.body.length := by omega
      rw [e4, Nat.add_assoc (fnum * max)]

/-! ### scanning the files from the first one -/

def rangeLive (max : Nat) (sp : Nat → List GSpan) : Nat → Nat → List (Nat × Nat)
  | _, 0 => []
  | n, k + 1 => fileLive max n 0 (sp n) ++ rangeLive max sp (n + 1) k

theorem scanIndex_go_spans {bits max first N : Nat} {files0 : NMap Bytes}
    {sp : Nat → List GSpan}
    (hfiles : ∀ f, first ≤ f → f ≤ N → files0.get? f = some (gbytes (sp f)))
    (hno : files0.get? (N + 1) = none)
    (hok : ∀ f, first ≤ f → f ≤ N → ∀ s ∈ sp f, IdxSpanOK bits s) :
    ∀ (k n fuel last : Nat) (files : NMap Bytes) (bk : NMap Nat), first ≤ n → n + k = N + 1 →
      k + 1 ≤ fuel → (∀ f, files.get? f = files0.get? f) →
      ∃ files', scanIndex.go (2 ^ bits) max fuel n last files bk =
          some (files', setAll bk (rangeLive max sp n k), if k = 0 then last else N) ∧
        ∀ f, files'.get? f = files0.get? f
  | 0, n, fuel, last, files, bk, _, hn, hf, heq => by
    obtain ⟨f, rfl⟩ : ∃ f, fuel = f + 1 := ⟨fuel - 1, by omega⟩
    have : n = N + 1 := by omega
    subst this
    refine ⟨files, ?_, heq⟩
    rw [scanIndex_go_eq, heq, hno]
    simp [rangeLive, setAll]
  | k + 1, n, fuel, last, files, bk, hn1, hn, hf, heq => by
    obtain ⟨f, rfl⟩ : ∃ f, fuel = f + 1 := ⟨fuel - 1, by omega⟩
    have hget : files.get? n = some (gbytes (sp n)) := by rw [heq, hfiles n hn1 (by omega)]
    rw [scanIndex_go_eq, hget]
    simp only
    have hlast : (if k + 1 = 0 then last else N) = (if k = 0 then n else N) := by
      by_cases hk : k = 0
      · simp only [hk]; simp; omega
      · simp [hk]
    by_cases hem : (gbytes (sp n)).isEmpty = true
    · rw [if_pos hem]
      have hnil : sp n = [] := gbytes_eq_nil (List.isEmpty_iff.mp hem)
      obtain ⟨files', g1, g2⟩ := scanIndex_go_spans hfiles hno hok k (n + 1) f n files bk
        (by omega) (by omega) (by omega) heq
      refine ⟨files', ?_, g2⟩
      rw [g1, hlast]
      simp [rangeLive, hnil, fileLive, liveAt]
    · rw [if_neg hem]
      have hs := scanFile_spans (bits := bits) (max := max) (fnum := n) (sp n) [] bk
        ((gbytes (sp n)).length + 1) (hok n hn1 (by omega)) (by
          have := gbytes_length_ge (sp n); omega)
      simp only [List.nil_append, List.length_nil] at hs
      rw [hs]
      simp only
      obtain ⟨files', g1, g2⟩ := scanIndex_go_spans hfiles hno hok k (n + 1) f n
        (files.set n (gbytes (sp n))) (setAll bk (fileLive max n 0 (sp n))) (by omega) (by omega)
        (by omega) (by
          intro f'
          rw [NMap.get?_set]
          split
          · rename_i hf'; rw [hf', hfiles n hn1 (by omega)]
          · exact heq f')
      refine ⟨files', ?_, g2⟩
      rw [g1, hlast]
      simp only [rangeLive, setAll_append]

theorem scanIndex_spans {bits max first N : Nat} {files : NMap Bytes} {sp : Nat → List GSpan}
    (hle : first ≤ N)
    (hfiles : ∀ f, first ≤ f → f ≤ N → files.get? f = some (gbytes (sp f)))
    (hno : files.get? (N + 1) = none)
    (hok : ∀ f, first ≤ f → f ≤ N → ∀ s ∈ sp f, IdxSpanOK bits s) :
    ∃ files', scanIndex (2 ^ bits) max files first =
        some (files', setAll [] (rangeLive max sp first (N + 1 - first)), N) ∧
      ∀ f, files'.get? f = files.get? f := by
  have hlen := NMap.length_ge_interval (N + 1 - first) first files
    (fun f h1 h2 => by rw [hfiles f h1 (by omega)]; simp)
  obtain ⟨files', g1, g2⟩ := scanIndex_go_spans (max := max) hfiles hno hok (N + 1 - first) first
    (files.length + 1) 0 files [] (Nat.le_refl _) (by omega) (by omega) (fun _ => rfl)
  refine ⟨files', ?_, g2⟩
  unfold scanIndex
  rw [g1]
  have : ¬ (N + 1 - first = 0) := by omega
  simp [this]

end Sth

namespace Sth

theorem mem_fileLive {max fnum : Nat} {ss : List GSpan} {x : Nat × Nat} :
    x ∈ fileLive max fnum 0 ss ↔
      ∃ off body, (off, body) ∈ liveAt 0 ss ∧ x = (leDec (body.take 4), fnum * max + off + 4) := by
  unfold fileLive
  simp only [List.mem_map]
  constructor
  · rintro ⟨y, hy, rfl⟩
    exact ⟨y.1, y.2, hy, rfl⟩
  · rintro ⟨off, body, hy, rfl⟩
    exact ⟨(off, body), hy, rfl⟩

theorem mem_rangeLive {max : Nat} {sp : Nat → List GSpan} : ∀ {k n : Nat} {x : Nat × Nat},
    x ∈ rangeLive max sp n k ↔
      ∃ f off body, n ≤ f ∧ f < n + k ∧ (off, body) ∈ liveAt 0 (sp f) ∧
        x = (leDec (body.take 4), f * max + off + 4)
  | 0, n, x => by
    simp only [rangeLive, List.not_mem_nil, false_iff]
    rintro ⟨f, _, _, h1, h2, _⟩
    omega
  | k + 1, n, x => by
    simp only [rangeLive, List.mem_append, mem_fileLive, mem_rangeLive (k := k)]
    constructor
    · rintro (⟨off, body, h1, h2⟩ | ⟨f, off, body, h1, h2, h3, h4⟩)
      · exact ⟨n, off, body, Nat.le_refl _, by omega, h1, h2⟩
      · exact ⟨f, off, body, by omega, by omega, h3, h4⟩
    · rintro ⟨f, off, body, h1, h2, h3, h4⟩
      by_cases hf : f = n
      · subst hf; exact Or.inl ⟨off, body, h3, h4⟩
      · exact Or.inr ⟨f, off, body, by omega, by omega, h3, h4⟩

theorem rangeLive_sorted {max : Nat} {sp : Nat → List GSpan} : ∀ (k n : Nat),
    (∀ f, n ≤ f → f < n + k → ∀ x ∈ liveAt 0 (sp f), x.1 < max) →
    (rangeLive max sp n k).Pairwise (fun x y => x.2 < y.2)
  | 0, _, _ => by simp [rangeLive]
  | k + 1, n, h => by
    simp only [rangeLive]
    rw [List.pairwise_append]
    refine ⟨?_, rangeLive_sorted k (n + 1) (fun f h1 h2 => h f (by omega) (by omega)), ?_⟩
    · unfold fileLive
      rw [List.pairwise_map]
      apply List.Pairwise.imp _ (liveAt_sorted (sp n) 0)
      intro a b hab
      simp only
      omega
    · intro x hx y hy
      obtain ⟨off, body, g1, rfl⟩ := mem_fileLive.mp hx
      obtain ⟨f, off', body', k1, k2, k3, rfl⟩ := mem_rangeLive.mp hy
      have := h n (Nat.le_refl _) (by omega) _ g1
      simp only at this ⊢
      have hmul : (n + 1) * max ≤ f * max := Nat.mul_le_mul_right _ k1
      rw [Nat.add_mul] at hmul
      omega

/-- along a list with increasing positions, the last set for a key is the largest -/
theorem setAll_max : ∀ (l : List (Nat × Nat)), l.Pairwise (fun x y => x.2 < y.2) →
    ∀ (bk : NMap Nat) (b : Nat),
      ((∀ q, (b, q) ∉ l) ∧ (setAll bk l).get? b = bk.get? b) ∨
      (∃ p, (b, p) ∈ l ∧ (setAll bk l).get? b = some p ∧ ∀ q, (b, q) ∈ l → q ≤ p)
  | [], _, bk, b => Or.inl ⟨by simp, rfl⟩
  | x :: l, hs, bk, b => by
    rw [List.pairwise_cons] at hs
    rw [setAll_cons]
    rcases setAll_max l hs.2 (bk.set x.1 x.2) b with ⟨h1, h2⟩ | ⟨p, h1, h2, h3⟩
    · by_cases hb : b = x.1
      · right
        refine ⟨x.2, by subst hb; simp, by rw [h2, hb, NMap.get?_set_eq], ?_⟩
        intro q hq
        simp only [List.mem_cons] at hq
        rcases hq with hq | hq
        · rw [← hq]; exact Nat.le_refl _
        · exact absurd hq (h1 q)
      · left
        refine ⟨?_, by rw [h2, NMap.get?_set_ne _ _ hb]⟩
        intro q hq
        simp only [List.mem_cons] at hq
        rcases hq with hq | hq
        · exact hb (by rw [← hq])
        · exact h1 q hq
    · right
      refine ⟨p, by simp [h1], h2, ?_⟩
      intro q hq
      simp only [List.mem_cons] at hq
      rcases hq with hq | hq
      · have := hs.1 _ h1
        rw [← hq] at this
        simp only at this
        omega
      · exact h3 q hq

/-- the table a rescan builds is the table of the log invariant -/
theorem scan_tbl {bits imax N : Nat} {files : NMap Bytes} {T : Nat → Nat} {first : Nat}
    {sp : Nat → List GSpan} (h : IdxLogT bits imax N files T first sp) (b : Nat) :
    ((setAll [] (rangeLive imax sp first (N + 1 - first))).get? b).getD 0 = T b := by
  have hle := h.le
  have hsorted := rangeLive_sorted (max := imax) (sp := sp) (N + 1 - first) first
    (fun f h1 h2 x hx => (h.t2 f h1 (by omega) x hx).1)
  rcases setAll_max _ hsorted [] b with ⟨h1, h2⟩ | ⟨p, h1, h2, h3⟩
  · rw [h2]
    simp only [NMap.get?_nil, Option.getD_none]
    by_cases h0 : T b = 0
    · exact h0.symm
    · exfalso
      obtain ⟨f, off, body, g1, g2, g3, g4, g5⟩ := h.t1 b h0
      exact h1 (T b) (mem_rangeLive.mpr ⟨f, off, body, g1, by omega, g3, by rw [g4, g5]⟩)
  · rw [h2]
    simp only [Option.getD_some]
    obtain ⟨f, off, body, g1, g2, g3, g4⟩ := mem_rangeLive.mp h1
    simp only [Prod.mk.injEq] at g4
    have hle2 := (h.t2 f g1 (by omega) _ g3).2
    simp only at hle2
    rw [← g4.1, ← g4.2] at hle2
    have h0 : T b ≠ 0 := by omega
    obtain ⟨f', off', body', k1, k2, k3, k4, k5⟩ := h.t1 b h0
    have := h3 (T b) (mem_rangeLive.mpr ⟨f', off', body', k1, by omega, k3, by rw [k4, k5]⟩)
    omega

end Sth
