/-
C10 widened (U1) — remapIndex on logs when offsets may be rejected: the files are rewritten exactly as
before (`rmP`, rejected offsets become 0), and the removal pool collects, for every bucket whose current
list holds a rejected entry, that list without those entries.
Core Lean only.
-/
import Sth.Lemmas.C10BDefs

namespace Sth

namespace C10B

/-- what goes to the removal pool: the list without the rejected entries, remapped -/
def keptRL (remap : Nat → Option Nat) (rl : RecordList) : RecordList := rl.filterMap (remapEntry remap)

def allGood (remap : Nat → Option Nat) (rl : RecordList) : Bool := rl.all fun e => (remap e.blk.off).isSome

/-- the pool side of `remapStep`, in terms of the current lists `cur` -/
def poolStep (remap : Nat → Option Nat) (imax f : Nat) (cur : Nat → Option RecordList)
    (p : NMap RecordList) (bp : Nat × Nat) : NMap RecordList :=
  if bp.2 = 0 then p else
  if (localizeIdx imax bp.2).2 ≠ f then p else
  match cur bp.1 with
  | some rl => if allGood remap rl then p else p.set bp.1 (keptRL remap rl)
  | none => p

/-- what `remapFile` needs to know about file `f` (a log of `recs`), the table and the current lists -/
structure FileOKB (remap : Nat → Option Nat) (imax f : Nat) (recs : List LRec) (bk : List (Nat × Nat))
    (cur : Nat → Option RecordList) : Prop where
  keys : (bk.map (·.1)).Nodup
  start : ∀ pre r post, recs = pre ++ r :: post → (logBytes pre).length < imax
  f32 : f < two32
  hmax : 1 ≤ imax
  cur : ∀ b pos, (b, pos) ∈ bk → pos ≠ 0 → (localizeIdx imax pos).2 = f →
    ∃ pre rl post, recs = pre ++ (b, rl) :: post ∧ pos = f * imax + (logBytes pre).length + 4 ∧
      FlushOK rl ∧ cur b = some rl

theorem remapFile_fold {remap : Nat → Option Nat} {imax f : Nat} {recs : List LRec} {bk : List (Nat × Nat)}
    {cur : Nat → Option RecordList} (hok : FileOKB remap imax f recs bk cur) :
    ∀ (todo done : List (Nat × Nat)) (p : NMap RecordList), bk = done ++ todo →
      todo.foldlM (remapStep remap imax f)
          (logBytes (rmP (memS done) (remapRL remap) imax f 0 recs), p) =
        some (logBytes (rmP (memS (done ++ todo)) (remapRL remap) imax f 0 recs),
          todo.foldl (poolStep remap imax f cur) p) := by
  have hg := encodeRL_remapRL_length remap
  intro todo
  induction todo with
  | nil => intro done p _; simp
  | cons x todo ih =>
    intro done p hbk
    obtain ⟨b, pos⟩ := x
    have hnext := fun p' => ih (done ++ [(b, pos)]) p' (by rw [hbk]; simp)
    have happ : done ++ (b, pos) :: todo = (done ++ [(b, pos)]) ++ todo := by simp
    rw [happ]
    rw [List.foldlM_cons, List.foldl_cons]
    -- positions inside file `f`
    have hposIn : ∀ pre r post, recs = pre ++ r :: post →
        localizeIdx imax (f * imax + (logBytes pre).length + 4) = ((logBytes pre).length + 4, f) :=
      fun pre r post h => localizeIdx_eq hok.hmax (hok.start pre r post h) hok.f32
    by_cases h0 : pos = 0
    · -- empty bucket
      have hskip : remapStep remap imax f
          (logBytes (rmP (memS done) (remapRL remap) imax f 0 recs), p) (b, pos) =
          some (logBytes (rmP (memS done) (remapRL remap) imax f 0 recs), p) := by
        unfold remapStep; simp only [h0, if_true]
      have hps : poolStep remap imax f cur p (b, pos) = p := by
        unfold poolStep; simp only [h0, if_true]
      rw [hskip, hps]
      simp only [Option.bind_eq_bind, Option.bind_some]
      have : rmP (memS (done ++ [(b, pos)])) (remapRL remap) imax f 0 recs =
          rmP (memS done) (remapRL remap) imax f 0 recs := by
        apply rmP_congr
        intro pre r post _
        apply memS_append
        intro he
        have := congrArg Prod.snd he
        simp only at this
        omega
      rw [← this]
      exact hnext p
    · by_cases hf : (localizeIdx imax pos).2 = f
      · -- the bucket's current list is in this file
        obtain ⟨pre, rl, post, hrecs, hpos, hfl, hcb⟩ := hok.cur b pos (by rw [hbk]; simp) h0 hf
        have hnot : memS done b pos = false := by
          unfold memS
          rw [List.contains_eq_mem]
          simp only [decide_eq_false_iff_not]
          intro hm
          have hk := hok.keys
          rw [hbk, List.map_append, List.map_cons] at hk
          have := (List.nodup_append.mp hk).2.2 b (List.mem_map_of_mem (f := (·.1)) hm) b (by simp)
          exact this rfl
        have hcur : rmP (memS done) (remapRL remap) imax f 0 recs =
            rmP (memS done) (remapRL remap) imax f 0 pre ++ (b, rl) ::
              rmP (memS done) (remapRL remap) imax f (0 + (logBytes pre).length + (idxRecBytes b rl).length) post := by
          rw [hrecs]
          apply rmP_split_not
          rw [Nat.zero_add, ← hpos]; exact hnot
        have hlp : (localizeIdx imax pos).1 =
            (logBytes (rmP (memS done) (remapRL remap) imax f 0 pre)).length + 4 := by
          rw [hpos, hposIn pre (b, rl) post hrecs, rmP_logLen hg]
        have hps : poolStep remap imax f cur p (b, pos) =
            (if allGood remap rl then p else p.set b (keptRL remap rl)) := by
          unfold poolStep
          simp only [h0, if_false, hf, ne_eq, not_true_eq_false, hcb]
        have hstep : remapStep remap imax f
            (logBytes (rmP (memS done) (remapRL remap) imax f 0 recs), p) (b, pos) =
            some (logBytes (rmP (memS done) (remapRL remap) imax f 0 pre) ++
              idxRecBytes b (remapRL remap rl) ++
              logBytes (rmP (memS done) (remapRL remap) imax f
                (0 + (logBytes pre).length + (idxRecBytes b rl).length) post),
              if allGood remap rl then p else p.set b (keptRL remap rl)) := by
          unfold remapStep
          simp only [h0, if_false, hf, ne_eq, not_true_eq_false]
          rw [hlp, hcur, logBytes_append, logBytes_cons, ← List.append_assoc,
            remapBucket_at remap _ _ b rl hfl]
          unfold allGood keptRL
          cases rl.all fun e => (remap e.blk.off).isSome <;> simp
        rw [hstep, hps]
        simp only [Option.bind_eq_bind, Option.bind_some]
        have hnew : rmP (memS (done ++ [(b, pos)])) (remapRL remap) imax f 0 recs =
            rmP (memS done) (remapRL remap) imax f 0 pre ++ (b, remapRL remap rl) ::
              rmP (memS done) (remapRL remap) imax f
                (0 + (logBytes pre).length + (idxRecBytes b rl).length) post := by
          rw [hrecs, rmP_split (p := memS (done ++ [(b, pos)]))]
          · congr 1
            · apply rmP_congr
              intro pre1 r post1 hpre
              apply memS_append
              intro he
              have h2 := congrArg Prod.snd he
              simp only at h2
              have := logBytes_lt_of_split hpre
              rw [hpos] at h2
              omega
            · congr 1
              apply rmP_congr
              intro pre1 r post1 _
              apply memS_append
              intro he
              have h2 := congrArg Prod.snd he
              simp only at h2
              rw [hpos] at h2
              have := idxRecBytes_length b rl
              omega
          · rw [Nat.zero_add, ← hpos]
            unfold memS
            rw [List.contains_eq_mem]
            simp
        have hn := hnext (if allGood remap rl then p else p.set b (keptRL remap rl))
        rw [hnew] at hn
        rw [logBytes_append, logBytes_cons, ← List.append_assoc] at hn
        exact hn
      · -- the bucket's current list is in another file
        have hskip : remapStep remap imax f
            (logBytes (rmP (memS done) (remapRL remap) imax f 0 recs), p) (b, pos) =
            some (logBytes (rmP (memS done) (remapRL remap) imax f 0 recs), p) := by
          unfold remapStep; simp only [h0, if_false, ne_eq, hf, not_false_eq_true, if_true]
        have hps : poolStep remap imax f cur p (b, pos) = p := by
          unfold poolStep; simp only [h0, if_false, ne_eq, hf, not_false_eq_true, if_true]
        rw [hskip, hps]
        simp only [Option.bind_eq_bind, Option.bind_some]
        have : rmP (memS (done ++ [(b, pos)])) (remapRL remap) imax f 0 recs =
            rmP (memS done) (remapRL remap) imax f 0 recs := by
          apply rmP_congr
          intro pre r post hsp
          apply memS_append
          intro he
          have h2 := congrArg Prod.snd he
          simp only at h2
          apply hf
          rw [← h2, Nat.zero_add, hposIn pre r post hsp]
        rw [← this]
        exact hnext p


/-- `remapFile` on a log -/
theorem remapFile_log {remap : Nat → Option Nat} {imax f : Nat} {recs : List LRec} {bk : NMap Nat}
    {cur : Nat → Option RecordList} (hok : FileOKB remap imax f recs bk cur) :
    remapFile remap imax bk f (logBytes recs) =
      some (logBytes (rmP (memS bk) (remapRL remap) imax f 0 recs),
        List.foldl (poolStep remap imax f cur) [] bk) := by
  rw [remapFile_eq]
  have h := remapFile_fold hok bk [] [] (by simp)
  simp only [List.nil_append] at h
  have e : rmP (memS []) (remapRL remap) imax f 0 recs = recs := by
    apply rmP_id
    intro pre r post _ hp
    unfold memS at hp
    simp at hp
  rw [e] at h
  exact h

end C10B

end Sth
