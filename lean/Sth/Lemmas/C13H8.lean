import Sth.Lemmas.C13H7

/-!
C13 along GC histories, completeness: the loop over the closed files and the whole cycle (the proofs
follow `pgcGo_g`, `primaryGC_g` of Sth/Lemmas/C04PGC3.lean with coverage carried along).
Core Lean only.
-/

namespace Sth.C13H

open Sth.C11

section
variable {c : Cfg} {U : List (Bytes × Bytes)} {cfg : Cfg} {spec : Spec} {B : Nat}

/-- the loop of primaryGC.gc over the closed files -/
theorem pgcGo_h (hU : Univ c.kind U) (lowUse : Nat) :
    ∀ (fuel nn pf : Nat) (m : Mem) (d : Disk) (budget : Budget) (recl k : Nat)
      (psp : Nat → List GSpan), HState c U cfg m d spec k B pf psp → pf ≤ nn → nn ≤ m.pfileNum →
      k + 2 * (m.pfileNum - nn) < 1073741824 →
      ∃ k' pf' psp', HState c U cfg (primaryGC.go lowUse fuel nn ⟨m.pmax, pf⟩ m d budget recl).2.1
          (primaryGC.go lowUse fuel nn ⟨m.pmax, pf⟩ m d budget recl).2.2.1 spec k' B pf' psp' ∧
        k' ≤ k + 2 * (m.pfileNum - nn) := by
  intro fuel
  induction fuel with
  | zero =>
    intro nn pf m d budget recl k psp hS _ _ _
    exact ⟨k, pf, psp, hS, by omega⟩
  | succ fuel ih =>
    intro nn pf m d budget recl k psp hS h1 h2 hk
    unfold primaryGC.go
    by_cases he : nn = m.pfileNum
    · rw [if_pos he]; exact ⟨k, pf, psp, hS, by omega⟩
    rw [if_neg he]
    by_cases hv : m.visited.contains nn = true
    · rw [if_pos hv]
      obtain ⟨k', pf', psp', g1, g2⟩ :=
        ih (nn + 1) pf m d budget recl k psp hS (by omega) (by omega) (by omega)
      exact ⟨k', pf', psp', g1, by omega⟩
    rw [if_neg hv]
    obtain ⟨k1, psp1, hS1, hk1, e1, e2, e3, hdead⟩ :=
      reapRecords_h hU hS (by omega) h1 (by omega) lowUse
    cases hr : reapRecords m d nn lowUse with
    | mk r rest =>
    obtain ⟨m1, d1, got⟩ := rest
    rw [hr] at hS1 e1 e2 e3 hdead
    simp only at hS1 e1 e2 e3 hdead ⊢
    have herr : ∃ k' pf' psp', HState c U cfg m1 d1 spec k' B pf' psp' ∧
        k' ≤ k + 2 * (m.pfileNum - nn) := ⟨k1, pf, psp1, hS1, by omega⟩
    -- the continuation after a file that was not an error
    have hcont : r ≠ .err →
        ∃ k' pf' psp', HState c U cfg
          (if (poll budget).1 = true then
              ((⟨.deadline, 0⟩ : PgcRes), ({ m1 with visited := m1.visited ++ [nn] } : Mem),
                (if r = .dead ∧ nn = pf then
                  ((⟨m.pmax, pf + 1⟩ : PriHeader),
                    ({ d1 with phdr := some ⟨m.pmax, pf + 1⟩, pfiles := d1.pfiles.del nn } : Disk))
                 else (⟨m.pmax, pf⟩, d1)).2, (poll budget).2)
            else primaryGC.go lowUse fuel (nn + 1)
              (if r = .dead ∧ nn = pf then
                  ((⟨m.pmax, pf + 1⟩ : PriHeader),
                    ({ d1 with phdr := some ⟨m.pmax, pf + 1⟩, pfiles := d1.pfiles.del nn } : Disk))
                 else (⟨m.pmax, pf⟩, d1)).1
              { m1 with visited := m1.visited ++ [nn] }
              (if r = .dead ∧ nn = pf then
                  ((⟨m.pmax, pf + 1⟩ : PriHeader),
                    ({ d1 with phdr := some ⟨m.pmax, pf + 1⟩, pfiles := d1.pfiles.del nn } : Disk))
                 else (⟨m.pmax, pf⟩, d1)).2 (poll budget).2 (recl + got)).2.1
          (if (poll budget).1 = true then
              ((⟨.deadline, 0⟩ : PgcRes), ({ m1 with visited := m1.visited ++ [nn] } : Mem),
                (if r = .dead ∧ nn = pf then
                  ((⟨m.pmax, pf + 1⟩ : PriHeader),
                    ({ d1 with phdr := some ⟨m.pmax, pf + 1⟩, pfiles := d1.pfiles.del nn } : Disk))
                 else (⟨m.pmax, pf⟩, d1)).2, (poll budget).2)
            else primaryGC.go lowUse fuel (nn + 1)
              (if r = .dead ∧ nn = pf then
                  ((⟨m.pmax, pf + 1⟩ : PriHeader),
                    ({ d1 with phdr := some ⟨m.pmax, pf + 1⟩, pfiles := d1.pfiles.del nn } : Disk))
                 else (⟨m.pmax, pf⟩, d1)).1
              { m1 with visited := m1.visited ++ [nn] }
              (if r = .dead ∧ nn = pf then
                  ((⟨m.pmax, pf + 1⟩ : PriHeader),
                    ({ d1 with phdr := some ⟨m.pmax, pf + 1⟩, pfiles := d1.pfiles.del nn } : Disk))
                 else (⟨m.pmax, pf⟩, d1)).2 (poll budget).2 (recl + got)).2.2.1 spec k' B pf' psp' ∧
          k' ≤ k + 2 * (m.pfileNum - nn) := by
      intro _
      -- the state after the optional drop of the first file
      have hdrop : ∃ pf2 d2,
          (if r = .dead ∧ nn = pf then
                  ((⟨m.pmax, pf + 1⟩ : PriHeader),
                    ({ d1 with phdr := some ⟨m.pmax, pf + 1⟩, pfiles := d1.pfiles.del nn } : Disk))
                 else (⟨m.pmax, pf⟩, d1)) = (⟨m1.pmax, pf2⟩, d2) ∧
            HState c U cfg m1 d2 spec k1 B pf2 psp1 ∧ pf2 ≤ nn + 1 := by
        by_cases hd : r = .dead ∧ nn = pf
        · rw [if_pos hd]
          obtain ⟨hd1, hd2⟩ := hd
          subst hd2
          refine ⟨nn + 1, _, by rw [e2], ?_, Nat.le_refl _⟩
          have := drop_h hS1 (by omega) (by omega) (hdead hd1)
          rw [e2] at this
          exact this
        · rw [if_neg hd]
          exact ⟨pf, d1, by rw [e2], hS1, by omega⟩
      obtain ⟨pf2, d2, hd1, hS2, hpf2⟩ := hdrop
      rw [hd1]
      simp only
      have hG2 := hS2.visited (m1.visited ++ [nn])
      by_cases hp : (poll budget).1 = true
      · rw [if_pos hp]
        exact ⟨k1, pf2, psp1, hG2, by omega⟩
      · rw [if_neg hp]
        obtain ⟨k', pf', psp', g1, g2⟩ := ih (nn + 1) pf2 { m1 with visited := m1.visited ++ [nn] } d2
          (poll budget).2 (recl + got) k1 psp1 hG2 hpf2
          (by show nn + 1 ≤ m1.pfileNum; omega)
          (by show k1 + 2 * (m1.pfileNum - (nn + 1)) < 1073741824; omega)
        refine ⟨k', pf', psp', g1, ?_⟩
        have : k' ≤ k1 + 2 * (m1.pfileNum - (nn + 1)) := g2
        omega
    cases r with
    | err => exact herr
    | dead => exact hcont (by decide)
    | kept => exact hcont (by decide)

/-- a whole primary GC cycle keeps coverage -/
theorem primaryGC_h (hU : Univ c.kind U) {m : Mem} {d : Disk} {k pf : Nat} {psp : Nat → List GSpan}
    (hS : HState c U cfg m d spec k B pf psp) (hk : 3 * k < 1073741824) (lowUse : Nat)
    (budget : Budget) {res : PgcRes × Mem × Disk × Budget}
    (hres : primaryGC m d lowUse budget = some res) :
    ∃ k' pf' psp', HState c U cfg res.2.1 res.2.2.1 spec k' B pf' psp' := by
  unfold primaryGC at hres
  have hp1 := freelistPass_h hU hS (by omega) budget
  cases hf1 : freelistPass m d budget with
  | mk r1 rest =>
  obtain ⟨m1, d1, b1, aff1⟩ := rest
  rw [hf1] at hres hp1
  simp only at hres hp1
  have hS1 : r1 ≠ .flushErr → ∃ psp1, HState c U cfg m1 d1 spec k B pf psp1 := by
    intro hne
    rcases hp1 with h | h
    · exact absurd h hne
    · exact h
  cases r1 with
  | flushErr => cases hres
  | deadline =>
    simp only [Option.some.injEq] at hres; subst hres
    obtain ⟨psp1, h⟩ := hS1 (by decide)
    exact ⟨k, pf, psp1, h.visited _⟩
  | err =>
    simp only [Option.some.injEq] at hres; subst hres
    obtain ⟨psp1, h⟩ := hS1 (by decide)
    exact ⟨k, pf, psp1, h.visited _⟩
  | ok =>
  obtain ⟨psp1, hS1'⟩ := hS1 (by decide)
  have hp2 := freelistPass_h hU hS1' (by omega) b1
  cases hf2 : freelistPass m1 d1 b1 with
  | mk r2 rest =>
  obtain ⟨m2, d2, b2, aff2⟩ := rest
  rw [hf2] at hres hp2
  simp only at hres hp2
  have hS2 : r2 ≠ .flushErr → ∃ psp2, HState c U cfg m2 d2 spec k B pf psp2 := by
    intro hne
    rcases hp2 with h | h
    · exact absurd h hne
    · exact h
  cases r2 with
  | flushErr => cases hres
  | deadline =>
    simp only [Option.some.injEq] at hres; subst hres
    obtain ⟨psp2, h⟩ := hS2 (by decide)
    exact ⟨k, pf, psp2, h.visited _⟩
  | err =>
    simp only [Option.some.injEq] at hres; subst hres
    obtain ⟨psp2, h⟩ := hS2 (by decide)
    exact ⟨k, pf, psp2, h.visited _⟩
  | ok =>
  obtain ⟨psp2, hS2'⟩ := hS2 (by decide)
  have hS3 := hS2'.visited (m2.visited.filter (fun f => !(aff1 ++ aff2).contains f))
  have hh : d2.phdr = some ⟨m2.pmax, pf⟩ := hS2'.gs.hdr
  rw [hh] at hres
  simp only [Option.some.injEq] at hres
  subst hres
  have hle : m2.pfileNum ≤ k := by
    have h1 := GInv.pfile_le (s := ⟨cfg, m2, d2⟩) hS2'.gs.g
    have h2 : m2.precFileNum ≤ k := hS2'.gs.g.cntF
    exact Nat.le_trans h1 h2
  obtain ⟨k', pf', psp', g1, _⟩ := pgcGo_h hU lowUse (m2.pfileNum - pf + 1) pf pf
    { m2 with visited := m2.visited.filter (fun f => !(aff1 ++ aff2).contains f) } d2 b2 0 k psp2 hS3
    (Nat.le_refl _) hS2'.gs.log.le (by show k + 2 * (m2.pfileNum - pf) < 1073741824; omega)
  exact ⟨k', pf', psp', g1⟩

/-- the `pgc` step on a multihash store keeps coverage -/
theorem step_pgc_h (hU : Univ c.kind U) {s : SState} {k pf : Nat} {psp : Nat → List GSpan}
    (hS : HState c U s.cfg s.m s.d spec k B pf psp) (hk : 3 * k < 1073741824) (lowUse : Nat)
    (budget : Budget) : CovS (stepS s (.pgc lowUse budget)).1 := by
  obtain ⟨cfg', m, d⟩ := s
  have hkind : m.kind = .mh := hS.gs.g.kind
  unfold stepS
  simp only [hkind]
  cases hp : primaryGC m d lowUse budget with
  | none => exact covS_of hS
  | some res =>
    obtain ⟨k', pf', psp', g1⟩ := primaryGC_h hU hS hk lowUse budget hp
    exact covS_of g1

end

end Sth.C13H
